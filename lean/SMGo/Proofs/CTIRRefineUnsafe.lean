/-
  Refinement, point layer, the NON-constant-time affine conversions: the generated IR (SMGo/Gen/CTIRProg.lean) of
    * `fn_90` (*SM2Point).GetAffineX_Unsafe   vs  `Model.Point.getAffineXUnsafe`,
    * `fn_95` (*SM2Point).bytes$safe=false, `fn_94` (*SM2Point).Bytes_Unsafe  vs  `Model.Point.bytes C p false`
  (/repo/sm2/internal/sm2_point.go:148-194, 222-233).  Style of SMGo/Proofs/CTIRRefinePointB.lean, part 3 (the safe
  versions `fn_89`, `fn_93`, `fn_91`): `Computes`, `Pre`, explicit fuels, no termination hypothesis; an arbitrary
  `Model.Point.Ctx α` with limb encoding `enc`; points are encoded by `CTIRRefinePointB.ptV enc`
  (`= CTIRRefinePointA.ptV enc`: `ptV_eq`).

  HYPOTHESES
  * callees: `IsZero` (38) and `ToBigInt` (42) through the theorems `isZero_prefix`, `toBigInt_computes` of
    CTIRRefinePointB.lean, hence `HasWrappers P`, `HasAffine P`, `hB : ∀ e, BytesPrims P G X C.F enc Fm Ft e`
    (sm2FromMontgomery, sm2ToBytes), `hG2 : G 2 = bytesV (bytes F F.zero)` (fiat.sm2ZeroEncoding);
    the three functions themselves: `HasUnsafe P` (`prog_hasUnsafe`).
  * global 14 (`internal.curveP`, the `*big.Int` `getCurve().Params().P`) holds the modulus of the model:
    `hG14 : G 14 = .int C.F.modulus`.
  * externals of `math/big` on IR integers, only on the arguments that occur:
      `InvOk X m` (m the modulus): SetBytes (7) `= Bytes.toNatBE`; ModInverse (5) `X 5 [a, m] = [Spec.SM2.invMod a m]`
        for natural `a`; Mul (6) on naturals; Mod (4) `X 4 [a, m] = [a % m]` for natural `a`;
      `BytesOk X` (`big.Int.Bytes()` as the translator splits it): ByteLen (1) `= (Bytes.ofNatMin v).length`,
        FillBytes (3) `= Bytes.ofNatBE buf.length v`.
    Both hold for the driver's `stdOracle extKinds tape`, the first for EVERY modulus (`stdOracle_invOk`,
    `stdOracle_bytesOk`): `stdOracle`'s `.modInverse` is `powModNat (a % m) (m - 2) m`, and `powModNat b e m =
    Spec.SM2.powMod b e m` for all arguments (`powModNat_eq`: the two square-and-multiply loops are the same function),
    so `stdOracle` and `Spec.SM2.invMod` are literally the same function `a^(m-2) mod m`, prime modulus or not.  (That
    this function is what Go's `ModInverse` returns is true only for a prime `m` not dividing `a` — the situation of
    every call here: `m = p` and `z` is a canonical residue with `IsZero(z) = 0` — and is a fact about the external
    world, outside these theorems: for a non-invertible argument Go returns `nil` and the following `Mul` would
    dereference it.)
  * `bytes$safe=false` only: `0 < C.F.modulus ≤ 2^256`, so that both affine coordinates have at most 32 bytes.  The
    padding blocks themselves (`pad_block`, `bu_enc`) are proved for every `big.Int.Bytes()` of fewer than 2^62 bytes:
    when the minimal encoding is longer than 32 bytes, `padx` is negative, the IR loop does not run and the model's
    `pad32` pads with `32 - len = 0` (natural subtraction) bytes: the two sides AGREE there as well.
  No hypothesis `toNat F x < modulus` is needed.  For `prog`/`globals` and the concrete field instances (modulus
  `Gen.SM2Params.param_P`): `prog_hasUnsafe`, `globals_curveP`, `param_P_pos`, `param_P_le`.

  FINDINGS (model vs IR): no disagreement found.  `GetAffineX_Unsafe` agrees with the model for every modulus
  (including 0: `Int` `%` and `Nat` `%` by zero both return the dividend).
-/
import SMGo.Proofs.CTIRRefinePointB
import SMGo.Proofs.CTIRRefineSign
open SMGo SMGo.Model.CTIR SMGo.Gen.CTIRProg SMGo.Proofs.CTIRRefineUtils SMGo.Proofs.CTIRRefineField
open SMGo.Proofs.CTIRRefinePointB (ptV HasAffine prog_hasAffine toBigInt_computes fuelToBigInt isZero_prefix
  evalV_ptCoord evalV_pbOne pbOne pbIsZero pbDecl pbIte zeros65)
open SMGo.Proofs.CTIRRefineSign (BigOk stdOracle_bigOk ext1 evalV_mkBytes evalV_lenB evalV_catB evar ofNatBE_min)
set_option linter.unusedSimpArgs false
set_option linter.unusedVariables false

namespace SMGo.Proofs.CTIRRefineUnsafe

/-- the two point encodings (of CTIRRefinePointA.lean and CTIRRefinePointB.lean) are the same function -/
theorem ptV_eq : @CTIRRefinePointB.ptV = @CTIRRefinePointA.ptV := rfl

/-! ## The externals -/

/-- the `math/big` externals of the variable-time inversion `x · z⁻¹ mod m`, on the arguments that occur -/
structure InvOk (X : Oracle) (m : Nat) : Prop where
  setBytes : ∀ b : Bytes, X 7 [bytesV b] = [.int ((Bytes.toNatBE b : Nat) : Int)]
  modInverse : ∀ a : Nat, X 5 [.int (a : Int), .int (m : Int)] = [.int ((Spec.SM2.invMod a m : Nat) : Int)]
  mul : ∀ a b : Nat, X 6 [.int (a : Int), .int (b : Int)] = [.int ((a * b : Nat) : Int)]
  mod : ∀ a : Nat, X 4 [.int (a : Int), .int (m : Int)] = [.int ((a % m : Nat) : Int)]

/-- `big.Int.Bytes()`: the length of the minimal encoding, then `FillBytes` into a buffer of that length -/
structure BytesOk (X : Oracle) : Prop where
  byteLen : ∀ v : Nat, X 1 [.int (v : Int)] = [.int (((Bytes.ofNatMin v).length : Nat) : Int)]
  fillBytes : ∀ (v : Nat) (buf : Bytes), X 3 [.int (v : Int), bytesV buf] = [bytesV (Bytes.ofNatBE buf.length v)]

/-- from the hypotheses of SignHashed (`BigOk`) and the ModInverse clause -/
theorem InvOk.of_bigOk {X : Oracle} {m : Nat} (hB : BigOk X)
    (hInv : ∀ a : Nat, X 5 [.int (a : Int), .int (m : Int)] = [.int ((Spec.SM2.invMod a m : Nat) : Int)]) : InvOk X m where
  setBytes := hB.setBytes
  modInverse := hInv
  mul a b := by rw [hB.mul, Int.natCast_mul]
  mod a := by rw [hB.mod, Int.natCast_emod]

theorem BytesOk.of_bigOk {X : Oracle} (hB : BigOk X) : BytesOk X := ⟨hB.byteLen, hB.fillBytes⟩

/-- the square-and-multiply loop of the driver's oracle is the one of the specification -/
theorem powModNat_go_eq (m : Nat) : ∀ fuel b e r : Nat, powModNat.go m fuel b e r = Spec.SM2.powModAux m fuel b e r := by
  intro fuel
  induction fuel with
  | zero => intro b e r; rfl
  | succ fuel ih =>
    intro b e r
    simp only [powModNat.go, Spec.SM2.powModAux, ih]

theorem powModNat_eq (b e m : Nat) : powModNat b e m = Spec.SM2.powMod b e m := by
  unfold powModNat Spec.SM2.powMod
  exact powModNat_go_eq m _ _ _ _

/-- **`stdOracle`'s ModInverse IS `Spec.SM2.invMod`**, for every natural argument and every modulus -/
theorem stdOracle_modInverse (tape : Nat → Nat → Nat) (a m : Nat) :
    stdOracle extKinds tape 5 [.int (a : Int), .int (m : Int)] = [.int ((Spec.SM2.invMod a m : Nat) : Int)] := by
  have h : stdOracle extKinds tape 5 [.int (a : Int), .int (m : Int)]
      = [.int (Int.ofNat (powModNat (((a : Int) % (m : Int)).toNat) ((m : Int).toNat - 2) (m : Int).toNat))] := rfl
  rw [h, ← Int.natCast_emod, Int.toNat_natCast, Int.toNat_natCast, powModNat_eq]
  have e : Spec.SM2.powMod (a % m) (m - 2) m = Spec.SM2.invMod a m := by
    unfold Spec.SM2.invMod Spec.SM2.powMod
    rw [Nat.mod_mod]
  rw [e]
  rfl

theorem stdOracle_invOk (tape : Nat → Nat → Nat) (m : Nat) : InvOk (stdOracle extKinds tape) m :=
  InvOk.of_bigOk (stdOracle_bigOk tape) (fun a => stdOracle_modInverse tape a m)

theorem stdOracle_bytesOk (tape : Nat → Nat → Nat) : BytesOk (stdOracle extKinds tape) :=
  BytesOk.of_bigOk (stdOracle_bigOk tape)

/-! ## The functions -/

/-- the program contains the three functions (and, through `HasWrappers`, `HasAffine`, their callees 38 and 42) -/
structure HasUnsafe (P : Prog) : Prop where
  h90 : P[90]? = some fn_90
  h94 : P[94]? = some fn_94
  h95 : P[95]? = some fn_95

theorem prog_hasUnsafe : HasUnsafe prog := ⟨rfl, rfl, rfl⟩

/-! ## (*SM2Point).GetAffineX_Unsafe (90) -/

def guIsZero : Stmt := .call [2] 38 [(.idxc (.var 0) 2)]
def guDecl : Stmt := .declass 3 6 (.op2 .eq (.var 2) (.lit 1))
def guIte : Stmt := .ite (.var 3) (.ret [(.lit 0)]) .skip
def guTail : List Stmt := [.call [4] 42 [(.idxc (.var 0) 0)],
    .assign 5 [] (.var 4),
    .call [6] 42 [(.idxc (.var 0) 2)],
    .assign 7 [] (.var 6),
    .ext [8] 5 true [(.var 7), (.glob 14)],
    .assign 9 [] (.var 8),
    .ext [10] 6 false [(.var 5), (.var 9)],
    .assign 5 [] (.var 10),
    .ext [11] 4 false [(.var 5), (.glob 14)],
    .assign 5 [] (.var 11)]
def guRet : Stmt := .seq (.ret [(.var 11)]) .panic

theorem fn_90_body_a : fn_90.body = seqs ([guIsZero, guDecl] ++ [.seq guIte (seqs (guTail ++ [guRet]))]) := rfl
theorem fn_90_body_b : fn_90.body = seqs (([guIsZero, guDecl, guIte] ++ guTail) ++ [guRet]) := rfl

/-- fuel for GetAffineX_Unsafe -/
def fuelGetAffineXUnsafe (Fm Ft : Nat) : Nat := fuelIsZero Fm Ft + 2 * fuelToBigInt Fm Ft + 40

section GetAffineXUnsafe
variable {α : Type} {P : Prog} {G : Nat → Val} {X : Oracle} {enc : α → List Nat} {Fm Ft : Nat}

/-- **(*SM2Point).GetAffineX_Unsafe = `Model.Point.getAffineXUnsafe`**: IsZero verdict, two ToBigInt, the externals
    ModInverse, Mul, Mod of `math/big` (`hO`), the modulus in global 14 -/
theorem getAffineXUnsafe_computes (hw : HasWrappers P) (ha : HasAffine P) (hu : HasUnsafe P) {C : Model.Point.Ctx α}
    (hB : ∀ e, BytesPrims P G X C.F enc Fm Ft e) (hG2 : G 2 = bytesV (Model.Field.bytes C.F C.F.zero))
    (hG14 : G 14 = .int (C.F.modulus : Int)) (hO : InvOk X C.F.modulus) (p : Model.Point.Pt α) :
    Computes P G X f_internal_SM2Point_GetAffineX_Unsafe (fuelGetAffineXUnsafe Fm Ft) [ptV enc p]
      [.int ((Model.Point.getAffineXUnsafe C p : Nat) : Int)] := by
  let e0 : Env := Env.ofList [ptV enc p]
  let d := (e0.set 2 (.int ((Model.Field.isZero C.F p.z : Nat) : Int))).set 3
    (.int (if Model.Field.isZero C.F p.z = 1 then 1 else 0))
  have hp : Pre P G X (fuelIsZero Fm Ft + 3) e0 [guIsZero, guDecl] d :=
    isZero_prefix (p := p) (env := e0) (t := 2) (v := 3) (site := 6) hw (hB p.z) hG2 rfl
  have d0 : d 0 = ptV enc p := by simp [d, e0, Env.set, Env.ofList]
  by_cases hz : Model.Field.isZero C.F p.z = 1
  · have hm : Model.Point.getAffineXUnsafe C p = 0 := by simp [Model.Point.getAffineXUnsafe, hz]
    have g3 : evalV G d (.var 3) = some (.int 1) := by simp [d, Env.set, hz]
    refine Computes.of_body hu.h90 rfl rfl (env' := d) ?_
    rw [fn_90_body_a, hm]
    have r : EvIn P G X 1 d (.ret [(.lit 0)]) d (.ret [.int ((0 : Nat) : Int)]) := EvIn.ret rfl
    exact ((hp _).1 _ _ _ (EvIn.seq_stop (EvIn.ite g3 rfl r) (by simp))).mono (by simp only [fuelGetAffineXUnsafe]; omega)
  · let m := C.F.modulus
    let xn := Model.Field.toNat C.F p.x
    let zn := Model.Field.toNat C.F p.z
    let iv := Spec.SM2.invMod zn m
    have hm : Model.Point.getAffineXUnsafe C p = xn * iv % m := by
      simp [Model.Point.getAffineXUnsafe, hz, xn, zn, iv, m]
    have g3 : evalV G d (.var 3) = some (.int 0) := by simp [d, Env.set, hz]
    have c3 : EvIn P G X 2 d guIte d .norm := EvIn.ite g3 rfl (EvIn.skip _)
    let e1 := d.set 4 (.int (xn : Int))
    let e2 := e1.set 5 (.int (xn : Int))
    let e3 := e2.set 6 (.int (zn : Int))
    let e4 := e3.set 7 (.int (zn : Int))
    let e5 := e4.set 8 (.int (iv : Int))
    let e6 := e5.set 9 (.int (iv : Int))
    let e7 := e6.set 10 (.int ((xn * iv : Nat) : Int))
    let e8 := e7.set 5 (.int ((xn * iv : Nat) : Int))
    let e9 := e8.set 11 (.int ((xn * iv % m : Nat) : Int))
    let e10 := e9.set 5 (.int ((xn * iv % m : Nat) : Int))
    have c4 : EvIn P G X (fuelToBigInt Fm Ft + 1) d (.call [4] 42 [(.idxc (.var 0) 0)]) e1 .norm := by
      refine (toBigInt_computes hw ha (hB p.x) hO.setBytes).call ?_ rfl
      have q : evalV G d (.idxc (.var 0) 0) = some (elemV (enc p.x)) := evalV_ptCoord d0 (by decide)
      simp only [evalVs_cons, evalVs_nil, q]
    have c5 : EvIn P G X 1 e1 (.assign 5 [] (.var 4)) e2 .norm := EvIn.assign (by simp [e1, Env.set])
    have c6 : EvIn P G X (fuelToBigInt Fm Ft + 1) e2 (.call [6] 42 [(.idxc (.var 0) 2)]) e3 .norm := by
      refine (toBigInt_computes hw ha (hB p.z) hO.setBytes).call ?_ rfl
      have q : evalV G e2 (.idxc (.var 0) 2) = some (elemV (enc p.z)) :=
        evalV_ptCoord (p := p) (by simp [e2, e1, Env.set, d0]) (by decide)
      simp only [evalVs_cons, evalVs_nil, q]
    have c7 : EvIn P G X 1 e3 (.assign 7 [] (.var 6)) e4 .norm := EvIn.assign (by simp [e3, Env.set])
    have c8 : EvIn P G X 1 e4 (.ext [8] 5 true [(.var 7), (.glob 14)]) e5 .norm := by
      refine ext1 (vs := [.int (zn : Int), .int (m : Int)]) ?_ (hO.modInverse zn)
      have g7 : e4 7 = .int (zn : Int) := by simp [e4, Env.set]
      simp only [evalVs_cons, evalVs_nil, evalV_var, evalV_glob, g7, hG14, m]
    have c9 : EvIn P G X 1 e5 (.assign 9 [] (.var 8)) e6 .norm := EvIn.assign (by simp [e5, Env.set])
    have c10 : EvIn P G X 1 e6 (.ext [10] 6 false [(.var 5), (.var 9)]) e7 .norm := by
      refine ext1 (vs := [.int (xn : Int), .int (iv : Int)]) ?_ (hO.mul xn iv)
      have g5 : e6 5 = .int (xn : Int) := by simp [e6, e5, e4, e3, e2, Env.set]
      have g9 : e6 9 = .int (iv : Int) := by simp [e6, Env.set]
      simp only [evalVs_cons, evalVs_nil, evalV_var, g5, g9]
    have c11 : EvIn P G X 1 e7 (.assign 5 [] (.var 10)) e8 .norm := EvIn.assign (by simp [e7, Env.set])
    have c12 : EvIn P G X 1 e8 (.ext [11] 4 false [(.var 5), (.glob 14)]) e9 .norm := by
      refine ext1 (vs := [.int ((xn * iv : Nat) : Int), .int (m : Int)]) ?_ (hO.mod (xn * iv))
      have g5 : e8 5 = .int ((xn * iv : Nat) : Int) := by simp [e8, Env.set]
      simp only [evalVs_cons, evalVs_nil, evalV_var, evalV_glob, g5, hG14, m]
    have c13 : EvIn P G X 1 e9 (.assign 5 [] (.var 11)) e10 .norm := EvIn.assign (by simp [e9, Env.set])
    have sr : evalVs G e10 [(.var 11)] = some [.int ((Model.Point.getAffineXUnsafe C p : Nat) : Int)] := by
      simp [evalVs_cons, e10, e9, Env.set, hm]
    refine Computes.of_body hu.h90 rfl rfl (env' := e10) ?_
    rw [fn_90_body_b]
    have htail := Pre.cons c3 (Pre.cons c4 (Pre.cons c5 (Pre.cons c6 (Pre.cons c7 (Pre.cons c8 (Pre.cons c9 (Pre.cons c10
      (Pre.cons c11 (Pre.cons c12 (Pre.cons c13 (Pre.nil _)))))))))))
    exact (((Pre.append hp htail) _).1 _ _ _ (EvIn.seq_stop (EvIn.ret sr) (by simp))).mono
      (by simp only [fuelGetAffineXUnsafe]; omega)

end GetAffineXUnsafe

/-! ## (*SM2Point).bytes with `safe = false` (95) and (*SM2Point).Bytes_Unsafe (94) -/

/-! ### The padding loops `for i := 0; i < pad; i++ { buf = append(buf, 0) }` (buffer: variable 18) -/

def padCond (iv pv : Nat) : Expr := .op2 .lt (.var iv) (.var pv)
def padBody : Stmt := .assign 18 [] (.cat (.var 18) (.mk (.lit 1) (.lit 0)))
def padPost (iv : Nat) : Stmt := .assign iv [] (.op2 (.add .i64) (.var iv) (.lit 1))
def padLoop (iv pv : Nat) : Stmt := .loop (padCond iv pv) padBody (padPost iv)
/-- `i := 0; for i < pad { buf = append(buf, 0) }; buf = append(buf, src...)` -/
def padStmts (iv pv sv : Nat) : List Stmt :=
  [.assign iv [] (.lit 0), padLoop iv pv, .assign 18 [] (.cat (.var 18) (.var sv))]

section Pad
variable {P : Prog} {G : Nat → Val} {X : Oracle}

/-- the loop from `i` to `n` appends `n - i` zero bytes; it changes the buffer and the counter only -/
theorem pad_loop_ok {iv pv : Nat} (h1 : iv ≠ 18) (h2 : pv ≠ 18) (h3 : pv ≠ iv) (n : Nat) (hn : n < 4611686018427387904) :
    ∀ (k i : Nat) (env : Env) (b : Bytes), i + k = n → env iv = .int (i : Int) → env pv = .int (n : Int) →
      env 18 = bytesV b →
      ∃ env', EvIn P G X (3 * k + 1) env (padLoop iv pv) env' .norm ∧ env' 18 = bytesV (b ++ List.replicate k 0) ∧
        ∀ y, y ≠ 18 → y ≠ iv → env' y = env y := by
  intro k
  induction k with
  | zero =>
    intro i env b hik hi hp hb
    have hlt : ¬ (i : Int) < (n : Int) := by omega
    refine ⟨env, EvIn.loop_exit (v := .int 0) ?_ rfl, by simpa using hb, fun _ _ _ => rfl⟩
    simp [padCond, evalV_op2, evalV_var, hi, hp, evalOp2, ofBool, hlt]
  | succ k ih =>
    intro i env b hik hi hp hb
    have hlt : (i : Int) < (n : Int) := by omega
    have hc : evalV G env (padCond iv pv) = some (.int 1) := by
      simp [padCond, evalV_op2, evalV_var, hi, hp, evalOp2, ofBool, hlt]
    let e1 := env.set 18 (bytesV (b ++ [0]))
    let e2 := e1.set iv (.int ((i + 1 : Nat) : Int))
    have cb : EvIn P G X 1 env padBody e1 .norm :=
      EvIn.assign (evalV_catB (evar hb) (evalV_mkBytes (L := 1) rfl))
    have cp : EvIn P G X 1 e1 (padPost iv) e2 .norm := by
      refine EvIn.assign ?_
      have g : e1 iv = .int (i : Int) := by simp [e1, Env.set, h1, hi]
      simp only [evalV_op2, evalV_var, evalV_lit, g, evalOp2, Option.map_some]
      rw [norm_i64_small (by omega) (by omega)]
      rfl
    obtain ⟨env', hl, h18, hfr⟩ := ih (i + 1) e2 (b ++ [0]) (by omega) (by simp [e2, Env.set])
      (by simp [e2, e1, Env.set, h2, h3, hp]) (by simp [e2, e1, Env.set, Ne.symm h1])
    refine ⟨env', (EvIn.loop_round hc rfl cb (Or.inl rfl) cp hl).mono (by omega), ?_, ?_⟩
    · rw [h18]; simp [List.replicate_succ]
    · intro y hy1 hy2
      rw [hfr y hy1 hy2]
      simp [e2, e1, Env.set, hy1, hy2]

/-- a padding block with pad count `m` (a Go `int`, possibly NEGATIVE: then nothing is appended): the buffer becomes
    `buf ++ 0^(max m 0) ++ src`; only the buffer and the counter change -/
theorem pad_block {iv pv sv : Nat} (h1 : iv ≠ 18) (h2 : pv ≠ 18) (h3 : pv ≠ iv) (h4 : sv ≠ 18) (h5 : sv ≠ iv)
    {env : Env} {b s : Bytes} {m : Int} (hm : m < 4611686018427387904)
    (h18 : env 18 = bytesV b) (hp : env pv = .int m) (hs : env sv = bytesV s) :
    ∃ env', Pre P G X (3 * m.toNat + 8) env (padStmts iv pv sv) env' ∧
      env' 18 = bytesV (b ++ List.replicate m.toNat 0 ++ s) ∧ ∀ y, y ≠ 18 → y ≠ iv → env' y = env y := by
  let e1 := env.set iv (.int 0)
  have c1 : EvIn P G X 1 env (.assign iv [] (.lit 0)) e1 .norm := EvIn.assign rfl
  have g18 : e1 18 = bytesV b := by simp [e1, Env.set, Ne.symm h1, h18]
  have gp : e1 pv = .int m := by simp [e1, Env.set, h3, hp]
  have giv : e1 iv = .int ((0 : Nat) : Int) := by simp [e1, Env.set]
  have hloop : ∃ e2, EvIn P G X (3 * m.toNat + 1) e1 (padLoop iv pv) e2 .norm ∧
      e2 18 = bytesV (b ++ List.replicate m.toNat 0) ∧ ∀ y, y ≠ 18 → y ≠ iv → e2 y = e1 y := by
    by_cases hneg : m ≤ 0
    · have hlt : ¬ (0 : Int) < m := by omega
      have ht : m.toNat = 0 := by omega
      refine ⟨e1, (EvIn.loop_exit (v := .int 0) ?_ rfl).mono (by omega), by rw [ht]; simpa using g18, fun _ _ _ => rfl⟩
      simp [padCond, evalV_op2, evalV_var, giv, gp, evalOp2, ofBool, hlt]
    · have hmn : m = ((m.toNat : Nat) : Int) := by omega
      rw [hmn] at gp
      exact pad_loop_ok h1 h2 h3 m.toNat (by omega) m.toNat 0 e1 b (by omega) giv gp g18
  obtain ⟨e2, cl, l18, lfr⟩ := hloop
  let e3 := e2.set 18 (bytesV (b ++ List.replicate m.toNat 0 ++ s))
  have gs : e2 sv = bytesV s := by rw [lfr sv h4 h5]; simp [e1, Env.set, h5, hs]
  have c3 : EvIn P G X 1 e2 (.assign 18 [] (.cat (.var 18) (.var sv))) e3 .norm :=
    EvIn.assign (evalV_catB (evar l18) (evar gs))
  refine ⟨e3, (Pre.cons c1 (Pre.cons cl (Pre.cons c3 (Pre.nil _)))).mono (by omega), by simp [e3, Env.set], ?_⟩
  intro y hy1 hy2
  have : e3 y = e2 y := by simp [e3, Env.set, hy1]
  rw [this, lfr y hy1 hy2]
  simp [e1, Env.set, hy2]

end Pad

/-! ### The two halves of the `else` branch -/

/-- `xx, yy, zz := ToBigInt(p.x), ToBigInt(p.y), ToBigInt(p.z)`; ModInverse; two Mul; two Mod -/
def buArith : List Stmt := [.call [6] 42 [(.idxc (.var 0) 0)],
    .assign 7 [] (.var 6),
    .call [8] 42 [(.idxc (.var 0) 1)],
    .assign 9 [] (.var 8),
    .call [10] 42 [(.idxc (.var 0) 2)],
    .assign 11 [] (.var 10),
    .ext [12] 5 true [(.var 11), (.glob 14)],
    .assign 13 [] (.var 12),
    .ext [14] 6 false [(.var 7), (.var 13)],
    .assign 7 [] (.var 14),
    .ext [15] 6 false [(.var 9), (.var 13)],
    .assign 9 [] (.var 15),
    .ext [16] 4 false [(.var 7), (.glob 14)],
    .assign 7 [] (.var 16),
    .ext [17] 4 false [(.var 9), (.glob 14)],
    .assign 9 [] (.var 17)]

/-- `buf := append(out[:0], 4)`; `xxBytes, yyBytes := xx.Bytes(), yy.Bytes()`; the pad counts -/
def buEnc1 : List Stmt := [.assign 18 [] (pbOne 4),
    .ext [19] 1 false [(.var 7)],
    .ext [20] 3 false [(.var 7), (.mk (.var 19) (.lit 0))],
    .assign 21 [] (.var 20),
    .ext [22] 1 false [(.var 9)],
    .ext [23] 3 false [(.var 9), (.mk (.var 22) (.lit 0))],
    .assign 24 [] (.var 23),
    .assign 25 [] (.var 21),
    .assign 26 [] (.var 24),
    .assign 27 [] (.op2 (.sub .i64) (.lit 32) (.len (.var 25))),
    .assign 28 [] (.op2 (.sub .i64) (.lit 32) (.len (.var 26))),
    .assign 29 [] (.var 27),
    .assign 30 [] (.var 28)]

def buEnc : List Stmt := buEnc1 ++ (padStmts 31 29 25 ++ padStmts 32 30 26)
def buRet : Stmt := .seq (.ret [(.var 18)]) .panic

theorem fn_95_body_a : fn_95.body = seqs ([pbIsZero, pbDecl] ++ [.seq pbIte (seqs ((buArith ++ buEnc) ++ [buRet]))]) := rfl
theorem fn_95_body_b : fn_95.body = seqs (([pbIsZero, pbDecl] ++ (pbIte :: (buArith ++ buEnc))) ++ [buRet]) := rfl
theorem fn_94_body : fn_94.body = seqs ([.assign 2 [] (.mk (.lit 65) (.lit 0)), .call [3] 95 [(.var 0), (.var 2), (.lit 0)]]
    ++ [.seq (.ret [(.var 3)]) .panic]) := rfl

section PointBytesUnsafe
variable {α : Type} {P : Prog} {G : Nat → Val} {X : Oracle} {enc : α → List Nat} {Fm Ft : Nat}

/-- the big-integer half: afterwards `xx` (7) and `yy` (9) hold the affine coordinates
    `x · z⁻¹ mod m`, `y · z⁻¹ mod m`; `out` (1) is untouched -/
theorem bu_arith (hw : HasWrappers P) (ha : HasAffine P) {C : Model.Point.Ctx α}
    (hB : ∀ e, BytesPrims P G X C.F enc Fm Ft e) (hG14 : G 14 = .int (C.F.modulus : Int)) (hO : InvOk X C.F.modulus)
    (p : Model.Point.Pt α) {env : Env} (h0 : env 0 = ptV enc p) :
    ∃ env', Pre P G X (3 * fuelToBigInt Fm Ft + 36) env buArith env' ∧ env' 1 = env 1 ∧
      env' 7 = .int ((Model.Field.toNat C.F p.x * Spec.SM2.invMod (Model.Field.toNat C.F p.z) C.F.modulus % C.F.modulus : Nat) : Int) ∧
      env' 9 = .int ((Model.Field.toNat C.F p.y * Spec.SM2.invMod (Model.Field.toNat C.F p.z) C.F.modulus % C.F.modulus : Nat) : Int) := by
  generalize hmm : C.F.modulus = m at *
  generalize hxn : Model.Field.toNat C.F p.x = xn
  generalize hyn : Model.Field.toNat C.F p.y = yn
  generalize hzn : Model.Field.toNat C.F p.z = zn
  generalize hiv : Spec.SM2.invMod zn m = iv
  let e1 := env.set 6 (.int (xn : Int))
  let e2 := e1.set 7 (.int (xn : Int))
  let e3 := e2.set 8 (.int (yn : Int))
  let e4 := e3.set 9 (.int (yn : Int))
  let e5 := e4.set 10 (.int (zn : Int))
  let e6 := e5.set 11 (.int (zn : Int))
  let e7 := e6.set 12 (.int (iv : Int))
  let e8 := e7.set 13 (.int (iv : Int))
  let e9 := e8.set 14 (.int ((xn * iv : Nat) : Int))
  let e10 := e9.set 7 (.int ((xn * iv : Nat) : Int))
  let e11 := e10.set 15 (.int ((yn * iv : Nat) : Int))
  let e12 := e11.set 9 (.int ((yn * iv : Nat) : Int))
  let e13 := e12.set 16 (.int ((xn * iv % m : Nat) : Int))
  let e14 := e13.set 7 (.int ((xn * iv % m : Nat) : Int))
  let e15 := e14.set 17 (.int ((yn * iv % m : Nat) : Int))
  let e16 := e15.set 9 (.int ((yn * iv % m : Nat) : Int))
  have c1 : EvIn P G X (fuelToBigInt Fm Ft + 1) env (.call [6] 42 [(.idxc (.var 0) 0)]) e1 .norm := by
    have hc := toBigInt_computes hw ha (hB p.x) hO.setBytes
    rw [hxn] at hc
    refine hc.call ?_ rfl
    have q : evalV G env (.idxc (.var 0) 0) = some (elemV (enc p.x)) := evalV_ptCoord h0 (by decide)
    simp only [evalVs_cons, evalVs_nil, q]
  have c2 : EvIn P G X 1 e1 (.assign 7 [] (.var 6)) e2 .norm := EvIn.assign (by simp [e1, Env.set])
  have c3 : EvIn P G X (fuelToBigInt Fm Ft + 1) e2 (.call [8] 42 [(.idxc (.var 0) 1)]) e3 .norm := by
    have hc := toBigInt_computes hw ha (hB p.y) hO.setBytes
    rw [hyn] at hc
    refine hc.call ?_ rfl
    have q : evalV G e2 (.idxc (.var 0) 1) = some (elemV (enc p.y)) :=
      evalV_ptCoord (p := p) (by simp [e2, e1, Env.set, h0]) (by decide)
    simp only [evalVs_cons, evalVs_nil, q]
  have c4 : EvIn P G X 1 e3 (.assign 9 [] (.var 8)) e4 .norm := EvIn.assign (by simp [e3, Env.set])
  have c5 : EvIn P G X (fuelToBigInt Fm Ft + 1) e4 (.call [10] 42 [(.idxc (.var 0) 2)]) e5 .norm := by
    have hc := toBigInt_computes hw ha (hB p.z) hO.setBytes
    rw [hzn] at hc
    refine hc.call ?_ rfl
    have q : evalV G e4 (.idxc (.var 0) 2) = some (elemV (enc p.z)) :=
      evalV_ptCoord (p := p) (by simp [e4, e3, e2, e1, Env.set, h0]) (by decide)
    simp only [evalVs_cons, evalVs_nil, q]
  have c6 : EvIn P G X 1 e5 (.assign 11 [] (.var 10)) e6 .norm := EvIn.assign (by simp [e5, Env.set])
  have c7 : EvIn P G X 1 e6 (.ext [12] 5 true [(.var 11), (.glob 14)]) e7 .norm := by
    have ho := hO.modInverse zn
    rw [hiv] at ho
    refine ext1 (vs := [.int (zn : Int), .int (m : Int)]) ?_ ho
    have g : e6 11 = .int (zn : Int) := by simp [e6, Env.set]
    simp only [evalVs_cons, evalVs_nil, evalV_var, evalV_glob, g, hG14]
  have c8 : EvIn P G X 1 e7 (.assign 13 [] (.var 12)) e8 .norm := EvIn.assign (by simp [e7, Env.set])
  have c9 : EvIn P G X 1 e8 (.ext [14] 6 false [(.var 7), (.var 13)]) e9 .norm := by
    refine ext1 (vs := [.int (xn : Int), .int (iv : Int)]) ?_ (hO.mul xn iv)
    have g7 : e8 7 = .int (xn : Int) := by simp [e8, e7, e6, e5, e4, e3, e2, Env.set]
    have g13 : e8 13 = .int (iv : Int) := by simp [e8, Env.set]
    simp only [evalVs_cons, evalVs_nil, evalV_var, g7, g13]
  have c10 : EvIn P G X 1 e9 (.assign 7 [] (.var 14)) e10 .norm := EvIn.assign (by simp [e9, Env.set])
  have c11 : EvIn P G X 1 e10 (.ext [15] 6 false [(.var 9), (.var 13)]) e11 .norm := by
    refine ext1 (vs := [.int (yn : Int), .int (iv : Int)]) ?_ (hO.mul yn iv)
    have g9 : e10 9 = .int (yn : Int) := by simp [e10, e9, e8, e7, e6, e5, e4, Env.set]
    have g13 : e10 13 = .int (iv : Int) := by simp [e10, e9, e8, Env.set]
    simp only [evalVs_cons, evalVs_nil, evalV_var, g9, g13]
  have c12 : EvIn P G X 1 e11 (.assign 9 [] (.var 15)) e12 .norm := EvIn.assign (by simp [e11, Env.set])
  have c13 : EvIn P G X 1 e12 (.ext [16] 4 false [(.var 7), (.glob 14)]) e13 .norm := by
    refine ext1 (vs := [.int ((xn * iv : Nat) : Int), .int (m : Int)]) ?_ (hO.mod (xn * iv))
    have g7 : e12 7 = .int ((xn * iv : Nat) : Int) := by simp [e12, e11, e10, Env.set]
    simp only [evalVs_cons, evalVs_nil, evalV_var, evalV_glob, g7, hG14]
  have c14 : EvIn P G X 1 e13 (.assign 7 [] (.var 16)) e14 .norm := EvIn.assign (by simp [e13, Env.set])
  have c15 : EvIn P G X 1 e14 (.ext [17] 4 false [(.var 9), (.glob 14)]) e15 .norm := by
    refine ext1 (vs := [.int ((yn * iv : Nat) : Int), .int (m : Int)]) ?_ (hO.mod (yn * iv))
    have g9 : e14 9 = .int ((yn * iv : Nat) : Int) := by simp [e14, e13, e12, Env.set]
    simp only [evalVs_cons, evalVs_nil, evalV_var, evalV_glob, g9, hG14]
  have c16 : EvIn P G X 1 e15 (.assign 9 [] (.var 17)) e16 .norm := EvIn.assign (by simp [e15, Env.set])
  have hpre := Pre.cons c1 (Pre.cons c2 (Pre.cons c3 (Pre.cons c4 (Pre.cons c5 (Pre.cons c6 (Pre.cons c7 (Pre.cons c8
    (Pre.cons c9 (Pre.cons c10 (Pre.cons c11 (Pre.cons c12 (Pre.cons c13 (Pre.cons c14 (Pre.cons c15 (Pre.cons c16
    (Pre.nil _))))))))))))))))
  refine ⟨e16, hpre.mono (by omega), ?_, ?_, ?_⟩
  · simp [e16, e15, e14, e13, e12, e11, e10, e9, e8, e7, e6, e5, e4, e3, e2, e1, Env.set]
  · simp [e16, e15, e14, Env.set]
  · simp [e16, Env.set]

/-- `32 - len` as a Go `int` -/
theorem evalV_padCount {env : Env} {x : Nat} {b : Bytes} (hx : env x = bytesV b) (hl : b.length < 4611686018427387904) :
    evalV G env (.op2 (.sub .i64) (.lit 32) (.len (.var x))) = some (.int (32 - (b.length : Int))) := by
  rw [evalV_op2, evalV_lenB (evar hx), evalV_lit]
  simp only [evalOp2, Option.map_some]
  rw [norm_i64_small (by omega) (by omega)]

/-- the encoding half, for any two natural numbers `vx`, `vy` in `xx` (7), `yy` (9) whose `Bytes()` have fewer than
    2^62 bytes: the buffer (18) ends as `4 ‖ pad32 (Bytes vx) ‖ pad32 (Bytes vy)` -/
theorem bu_enc (hY : BytesOk X) {env : Env} {out : Bytes} {vx vy : Nat} (h1 : env 1 = bytesV out)
    (h7 : env 7 = .int (vx : Int)) (h9 : env 9 = .int (vy : Int))
    (hlx : (Bytes.ofNatMin vx).length < 4611686018427387904) (hly : (Bytes.ofNatMin vy).length < 4611686018427387904) :
    ∃ env', Pre P G X 250 env buEnc env' ∧
      env' 18 = bytesV ([4] ++ Model.Point.pad32 (Bytes.ofNatMin vx) ++ Model.Point.pad32 (Bytes.ofNatMin vy)) := by
  generalize hbx : Bytes.ofNatMin vx = bx at *
  generalize hby : Bytes.ofNatMin vy = byy at *
  have fx : Bytes.ofNatBE (List.replicate bx.length (0 : UInt8)).length vx = bx := by
    rw [List.length_replicate, ← hbx, ofNatBE_min]
  have fy : Bytes.ofNatBE (List.replicate byy.length (0 : UInt8)).length vy = byy := by
    rw [List.length_replicate, ← hby, ofNatBE_min]
  let e1 := env.set 18 (bytesV [4])
  let e2 := e1.set 19 (.int ((bx.length : Nat) : Int))
  let e3 := e2.set 20 (bytesV bx)
  let e4 := e3.set 21 (bytesV bx)
  let e5 := e4.set 22 (.int ((byy.length : Nat) : Int))
  let e6 := e5.set 23 (bytesV byy)
  let e7 := e6.set 24 (bytesV byy)
  let e8 := e7.set 25 (bytesV bx)
  let e9 := e8.set 26 (bytesV byy)
  let e10 := e9.set 27 (.int (32 - (bx.length : Int)))
  let e11 := e10.set 28 (.int (32 - (byy.length : Int)))
  let e12 := e11.set 29 (.int (32 - (bx.length : Int)))
  let e13 := e12.set 30 (.int (32 - (byy.length : Int)))
  have c1 : EvIn P G X 1 env (.assign 18 [] (pbOne 4)) e1 .norm := by
    refine EvIn.assign ?_
    have q := evalV_pbOne (G := G) (env := env) (out := out) h1 4
    rw [show (Int.ofNat (4 : UInt8).toNat) = (4 : Int) from rfl] at q
    exact q
  have c2 : EvIn P G X 1 e1 (.ext [19] 1 false [(.var 7)]) e2 .norm := by
    have ho := hY.byteLen vx
    rw [hbx] at ho
    refine ext1 (vs := [.int (vx : Int)]) ?_ ho
    have g : e1 7 = .int (vx : Int) := by simp [e1, Env.set, h7]
    simp only [evalVs_cons, evalVs_nil, evalV_var, g]
  have c3 : EvIn P G X 1 e2 (.ext [20] 3 false [(.var 7), (.mk (.var 19) (.lit 0))]) e3 .norm := by
    have ho := hY.fillBytes vx (List.replicate bx.length 0)
    rw [fx] at ho
    refine ext1 (vs := [.int (vx : Int), bytesV (List.replicate bx.length 0)]) ?_ ho
    have g : e2 7 = .int (vx : Int) := by simp [e2, e1, Env.set, h7]
    have q : evalV G e2 (.mk (.var 19) (.lit 0)) = some (bytesV (List.replicate bx.length 0)) :=
      evalV_mkBytes (evar (by simp [e2, Env.set]))
    simp only [evalVs_cons, evalVs_nil, evalV_var, g, q]
  have c4 : EvIn P G X 1 e3 (.assign 21 [] (.var 20)) e4 .norm := EvIn.assign (by simp [e3, Env.set])
  have c5 : EvIn P G X 1 e4 (.ext [22] 1 false [(.var 9)]) e5 .norm := by
    have ho := hY.byteLen vy
    rw [hby] at ho
    refine ext1 (vs := [.int (vy : Int)]) ?_ ho
    have g : e4 9 = .int (vy : Int) := by simp [e4, e3, e2, e1, Env.set, h9]
    simp only [evalVs_cons, evalVs_nil, evalV_var, g]
  have c6 : EvIn P G X 1 e5 (.ext [23] 3 false [(.var 9), (.mk (.var 22) (.lit 0))]) e6 .norm := by
    have ho := hY.fillBytes vy (List.replicate byy.length 0)
    rw [fy] at ho
    refine ext1 (vs := [.int (vy : Int), bytesV (List.replicate byy.length 0)]) ?_ ho
    have g : e5 9 = .int (vy : Int) := by simp [e5, e4, e3, e2, e1, Env.set, h9]
    have q : evalV G e5 (.mk (.var 22) (.lit 0)) = some (bytesV (List.replicate byy.length 0)) :=
      evalV_mkBytes (evar (by simp [e5, Env.set]))
    simp only [evalVs_cons, evalVs_nil, evalV_var, g, q]
  have c7 : EvIn P G X 1 e6 (.assign 24 [] (.var 23)) e7 .norm := EvIn.assign (by simp [e6, Env.set])
  have c8 : EvIn P G X 1 e7 (.assign 25 [] (.var 21)) e8 .norm := EvIn.assign (by simp [e7, e6, e5, e4, Env.set])
  have c9 : EvIn P G X 1 e8 (.assign 26 [] (.var 24)) e9 .norm := EvIn.assign (by simp [e8, e7, Env.set])
  have c10 : EvIn P G X 1 e9 (.assign 27 [] (.op2 (.sub .i64) (.lit 32) (.len (.var 25)))) e10 .norm :=
    EvIn.assign (evalV_padCount (b := bx) (by simp [e9, e8, Env.set]) hlx)
  have c11 : EvIn P G X 1 e10 (.assign 28 [] (.op2 (.sub .i64) (.lit 32) (.len (.var 26)))) e11 .norm :=
    EvIn.assign (evalV_padCount (b := byy) (by simp [e10, e9, Env.set]) hly)
  have c12 : EvIn P G X 1 e11 (.assign 29 [] (.var 27)) e12 .norm := EvIn.assign (by simp [e11, e10, Env.set])
  have c13 : EvIn P G X 1 e12 (.assign 30 [] (.var 28)) e13 .norm := EvIn.assign (by simp [e12, e11, Env.set])
  have hpre1 : Pre P G X 26 env buEnc1 e13 :=
    Pre.cons c1 (Pre.cons c2 (Pre.cons c3 (Pre.cons c4 (Pre.cons c5 (Pre.cons c6 (Pre.cons c7 (Pre.cons c8
      (Pre.cons c9 (Pre.cons c10 (Pre.cons c11 (Pre.cons c12 (Pre.cons c13 (Pre.nil _)))))))))))))
  have a18 : e13 18 = bytesV [4] := by simp [e13, e12, e11, e10, e9, e8, e7, e6, e5, e4, e3, e2, e1, Env.set]
  have a25 : e13 25 = bytesV bx := by simp [e13, e12, e11, e10, e9, e8, Env.set]
  have a26 : e13 26 = bytesV byy := by simp [e13, e12, e11, e10, e9, Env.set]
  have a29 : e13 29 = .int (32 - (bx.length : Int)) := by simp [e13, e12, Env.set]
  have a30 : e13 30 = .int (32 - (byy.length : Int)) := by simp [e13, Env.set]
  obtain ⟨ea, hpa, b18, bfr⟩ := pad_block (P := P) (G := G) (X := X) (iv := 31) (pv := 29) (sv := 25)
    (by decide) (by decide) (by decide) (by decide) (by decide) (m := 32 - (bx.length : Int)) (by omega) a18 a29 a25
  have b26 : ea 26 = bytesV byy := by rw [bfr 26 (by decide) (by decide)]; exact a26
  have b30 : ea 30 = .int (32 - (byy.length : Int)) := by rw [bfr 30 (by decide) (by decide)]; exact a30
  obtain ⟨eb, hpb, c18, _⟩ := pad_block (P := P) (G := G) (X := X) (iv := 32) (pv := 30) (sv := 26)
    (by decide) (by decide) (by decide) (by decide) (by decide) (m := 32 - (byy.length : Int)) (by omega) b18 b30 b26
  have tx : (32 - (bx.length : Int)).toNat = 32 - bx.length := by omega
  have ty : (32 - (byy.length : Int)).toNat = 32 - byy.length := by omega
  refine ⟨eb, (Pre.append hpre1 (Pre.append hpa hpb)).mono (by omega), ?_⟩
  rw [c18, tx, ty]
  simp only [Model.Point.pad32, List.append_assoc]

/-- fuel for `bytes$safe=false` and for `Bytes_Unsafe` of a point -/
def fuelPointbytesUnsafe (Fm Ft : Nat) : Nat := fuelIsZero Fm Ft + 3 * fuelToBigInt Fm Ft + 300
def fuelPointBytesUnsafe (Fm Ft : Nat) : Nat := fuelPointbytesUnsafe Fm Ft + 8

/-- **(*SM2Point).bytes with `safe = false`** (the specialised copy, function 95) `= Model.Point.bytes C p false`, for
    any destination `out` (only `out[:0]` is used) and any value of the `safe` argument (the copy ignores it).
    `hm0`, `hm256`: the affine coordinates are below `modulus ≤ 2^256`, so `big.Int.Bytes()` has at most 32 bytes. -/
theorem pointbytesUnsafe_computes (hw : HasWrappers P) (ha : HasAffine P) (hu : HasUnsafe P) {C : Model.Point.Ctx α}
    (hB : ∀ e, BytesPrims P G X C.F enc Fm Ft e) (hG2 : G 2 = bytesV (Model.Field.bytes C.F C.F.zero))
    (hG14 : G 14 = .int (C.F.modulus : Int)) (hO : InvOk X C.F.modulus) (hY : BytesOk X)
    (hm0 : 0 < C.F.modulus) (hm256 : C.F.modulus ≤ 2 ^ 256)
    (p : Model.Point.Pt α) (out : Bytes) (safe : Val) :
    Computes P G X f_internal_SM2Point_bytes_safe_false (fuelPointbytesUnsafe Fm Ft) [ptV enc p, bytesV out, safe]
      [bytesV (Model.Point.bytes C p false)] := by
  let e0 : Env := Env.ofList [ptV enc p, bytesV out, safe]
  let d := (e0.set 4 (.int ((Model.Field.isZero C.F p.z : Nat) : Int))).set 5
    (.int (if Model.Field.isZero C.F p.z = 1 then 1 else 0))
  have hp : Pre P G X (fuelIsZero Fm Ft + 3) e0 [pbIsZero, pbDecl] d :=
    isZero_prefix (p := p) (env := e0) (t := 4) (v := 5) (site := 4) hw (hB p.z) hG2 rfl
  have d0 : d 0 = ptV enc p := by simp [d, e0, Env.set, Env.ofList]
  have d1 : d 1 = bytesV out := by simp [d, e0, Env.set, Env.ofList]
  by_cases hz : Model.Field.isZero C.F p.z = 1
  · have hm : Model.Point.bytes C p false = [0] := by simp [Model.Point.bytes, hz]
    have g5 : evalV G d (.var 5) = some (.int 1) := by simp [d, Env.set, hz]
    refine Computes.of_body hu.h95 rfl rfl (env' := d) ?_
    rw [fn_95_body_a, hm]
    have r : EvIn P G X 1 d (.ret [pbOne 0]) d (.ret [bytesV [0]]) := by
      refine EvIn.ret ?_
      have q := evalV_pbOne (G := G) d1 0
      simp only [evalVs_cons, evalVs_nil]
      rw [show (Int.ofNat (0 : UInt8).toNat) = (0 : Int) from rfl] at q
      rw [q]
    exact ((hp _).1 _ _ _ (EvIn.seq_stop (EvIn.ite g5 rfl r) (by simp))).mono (by simp only [fuelPointbytesUnsafe]; omega)
  · generalize hvx : Model.Field.toNat C.F p.x * Spec.SM2.invMod (Model.Field.toNat C.F p.z) C.F.modulus % C.F.modulus = vx
    generalize hvy : Model.Field.toNat C.F p.y * Spec.SM2.invMod (Model.Field.toNat C.F p.z) C.F.modulus % C.F.modulus = vy
    have hm : Model.Point.bytes C p false
        = [4] ++ Model.Point.pad32 (Bytes.ofNatMin vx) ++ Model.Point.pad32 (Bytes.ofNatMin vy) := by
      simp [Model.Point.bytes, hz, ← hvx, ← hvy]
    have e256 : (256 : Nat) ^ 32 = 2 ^ 256 := by rw [show (256 : Nat) = 2 ^ 8 from rfl, ← Nat.pow_mul]
    have bx : vx < 256 ^ 32 := by
      rw [e256, ← hvx]; exact Nat.lt_of_lt_of_le (Nat.mod_lt _ hm0) hm256
    have bY : vy < 256 ^ 32 := by
      rw [e256, ← hvy]; exact Nat.lt_of_lt_of_le (Nat.mod_lt _ hm0) hm256
    have lx := SM2SignBytes.ofNatMin_length_le vx 32 bx
    have ly := SM2SignBytes.ofNatMin_length_le vy 32 bY
    have g5 : evalV G d (.var 5) = some (.int 0) := by simp [d, Env.set, hz]
    have c3 : EvIn P G X 2 d pbIte d .norm := EvIn.ite g5 rfl (EvIn.skip _)
    obtain ⟨ea, hA, a1, a7, a9⟩ := bu_arith (P := P) (G := G) (X := X) hw ha hB hG14 hO p d0
    rw [hvx] at a7
    rw [hvy] at a9
    obtain ⟨eb, hE, b18⟩ := bu_enc (P := P) (G := G) (X := X) hY (out := out) (by rw [a1, d1]) a7 a9 (by omega) (by omega)
    have sr : evalVs G eb [(.var 18)] = some [bytesV (Model.Point.bytes C p false)] := by
      simp [evalVs_cons, b18, hm]
    refine Computes.of_body hu.h95 rfl rfl (env' := eb) ?_
    rw [fn_95_body_b]
    have htail := Pre.cons c3 (Pre.append hA hE)
    exact (((Pre.append hp htail) _).1 _ _ _ (EvIn.seq_stop (EvIn.ret sr) (by simp))).mono
      (by simp only [fuelPointbytesUnsafe]; omega)

/-- **(*SM2Point).Bytes_Unsafe = `Model.Point.bytes C p false`** -/
theorem pointBytesUnsafe_computes (hw : HasWrappers P) (ha : HasAffine P) (hu : HasUnsafe P) {C : Model.Point.Ctx α}
    (hB : ∀ e, BytesPrims P G X C.F enc Fm Ft e) (hG2 : G 2 = bytesV (Model.Field.bytes C.F C.F.zero))
    (hG14 : G 14 = .int (C.F.modulus : Int)) (hO : InvOk X C.F.modulus) (hY : BytesOk X)
    (hm0 : 0 < C.F.modulus) (hm256 : C.F.modulus ≤ 2 ^ 256) (p : Model.Point.Pt α) :
    Computes P G X f_internal_SM2Point_Bytes_Unsafe (fuelPointBytesUnsafe Fm Ft) [ptV enc p]
      [bytesV (Model.Point.bytes C p false)] := by
  let e0 : Env := Env.ofList [ptV enc p]
  let e1 := e0.set 2 (bytesV (List.replicate 65 0))
  let e2 := e1.set 3 (bytesV (Model.Point.bytes C p false))
  have c1 : EvIn P G X 1 e0 (.assign 2 [] (.mk (.lit 65) (.lit 0))) e1 .norm := by
    refine EvIn.assign ?_
    rw [evalV_mk]
    simp only [evalV_lit]
    exact congrArg some zeros65
  have c2 : EvIn P G X (fuelPointbytesUnsafe Fm Ft + 1) e1 (.call [3] 95 [(.var 0), (.var 2), (.lit 0)]) e2 .norm := by
    refine (pointbytesUnsafe_computes hw ha hu hB hG2 hG14 hO hY hm0 hm256 p (List.replicate 65 0) (.int 0)).call ?_ rfl
    simp only [evalVs_cons, evalVs_nil, evalV_var, evalV_lit]
    rfl
  have sr : evalVs G e2 [(.var 3)] = some [bytesV (Model.Point.bytes C p false)] := by simp [evalVs_cons, e2, Env.set]
  refine Computes.of_body hu.h94 rfl rfl (env' := e2) ?_
  rw [fn_94_body]
  exact ((Pre.cons c1 (Pre.cons c2 (Pre.nil _)) _).1 _ _ _ (EvIn.seq_stop (EvIn.ret sr) (by simp))).mono
    (by simp only [fuelPointBytesUnsafe]; omega)

end PointBytesUnsafe

/-! ## The statements for the generated program `prog`, as runs -/

section Runs
variable {α : Type} {G : Nat → Val} {X : Oracle} {enc : α → List Nat} {Fm Ft : Nat}

/-- **(*SM2Point).GetAffineX_Unsafe** as a run -/
theorem ir_GetAffineX_Unsafe {C : Model.Point.Ctx α}
    (hB : ∀ e, BytesPrims prog G X C.F enc Fm Ft e) (hG2 : G 2 = bytesV (Model.Field.bytes C.F C.F.zero))
    (hG14 : G 14 = .int (C.F.modulus : Int)) (hO : InvOk X C.F.modulus) (p : Model.Point.Pt α) :
    ∀ f, fuelGetAffineXUnsafe Fm Ft ≤ f →
      runV prog G X f f_internal_SM2Point_GetAffineX_Unsafe [ptV enc p]
        = .ret [.int ((Model.Point.getAffineXUnsafe C p : Nat) : Int)] :=
  (getAffineXUnsafe_computes prog_hasWrappers prog_hasAffine prog_hasUnsafe hB hG2 hG14 hO p).runV

/-- **(*SM2Point).GetAffineX_Unsafe** with the standard external world -/
theorem ir_GetAffineX_Unsafe_std {C : Model.Point.Ctx α} (tape : Nat → Nat → Nat)
    (hB : ∀ e, BytesPrims prog G (stdOracle extKinds tape) C.F enc Fm Ft e)
    (hG2 : G 2 = bytesV (Model.Field.bytes C.F C.F.zero)) (hG14 : G 14 = .int (C.F.modulus : Int))
    (p : Model.Point.Pt α) :
    ∀ f, fuelGetAffineXUnsafe Fm Ft ≤ f →
      runV prog G (stdOracle extKinds tape) f f_internal_SM2Point_GetAffineX_Unsafe [ptV enc p]
        = .ret [.int ((Model.Point.getAffineXUnsafe C p : Nat) : Int)] :=
  ir_GetAffineX_Unsafe hB hG2 hG14 (stdOracle_invOk tape _) p

/-- **(*SM2Point).bytes$safe=false** as a run -/
theorem ir_pointbytes_Unsafe {C : Model.Point.Ctx α}
    (hB : ∀ e, BytesPrims prog G X C.F enc Fm Ft e) (hG2 : G 2 = bytesV (Model.Field.bytes C.F C.F.zero))
    (hG14 : G 14 = .int (C.F.modulus : Int)) (hO : InvOk X C.F.modulus) (hY : BytesOk X)
    (hm0 : 0 < C.F.modulus) (hm256 : C.F.modulus ≤ 2 ^ 256) (p : Model.Point.Pt α) (out : Bytes) (safe : Val) :
    ∀ f, fuelPointbytesUnsafe Fm Ft ≤ f →
      runV prog G X f f_internal_SM2Point_bytes_safe_false [ptV enc p, bytesV out, safe]
        = .ret [bytesV (Model.Point.bytes C p false)] :=
  (pointbytesUnsafe_computes prog_hasWrappers prog_hasAffine prog_hasUnsafe hB hG2 hG14 hO hY hm0 hm256 p out safe).runV

/-- **(*SM2Point).Bytes_Unsafe** as a run -/
theorem ir_PointBytes_Unsafe {C : Model.Point.Ctx α}
    (hB : ∀ e, BytesPrims prog G X C.F enc Fm Ft e) (hG2 : G 2 = bytesV (Model.Field.bytes C.F C.F.zero))
    (hG14 : G 14 = .int (C.F.modulus : Int)) (hO : InvOk X C.F.modulus) (hY : BytesOk X)
    (hm0 : 0 < C.F.modulus) (hm256 : C.F.modulus ≤ 2 ^ 256) (p : Model.Point.Pt α) :
    ∀ f, fuelPointBytesUnsafe Fm Ft ≤ f →
      runV prog G X f f_internal_SM2Point_Bytes_Unsafe [ptV enc p] = .ret [bytesV (Model.Point.bytes C p false)] :=
  (pointBytesUnsafe_computes prog_hasWrappers prog_hasAffine prog_hasUnsafe hB hG2 hG14 hO hY hm0 hm256 p).runV

/-- **(*SM2Point).Bytes_Unsafe** with the standard external world -/
theorem ir_PointBytes_Unsafe_std {C : Model.Point.Ctx α} (tape : Nat → Nat → Nat)
    (hB : ∀ e, BytesPrims prog G (stdOracle extKinds tape) C.F enc Fm Ft e)
    (hG2 : G 2 = bytesV (Model.Field.bytes C.F C.F.zero)) (hG14 : G 14 = .int (C.F.modulus : Int))
    (hm0 : 0 < C.F.modulus) (hm256 : C.F.modulus ≤ 2 ^ 256) (p : Model.Point.Pt α) :
    ∀ f, fuelPointBytesUnsafe Fm Ft ≤ f →
      runV prog G (stdOracle extKinds tape) f f_internal_SM2Point_Bytes_Unsafe [ptV enc p]
        = .ret [bytesV (Model.Point.bytes C p false)] :=
  ir_PointBytes_Unsafe hB hG2 hG14 (stdOracle_invOk tape _) (stdOracle_bytesOk tape) hm0 hm256 p

/-- the hypotheses on global 14 and on the modulus hold for the generated `globals` and the modulus
    `Gen.SM2Params.param_P` of the concrete field instances (`Model.SM2.fiatP`, `CTIRRefineClosed.fiatP4`) -/
theorem globals_curveP : globals 14 = .int ((Gen.SM2Params.param_P : Nat) : Int) := rfl
theorem param_P_pos : 0 < Gen.SM2Params.param_P := by decide
theorem param_P_le : Gen.SM2Params.param_P ≤ 2 ^ 256 := by decide

/-- closed forms of the fuels (`fuelBytes32 Fm Ft = Fm + Ft + 172` is the fuel of `(*SM2Element).Bytes`) -/
theorem fuelGetAffineXUnsafe_eq (Fm Ft : Nat) : fuelGetAffineXUnsafe Fm Ft = 3 * fuelBytes32 Fm Ft + 72 := by
  simp only [fuelGetAffineXUnsafe, fuelIsZero, fuelToBigInt]; omega
theorem fuelPointBytesUnsafe_eq (Fm Ft : Nat) : fuelPointBytesUnsafe Fm Ft = 4 * fuelBytes32 Fm Ft + 352 := by
  simp only [fuelPointBytesUnsafe, fuelPointbytesUnsafe, fuelIsZero, fuelToBigInt]; omega

end Runs

end SMGo.Proofs.CTIRRefineUnsafe

#print axioms SMGo.Proofs.CTIRRefineUnsafe.ptV_eq
#print axioms SMGo.Proofs.CTIRRefineUnsafe.stdOracle_modInverse
#print axioms SMGo.Proofs.CTIRRefineUnsafe.stdOracle_invOk
#print axioms SMGo.Proofs.CTIRRefineUnsafe.stdOracle_bytesOk
#print axioms SMGo.Proofs.CTIRRefineUnsafe.pad_block
#print axioms SMGo.Proofs.CTIRRefineUnsafe.getAffineXUnsafe_computes
#print axioms SMGo.Proofs.CTIRRefineUnsafe.pointbytesUnsafe_computes
#print axioms SMGo.Proofs.CTIRRefineUnsafe.pointBytesUnsafe_computes
#print axioms SMGo.Proofs.CTIRRefineUnsafe.ir_GetAffineX_Unsafe
#print axioms SMGo.Proofs.CTIRRefineUnsafe.ir_GetAffineX_Unsafe_std
#print axioms SMGo.Proofs.CTIRRefineUnsafe.ir_pointbytes_Unsafe
#print axioms SMGo.Proofs.CTIRRefineUnsafe.ir_PointBytes_Unsafe
#print axioms SMGo.Proofs.CTIRRefineUnsafe.ir_PointBytes_Unsafe_std
#print axioms SMGo.Proofs.CTIRRefineUnsafe.globals_curveP
