import SMGo.Proofs.ISAValTouch
namespace SMGo.Proofs.ISATouch
open SMGo.Model.ISAVal
open SMGo.Model.ISA (Reg Opd Instr)

/-! ### helpers on `Except` -/

theorem bind_ok {ε α β : Type} {x : Except ε α} {f : α → Except ε β} {b : β} :
    (x >>= f) = .ok b ↔ ∃ a, x = .ok a ∧ f a = .ok b := by
  cases x with
  | error e => exact ⟨fun h => (by cases h), fun ⟨a, h, _⟩ => (by cases h)⟩
  | ok a => exact ⟨fun h => ⟨a, rfl, h⟩, fun ⟨a', h, h'⟩ => (by cases h; exact h')⟩

theorem map_ok_iff {ε α β : Type} {x : Except ε α} {f : α → β} {b : β} :
    Except.map f x = .ok b ↔ ∃ a, x = .ok a ∧ f a = b := by
  cases x with
  | error e => exact ⟨fun h => (by cases h), fun ⟨a, h, _⟩ => (by cases h)⟩
  | ok a => exact ⟨fun h => ⟨a, rfl, (by cases h; rfl)⟩, fun ⟨a', h, h'⟩ => (by cases h; rw [← h']; rfl)⟩

theorem pure_ok_iff {ε α : Type} {a b : α} : (pure a : Except ε α) = .ok b ↔ a = b :=
  ⟨fun h => (by cases h; rfl), fun h => (by rw [h]; rfl)⟩

theorem bad_ne {α : Type} {b : α} : (badShape : Except String α) = .ok b ↔ False := ⟨fun h => (by cases h), False.elim⟩
theorem err_ne {α : Type} {e : String} {b : α} : (Except.error e : Except String α) = .ok b ↔ False := ⟨fun h => (by cases h), False.elim⟩

/-! ### register view -/

/-- the value of a register (`none`: no such register in this state) -/
def rv (s : State) : Reg → Option Nat
  | .gpr n => s.gpr[n]?
  | .vec n => s.vec[n]?
  | .k n => s.kreg[n]?

theorem getV_ok {s : State} {n v : Nat} : getV s n = .ok v ↔ rv s (.vec n) = some v := by
  unfold getV rv; cases h : s.vec[n]? <;> simp [h]
theorem getG_ok {s : State} {n v : Nat} : getG s n = .ok v ↔ rv s (.gpr n) = some v := by
  unfold getG rv; cases h : s.gpr[n]? <;> simp [h]
theorem getK_ok {s : State} {n v : Nat} : getK s n = .ok v ↔ rv s (.k n) = some v := by
  unfold getK rv; cases h : s.kreg[n]? <;> simp [h]

theorem setV_ok {s s' : State} {n v : Nat} : setV s n v = .ok s' ↔ n < s.vec.length ∧ s' = { s with vec := s.vec.set n v } := by
  unfold setV; split
  · rename_i h; simp [h, eq_comm]
  · rename_i h; simp only [err_ne, false_iff, not_and]; intro h'; exact absurd h' h
theorem setG_ok {s s' : State} {n v : Nat} : setG s n v = .ok s' ↔ n < s.gpr.length ∧ s' = { s with gpr := s.gpr.set n v } := by
  unfold setG; split
  · rename_i h; simp [h, eq_comm]
  · rename_i h; simp only [err_ne, false_iff, not_and]; intro h'; exact absurd h' h
theorem setK_ok {s s' : State} {n v : Nat} : setK s n v = .ok s' ↔ n < s.kreg.length ∧ s' = { s with kreg := s.kreg.set n v } := by
  unfold setK; split
  · rename_i h; simp [h, eq_comm]
  · rename_i h; simp only [err_ne, false_iff, not_and]; intro h'; exact absurd h' h

/-! ### the frame condition -/

/-- what `s'` may differ from `s` in, for an instruction with footprint `t` -/
structure Frame (t : Touch) (s s' : State) : Prop where
  lenG : s'.gpr.length = s.gpr.length
  lenV : s'.vec.length = s.vec.length
  lenK : s'.kreg.length = s.kreg.length
  regs : ∀ r, r ∉ t.writes → rv s' r = rv s r
  flags : t.wf = false → s'.flags = s.flags
  mem : t.store = false → s'.mem = s.mem
  syms : s'.syms = s.syms
  frame : t.fstore = [] → s'.frame = s.frame
  slots : ∀ n, n ∉ t.fstore → lookup s'.frame n = lookup s.frame n

theorem Frame.rfl' (t : Touch) (s : State) : Frame t s s :=
  ⟨rfl, rfl, rfl, fun _ _ => rfl, fun _ => rfl, fun _ => rfl, rfl, fun _ => rfl, fun _ _ => rfl⟩

theorem frame_setV (t : Touch) (s : State) (d v : Nat) (hd : Reg.vec d ∈ t.writes) :
    Frame t s { s with vec := s.vec.set d v } := by
  refine ⟨rfl, by simp, rfl, ?_, fun _ => rfl, fun _ => rfl, rfl, fun _ => rfl, fun _ _ => rfl⟩
  intro r hr
  cases r with
  | vec n =>
    have : d ≠ n := fun h => hr (h ▸ hd)
    simp [rv, List.getElem?_set_ne this]
  | gpr n => rfl
  | k n => rfl

theorem frame_setG (t : Touch) (s : State) (d v : Nat) (hd : Reg.gpr d ∈ t.writes) :
    Frame t s { s with gpr := s.gpr.set d v } := by
  refine ⟨by simp, rfl, rfl, ?_, fun _ => rfl, fun _ => rfl, rfl, fun _ => rfl, fun _ _ => rfl⟩
  intro r hr
  cases r with
  | gpr n =>
    have : d ≠ n := fun h => hr (h ▸ hd)
    simp [rv, List.getElem?_set_ne this]
  | vec n => rfl
  | k n => rfl

theorem frame_setK (t : Touch) (s : State) (d v : Nat) (hd : Reg.k d ∈ t.writes) :
    Frame t s { s with kreg := s.kreg.set d v } := by
  refine ⟨rfl, rfl, by simp, ?_, fun _ => rfl, fun _ => rfl, rfl, fun _ => rfl, fun _ _ => rfl⟩
  intro r hr
  cases r with
  | k n =>
    have : d ≠ n := fun h => hr (h ▸ hd)
    simp [rv, List.getElem?_set_ne this]
  | vec n => rfl
  | gpr n => rfl

theorem Frame.withFlags {t : Touch} {s s' : State} (h : Frame t s s') (hwf : t.wf = true) (f : Flags) :
    Frame t s { s' with flags := f } :=
  ⟨h.lenG, h.lenV, h.lenK, h.regs, fun h' => (by rw [hwf] at h'; cases h'), h.mem, h.syms, h.frame, h.slots⟩

theorem frame_setMem (t : Touch) (s : State) (m : List Region) (hst : t.store = true) : Frame t s { s with mem := m } :=
  ⟨rfl, rfl, rfl, fun _ _ => rfl, fun _ => rfl, fun h => (by rw [hst] at h; cases h), rfl, fun _ => rfl, fun _ _ => rfl⟩

theorem lookup_setSlot (l l' : List (String × Nat)) (name : String) (f : Nat → Nat) (h : setSlot l name f = some l')
    (n : String) (hn : n ≠ name) : lookup l' n = lookup l n := by
  induction l generalizing l' with
  | nil => simp [setSlot] at h
  | cons p rest ih =>
    obtain ⟨k, v⟩ := p
    unfold setSlot at h
    split at h
    · cases h
      rename_i hk
      simp only [lookup]
      rw [if_neg (by rw [hk]; exact fun h' => hn h'.symm), if_neg (by rw [hk]; exact fun h' => hn h'.symm)]
    · cases hr : setSlot rest name f with
      | none => simp [hr] at h
      | some r' =>
        simp only [hr, Option.map_some, Option.some.injEq] at h
        subst h
        simp only [lookup]
        rw [ih r' hr]

theorem frame_writeSlot (t : Touch) (s s' : State) (name : String) (f : Nat → Nat) (hn : name ∈ t.fstore)
    (h : writeSlot s name f = .ok s') : Frame t s s' := by
  unfold writeSlot at h
  cases hs : setSlot s.frame name f with
  | none => simp [hs] at h
  | some fr =>
    simp only [hs, Except.ok.injEq] at h
    subst h
    refine ⟨rfl, rfl, rfl, fun _ _ => rfl, fun _ => rfl, fun _ => rfl, rfl, fun h' => (by rw [h'] at hn; cases hn), ?_⟩
    intro n hnn
    exact lookup_setSlot _ _ _ _ hs n (fun h' => hnn (h' ▸ hn))


/-! ### frame condition, group by group -/

theorem frame_vec3 {s s' : State} {mn : Mn} {vl : Nat} {ops : List Opd} {t : Touch}
    (ht : tVec3 mn ops = some t) (h : exVec3 s mn vl ops = .ok s') : Frame t s s' := by
  unfold tVec3 at ht
  unfold exVec3 at h
  split at h
  · cases h
  split at ht
  · cases ht
    simp only [bind_ok] at h
    obtain ⟨av, _, bv, _, h⟩ := h
    split at h
    · obtain ⟨_, rfl⟩ := setV_ok.mp h; exact frame_setV _ _ _ _ (by simp)
    · cases h
  · split at ht
    · cases ht
      rename_i hm
      simp only [if_pos hm, bind_ok] at h
      obtain ⟨av, _, bv, _, kv, _, old, _, h⟩ := h
      split at h
      · obtain ⟨_, rfl⟩ := setV_ok.mp h; exact frame_setV _ _ _ _ (by simp)
      · cases h
    · cases ht
  · cases ht

theorem frame_vecImm {s s' : State} {mn : Mn} {vl : Nat} {ops : List Opd} {t : Touch}
    (ht : tVecImm ops = some t) (h : exVecImm s mn vl ops = .ok s') : Frame t s s' := by
  unfold tVecImm at ht
  unfold exVecImm at h
  split at h
  · cases h
  split at ht
  · cases ht
    simp only [bind_ok] at h
    obtain ⟨av, _, h⟩ := h
    split at h
    · obtain ⟨_, rfl⟩ := setV_ok.mp h; exact frame_setV _ _ _ _ (by simp)
    · cases h
  · cases ht

theorem frame_vecImm2 {s s' : State} {mn : Mn} {vl : Nat} {ops : List Opd} {t : Touch}
    (ht : tVecImm2 ops = some t) (h : exVecImm2 s mn vl ops = .ok s') : Frame t s s' := by
  unfold tVecImm2 at ht
  unfold exVecImm2 at h
  split at h
  · cases h
  split at ht
  · cases ht
    simp only [bind_ok] at h
    obtain ⟨av, _, bv, _, h⟩ := h
    split at h
    · obtain ⟨_, rfl⟩ := setV_ok.mp h; exact frame_setV _ _ _ _ (by simp)
    · cases h
  · cases ht


theorem storeLE_ok {s s' : State} {addr n v : Nat} :
    storeLE s addr n v = .ok s' ↔ ∃ m, writeMem s.mem addr (lanes 8 n v) = .ok m ∧ s' = { s with mem := m } := by
  unfold storeLE
  rw [map_ok_iff]
  exact ⟨fun ⟨m, h1, h2⟩ => ⟨m, h1, h2.symm⟩, fun ⟨m, h1, h2⟩ => ⟨m, h1, h2.symm⟩⟩

theorem foldlM_mem (f : State → Nat → Except String State)
    (hf : ∀ s j s', f s j = .ok s' → ∃ m, s' = { s with mem := m }) (l : List Nat) (s s' : State)
    (h : l.foldlM f s = .ok s') : ∃ m, s' = { s with mem := m } := by
  induction l generalizing s with
  | nil => simp only [List.foldlM, pure_ok_iff] at h; exact ⟨s.mem, h ▸ rfl⟩
  | cons j l ih =>
    simp only [List.foldlM, bind_ok] at h
    obtain ⟨s1, h1, h2⟩ := h
    obtain ⟨m1, rfl⟩ := hf s j s1 h1
    obtain ⟨m2, rfl⟩ := ih _ h2
    exact ⟨m2, rfl⟩

theorem storeMasked_ok {s s' : State} {addr k v n : Nat} (h : storeMasked s addr k v n = .ok s') :
    ∃ m, s' = { s with mem := m } := by
  unfold storeMasked at h
  refine foldlM_mem _ ?_ _ s s' h
  intro s j s1 h1
  split at h1
  · obtain ⟨m, _, rfl⟩ := storeLE_ok.mp h1; exact ⟨m, rfl⟩
  · rw [pure_ok_iff] at h1; exact ⟨s.mem, h1 ▸ rfl⟩

theorem frame_vmovdqu32 {s s' : State} {vl : Nat} {ops : List Opd} {t : Touch}
    (ht : tVmovdqu32 vl ops = some t) (h : exVmovdqu32 s vl ops = .ok s') : Frame t s s' := by
  unfold tVmovdqu32 at ht
  unfold exVmovdqu32 at h
  split at h
  · cases h
  split at ht
  · cases ht
    simp only [bind_ok] at h
    obtain ⟨addr, _, v, _, h⟩ := h
    obtain ⟨_, rfl⟩ := setV_ok.mp h; exact frame_setV _ _ _ _ (by simp)
  · cases ht
    simp only [bind_ok] at h
    obtain ⟨addr, _, kv, _, old, _, ds, _, h⟩ := h
    obtain ⟨_, rfl⟩ := setV_ok.mp h; exact frame_setV _ _ _ _ (by simp)
  · cases ht
    simp only [bind_ok] at h
    obtain ⟨addr, _, av, _, h⟩ := h
    obtain ⟨m, _, rfl⟩ := storeLE_ok.mp h; exact frame_setMem _ _ _ rfl
  · cases ht
    simp only [bind_ok] at h
    obtain ⟨addr, _, av, _, kv, _, h⟩ := h
    obtain ⟨m, rfl⟩ := storeMasked_ok h; exact frame_setMem _ _ _ rfl
  · cases ht

theorem frame_vmovReg {s s' : State} {vl : Nat} {ops : List Opd} {t : Touch}
    (ht : tVmovReg ops = some t) (h : exVmovReg s vl ops = .ok s') : Frame t s s' := by
  unfold tVmovReg at ht
  unfold exVmovReg at h
  split at h
  · cases h
  split at ht
  · cases ht
    simp only [bind_ok] at h
    obtain ⟨av, _, h⟩ := h
    obtain ⟨_, rfl⟩ := setV_ok.mp h; exact frame_setV _ _ _ _ (by simp)
  · cases ht

theorem frame_broadcastD {s s' : State} {vl : Nat} {ops : List Opd} {t : Touch}
    (ht : tBroadcastD ops = some t) (h : exBroadcastD s vl ops = .ok s') : Frame t s s' := by
  unfold tBroadcastD at ht
  unfold exBroadcastD at h
  split at h
  · cases h
  split at ht
  · cases ht
    simp only [bind_ok] at h
    obtain ⟨av, _, h⟩ := h
    obtain ⟨_, rfl⟩ := setV_ok.mp h; exact frame_setV _ _ _ _ (by simp)
  · cases ht
    simp only [bind_ok] at h
    obtain ⟨av, _, h⟩ := h
    obtain ⟨_, rfl⟩ := setV_ok.mp h; exact frame_setV _ _ _ _ (by simp)
  · cases ht

theorem frame_broadcastMem {s s' : State} {w vl : Nat} {ops : List Opd} {t : Touch}
    (ht : tBroadcastMem w ops = some t) (h : exBroadcastMem s w vl ops = .ok s') : Frame t s s' := by
  unfold tBroadcastMem at ht
  unfold exBroadcastMem at h
  split at h
  · cases h
  split at ht
  · cases ht
    simp only [bind_ok] at h
    obtain ⟨addr, _, v, _, h⟩ := h
    obtain ⟨_, rfl⟩ := setV_ok.mp h; exact frame_setV _ _ _ _ (by simp)
  · cases ht

theorem frame_psllo {s s' : State} {ops : List Opd} {t : Touch}
    (ht : tPsllo ops = some t) (h : exPsllo s ops = .ok s') : Frame t s s' := by
  unfold tPsllo at ht
  unfold exPsllo at h
  split at ht
  · cases ht
    simp only [bind_ok] at h
    obtain ⟨old, _, h⟩ := h
    obtain ⟨_, rfl⟩ := setV_ok.mp h; exact frame_setV _ _ _ _ (by simp)
  · cases ht

theorem frame_kmovw {s s' : State} {ops : List Opd} {t : Touch}
    (ht : tKmovw ops = some t) (h : exKmovw s ops = .ok s') : Frame t s s' := by
  unfold tKmovw at ht
  unfold exKmovw at h
  split at ht
  · cases ht
    simp only [bind_ok] at h
    obtain ⟨v, _, h⟩ := h
    obtain ⟨_, rfl⟩ := setK_ok.mp h; exact frame_setK _ _ _ _ (by simp)
  · cases ht

theorem frame_leaq {s s' : State} {ops : List Opd} {t : Touch}
    (ht : tLeaq ops = some t) (h : exLeaq s ops = .ok s') : Frame t s s' := by
  unfold tLeaq at ht
  unfold exLeaq at h
  split at ht
  · cases ht
    simp only at h
    split at h
    · obtain ⟨_, rfl⟩ := setG_ok.mp h; exact frame_setG _ _ _ _ (by simp)
    · cases h
  · cases ht

theorem frame_cmpq {s s' : State} {ops : List Opd} {t : Touch}
    (ht : tCmpq ops = some t) (h : exCmpq s ops = .ok s') : Frame t s s' := by
  unfold tCmpq at ht
  unfold exCmpq at h
  split at ht
  · cases ht
    simp only [bind_ok, pure_ok_iff] at h
    obtain ⟨x, _, rfl⟩ := h
    exact (Frame.rfl' _ s).withFlags rfl _
  · cases ht
    simp only [bind_ok, pure_ok_iff] at h
    obtain ⟨x, _, y, _, rfl⟩ := h
    exact (Frame.rfl' _ s).withFlags rfl _
  · cases ht


theorem withFlags_ok {r : Except String State} {f : Flags} {s' : State} :
    withFlags r f = .ok s' ↔ ∃ s1, r = .ok s1 ∧ s' = { s1 with flags := f } := by
  unfold withFlags
  rw [map_ok_iff]
  exact ⟨fun ⟨m, h1, h2⟩ => ⟨m, h1, h2.symm⟩, fun ⟨m, h1, h2⟩ => ⟨m, h1, h2.symm⟩⟩

theorem frame_mov {s s' : State} {mn : Mn} {ops : List Opd} {t : Touch}
    (ht : tMov mn ops = some t) (h : exMov s mn ops = .ok s') : Frame t s s' := by
  unfold tMov at ht
  unfold exMov at h
  split at ht
  · -- MOVL m32, X
    split at ht
    · cases ht
      rename_i hm
      simp only [if_pos hm, bind_ok] at h
      obtain ⟨addr, _, v, _, old, _, h⟩ := h
      obtain ⟨_, rfl⟩ := setV_ok.mp h; exact frame_setV _ _ _ _ (by simp)
    · cases ht
  · -- MOVQ r64, X
    split at ht
    · cases ht
      rename_i hm
      simp only [if_pos hm, bind_ok] at h
      obtain ⟨v, _, old, _, h⟩ := h
      obtain ⟨_, rfl⟩ := setV_ok.mp h; exact frame_setV _ _ _ _ (by simp)
    · cases ht
  · -- MOVQ slot, r
    split at ht
    · cases ht
      rename_i hm
      simp only [if_pos hm] at h
      split at h
      · obtain ⟨_, rfl⟩ := setG_ok.mp h; exact frame_setG _ _ _ _ (by simp)
      · cases h
    · cases ht
  · -- MOVQ $imm, slot
    split at ht
    · cases ht
      rename_i hm
      simp only [if_pos hm] at h
      exact frame_writeSlot _ _ _ _ _ (by simp) h
    · cases ht
  · -- MOVQ / MOVL r, slot
    split at ht
    · cases ht
      rename_i hm
      simp only [if_pos hm, bind_ok] at h
      obtain ⟨v, _, h⟩ := h
      exact frame_writeSlot _ _ _ _ _ (by simp) h
    · split at ht
      · cases ht
        rename_i hm1 hm
        simp only [if_neg hm1, if_pos hm, bind_ok] at h
        obtain ⟨v, _, h⟩ := h
        exact frame_writeSlot _ _ _ _ _ (by simp) h
      · cases ht
  · -- MOVQ / MOVL $imm, r
    split at ht
    · cases ht
      rename_i hm
      simp only [if_pos hm] at h
      obtain ⟨_, rfl⟩ := setG_ok.mp h; exact frame_setG _ _ _ _ (by simp)
    · split at ht
      · cases ht
        rename_i hm1 hm
        simp only [if_neg hm1, if_pos hm] at h
        obtain ⟨_, rfl⟩ := setG_ok.mp h; exact frame_setG _ _ _ _ (by simp)
      · cases ht
  · -- MOVQ r, r
    split at ht
    · cases ht
      rename_i hm
      simp only [if_pos hm, bind_ok] at h
      obtain ⟨v, _, h⟩ := h
      obtain ⟨_, rfl⟩ := setG_ok.mp h; exact frame_setG _ _ _ _ (by simp)
    · cases ht
  · -- load
    cases ht
    simp only [bind_ok] at h
    obtain ⟨addr, _, v, _, old, _, h⟩ := h
    obtain ⟨_, rfl⟩ := setG_ok.mp h; exact frame_setG _ _ _ _ (by simp)
  · -- store
    cases ht
    simp only [bind_ok] at h
    obtain ⟨addr, _, v, _, h⟩ := h
    obtain ⟨m, _, rfl⟩ := storeLE_ok.mp h; exact frame_setMem _ _ _ rfl
  · -- store immediate
    split at ht
    · cases ht
      rename_i hm
      simp only [if_pos hm, bind_ok] at h
      obtain ⟨addr, _, h⟩ := h
      obtain ⟨m, _, rfl⟩ := storeLE_ok.mp h; exact frame_setMem _ _ _ rfl
    · cases ht
  · cases ht

theorem frame_alu {s s' : State} {mn : Mn} {ops : List Opd} {t : Touch}
    (ht : tAlu mn ops = some t) (h : exAlu s mn ops = .ok s') : Frame t s s' := by
  unfold tAlu at ht
  unfold exAlu at h
  split at ht
  · -- $imm, r
    rename_i v d
    have hm : mn = .ADDQ ∨ mn = .SUBQ ∨ mn = .ANDQ ∨ mn = .SHLQ ∨ mn = .SHRQ := by
      split at ht
      · rename_i h1; rcases h1 with h1 | h1 | h1 <;> simp [h1]
      · split at ht
        · rename_i h1; rcases h1 with h1 | h1 <;> simp [h1]
        · cases ht
    have ht' : t = { reads := [.gpr d], writes := [.gpr d], wf := true } := by
      split at ht
      · cases ht; rfl
      · split at ht
        · split at ht
          · cases ht
          · cases ht; rfl
        · cases ht
    subst ht'
    simp only [if_pos hm, bind_ok] at h
    obtain ⟨old, _, ⟨r, f⟩, _, h⟩ := h
    obtain ⟨s1, h1, rfl⟩ := withFlags_ok.mp h
    obtain ⟨_, rfl⟩ := setG_ok.mp h1
    exact (frame_setG _ _ _ _ (by simp)).withFlags rfl _
  · -- r, r
    split at ht
    · cases ht
      rename_i hm
      simp only [if_pos hm, bind_ok] at h
      obtain ⟨src, _, old, _, ⟨r, f⟩, _, h⟩ := h
      obtain ⟨s1, h1, rfl⟩ := withFlags_ok.mp h
      obtain ⟨_, rfl⟩ := setG_ok.mp h1
      exact (frame_setG _ _ _ _ (by simp)).withFlags rfl _
    · cases ht
  · -- mem, r
    split at ht
    · cases ht
      rename_i hm
      simp only [if_pos hm, bind_ok] at h
      obtain ⟨addr, _, src, _, old, _, ⟨r, f⟩, _, h⟩ := h
      obtain ⟨s1, h1, rfl⟩ := withFlags_ok.mp h
      obtain ⟨_, rfl⟩ := setG_ok.mp h1
      exact (frame_setG _ _ _ _ (by simp)).withFlags rfl _
    · cases ht
  · -- r, mem
    split at ht
    · cases ht
      rename_i hm
      simp only [if_pos hm, bind_ok] at h
      obtain ⟨addr, _, src, _, old, _, ⟨r, f⟩, _, h⟩ := h
      obtain ⟨s1, h1, rfl⟩ := withFlags_ok.mp h
      obtain ⟨m, _, rfl⟩ := storeLE_ok.mp h1
      exact (frame_setMem _ _ _ rfl).withFlags rfl _
    · cases ht
  · cases ht

/-- **frame condition**: an instruction changes no register outside `writes`, the flags only if `wf`, memory only
    if `store`, frame slots only those in `fstore`, never the symbol table or the number of registers -/
theorem touches_frame {d : DInstr} {t : Touch} {s s' : State} (ht : touchesOf d = some t) (h : execD s d = .ok s') :
    Frame t s s' := by
  obtain ⟨pc, mn, ops, vw⟩ := d
  unfold touchesOf at ht
  unfold execD at h
  cases mn <;> simp only at ht h
  all_goals first
    | exact frame_vec3 ht h
    | exact frame_vecImm ht h
    | exact frame_vecImm2 ht h
    | exact frame_vmovdqu32 ht h
    | exact frame_vmovReg ht h
    | exact frame_broadcastD ht h
    | exact frame_broadcastMem ht h
    | exact frame_psllo ht h
    | exact frame_kmovw ht h
    | exact frame_leaq ht h
    | exact frame_mov ht h
    | exact frame_alu ht h
    | exact frame_cmpq ht h
    | (cases h)
    | (cases ops with
       | nil => exact frame_vec3 ht h
       | cons o rest => cases o <;> first | exact frame_vecImm ht h | exact frame_vec3 ht h)
    | (split at ht
       · cases ht; cases h; exact Frame.rfl' _ _
       · cases ht)

end SMGo.Proofs.ISATouch
