import SMGo.Proofs.ISAValGhashB1
namespace SMGo.Proofs.ISAVal
open SMGo.Model.ISAVal SMGo.Model.ISA SMGo.Model.GCM SMGo.Proofs.GCM

/-- `blocksEnd`: the running value reflected back and stored at the tag pointer -/
theorem ghE_spec (mem : List Region) (tp h : Nat) (s : State) (ctx : Ctx mem tp h s) (y : Nat) (mem' : List Region)
    (hv21 : vreg s 21 = y) (hy : y < 2 ^ 128) (htp : tp < 2 ^ 64)
    (hwr : writeMem mem tp (lanes 8 16 (rb128 y)) = .ok mem') :
    ∃ s', execList eCode s = .ok s' ∧ s'.mem = mem' := by
  obtain ⟨s2, hrun2, vo2, lt2, val2⟩ := rb_spec 16 21 1 2 rfl (Or.inl ⟨by decide, rfl, rfl⟩) s ctx.lenV ctx.v22 ctx.v23 ctx.v24
  have h21 : vreg s2 21 = rb128 y := by
    rw [← lane128_0_of_lt _ lt2, val2 0 (by decide), hv21, lane128_0_of_lt _ hy]
  have hg3 : greg s2 3 = tp := by show s2.gpr.getD 3 0 = _; rw [vo2.gpr]; exact ctx.g3
  refine ⟨setMem s2 mem', ?_, rfl⟩
  unfold eCode
  refine execList_append_ok hrun2 ?_
  apply exec_step (s1 := setMem s2 mem')
  · exact a_vmov_store s2 16 21 3 0 mem' rfl (by rw [vo2.gpr, ctx.lenG]; decide) (by rw [vo2.lenV]; decide)
      (by rw [vo2.mem, ctx.hmem, hg3, imm64_0, Nat.add_zero, Nat.mod_eq_of_lt htp, h21]; exact hwr)
  rfl

/-- `n` one-block GHASH steps on reflected operands over the bytes `d` -/
def ghN (h : Nat) : Nat → Nat → List Nat → Nat
  | 0, y, _ => y
  | n + 1, y, d => ghN h n (gmulR h (y ^^^ rb128 (unlanes 8 (d.take 16)))) (d.drop 16)

/-! ### the pieces of the routine by position -/

theorem ghR_len : ghR.length = 173 := by decide +kernel

theorem ghR_seg (k n : Nat) (h : k + n ≤ 173) : ghR.drop k = (ghR.drop k).take n ++ ghR.drop (k + n) := by
  rw [← List.drop_drop, List.take_append_drop]

theorem seg_b1 : ((ghR.drop 134).take 29).map erasePc = b1Code := by decide +kernel
theorem seg_e : ((ghR.drop 164).take 7).map erasePc = eCode := by decide +kernel
theorem at_163 : ghR.drop 163 = ⟨1002, .JGT, [.target 827], 0⟩ :: ghR.drop 164 := by decide +kernel
theorem at_171 : ghR.drop 171 = ⟨1051, .RET, [], 0⟩ :: ghR.drop 172 := by decide +kernel
theorem b1_nc : b1Code.all (fun i => !i.mn.isControl) = true := by decide +kernel
theorem e_nc : eCode.all (fun i => !i.mn.isControl) = true := by decide +kernel

/-- run through a straight segment of the routine given by its scheme -/
theorem run_seg (k n : Nat) (code : List DInstr) (hk : k + n ≤ 173)
    (hs : ((ghR.drop k).take n).map erasePc = code) (hnc : code.all (fun i => !i.mn.isControl) = true)
    (s s' : State) (hex : execList code s = .ok s') (fuel : Nat) :
    runFrom ghR (fuel + n) (ghR.drop k) s = runFrom ghR fuel (ghR.drop (k + n)) s' := by
  have hlen : ((ghR.drop k).take n).length = n := by
    rw [List.length_take, List.length_drop, ghR_len]; omega
  have hc : ∀ i ∈ (ghR.drop k).take n, i.mn.isControl = false := by
    intro i hi
    rw [← hs, List.all_eq_true] at hnc
    have := hnc (erasePc i) (List.mem_map_of_mem hi)
    simpa [erasePc] using this
  have hex' : execList ((ghR.drop k).take n) s = .ok s' := by rw [← execList_erase, hs]; exact hex
  have := runFrom_seg ghR ((ghR.drop k).take n) (ghR.drop (k + n)) hc s s' hex' fuel
  rw [hlen, ← ghR_seg k n hk] at this
  exact this

/-- **`loopBy1` … `blocksEnd` … RET**: from the head of the by-1 loop with `n ≥ 1` blocks left, the routine
    performs `n` GHASH steps and stores the reflected result at the tag pointer -/
theorem ghLoop1 (mem : List Region) (tp h : Nat) (mem' : List Region) (htp : tp < 2 ^ 64) :
    ∀ (n : Nat) (s : State) (dp y : Nat) (d : List Nat), Ctx mem tp h s → greg s 1 = dp → greg s 2 = n → vreg s 21 = y →
      y < 2 ^ 128 → 1 ≤ n → n < 2 ^ 63 → dp + 16 * n < 2 ^ 64 → 16 * n ≤ d.length → (∀ x ∈ d, x < 2 ^ 8) →
      (∀ off, off + 16 ≤ d.length → readMem mem (dp + off) 16 = .ok ((d.drop off).take 16)) →
      writeMem mem tp (lanes 8 16 (rb128 (ghN h n y d))) = .ok mem' →
      ∃ s', runFrom ghR (30 * n + 8) (ghR.drop 134) s = .ok s' ∧ s'.mem = mem' := by
  intro n
  induction n with
  | zero => intro s dp y d _ _ _ _ _ h1; omega
  | succ k ih =>
    intro s dp y d ctx hg1 hg2 hv21 hy _ hn63 hdp hd hdb hrd hwr
    have hblk : (d.take 16).length = 16 := by rw [List.length_take]; omega
    obtain ⟨s1, hrun, ctx1, h1g1, h1g2, h1v21, h1fl⟩ := ghB1_spec mem tp h s ctx dp (k + 1) y (d.take 16) hg1 hg2 hv21 hy
      (by omega) (by omega) hn63 (by have := hrd 0 (by omega); simpa using this) hblk
      (fun x hx => hdb x (List.mem_of_mem_take hx))
    have hy1 : gmulR h (y ^^^ rb128 (unlanes 8 (d.take 16))) < 2 ^ 128 :=
      gmulR_lt ctx.hlt (Nat.xor_lt_two_pow hy (rb128_lt _))
    rw [show 30 * (k + 1) + 8 = (30 * k + 8 + 1) + 29 from by omega,
      run_seg 134 29 b1Code (by decide) seg_b1 b1_nc s s1 hrun, show 134 + 29 = 163 from rfl, at_163,
      runFrom_jcc ghR _ _ s1 (30 * k + 8) 827 (decide (0 < k + 1 - 1)) (Or.inr (Or.inl rfl)) rfl
        (by rw [h1fl]; exact cond_jgt (k + 1 - 1) 0 (by omega) (by decide))]
    simp only [Nat.add_sub_cancel]
    by_cases hk : 0 < k
    · -- back to the loop head
      simp only [hk, decide_true, if_true, ghR_targets.2.1]
      exact ih s1 (dp + 16) _ (d.drop 16) ctx1 h1g1 (by rw [h1g2]; omega) h1v21 hy1 (by omega) (by omega) (by omega)
        (by rw [List.length_drop]; omega) (fun x hx => hdb x (List.mem_of_mem_drop hx))
        (by intro off hoff
            rw [List.length_drop] at hoff
            rw [Nat.add_assoc, hrd (16 + off) (by omega), List.drop_drop])
        hwr
    · -- fall through to blocksEnd
      have hk0 : k = 0 := by omega
      subst hk0
      simp only [Nat.lt_irrefl, decide_false, Bool.false_eq_true, if_false]
      obtain ⟨s2, hrun2, hmem2⟩ := ghE_spec mem tp h s1 ctx1 _ mem' h1v21 hy1 htp hwr
      rw [show 30 * 0 + 8 = 1 + 7 from rfl, run_seg 164 7 eCode (by decide) seg_e e_nc s1 s2 hrun2,
        show 164 + 7 = 171 from rfl, at_171, runFrom_ret ghR _ _ s2 0 rfl rfl]
      exact ⟨s2, rfl, hmem2⟩

end SMGo.Proofs.ISAVal
