import SMGo.Proofs.ISAValLadX16A
set_option linter.unusedSimpArgs false
namespace SMGo.Proofs.ISAVal
open SMGo.Model.ISAVal SMGo.Model.GCM SMGo.Proofs.GCM SMGo.Proofs.ISATouch
open SMGo.Model.ISA (Reg Opd Instr)

theorem x16_eq' (b : Nat) : ladX16Code b =
    [ins .CMPQ [G 9, .imm 256] 0, ins .JLT [.target (b + 4387)] 0] ++ (x16ACode ++
      ([ins .CMPQ [G 0, .imm 0] 0, ins .JEQ [.target (b + 4361)] 0] ++ (hash16Code ++ (ladTailCode 256 ++
        [ins .JMP [.target (b + 99)] 0])))) := by
  rw [x16_eq]; simp only [x16ACode, List.append_assoc]

theorem x16A_len : x16ACode.length = 560 := by
  simp only [x16ACode, List.length_append, kern_len, fill16Code, xs16Code, List.length_cons, List.length_nil]
theorem x16A_nc : x16ACode.all (fun i => !i.mn.isControl) = true := by
  unfold x16ACode; rw [List.all_append, List.all_append, kern_nc]; rfl
theorem hash16_len : hash16Code.length = 121 := by decide +kernel
theorem hash16_nc : hash16Code.all (fun i => !i.mn.isControl) = true := by decide +kernel
theorem ladTail_nc (c : Int) : (ladTailCode c).all (fun i => !i.mn.isControl) = true := rfl

theorem imm64_0' : imm64 0 = 0 := by decide +kernel

def hKeepG : List Nat := [0, 6, 9, 10, 13, 15]
def hKeepV : List Nat := [10, 11, 12, 14, 15, 16, 17, 18, 19, 22, 23, 24, 25, 26, 29, 30, 31]

set_option maxHeartbeats 1000000 in
/-- **one iteration of `loopX16`** -/
theorem x16_step (r : Routine) (k b : Nat) (hs : Slice r k (ladX16Code b))
    (lself : findPc r (b + 99) = some (r.drop k)) (ldone : findPc r (b + 4361) = some (r.drop (k + 685)))
    (lnext : findPc r (b + 4387) = some (r.drop (k + 690)))
    (M2 : List Nat → List Nat → List Region) (dbase dlen tp sp : Nat) (rk jb src : List Nat) (lm : LadMem M2 dbase dlen tp rk src sp)
    (hrk : rk.length = 32) (hrkb : ∀ x ∈ rk, x < 2 ^ 32) (hjb : jb.length = 16) (hjbb : ∀ x ∈ jb, x < 2 ^ 8) (hsb : ∀ x ∈ src, x < 2 ^ 8)
    (hsp : sp + src.length < 2 ^ 63) (hdb : dbase + dlen < 2 ^ 63) (hsl : src.length ≤ dlen)
    (toff h hf c y : Nat) (dc tc : List Nat) (s : State) (hhf : hf < 2 ^ 63)
    (st : LadSt M2 dbase dlen tp sp toff (Wblk jb 0) h hf src 4 c y dc tc s) (hlen : 16 * c + 256 ≤ src.length) :
    ∃ s' N, N ≤ 700 ∧ Reach r k s k s' N ∧
      LadSt M2 dbase dlen tp sp toff (Wblk jb 0) h hf src 4 (c + 16)
        (if hf = 0 then y else ghN4 h 4 y (xorN ((src.drop (16 * c)).take 256) (ksN rk jb c 16)))
        (spliceAt dc (16 * c) (xorN ((src.drop (16 * c)).take 256) (ksN rk jb c 16))) tc s' ∧
      KeepsM ladKeepG ladKeepV (List.range 8) s s' := by
  rw [x16_eq'] at hs
  have sG : Slice r k [ins .CMPQ [G 9, .imm 256] 0, ins .JLT [.target (b + 4387)] 0] := hs.left
  have sA : Slice r (k + 2) x16ACode := hs.right.left
  have sH0 := hs.right.right
  rw [x16A_len] at sH0
  have sC : Slice r (k + 2 + 560) [ins .CMPQ [G 0, .imm 0] 0, ins .JEQ [.target (b + 4361)] 0] := sH0.left
  have sH : Slice r (k + 2 + 560 + 2) hash16Code := sH0.right.left
  have sT0 := sH0.right.right
  rw [hash16_len] at sT0
  have sT : Slice r (k + 2 + 560 + 2 + 121) (ladTailCode 256) := sT0.left
  have sJ : Slice r (k + 2 + 560 + 2 + 121 + 4) [ins .JMP [.target (b + 99)] 0] := sT0.right
  -- the guard
  have hg9 : greg s 9 = src.length - 16 * c := st.g9
  have r0 := guard_reach (idx := k + 690) sG rfl lnext s (by rw [st.pc.lenG]; decide) (src.length - 16 * c) 256 hg9 imm64_256 false
    (by rw [cond_jlt _ _ (by omega) (by decide)]; simp; omega)
  simp only [Bool.false_eq_true, if_false] at r0
  let s0 := setFlags s (subF 8 (src.length - 16 * c) 256).2
  have k0 : KeepsM (List.range 16) (List.range 32) (List.range 8) s s0 := keepsM_setFlags _ _ _ s _
  have pc0 : PCtx s0 := st.pc.of_keepsM k0 (by decide)
  -- fill, kernel, xor, store
  obtain ⟨s1, hr1, m1, regs1, ctr1, g15, k1⟩ := x16A_spec s0 pc0 rk jb src hrk hrkb hjb hjbb hsb (fun d => M2 d tc) dbase dlen sp
    (lm.m2.bufD tc st.htc) (fun d i hd hi => lm.rk d tc i hd st.htc hi) dc st.hdc st.mem c (st.srcOK tc st.htc) st.ctr st.rkp
    st.g10 st.g13 hlen (by omega) hsp hdb
  have r1 : Reach r (k + 2) s0 (k + 2 + 560) s1 560 := by
    have := reach_seg sA x16A_nc hr1; rw [x16A_len] at this; exact this
  have c1 : GhCtx h s1 := (st.gh.of_keepsM k0 (by decide)).of_keepsM k1 (by decide)
  have hout := x16_out rk jb src c hlen
  rw [hout] at m1
  have hob : ∀ rr, rr < 4 → (oReg rk jb src c 4 rr).length = 64 ∧ ∀ x ∈ oReg rk jb src c 4 rr, x < 2 ^ 8 := by
    intro rr hrr
    unfold oReg
    refine ⟨by rw [xorN_length, ksReg_length, List.length_take, List.length_drop]; omega,
      xorN_bytes _ _ (fun x hx => hsb x (List.mem_of_mem_drop (List.mem_of_mem_take hx))) (ksReg_bytes _ _ _ _ _)⟩
  -- hashFlag
  have hg0 : greg s1 0 = hf := by rw [k1.g 0 (by decide)]; exact st.g0
  have r2 := guard_reach (idx := k + 685) sC rfl ldone s1 (by rw [c1.lenG]; decide) hf 0 hg0 imm64_0' (decide (hf = 0))
    (cond_jeq _ _ hhf (by decide))
  let s2 := setFlags s1 (subF 8 hf 0).2
  have k2 : KeepsM (List.range 16) (List.range 32) (List.range 8) s1 s2 := keepsM_setFlags _ _ _ s1 _
  have c2 : GhCtx h s2 := c1.of_keepsM k2 (by decide)
  have y2 : vreg s2 21 = y := by
    show vreg s1 21 = y
    rw [k1.v 21 (by decide)]; exact st.acc
  -- both ways lead to the label `loopX16Done`
  obtain ⟨s3, N3, hN3, r3, y3, lt3, m3, k3⟩ : ∃ s3 N3, N3 ≤ 121 ∧ Reach r (if decide (hf = 0) = true then k + 685 else k + 2 + 560 + 2) s2 (k + 685) s3 N3 ∧
      vreg s3 21 = (if hf = 0 then y else ghN4 h 4 y (xorN ((src.drop (16 * c)).take 256) (ksN rk jb c 16))) ∧ vreg s3 21 < 2 ^ 128 ∧ s3.mem = s2.mem ∧
      KeepsM hKeepG hKeepV (List.range 8) s2 s3 := by
    by_cases h0 : hf = 0
    · simp only [h0, decide_true, if_true]
      exact ⟨s2, 0, by omega, Reach.refl _ _ _, y2, by rw [y2]; exact st.acclt, rfl, KeepsM.rfl' _ _ _ _⟩
    · simp only [h0, decide_false, Bool.false_eq_true, if_false]
      obtain ⟨s3, hr3, v3, l3, _, k3⟩ := hash16_spec s2 h c2 y y2 st.acclt (oReg rk jb src c 4) hob
        (fun rr hrr => by show vreg s1 (9 - rr) = _; exact regs1 rr hrr)
      have := reach_seg sH hash16_nc hr3
      rw [hash16_len] at this
      refine ⟨s3, 121, by omega, this.cast (by omega) rfl, ?_, l3, k3.mem, k3.toM.mono (by decide) (by decide) (fun _ h => h)⟩
      rw [v3, hout]
  -- the tail
  have hG3 : s3.gpr.length = 16 := k3.lenG.trans c2.lenG
  have e13 : greg s3 13 = dbase + 16 * c := by
    rw [k3.g 13 (by decide)]; show greg s1 13 = _; rw [k1.g 13 (by decide)]; exact st.g13
  have e10 : greg s3 10 = sp + 16 * c := by
    rw [k3.g 10 (by decide)]; show greg s1 10 = _; rw [k1.g 10 (by decide)]; exact st.g10
  have e9 : greg s3 9 = src.length - 16 * c := by
    rw [k3.g 9 (by decide)]; show greg s1 9 = _; rw [k1.g 9 (by decide)]; exact st.g9
  obtain ⟨s4, hr4, g13, g10, g9, k4⟩ := ladTail_spec 256 256 imm64_256 (by decide) s3 hG3 _ _ _ e13 e10 e9 (by omega) (by omega) (by omega) (by omega)
  have r4 : Reach r (k + 2 + 560 + 2 + 121) s3 (k + 2 + 560 + 2 + 121 + 4) s4 4 := reach_seg sT (ladTail_nc 256) hr4
  have r5 : Reach r (k + 2 + 560 + 2 + 121 + 4) s4 k s4 1 := reach_jmp sJ lself s4
  have rAll : Reach r k s k s4 (2 + 560 + 2 + N3 + 4 + 1) :=
    (((((r0.trans r1).trans r2).trans r3).trans (r4.cast rfl rfl)).trans r5)
  -- what is kept from s to s4
  have kA : KeepsM ladKeepG ladKeepV (List.range 8) s s4 := by
    refine ((((k0.mono (by decide) (by decide) (fun _ h => h)).trans ?_).trans (k2.mono (by decide) (by decide) (fun _ h => h))).trans
      (k3.mono (by decide) (by decide) (fun _ h => h))).trans (k4.toM.mono (by decide) (by decide) (fun _ h => h))
    exact ⟨k1.lenG, k1.lenV, k1.lenK, fun n hn => by
        simp only [ladKeepG, List.mem_cons, List.not_mem_nil, or_false] at hn
        rcases hn with rfl | rfl | rfl
        · exact k1.g 0 (by decide)
        · exact k1.g 6 (by decide)
        · rw [g15]; exact st.rkp.symm,
      fun n hn => k1.v n (by revert n; decide), fun n hn => k1.k n hn, k1.syms, k1.frame⟩
  refine ⟨s4, _, by omega, rAll, ?_, kA⟩
  have hm4 : s4.mem = M2 (spliceAt dc (16 * c) (xorN ((src.drop (16 * c)).take 256) (ksN rk jb c 16))) tc := by
    rw [k4.mem, m3]; exact m1
  refine ⟨st.pc.of_keepsM kA pRegs_lad, st.gh.of_keepsM kA ghRegs_lad, (kA.g 15 (by decide)).trans st.rkp, (kA.g 0 (by decide)).trans st.g0,
    ?_, ?_, ?_, (kA.g 6 (by decide)).trans st.g6, ?_, ?_, ?_, hm4, ?_, st.htc, ?_⟩
  · rw [g9]; omega
  · rw [g10]; omega
  · rw [g13]; omega
  · intro l hl
    rw [k4.v 14 (by decide), k3.v 14 (by decide)]; exact ctr1 l hl
  · rw [k4.v 21 (by decide)]; exact y3
  · rw [← y3]; exact lt3
  · rw [spliceAt_length _ _ _ (by rw [xorN_length, ksN_length, List.length_take, List.length_drop, st.hdc]; omega)]; exact st.hdc
  · intro t ht
    exact (lm.adv dc t (16 * c) 256 _ st.hdc ht (by rw [xorN_length, ksN_length, List.length_take, List.length_drop]; omega) (by omega)
      (st.srcOK t ht)).mono _ (by omega)

end SMGo.Proofs.ISAVal
