import SMGo.Proofs.ISAValOpenSMid
set_option linter.unusedSimpArgs false
namespace SMGo.Proofs.ISAVal
open SMGo.Model.ISAVal SMGo.Model.GCM SMGo.Proofs.GCM SMGo.Proofs.ISATouch
open SMGo.Model.ISA (Reg Opd Instr)

def xorOf (w : Nat) : Mn := if w = 8 then .XORQ else .XORB
def orOf (w : Nat) : Mn := if w = 8 then .ORQ else .ORB

/-- `XORQ/XORB reg, (base)`: the memory operand is xored with the low bytes of the register -/
theorem a_xor_store (s : State) (w a b : Nat) (hw : w = 8 ∨ w = 1) (bs : List Nat) (mem' : List Region) (ha : a < s.gpr.length)
    (hb : b < s.gpr.length) (hload : readMem s.mem ((greg s b + 0 + imm64 0) % 2 ^ 64) w = .ok bs)
    (hstore : writeMem s.mem ((greg s b + 0 + imm64 0) % 2 ^ 64) (lanes 8 w (unlanes 8 bs ^^^ greg s a % 2 ^ (8 * w))) = .ok mem') :
    execD s (ins (xorOf w) [G a, M b 0] 0)
      = .ok (setFlags (setMem s mem') (logicFlags w (unlanes 8 bs ^^^ greg s a % 2 ^ (8 * w)))) := by
  obtain ⟨g, v, k, fl, mem, syms, frame⟩ := s
  have hga := getElem?_getD g a ha
  have hgb := getElem?_getD g b hb
  simp only [greg, Nat.add_zero] at hload hstore
  rcases hw with rfl | rfl <;>
    simp only [xorOf, execD, ins, M, G, exAlu, aluWidth, effAddr, getG, hga, hgb, ok_bind, pure_eq_ok, Nat.add_zero, loadLE, storeLE, hload,
      hstore, alu, withFlags, Except.map, setMem, setFlags, if_true, if_false, Nat.reduceEqDiff, or_true, true_or, greg] <;> rfl

/-- `ORQ/ORB (base), reg` -/
theorem a_or_load (s : State) (w b d : Nat) (hw : w = 8 ∨ w = 1) (bs : List Nat) (hb : b < s.gpr.length) (hd : d < s.gpr.length)
    (hload : readMem s.mem ((greg s b + 0 + imm64 0) % 2 ^ 64) w = .ok bs) :
    execD s (ins (orOf w) [M b 0, G d] 0)
      = .ok (setFlags (setGreg s d (mergeG w (greg s d) (greg s d % 2 ^ (8 * w) ||| unlanes 8 bs)))
          (logicFlags w (greg s d % 2 ^ (8 * w) ||| unlanes 8 bs))) := by
  obtain ⟨g, v, k, fl, mem, syms, frame⟩ := s
  have hgb := getElem?_getD g b hb
  have hgd := getElem?_getD g d hd
  have hd' : d < g.length := hd
  simp only [greg, Nat.add_zero] at hload
  rcases hw with rfl | rfl <;>
    simp only [orOf, execD, ins, M, G, exAlu, aluWidth, effAddr, getG, hgb, hgd, ok_bind, pure_eq_ok, Nat.add_zero, loadLE, hload,
      alu, withFlags, Except.map, setG, setGreg, setFlags, if_pos hd', if_true, if_false, Nat.reduceEqDiff, or_true, true_or, greg] <;> rfl

/-- `ORB reg, reg` -/
theorem a_orb_rr (s : State) (a d : Nat) (ha : a < s.gpr.length) (hd : d < s.gpr.length) :
    execD s (ins .ORB [G a, G d] 0)
      = .ok (setFlags (setGreg s d (mergeG 1 (greg s d) (greg s d % 2 ^ (8 * 1) ||| greg s a % 2 ^ (8 * 1))))
          (logicFlags 1 (greg s d % 2 ^ (8 * 1) ||| greg s a % 2 ^ (8 * 1)))) := by
  obtain ⟨g, v, k, fl, mem, syms, frame⟩ := s
  have hga := getElem?_getD g a ha
  have hgd := getElem?_getD g d hd
  have hd' : d < g.length := hd
  simp only [execD, ins, G, exAlu, aluWidth, getG, hga, hgd, ok_bind, pure_eq_ok, alu, withFlags, Except.map, setG, setGreg, setFlags,
    if_pos hd', if_true, or_true, greg]

end SMGo.Proofs.ISAVal
