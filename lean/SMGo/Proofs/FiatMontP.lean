/-
  Property C16, conversion to and from the Montgomery domain modulo p (generated `sm2ToMontgomery`,
  `sm2FromMontgomery`): the same round structure as the multiplication, with B = R² mod p
  respectively B = 1; the generated code keeps four limbs plus inlined top-limb expressions.
-/
import SMGo.Proofs.FiatMulP
set_option linter.unusedVariables false
namespace SMGo.Proofs.FiatMontP
open SMGo SMGo.Proofs.Fiat SMGo.Model.FiatPrim SMGo.Proofs.FiatMulP
open SMGo.Proofs.FiatSmallP (v4 v4_lt p_eq)

/-- rounds of `ToMontgomery`: T (5 limbs, < 2p) + row fits five limbs -/
theorem addRow5_mont {t0 t1 t2 t3 t4 r0 r1 r2 r3 r4 vt a B : Nat}
    (T : L5 [t0, t1, t2, t3, t4] vt) (R : L5 [r0, r1, r2, r3, r4] (a * B))
    (hvt : vt < 2 * 115792089210356248756420345214020892766250353991924191454421193933289684991999) (ha : a < 18446744073709551616) (hB : B < 115792089210356248756420345214020892766250353991924191454421193933289684991999) :
    L5 (addRow5 t0 t1 t2 t3 t4 r0 r1 r2 r3 r4) (vt + a * B) := by
  have hab : a * B ≤ 18446744073709551615 * B := Nat.mul_le_mul_right B (by omega)
  generalize a * B = S at *
  exact addRow5_spec T R (by omega)

theorem step5_abs {s0 s1 s2 s3 s4 q0 q1 q2 q3 q4 vt a B : Nat}
    (A : L5 [s0, s1, s2, s3, s4] (vt + a * B)) (Q : L5 [q0, q1, q2, q3, q4] (s0 * 115792089210356248756420345214020892766250353991924191454421193933289684991999))
    (hvt : vt < 2 * 115792089210356248756420345214020892766250353991924191454421193933289684991999) (ha : a < 18446744073709551616) (hB : B < 115792089210356248756420345214020892766250353991924191454421193933289684991999) :
    ∃ v, L5 (redAdd5 s0 s1 s2 s3 s4 q0 q1 q2 q3 q4) v ∧ v < 2 * 115792089210356248756420345214020892766250353991924191454421193933289684991999 ∧
      v * 18446744073709551616 = vt + a * B + s0 * 115792089210356248756420345214020892766250353991924191454421193933289684991999 := by
  have hq := A.head_eq
  have hab : a * B ≤ 18446744073709551615 * B := Nat.mul_le_mul_right B (by omega)
  generalize a * B = S at *
  have hz : (vt + S + s0 * 115792089210356248756420345214020892766250353991924191454421193933289684991999) % 18446744073709551616 = 0 := by omega
  have h := redAdd5_spec A Q hz
  refine ⟨_, h, ?_, ?_⟩ <;> omega

/-- R² mod p, the constant `ToMontgomery` multiplies by -/
theorem rr_p : v4 0x200000003 0x2ffffffff 0x100000001 0x400000002 = (115792089237316195423570985008687907853269984665640564039457584007913129639936 * 115792089237316195423570985008687907853269984665640564039457584007913129639936) % 115792089210356248756420345214020892766250353991924191454421193933289684991999 := by decide

theorem rinv_p : (115792089237316195423570985008687907853269984665640564039457584007913129639936 * 115792089102516462125480396441826910452883803264411231995480180208556130172932) % 115792089210356248756420345214020892766250353991924191454421193933289684991999 = 1 := by decide

set_option maxRecDepth 100000 in
theorem toMontgomery_core {a0 a1 a2 a3 : Nat}
    (ha0 : a0 < 18446744073709551616) (ha1 : a1 < 18446744073709551616) (ha2 : a2 < 18446744073709551616) (ha3 : a3 < 18446744073709551616) :
    ∃ t0 t1 t2 t3 t4 v k, Gen.FiatP.sm2ToMontgomery [a0, a1, a2, a3] = condSub 0xffffffffffffffff 0xffffffff00000000 0xffffffffffffffff 0xfffffffeffffffff t0 t1 t2 t3 t4 ∧
      L5 [t0, t1, t2, t3, t4] v ∧ v < 2 * 115792089210356248756420345214020892766250353991924191454421193933289684991999 ∧
      v * 115792089237316195423570985008687907853269984665640564039457584007913129639936 = v4 a0 a1 a2 a3 * v4 0x200000003 0x2ffffffff 0x100000001 0x400000002 + k * 115792089210356248756420345214020892766250353991924191454421193933289684991999 := by
  have hB : v4 0x200000003 0x2ffffffff 0x100000001 0x400000002 < 115792089210356248756420345214020892766250353991924191454421193933289684991999 := by decide
  have hc0 : 0x200000003 < 18446744073709551616 := by decide
  have hc1 : 0x2ffffffff < 18446744073709551616 := by decide
  have hc2 : 0x100000001 < 18446744073709551616 := by decide
  have hc3 : 0x400000002 < 18446744073709551616 := by decide
  unfold Gen.FiatP.sm2ToMontgomery
  extract_lets -merge x1 x2 x3 x4 x6 x5 x8 x7 x10 x9 x12 x11 x13 x14 x15 x16 x17 x18 x20 x19 x22 x21 x24 x23 x26 x25 x27 x28 x29 x30 x31 x32 x34 x35 x36 x37 x38 x39 x40 x41 x42 x44 x43 x46 x45 x48 x47 x50 x49 x51 x52 x53 x54 x55 x56 x57 x58 x59 x60 x61 x62 x63 x64 x66 x65 x68 x67 x70 x69 x72 x71 x73 x74 x75 x76 x77 x78 x80 x81 x82 x83 x84 x85 x86 x87 x88 x90 x89 x92 x91 x94 x93 x96 x95 x97 x98 x99 x100 x101 x102 x103 x104 x105 x106 x107 x108 x109 x110 x112 x111 x114 x113 x116 x115 x118 x117 x119 x120 x121 x122 x123 x124 x126 x127 x128 x129 x130 x131 x132 x133 x134 x136 x135 x138 x137 x140 x139 x142 x141 x143 x144 x145 x146 x147 x148 x149 x150 x151 x152 x153 x154 x155 x156 x158 x157 x160 x159 x162 x161 x164 x163 x165 x166 x167 x168 x169 x170 x172 x173 x174 x175 x176 x177 x178 x179 x180 x181 x182 x183 x184 x185 x186 x187 x188 x190 x191 x192 x193 x194
  have R0 : L5 [x11, x13, x15, x17, (x18 + x6) % 18446744073709551616] (a0 * v4 0x200000003 0x2ffffffff 0x100000001 0x400000002) :=
    mulRow_spec ha0 hc0 hc1 hc2 hc3
  have Q0 : L5 [x25, x27, x29, x31, (x32 + x20) % 18446744073709551616] (x11 * 115792089210356248756420345214020892766250353991924191454421193933289684991999) := pRow_spec R0.head_lt
  obtain ⟨v1, T1, hv1, e1⟩ := step0_abs R0 Q0 ha0 hB
  have T1' : L5 [x35, x37, x39, x41, x42] v1 := T1
  have R1 : L5 [x49, x51, x53, x55, (x56 + x44) % 18446744073709551616] (a1 * v4 0x200000003 0x2ffffffff 0x100000001 0x400000002) := mulRow_spec ha1 hc0 hc1 hc2 hc3
  have A1 : L5 [x57, x59, x61, x63, ((x64 + x42) % 18446744073709551616 + (x56 + x44) % 18446744073709551616) % 18446744073709551616] (v1 + a1 * v4 0x200000003 0x2ffffffff 0x100000001 0x400000002) :=
    addRow5_mont T1' R1 hv1 ha1 hB
  have Q1 : L5 [x71, x73, x75, x77, (x78 + x66) % 18446744073709551616] (x57 * 115792089210356248756420345214020892766250353991924191454421193933289684991999) := pRow_spec A1.head_lt
  obtain ⟨v2, T2, hv2, e2⟩ := step5_abs A1 Q1 hv1 ha1 hB
  have T2' : L5 [x81, x83, x85, x87, x88] v2 := T2
  have R2 : L5 [x95, x97, x99, x101, (x102 + x90) % 18446744073709551616] (a2 * v4 0x200000003 0x2ffffffff 0x100000001 0x400000002) := mulRow_spec ha2 hc0 hc1 hc2 hc3
  have A2 : L5 [x103, x105, x107, x109, ((x110 + x88) % 18446744073709551616 + (x102 + x90) % 18446744073709551616) % 18446744073709551616] (v2 + a2 * v4 0x200000003 0x2ffffffff 0x100000001 0x400000002) :=
    addRow5_mont T2' R2 hv2 ha2 hB
  have Q2 : L5 [x117, x119, x121, x123, (x124 + x112) % 18446744073709551616] (x103 * 115792089210356248756420345214020892766250353991924191454421193933289684991999) := pRow_spec A2.head_lt
  obtain ⟨v3, T3, hv3, e3⟩ := step5_abs A2 Q2 hv2 ha2 hB
  have T3' : L5 [x127, x129, x131, x133, x134] v3 := T3
  have R3 : L5 [x141, x143, x145, x147, (x148 + x136) % 18446744073709551616] (a3 * v4 0x200000003 0x2ffffffff 0x100000001 0x400000002) := mulRow_spec ha3 hc0 hc1 hc2 hc3
  have A3 : L5 [x149, x151, x153, x155, ((x156 + x134) % 18446744073709551616 + (x148 + x136) % 18446744073709551616) % 18446744073709551616] (v3 + a3 * v4 0x200000003 0x2ffffffff 0x100000001 0x400000002) :=
    addRow5_mont T3' R3 hv3 ha3 hB
  have Q3 : L5 [x163, x165, x167, x169, (x170 + x158) % 18446744073709551616] (x149 * 115792089210356248756420345214020892766250353991924191454421193933289684991999) := pRow_spec A3.head_lt
  obtain ⟨v4', T4, hv4, e4⟩ := step5_abs A3 Q3 hv3 ha3 hB
  have T4' : L5 [x173, x175, x177, x179, x180] v4' := T4
  exact ⟨x173, x175, x177, x179, x180, v4', _, rfl, T4', hv4, mont_compose e1 e2 e3 e4⟩


/-- **to the Montgomery domain mod p** (only the limb bounds of the input are needed) -/
theorem toMontgomery_spec' (a : List Nat) (ha : Limbs4 a) :
    Canon Spec.SM2.p (Gen.FiatP.sm2ToMontgomery a) ∧
      eval (Gen.FiatP.sm2ToMontgomery a) = (eval a * 2 ^ 256) % Spec.SM2.p := by
  obtain ⟨a0, a1, a2, a3, rfl, ha0, ha1, ha2, ha3⟩ := limbs4_cases ha
  obtain ⟨t0, t1, t2, t3, t4, v, k, hfn, hT, hv, hk⟩ := toMontgomery_core ha0 ha1 ha2 ha3
  have hc := condSub_spec (m0 := 0xffffffffffffffff) (m1 := 0xffffffff00000000) (m2 := 0xffffffffffffffff)
    (m3 := 0xfffffffeffffffff) (by decide) (by decide) (by decide) (by decide) hT hv
  rw [← hfn, ← p_eq] at hc
  refine ⟨hc.1, ?_⟩
  have hres := mont_residue hk hc.2
  rw [pow256, eval_four]
  have hlt : eval (Gen.FiatP.sm2ToMontgomery [a0, a1, a2, a3]) < Spec.SM2.p := hc.1.2.2
  generalize eval (Gen.FiatP.sm2ToMontgomery [a0, a1, a2, a3]) = o at *
  have hp : Spec.SM2.p = 115792089210356248756420345214020892766250353991924191454421193933289684991999 := by decide
  rw [hp] at hlt ⊢
  rw [rr_p, Nat.mul_mod_mod, ← Nat.mul_assoc] at hres
  have := mod_cancel hres rinv_p
  rw [Nat.mod_eq_of_lt hlt] at this
  exact this

theorem toMontgomery_spec (a : List Nat) (ha : Canon Spec.SM2.p a) :
    Canon Spec.SM2.p (Gen.FiatP.sm2ToMontgomery a) ∧
      eval (Gen.FiatP.sm2ToMontgomery a) = (eval a * 2 ^ 256) % Spec.SM2.p :=
  toMontgomery_spec' a ha.limbs4

/-! ### FromMontgomery -/

theorem fm_addA {u0 u1 u2 u3 a v : Nat} (T : L4 [u0, u1, u2, u3] v) (hv : v ≤ 115792089210356248756420345214020892766250353991924191454421193933289684991999) (ha : a < 18446744073709551616) :
    L4 (addA4 u0 u1 u2 u3 a) (v + a) := addA4_spec T ha (by omega)

theorem fm_abs {s0 s1 s2 s3 q0 q1 q2 q3 q4 v a : Nat}
    (A : L4 [s0, s1, s2, s3] (v + a)) (Q : L5 [q0, q1, q2, q3, q4] (s0 * 115792089210356248756420345214020892766250353991924191454421193933289684991999))
    (hv : v ≤ 115792089210356248756420345214020892766250353991924191454421193933289684991999) (ha : a < 18446744073709551616) :
    ∃ v', L4 (redAdd4 s0 s1 s2 s3 q0 q1 q2 q3 q4) v' ∧ v' ≤ 115792089210356248756420345214020892766250353991924191454421193933289684991999 ∧ v' * 18446744073709551616 = v + a + s0 * 115792089210356248756420345214020892766250353991924191454421193933289684991999 := by
  have hq := A.head_eq
  have hz : (v + a + s0 * 115792089210356248756420345214020892766250353991924191454421193933289684991999) % 18446744073709551616 = 0 := by omega
  have h := redAdd4_spec A Q hz (by omega)
  refine ⟨_, h, ?_, ?_⟩ <;> omega

theorem mont_compose1 {a0 a1 a2 a3 v1 v2 v3 v4' q1 q2 q3 q4 M : Nat}
    (e1 : v1 * 18446744073709551616 = 0 + a0 + q1 * M)
    (e2 : v2 * 18446744073709551616 = v1 + a1 + q2 * M)
    (e3 : v3 * 18446744073709551616 = v2 + a2 + q3 * M)
    (e4 : v4' * 18446744073709551616 = v3 + a3 + q4 * M) :
    v4' * 115792089237316195423570985008687907853269984665640564039457584007913129639936 = v4 a0 a1 a2 a3 + (q1 + q2 * 18446744073709551616 + q3 * 340282366920938463463374607431768211456 + q4 * 6277101735386680763835789423207666416102355444464034512896) * M := by
  have h := mont_compose (B := 1) (a0 := a0) (a1 := a1) (a2 := a2) (a3 := a3) (M := M)
    (by rw [Nat.mul_one, ← Nat.zero_add a0]; exact e1) (by rw [Nat.mul_one]; exact e2)
    (by rw [Nat.mul_one]; exact e3) (by rw [Nat.mul_one]; exact e4)
  rw [Nat.mul_one] at h
  exact h

set_option maxRecDepth 100000 in
theorem fromMontgomery_core {a0 a1 a2 a3 : Nat}
    (ha0 : a0 < 18446744073709551616) (ha1 : a1 < 18446744073709551616) (ha2 : a2 < 18446744073709551616) (ha3 : a3 < 18446744073709551616) :
    ∃ t0 t1 t2 t3 v k, Gen.FiatP.sm2FromMontgomery [a0, a1, a2, a3] = condSub 0xffffffffffffffff 0xffffffff00000000 0xffffffffffffffff 0xfffffffeffffffff t0 t1 t2 t3 0 ∧
      L4 [t0, t1, t2, t3] v ∧ v ≤ 115792089210356248756420345214020892766250353991924191454421193933289684991999 ∧ v * 115792089237316195423570985008687907853269984665640564039457584007913129639936 = v4 a0 a1 a2 a3 + k * 115792089210356248756420345214020892766250353991924191454421193933289684991999 := by
  have hz : (0 : Nat) < 18446744073709551616 := by decide
  have hzp : (0 : Nat) ≤ 115792089210356248756420345214020892766250353991924191454421193933289684991999 := by decide
  unfold Gen.FiatP.sm2FromMontgomery
  extract_lets -merge x1 x3 x2 x5 x4 x7 x6 x9 x8 x10 x11 x12 x13 x14 x15 x17 x18 x19 x20 x21 x22 x23 x24 x25 x26 x27 x28 x29 x31 x30 x33 x32 x35 x34 x37 x36 x38 x39 x40 x41 x42 x43 x45 x46 x47 x48 x49 x50 x51 x52 x53 x54 x55 x56 x57 x59 x58 x61 x60 x63 x62 x65 x64 x66 x67 x68 x69 x70 x71 x73 x74 x75 x76 x77 x78 x79 x80 x81 x82 x83 x84 x85 x87 x86 x89 x88 x91 x90 x93 x92 x94 x95 x96 x97 x98 x99 x101 x102 x103 x104 x105 x106 x107 x108 x109 x110 x111 x112 x113 x114 x115 x116 x118 x119 x120 x121 x122
  have A0 : L4 [x1, 0, 0, 0] (0 + a0) := by
    have h := L4.mk ha0 hz hz hz
    have e : v4 a0 0 0 0 = 0 + a0 := by simp [v4]
    rw [e] at h; exact h
  have Q0 : L5 [x8, x10, x12, x14, (x15 + x3) % 18446744073709551616] (x1 * 115792089210356248756420345214020892766250353991924191454421193933289684991999) := pRow_spec ha0
  obtain ⟨v1, T1, hv1, e1⟩ := fm_abs A0 Q0 hzp ha0
  have T1' : L4 [x18, x20, x22, (x23 + (x15 + x3) % 18446744073709551616) % 18446744073709551616] v1 := T1
  have A1 : L4 [x24, x26, x28, (x29 + (x23 + (x15 + x3) % 18446744073709551616) % 18446744073709551616) % 18446744073709551616] (v1 + a1) := fm_addA T1' hv1 ha1
  have Q1 : L5 [x36, x38, x40, x42, (x43 + x31) % 18446744073709551616] (x24 * 115792089210356248756420345214020892766250353991924191454421193933289684991999) := pRow_spec A1.head_lt
  obtain ⟨v2, T2, hv2, e2⟩ := fm_abs A1 Q1 hv1 ha1
  have T2' : L4 [x46, x48, x50, (x51 + (x43 + x31) % 18446744073709551616) % 18446744073709551616] v2 := T2
  have A2 : L4 [x52, x54, x56, (x57 + (x51 + (x43 + x31) % 18446744073709551616) % 18446744073709551616) % 18446744073709551616] (v2 + a2) := fm_addA T2' hv2 ha2
  have Q2 : L5 [x64, x66, x68, x70, (x71 + x59) % 18446744073709551616] (x52 * 115792089210356248756420345214020892766250353991924191454421193933289684991999) := pRow_spec A2.head_lt
  obtain ⟨v3, T3, hv3, e3⟩ := fm_abs A2 Q2 hv2 ha2
  have T3' : L4 [x74, x76, x78, (x79 + (x71 + x59) % 18446744073709551616) % 18446744073709551616] v3 := T3
  have A3 : L4 [x80, x82, x84, (x85 + (x79 + (x71 + x59) % 18446744073709551616) % 18446744073709551616) % 18446744073709551616] (v3 + a3) := fm_addA T3' hv3 ha3
  have Q3 : L5 [x92, x94, x96, x98, (x99 + x87) % 18446744073709551616] (x80 * 115792089210356248756420345214020892766250353991924191454421193933289684991999) := pRow_spec A3.head_lt
  obtain ⟨v4', T4, hv4, e4⟩ := fm_abs A3 Q3 hv3 ha3
  have T4' : L4 [x102, x104, x106, x108] v4' := T4
  exact ⟨x102, x104, x106, x108, v4', _, rfl, T4', hv4, mont_compose1 e1 e2 e3 e4⟩

/-- **from the Montgomery domain mod p** (only the limb bounds of the input are needed) -/
theorem fromMontgomery_spec' (a : List Nat) (ha : Limbs4 a) :
    Canon Spec.SM2.p (Gen.FiatP.sm2FromMontgomery a) ∧
      (eval (Gen.FiatP.sm2FromMontgomery a) * 2 ^ 256) % Spec.SM2.p = eval a % Spec.SM2.p := by
  obtain ⟨a0, a1, a2, a3, rfl, ha0, ha1, ha2, ha3⟩ := limbs4_cases ha
  obtain ⟨t0, t1, t2, t3, v, k, hfn, hT, hv, hk⟩ := fromMontgomery_core ha0 ha1 ha2 ha3
  have hc := condSub_spec (m0 := 0xffffffffffffffff) (m1 := 0xffffffff00000000) (m2 := 0xffffffffffffffff)
    (m3 := 0xfffffffeffffffff) (by decide) (by decide) (by decide) (by decide) hT.to_L5
    (by rw [← p_eq]; have hp : Spec.SM2.p = 115792089210356248756420345214020892766250353991924191454421193933289684991999 := by decide
        rw [hp]; omega)
  rw [← hfn, ← p_eq] at hc
  refine ⟨hc.1, ?_⟩
  rw [pow256, eval_four, hc.2, Nat.mod_mul_mod, hk]
  have hp : Spec.SM2.p = 115792089210356248756420345214020892766250353991924191454421193933289684991999 := by decide
  rw [hp, Nat.add_mul_mod_self_right]

theorem fromMontgomery_spec (a : List Nat) (ha : Canon Spec.SM2.p a) :
    Canon Spec.SM2.p (Gen.FiatP.sm2FromMontgomery a) ∧
      (eval (Gen.FiatP.sm2FromMontgomery a) * 2 ^ 256) % Spec.SM2.p = eval a % Spec.SM2.p :=
  fromMontgomery_spec' a ha.limbs4

end SMGo.Proofs.FiatMontP
