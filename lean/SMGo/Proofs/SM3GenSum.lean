/-
  The generated `checkSum`, `Sum`, `Reset`, `New`, `SumSM3` (translated from sm3.go by `translate gosm3`)
  equal the hand-written model functions (encoding `dec`, see SM3GenWrite.lean), and never panic on
  well-formed values.
-/
import SMGo.Proofs.SM3GenWrite
import SMGo.Proofs.SM3Pad
import SMGo.Model.SM3CodeRun
set_option linter.unusedSimpArgs false
namespace SMGo.Proofs.SM3Gen
open SMGo SMGo.Go

local notation "ttGen" => (List.map (BitVec.ofNat 32) Gen.SM3Const.tt : List W32)

theorem flatMap_w32Bytes_length (l : List W32) : (l.flatMap w32Bytes).length = 4 * l.length := by
  induction l with
  | nil => rfl
  | cons a as ih => simp [List.flatMap_cons, ih, w32Bytes]; omega

/-- the tail of the model's `checkSum`, after the padding zeros have been written -/
def tailM (lenAtSum : Nat) (st : Model.SM3.St) : Bytes × Model.SM3.St :=
  let s5 := { st with x := st.x.take Model.SM3.maxTail ++ Bytes.ofNatBE 8 ((lenAtSum * 8) % 2 ^ 64) }
  let s6 := { s5 with h := Model.SM3.cf ttGen s5.h s5.x }
  (s6.h.flatMap w32Bytes, s6)

theorem model_checkSum (st : Model.SM3.St) :
    Model.SM3.checkSum ttGen st =
      tailM st.len
        (if st.nx + 1 > 56 then
          (Model.SM3.write ttGen { st with x := st.x.set st.nx 0x80, nx := st.nx + 1 }
            ((List.replicate 64 (0 : UInt8)).take (64 + 56 - (st.nx + 1)))).1
         else
          (Model.SM3.write ttGen { st with x := st.x.set st.nx 0x80, nx := st.nx + 1 }
            (((List.replicate 64 (0 : UInt8)).drop (st.nx + 1)).take (56 - (st.nx + 1)))).1) := rfl

theorem list_take_flatMap_succ (l : List W32) (i : Nat) (hi : i < l.length) :
    (l.take (i + 1)).flatMap w32Bytes = (l.take i).flatMap w32Bytes ++ w32Bytes (l.getD i 0) := by
  rw [List.take_add_one, List.flatMap_append]
  simp [List.getD_eq_getElem?_getD, hi]

/-- `checkSum`: on a well-formed value with `nx < 64` and a 32-byte `out`: no panic, `out` and the final
    (scratch) value are the model's -/
theorem checkSum_eq_model (s : Gen.SM3Code.SM3) (out : Array UInt8) (hwf : WF s) (hnx : s.nx < 64)
    (ho : out.size = 32) :
    ∃ s' out', Gen.SM3Code.SM3.checkSum s out = .ok (s', out')
      ∧ out'.toList = (Model.SM3.checkSum ttGen (dec s)).1 ∧ dec s' = (Model.SM3.checkSum ttGen (dec s)).2 := by
  unfold Gen.SM3Code.SM3.checkSum
  extract_lets sm3 out0 lenAtSum empty jp
  have hx := hwf.x64
  have hn0 := hwf.nx0
  rw [set_ok _ _ _ (by exact hn0) (by simp only [sm3]; omega), Res.bind_ok]
  extract_lets sm3a sm3b
  have hjp : ∀ (r : Unit) (t : Gen.SM3Code.SM3), WF t →
      ∃ y, jp r t = .ok y ∧ (y.2.toList = (tailM (dec s).len (dec t)).1
        ∧ dec y.1 = (tailM (dec s).len (dec t)).2) := by
    intro r t ht
    have htx := ht.x64
    simp only [jp]
    rw [bePutUint64At_ok _ _ _ _ (by omega) (by simp only [len]; omega) (by simp [len]), Res.bind_ok]
    rw [slice_full, Res.bind_ok, cf_eq _ _ (by exact ht.h8) (by
      simp only [List.size_toArray, List.length_append, List.length_take, List.length_drop,
        Array.length_toList, Proofs.SM3.ofNatBE_length, htx]; decide), Res.bind_ok]
    dsimp only
    have hX : List.take (56 : Int).toNat t.x.toList ++ Bytes.ofNatBE 8 (lenAtSum <<< 3).toNat ++
          List.drop ((56 : Int).toNat + 8) t.x.toList
        = (dec t).x.take Model.SM3.maxTail ++ Bytes.ofNatBE 8 (((dec s).len * 8) % 2 ^ 64) := by
      have e1 : (lenAtSum <<< 3).toNat = ((dec s).len * 8) % 2 ^ 64 := by
        simp only [lenAtSum, sm3, dec, BitVec.toNat_shiftLeft, Nat.shiftLeft_eq]
      have e2 : List.drop ((56 : Int).toNat + 8) t.x.toList = [] :=
        List.drop_of_length_le (by simp only [Array.length_toList, htx]; decide)
      rw [e1, e2, List.append_nil]
      rfl
    rw [hX]
    generalize hH : Model.SM3.cf ttGen t.h.toList _ = H
    have hHl : H.length = 8 := by rw [← hH]; exact model_cf_length _ _ _ (by simpa using ht.h8)
    refine bind_forIn_range_inv_ex 0 8 _
      (fun i (o : Array UInt8) => o.toList = (H.take i).flatMap w32Bytes ++ out0.toList.drop (4 * i)) _ _ _
      ?_ (by simp) (by omega) ?_
    · intro j o _ hj hI
      have hol : o.size = 32 := by
        have := congrArg List.length hI
        simp only [Array.length_toList, List.length_append, flatMap_w32Bytes_length, List.length_take,
          List.length_drop, out0, ho, hHl] at this
        omega
      rw [get_ok _ _ (0 : BitVec 32) (by omega) (by simp only [List.size_toArray]; omega), Res.bind_ok,
        bePutUint32At_ok _ _ _ _ (by omega) (by simp only [len]; omega) (by simp [len]), Res.bind_ok]
      refine ⟨_, rfl, ?_⟩
      have e1 : ((j : Int) * 4).toNat = 4 * j := by omega
      have e2 : (j : Int).toNat = j := by omega
      simp only [e1, e2, List.toList_toArray, list_take_flatMap_succ H j (by omega), hI]
      have hl : ((H.take j).flatMap w32Bytes).length = 4 * j := by
        rw [flatMap_w32Bytes_length, List.length_take]; omega
      generalize (H.take j).flatMap w32Bytes = A at hl ⊢
      rw [List.take_left' hl, show 4 * j + 4 = A.length + 4 by omega, List.drop_append, List.drop_drop]
      rw [List.drop_of_length_le (by omega : A.length ≤ A.length + 4), List.nil_append,
        show 4 * j + (A.length + 4 - A.length) = 4 * (j + 1) by omega]
    · intro o2 h2
      simp only [Res.pure_eq]
      refine ⟨_, rfl, ?_, ?_⟩
      · have : H.take 8 = H := List.take_of_length_le (by omega)
        have e : List.drop (4 * 8) out0.toList = [] :=
          List.drop_of_length_le (by simp only [Array.length_toList, out0, ho]; decide)
        show o2.toList = _
        rw [h2, this, e, List.append_nil, ← hH]
        rfl
      · simp only [dec, tailM, ← hH, List.toList_toArray]
  clear_value jp
  have hwfb : WF sm3b :=
    ⟨hwf.h8, by simp only [sm3b, sm3a, sm3, List.size_toArray, List.length_set, Array.length_toList, hx],
     by simp only [sm3b, sm3a, sm3]; omega, by simp only [sm3b, sm3a, sm3]; omega⟩
  have hdb : dec sm3b = { dec s with x := (dec s).x.set (dec s).nx 0x80, nx := (dec s).nx + 1 } := by
    simp only [sm3b, sm3a, sm3, dec, List.toList_toArray]
    congr 1
    omega
  have hnb : sm3b.nx = s.nx + 1 := rfl
  have hel : empty.toList = List.replicate 64 (0 : UInt8) := by simp [empty]
  have hes : empty.size = 64 := by simp [empty]
  rw [model_checkSum]
  clear_value sm3b empty
  by_cases hc : sm3b.nx > 56
  · have hc' : (dec s).nx + 1 > 56 := by simp only [dec]; omega
    rw [if_pos hc, if_pos hc', slice_ok _ _ _ (by omega) (by omega) (by omega), Res.bind_ok]
    obtain ⟨s1, e1, d1, w1⟩ := write_eq_model sm3b _ hwfb
    rw [e1, Res.bind_ok]
    obtain ⟨y, ey, hy1, hy2⟩ := hjp () s1 w1
    refine ⟨y.1, y.2, ey, ?_, ?_⟩
    · rw [hy1, d1, hdb]
      simp only [List.toList_toArray, hel, Int.toNat_zero, List.drop_zero, Nat.sub_zero]
      have : (120 - sm3b.nx).toNat = 64 + 56 - ((dec s).nx + 1) := by simp only [dec]; omega
      rw [this]
    · rw [hy2, d1, hdb]
      simp only [List.toList_toArray, hel, Int.toNat_zero, List.drop_zero, Nat.sub_zero]
      have : (120 - sm3b.nx).toNat = 64 + 56 - ((dec s).nx + 1) := by simp only [dec]; omega
      rw [this]
  · have hc' : ¬ (dec s).nx + 1 > 56 := by simp only [dec]; omega
    rw [if_neg hc, if_neg hc', slice_ok _ _ _ (by omega) (by omega) (by omega), Res.bind_ok]
    obtain ⟨s1, e1, d1, w1⟩ := write_eq_model sm3b _ hwfb
    rw [e1, Res.bind_ok]
    obtain ⟨y, ey, hy1, hy2⟩ := hjp () s1 w1
    have t1 : sm3b.nx.toNat = (dec s).nx + 1 := by simp only [dec]; omega
    have t2 : (56 : Int).toNat = 56 := rfl
    refine ⟨y.1, y.2, ey, ?_, ?_⟩
    · rw [hy1, d1, hdb]
      simp only [List.toList_toArray, hel, t1, t2]
    · rw [hy2, d1, hdb]
      simp only [List.toList_toArray, hel, t1, t2]

/-- `Sum`: the receiver is unchanged, the result is `in ‖ digest` of the model -/
theorem sum_eq_model (s : Gen.SM3Code.SM3) (inp : Array UInt8) (hwf : WF s) (hnx : s.nx < 64) :
    Gen.SM3Code.SM3.Sum s inp = .ok (s, (Model.SM3.sum ttGen (dec s) inp.toList).toArray) := by
  unfold Gen.SM3Code.SM3.Sum
  dsimp only
  obtain ⟨s', out', e, ho, _⟩ := checkSum_eq_model s (Array.replicate 32 (0 : UInt8)) hwf hnx (by simp)
  rw [e, Res.bind_ok]
  dsimp only
  rw [slice_full, Res.bind_ok]
  simp only [Res.pure_eq, Model.SM3.sum, ← ho]
  congr 2
  apply Array.ext'
  simp

/-- `Reset` -/
theorem reset_eq_model (s : Gen.SM3Code.SM3) (h8 : s.h.size = 8) :
    Gen.SM3Code.SM3.Reset s = .ok { s with h := Model.SM3.iv.toArray, nx := 0, len := 0 } := by
  obtain ⟨h, x, nx, len⟩ := s
  obtain ⟨h0, h1, h2, h3, h4, h5, h6, h7, e⟩ := list8 h.toList (by simpa using h8)
  have eh : h = #[h0, h1, h2, h3, h4, h5, h6, h7] := by apply Array.ext'; simpa using e
  subst eh
  unfold Gen.SM3Code.SM3.Reset
  dsimp only
  simp (disch := first | omega | simp) only
    [set_ok, Res.bind_ok, Res.pure_eq, List.toList_toArray, List.set_cons_zero,
      List.set_cons_succ, Int.reduceToNat]
  rfl

theorem dec_reset (s : Gen.SM3Code.SM3) :
    dec { s with h := Model.SM3.iv.toArray, nx := 0, len := 0 } = Model.SM3.reset (dec s) := rfl

/-- `New()` -/
theorem new_eq_model :
    Gen.SM3Code.New = .ok { h := Model.SM3.iv.toArray, x := Array.replicate 64 0, nx := 0, len := 0 } := by
  unfold Gen.SM3Code.New
  dsimp only
  rw [reset_eq_model _ (by simp [Gen.SM3Code.SM3.zero])]
  rfl

theorem dec_new :
    dec { h := Model.SM3.iv.toArray, x := Array.replicate 64 0, nx := 0, len := 0 }
      = Model.SM3.reset Model.SM3.zero := by
  simp [dec, Model.SM3.reset, Model.SM3.zero]

end SMGo.Proofs.SM3Gen
