/-
  Refinement of the regenerated IR of `(*sm4GcmAsm).cryptoBlocks` of the arm64 GCM Go glue
  (SMGo/Gen/CTIRProgSM4.lean, namespace Arm64, `fn_6`; Go source /repo/sm4/sm4_gcm_arm64.go:123-195):
  the field `crypto` of `GlueCallees` (SMGo/Proofs/CTIRRefineGCMLeaf.lean).

  For every program `P` with `P[6]? = some fn_6`, every oracle with `LeafOk O E rk` (the assembly leaves) and
  `FillOk P G O Ffill` (the five `fillCounterN` functions), the run of `fn_6` on
  `recv c rk ns ts ++ [rk, out, in, J]` returns `GCTR_E(inc32 J, in) ++ out[len(in):]`, with the explicit fuel
  `fuelCB Ffill (len in)`, for every `in` with `len(in) ≤ len(out)` and `len(in) ≤ maxPlain`.

  Structure (the one of the heap-level proof SMGo/Proofs/GCMGlueArm64Ctr.lean, on values):
  * `chunk_ok`: one chunk of n ∈ {16, 8, 4, 2, 1} blocks (fill n counters at blockCount, the n-block kernel, the xor of
    16n bytes into out[off:], the bookkeeping) keeps the invariant `St` ("after m blocks");
  * `loop256_ok`: the 256-byte loop by induction on the number of rounds;
  * `stage_ok`: a stage chosen by a bit of `blocks`;
  * `byte_loop_ok`, `tail_ok`: the last partial block;
  * `crypto_computes`: the whole function.
  Core Lean only.
-/
import SMGo.Proofs.CTIRRefineGCMLeaf
open SMGo SMGo.Model.CTIR SMGo.Proofs.CTIRRefineUtils
open SMGo.Proofs.CTIRRefineField (Computes)
open SMGo.Spec.GCM
open SMGo.Model.GCMGlueA64 (blocksE)
open SMGo.Proofs.GCMGlueA64 (ctrBlocks ctrBlocks_length blocksE_ctrBlocks blocksE_length shr4 and15 bit8 bit4 bit2 bit1)
open SMGo.Proofs.GCM (ctrAdd ctrAdd_ctrAdd stream stream_length stream_add xorBytes_length xorBytes_append_right
  xorBytes_take gctr_eq_xor inc32_eq_ctrAdd natToBlock_length)

namespace SMGo.Proofs.CTIRRefineGCM.Crypt

/-! ## Lists -/

theorem xorBytes_comm (a b : Bytes) : xorBytes a b = xorBytes b a := by
  induction a generalizing b with
  | nil => simp [xorBytes]
  | cons x a ih =>
    cases b with
    | nil => simp [xorBytes]
    | cons y b =>
      rw [GCM.xorBytes_cons, GCM.xorBytes_cons, ih b, UInt8.xor_comm]

theorem xorBytes_take_succ (a b : Bytes) (i : Nat) (ha : i < a.length) (hb : i < b.length) :
    xorBytes (a.take (i + 1)) (b.take (i + 1))
      = xorBytes (a.take i) (b.take i) ++ [a[i] ^^^ b[i]] := by
  rw [List.take_add_one, List.take_add_one, List.getElem?_eq_getElem ha, List.getElem?_eq_getElem hb]
  simp only [Option.toList]
  rw [GCM.xorBytes_append _ _ _ _ (by rw [List.length_take, List.length_take]; omega)]
  rfl

theorem drop_take_full {α : Type} (x : List α) (l : Nat) : (x.drop l).take (x.length - l) = x.drop l :=
  List.take_of_length_le (by rw [List.length_drop]; omega)

/-- the key stream prefix xored over the first 16m bytes has length 16m -/
theorem pre_length {E : Bytes → Bytes} (hE : ∀ b, (E b).length = 16) (X : Bytes) (cb m : Nat) (hm : 16 * m ≤ X.length) :
    (xorBytes (X.take (16 * m)) (stream E cb m)).length = 16 * m := by
  rw [xorBytes_length, List.length_take, stream_length hE]; omega

theorem cur_length {E : Bytes → Bytes} (hE : ∀ b, (E b).length = 16) (X out0 : Bytes) (cb m : Nat)
    (hm : 16 * m ≤ X.length) (hle : X.length ≤ out0.length) :
    (xorBytes (X.take (16 * m)) (stream E cb m) ++ out0.drop (16 * m)).length = out0.length := by
  rw [List.length_append, pre_length hE X cb m hm, List.length_drop]; omega

/-- the value of `out` after one chunk of `n` blocks -/
theorem chunk_val {E : Bytes → Bytes} (hE : ∀ b, (E b).length = 16) (X out0 : Bytes) (j m n : Nat)
    (hX : 16 * (m + n) ≤ X.length) (cur : Bytes)
    (hcur : cur = xorBytes (X.take (16 * m)) (stream E (ctrAdd j 1) m) ++ out0.drop (16 * m)) :
    (cur.drop 0).take (16 * m - 0) ++
      (xorBytes ((stream E (ctrAdd j (m + 1)) n).take (16 * n)) ((X.drop (16 * m)).take (16 * n))
        ++ (cur.drop (16 * m)).drop (16 * n))
      = xorBytes (X.take (16 * (m + n))) (stream E (ctrAdd j 1) (m + n)) ++ out0.drop (16 * (m + n)) := by
  have hA := pre_length hE X (ctrAdd j 1) m (by omega)
  have h1 : (cur.drop 0).take (16 * m - 0) = xorBytes (X.take (16 * m)) (stream E (ctrAdd j 1) m) := by
    rw [List.drop_zero, Nat.sub_zero, hcur]
    exact List.take_left' hA
  have h2 : cur.drop (16 * m) = out0.drop (16 * m) := by
    rw [hcur]
    exact List.drop_left' hA
  rw [h1, h2, List.drop_drop, stream_add, ctrAdd_ctrAdd, Nat.add_comm 1 m, xorBytes_append_right,
    stream_length hE, List.take_take, List.drop_take, List.append_assoc]
  congr 1
  · rw [Nat.min_eq_left (by omega)]
  · congr 1
    · rw [List.take_of_length_le (by rw [stream_length hE]; omega), xorBytes_comm]
      congr 2
      omega
    · congr 1
      omega

/-! ## Evaluation helpers (byte strings, externals, integers) -/

section Eval
variable {P : Prog} {G : Nat → Val} {O : Oracle}

theorem bytesV_replicate (n : Nat) : bytesV (List.replicate n 0) = .arr (List.replicate n (.int 0)) := by
  simp only [bytesV, List.map_replicate]; rfl

theorem evalV_mkBytes {env : Env} {n : Expr} {L : Nat} (hn : evalV G env n = some (.int (L : Int))) :
    evalV G env (.mk n (.lit 0)) = some (bytesV (List.replicate L 0)) := by
  rw [evalV_mk, hn, evalV_lit]
  simp only
  rw [if_neg (by omega), bytesV_replicate, Int.toNat_natCast]

theorem evalV_lenB {env : Env} {a : Expr} {x : Bytes} (ha : evalV G env a = some (bytesV x)) :
    evalV G env (.len a) = some (.int (x.length : Int)) := by
  rw [evalV_len, ha]; simp [bytesV]

theorem sliceList_bytes (x : Bytes) (l h : Nat) (h1 : l ≤ h) (h2 : h ≤ x.length) :
    sliceList (x.map (fun x => Val.int (Int.ofNat x.toNat))) (l : Int) (h : Int)
      = some (((x.drop l).take (h - l)).map (fun x => Val.int (Int.ofNat x.toNat))) := by
  unfold sliceList
  rw [if_neg (by simp only [List.length_map]; omega)]
  simp only [Int.toNat_natCast, List.map_take, List.map_drop]

theorem evalV_sliceB {env : Env} {a lo hi : Expr} {x : Bytes} {l h : Nat}
    (ha : evalV G env a = some (bytesV x)) (hl : evalV G env lo = some (.int (l : Int)))
    (hh : evalV G env hi = some (.int (h : Int))) (h1 : l ≤ h) (h2 : h ≤ x.length) :
    evalV G env (.slice a lo hi) = some (bytesV ((x.drop l).take (h - l))) := by
  rw [evalV_slice, ha, hl, hh]
  simp only [bytesV]
  rw [sliceList_bytes x l h h1 h2]; rfl

/-- `a[lo:]` -/
theorem evalV_sliceFrom {env : Env} {a lo : Expr} {x : Bytes} {l : Nat}
    (ha : evalV G env a = some (bytesV x)) (hl : evalV G env lo = some (.int (l : Int))) (h1 : l ≤ x.length) :
    evalV G env (.slice a lo (.len a)) = some (bytesV (x.drop l)) := by
  rw [evalV_sliceB ha hl (evalV_lenB ha) h1 (Nat.le_refl _), drop_take_full]

theorem evalV_catB {env : Env} {a b : Expr} {x y : Bytes}
    (ha : evalV G env a = some (bytesV x)) (hb : evalV G env b = some (bytesV y)) :
    evalV G env (.cat a b) = some (bytesV (x ++ y)) := by
  rw [evalV_cat, ha, hb]; simp [bytesV]

theorem evar {env : Env} {x : Nat} {v : Val} (h : env x = v) : evalV G env (.var x) = some v := by
  rw [evalV_var, h]

theorem evIn_ext {env env1 : Env} {lhs : List Nat} {name : Nat} {leaky : Bool} {args : List Expr} {vs : List Val}
    (ha : evalVs G env args = some vs) (hset : env.setMany lhs (O name vs) = some env1) :
    EvIn P G O 1 env (.ext lhs name leaky args) env1 .norm := by
  intro f hf; obtain ⟨f, rfl⟩ := Nat.exists_eq_add_of_le' hf
  rw [execV_ext, ha]
  simp [hset]

theorem ext1 {env : Env} {x name : Nat} {leaky : Bool} {args : List Expr} {vs : List Val} {v : Val}
    (ha : evalVs G env args = some vs) (hO : O name vs = [v]) :
    EvIn P G O 1 env (.ext [x] name leaky args) (env.set x v) .norm :=
  evIn_ext ha (by rw [hO]; rfl)

/-- the frame record in front of a routine call -/
theorem ext_frame {E : Bytes → Bytes} {rk : Val} (hO : LeafOk O E rk) (env : Env) (k : Int) :
    EvIn P G O 1 env (.ext [] 0 true [(.lit k)]) env .norm :=
  evIn_ext (vs := [.int k]) rfl (by rw [hO.frame]; rfl)

/-- the first element of an array value (what the bounds check `&a[0]` reads) -/
def idx0 : Val → Val
  | .arr (w :: _) => w
  | _ => .int 0

/-- `_ = a[0]`: the bounds check of a pointer argument `&a[0]` of an assembly routine, on a non-empty array -/
theorem chk0 {env : Env} {a : Expr} {v : Val} (ha : evalV G env a = some v) (hv : ∃ w ws, v = .arr (w :: ws)) :
    EvIn P G O 1 env (.assign 8 [] (.idxc a 0)) (env.set 8 (idx0 v)) .norm := by
  obtain ⟨w, ws, rfl⟩ := hv
  refine EvIn.assign ?_
  rw [evalV_idxc, ha]
  rfl

theorem bytesV_ne {x : Bytes} (h : 0 < x.length) : ∃ w ws, bytesV x = .arr (w :: ws) := by
  cases x with
  | nil => simp at h
  | cons a x => exact ⟨_, _, rfl⟩

theorem add_i64_nat {a b : Nat} (h : a + b < 9223372036854775808) :
    evalOp2 (.add .i64) (a : Int) (b : Int) = some (((a + b : Nat) : Nat) : Int) := by
  show some (norm .i64 ((a : Int) + (b : Int))) = _
  rw [norm_i64_small (by omega) (by omega), Int.natCast_add]

theorem add_u32_nat {a b : Nat} (h : a + b < 4294967296) :
    evalOp2 (.add .u32) (a : Int) (b : Int) = some (((a + b : Nat) : Nat) : Int) := by
  show some (norm .u32 ((a : Int) + (b : Int))) = _
  rw [← Int.natCast_add, norm_u32_small h]

end Eval

/-! ## One chunk of n blocks -/

/-- variable lookup in a nested `Env.set` (local to this file) -/
local syntax "lk" ("[" Lean.Parser.Tactic.simpLemma,* "]")? : tactic
local macro_rules
  | `(tactic| lk) => `(tactic| simp (disch := omega) only [Env.set_other, Env.set_same])
  | `(tactic| lk [$ts,*]) => `(tactic| simp (disch := omega) only [Env.set_other, Env.set_same, $ts,*])

/-- the first seventeen statements of a chunk (with the bounds checks `_ = a[0]` of the pointer arguments) (counter `cv`, key stream `tv`, xor result `rv`; `fillCounterN` = function
    `g`, the kernel = external `en`, the xor = external `xn`, `N` = 16n bytes), followed by `rest` -/
def chunkS (cv tv rv g en xn : Nat) (N : Int) (rest : Stmt) : Stmt :=
  .seq (.assign cv [] (.mk (.lit N) (.lit 0)))
  (.seq (.assign tv [] (.mk (.lit N) (.lit 0)))
  (.seq (.call [cv] g [(.var cv), (.var 7), (.var 14)])
  (.seq (.assign 8 [] (.idxc (.var 4) 0))
  (.seq (.assign 8 [] (.idxc (.var tv) 0))
  (.seq (.assign 8 [] (.idxc (.var cv) 0))
  (.seq (.ext [] 0 true [(.lit (en : Int))])
  (.seq (.ext [tv] en false [(.var 4), (.var tv), (.var cv)])
  (.seq (.assign 8 [] (.idxc (.slice (.var 5) (.var 9) (.len (.var 5))) 0))
  (.seq (.assign 8 [] (.idxc (.var tv) 0))
  (.seq (.assign 8 [] (.idxc (.var 6) 0))
  (.seq (.ext [] 0 true [(.lit (xn : Int))])
  (.seq (.ext [rv] xn false [(.slice (.var 5) (.var 9) (.len (.var 5))), (.var tv), (.var 6)])
  (.seq (.assign 5 [] (.cat (.slice (.var 5) (.lit 0) (.var 9)) (.var rv)))
  (.seq (.assign 8 [] (.len (.slice (.var 5) (.op2 (.add .i64) (.var 9) (.lit N)) (.len (.var 5)))))
  (.seq (.assign 9 [] (.op2 (.add .i64) (.var 9) (.lit N)))
  (.seq (.assign 6 [] (.slice (.var 6) (.lit N) (.len (.var 6)))) rest))))))))))))))))

/-- the variables of `cryptoBlocks` after `m` whole blocks (`bc` = the value of `blockCount`) -/
structure St (rk : Val) (E : Bytes → Bytes) (out0 X J : Bytes) (env : Env) (m bc : Nat) : Prop where
  h4 : env 4 = rk
  h5 : env 5 = bytesV (xorBytes (X.take (16 * m)) (stream E (ctrAdd (blockToNat J) 1) m) ++ out0.drop (16 * m))
  h6 : env 6 = bytesV (X.drop (16 * m))
  h7 : env 7 = bytesV J
  h9 : env 9 = .int ((16 * m : Nat) : Int)
  h14 : env 14 = .int (bc : Int)

theorem maxPlain_eq : maxPlain = 68719476704 := rfl

/-- the seventeen statements of a chunk in sequence (fuel bookkeeping, kept away from the big context of `chunk_ok`) -/
theorem chunk_seq {P : Prog} {G : Nat → Val} {O : Oracle} {cv tv rv g en xn Ffill F : Nat} {N : Int} {rest : Stmt} {c : Ctl}
    {e0 e1 e2 e3 e3a e3b e3c e5 e5a e5b e5c e7 e8 e9 e10 e11 e'' : Env}
    (c1 : EvIn P G O 1 e0 (.assign cv [] (.mk (.lit N) (.lit 0))) e1 .norm)
    (c2 : EvIn P G O 1 e1 (.assign tv [] (.mk (.lit N) (.lit 0))) e2 .norm)
    (c3 : EvIn P G O (Ffill + 1) e2 (.call [cv] g [(.var cv), (.var 7), (.var 14)]) e3 .norm)
    (k1 : EvIn P G O 1 e3 (.assign 8 [] (.idxc (.var 4) 0)) e3a .norm)
    (k2 : EvIn P G O 1 e3a (.assign 8 [] (.idxc (.var tv) 0)) e3b .norm)
    (k3 : EvIn P G O 1 e3b (.assign 8 [] (.idxc (.var cv) 0)) e3c .norm)
    (c4 : EvIn P G O 1 e3c (.ext [] 0 true [(.lit (en : Int))]) e3c .norm)
    (c5 : EvIn P G O 1 e3c (.ext [tv] en false [(.var 4), (.var tv), (.var cv)]) e5 .norm)
    (k4 : EvIn P G O 1 e5 (.assign 8 [] (.idxc (.slice (.var 5) (.var 9) (.len (.var 5))) 0)) e5a .norm)
    (k5 : EvIn P G O 1 e5a (.assign 8 [] (.idxc (.var tv) 0)) e5b .norm)
    (k6 : EvIn P G O 1 e5b (.assign 8 [] (.idxc (.var 6) 0)) e5c .norm)
    (c6 : EvIn P G O 1 e5c (.ext [] 0 true [(.lit (xn : Int))]) e5c .norm)
    (c7 : EvIn P G O 1 e5c (.ext [rv] xn false [(.slice (.var 5) (.var 9) (.len (.var 5))), (.var tv), (.var 6)]) e7 .norm)
    (c8 : EvIn P G O 1 e7 (.assign 5 [] (.cat (.slice (.var 5) (.lit 0) (.var 9)) (.var rv))) e8 .norm)
    (c9 : EvIn P G O 1 e8 (.assign 8 [] (.len (.slice (.var 5) (.op2 (.add .i64) (.var 9) (.lit N)) (.len (.var 5))))) e9 .norm)
    (c10 : EvIn P G O 1 e9 (.assign 9 [] (.op2 (.add .i64) (.var 9) (.lit N))) e10 .norm)
    (c11 : EvIn P G O 1 e10 (.assign 6 [] (.slice (.var 6) (.lit N) (.len (.var 6)))) e11 .norm)
    (hr : EvIn P G O F e11 rest e'' c) :
    EvIn P G O (F + (Ffill + 40)) e0 (chunkS cv tv rv g en xn N rest) e'' c := by
  have t1 := EvIn.seq c8 (EvIn.seq c9 (EvIn.seq c10 (EvIn.seq c11 hr)))
  have t2 := EvIn.seq k4 (EvIn.seq k5 (EvIn.seq k6 (EvIn.seq c6 (EvIn.seq c7 t1))))
  have t3 := EvIn.seq k1 (EvIn.seq k2 (EvIn.seq k3 (EvIn.seq c4 (EvIn.seq c5 t2))))
  have t4 := EvIn.seq c1 (EvIn.seq c2 (EvIn.seq c3 t3))
  exact t4.mono (by omega)

section Chunk
variable {P : Prog} {G : Nat → Val} {O : Oracle} {E : Bytes → Bytes} {rk : Val} {Ffill : Nat} {out0 X J : Bytes}

theorem chunk_ok (hO : LeafOk O E rk) (hF : FillOk P G O Ffill) (hJ : J.length = 16)
    (hle : X.length ≤ out0.length) (hmax : X.length ≤ maxPlain)
    {cv tv rv g en xn n : Nat} (hcv : 16 ≤ cv) (htv : 16 ≤ tv) (hrv : 16 ≤ rv) (hct : cv ≠ tv) (hcr : cv ≠ rv)
    (htr : tv ≠ rv) (hg : (g, n) ∈ fillFns) (hen : (en, n) ∈ encLeaves) (hxn : (xn, 16 * n) ∈ xorLeaves)
    {env : Env} {m : Nat} (hs : St rk E out0 X J env m m) (hlen : 16 * (m + n) ≤ X.length) :
    ∃ e', (∀ F rest e'' c, EvIn P G O F e' rest e'' c →
        EvIn P G O (F + (Ffill + 40)) env (chunkS cv tv rv g en xn ((16 * n : Nat) : Int) rest) e'' c) ∧
      St rk E out0 X J e' (m + n) m ∧ (∀ y, y < 16 → y ≠ 5 → y ≠ 6 → y ≠ 8 → y ≠ 9 → e' y = env y) := by
  rw [maxPlain_eq] at hmax
  have hE := hO.E_len
  have hn : 0 < n := by
    simp [fillFns] at hg
    omega
  let j := blockToNat J
  let Z : Bytes := List.replicate (16 * n) 0
  let CB := ctrBlocks j (m + 1) n
  let T := stream E (ctrAdd j (m + 1)) n
  let cur := xorBytes (X.take (16 * m)) (stream E (ctrAdd j 1) m) ++ out0.drop (16 * m)
  let R := xorBytes (T.take (16 * n)) ((X.drop (16 * m)).take (16 * n)) ++ (cur.drop (16 * m)).drop (16 * n)
  let tgt := xorBytes (X.take (16 * (m + n))) (stream E (ctrAdd j 1) (m + n)) ++ out0.drop (16 * (m + n))
  have hZl : Z.length = 16 * n := List.length_replicate
  have hTl : T.length = 16 * n := stream_length hE _ _
  have hcurl : cur.length = out0.length := cur_length hE X out0 _ m (by omega) hle
  have htgtl : tgt.length = out0.length := cur_length hE X out0 _ (m + n) hlen hle
  have hXd : (X.drop (16 * m)).length = X.length - 16 * m := List.length_drop
  have htgt : (cur.drop 0).take (16 * m - 0) ++ R = tgt := chunk_val hE X out0 j m n hlen cur rfl
  let e1 := env.set cv (bytesV Z)
  let e2 := e1.set tv (bytesV Z)
  let e3 := e2.set cv (bytesV CB)
  let e3a := e3.set 8 (idx0 rk)
  let e3b := e3a.set 8 (idx0 (bytesV Z))
  let e3c := e3b.set 8 (idx0 (bytesV CB))
  let e5 := e3c.set tv (bytesV T)
  let e5a := e5.set 8 (idx0 (bytesV (cur.drop (16 * m))))
  let e5b := e5a.set 8 (idx0 (bytesV T))
  let e5c := e5b.set 8 (idx0 (bytesV (X.drop (16 * m))))
  let e7 := e5c.set rv (bytesV R)
  let e8 := e7.set 5 (bytesV tgt)
  let e9 := e8.set 8 (.int ((tgt.drop (16 * m + 16 * n)).length : Int))
  let e10 := e9.set 9 (.int ((16 * m + 16 * n : Nat) : Int))
  let e11 := e10.set 6 (bytesV ((X.drop (16 * m)).drop (16 * n)))
  have c1 : EvIn P G O 1 env (.assign cv [] (.mk (.lit ((16 * n : Nat) : Int)) (.lit 0))) e1 .norm :=
    EvIn.assign (evalV_mkBytes (L := 16 * n) rfl)
  have c2 : EvIn P G O 1 e1 (.assign tv [] (.mk (.lit ((16 * n : Nat) : Int)) (.lit 0))) e2 .norm :=
    EvIn.assign (evalV_mkBytes (L := 16 * n) rfl)
  have c3 : EvIn P G O (Ffill + 1) e2 (.call [cv] g [(.var cv), (.var 7), (.var 14)]) e3 .norm := by
    refine (hF g n hg Z J m hZl hJ (by omega)).call ?_ rfl
    have g1 : e2 cv = bytesV Z := by lk [e2, e1]
    have g2 : e2 7 = bytesV J := by lk [e2, e1, hs.h7]
    have g3 : e2 14 = .int (m : Int) := by lk [e2, e1, hs.h14]
    simp only [evalVs_cons, evalVs_nil, evalV_var, g1, g2, g3]
  have k1 : EvIn P G O 1 e3 (.assign 8 [] (.idxc (.var 4) 0)) e3a .norm :=
    chk0 (evar (by lk [e3, e2, e1, hs.h4])) hO.rk_ne
  have k2 : EvIn P G O 1 e3a (.assign 8 [] (.idxc (.var tv) 0)) e3b .norm :=
    chk0 (evar (by lk [e3a, e3, e2, e1])) (bytesV_ne (by omega))
  have k3 : EvIn P G O 1 e3b (.assign 8 [] (.idxc (.var cv) 0)) e3c .norm :=
    chk0 (evar (by lk [e3b, e3a, e3])) (bytesV_ne (by rw [ctrBlocks_length]; omega))
  have c4 : EvIn P G O 1 e3c (.ext [] 0 true [(.lit (en : Int))]) e3c .norm := ext_frame hO _ _
  have c5 : EvIn P G O 1 e3c (.ext [tv] en false [(.var 4), (.var tv), (.var cv)]) e5 .norm := by
    refine ext1 (vs := [rk, bytesV Z, bytesV CB]) ?_ ?_
    · have g1 : e3c 4 = rk := by lk [e3c, e3b, e3a, e3, e2, e1, hs.h4]
      have g2 : e3c tv = bytesV Z := by lk [e3c, e3b, e3a, e3, e2, e1]
      have g3 : e3c cv = bytesV CB := by lk [e3c, e3b, e3a, e3]
      simp only [evalVs_cons, evalVs_nil, evalV_var, g1, g2, g3]
    · rw [hO.enc en n hen Z CB (by omega) (by rw [ctrBlocks_length]; omega), blocksE_ctrBlocks,
        List.drop_of_length_le (by omega), List.append_nil]
  have g5_5 : e5 5 = bytesV cur := by
    have h := hs.h5
    lk [e5, e3c, e3b, e3a, e3, e2, e1]
    exact h
  have g5_9 : e5 9 = .int ((16 * m : Nat) : Int) := by lk [e5, e3c, e3b, e3a, e3, e2, e1, hs.h9]
  have g5_6 : e5 6 = bytesV (X.drop (16 * m)) := by lk [e5, e3c, e3b, e3a, e3, e2, e1, hs.h6]
  have qs : ∀ e : Env, e 5 = bytesV cur → e 9 = .int ((16 * m : Nat) : Int) →
      evalV G e (.slice (.var 5) (.var 9) (.len (.var 5))) = some (bytesV (cur.drop (16 * m))) :=
    fun e h5 h9 => evalV_sliceFrom (evar h5) (evar h9) (by omega)
  have k4 : EvIn P G O 1 e5 (.assign 8 [] (.idxc (.slice (.var 5) (.var 9) (.len (.var 5))) 0)) e5a .norm :=
    chk0 (qs e5 g5_5 g5_9) (bytesV_ne (by rw [List.length_drop]; omega))
  have k5 : EvIn P G O 1 e5a (.assign 8 [] (.idxc (.var tv) 0)) e5b .norm :=
    chk0 (evar (by lk [e5a, e5])) (bytesV_ne (by omega))
  have k6 : EvIn P G O 1 e5b (.assign 8 [] (.idxc (.var 6) 0)) e5c .norm :=
    chk0 (evar (by lk [e5b, e5a, g5_6])) (bytesV_ne (by omega))
  have c6 : EvIn P G O 1 e5c (.ext [] 0 true [(.lit (xn : Int))]) e5c .norm := ext_frame hO _ _
  have g5c_5 : e5c 5 = bytesV cur := by lk [e5c, e5b, e5a, g5_5]
  have g5c_9 : e5c 9 = .int ((16 * m : Nat) : Int) := by lk [e5c, e5b, e5a, g5_9]
  have c7 : EvIn P G O 1 e5c (.ext [rv] xn false [(.slice (.var 5) (.var 9) (.len (.var 5))), (.var tv), (.var 6)]) e7
      .norm := by
    refine ext1 (vs := [bytesV (cur.drop (16 * m)), bytesV T, bytesV (X.drop (16 * m))]) ?_ ?_
    · have q1 := qs e5c g5c_5 g5c_9
      have g2 : e5c tv = bytesV T := by lk [e5c, e5b, e5a, e5]
      have g3 : e5c 6 = bytesV (X.drop (16 * m)) := by lk [e5c, e5b, e5a, g5_6]
      simp only [evalVs_cons, evalVs_nil, q1, evalV_var, g2, g3]
    · exact hO.xor xn (16 * n) hxn _ _ _ (by rw [List.length_drop]; omega) (by omega) (by omega)
  have c8 : EvIn P G O 1 e7 (.assign 5 [] (.cat (.slice (.var 5) (.lit 0) (.var 9)) (.var rv))) e8 .norm := by
    refine EvIn.assign ?_
    have g1 : e7 5 = bytesV cur := by lk [e7, g5c_5]
    have g2 : e7 9 = .int ((16 * m : Nat) : Int) := by lk [e7, g5c_9]
    have g3 : e7 rv = bytesV R := by lk [e7]
    rw [← htgt]
    exact evalV_catB (evalV_sliceB (l := 0) (evar g1) rfl (evar g2) (by omega) (by omega)) (evar g3)
  have g8_5 : e8 5 = bytesV tgt := by lk [e8]
  have g8_9 : e8 9 = .int ((16 * m : Nat) : Int) := by lk [e8, e7, g5c_9]
  have q9 : ∀ e : Env, e 9 = .int ((16 * m : Nat) : Int) →
      evalV G e (.op2 (.add .i64) (.var 9) (.lit ((16 * n : Nat) : Int))) = some (.int ((16 * m + 16 * n : Nat) : Int)) := by
    intro e he
    simp only [evalV_op2, evalV_var, evalV_lit, he, add_i64_nat (show 16 * m + 16 * n < 9223372036854775808 by omega),
      Option.map_some]
  have c9 : EvIn P G O 1 e8 (.assign 8 [] (.len (.slice (.var 5) (.op2 (.add .i64) (.var 9) (.lit ((16 * n : Nat) : Int)))
      (.len (.var 5))))) e9 .norm :=
    EvIn.assign (evalV_lenB (evalV_sliceFrom (evar g8_5) (q9 e8 g8_9) (by omega)))
  have c10 : EvIn P G O 1 e9 (.assign 9 [] (.op2 (.add .i64) (.var 9) (.lit ((16 * n : Nat) : Int)))) e10 .norm :=
    EvIn.assign (q9 e9 (by lk [e9, g8_9]))
  have c11 : EvIn P G O 1 e10 (.assign 6 [] (.slice (.var 6) (.lit ((16 * n : Nat) : Int)) (.len (.var 6)))) e11 .norm := by
    refine EvIn.assign ?_
    have g1 : e10 6 = bytesV (X.drop (16 * m)) := by lk [e10, e9, e8, e7, e5c, e5b, e5a, g5_6]
    exact evalV_sliceFrom (evar g1) rfl (by omega)
  refine ⟨e11, ?_, ⟨?_, ?_, ?_, ?_, ?_, ?_⟩, ?_⟩
  · intro F rest e'' c hr
    exact chunk_seq c1 c2 c3 k1 k2 k3 c4 c5 k4 k5 k6 c6 c7 c8 c9 c10 c11 hr
  · lk [e11, e10, e9, e8, e7, e5c, e5b, e5a, e5, e3c, e3b, e3a, e3, e2, e1, hs.h4]
  · lk [e11, e10, e9, e8]
    rfl
  · have : e11 6 = bytesV ((X.drop (16 * m)).drop (16 * n)) := by lk [e11]
    rw [this, List.drop_drop]
    congr 2
    omega
  · lk [e11, e10, e9, e8, e7, e5c, e5b, e5a, e5, e3c, e3b, e3a, e3, e2, e1, hs.h7]
  · have : e11 9 = .int ((16 * m + 16 * n : Nat) : Int) := by lk [e11, e10]
    rw [this]
    congr 2
    omega
  · lk [e11, e10, e9, e8, e7, e5c, e5b, e5a, e5, e3c, e3b, e3a, e3, e2, e1, hs.h14]
  · intro y hy h5 h6 h8 h9
    lk [e11, e10, e9, e8, e7, e5c, e5b, e5a, e5, e3c, e3b, e3a, e3, e2, e1]

end Chunk

/-! ## `blockCount += n`, the 256-byte loop, the stages -/

section Eval2
variable {P : Prog} {G : Nat → Val} {O : Oracle}

theorem and_i64_nat {a b : Nat} (ha : a < 9223372036854775808) (hb : b < 18446744073709551616) :
    evalOp2 (.and .i64) (a : Int) (b : Int) = some ((a &&& b : Nat) : Int) := by
  have h1 : pat .i64 (a : Int) = a := by simp only [pat, Ty.bits]; omega
  have h2 : pat .i64 (b : Int) = b := by simp only [pat, Ty.bits]; omega
  have h3 : a &&& b ≤ a := Nat.and_le_left
  show some (norm .i64 ((pat .i64 a &&& pat .i64 b : Nat) : Int)) = _
  rw [h1, h2, norm_i64_small (by omega) (by omega)]

theorem sub_i64_nat {a b : Nat} (ha : a < 9223372036854775808) (hb : b ≤ a) :
    evalOp2 (.sub .i64) (a : Int) (b : Int) = some ((a - b : Nat) : Int) := by
  show some (norm .i64 ((a : Int) - (b : Int))) = _
  rw [norm_i64_small (by omega) (by omega)]
  congr 1
  omega

/-- `blocks & n != 0` -/
theorem evalV_bitTest {env : Env} {r n : Nat} (h12 : env 12 = .int (r : Int)) (hr : r < 9223372036854775808)
    (hn : n < 9223372036854775808) :
    evalV G env (.op2 .ne (.op2 (.and .i64) (.var 12) (.lit (n : Int))) (.lit 0))
      = some (.int (if r &&& n ≠ 0 then 1 else 0)) := by
  have ha : evalOp2 (.and .i64) (r : Int) (n : Int) = some ((r &&& n : Nat) : Int) := and_i64_nat hr (by omega)
  have q : evalV G env (.op2 (.and .i64) (.var 12) (.lit (n : Int))) = some (.int ((r &&& n : Nat) : Int)) := by
    simp only [evalV_op2, evalV_var, evalV_lit, h12, ha, Option.map_some]
  rw [evalV_op2, q, evalV_lit]
  by_cases h : r &&& n = 0
  · simp [h, evalOp2, ofBool]
  · simp [h, evalOp2, ofBool]

theorem succ_i64 {i : Nat} (h : i + 1 < 9223372036854775808) :
    evalOp2 (.add .i64) (i : Int) 1 = some ((i + 1 : Nat) : Int) := by
  show some (norm .i64 ((i : Int) + 1)) = _
  rw [norm_i64_small (by omega) (by omega)]
  congr 1

end Eval2

section Loop
variable {P : Prog} {G : Nat → Val} {O : Oracle} {E : Bytes → Bytes} {rk : Val} {Ffill : Nat} {out0 X J : Bytes}

theorem St.set {env : Env} {m bc : Nat} (hs : St rk E out0 X J env m bc) (x : Nat) (v : Val)
    (h : x ≠ 4 ∧ x ≠ 5 ∧ x ≠ 6 ∧ x ≠ 7 ∧ x ≠ 9 ∧ x ≠ 14) : St rk E out0 X J (env.set x v) m bc := by
  refine ⟨?_, ?_, ?_, ?_, ?_, ?_⟩
  · lk [hs.h4]
  · lk [hs.h5]
  · lk [hs.h6]
  · lk [hs.h7]
  · lk [hs.h9]
  · lk [hs.h14]

/-- `blockCount += n` -/
def bcS (n : Nat) : Stmt := .assign 14 [] (.op2 (.add .u32) (.var 14) (.lit (n : Int)))

theorem bc_ok {env : Env} {m n k : Nat} (hs : St rk E out0 X J env k m) (hmn : m + n < 4294967296) :
    EvIn P G O 1 env (bcS n) (env.set 14 (.int ((m + n : Nat) : Int))) .norm ∧
      St rk E out0 X J (env.set 14 (.int ((m + n : Nat) : Int))) k (m + n) := by
  refine ⟨EvIn.assign ?_, ⟨?_, ?_, ?_, ?_, ?_, ?_⟩⟩
  · simp only [evalV_op2, evalV_var, evalV_lit, hs.h14, add_u32_nat hmn, Option.map_some]
  · lk [hs.h4]
  · lk [hs.h5]
  · lk [hs.h6]
  · lk [hs.h7]
  · lk [hs.h9]
  · lk

def loopCond : Expr := .op2 .lt (.var 15) (.var 13)
def loopPost : Stmt := .assign 15 [] (.op2 (.add .i64) (.var 15) (.lit 1))
def loopS : Stmt := .loop loopCond (chunkS 16 17 18 7 2 10 256 (bcS 16)) loopPost

theorem loop256_ok (hO : LeafOk O E rk) (hF : FillOk P G O Ffill) (hJ : J.length = 16)
    (hle : X.length ≤ out0.length) (hmax : X.length ≤ maxPlain) (B : Nat) (hB : 16 * (16 * B) ≤ X.length) :
    ∀ (k i : Nat) (env : Env), i + k = B → St rk E out0 X J env (16 * i) (16 * i) → env 15 = .int (i : Int) →
      env 13 = .int (B : Int) →
      ∃ env', EvIn P G O (k * (Ffill + 50) + 1) env loopS env' .norm ∧ St rk E out0 X J env' (16 * B) (16 * B) ∧
        env' 11 = env 11 ∧ env' 12 = env 12 := by
  have hmax' := hmax
  rw [maxPlain_eq] at hmax'
  intro k
  induction k with
  | zero =>
    intro i env hik hs h15 h13
    have hi : i = B := by omega
    subst hi
    refine ⟨env, (EvIn.loop_exit (v := .int 0) ?_ rfl).mono (by omega), hs, rfl, rfl⟩
    simp [loopCond, evalV_op2, evalV_var, h15, h13, evalOp2, ofBool]
  | succ k ih =>
    intro i env hik hs h15 h13
    have hlt : (i : Int) < (B : Int) := by omega
    have hc : evalV G env loopCond = some (.int 1) := by
      simp [loopCond, evalV_op2, evalV_var, h15, h13, evalOp2, ofBool, hlt]
    obtain ⟨e1, hch, hs1, hfr⟩ := chunk_ok (cv := 16) (tv := 17) (rv := 18) (g := 7) (en := 2) (xn := 10) (n := 16)
      hO hF hJ hle hmax (by omega) (by omega) (by omega) (by omega) (by omega) (by omega)
      (by decide) (by decide) (by decide) hs (by omega)
    obtain ⟨cb, hs2⟩ := bc_ok (P := P) (G := G) (O := O) (n := 16) hs1 (by omega)
    let e2 := e1.set 14 (.int ((16 * i + 16 : Nat) : Int))
    let e3 := e2.set 15 (.int ((i + 1 : Nat) : Int))
    have g15 : e2 15 = .int (i : Int) := by
      have := hfr 15 (by omega) (by omega) (by omega) (by omega) (by omega)
      lk [e2, this, h15]
    have cp : EvIn P G O 1 e2 loopPost e3 .norm := by
      refine EvIn.assign ?_
      simp only [evalV_op2, evalV_var, evalV_lit, g15]
      simp only [succ_i64 (i := i) (by omega), Option.map_some]
    have hs3 : St rk E out0 X J e3 (16 * (i + 1)) (16 * (i + 1)) := by
      have e : 16 * (i + 1) = 16 * i + 16 := by omega
      rw [e]
      exact hs2.set _ _ (by omega)
    have g13 : e3 13 = .int (B : Int) := by
      have := hfr 13 (by omega) (by omega) (by omega) (by omega) (by omega)
      lk [e3, e2, this, h13]
    obtain ⟨env', hl, hs', h11, h12⟩ := ih (i + 1) e3 (by omega) hs3 (by lk [e3]) g13
    refine ⟨env', (EvIn.loop_round hc rfl (hch _ _ _ _ cb) (Or.inl rfl) cp hl).mono ?_, hs', ?_, ?_⟩
    · rw [Nat.add_mul]; omega
    · rw [h11]
      have := hfr 11 (by omega) (by omega) (by omega) (by omega) (by omega)
      lk [e3, e2, this]
    · rw [h12]
      have := hfr 12 (by omega) (by omega) (by omega) (by omega) (by omega)
      lk [e3, e2, this]

/-- a stage: `if blocks&n != 0 { chunk; blockCount += n; blocks -= n }` -/
def stageS (cv tv rv g en xn n : Nat) : Stmt :=
  .ite (.op2 .ne (.op2 (.and .i64) (.var 12) (.lit (n : Int))) (.lit 0))
    (chunkS cv tv rv g en xn ((16 * n : Nat) : Int)
      (.seq (bcS n) (.assign 12 [] (.op2 (.sub .i64) (.var 12) (.lit (n : Int)))))) .skip

theorem stage_ok (hO : LeafOk O E rk) (hF : FillOk P G O Ffill) (hJ : J.length = 16)
    (hle : X.length ≤ out0.length) (hmax : X.length ≤ maxPlain)
    {cv tv rv g en xn n : Nat} (hcv : 16 ≤ cv) (htv : 16 ≤ tv) (hrv : 16 ≤ rv) (hct : cv ≠ tv) (hcr : cv ≠ rv)
    (htr : tv ≠ rv) (hg : (g, n) ∈ fillFns) (hen : (en, n) ∈ encLeaves) (hxn : (xn, 16 * n) ∈ xorLeaves)
    {env : Env} {m r : Nat} (hs : St rk E out0 X J env m m) (h12 : env 12 = .int (r : Int))
    (hlen : 16 * (m + r) ≤ X.length) (hr : r < 2 * n) (hn : n ≤ 8) (hbit : r &&& n ≠ 0 ↔ n ≤ r) :
    ∃ (e' : Env) (m' r' : Nat), EvIn P G O (Ffill + 50) env (stageS cv tv rv g en xn n) e' .norm ∧ St rk E out0 X J e' m' m' ∧
      e' 12 = .int (r' : Int) ∧ m' + r' = m + r ∧ r' < n ∧ e' 11 = env 11 := by
  have hmax' := hmax
  rw [maxPlain_eq] at hmax'
  have hc := evalV_bitTest (G := G) (n := n) h12 (by omega) (by omega)
  by_cases hb : r &&& n ≠ 0
  · have hnr := hbit.mp hb
    rw [if_pos hb] at hc
    obtain ⟨e1, hch, hs1, hfr⟩ := chunk_ok hO hF hJ hle hmax hcv htv hrv hct hcr htr hg hen hxn hs
      (show 16 * (m + n) ≤ X.length by omega)
    obtain ⟨cb, hs2⟩ := bc_ok (P := P) (G := G) (O := O) (n := n) hs1 (by omega)
    let e2 := e1.set 14 (.int ((m + n : Nat) : Int))
    let e3 := e2.set 12 (.int ((r - n : Nat) : Int))
    have g12 : e2 12 = .int (r : Int) := by
      have := hfr 12 (by omega) (by omega) (by omega) (by omega) (by omega)
      lk [e2, this, h12]
    have c12 : EvIn P G O 1 e2 (.assign 12 [] (.op2 (.sub .i64) (.var 12) (.lit (n : Int)))) e3 .norm := by
      refine EvIn.assign ?_
      simp only [evalV_op2, evalV_var, evalV_lit, g12, sub_i64_nat (a := r) (b := n) (by omega) hnr, Option.map_some]
    refine ⟨e3, m + n, (r - n : Nat), ?_, ?_, ?_, by omega, by omega, ?_⟩
    · exact (EvIn.ite hc rfl (hch _ _ _ _ (EvIn.seq cb c12))).mono (by omega)
    · exact hs2.set _ _ (by omega)
    · exact Env.set_same _ _ _
    · have := hfr 11 (by omega) (by omega) (by omega) (by omega) (by omega)
      lk [e3, e2, this]
  · have hnr : ¬ n ≤ r := fun h => hb (hbit.mpr h)
    rw [if_neg hb] at hc
    exact ⟨env, m, r, (EvIn.ite hc rfl (EvIn.skip _)).mono (by omega), hs, h12, rfl, by omega, rfl⟩

end Loop

/-! ## The last partial block -/

theorem set_step (A T R C : Bytes) (i : Nat) (hT : i < T.length) (hR : i < R.length) (hC : i < C.length) :
    (A ++ (xorBytes (T.take i) (R.take i) ++ C.drop i)).set (A.length + i) (T[i] ^^^ R[i])
      = A ++ (xorBytes (T.take (i + 1)) (R.take (i + 1)) ++ C.drop (i + 1)) := by
  have hl : (xorBytes (T.take i) (R.take i)).length = i := by
    rw [xorBytes_length, List.length_take, List.length_take]; omega
  have e1 : A.length + i - A.length = i := by omega
  rw [List.set_append_right _ _ (by omega), e1, List.set_append_right _ _ (by omega), hl, Nat.sub_self,
    List.drop_eq_getElem_cons hC, List.set_cons_zero, xorBytes_take_succ _ _ i hT hR, List.append_assoc]
  rfl

theorem final_val0 {E : Bytes → Bytes} (hE : ∀ b, (E b).length = 16) (X out0 : Bytes) (j M : Nat) (hL : X.length = 16 * M) :
    xorBytes (X.take (16 * M)) (stream E (ctrAdd j 1) M) ++ out0.drop (16 * M)
      = gctr E (inc32 j) X ++ out0.drop X.length := by
  rw [gctr_eq_xor hE _ X M (by omega), inc32_eq_ctrAdd, List.take_of_length_le (by omega), hL]

theorem final_val {E : Bytes → Bytes} (hE : ∀ b, (E b).length = 16) (X out0 : Bytes) (j M ρ : Nat)
    (hL : X.length = 16 * M + ρ) (hρ : ρ ≤ 16) :
    xorBytes (X.take (16 * M)) (stream E (ctrAdd j 1) M) ++
      (xorBytes ((stream E (ctrAdd j (M + 1)) 1).take ρ) ((X.drop (16 * M)).take ρ) ++ (out0.drop (16 * M)).drop ρ)
      = gctr E (inc32 j) X ++ out0.drop X.length := by
  have hT : (stream E (ctrAdd j (M + 1)) 1).length = 16 * 1 := stream_length hE _ _
  have hR : (X.drop (16 * M)).length = ρ := by rw [List.length_drop]; omega
  rw [gctr_eq_xor hE _ X (M + 1) (by omega), inc32_eq_ctrAdd, stream_add, ctrAdd_ctrAdd, Nat.add_comm 1 M,
    xorBytes_append_right, stream_length hE, List.append_assoc]
  congr 1
  congr 1
  · rw [← xorBytes_take, List.take_of_length_le (by rw [xorBytes_length]; omega), xorBytes_comm]
  · rw [List.drop_drop]
    congr 1
    omega

section Tail
variable {P : Prog} {G : Nat → Val} {O : Oracle} {E : Bytes → Bytes} {rk : Val} {Ffill : Nat} {out0 X J : Bytes}

theorem xor_u8 (a b : UInt8) :
    evalOp2 (.xor .u8) (Int.ofNat a.toNat) (Int.ofNat b.toNat) = some (Int.ofNat (a ^^^ b).toNat) := by
  have ha := a.toNat_lt
  have hb := b.toNat_lt
  have h1 : pat .u8 ((a.toNat : Nat) : Int) = a.toNat := by simp only [pat, Ty.bits]; omega
  have h2 : pat .u8 ((b.toNat : Nat) : Int) = b.toNat := by simp only [pat, Ty.bits]; omega
  have h3 : a.toNat ^^^ b.toNat < 2 ^ 8 := Nat.xor_lt_two_pow (by omega) (by omega)
  show some (norm .u8 ((pat .u8 ((a.toNat : Nat) : Int) ^^^ pat .u8 ((b.toNat : Nat) : Int) : Nat) : Int))
    = some (((a ^^^ b).toNat : Nat) : Int)
  rw [h1, h2, UInt8.toNat_xor]
  congr 1
  simp only [norm]
  omega

def byteCond : Expr := .op2 .lt (.var 33) (.var 11)
def byteBody : Stmt :=
  .assign 5 [.e (.op2 (.add .i64) (.var 9) (.var 33))] (.op2 (.xor .u8) (.idx (.var 32) (.var 33)) (.idx (.var 6) (.var 33)))
def bytePost : Stmt := .assign 33 [] (.op2 (.add .i64) (.var 33) (.lit 1))
def byteLoop : Stmt := .loop byteCond byteBody bytePost

theorem byte_loop_ok (A T R C : Bytes) (off ρ : Nat) (hA : A.length = off) (hT : ρ ≤ T.length) (hR : ρ ≤ R.length)
    (hC : ρ ≤ C.length) (hoff : off + ρ < 4611686018427387904) :
    ∀ (k i : Nat) (env : Env), i + k = ρ → env 33 = .int (i : Int) → env 11 = .int (ρ : Int) →
      env 9 = .int (off : Int) → env 32 = bytesV T → env 6 = bytesV R →
      env 5 = bytesV (A ++ (xorBytes (T.take i) (R.take i) ++ C.drop i)) →
      ∃ env', EvIn P G O (3 * k + 1) env byteLoop env' .norm ∧
        env' 5 = bytesV (A ++ (xorBytes (T.take ρ) (R.take ρ) ++ C.drop ρ)) := by
  intro k
  induction k with
  | zero =>
    intro i env hik h33 h11 h9 h32 h6 h5
    have hi : i = ρ := by omega
    subst hi
    refine ⟨env, (EvIn.loop_exit (v := .int 0) ?_ rfl).mono (by omega), h5⟩
    simp [byteCond, evalV_op2, evalV_var, h33, h11, evalOp2, ofBool]
  | succ k ih =>
    intro i env hik h33 h11 h9 h32 h6 h5
    have hlt : (i : Int) < (ρ : Int) := by omega
    have hTi : i < T.length := by omega
    have hRi : i < R.length := by omega
    have hCi : i < C.length := by omega
    have hc : evalV G env byteCond = some (.int 1) := by
      simp [byteCond, evalV_op2, evalV_var, h33, h11, evalOp2, ofBool, hlt]
    have q1 : evalV G env (.idx (.var 32) (.var 33)) = some (.int (Int.ofNat T[i].toNat)) := by
      simp only [evalV_idx, evalV_var, h32, h33, bytesV, bytesV_getIdx, List.getElem?_eq_getElem hTi, Option.map_some]
    have q2 : evalV G env (.idx (.var 6) (.var 33)) = some (.int (Int.ofNat R[i].toNat)) := by
      simp only [evalV_idx, evalV_var, h6, h33, bytesV, bytesV_getIdx, List.getElem?_eq_getElem hRi, Option.map_some]
    have he : evalV G env (.op2 (.xor .u8) (.idx (.var 32) (.var 33)) (.idx (.var 6) (.var 33)))
        = some (.int (Int.ofNat (T[i] ^^^ R[i]).toNat)) := by
      rw [evalV_op2, q1, q2]
      simp only [xor_u8, Option.map_some]
    have qi : evalV G env (.op2 (.add .i64) (.var 9) (.var 33)) = some (.int ((off + i : Nat) : Int)) := by
      simp only [evalV_op2, evalV_var, h9, h33, add_i64_nat (show off + i < 9223372036854775808 by omega), Option.map_some]
    have hp : pathV G env [.e (.op2 (.add .i64) (.var 9) (.var 33))] = some [off + i] := by
      rw [pathV_e, qi, pathV_nil]
      simp only
      rw [if_neg (by omega), Int.toNat_natCast]
    let cur := A ++ (xorBytes (T.take i) (R.take i) ++ C.drop i)
    have hxl : (xorBytes (T.take i) (R.take i)).length = i := by
      rw [xorBytes_length, List.length_take, List.length_take]; omega
    have hcl : off + i < cur.length := by
      simp only [cur, List.length_append, hxl, List.length_drop, hA]; omega
    have hu : updPath (env 5) [off + i] (.int (Int.ofNat (T[i] ^^^ R[i]).toNat))
        = some (bytesV (cur.set (off + i) (T[i] ^^^ R[i]))) := by
      rw [h5]
      simp only [bytesV]
      rw [CTIRRefineField.updPath_c1 _ _ _ (by rw [List.length_map]; exact hcl), List.map_set]
    have cb : EvIn P G O 1 env byteBody (env.set 5 (bytesV (cur.set (off + i) (T[i] ^^^ R[i])))) .norm :=
      EvIn.assignPath he hp hu
    let e1 := env.set 5 (bytesV (cur.set (off + i) (T[i] ^^^ R[i])))
    let e2 := e1.set 33 (.int ((i + 1 : Nat) : Int))
    have cp : EvIn P G O 1 e1 bytePost e2 .norm := by
      refine EvIn.assign ?_
      have g : e1 33 = .int (i : Int) := by lk [e1, h33]
      simp only [evalV_op2, evalV_var, evalV_lit, g, succ_i64 (i := i) (by omega), Option.map_some]
    have h5' : e2 5 = bytesV (A ++ (xorBytes (T.take (i + 1)) (R.take (i + 1)) ++ C.drop (i + 1))) := by
      have : e2 5 = bytesV (cur.set (off + i) (T[i] ^^^ R[i])) := by lk [e2, e1]
      rw [this, ← set_step A T R C i hTi hRi hCi, hA]
    obtain ⟨env', hl, h'⟩ := ih (i + 1) e2 (by omega) (by lk [e2]) (by lk [e2, e1, h11]) (by lk [e2, e1, h9])
      (by lk [e2, e1, h32]) (by lk [e2, e1, h6]) h5'
    exact ⟨env', (EvIn.loop_round hc rfl cb (Or.inl rfl) cp hl).mono (by omega), h'⟩

/-- `if remainder > 0 { fillCounter16; cryptoBlockAsm; for i < remainder { out[i] = tmp[i] ^ in[i] } }` -/
def tailS : Stmt := .ite (.op2 .gt (.var 11) (.lit 0))
  (.seq (.assign 31 [] (.mk (.lit 16) (.lit 0)))
  (.seq (.assign 32 [] (.mk (.lit 16) (.lit 0)))
  (.seq (.call [31] 12 [(.var 31), (.var 7), (.var 14)])
  (.seq (.assign 8 [] (.idxc (.var 4) 0))
  (.seq (.assign 8 [] (.idxc (.var 32) 0))
  (.seq (.assign 8 [] (.idxc (.var 31) 0))
  (.seq (.ext [] 0 true [(.lit 1)])
  (.seq (.ext [32] 1 false [(.var 4), (.var 32), (.var 31)])
  (.seq (.assign 33 [] (.lit 0)) byteLoop))))))))) .skip

theorem tail_ok (hO : LeafOk O E rk) (hF : FillOk P G O Ffill) (hJ : J.length = 16)
    (hle : X.length ≤ out0.length) (hmax : X.length ≤ maxPlain) {env : Env} {M ρ : Nat}
    (hs : St rk E out0 X J env M M) (h11 : env 11 = .int (ρ : Int)) (hL : X.length = 16 * M + ρ) (hρ : ρ < 16) :
    ∃ e', EvIn P G O (Ffill + 80) env tailS e' .norm ∧
      e' 5 = bytesV (gctr E (inc32 (blockToNat J)) X ++ out0.drop X.length) := by
  rw [maxPlain_eq] at hmax
  have hE := hO.E_len
  by_cases h0 : ρ = 0
  · subst h0
    have hc : evalV G env (.op2 .gt (.var 11) (.lit 0)) = some (.int 0) := by
      simp [evalV_op2, evalV_var, h11, evalOp2, ofBool]
    refine ⟨env, (EvIn.ite hc rfl (EvIn.skip _)).mono (by omega), ?_⟩
    rw [hs.h5, final_val0 hE X out0 _ M (by omega)]
  · have hc : evalV G env (.op2 .gt (.var 11) (.lit 0)) = some (.int 1) := by
      simp [evalV_op2, evalV_var, h11, evalOp2, ofBool, h0]
    let j := blockToNat J
    let Z : Bytes := List.replicate 16 0
    let CB := ctrBlocks j (M + 1) 1
    let T := stream E (ctrAdd j (M + 1)) 1
    let A := xorBytes (X.take (16 * M)) (stream E (ctrAdd j 1) M)
    have hZl : Z.length = 16 := List.length_replicate
    have hTl : T.length = 16 * 1 := stream_length hE _ _
    have hAl : A.length = 16 * M := pre_length hE X _ M (by omega)
    let t1 := env.set 31 (bytesV Z)
    let t2 := t1.set 32 (bytesV Z)
    let t3 := t2.set 31 (bytesV CB)
    let t3a := t3.set 8 (idx0 rk)
    let t3b := t3a.set 8 (idx0 (bytesV Z))
    let t3c := t3b.set 8 (idx0 (bytesV CB))
    let t5 := t3c.set 32 (bytesV T)
    let t6 := t5.set 33 (.int ((0 : Nat) : Int))
    have c1 : EvIn P G O 1 env (.assign 31 [] (.mk (.lit 16) (.lit 0))) t1 .norm :=
      EvIn.assign (evalV_mkBytes (L := 16) rfl)
    have c2 : EvIn P G O 1 t1 (.assign 32 [] (.mk (.lit 16) (.lit 0))) t2 .norm :=
      EvIn.assign (evalV_mkBytes (L := 16) rfl)
    have c3 : EvIn P G O (Ffill + 1) t2 (.call [31] 12 [(.var 31), (.var 7), (.var 14)]) t3 .norm := by
      refine (hF 12 1 (by decide) Z J M (by omega) hJ (by omega)).call ?_ rfl
      have g1 : t2 31 = bytesV Z := by lk [t2, t1]
      have g2 : t2 7 = bytesV J := by lk [t2, t1, hs.h7]
      have g3 : t2 14 = .int (M : Int) := by lk [t2, t1, hs.h14]
      simp only [evalVs_cons, evalVs_nil, evalV_var, g1, g2, g3]
    have k1 : EvIn P G O 1 t3 (.assign 8 [] (.idxc (.var 4) 0)) t3a .norm :=
      chk0 (evar (by lk [t3, t2, t1, hs.h4])) hO.rk_ne
    have k2 : EvIn P G O 1 t3a (.assign 8 [] (.idxc (.var 32) 0)) t3b .norm :=
      chk0 (evar (by lk [t3a, t3, t2, t1])) (bytesV_ne (by omega))
    have k3 : EvIn P G O 1 t3b (.assign 8 [] (.idxc (.var 31) 0)) t3c .norm :=
      chk0 (evar (by lk [t3b, t3a, t3])) (bytesV_ne (by rw [ctrBlocks_length]; omega))
    have c4 : EvIn P G O 1 t3c (.ext [] 0 true [(.lit 1)]) t3c .norm := ext_frame hO _ _
    have c5 : EvIn P G O 1 t3c (.ext [32] 1 false [(.var 4), (.var 32), (.var 31)]) t5 .norm := by
      refine ext1 (vs := [rk, bytesV Z, bytesV CB]) ?_ ?_
      · have g1 : t3c 4 = rk := by lk [t3c, t3b, t3a, t3, t2, t1, hs.h4]
        have g2 : t3c 32 = bytesV Z := by lk [t3c, t3b, t3a, t3, t2, t1]
        have g3 : t3c 31 = bytesV CB := by lk [t3c, t3b, t3a, t3]
        simp only [evalVs_cons, evalVs_nil, evalV_var, g1, g2, g3]
      · rw [hO.enc 1 1 (by decide) Z CB (by omega) (by rw [ctrBlocks_length]; omega), blocksE_ctrBlocks,
          List.drop_of_length_le (by omega), List.append_nil]
    have c6 : EvIn P G O 1 t5 (.assign 33 [] (.lit 0)) t6 .norm := EvIn.assign rfl
    have g5 : t6 5 = bytesV (A ++ (xorBytes (T.take 0) ((X.drop (16 * M)).take 0) ++ (out0.drop (16 * M)).drop 0)) := by
      have : t6 5 = env 5 := by lk [t6, t5, t3c, t3b, t3a, t3, t2, t1]
      rw [this, hs.h5, List.take_zero, List.take_zero, List.drop_zero]
      rfl
    obtain ⟨e', hl, h5⟩ := byte_loop_ok (P := P) (G := G) (O := O) A T (X.drop (16 * M)) (out0.drop (16 * M))
      (16 * M) ρ hAl (by omega) (by rw [List.length_drop]; omega) (by rw [List.length_drop]; omega) (by omega)
      ρ 0 t6 (by omega) (by lk [t6]) (by lk [t6, t5, t3c, t3b, t3a, t3, t2, t1, h11]) (by lk [t6, t5, t3c, t3b, t3a, t3, t2, t1, hs.h9])
      (by lk [t6, t5]) (by lk [t6, t5, t3c, t3b, t3a, t3, t2, t1, hs.h6]) g5
    refine ⟨e', ?_, ?_⟩
    · exact (EvIn.ite hc rfl (EvIn.seq c1 (EvIn.seq c2 (EvIn.seq c3 (EvIn.seq k1 (EvIn.seq k2 (EvIn.seq k3
        (EvIn.seq c4 (EvIn.seq c5 (EvIn.seq c6 hl)))))))))).mono (by omega)
    · rw [h5, final_val hE X out0 j M ρ hL (by omega)]

end Tail

/-! ## The whole function -/

open SMGo.Gen.CTIRProgSM4.Arm64 (fn_6)

/-- `blocks -= int(blockCount)` -/
def subBcS : Stmt := .assign 12 [] (.op2 (.sub .i64) (.var 12) (.op1 (.conv .i64) (.var 14)))

theorem fn_6_body : fn_6.body =
    .seq (.assign 9 [] (.lit 0))
    (.seq (.assign 10 [] (.len (.var 6)))
    (.seq (.assign 11 [] (.op2 (.and .i64) (.var 10) (.lit 15)))
    (.seq (.assign 12 [] (.op1 (.shrc 4) (.var 10)))
    (.seq (.assign 13 [] (.op1 (.shrc 4) (.var 12)))
    (.seq (.assign 14 [] (.lit 0))
    (.seq (.assign 15 [] (.lit 0))
    (.seq loopS
    (.seq subBcS
    (.seq (stageS 19 20 21 9 5 8 8)
    (.seq (stageS 22 23 24 10 4 12 4)
    (.seq (stageS 25 26 27 11 3 11 2)
    (.seq (stageS 28 29 30 12 1 9 1)
    (.seq tailS (.ret [(.var 5)])))))))))))))) := rfl

/-- the fuel of `cryptoBlocks` on an input of `l` bytes, `Ffill` the fuel of the `fillCounterN` functions -/
def fuelCB (Ffill l : Nat) : Nat := l / 16 / 16 * (Ffill + 50) + (5 * Ffill + 400)

section Main
variable {P : Prog} {G : Nat → Val} {O : Oracle} {E : Bytes → Bytes} {rk : Val} {Ffill : Nat}

/-- **`cryptoBlocks` computes GCTR** (the field `crypto` of `GlueCallees`, with `Fcb = fuelCB Ffill`) -/
theorem crypto_computes (h6 : P[6]? = some fn_6) (hO : LeafOk O E rk) (hF : FillOk P G O Ffill) (c : Val) (ns ts : Nat)
    (out inp J : Bytes) (hJ : J.length = 16) (hle : inp.length ≤ out.length) (hmax : inp.length ≤ maxPlain) :
    Computes P G O 6 (fuelCB Ffill inp.length) (recv c rk ns ts ++ [rk, bytesV out, bytesV inp, bytesV J])
      [bytesV (gctr E (inc32 (blockToNat J)) inp ++ out.drop inp.length)] := by
  have hmax' := hmax
  rw [maxPlain_eq] at hmax'
  let L := inp.length
  let Q := L / 16
  let B := Q / 16
  let e0 : Env := Env.ofList (recv c rk ns ts ++ [rk, bytesV out, bytesV inp, bytesV J])
  have g0_4 : e0 4 = rk := rfl
  have g0_5 : e0 5 = bytesV out := rfl
  have g0_6 : e0 6 = bytesV inp := rfl
  have g0_7 : e0 7 = bytesV J := rfl
  let e1 := e0.set 9 (.int ((16 * 0 : Nat) : Int))
  let e2 := e1.set 10 (.int (L : Int))
  let e3 := e2.set 11 (.int ((L % 16 : Nat) : Int))
  let e4 := e3.set 12 (.int (Q : Int))
  let e5 := e4.set 13 (.int (B : Int))
  let e6 := e5.set 14 (.int ((0 : Nat) : Int))
  let e7 := e6.set 15 (.int ((0 : Nat) : Int))
  have a1 : EvIn P G O 1 e0 (.assign 9 [] (.lit 0)) e1 .norm := EvIn.assign rfl
  have a2 : EvIn P G O 1 e1 (.assign 10 [] (.len (.var 6))) e2 .norm := by
    refine EvIn.assign (evalV_lenB (evar ?_))
    lk [e1, g0_6]
  have a3 : EvIn P G O 1 e2 (.assign 11 [] (.op2 (.and .i64) (.var 10) (.lit 15))) e3 .norm := by
    refine EvIn.assign ?_
    have g : e2 10 = .int (L : Int) := by lk [e2]
    have h := and_i64_nat (a := L) (b := 15) (by omega) (by omega)
    rw [and15] at h
    rw [evalV_op2, evalV_var, g, evalV_lit]
    exact congrArg (Option.map Val.int) h
  have a4 : EvIn P G O 1 e3 (.assign 12 [] (.op1 (.shrc 4) (.var 10))) e4 .norm := by
    refine EvIn.assign ?_
    have g : e3 10 = .int (L : Int) := by lk [e3, e2]
    rw [evalV_op1, evalV_var, g]
    show some (Val.int (((L >>> 4 : Nat) : Nat) : Int)) = _
    rw [shr4]
  have a5 : EvIn P G O 1 e4 (.assign 13 [] (.op1 (.shrc 4) (.var 12))) e5 .norm := by
    refine EvIn.assign ?_
    have g : e4 12 = .int (Q : Int) := by lk [e4]
    rw [evalV_op1, evalV_var, g]
    show some (Val.int (((Q >>> 4 : Nat) : Nat) : Int)) = _
    rw [shr4]
  have a6 : EvIn P G O 1 e5 (.assign 14 [] (.lit 0)) e6 .norm := EvIn.assign rfl
  have a7 : EvIn P G O 1 e6 (.assign 15 [] (.lit 0)) e7 .norm := EvIn.assign rfl
  have hs7 : St rk E out inp J e7 (16 * 0) (16 * 0) := by
    refine ⟨?_, ?_, ?_, ?_, ?_, ?_⟩
    · lk [e7, e6, e5, e4, e3, e2, e1, g0_4]
    · have : e7 5 = bytesV out := by lk [e7, e6, e5, e4, e3, e2, e1, g0_5]
      rw [this]
      simp [stream]
    · have : e7 6 = bytesV inp := by lk [e7, e6, e5, e4, e3, e2, e1, g0_6]
      rw [this]
      simp
    · lk [e7, e6, e5, e4, e3, e2, e1, g0_7]
    · lk [e7, e6, e5, e4, e3, e2, e1]
    · lk [e7, e6]
  have g7_11 : e7 11 = .int ((L % 16 : Nat) : Int) := by lk [e7, e6, e5, e4, e3]
  have g7_12 : e7 12 = .int (Q : Int) := by lk [e7, e6, e5, e4]
  have g7_13 : e7 13 = .int (B : Int) := by lk [e7, e6, e5]
  have g7_15 : e7 15 = .int ((0 : Nat) : Int) := by lk [e7]
  -- the 256-byte loop
  obtain ⟨e8, cl, hs8, h8_11, h8_12⟩ := loop256_ok (Ffill := Ffill) hO hF hJ hle hmax B (by omega) B 0 e7 (by omega) hs7
    g7_15 g7_13
  -- blocks -= int(blockCount)
  let r := Q % 16
  let e9 := e8.set 12 (.int (r : Int))
  have a9 : EvIn P G O 1 e8 subBcS e9 .norm := by
    refine EvIn.assign ?_
    have g12 : e8 12 = .int (Q : Int) := by rw [h8_12, g7_12]
    have hn : norm .i64 ((16 * B : Nat) : Int) = ((16 * B : Nat) : Int) := norm_i64_small (by omega) (by omega)
    have hsub := sub_i64_nat (a := Q) (b := 16 * B) (by omega) (by omega)
    rw [evalV_op2, evalV_var, g12, evalV_op1, evalV_var, hs8.h14]
    show Option.map Val.int (evalOp2 (.sub .i64) (Q : Int) (norm .i64 ((16 * B : Nat) : Int))) = _
    rw [hn, hsub]
    show some (Val.int ((Q - 16 * B : Nat) : Int)) = some (Val.int ((Q % 16 : Nat) : Int))
    rw [show Q - 16 * B = Q % 16 by omega]
  have hs9 : St rk E out inp J e9 (16 * B) (16 * B) := hs8.set _ _ (by omega)
  have g9_11 : e9 11 = .int ((L % 16 : Nat) : Int) := by lk [e9, h8_11, g7_11]
  -- the stages
  obtain ⟨e10, m1, r1, c10, hs10, g10_12, hm1, hr1, h10_11⟩ := stage_ok (cv := 19) (tv := 20) (rv := 21) (g := 9)
    (en := 5) (xn := 8) (n := 8) hO hF hJ hle hmax (by omega) (by omega) (by omega) (by omega) (by omega) (by omega)
    (by decide) (by decide) (by decide) hs9 (Env.set_same _ _ _) (by omega) (by omega) (by omega) (bit8 r (by omega))
  obtain ⟨e11, m2, r2, c11, hs11, g11_12, hm2, hr2, h11_11⟩ := stage_ok (cv := 22) (tv := 23) (rv := 24) (g := 10)
    (en := 4) (xn := 12) (n := 4) hO hF hJ hle hmax (by omega) (by omega) (by omega) (by omega) (by omega) (by omega)
    (by decide) (by decide) (by decide) hs10 g10_12 (by omega) (by omega) (by omega) (bit4 r1 hr1)
  obtain ⟨e12, m3, r3, c12, hs12, g12_12, hm3, hr3, h12_11⟩ := stage_ok (cv := 25) (tv := 26) (rv := 27) (g := 11)
    (en := 3) (xn := 11) (n := 2) hO hF hJ hle hmax (by omega) (by omega) (by omega) (by omega) (by omega) (by omega)
    (by decide) (by decide) (by decide) hs11 g11_12 (by omega) (by omega) (by omega) (bit2 r2 hr2)
  obtain ⟨e13, m4, r4, c13, hs13, g13_12, hm4, hr4, h13_11⟩ := stage_ok (cv := 28) (tv := 29) (rv := 30) (g := 12)
    (en := 1) (xn := 9) (n := 1) hO hF hJ hle hmax (by omega) (by omega) (by omega) (by omega) (by omega) (by omega)
    (by decide) (by decide) (by decide) hs12 g12_12 (by omega) (by omega) (by omega) (bit1 r3 hr3)
  have hm4Q : m4 = Q := by omega
  rw [hm4Q] at hs13
  -- the tail
  have g13_11 : e13 11 = .int ((L % 16 : Nat) : Int) := by rw [h13_11, h12_11, h11_11, h10_11, g9_11]
  obtain ⟨e14, c14, h14_5⟩ := tail_ok (Ffill := Ffill) hO hF hJ hle hmax hs13 g13_11 (show inp.length = 16 * Q + L % 16 by omega)
    (by omega)
  have cr : EvIn P G O 1 e14 (.ret [(.var 5)]) e14
      (.ret [bytesV (gctr E (inc32 (blockToNat J)) inp ++ out.drop inp.length)]) := by
    refine EvIn.ret ?_
    simp only [evalVs_cons, evalVs_nil, evalV_var, h14_5]
  refine Computes.of_body h6 rfl rfl (env' := e14) ?_
  rw [fn_6_body]
  refine (EvIn.seq a1 (EvIn.seq a2 (EvIn.seq a3 (EvIn.seq a4 (EvIn.seq a5 (EvIn.seq a6 (EvIn.seq a7 (EvIn.seq cl
    (EvIn.seq a9 (EvIn.seq c10 (EvIn.seq c11 (EvIn.seq c12 (EvIn.seq c13 (EvIn.seq c14 cr)))))))))))))).mono ?_
  show _ ≤ L / 16 / 16 * (Ffill + 50) + (5 * Ffill + 400)
  generalize B * (Ffill + 50) = w
  omega

/-- the same, in the shape of the field `crypto` of `GlueCallees` (with `Fcb := fuelCB Ffill`) -/
theorem crypto_field (h6 : P[6]? = some fn_6) (hO : LeafOk O E rk) (hF : FillOk P G O Ffill) (c : Val) (ns ts : Nat) :
    ∀ out inp J : Bytes, J.length = 16 → inp.length ≤ out.length → inp.length ≤ maxPlain →
      Computes P G O 6 (fuelCB Ffill inp.length) (recv c rk ns ts ++ [rk, bytesV out, bytesV inp, bytesV J])
        [bytesV (gctr E (inc32 (blockToNat J)) inp ++ out.drop inp.length)] :=
  fun out inp J hJ hle hmax => crypto_computes h6 hO hF c ns ts out inp J hJ hle hmax

end Main

#print axioms crypto_computes
#print axioms crypto_field
#print axioms chunk_ok
#print axioms loop256_ok
#print axioms stage_ok
#print axioms tail_ok

end SMGo.Proofs.CTIRRefineGCM.Crypt
