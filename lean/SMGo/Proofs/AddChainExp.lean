/-
  C16, part 1: the Fermat-inversion addition chains raise to exactly p-2 / n-2.

  * `exponent`: symbolic execution of an addition-chain program over (ℕ, +) with input 1;
    `fieldInverse_exponent`, `scalarInverse_exponent`: the two generated programs compute the
    exponents `p - 2` and `n - 2` (kernel evaluation).
  * `wf`: a checkable well-formedness predicate (all destinations are inside the register file,
    every register that is read is register 0 or was written before, register 1 is written);
    `fieldInverse_wf`, `scalarInverse_wf`.
  * `run_mont`: soundness of the symbolic execution for the Montgomery carrier
    (`sq a = a*a*rinv % m`, `mul a b = a*b*rinv % m`, zero = 0 on all of ℕ):
    the result is `x^e * rinv^(e-1) % m`, `e` the symbolic exponent.
  * `invert_montOps`: the same for `Model.Field.invert (Model.Field.montOps P)`.
  No Mathlib import; the Fermat part is in `SMGo/Proofs/AddChainInv.lean`.
-/
import SMGo.Model.AddChainOp
import SMGo.Model.Field
import SMGo.Gen.AddChain
import SMGo.Gen.SM2Params
import SMGo.Spec.SM2

namespace SMGo.Proofs.AddChainExp
open SMGo SMGo.Model.AddChain

/-! ### the symbolic exponent -/

/-- the symbolic exponent: run the program over (ℕ, +) with x := 1 -/
def exponent (nregs : Nat) (prog : List Op) : Nat :=
  Model.AddChain.run (fun e => 2 * e) (· + ·) 0 nregs prog 1

set_option maxRecDepth 100000 in
theorem fieldInverse_exponent :
    exponent Gen.AddChain.fieldInverse_regs Gen.AddChain.fieldInverse = Spec.SM2.p - 2 := by
  decide +kernel

set_option maxRecDepth 100000 in
theorem scalarInverse_exponent :
    exponent Gen.AddChain.scalarInverse_regs Gen.AddChain.scalarInverse = Spec.SM2.n - 2 := by
  decide +kernel

theorem param_P_eq : Gen.SM2Params.param_P = Spec.SM2.p := by decide
theorem param_N_eq : Gen.SM2Params.param_N = Spec.SM2.n := by decide

/-! ### well-formedness -/

/-- `w` is the list of registers that hold a defined value. Every destination is `< nregs`,
    every source is in `w`, and at the end register 1 (the result) is in `w`. -/
def wfFrom (nregs : Nat) : List Nat → List Op → Bool
  | w, [] => decide (1 ∈ w)
  | w, .sq d s :: rest => decide (d < nregs) && decide (s ∈ w) && wfFrom nregs (d :: w) rest
  | w, .mul d a b :: rest =>
      decide (d < nregs) && decide (a ∈ w) && decide (b ∈ w) && wfFrom nregs (d :: w) rest

/-- well-formed program: initially only register 0 (the input) is defined -/
def wf (nregs : Nat) (prog : List Op) : Bool := decide (0 < nregs) && wfFrom nregs [0] prog

set_option maxRecDepth 100000 in
theorem fieldInverse_wf : wf Gen.AddChain.fieldInverse_regs Gen.AddChain.fieldInverse = true := by
  decide +kernel

set_option maxRecDepth 100000 in
theorem scalarInverse_wf : wf Gen.AddChain.scalarInverse_regs Gen.AddChain.scalarInverse = true := by
  decide +kernel

/-! ### `run` as a fold of `step` -/

/-- one operation on the register file -/
def step {α : Type} (sq : α → α) (mul : α → α → α) (zero : α) (r : List α) : Op → List α
  | .sq d s => r.set d (sq (r.getD s zero))
  | .mul d a b => r.set d (mul (r.getD a zero) (r.getD b zero))

theorem run_eq {α : Type} (sq : α → α) (mul : α → α → α) (zero : α) (nregs : Nat)
    (prog : List Op) (x : α) :
    run sq mul zero nregs prog x =
      (prog.foldl (step sq mul zero) (x :: List.replicate (nregs - 1) zero)).getD 1 zero := by
  unfold run
  have : (fun (r : List α) (op : Op) =>
      match op with
      | .sq d s => r.set d (sq (r.getD s zero))
      | .mul d a b => r.set d (mul (r.getD a zero) (r.getD b zero))) = step sq mul zero := by
    funext r op; cases op <;> rfl
  exact congrArg (fun f => (List.foldl f (x :: List.replicate (nregs - 1) zero) prog).getD 1 zero) this

/-! ### list helpers -/

theorem getD_set (l : List Nat) (d i v : Nat) :
    (l.set d v).getD i 0 = if d = i ∧ d < l.length then v else l.getD i 0 := by
  simp only [List.getD_eq_getElem?_getD, List.getElem?_set]
  by_cases h : d = i
  · subst h
    by_cases h2 : d < l.length
    · simp [h2]
    · simp [h2]
  · simp [h]

theorem getD_init (a nregs i : Nat) (h : 1 ≤ (a :: List.replicate (nregs - 1) 0).getD i 0) :
    i = 0 := by
  cases i with
  | zero => rfl
  | succ j =>
    exfalso
    simp only [List.getD_eq_getElem?_getD, List.getElem?_cons_succ, List.getElem?_replicate] at h
    split at h <;> simp at h

/-! ### the invariant -/

/-- the value a register with symbolic exponent `e ≥ 1` stands for: `x^e · rinv^(e-1)` -/
def val (x rinv e : Nat) : Nat := x ^ e * rinv ^ (e - 1)

theorem val_one (x rinv : Nat) : val x rinv 1 = x := by simp [val]

theorem val_add (x rinv ea eb : Nat) (ha : 1 ≤ ea) (hb : 1 ≤ eb) :
    val x rinv ea * val x rinv eb * rinv = val x rinv (ea + eb) := by
  obtain ⟨a, rfl⟩ := Nat.exists_eq_add_of_le ha
  obtain ⟨b, rfl⟩ := Nat.exists_eq_add_of_le hb
  have h1 : 1 + a - 1 = a := by omega
  have h2 : 1 + b - 1 = b := by omega
  have h3 : 1 + a + (1 + b) - 1 = a + b + 1 := by omega
  simp only [val, h1, h2, h3, Nat.pow_add, Nat.pow_one]
  ac_rfl

/-- Montgomery product of two represented values -/
theorem mont_mul_val (m x rinv a b ea eb : Nat) (hea : 1 ≤ ea) (heb : 1 ≤ eb)
    (ha : a % m = val x rinv ea % m) (hb : b % m = val x rinv eb % m) :
    a * b * rinv % m = val x rinv (ea + eb) % m := by
  rw [← val_add x rinv ea eb hea heb]
  rw [Nat.mul_mod (a * b), Nat.mul_mod a b, ha, hb, ← Nat.mul_mod (val x rinv ea), ← Nat.mul_mod]

/-- concrete register file `r`, symbolic register file `s`, defined registers `w` -/
structure Inv (m x rinv nregs : Nat) (w r s : List Nat) : Prop where
  lr : r.length = nregs
  ls : s.length = nregs
  pos : ∀ i, i ∈ w → 1 ≤ s.getD i 0
  rep : ∀ i, 1 ≤ s.getD i 0 →
    r.getD i 0 % m = val x rinv (s.getD i 0) % m ∧
    (i ≠ 0 → r.getD i 0 = val x rinv (s.getD i 0) % m)

theorem Inv.init (m x rinv nregs : Nat) (h : 0 < nregs) :
    Inv m x rinv nregs [0] (x :: List.replicate (nregs - 1) 0) (1 :: List.replicate (nregs - 1) 0) where
  lr := by simp; omega
  ls := by simp; omega
  pos := by intro i hi; simp at hi; subst hi; simp
  rep := by
    intro i hi
    have := getD_init 1 nregs i hi
    subst this
    simp [val_one]

/-- writing a correctly represented value to a register inside the file -/
theorem Inv.write {m x rinv nregs : Nat} {w r s : List Nat} (h : Inv m x rinv nregs w r s)
    (d e v : Nat) (hd : d < nregs) (he : 1 ≤ e) (hv : v = val x rinv e % m) :
    Inv m x rinv nregs (d :: w) (r.set d v) (s.set d e) where
  lr := by simp [h.lr]
  ls := by simp [h.ls]
  pos := by
    intro i hi
    rw [getD_set]
    split
    · exact he
    · rename_i hne
      rcases List.mem_cons.mp hi with hi | hi
      · exact absurd ⟨hi.symm, by rw [h.ls]; exact hd⟩ hne
      · exact h.pos i hi
  rep := by
    intro i
    rw [getD_set, getD_set, h.lr, h.ls]
    by_cases hc : d = i ∧ d < nregs
    · rw [if_pos hc, if_pos hc]
      intro _
      subst hv
      exact ⟨Nat.mod_mod _ _, fun _ => rfl⟩
    · rw [if_neg hc, if_neg hc]
      exact h.rep i

theorem Inv.foldl {m x rinv nregs : Nat} (prog : List Op) :
    ∀ {w r s : List Nat}, Inv m x rinv nregs w r s → wfFrom nregs w prog = true →
      1 ≤ (prog.foldl (step (fun e => 2 * e) (· + ·) 0) s).getD 1 0 ∧
      (prog.foldl (step (fun a => a * a * rinv % m) (fun a b => a * b * rinv % m) 0) r).getD 1 0 =
        val x rinv ((prog.foldl (step (fun e => 2 * e) (· + ·) 0) s).getD 1 0) % m := by
  induction prog with
  | nil =>
    intro w r s h hwf
    simp only [wfFrom, decide_eq_true_eq] at hwf
    have h1 := h.pos 1 hwf
    exact ⟨h1, (h.rep 1 h1).2 (by decide)⟩
  | cons op rest ih =>
    intro w r s h hwf
    cases op with
    | sq d src =>
      simp only [wfFrom, Bool.and_eq_true, decide_eq_true_eq] at hwf
      obtain ⟨⟨hd, hsrc⟩, hrest⟩ := hwf
      have hp := h.pos src hsrc
      have hr := (h.rep src hp).1
      simp only [List.foldl_cons, step]
      refine ih (h.write d (2 * s.getD src 0) _ hd (by omega) ?_) hrest
      rw [Nat.two_mul]
      exact mont_mul_val m x rinv _ _ _ _ hp hp hr hr
    | mul d a b =>
      simp only [wfFrom, Bool.and_eq_true, decide_eq_true_eq] at hwf
      obtain ⟨⟨⟨hd, ha⟩, hb⟩, hrest⟩ := hwf
      have hpa := h.pos a ha
      have hpb := h.pos b hb
      simp only [List.foldl_cons, step]
      refine ih (h.write d (s.getD a 0 + s.getD b 0) _ hd (by omega) ?_) hrest
      exact mont_mul_val m x rinv _ _ _ _ hpa hpb (h.rep a hpa).1 (h.rep b hpb).1

/-! ### soundness of the symbolic execution -/

/-- a well-formed program has a positive exponent -/
theorem exponent_pos (nregs : Nat) (prog : List Op) (hwf : wf nregs prog = true) :
    1 ≤ exponent nregs prog := by
  simp only [wf, Bool.and_eq_true, decide_eq_true_eq] at hwf
  rw [exponent, run_eq]
  exact (Inv.foldl prog (Inv.init 0 0 0 nregs hwf.1) hwf.2).1

/-- **Soundness**: over the Montgomery carrier (all of ℕ, `sq a = a·a·rinv % m`,
    `mul a b = a·b·rinv % m`, zero register 0) a well-formed program computes
    `x^e · rinv^(e-1) % m` for its symbolic exponent `e`. (No hypothesis on `m`, `rinv`, `x`.) -/
theorem run_mont (m rinv nregs : Nat) (prog : List Op) (hwf : wf nregs prog = true) (x : Nat) :
    Model.AddChain.run (fun a => a * a * rinv % m) (fun a b => a * b * rinv % m) 0 nregs prog x =
      (x ^ exponent nregs prog * rinv ^ (exponent nregs prog - 1)) % m := by
  simp only [wf, Bool.and_eq_true, decide_eq_true_eq] at hwf
  rw [exponent, run_eq, run_eq]
  exact (Inv.foldl prog (Inv.init m x rinv nregs hwf.1) hwf.2).2

/-- the result is reduced -/
theorem run_mont_lt (m rinv nregs : Nat) (prog : List Op) (hwf : wf nregs prog = true) (x : Nat)
    (hm : 0 < m) :
    Model.AddChain.run (fun a => a * a * rinv % m) (fun a b => a * b * rinv % m) 0 nregs prog x < m := by
  rw [run_mont m rinv nregs prog hwf x]; exact Nat.mod_lt _ hm

/-- `Invert` of the Montgomery instance -/
theorem invert_montOps (P : Model.Field.MontParams) (hwf : wf P.chainRegs P.chain = true) (x : Nat) :
    Model.Field.invert (Model.Field.montOps P) x =
      (x ^ exponent P.chainRegs P.chain * P.rinv ^ (exponent P.chainRegs P.chain - 1)) % P.m :=
  run_mont P.m P.rinv P.chainRegs P.chain hwf x

end SMGo.Proofs.AddChainExp
