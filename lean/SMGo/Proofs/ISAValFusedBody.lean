import SMGo.Proofs.ISAValFusedGh
set_option linter.unusedSimpArgs false
namespace SMGo.Proofs.ISAVal
open SMGo.Model.ISAVal SMGo.Model.GCM SMGo.Proofs.GCM SMGo.Proofs.ISATouch
open SMGo.Model.ISA (Reg Opd Instr)

/-- everything the GHASH loops rely on: register-file sizes, the masks of `reverseBits`, the hash-key context -/
structure GhCtx (h : Nat) (s : State) : Prop where
  lenG : s.gpr.length = 16
  lenV : s.vec.length = 32
  lenK : s.kreg.length = 8
  v22 : vreg s 22 = AND64
  v23 : vreg s 23 = LOW4
  v24 : vreg s 24 = HIGH4
  hc : HCtx h s

def ghRegs : List Nat := [19, 22, 23, 24, 25, 26, 29, 30, 31]

theorem GhCtx.of_keeps {h : Nat} {G V K : List Nat} {s s' : State} (c : GhCtx h s) (k : Keeps G V K s s')
    (hV : ∀ n, n ∈ ghRegs → n ∈ V) : GhCtx h s' :=
  ⟨k.lenG.trans c.lenG, k.lenV.trans c.lenV, k.lenK.trans c.lenK, (k.v 22 (hV 22 (by decide))).trans c.v22,
    (k.v 23 (hV 23 (by decide))).trans c.v23, (k.v 24 (hV 24 (by decide))).trans c.v24,
    c.hc.of_keeps k (hV 19 (by decide)) (hV 25 (by decide)) (hV 26 (by decide)) (hV 29 (by decide)) (hV 30 (by decide))
      (hV 31 (by decide))⟩

/-- (pointer, counter, accumulator) of the three GHASH block loops: nonce, additional data, ciphertext -/
def loopInst (p cnt Acc : Nat) : Prop :=
  (p = 12 ∧ cnt = 10 ∧ Acc = 14) ∨ (p = 8 ∧ cnt = 12 ∧ Acc = 21) ∨ (p = 10 ∧ cnt = 12 ∧ Acc = 21)

/-- body of the by-4 loop with the `CMPQ cnt, $3` that follows -/
def body4Code (p cnt Acc : Nat) : List DInstr :=
  load4Code p ++ gh4Code 20 Acc ++ [ins .SUBQ [.imm 4, G cnt] 0, ins .CMPQ [G cnt, .imm 3] 0]
/-- body of the by-1 loop with the `CMPQ cnt, $0` that follows -/
def body1Code (p cnt Acc : Nat) : List DInstr :=
  load1Code p ++ gh1Code 20 Acc ++ [ins .SUBQ [.imm 1, G cnt] 0, ins .CMPQ [G cnt, .imm 0] 0]

def bodyKeepG (p cnt : Nat) : List Nat := (List.range 16).filter (fun n => !([p, cnt].contains n))
def bodyKeepV (Acc : Nat) : List Nat := (List.range 32).filter (fun n => !([0, 1, 2, 3, 13, 20, 27, 28, Acc].contains n))

theorem body4_writes (p cnt Acc : Nat) : writesNone (body4Code p cnt Acc) (bodyKeepG p cnt) (bodyKeepV Acc) (List.range 8) = true := by
  simp [writesNone, body4Code, load4Code, rbCode, gh4Code, mulRedCode, mulCode, redCode, leaves, touchesOf, tVec3, tVecImm, tVecImm2,
    tVmovdqu32, tAlu, tCmpq, memT, ins, R, G, M, bodyKeepG, bodyKeepV, imm64]
theorem body1_writes (p cnt Acc : Nat) : writesNone (body1Code p cnt Acc) (bodyKeepG p cnt) (bodyKeepV Acc) (List.range 8) = true := by
  simp [writesNone, body1Code, load1Code, rbCode, gh1Code, mulRedCode, mulCode, redCode, leaves, touchesOf, tVec3, tVecImm, tVecImm2,
    tVmovdqu32, tAlu, tCmpq, memT, ins, R, G, M, bodyKeepG, bodyKeepV, imm64]

theorem loopInst_facts {p cnt Acc : Nat} (h : loopInst p cnt Acc) :
    p < 16 ∧ cnt < 16 ∧ p ≠ cnt ∧ ghInst 20 Acc ∧ (∀ n, n ∈ ghRegs → n ∈ bodyKeepV Acc) ∧ (∀ n, n ∈ ghRegs → n ∈ ghKeepV 20 Acc) := by
  rcases h with ⟨rfl, rfl, rfl⟩ | ⟨rfl, rfl, rfl⟩ | ⟨rfl, rfl, rfl⟩ <;>
    exact ⟨by decide, by decide, by decide, ⟨by decide, by decide⟩, by decide, by decide⟩


theorem load4_writes (p : Nat) : writesNone (load4Code p) ((List.range 16).filter (fun n => !([p].contains n)))
    ((List.range 32).filter (fun n => !([0, 1, 20].contains n))) (List.range 8) = true := by
  simp [writesNone, load4Code, rbCode, leaves, touchesOf, tVec3, tVecImm, tVmovdqu32, tAlu, memT, ins, R, G, M, imm64]
theorem load1_writes (p : Nat) : writesNone (load1Code p) ((List.range 16).filter (fun n => !([p].contains n)))
    ((List.range 32).filter (fun n => !([0, 1, 20].contains n))) (List.range 8) = true := by
  simp [writesNone, load1Code, rbCode, leaves, touchesOf, tVec3, tVecImm, tVmovdqu32, tAlu, memT, ins, R, G, M, imm64]

theorem ghRegs_load : ∀ n, n ∈ ghRegs → n ∈ (List.range 32).filter (fun n => !([0, 1, 20].contains n)) := by decide

/-- `load4X(p)` / `load1X(p)`: `vl` bytes at the pointer, bit-reflected lane by lane, into VzDat; the pointer advances -/
theorem load_spec (vl p : Nat) (hvl : vl = 64 ∨ vl = 16) (hp : p < 16) (s : State) (h : Nat) (c : GhCtx h s) (dp : Nat) (blk : List Nat)
    (hgp : greg s p = dp) (hdp : dp + vl < 2 ^ 64) (hrd : readMem s.mem dp vl = .ok blk) (hblk : blk.length = vl)
    (hbb : ∀ x ∈ blk, x < 2 ^ 8) :
    ∃ s', execList ([ins .VMOVDQU32 [M p 0, R 20] vl, ins .ADDQ [.imm vl, G p] 0] ++ rbCode vl 20 0 1) s = .ok s' ∧
      greg s' p = dp + vl ∧ (∀ l, l < vl / 16 → lane 128 l (vreg s' 20) = blkR blk l) := by
  have hvalid : validVl vl = true := by rcases hvl with rfl | rfl <;> rfl
  let sA := setVreg s 20 (unlanes 8 blk)
  let sB := setFlags (setGreg sA p (addF 8 (greg sA p) (imm64 (vl : Int))).1) (addF 8 (greg sA p) (imm64 (vl : Int))).2
  have hrunAB : execList [ins .VMOVDQU32 [M p 0, R 20] vl, ins .ADDQ [.imm vl, G p] 0] s = .ok sB := by
    apply exec_step (s1 := sA)
    · exact a_vmov_load s vl p 0 20 blk hvalid (by rw [c.lenG]; exact hp) (by rw [c.lenV]; decide)
        (by rw [hgp, imm64_0, Nat.add_zero, Nat.mod_eq_of_lt (by omega)]; exact hrd)
    apply exec_step (s1 := sB)
    · exact a_addq_imm sA vl p (by simp [sA, c.lenG]; exact hp)
    rfl
  have hB20 : vreg sB 20 = unlanes 8 blk := by
    show vreg (setFlags (setGreg sA p _) _) 20 = _
    rw [vreg_setFlags, vreg_setGreg]; exact vreg_setVreg_eq s 20 _ (by rw [c.lenV]; decide)
  have hBp : greg sB p = dp + vl := by
    show greg (setFlags (setGreg sA p _) _) p = _
    rw [greg_setFlags, greg_setGreg_eq _ _ _ (by simp [sA, c.lenG]; exact hp), addF_fst, imm64_natCast vl (by omega)]
    show (greg (setVreg s 20 _) p + vl) % 2 ^ 64 = _
    rw [greg_setVreg, hgp, Nat.mod_eq_of_lt (by omega)]
  have hBV : sB.vec.length = 32 := by simp [sB, sA]; exact c.lenV
  obtain ⟨s2, hrun2, vo2, lt2, val2⟩ := rb_spec vl 20 0 1 hvalid (Or.inr ⟨by decide, rfl, rfl⟩) sB hBV
    (by show vreg (setFlags (setGreg sA p _) _) 22 = _
        rw [vreg_setFlags, vreg_setGreg, vreg_setVreg_ne _ _ _ _ (by decide)]; exact c.v22)
    (by show vreg (setFlags (setGreg sA p _) _) 23 = _
        rw [vreg_setFlags, vreg_setGreg, vreg_setVreg_ne _ _ _ _ (by decide)]; exact c.v23)
    (by show vreg (setFlags (setGreg sA p _) _) 24 = _
        rw [vreg_setFlags, vreg_setGreg, vreg_setVreg_ne _ _ _ _ (by decide)]; exact c.v24)
  refine ⟨s2, execList_append_ok hrunAB hrun2, ?_, ?_⟩
  · show s2.gpr.getD p 0 = _
    rw [vo2.gpr]; exact hBp
  · intro l hl
    rw [val2 l hl, hB20, laneJ_unlanes 128 8 16 l (by decide) blk hbb (by rcases hvl with rfl | rfl <;> omega)]
    rfl


theorem load4_eq (p : Nat) : load4Code p = [ins .VMOVDQU32 [M p 0, R 20] 64, ins .ADDQ [.imm ((64 : Nat) : Int), G p] 0] ++ rbCode 64 20 0 1 := rfl
theorem load1_eq (p : Nat) : load1Code p = [ins .VMOVDQU32 [M p 0, R 20] 16, ins .ADDQ [.imm ((16 : Nat) : Int), G p] 0] ++ rbCode 16 20 0 1 := rfl

/-- the tail of a loop body: `SUBQ $c, cnt; CMPQ cnt, $d` -/
theorem subcmp_spec (cnt : Nat) (c d : Int) (s : State) (hcnt : cnt < s.gpr.length) :
    execList [ins .SUBQ [.imm c, G cnt] 0, ins .CMPQ [G cnt, .imm d] 0] s
      = .ok (setFlags (setFlags (setGreg s cnt (subF 8 (greg s cnt) (imm64 c)).1) (subF 8 (greg s cnt) (imm64 c)).2)
          (subF 8 ((subF 8 (greg s cnt) (imm64 c)).1) (imm64 d)).2) := by
  apply exec_step (a_subq_imm s c cnt hcnt)
  apply exec_step (a_cmpq_imm _ d cnt (by simp; exact hcnt))
  simp only [greg_setFlags, greg_setGreg_eq s cnt _ hcnt]
  rfl

set_option maxHeartbeats 1000000 in
/-- **one iteration of a by-4 GHASH loop** (nonce, additional data or ciphertext) -/
theorem body4_spec (p cnt Acc : Nat) (hi : loopInst p cnt Acc) (s : State) (h : Nat) (c : GhCtx h s) (dp n y : Nat) (blk : List Nat)
    (hgp : greg s p = dp) (hgc : greg s cnt = n) (hy : vreg s Acc = y) (hylt : y < 2 ^ 128) (hdp : dp + 64 < 2 ^ 64)
    (hn : 4 ≤ n) (hn63 : n < 2 ^ 63) (hrd : readMem s.mem dp 64 = .ok blk) (hblk : blk.length = 64) (hbb : ∀ x ∈ blk, x < 2 ^ 8) :
    ∃ s', execList (body4Code p cnt Acc) s = .ok s' ∧ GhCtx h s' ∧ greg s' p = dp + 64 ∧ greg s' cnt = n - 4 ∧
      vreg s' Acc = ghStep4N h y blk ∧ vreg s' Acc < 2 ^ 128 ∧ s'.flags = (subF 8 (n - 4) 3).2 ∧
      Keeps (bodyKeepG p cnt) (bodyKeepV Acc) (List.range 8) s s' := by
  obtain ⟨lp, lc, hne, gi, hkV, hkV'⟩ := loopInst_facts hi
  -- load, advance, reflect
  obtain ⟨s1, hr1, g1p, v1⟩ := load_spec 64 p (Or.inl rfl) lp s h c dp blk hgp hdp hrd hblk hbb
  rw [← load4_eq] at hr1
  have k1 := keeps_of_exec _ (load4_writes p) hr1
  have c1 := c.of_keeps k1 ghRegs_load
  have hA1 : vreg s1 Acc = y := by
    rw [k1.v Acc (by rcases gi.2 with rfl | rfl <;> decide)]; exact hy
  have g1c : greg s1 cnt = n := by
    rw [k1.g cnt (by simp [List.mem_filter]; exact ⟨lc, Ne.symm hne⟩)]; exact hgc
  -- the aggregated step
  obtain ⟨s2, hr2, lt2, val2⟩ := gh4_spec 20 Acc gi s1 c1.lenV h c1.hc y hA1 hylt (blkR blk) v1
  have k2 := keeps_of_exec _ (gh4_writes 20 Acc) hr2
  have c2 := c1.of_keeps k2 hkV'
  -- count
  have hrun3 := subcmp_spec cnt 4 3 s2 (by rw [c2.lenG]; exact lc)
  have g2c : greg s2 cnt = n := by rw [k2.g cnt (List.mem_range.mpr lc)]; exact g1c
  rw [g2c, subF_fst, imm64_4', imm64_3, show (n + 2 ^ 64 - 4) % 2 ^ 64 = n - 4 from by omega] at hrun3
  have hrun : execList (body4Code p cnt Acc) s
      = .ok (setFlags (setFlags (setGreg s2 cnt (n - 4)) (subF 8 n 4).2) (subF 8 (n - 4) 3).2) := by
    unfold body4Code
    exact execList_append_ok (execList_append_ok hr1 hr2) hrun3
  have kAll := keeps_of_exec _ (body4_writes p cnt Acc) hrun
  refine ⟨_, hrun, c.of_keeps kAll hkV, ?_, ?_, ?_, ?_, rfl, kAll⟩
  · rw [greg_setFlags, greg_setFlags, greg_setGreg_ne _ _ _ _ hne, k2.g p (List.mem_range.mpr lp)]; exact g1p
  · rw [greg_setFlags, greg_setFlags, greg_setGreg_eq _ _ _ (by rw [c2.lenG]; exact lc)]
  · rw [vreg_setFlags, vreg_setFlags, vreg_setGreg, val2]; rfl
  · rw [vreg_setFlags, vreg_setFlags, vreg_setGreg]; exact lt2

set_option maxHeartbeats 1000000 in
/-- **one iteration of a by-1 GHASH loop** -/
theorem body1_spec (p cnt Acc : Nat) (hi : loopInst p cnt Acc) (s : State) (h : Nat) (c : GhCtx h s) (dp n y : Nat) (blk : List Nat)
    (hgp : greg s p = dp) (hgc : greg s cnt = n) (hy : vreg s Acc = y) (hylt : y < 2 ^ 128) (hdp : dp + 16 < 2 ^ 64)
    (hn : 1 ≤ n) (hn63 : n < 2 ^ 63) (hrd : readMem s.mem dp 16 = .ok blk) (hblk : blk.length = 16) (hbb : ∀ x ∈ blk, x < 2 ^ 8) :
    ∃ s', execList (body1Code p cnt Acc) s = .ok s' ∧ GhCtx h s' ∧ greg s' p = dp + 16 ∧ greg s' cnt = n - 1 ∧
      vreg s' Acc = gmulR h (y ^^^ rb128 (unlanes 8 blk)) ∧ vreg s' Acc < 2 ^ 128 ∧ s'.flags = (subF 8 (n - 1) 0).2 ∧
      Keeps (bodyKeepG p cnt) (bodyKeepV Acc) (List.range 8) s s' := by
  obtain ⟨lp, lc, hne, gi, hkV, hkV'⟩ := loopInst_facts hi
  obtain ⟨s1, hr1, g1p, v1⟩ := load_spec 16 p (Or.inr rfl) lp s h c dp blk hgp hdp hrd hblk hbb
  rw [← load1_eq] at hr1
  have k1 := keeps_of_exec _ (load1_writes p) hr1
  have c1 := c.of_keeps k1 ghRegs_load
  have hA1 : vreg s1 Acc = y := by
    rw [k1.v Acc (by rcases gi.2 with rfl | rfl <;> decide)]; exact hy
  have g1c : greg s1 cnt = n := by
    rw [k1.g cnt (by simp [List.mem_filter]; exact ⟨lc, Ne.symm hne⟩)]; exact hgc
  obtain ⟨s2, hr2, lt2, val2⟩ := gh1_spec 20 Acc gi s1 c1.lenV h c1.hc y hA1 hylt
  have k2 := keeps_of_exec _ (gh1_writes 20 Acc) hr2
  have c2 := c1.of_keeps k2 hkV'
  have hrun3 := subcmp_spec cnt 1 0 s2 (by rw [c2.lenG]; exact lc)
  have g2c : greg s2 cnt = n := by rw [k2.g cnt (List.mem_range.mpr lc)]; exact g1c
  rw [g2c, subF_fst, imm64_1', imm64_0, show (n + 2 ^ 64 - 1) % 2 ^ 64 = n - 1 from by omega] at hrun3
  have hrun : execList (body1Code p cnt Acc) s
      = .ok (setFlags (setFlags (setGreg s2 cnt (n - 1)) (subF 8 n 1).2) (subF 8 (n - 1) 0).2) := by
    unfold body1Code
    exact execList_append_ok (execList_append_ok hr1 hr2) hrun3
  have kAll := keeps_of_exec _ (body1_writes p cnt Acc) hrun
  refine ⟨_, hrun, c.of_keeps kAll hkV, ?_, ?_, ?_, ?_, rfl, kAll⟩
  · rw [greg_setFlags, greg_setFlags, greg_setGreg_ne _ _ _ _ hne, k2.g p (List.mem_range.mpr lp)]; exact g1p
  · rw [greg_setFlags, greg_setFlags, greg_setGreg_eq _ _ _ (by rw [c2.lenG]; exact lc)]
  · rw [vreg_setFlags, vreg_setFlags, vreg_setGreg, val2, v1 0 (by decide)]
    unfold blkR
    rw [Nat.mul_zero, List.drop_zero, List.take_of_length_le (by omega)]
  · rw [vreg_setFlags, vreg_setFlags, vreg_setGreg]; exact lt2

end SMGo.Proofs.ISAVal
