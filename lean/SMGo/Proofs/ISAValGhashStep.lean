import SMGo.Proofs.ISAValStep
import SMGo.Model.ISAValGcm
namespace SMGo.Proofs.ISAVal
open SMGo.Model.ISAVal SMGo.Model.ISA

section
variable (g v k : List Nat) (fl : Flags) (mem : List Region) (syms frame : List (String × Nat))

theorem execD_broadcast_x4 (vl b : Nat) (disp : Int) (d gb : Nat) (bs : List Nat) (hvl : (vl == 32 || vl == 64) = true)
    (hb : g[b]? = some gb) (hd : d < v.length)
    (hload : readMem mem ((gb + 0 + imm64 disp) % 2 ^ 64) 16 = .ok bs) :
    execD ⟨g, v, k, fl, mem, syms, frame⟩ (ins .VBROADCASTI32X4 [M b disp, R d] vl)
      = .ok ⟨g, v.set d (unlanes 128 (List.replicate (vl / 16) (unlanes 8 bs))), k, fl, mem, syms, frame⟩ := by
  have hload' : readMem mem ((gb + imm64 disp) % 18446744073709551616) 16 = .ok bs := by simpa using hload
  have hv : validVl vl = true := by
    simp only [validVl, Bool.or_eq_true, beq_iff_eq] at hvl ⊢
    rcases hvl with h | h <;> simp [h]
  have h2 : (vl < 32) = False := by
    simp only [Bool.or_eq_true, beq_iff_eq] at hvl
    rcases hvl with h | h <;> simp [h]
  simp [execD, ins, R, M, exBroadcastMem, hv, h2, effAddr, getG, setV, hb, hd, loadLE, hload']

/-- VPERMQ tbl, idx, dst (index-register form) -/
theorem execD_vpermq_reg (vl a b d av bv r w : Nat) (hvl : validVl vl = true)
    (ha : v[a]? = some av) (hb : v[b]? = some bv) (hd : d < v.length)
    (hr : vec3 .VPERMQ vl av bv = some (r, w)) :
    execD ⟨g, v, k, fl, mem, syms, frame⟩ (ins .VPERMQ [R a, R b, R d] vl)
      = .ok ⟨g, v.set d r, k, fl, mem, syms, frame⟩ := by
  simp [execD, ins, R, exVec3, hvl, getV, setV, ha, hb, hd, hr]

/-- VPERMQ tbl, idx, k, dst (merge-masked) -/
theorem execD_vpermq_mask (vl a b kk d av bv kv old r w : Nat) (hvl : validVl vl = true)
    (ha : v[a]? = some av) (hb : v[b]? = some bv) (hk : k[kk]? = some kv) (hold : v[d]? = some old) (hd : d < v.length)
    (hr : vec3 .VPERMQ vl av bv = some (r, w)) :
    execD ⟨g, v, k, fl, mem, syms, frame⟩ (ins .VPERMQ [R a, R b, K kk, R d] vl)
      = .ok ⟨g, v.set d (mergeMask w (8 * vl / w) kv r old), k, fl, mem, syms, frame⟩ := by
  have hold' : v[d] = old := by rw [List.getElem?_eq_getElem hd] at hold; exact Option.some.inj hold
  simp [execD, ins, R, K, exVec3, hvl, getV, getK, setV, ha, hb, hk, hold', hd, hr]

/-- VPERMQ $imm8, src, dst -/
theorem execD_vpermq_imm (vl : Nat) (imm : Int) (a d av r : Nat) (hvl : validVl vl = true)
    (ha : v[a]? = some av) (hd : d < v.length)
    (hr : vecImm .VPERMQ vl (imm64 imm % 256) av = some r) :
    execD ⟨g, v, k, fl, mem, syms, frame⟩ (ins .VPERMQ [.imm imm, R a, R d] vl)
      = .ok ⟨g, v.set d r, k, fl, mem, syms, frame⟩ := by
  simp [execD, ins, R, exVecImm, hvl, getV, setV, ha, hd, hr]

end
end SMGo.Proofs.ISAVal
