/-
  Property C16, conversion to and from the Montgomery domain modulo n (generated
  `sm2ScalarToMontgomery`, `sm2ScalarFromMontgomery`); see `FiatMontP` for the structure.
-/
import SMGo.Proofs.FiatMulN
import SMGo.Proofs.FiatMontP
set_option linter.unusedVariables false
namespace SMGo.Proofs.FiatMontN
open SMGo SMGo.Proofs.Fiat SMGo.Model.FiatPrim SMGo.Proofs.FiatMulN
open SMGo.Proofs.FiatSmallP (v4 v4_lt)
open SMGo.Proofs.FiatSmallN (n_eq)
open SMGo.Proofs.FiatMulP (pow256)
open SMGo.Proofs.FiatMontP (mont_compose1)

theorem addRow5_mont {t0 t1 t2 t3 t4 r0 r1 r2 r3 r4 vt a B : Nat}
    (T : L5 [t0, t1, t2, t3, t4] vt) (R : L5 [r0, r1, r2, r3, r4] (a * B))
    (hvt : vt < 2 * 115792089210356248756420345214020892766061623724957744567843809356293439045923) (ha : a < 18446744073709551616) (hB : B < 115792089210356248756420345214020892766061623724957744567843809356293439045923) :
    L5 (addRow5 t0 t1 t2 t3 t4 r0 r1 r2 r3 r4) (vt + a * B) := by
  have hab : a * B ≤ 18446744073709551615 * B := Nat.mul_le_mul_right B (by omega)
  generalize a * B = S at *
  exact addRow5_spec T R (by omega)

theorem step5_abs {s0 s1 s2 s3 s4 q0 q1 q2 q3 q4 q vt a B : Nat}
    (A : L5 [s0, s1, s2, s3, s4] (vt + a * B)) (Q : L5 [q0, q1, q2, q3, q4] (q * 115792089210356248756420345214020892766061623724957744567843809356293439045923))
    (hq : q = mul64lo s0 0x327f9e8872350975) (hvt : vt < 2 * 115792089210356248756420345214020892766061623724957744567843809356293439045923) (ha : a < 18446744073709551616) (hB : B < 115792089210356248756420345214020892766061623724957744567843809356293439045923) :
    ∃ v, L5 (redAdd5 s0 s1 s2 s3 s4 q0 q1 q2 q3 q4) v ∧ v < 2 * 115792089210356248756420345214020892766061623724957744567843809356293439045923 ∧
      v * 18446744073709551616 = vt + a * B + q * 115792089210356248756420345214020892766061623724957744567843809356293439045923 := by
  have hs := A.head_eq
  have hab : a * B ≤ 18446744073709551615 * B := Nat.mul_le_mul_right B (by omega)
  unfold mul64lo at hq
  generalize a * B = S at *
  have hz : (vt + S + q * 115792089210356248756420345214020892766061623724957744567843809356293439045923) % 18446744073709551616 = 0 := by omega
  have h := redAdd5_spec A Q hz
  refine ⟨_, h, ?_, ?_⟩ <;> omega

/-- R² mod n, the constant `ToMontgomery` multiplies by -/
theorem rr_n : v4 0x901192af7c114f20 0x3464504ade6fa2fa 0x620fc84c3affe0d4 0x1eb5e412a22b3d3b = (115792089237316195423570985008687907853269984665640564039457584007913129639936 * 115792089237316195423570985008687907853269984665640564039457584007913129639936) % 115792089210356248756420345214020892766061623724957744567843809356293439045923 := by decide

theorem rinv_n : (115792089237316195423570985008687907853269984665640564039457584007913129639936 * 50307568877804588386309533398012773108667376576406692192023074665752686048746) % 115792089210356248756420345214020892766061623724957744567843809356293439045923 = 1 := by decide

set_option maxRecDepth 100000 in
theorem toMontgomery_core {a0 a1 a2 a3 : Nat}
    (ha0 : a0 < 18446744073709551616) (ha1 : a1 < 18446744073709551616) (ha2 : a2 < 18446744073709551616) (ha3 : a3 < 18446744073709551616) :
    ∃ t0 t1 t2 t3 t4 v k, Gen.FiatN.sm2ScalarToMontgomery [a0, a1, a2, a3] = condSub 0x53bbf40939d54123 0x7203df6b21c6052b 0xffffffffffffffff 0xfffffffeffffffff t0 t1 t2 t3 t4 ∧
      L5 [t0, t1, t2, t3, t4] v ∧ v < 2 * 115792089210356248756420345214020892766061623724957744567843809356293439045923 ∧
      v * 115792089237316195423570985008687907853269984665640564039457584007913129639936 = v4 a0 a1 a2 a3 * v4 0x901192af7c114f20 0x3464504ade6fa2fa 0x620fc84c3affe0d4 0x1eb5e412a22b3d3b + k * 115792089210356248756420345214020892766061623724957744567843809356293439045923 := by
  have hB : v4 0x901192af7c114f20 0x3464504ade6fa2fa 0x620fc84c3affe0d4 0x1eb5e412a22b3d3b < 115792089210356248756420345214020892766061623724957744567843809356293439045923 := by decide
  have hc0 : 0x901192af7c114f20 < 18446744073709551616 := by decide
  have hc1 : 0x3464504ade6fa2fa < 18446744073709551616 := by decide
  have hc2 : 0x620fc84c3affe0d4 < 18446744073709551616 := by decide
  have hc3 : 0x1eb5e412a22b3d3b < 18446744073709551616 := by decide
  unfold Gen.FiatN.sm2ScalarToMontgomery
  extract_lets -merge x1 x2 x3 x4 x6 x5 x8 x7 x10 x9 x12 x11 x13 x14 x15 x16 x17 x18 x19 x22 x21 x24 x23 x26 x25 x28 x27 x29 x30 x31 x32 x33 x34 x36 x37 x38 x39 x40 x41 x42 x43 x44 x46 x45 x48 x47 x50 x49 x52 x51 x53 x54 x55 x56 x57 x58 x59 x60 x61 x62 x63 x64 x65 x66 x67 x70 x69 x72 x71 x74 x73 x76 x75 x77 x78 x79 x80 x81 x82 x84 x85 x86 x87 x88 x89 x90 x91 x92 x94 x93 x96 x95 x98 x97 x100 x99 x101 x102 x103 x104 x105 x106 x107 x108 x109 x110 x111 x112 x113 x114 x115 x118 x117 x120 x119 x122 x121 x124 x123 x125 x126 x127 x128 x129 x130 x132 x133 x134 x135 x136 x137 x138 x139 x140 x142 x141 x144 x143 x146 x145 x148 x147 x149 x150 x151 x152 x153 x154 x155 x156 x157 x158 x159 x160 x161 x162 x163 x166 x165 x168 x167 x170 x169 x172 x171 x173 x174 x175 x176 x177 x178 x180 x181 x182 x183 x184 x185 x186 x187 x188 x189 x190 x191 x192 x193 x194 x195 x196 x198 x199 x200 x201 x202
  have R0 : L5 [x11, x13, x15, x17, (x18 + x6) % 18446744073709551616] (a0 * v4 0x901192af7c114f20 0x3464504ade6fa2fa 0x620fc84c3affe0d4 0x1eb5e412a22b3d3b) :=
    mulRow_spec ha0 hc0 hc1 hc2 hc3
  have Q0 : L5 [x27, x29, x31, x33, (x34 + x22) % 18446744073709551616] (x19 * 115792089210356248756420345214020892766061623724957744567843809356293439045923) := nRow_spec (mul64lo_lt _ _)
  obtain ⟨v1, T1, hv1, e1⟩ := step0_abs R0 Q0 rfl ha0 hB
  have T1' : L5 [x37, x39, x41, x43, x44] v1 := T1
  have R1 : L5 [x51, x53, x55, x57, (x58 + x46) % 18446744073709551616] (a1 * v4 0x901192af7c114f20 0x3464504ade6fa2fa 0x620fc84c3affe0d4 0x1eb5e412a22b3d3b) := mulRow_spec ha1 hc0 hc1 hc2 hc3
  have A1 : L5 [x59, x61, x63, x65, ((x66 + x44) % 18446744073709551616 + (x58 + x46) % 18446744073709551616) % 18446744073709551616] (v1 + a1 * v4 0x901192af7c114f20 0x3464504ade6fa2fa 0x620fc84c3affe0d4 0x1eb5e412a22b3d3b) :=
    addRow5_mont T1' R1 hv1 ha1 hB
  have Q1 : L5 [x75, x77, x79, x81, (x82 + x70) % 18446744073709551616] (x67 * 115792089210356248756420345214020892766061623724957744567843809356293439045923) := nRow_spec (mul64lo_lt _ _)
  obtain ⟨v2, T2, hv2, e2⟩ := step5_abs A1 Q1 rfl hv1 ha1 hB
  have T2' : L5 [x85, x87, x89, x91, x92] v2 := T2
  have R2 : L5 [x99, x101, x103, x105, (x106 + x94) % 18446744073709551616] (a2 * v4 0x901192af7c114f20 0x3464504ade6fa2fa 0x620fc84c3affe0d4 0x1eb5e412a22b3d3b) := mulRow_spec ha2 hc0 hc1 hc2 hc3
  have A2 : L5 [x107, x109, x111, x113, ((x114 + x92) % 18446744073709551616 + (x106 + x94) % 18446744073709551616) % 18446744073709551616] (v2 + a2 * v4 0x901192af7c114f20 0x3464504ade6fa2fa 0x620fc84c3affe0d4 0x1eb5e412a22b3d3b) :=
    addRow5_mont T2' R2 hv2 ha2 hB
  have Q2 : L5 [x123, x125, x127, x129, (x130 + x118) % 18446744073709551616] (x115 * 115792089210356248756420345214020892766061623724957744567843809356293439045923) := nRow_spec (mul64lo_lt _ _)
  obtain ⟨v3, T3, hv3, e3⟩ := step5_abs A2 Q2 rfl hv2 ha2 hB
  have T3' : L5 [x133, x135, x137, x139, x140] v3 := T3
  have R3 : L5 [x147, x149, x151, x153, (x154 + x142) % 18446744073709551616] (a3 * v4 0x901192af7c114f20 0x3464504ade6fa2fa 0x620fc84c3affe0d4 0x1eb5e412a22b3d3b) := mulRow_spec ha3 hc0 hc1 hc2 hc3
  have A3 : L5 [x155, x157, x159, x161, ((x162 + x140) % 18446744073709551616 + (x154 + x142) % 18446744073709551616) % 18446744073709551616] (v3 + a3 * v4 0x901192af7c114f20 0x3464504ade6fa2fa 0x620fc84c3affe0d4 0x1eb5e412a22b3d3b) :=
    addRow5_mont T3' R3 hv3 ha3 hB
  have Q3 : L5 [x171, x173, x175, x177, (x178 + x166) % 18446744073709551616] (x163 * 115792089210356248756420345214020892766061623724957744567843809356293439045923) := nRow_spec (mul64lo_lt _ _)
  obtain ⟨v4', T4, hv4, e4⟩ := step5_abs A3 Q3 rfl hv3 ha3 hB
  have T4' : L5 [x181, x183, x185, x187, x188] v4' := T4
  exact ⟨x181, x183, x185, x187, x188, v4', _, rfl, T4', hv4, mont_compose e1 e2 e3 e4⟩

/-- **to the Montgomery domain mod n** (only the limb bounds of the input are needed) -/
theorem toMontgomery_spec' (a : List Nat) (ha : Limbs4 a) :
    Canon Spec.SM2.n (Gen.FiatN.sm2ScalarToMontgomery a) ∧
      eval (Gen.FiatN.sm2ScalarToMontgomery a) = (eval a * 2 ^ 256) % Spec.SM2.n := by
  obtain ⟨a0, a1, a2, a3, rfl, ha0, ha1, ha2, ha3⟩ := limbs4_cases ha
  obtain ⟨t0, t1, t2, t3, t4, v, k, hfn, hT, hv, hk⟩ := toMontgomery_core ha0 ha1 ha2 ha3
  have hc := condSub_spec (m0 := 0x53bbf40939d54123) (m1 := 0x7203df6b21c6052b) (m2 := 0xffffffffffffffff)
    (m3 := 0xfffffffeffffffff) (by decide) (by decide) (by decide) (by decide) hT hv
  rw [← hfn, ← n_eq] at hc
  refine ⟨hc.1, ?_⟩
  have hres := mont_residue hk hc.2
  rw [pow256, eval_four]
  have hlt : eval (Gen.FiatN.sm2ScalarToMontgomery [a0, a1, a2, a3]) < Spec.SM2.n := hc.1.2.2
  generalize eval (Gen.FiatN.sm2ScalarToMontgomery [a0, a1, a2, a3]) = o at *
  have hp : Spec.SM2.n = 115792089210356248756420345214020892766061623724957744567843809356293439045923 := by decide
  rw [hp] at hlt ⊢
  rw [rr_n, Nat.mul_mod_mod, ← Nat.mul_assoc] at hres
  have := mod_cancel hres rinv_n
  rw [Nat.mod_eq_of_lt hlt] at this
  exact this

theorem toMontgomery_spec (a : List Nat) (ha : Canon Spec.SM2.n a) :
    Canon Spec.SM2.n (Gen.FiatN.sm2ScalarToMontgomery a) ∧
      eval (Gen.FiatN.sm2ScalarToMontgomery a) = (eval a * 2 ^ 256) % Spec.SM2.n :=
  toMontgomery_spec' a ha.limbs4

/-! ### FromMontgomery -/

theorem fm_addA {u0 u1 u2 u3 a v : Nat} (T : L4 [u0, u1, u2, u3] v) (hv : v ≤ 115792089210356248756420345214020892766061623724957744567843809356293439045923) (ha : a < 18446744073709551616) :
    L4 (addA4 u0 u1 u2 u3 a) (v + a) := addA4_spec T ha (by omega)

theorem fm_abs {s0 s1 s2 s3 q0 q1 q2 q3 q4 q v a : Nat}
    (A : L4 [s0, s1, s2, s3] (v + a)) (Q : L5 [q0, q1, q2, q3, q4] (q * 115792089210356248756420345214020892766061623724957744567843809356293439045923))
    (hq : q = mul64lo s0 0x327f9e8872350975) (hv : v ≤ 115792089210356248756420345214020892766061623724957744567843809356293439045923) (ha : a < 18446744073709551616) :
    ∃ v', L4 (redAdd4 s0 s1 s2 s3 q0 q1 q2 q3 q4) v' ∧ v' ≤ 115792089210356248756420345214020892766061623724957744567843809356293439045923 ∧ v' * 18446744073709551616 = v + a + q * 115792089210356248756420345214020892766061623724957744567843809356293439045923 := by
  have hs := A.head_eq
  unfold mul64lo at hq
  have hz : (v + a + q * 115792089210356248756420345214020892766061623724957744567843809356293439045923) % 18446744073709551616 = 0 := by omega
  have h := redAdd4_spec A Q hz (by omega)
  refine ⟨_, h, ?_, ?_⟩ <;> omega

set_option maxRecDepth 100000 in
theorem fromMontgomery_core {a0 a1 a2 a3 : Nat}
    (ha0 : a0 < 18446744073709551616) (ha1 : a1 < 18446744073709551616) (ha2 : a2 < 18446744073709551616) (ha3 : a3 < 18446744073709551616) :
    ∃ t0 t1 t2 t3 v k, Gen.FiatN.sm2ScalarFromMontgomery [a0, a1, a2, a3] = condSub 0x53bbf40939d54123 0x7203df6b21c6052b 0xffffffffffffffff 0xfffffffeffffffff t0 t1 t2 t3 0 ∧
      L4 [t0, t1, t2, t3] v ∧ v ≤ 115792089210356248756420345214020892766061623724957744567843809356293439045923 ∧ v * 115792089237316195423570985008687907853269984665640564039457584007913129639936 = v4 a0 a1 a2 a3 + k * 115792089210356248756420345214020892766061623724957744567843809356293439045923 := by
  have hz : (0 : Nat) < 18446744073709551616 := by decide
  have hzp : (0 : Nat) ≤ 115792089210356248756420345214020892766061623724957744567843809356293439045923 := by decide
  unfold Gen.FiatN.sm2ScalarFromMontgomery
  extract_lets -merge x1 x2 x5 x4 x7 x6 x9 x8 x11 x10 x12 x13 x14 x15 x16 x17 x19 x20 x21 x22 x23 x24 x25 x26 x27 x28 x29 x30 x31 x32 x35 x34 x37 x36 x39 x38 x41 x40 x42 x43 x44 x45 x46 x47 x49 x50 x51 x52 x53 x54 x55 x56 x57 x58 x59 x60 x61 x62 x65 x64 x67 x66 x69 x68 x71 x70 x72 x73 x74 x75 x76 x77 x79 x80 x81 x82 x83 x84 x85 x86 x87 x88 x89 x90 x91 x92 x95 x94 x97 x96 x99 x98 x101 x100 x102 x103 x104 x105 x106 x107 x109 x110 x111 x112 x113 x114 x115 x116 x117 x118 x119 x120 x121 x122 x123 x124 x126 x127 x128 x129 x130
  have A0 : L4 [x1, 0, 0, 0] (0 + a0) := by
    have h := L4.mk ha0 hz hz hz
    have e : v4 a0 0 0 0 = 0 + a0 := by simp [v4]
    rw [e] at h; exact h
  have Q0 : L5 [x10, x12, x14, x16, (x17 + x5) % 18446744073709551616] (x2 * 115792089210356248756420345214020892766061623724957744567843809356293439045923) := nRow_spec (mul64lo_lt _ _)
  obtain ⟨v1, T1, hv1, e1⟩ := fm_abs A0 Q0 rfl hzp ha0
  have T1' : L4 [x20, x22, x24, (x25 + (x17 + x5) % 18446744073709551616) % 18446744073709551616] v1 := T1
  have A1 : L4 [x26, x28, x30, (x31 + (x25 + (x17 + x5) % 18446744073709551616) % 18446744073709551616) % 18446744073709551616] (v1 + a1) := fm_addA T1' hv1 ha1
  have Q1 : L5 [x40, x42, x44, x46, (x47 + x35) % 18446744073709551616] (x32 * 115792089210356248756420345214020892766061623724957744567843809356293439045923) := nRow_spec (mul64lo_lt _ _)
  obtain ⟨v2, T2, hv2, e2⟩ := fm_abs A1 Q1 rfl hv1 ha1
  have T2' : L4 [x50, x52, x54, (x55 + (x47 + x35) % 18446744073709551616) % 18446744073709551616] v2 := T2
  have A2 : L4 [x56, x58, x60, (x61 + (x55 + (x47 + x35) % 18446744073709551616) % 18446744073709551616) % 18446744073709551616] (v2 + a2) := fm_addA T2' hv2 ha2
  have Q2 : L5 [x70, x72, x74, x76, (x77 + x65) % 18446744073709551616] (x62 * 115792089210356248756420345214020892766061623724957744567843809356293439045923) := nRow_spec (mul64lo_lt _ _)
  obtain ⟨v3, T3, hv3, e3⟩ := fm_abs A2 Q2 rfl hv2 ha2
  have T3' : L4 [x80, x82, x84, (x85 + (x77 + x65) % 18446744073709551616) % 18446744073709551616] v3 := T3
  have A3 : L4 [x86, x88, x90, (x91 + (x85 + (x77 + x65) % 18446744073709551616) % 18446744073709551616) % 18446744073709551616] (v3 + a3) := fm_addA T3' hv3 ha3
  have Q3 : L5 [x100, x102, x104, x106, (x107 + x95) % 18446744073709551616] (x92 * 115792089210356248756420345214020892766061623724957744567843809356293439045923) := nRow_spec (mul64lo_lt _ _)
  obtain ⟨v4', T4, hv4, e4⟩ := fm_abs A3 Q3 rfl hv3 ha3
  have T4' : L4 [x110, x112, x114, x116] v4' := T4
  exact ⟨x110, x112, x114, x116, v4', _, rfl, T4', hv4, mont_compose1 e1 e2 e3 e4⟩

/-- **from the Montgomery domain mod n** (only the limb bounds of the input are needed) -/
theorem fromMontgomery_spec' (a : List Nat) (ha : Limbs4 a) :
    Canon Spec.SM2.n (Gen.FiatN.sm2ScalarFromMontgomery a) ∧
      (eval (Gen.FiatN.sm2ScalarFromMontgomery a) * 2 ^ 256) % Spec.SM2.n = eval a % Spec.SM2.n := by
  obtain ⟨a0, a1, a2, a3, rfl, ha0, ha1, ha2, ha3⟩ := limbs4_cases ha
  obtain ⟨t0, t1, t2, t3, v, k, hfn, hT, hv, hk⟩ := fromMontgomery_core ha0 ha1 ha2 ha3
  have hc := condSub_spec (m0 := 0x53bbf40939d54123) (m1 := 0x7203df6b21c6052b) (m2 := 0xffffffffffffffff)
    (m3 := 0xfffffffeffffffff) (by decide) (by decide) (by decide) (by decide) hT.to_L5
    (by rw [← n_eq]; have hp : Spec.SM2.n = 115792089210356248756420345214020892766061623724957744567843809356293439045923 := by decide
        rw [hp]; omega)
  rw [← hfn, ← n_eq] at hc
  refine ⟨hc.1, ?_⟩
  rw [pow256, eval_four, hc.2, Nat.mod_mul_mod, hk]
  have hp : Spec.SM2.n = 115792089210356248756420345214020892766061623724957744567843809356293439045923 := by decide
  rw [hp, Nat.add_mul_mod_self_right]

theorem fromMontgomery_spec (a : List Nat) (ha : Canon Spec.SM2.n a) :
    Canon Spec.SM2.n (Gen.FiatN.sm2ScalarFromMontgomery a) ∧
      (eval (Gen.FiatN.sm2ScalarFromMontgomery a) * 2 ^ 256) % Spec.SM2.n = eval a % Spec.SM2.n :=
  fromMontgomery_spec' a ha.limbs4

end SMGo.Proofs.FiatMontN
