/-
  Property C18, SM2 part — the GENERATED curve parameters (`Gen/SM2Params.lean`, from
  sm2/internal/sm2_curve.go) are the parameters of the specification, and the generated `zBytes`
  is a ‖ b ‖ Gx ‖ Gy in 32-byte big-endian form.  Core Lean only.
-/
import SMGo.Spec.SM2
import SMGo.Gen.SM2Params
namespace SMGo.Proofs.Tables
open SMGo

theorem params_eq :
    Gen.SM2Params.param_P = Spec.SM2.p ∧
    Gen.SM2Params.param_N = Spec.SM2.n ∧
    Gen.SM2Params.param_B = Spec.SM2.b ∧
    Gen.SM2Params.param_Gx = Spec.SM2.Gx ∧
    Gen.SM2Params.param_Gy = Spec.SM2.Gy := by decide

theorem zBytesLen_eq : Gen.SM2Params.zBytesLen = 128 := by decide

theorem zBytes_eq :
    Bytes.ofNatBE Gen.SM2Params.zBytesLen Gen.SM2Params.zBytesVal =
      Bytes.ofNatBE 32 Spec.SM2.a ++ Bytes.ofNatBE 32 Spec.SM2.b ++
        Bytes.ofNatBE 32 Spec.SM2.Gx ++ Bytes.ofNatBE 32 Spec.SM2.Gy := by decide +kernel

end SMGo.Proofs.Tables
