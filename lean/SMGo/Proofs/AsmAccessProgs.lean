/-
  C11 (memory safety, PARTIAL): the RESOLVED programs of the amd64 routines as literal terms.

  `AsmAccess.compile` turns a generated listing into the small instruction form the interpreter steps through.
  Evaluating it inside the kernel is dominated by mnemonic STRING comparisons (≈ 15 s for sealAsm), so it is
  done ONCE per routine: `run_cmd addResolved name (compile symNames <listing>)` evaluates the resolved program
  with the compiled code at elaboration time, turns the VALUE into a term with `ToExpr`, and adds it as an ordinary,
  kernel-checked definition `name : Prog`.  The theorem `name_eq : name = compile symNames <listing>` is
  then proved by `decide +kernel`, i.e. the kernel itself re-evaluates `compile` on the generated listing and
  compares: nothing about the literal is trusted.  All later evaluation goes through the literal.

  Nothing here bypasses the kernel: `run_cmd` runs ordinary Lean code whose only effect is `addDecl` of a
  definition that the kernel checks like any other, and the equations are kernel evaluations.
-/
import Lean
import SMGo.Model.AsmAccessModel
import SMGo.Gen.ListAmd64Asm
import SMGo.Gen.ListAmd64Gcm
import SMGo.Gen.ListAmd64Helper

namespace SMGo.Proofs.AsmAccessProgs
open Lean SMGo.Model.AsmAccess SMGo.Model.AsmAccessModel SMGo.Gen

deriving instance ToExpr for Alu
deriving instance ToExpr for Cond
deriving instance ToExpr for Q
deriving instance ToExpr for G
deriving instance ToExpr for Wd
deriving instance ToExpr for COpd
deriving instance ToExpr for CI
deriving instance ToExpr for CInstr

/-- add `def name : Prog := <literal value of p>` -/
def addResolved (name : Name) (p : Prog) : Lean.Elab.Command.CommandElabM Unit :=
  Lean.Elab.Command.liftCoreM <|
    addAndCompile (.defnDecl
      { name := name, levelParams := [], type := toTypeExpr (List (List CInstr)),
        value := toExpr (α := List (List CInstr)) p, hints := .abbrev, safety := .safe })

run_cmd addResolved `SMGo.Proofs.AsmAccessProgs.expandKeyProg (compile symNames ListAmd64Asm.expandKeyAsm)
run_cmd addResolved `SMGo.Proofs.AsmAccessProgs.blockProg (compile symNames ListAmd64Asm.cryptoBlockAsm)
run_cmd addResolved `SMGo.Proofs.AsmAccessProgs.blockX2Prog (compile symNames ListAmd64Asm.cryptoBlockAsmX2)
run_cmd addResolved `SMGo.Proofs.AsmAccessProgs.blockX4Prog (compile symNames ListAmd64Asm.cryptoBlockAsmX4)
run_cmd addResolved `SMGo.Proofs.AsmAccessProgs.blockX8Prog (compile symNames ListAmd64Asm.cryptoBlockAsmX8)
run_cmd addResolved `SMGo.Proofs.AsmAccessProgs.blockX16Prog (compile symNames ListAmd64Asm.cryptoBlockAsmX16)
run_cmd addResolved `SMGo.Proofs.AsmAccessProgs.gHashProg (compile symNames ListAmd64Gcm.gHashBlocks)
run_cmd addResolved `SMGo.Proofs.AsmAccessProgs.sealProg (compile symNames ListAmd64Gcm.sealAsm)
run_cmd addResolved `SMGo.Proofs.AsmAccessProgs.openProg (compile symNames ListAmd64Gcm.openAsm)
run_cmd addResolved `SMGo.Proofs.AsmAccessProgs.needExpandProg (compile symNames ListAmd64Helper.needExpand)
run_cmd addResolved `SMGo.Proofs.AsmAccessProgs.copyProg (compile symNames ListAmd64Helper.copyAsm)
run_cmd addResolved `SMGo.Proofs.AsmAccessProgs.transpose4x4Prog (compile symNames ListAmd64Helper.transpose4x4)
run_cmd addResolved `SMGo.Proofs.AsmAccessProgs.transpose2x4Prog (compile symNames ListAmd64Helper.transpose2x4)
run_cmd addResolved `SMGo.Proofs.AsmAccessProgs.transpose1x4Prog (compile symNames ListAmd64Helper.transpose1x4)
run_cmd addResolved `SMGo.Proofs.AsmAccessProgs.concatXProg (compile symNames ListAmd64Helper.concatenateX)
run_cmd addResolved `SMGo.Proofs.AsmAccessProgs.concatYProg (compile symNames ListAmd64Helper.concatenateY)
run_cmd addResolved `SMGo.Proofs.AsmAccessProgs.ctCompareProg (compile symNames ListAmd64Helper.constantTimeCompareAsm)

set_option maxRecDepth 100000

theorem expandKeyProg_eq : expandKeyProg = compile symNames ListAmd64Asm.expandKeyAsm := by decide +kernel
theorem blockProg_eq : blockProg = compile symNames ListAmd64Asm.cryptoBlockAsm := by decide +kernel
theorem blockX2Prog_eq : blockX2Prog = compile symNames ListAmd64Asm.cryptoBlockAsmX2 := by decide +kernel
theorem blockX4Prog_eq : blockX4Prog = compile symNames ListAmd64Asm.cryptoBlockAsmX4 := by decide +kernel
theorem blockX8Prog_eq : blockX8Prog = compile symNames ListAmd64Asm.cryptoBlockAsmX8 := by decide +kernel
theorem blockX16Prog_eq : blockX16Prog = compile symNames ListAmd64Asm.cryptoBlockAsmX16 := by decide +kernel
theorem gHashProg_eq : gHashProg = compile symNames ListAmd64Gcm.gHashBlocks := by decide +kernel
theorem sealProg_eq : sealProg = compile symNames ListAmd64Gcm.sealAsm := by decide +kernel
theorem openProg_eq : openProg = compile symNames ListAmd64Gcm.openAsm := by decide +kernel
theorem needExpandProg_eq : needExpandProg = compile symNames ListAmd64Helper.needExpand := by decide +kernel
theorem copyProg_eq : copyProg = compile symNames ListAmd64Helper.copyAsm := by decide +kernel
theorem transpose4x4Prog_eq : transpose4x4Prog = compile symNames ListAmd64Helper.transpose4x4 := by
  decide +kernel
theorem transpose2x4Prog_eq : transpose2x4Prog = compile symNames ListAmd64Helper.transpose2x4 := by
  decide +kernel
theorem transpose1x4Prog_eq : transpose1x4Prog = compile symNames ListAmd64Helper.transpose1x4 := by
  decide +kernel
theorem concatXProg_eq : concatXProg = compile symNames ListAmd64Helper.concatenateX := by decide +kernel
theorem concatYProg_eq : concatYProg = compile symNames ListAmd64Helper.concatenateY := by decide +kernel
theorem ctCompareProg_eq : ctCompareProg = compile symNames ListAmd64Helper.constantTimeCompareAsm := by
  decide +kernel

/-- No resolved program contains an instruction outside the interpreted fragment. -/
def noUnsupported (p : Prog) : Bool :=
  p.all (fun ch => ch.all (fun c => match c.ci with | .unsupported => false | _ => true))

theorem all_supported :
    [expandKeyProg, blockProg, blockX2Prog, blockX4Prog, blockX8Prog, blockX16Prog, gHashProg, sealProg,
     openProg, needExpandProg, copyProg, transpose4x4Prog, transpose2x4Prog, transpose1x4Prog, concatXProg,
     concatYProg, ctCompareProg].all noUnsupported = true := by decide +kernel

end SMGo.Proofs.AsmAccessProgs
