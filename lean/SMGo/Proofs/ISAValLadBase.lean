import SMGo.Proofs.ISAValFusedFill
set_option linter.unusedSimpArgs false
namespace SMGo.Proofs.ISAVal
open SMGo.Model.ISAVal SMGo.Model.GCM SMGo.Proofs.GCM SMGo.Proofs.ISATouch
open SMGo.Model.ISA (Reg Opd Instr)

/-! ### frame conditions of blocks that store -/

/-- no instruction of the block writes a register of `G`, `V`, `K` or a frame slot (memory may change) -/
def leavesM (G V K : List Nat) (d : DInstr) : Bool :=
  match touchesOf d with
  | some t =>
    t.writes.all (fun r => match r with
      | .gpr n => !G.contains n
      | .vec n => !V.contains n
      | .k n => !K.contains n) && t.fstore.isEmpty
  | none => false

def writesNoneM (code : List DInstr) (G V K : List Nat) : Bool := code.all (leavesM G V K)

theorem keepsM_step {G V K : List Nat} {d : DInstr} {s s' : State} (hl : leavesM G V K d = true) (h : execD s d = .ok s') :
    KeepsM G V K s s' := by
  unfold leavesM at hl
  cases ht : touchesOf d with
  | none => rw [ht] at hl; cases hl
  | some t =>
    rw [ht] at hl
    simp only [Bool.and_eq_true, Bool.not_eq_true', List.isEmpty_iff, List.all_eq_true] at hl
    obtain ⟨hw, hfs⟩ := hl
    have f := touches_frame ht h
    refine ⟨f.lenG, f.lenV, f.lenK, ?_, ?_, ?_, f.syms, f.frame hfs⟩
    · intro n hn
      apply rv_greg
      apply f.regs
      intro hr
      have := hw _ hr
      simp only [Bool.not_eq_true'] at this
      rw [List.contains_iff_mem.mpr hn] at this; cases this
    · intro n hn
      apply rv_vreg
      apply f.regs
      intro hr
      have := hw _ hr
      simp only [Bool.not_eq_true'] at this
      rw [List.contains_iff_mem.mpr hn] at this; cases this
    · intro n hn
      apply rv_kreg
      apply f.regs
      intro hr
      have := hw _ hr
      simp only [Bool.not_eq_true'] at this
      rw [List.contains_iff_mem.mpr hn] at this; cases this

theorem keepsM_of_exec {G V K : List Nat} (code : List DInstr) {s s' : State} (hw : writesNoneM code G V K = true)
    (h : execList code s = .ok s') : KeepsM G V K s s' := by
  induction code generalizing s with
  | nil => cases h; exact KeepsM.rfl' _ _ _ _
  | cons d rest ih =>
    unfold writesNoneM at hw
    rw [List.all_cons, Bool.and_eq_true] at hw
    unfold execList at h
    cases hx : execD s d with
    | error e => rw [hx] at h; cases h
    | ok s1 =>
      rw [hx] at h
      exact (keepsM_step hw.1 hx).trans (ih hw.2 h)

/-! ### counter blocks -/

/-- the counter block `k` steps after `jb`: the last four bytes incremented as a big-endian number -/
def ctrBlk (jb : List Nat) (k : Nat) : List Nat := jb.take 12 ++ beBytes ((wordAt jb 12 + k) % 2 ^ 32)

theorem ctrBlk_length (jb : List Nat) (hjb : jb.length = 16) (k : Nat) : (ctrBlk jb k).length = 16 := by
  simp [ctrBlk, beBytes, hjb]

theorem ctrBlk_bytes (jb : List Nat) (hb : ∀ x ∈ jb, x < 2 ^ 8) (k : Nat) : ∀ x ∈ ctrBlk jb k, x < 2 ^ 8 := by
  intro x hx
  unfold ctrBlk at hx
  rw [List.mem_append] at hx
  rcases hx with h | h
  · exact hb x (List.mem_of_mem_take h)
  · simp only [beBytes, List.mem_cons, List.not_mem_nil, or_false] at h
    rcases h with rfl | rfl | rfl | rfl <;> exact lane_lt 8 _ _

theorem bswap32_lt' (w : Nat) : bswap32 w < 2 ^ 32 := by
  unfold bswap32
  have := unlanes_lt 8 [lane 8 3 w, lane 8 2 w, lane 8 1 w, lane 8 0 w] (by
    intro x hx; simp only [List.mem_cons, List.not_mem_nil, or_false] at hx
    rcases hx with rfl | rfl | rfl | rfl <;> exact lane_lt 8 _ _)
  exact this

theorem wordAt_lt (src : List Nat) (o : Nat) : wordAt src o < 2 ^ 32 := bswap32_lt' _

theorem Wblk_qlt (src : List Nat) (β : Nat) : QLt (Wblk src β) := ⟨wordAt_lt _ _, wordAt_lt _ _, wordAt_lt _ _, wordAt_lt _ _⟩

theorem wordAt_beBytes (x : Nat) (hx : x < 2 ^ 32) : bswap32 (unlanes 8 (beBytes x)) = x := by
  have h0 := lane_lt 8 0 x; have h1 := lane_lt 8 1 x; have h2 := lane_lt 8 2 x; have h3 := lane_lt 8 3 x
  unfold beBytes
  rw [bswap32_unlanes _ _ _ _ h3 h2 h1 h0]
  unfold beWord
  have := unlanes_lanes 8 4 x
  rw [lanes84] at this
  rw [this]; exact Nat.mod_eq_of_lt hx

theorem ctrBlk_W (jb : List Nat) (hjb : jb.length = 16) (k : Nat) : Wblk (ctrBlk jb k) 0 = ctrW (Wblk jb 0) k := by
  obtain ⟨j0, j1, j2, j3, j4, j5, j6, j7, j8, j9, j10, j11, j12, j13, j14, j15, rfl⟩ := list16 jb hjb
  unfold Wblk ctrW ctrBlk
  simp only [Nat.mul_zero, Nat.zero_add, List.take_succ_cons, List.take_zero, List.cons_append, List.nil_append]
  refine Prod.ext rfl (Prod.ext rfl (Prod.ext rfl ?_))
  simp only [wordAt, List.drop_succ_cons, List.drop_zero, beBytes, List.take_succ_cons, List.take_zero]
  exact wordAt_beBytes _ (Nat.mod_lt _ (by decide))

/-- the kernel output for a counter quad is the encryption of the counter block -/
theorem encQ_ctr (rk jb : List Nat) (hrkb : ∀ x ∈ rk, x < 2 ^ 32) (hjb : jb.length = 16) (hb : ∀ x ∈ jb, x < 2 ^ 8) (k : Nat) :
    encQ (rk.foldl stepN (ctrW (Wblk jb 0) k)) = encB rk (ctrBlk jb k) := by
  rw [← ctrBlk_W jb hjb k, encQ_eq_spec rk (ctrBlk jb k) hrkb (ctrBlk_bytes jb hb k) 0 (by rw [ctrBlk_length jb hjb]; omega)]
  unfold encB blockAt
  rw [Nat.mul_zero, List.drop_zero, List.take_of_length_le (by rw [ctrBlk_length jb hjb]; omega)]

/-! ### xor of byte strings -/

def xorN (a b : List Nat) : List Nat := List.zipWith (· ^^^ ·) a b

theorem lanes8_xor (n a b : Nat) : lanes 8 n (a ^^^ b) = xorN (lanes 8 n a) (lanes 8 n b) := by
  apply List.ext_getElem
  · simp [xorN, lanes_length]
  · intro i h1 h2
    simp only [xorN, List.getElem_zipWith, getElem_lanes, lane_xor]

theorem xorN_append (a b c d : List Nat) (h : a.length = c.length) : xorN (a ++ b) (c ++ d) = xorN a c ++ xorN b d := by
  unfold xorN; exact List.zipWith_append h

theorem xorN_length (a b : List Nat) : (xorN a b).length = min a.length b.length := by simp [xorN]

theorem xorN_bytes (a b : List Nat) (ha : ∀ x ∈ a, x < 2 ^ 8) (hb : ∀ x ∈ b, x < 2 ^ 8) : ∀ x ∈ xorN a b, x < 2 ^ 8 := by
  intro x hx
  unfold xorN at hx
  rw [List.mem_iff_getElem] at hx
  obtain ⟨i, hi, rfl⟩ := hx
  rw [List.getElem_zipWith]
  simp only [List.length_zipWith] at hi
  exact Nat.xor_lt_two_pow (ha _ (List.getElem_mem _)) (hb _ (List.getElem_mem _))

/-- key stream of an `n`-block class after `c` blocks: E on the counter blocks c+1 … c+n -/
def ksN (rk jb : List Nat) (c n : Nat) : List Nat := (List.range n).flatMap (fun i => encB rk (ctrBlk jb (c + i + 1)))

theorem ksN_length (rk jb : List Nat) (c n : Nat) : (ksN rk jb c n).length = 16 * n := by
  unfold ksN
  induction n with
  | zero => rfl
  | succ m ih => rw [List.range_succ, List.flatMap_append, List.length_append, ih]; simp [encB_length]; omega

theorem ksN_bytes (rk jb : List Nat) (c n : Nat) : ∀ x ∈ ksN rk jb c n, x < 2 ^ 8 := by
  intro x hx
  unfold ksN at hx
  rw [List.mem_flatMap] at hx
  obtain ⟨i, _, hi⟩ := hx
  exact encB_bytes _ _ x hi

/-- the input of the ladder is readable from offset `o` on (in the in-place call the bytes before `o` have been overwritten) -/
def SrcFrom (mem : List Region) (sp : Nat) (src : List Nat) (o : Nat) : Prop :=
  ∀ off n, o ≤ off → off + n ≤ src.length → readMem mem (sp + off) n = .ok ((src.drop off).take n)

theorem SrcFrom.ofData {mem : List Region} {sp : Nat} {src : List Nat} (h : DataAt mem sp src) (o : Nat) : SrcFrom mem sp src o :=
  fun off n _ hn => h off n hn

theorem SrcFrom.mono {mem : List Region} {sp : Nat} {src : List Nat} {o : Nat} (h : SrcFrom mem sp src o) (o' : Nat) (ho : o ≤ o') :
    SrcFrom mem sp src o' := fun off n h1 hn => h off n (by omega) hn

theorem SrcFrom.toData {mem : List Region} {sp : Nat} {src : List Nat} {o : Nat} (h : SrcFrom mem sp src o) (ho : o ≤ src.length) :
    DataAt mem (sp + o) (src.drop o) := by
  intro off n hn
  rw [List.length_drop] at hn
  rw [Nat.add_assoc, h (o + off) n (by omega) (by omega), List.drop_drop]

end SMGo.Proofs.ISAVal
