import SMGo.Proofs.ISAValLadX0In
set_option linter.unusedSimpArgs false
namespace SMGo.Proofs.ISAVal
open SMGo.Model.ISAVal SMGo.Model.GCM SMGo.Proofs.GCM SMGo.Proofs.ISATouch
open SMGo.Model.ISA (Reg Opd Instr)

theorem a_addq_rr (s : State) (a d : Nat) (ha : a < s.gpr.length) (hd : d < s.gpr.length) (hav : greg s a < 2 ^ 64) (hdv : greg s d < 2 ^ 64) :
    execD s (ins .ADDQ [G a, G d] 0)
      = .ok (setFlags (setGreg s d ((greg s d + greg s a) % 2 ^ 64)) (addF 8 (greg s d) (greg s a)).2) := by
  obtain ⟨g, vv, k, fl, mem, syms, frame⟩ := s
  have hga := getElem?_getD g a ha
  have hgd := getElem?_getD g d hd
  have hd' : d < g.length := hd
  simp only [greg] at hav hdv
  simp only [execD, ins, G, exAlu, aluWidth, getG, hga, hgd, ok_bind, pure_eq_ok, alu, withFlags, setG, if_pos hd', Except.map,
    setGreg, setFlags, greg, true_or, or_true, if_true, Nat.mod_eq_of_lt hav, Nat.mod_eq_of_lt hdv, mergeG, addF]
  simp [Nat.mod_mod]

/-- `loopX0`: xor in the scratch block -/
def xsTCode : List DInstr :=
  [ins .VMOVDQU32 [M 6 0, R 0] 16, ins .VPXORD [R 0, R 9, R 9] 16, ins .VMOVDQU32 [R 9, M 6 0] 16]

set_option maxRecDepth 100000 in
set_option maxHeartbeats 1000000 in
theorem xsT_spec (s : State) (hG : s.gpr.length = 16) (hV : s.vec.length = 32) (Mf : List Nat → List Region) (tbase : Nat)
    (bf : Buf Mf tbase 32) (b0 : List Nat) (hb0 : b0.length = 32) (toff : Nat) (hbb : ∀ x ∈ (b0.drop toff).take 16, x < 2 ^ 8) (hm : s.mem = Mf b0)
    (hto : toff + 16 ≤ 32) (h6 : greg s 6 = tbase + toff) (htb : tbase + 32 < 2 ^ 63)
    (ks0 : List Nat) (h9 : vreg s 9 < 2 ^ (8 * 16) ∧ lanes 8 16 (vreg s 9) = ks0 ∧ ks0.length = 16 ∧ ∀ x ∈ ks0, x < 2 ^ 8) :
    ∃ s', execList xsTCode s = .ok s' ∧ s'.mem = Mf (spliceAt b0 toff (xorN ((b0.drop toff).take 16) ks0)) := by
  have h16 : validVl 16 = true := by decide
  obtain ⟨gpr, vec, k, fl, mem, syms, frame⟩ := s
  simp only at hG hV hm
  obtain ⟨a0, a1, a2, a3, a4, a5, a6, a7, a8, a9, a10, a11, a12, a13, a14, a15, rfl⟩ := list16 gpr hG
  obtain ⟨b0', b1, b2, b3, b4, b5, b6, b7, b8, b9, b10, b11, b12, b13, b14, b15, b16, b17, b18, b19, b20, b21, b22, b23, b24, b25, b26, b27, b28, b29, b30, b31, rfl⟩ := list32 vec hV
  simp only [greg, List.getD_cons_succ, List.getD_cons_zero] at h6
  subst h6 hm
  simp only [vreg, List.getD_cons_succ, List.getD_cons_zero] at h9
  let c0 := (b0.drop toff).take 16
  have hc0 : c0.length = 16 ∧ ∀ x ∈ c0, x < 2 ^ 8 :=
    ⟨by show ((b0.drop toff).take 16).length = 16; rw [List.length_take, List.length_drop]; omega,
      hbb⟩
  have hrd : readMem (Mf b0) (tbase + toff) 16 = .ok c0 := bf.rd b0 toff 16 hb0 (by omega)
  have x0 := vpxord_bytes 16 c0 ks0 b9 (by decide) hc0.1 hc0.2 h9.1 h9.2.1
  let o0 := xorN c0 ks0
  have l0 : o0.length = 16 := by show (xorN _ _).length = 16; rw [xorN_length, hc0.1, h9.2.2.1]; rfl
  have ln0 : lanes 8 16 (unlanes 8 o0) = o0 := lanes_xorN 16 _ _ hc0.1 h9.2.2.1 hc0.2 h9.2.2.2
  apply Exists.intro
  apply And.intro
  · unfold xsTCode
    apply exec_step
    · exact execD_vmov_load (hvl := h16) (hb := by rfl) (hd := by simp)
        (hload := by rw [show (tbase + toff + 0 + imm64 0) % 2 ^ 64 = tbase + toff + 0 from ea_nat _ 0 (by omega)]; exact hrd) ..
    vstepv h16
    simp only [List.set_cons_succ, List.set_cons_zero]
    rw [x0.2]
    apply exec_step
    · exact execD_vmov_store (hvl := h16) (hb := by rfl) (ha := by rfl) (mem' := Mf (spliceAt b0 toff o0))
        (hstore := by rw [show (tbase + toff + 0 + imm64 0) % 2 ^ 64 = tbase + toff + 0 from ea_nat _ 0 (by omega), ln0, Nat.add_zero]
                      exact bf.wr b0 toff o0 hb0 (by omega)) ..
    exact execList_nil _
  rfl

/-- set-up of `clearRight`: pointer behind the data, number of bytes to clear -/
def clrSetCode : List DInstr :=
  [ins .MOVQ [G 6, G 2] 0, ins .ADDQ [G 9, G 2] 0, ins .MOVQ [.imm 16, G 11] 0, ins .SUBQ [G 9, G 11] 0]

def clrSetKeepG : List Nat := [0, 1, 3, 4, 5, 6, 7, 8, 9, 10, 12, 13, 14, 15]

theorem clrSet_writes : writesNone clrSetCode clrSetKeepG (List.range 32) (List.range 8) = true := by decide +kernel

theorem clrSet_spec (s : State) (hG : s.gpr.length = 16) (t n : Nat) (h6 : greg s 6 = t) (h9 : greg s 9 = n) (ht : t + 16 < 2 ^ 63) (hn : n ≤ 16) :
    ∃ s', execList clrSetCode s = .ok s' ∧ greg s' 2 = t + n ∧ greg s' 11 = 16 - n ∧ Keeps clrSetKeepG (List.range 32) (List.range 8) s s' := by
  let s1 := setGreg s 2 t
  have x1 : execD s (ins .MOVQ [G 6, G 2] 0) = .ok s1 := by
    have := a_movq_rr s 6 2 (by omega) (by omega); rw [h6] at this; exact this
  have hG1 : s1.gpr.length = 16 := by simp [s1]; exact hG
  have g12 : greg s1 2 = t := greg_setGreg_eq s 2 t (by omega)
  have g19 : greg s1 9 = n := by rw [greg_setGreg_ne s 2 t 9 (by decide)]; exact h9
  have x2 := a_addq_rr s1 9 2 (by omega) (by omega) (by rw [g19]; omega) (by rw [g12]; omega)
  rw [g12, g19, Nat.mod_eq_of_lt (by omega)] at x2
  let s2 := setFlags (setGreg s1 2 (t + n)) (addF 8 t n).2
  have hG2 : s2.gpr.length = 16 := by simp [s2]; exact hG1
  have x3 := a_movq_imm s2 16 11 (by omega)
  rw [show imm64 16 = 16 from imm64_16] at x3
  let s3 := setGreg s2 11 16
  have hG3 : s3.gpr.length = 16 := by simp [s3]; exact hG2
  have g39 : greg s3 9 = n := by
    rw [greg_setGreg_ne s2 11 16 9 (by decide)]
    show greg (setFlags (setGreg s1 2 _) _) 9 = n
    rw [greg_setFlags, greg_setGreg_ne s1 2 _ 9 (by decide)]; exact g19
  have g311 : greg s3 11 = 16 := greg_setGreg_eq s2 11 16 (by omega)
  have x4 := a_subq_rr s3 9 11 (by omega) (by omega) (by rw [g39]; omega) (by rw [g311]; omega)
  rw [g39, g311, show (16 + 2 ^ 64 - n) % 2 ^ 64 = 16 - n from by omega] at x4
  have hex : execList clrSetCode s = .ok (setFlags (setGreg s3 11 (16 - n)) (subF 8 16 n).2) := by
    unfold clrSetCode
    apply exec_step x1
    apply exec_step x2
    apply exec_step x3
    apply exec_step x4
    exact execList_nil _
  refine ⟨_, hex, ?_, ?_, keeps_of_exec _ clrSet_writes hex⟩
  · rw [greg_setFlags, greg_setGreg_ne s3 11 _ 2 (by decide), greg_setGreg_ne s2 11 16 2 (by decide)]
    show greg (setFlags (setGreg s1 2 _) _) 2 = _
    rw [greg_setFlags, greg_setGreg_eq s1 2 _ (by omega)]
  · rw [greg_setFlags, greg_setGreg_eq s3 11 _ (by omega)]

end SMGo.Proofs.ISAVal
