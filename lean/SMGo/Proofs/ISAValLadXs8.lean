import SMGo.Proofs.ISAValLadCat
set_option linter.unusedSimpArgs false
namespace SMGo.Proofs.ISAVal
open SMGo.Model.ISAVal SMGo.Model.GCM SMGo.Proofs.GCM SMGo.Proofs.ISATouch
open SMGo.Model.ISA (Reg Opd Instr)


macro "vstepv" h:term : tactic => `(tactic|
  (apply exec_step
   · first
     | exact execD_vec3 (hmn := by rfl) (hvl := $h) (ha := by rfl) (hb := by rfl) (hd := by simp) (hr := by rfl) ..
     | exact execD_vecImm2 (hmn := by rfl) (hvl := $h) (ha := by rfl) (hb := by rfl) (hd := by simp) (hr := by rfl) ..))

theorem catV_form64 (a b : Nat) (ha : a < 2 ^ (8 * 32)) (hb : b < 2 ^ (8 * 32)) :
    map2 32 (64 / 4) (fun x y => (y + x) % 2 ^ 32) (a % 2 ^ (8 * 32))
      ((((b % 2 ^ (8 * 32)) * 2 ^ (8 * 64) + (a % 2 ^ (8 * 32)) % 2 ^ (8 * 64)) >>> (32 * (imm64 8 % 256 % (64 / 4)))) % 2 ^ (8 * 64))
      = catV 64 a b := by
  rw [Nat.mod_eq_of_lt ha, Nat.mod_eq_of_lt hb, imm8_16]; rfl

set_option maxRecDepth 100000 in
set_option maxHeartbeats 1000000 in
theorem xs8_spec (s : State) (hG : s.gpr.length = 16) (hV : s.vec.length = 32) (Mf : List Nat → List Region) (dbase dlen : Nat)
    (bf : Buf Mf dbase dlen) (src : List Nat) (sp : Nat) (hsb : ∀ x ∈ src, x < 2 ^ 8)
    (b0 : List Nat) (hb0 : b0.length = dlen) (hm : s.mem = Mf b0) (so doff : Nat) (hsrc : SrcFrom (Mf b0) sp src so) (h10 : greg s 10 = sp + so) (h13 : greg s 13 = dbase + doff)
    (hso : so + 128 ≤ src.length) (hdo : doff + 128 ≤ dlen) (hsp : sp + src.length < 2 ^ 63) (hdb : dbase + dlen < 2 ^ 63)
    (ks : Nat → List Nat) (hks : ∀ r, r < 4 → vreg s (9 - r) < 2 ^ (8 * 32) ∧ lanes 8 32 (vreg s (9 - r)) = ks r ∧ (ks r).length = 32 ∧
      ∀ x ∈ ks r, x < 2 ^ 8) :
    ∃ s', execList xs8Code s = .ok s' ∧
      s'.mem = Mf (spliceAt b0 doff ((xorN ((src.drop (so + 0)).take 32) (ks 0) ++ xorN ((src.drop (so + 32)).take 32) (ks 1)) ++
        (xorN ((src.drop (so + 64)).take 32) (ks 2) ++ xorN ((src.drop (so + 96)).take 32) (ks 3)))) ∧
      vreg s' 9 = unlanes 8 (xorN ((src.drop (so + 0)).take 32) (ks 0) ++ xorN ((src.drop (so + 32)).take 32) (ks 1)) ∧
      vreg s' 7 = unlanes 8 (xorN ((src.drop (so + 64)).take 32) (ks 2) ++ xorN ((src.drop (so + 96)).take 32) (ks 3)) := by
  have h64 : validVl 64 = true := by decide
  have h32 : validVl 32 = true := by decide
  obtain ⟨gpr, vec, k, fl, mem, syms, frame⟩ := s
  simp only at hG hV hm
  obtain ⟨a0, a1, a2, a3, a4, a5, a6, a7, a8, a9, a10, a11, a12, a13, a14, a15, rfl⟩ := list16 gpr hG
  obtain ⟨b0', b1, b2, b3, b4, b5, b6, b7, b8, b9, b10, b11, b12, b13, b14, b15, b16, b17, b18, b19, b20, b21, b22, b23, b24, b25, b26, b27, b28, b29, b30, b31, rfl⟩ := list32 vec hV
  simp only [greg, List.getD_cons_succ, List.getD_cons_zero] at h10 h13
  subst h10 h13 hm
  have k0 := hks 0 (by decide); have k1 := hks 1 (by decide); have k2 := hks 2 (by decide); have k3 := hks 3 (by decide)
  simp only [vreg, List.getD_cons_succ, List.getD_cons_zero, Nat.sub_zero, Nat.reduceSub] at k0 k1 k2 k3
  let c0 := (src.drop (so + 0)).take 32
  let c1 := (src.drop (so + 32)).take 32
  let c2 := (src.drop (so + 64)).take 32
  let c3 := (src.drop (so + 96)).take 32
  have hc : ∀ a, a + 32 ≤ 128 → ((src.drop (so + a)).take 32).length = 32 ∧ ∀ x ∈ (src.drop (so + a)).take 32, x < 2 ^ 8 := by
    intro a ha
    exact ⟨by rw [List.length_take, List.length_drop]; omega, fun x hx => hsb x (List.mem_of_mem_drop (List.mem_of_mem_take hx))⟩
  have hrd : ∀ a, a + 32 ≤ 128 → readMem (Mf b0) (sp + so + a) 32 = .ok ((src.drop (so + a)).take 32) := by
    intro a ha
    rw [Nat.add_assoc]; exact hsrc (so + a) 32 (by omega) (by omega)
  have x0 := vpxord_bytes 32 c0 (ks 0) b9 (by decide) (hc 0 (by omega)).1 (hc 0 (by omega)).2 k0.1 k0.2.1
  have x1 := vpxord_bytes 32 c1 (ks 1) b8 (by decide) (hc 32 (by omega)).1 (hc 32 (by omega)).2 k1.1 k1.2.1
  have x2 := vpxord_bytes 32 c2 (ks 2) b7 (by decide) (hc 64 (by omega)).1 (hc 64 (by omega)).2 k2.1 k2.2.1
  have x3 := vpxord_bytes 32 c3 (ks 3) b6 (by decide) (hc 96 (by omega)).1 (hc 96 (by omega)).2 k3.1 k3.2.1
  let o0 := xorN c0 (ks 0); let o1 := xorN c1 (ks 1); let o2 := xorN c2 (ks 2); let o3 := xorN c3 (ks 3)
  have ol : ∀ (c kk : List Nat), c.length = 32 → kk.length = 32 → (xorN c kk).length = 32 := by
    intro c kk h1 h2; rw [xorN_length, h1, h2]; rfl
  have l0 : o0.length = 32 := ol _ _ (hc 0 (by omega)).1 k0.2.2.1
  have l1 : o1.length = 32 := ol _ _ (hc 32 (by omega)).1 k1.2.2.1
  have l2 : o2.length = 32 := ol _ _ (hc 64 (by omega)).1 k2.2.2.1
  have l3 : o3.length = 32 := ol _ _ (hc 96 (by omega)).1 k3.2.2.1
  have ob0 : ∀ x ∈ o0, x < 2 ^ 8 := xorN_bytes _ _ (hc 0 (by omega)).2 k0.2.2.2
  have ob1 : ∀ x ∈ o1, x < 2 ^ 8 := xorN_bytes _ _ (hc 32 (by omega)).2 k1.2.2.2
  have ob2 : ∀ x ∈ o2, x < 2 ^ 8 := xorN_bytes _ _ (hc 64 (by omega)).2 k2.2.2.2
  have ob3 : ∀ x ∈ o3, x < 2 ^ 8 := xorN_bytes _ _ (hc 96 (by omega)).2 k3.2.2.2
  have ult : ∀ (o : List Nat), o.length = 32 → (∀ x ∈ o, x < 2 ^ 8) → unlanes 8 o < 2 ^ (8 * 32) := by
    intro o hl hb; have := unlanes_lt 8 o hb; rw [hl] at this; exact this
  have cat01 := (catV_form64 (unlanes 8 o0) (unlanes 8 o1) (ult o0 l0 ob0) (ult o1 l1 ob1)).trans
    (catV_unlanes 64 o0 o1 (by decide) l0 l1 ob0 ob1)
  have cat23 := (catV_form64 (unlanes 8 o2) (unlanes 8 o3) (ult o2 l2 ob2) (ult o3 l3 ob3)).trans
    (catV_unlanes 64 o2 o3 (by decide) l2 l3 ob2 ob3)
  have lnA : lanes 8 64 (unlanes 8 (o0 ++ o1)) = o0 ++ o1 := lanes_unlanes 8 64 _ (by
    intro x hx; rw [List.mem_append] at hx; rcases hx with h | h
    · exact ob0 x h
    · exact ob1 x h) (by rw [List.length_append, l0, l1])
  have lnB : lanes 8 64 (unlanes 8 (o2 ++ o3)) = o2 ++ o3 := lanes_unlanes 8 64 _ (by
    intro x hx; rw [List.mem_append] at hx; rcases hx with h | h
    · exact ob2 x h
    · exact ob3 x h) (by rw [List.length_append, l2, l3])
  let m1 := spliceAt b0 doff (o0 ++ o1)
  let m2 := spliceAt m1 (doff + 64) (o2 ++ o3)
  have lm1 : m1.length = dlen := by rw [spliceAt_length _ _ _ (by rw [List.length_append]; omega)]; exact hb0
  apply Exists.intro
  apply And.intro
  · unfold xs8Code
    apply exec_step
    · exact execD_vmov_load (hvl := h32) (hb := by rfl) (hd := by simp)
        (hload := by rw [show (sp + so + 0 + imm64 0) % 2 ^ 64 = sp + so + 0 from ea_nat _ 0 (by omega)]; exact hrd 0 (by omega)) ..
    apply exec_step
    · exact execD_vmov_load (hvl := h32) (hb := by rfl) (hd := by simp)
        (hload := by rw [show (sp + so + 0 + imm64 32) % 2 ^ 64 = sp + so + 32 from ea_nat _ 32 (by omega)]; exact hrd 32 (by omega)) ..
    apply exec_step
    · exact execD_vmov_load (hvl := h32) (hb := by rfl) (hd := by simp)
        (hload := by rw [show (sp + so + 0 + imm64 64) % 2 ^ 64 = sp + so + 64 from ea_nat _ 64 (by omega)]; exact hrd 64 (by omega)) ..
    apply exec_step
    · exact execD_vmov_load (hvl := h32) (hb := by rfl) (hd := by simp)
        (hload := by rw [show (sp + so + 0 + imm64 96) % 2 ^ 64 = sp + so + 96 from ea_nat _ 96 (by omega)]; exact hrd 96 (by omega)) ..
    vstepv h32; vstepv h32; vstepv h32; vstepv h32
    simp only [List.set_cons_succ, List.set_cons_zero]
    rw [x0.2, x1.2, x2.2, x3.2]
    apply exec_step
    · exact execD_vmovreg (hmn := Or.inr rfl) (hvl := by rfl) (ha := by rfl) (hd := by simp) ..
    apply exec_step
    · exact execD_vmovreg (hmn := Or.inr rfl) (hvl := by rfl) (ha := by rfl) (hd := by simp) ..
    vstepv h64; vstepv h64
    simp only [List.set_cons_succ, List.set_cons_zero]
    rw [cat01]
    apply exec_step
    · exact execD_vmovreg (hmn := Or.inr rfl) (hvl := by rfl) (ha := by rfl) (hd := by simp) ..
    apply exec_step
    · exact execD_vmovreg (hmn := Or.inr rfl) (hvl := by rfl) (ha := by rfl) (hd := by simp) ..
    vstepv h64; vstepv h64
    simp only [List.set_cons_succ, List.set_cons_zero]
    rw [cat23]
    apply exec_step
    · exact execD_vmov_store (hvl := h64) (hb := by rfl) (ha := by rfl) (mem' := Mf m1)
        (hstore := by rw [show (dbase + doff + 0 + imm64 0) % 2 ^ 64 = dbase + doff + 0 from ea_nat _ 0 (by omega), lnA, Nat.add_zero]
                      exact bf.wr b0 doff (o0 ++ o1) hb0 (by rw [List.length_append]; omega)) ..
    apply exec_step
    · exact execD_vmov_store (hvl := h64) (hb := by rfl) (ha := by rfl) (mem' := Mf m2)
        (hstore := by rw [show (dbase + doff + 0 + imm64 64) % 2 ^ 64 = dbase + doff + 64 from ea_nat _ 64 (by omega), lnB, Nat.add_assoc]
                      exact bf.wr m1 (doff + 64) (o2 ++ o3) lm1 (by rw [List.length_append]; omega)) ..
    exact execList_nil _
  refine ⟨?_, ?_, ?_⟩
  rotate_left
  · simp only [vreg, List.getD_cons_succ, List.getD_cons_zero]
    rfl
  · simp only [vreg, List.getD_cons_succ, List.getD_cons_zero]
    rfl
  have e : (o0 ++ o1).length = 64 := by rw [List.length_append, l0, l1]
  have key := spliceAt_spliceAt b0 doff (o0 ++ o1) (o2 ++ o3) (by simp only [List.length_append]; omega)
  rw [e] at key
  exact congrArg Mf key

end SMGo.Proofs.ISAVal
