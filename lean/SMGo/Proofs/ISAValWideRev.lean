import SMGo.Proofs.ISAValWideTranspose
import SMGo.Proofs.ISAValGhashVal
namespace SMGo.Proofs.ISAVal
open SMGo.Model.ISAVal SMGo.Model.ISA

/-- a dword with its four bytes reversed -/
def bswap32 (w : Nat) : Nat := unlanes 8 [lane 8 3 w, lane 8 2 w, lane 8 1 w, lane 8 0 w]

/-- `Shuffle<>` in every 128-bit lane of a register of `vl` bytes -/
def SHUFvl (vl : Nat) : Nat := unlanes 128 (List.replicate (vl / 16) SHUFv)

theorem shufvl_16 : SHUFvl 16 = SHUFv := by decide +kernel

theorem shufvl_bytes : ∀ J, J < 64 → lane 8 J (SHUFvl 64) = 4 * ((J % 16) / 4) + (3 - J % 4) := by decide +kernel
theorem shufvl_bytes32 : ∀ J, J < 32 → lane 8 J (SHUFvl 32) = 4 * ((J % 16) / 4) + (3 - J % 4) := by decide +kernel
theorem shufvl_bytes16 : ∀ J, J < 16 → lane 8 J (SHUFvl 16) = 4 * ((J % 16) / 4) + (3 - J % 4) := by decide +kernel

theorem shufvl_byte (vl J : Nat) (hvl : validVl vl = true) (hJ : J < vl) :
    lane 8 J (SHUFvl vl) = 4 * ((J % 16) / 4) + (3 - J % 4) := by
  have hvl' : vl = 16 ∨ vl = 32 ∨ vl = 64 := by
    simpa only [validVl, Bool.or_eq_true, beq_iff_eq, or_assoc] using hvl
  rcases hvl' with rfl | rfl | rfl
  · exact shufvl_bytes16 J hJ
  · exact shufvl_bytes32 J hJ
  · exact shufvl_bytes J hJ

/-- byte `J` of VPSHUFB with `Shuffle<>` in every lane: the bytes of each dword in reverse order -/
theorem byte_rev32 (vl x J : Nat) (hvl : validVl vl = true) (hJ : J < vl) :
    lane 8 J (vpshufb vl (SHUFvl vl) x) = lane 8 (4 * (J / 4) + (3 - J % 4)) x := by
  have hvl' : vl = 16 ∨ vl = 32 ∨ vl = 64 := by
    simpa only [validVl, Bool.or_eq_true, beq_iff_eq, or_assoc] using hvl
  have hvl16 : vl % 16 = 0 := by omega
  rw [byte_vpshufb vl _ _ J hvl16 hJ, shufvl_byte vl J hvl hJ]
  unfold pshufbByte
  have hi : 4 * (J % 16 / 4) + (3 - J % 4) < 16 := by omega
  rw [if_neg (by omega), Nat.mod_eq_of_lt hi, List.getD_eq_getElem?_getD,
    List.getElem?_eq_getElem (by rw [lanes_length]; exact hi), getElem_lanes, Option.getD_some,
    lane_lane' 128 8 16 _ (J / 16) x (by decide) hi]
  congr 1
  omega

theorem lane32_bytes (j v : Nat) : lane 32 j v = unlanes 8 [lane 8 (4 * j + 0) v, lane 8 (4 * j + 1) v, lane 8 (4 * j + 2) v, lane 8 (4 * j + 3) v] := by
  have h := unlanes_lanes 8 4 (lane 32 j v)
  rw [Nat.mod_eq_of_lt (lane_lt 32 j v)] at h
  rw [← h, lanes84, lane_lane' 32 8 4 0 j v (by decide) (by decide), lane_lane' 32 8 4 1 j v (by decide) (by decide),
    lane_lane' 32 8 4 2 j v (by decide) (by decide), lane_lane' 32 8 4 3 j v (by decide) (by decide)]

/-- dword `j` of `rev32`: the dword with its bytes reversed -/
theorem lane32_rev32 (vl x j : Nat) (hvl : validVl vl = true) (hj : j < vl / 4) :
    lane 32 j (vpshufb vl (SHUFvl vl) x) = bswap32 (lane 32 j x) := by
  have hvl' : vl = 16 ∨ vl = 32 ∨ vl = 64 := by
    simpa only [validVl, Bool.or_eq_true, beq_iff_eq, or_assoc] using hvl
  rw [lane32_bytes, byte_rev32 vl x _ hvl (by omega), byte_rev32 vl x _ hvl (by omega), byte_rev32 vl x _ hvl (by omega),
    byte_rev32 vl x _ hvl (by omega)]
  unfold bswap32
  rw [lane_lane' 32 8 4 3 j x (by decide) (by decide), lane_lane' 32 8 4 2 j x (by decide) (by decide),
    lane_lane' 32 8 4 1 j x (by decide) (by decide), lane_lane' 32 8 4 0 j x (by decide) (by decide)]
  have e0 : 4 * ((4 * j + 0) / 4) + (3 - (4 * j + 0) % 4) = 4 * j + 3 := by omega
  have e1 : 4 * ((4 * j + 1) / 4) + (3 - (4 * j + 1) % 4) = 4 * j + 2 := by omega
  have e2 : 4 * ((4 * j + 2) / 4) + (3 - (4 * j + 2) % 4) = 4 * j + 1 := by omega
  have e3 : 4 * ((4 * j + 3) / 4) + (3 - (4 * j + 3) % 4) = 4 * j + 0 := by omega
  rw [e0, e1, e2, e3]

theorem vpshufb_lt (vl idx tbl : Nat) (hvl : vl % 16 = 0) : vpshufb vl idx tbl < 2 ^ (8 * vl) := by
  have := map2_lt 128 (vl / 16) (fun il tl => map1 8 16 (pshufbByte (lanes 8 16 tl)) il) idx tbl
    (fun x y _ _ => map1_lt 8 16 x _ (fun z _ => pshufbByte_lt _ (fun w hw => mem_lanes_lt 8 16 _ w hw) z))
  rwa [show 128 * (vl / 16) = 8 * vl from by omega] at this

/-- `revStates(V12, V6, V7, V8, V9)` -/
def rev4Code (vl : Nat) : List DInstr :=
  [ins .VPSHUFB [R 12, R 6, R 6] vl, ins .VPSHUFB [R 12, R 7, R 7] vl, ins .VPSHUFB [R 12, R 8, R 8] vl,
   ins .VPSHUFB [R 12, R 9, R 9] vl]

set_option maxRecDepth 100000 in
theorem rev4_spec (vl : Nat) (hvl : validVl vl = true) (s : State) (hV : s.vec.length = 32) (h12 : vreg s 12 = SHUFvl vl) :
    ∃ s', execList (rev4Code vl) s = .ok s' ∧ WFrame s s' ∧
      ∀ X, X ∈ [6, 7, 8, 9] → vreg s' X < 2 ^ (8 * vl) ∧ ∀ j, j < vl / 4 → lane 32 j (vreg s' X) = bswap32 (lane 32 j (vreg s X)) := by
  have hvl' : vl = 16 ∨ vl = 32 ∨ vl = 64 := by
    simpa only [validVl, Bool.or_eq_true, beq_iff_eq, or_assoc] using hvl
  have hvl16 : vl % 16 = 0 := by omega
  obtain ⟨gpr, vec, k, fl, mem, syms, frame⟩ := s
  simp only at hV
  obtain ⟨b0, b1, b2, b3, b4, b5, b6, b7, b8, b9, b10, b11, b12, b13, b14, b15, b16, b17, b18, b19, b20, b21, b22, b23, b24, b25, b26, b27, b28, b29, b30, b31, rfl⟩ := list32 vec hV
  simp only [vreg, List.getD_cons_succ, List.getD_cons_zero] at h12
  subst h12
  apply Exists.intro
  apply And.intro
  · unfold rev4Code
    gstep; gstep; gstep; gstep
    exact execList_nil _
  · simp only [List.set_cons_succ, List.set_cons_zero]
    refine ⟨⟨rfl, rfl, rfl, rfl, rfl, rfl, rfl, rfl, rfl⟩, ?_⟩
    intro X hX
    simp only [List.mem_cons, List.not_mem_nil, or_false] at hX
    rcases hX with rfl | rfl | rfl | rfl <;>
      (simp only [vreg, List.getD_cons_succ, List.getD_cons_zero]
       exact ⟨vpshufb_lt vl _ _ hvl16, fun j hj => lane32_rev32 vl _ j hvl hj⟩)

end SMGo.Proofs.ISAVal
