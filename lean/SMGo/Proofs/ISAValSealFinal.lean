import SMGo.Proofs.ISAValSealModel3
set_option linter.unusedSimpArgs false
namespace SMGo.Proofs.ISAVal
open SMGo SMGo.Model.ISAVal SMGo.Model.GCM SMGo.Proofs.GCM SMGo.Spec.GCM SMGo.Proofs.ISATouch
open SMGo.Model.ISA (Reg Opd Instr)

theorem ladN_bytes (rk jb : List Nat) (h hf : Nat) : ∀ (fuel c y : Nat) (src : List Nat), (∀ x ∈ src, x < 2 ^ 8) →
    ∀ x ∈ (ladN rk jb h hf fuel c y src).1, x < 2 ^ 8 := by
  intro fuel
  induction fuel with
  | zero => intro c y src _ x hx; cases hx
  | succ f ih =>
    intro c y src hsb x hx
    by_cases h16 : src.length < 16
    · rw [ladN_small rk jb h hf f c y src h16] at hx
      have hpb : ∀ x ∈ padTo16 src, x < 2 ^ 8 := by
        intro x hx
        unfold padTo16 at hx
        rw [List.mem_append] at hx
        rcases hx with h' | h'
        · exact hsb x h'
        · rw [List.eq_of_mem_replicate h']; decide
      exact xorN_bytes _ _ hpb (encB_bytes _ _) x (List.mem_of_mem_take hx)
    · have hcf := class_facts src.length
      have hn0 : classOf src.length ≠ 0 := fun h0 => by have := hcf.2.1 h0; omega
      rw [ladN_class rk jb h hf f c y src _ rfl hn0] at hx
      simp only [List.mem_append] at hx
      rcases hx with h' | h'
      · exact xorN_bytes _ _ (fun x hx => hsb x (List.mem_of_mem_take hx)) (ksN_bytes _ _ _ _) x h'
      · exact ih _ _ _ (fun x hx => hsb x (List.mem_of_mem_drop hx)) x h'

theorem sealOutN_bytes (rk nonce pt aad : List Nat) (t fuel : Nat) (hpb : ∀ x ∈ pt, x < 2 ^ 8) :
    ∀ x ∈ sealOutN rk nonce pt aad t fuel, x < 2 ^ 8 := by
  intro x hx
  unfold sealOutN sealOutJ at hx
  simp only [List.mem_append] at hx
  rcases hx with h' | h'
  · exact ladN_bytes _ _ _ _ _ _ _ _ hpb x h'
  · have := List.mem_of_mem_take h'
    unfold lanes at this
    rw [List.mem_map] at this
    obtain ⟨i, _, rfl⟩ := this
    exact lane_lt 8 _ _

theorem sealOutN_length (rk nonce pt aad : List Nat) (t fuel : Nat) (ht : t ≤ 16) (hfuel : fuelNeed pt.length ≤ fuel) :
    (sealOutN rk nonce pt aad t fuel).length = pt.length + t := by
  unfold sealOutN sealOutJ
  simp only []
  rw [List.length_append, ladN_length _ _ _ _ _ _ _ _ hfuel, List.length_take, lanes_length]
  omega

/-- **`sealAsm` = SP 800-38D Algorithm 4 over SM4, for 12-byte nonces**: run from its entry state (any registers, any old contents
    of the destination and of the scratch buffer) the listing returns and the destination holds ciphertext ‖ tag -/
theorem sealAsm_run12 (g v k rk : List Nat) (t : Nat) (dst nonce pt aad tmp : List Nat)
    (hG : g.length = 16) (hV : v.length = 32) (hK : k.length = 8) (hrk : rk.length = 32) (hrkb : ∀ x ∈ rk, x < 2 ^ 32)
    (hn : nonce.length = 12) (hnb : ∀ x ∈ nonce, x < 2 ^ 8) (hab : ∀ x ∈ aad, x < 2 ^ 8) (hall : aad.length < 2 ^ 32)
    (hpb : ∀ x ∈ pt, x < 2 ^ 8) (hpl : pt.length < 2 ^ 32) (ht : t ≤ 16) (hdl : dst.length = pt.length + t) (hdl32 : dst.length < 2 ^ 32)
    (htmp : tmp.length = 32) (fuel : Nat) (hfuel : 34 * (aad.length / 16) + 700 * (pt.length / 256) + 6000 < fuel) :
    runSeal fuel (sealState g v k rk t dst nonce pt aad tmp)
      = .ok ((sealGCM (encE rk) t (toB nonce) (toB pt) (toB aad)).map (·.toNat)) := by
  obtain ⟨s', N, hN, r1, hd⟩ := seal_reach12 g v k rk t dst nonce pt aad tmp hG hV hK hrk hrkb hn hnb hab hall hpb hpl ht (by omega) hdl32 htmp
    (pt.length / 16 + 1) (fuelNeed_le16 _)
  have hrun := run_of_reach r1 seal_slices'.ret fuel (by omega)
  unfold runSeal run
  rw [sealR_ok]
  simp only [bind, Except.bind]
  rw [hrun]
  simp only [hd]
  have hl := sealOutN_length rk nonce pt aad t (pt.length / 16 + 1) ht (fuelNeed_le16 _)
  have hsp : spliceAt dst 0 (sealOutN rk nonce pt aad t (pt.length / 16 + 1)) = sealOutN rk nonce pt aad t (pt.length / 16 + 1) := by
    unfold spliceAt
    rw [List.take_zero, List.nil_append, Nat.zero_add, List.drop_eq_nil_of_le (by rw [hl, hdl]; exact Nat.le_refl _), List.append_nil]
  rw [hsp, ← toNat_toB _ (sealOutN_bytes rk nonce pt aad t _ hpb), sealOutN_eq rk nonce pt aad t _ hn hnb hpb hab (fuelNeed_le16 _),
    seal_eq_spec (encE_length rk)]
  rfl

end SMGo.Proofs.ISAVal
#print axioms SMGo.Proofs.ISAVal.sealAsm_run12
