/-
  Buffer management of the arm64 Go glue as contracts: `copy`, and what `ensureCapacity` (arm64:
  head and tail) hands to Seal/Open (`ECOut`): the tail is the `n` bytes behind `ret[:len(dst)]`,
  `ret` shows dst's bytes first, shares dst's pointer iff there is room, nothing of the old heap
  changed, and which slices of the caller can meet the tail.  Core Lean only.
-/
import SMGo.Proofs.GCMGlueArm64Phase
namespace SMGo.Proofs.GCMGlueA64
open SMGo SMGo.Model SMGo.Model.Mem SMGo.Model.GCMGlueA64 SMGo.Proofs.Slice
open SMGo.Spec.GCM
open SMGo.Proofs.GCMGlue (UnchangedOutside InRegion Nowhere fresh unchanged_refl unchanged_append
  unchanged_poke WF_of_unchanged Disjoint ExactOverlap Admissible)
open SMGo.Proofs.GCM (ghFold blockToNat_lt blockToNat_natToBlock natToBlock_blockToNat
  natToBlock_length xorBytes_length)

theorem bind_assoc' {α β γ : Type} (x : Outcome α) (f : α → Outcome β) (g : β → Outcome γ) :
    (x >>= f) >>= g = x >>= fun a => f a >>= g := by
  cases x <;> rfl

theorem prelude_bind {β : Type} (k : Kernels) (h : Heap) (nonce H J0 TMask : Slice) (f : Heap → Outcome β) :
    (cipherEncrypt k h H H >>= fun h => calculateFirstCounter k h nonce J0 H >>= fun h =>
      cipherEncrypt k h TMask J0 >>= f) = (prelude k h nonce H J0 TMask >>= f) := by
  unfold prelude
  simp only [bind_assoc']

theorem tagPhase_bind {β : Type} (k : Kernels) (h : Heap) (H tag TMask aad c : Slice) (a l : Nat)
    (f : Heap → Outcome β) :
    (gHashUpdate k h H tag aad >>= fun h => gHashUpdate k h H tag c >>= fun h =>
      gHashFinish k h H tag a l >>= fun h => xorN k 16 h tag tag TMask >>= f)
      = (tagPhase k h H tag TMask aad c a l >>= f) := by
  unfold tagPhase
  simp only [bind_assoc']

/-! ### copy as a contract -/

theorem copy_spec (h : Heap) (dst src : Slice) (wd : WF h dst) (ws : WF h src) :
    UnchangedOutside h (copy h dst src).1 (InRegion dst 0 (min dst.len src.len)) ∧
    read (copy h dst src).1 (takeS dst (min dst.len src.len))
      = (read h src).take (min dst.len src.len) := by
  by_cases hz : min dst.len src.len = 0
  · rw [copy_zero' h dst src hz, hz]
    refine ⟨unchanged_refl h _, ?_⟩
    have : read h (takeS dst 0) = [] :=
      List.eq_nil_of_length_eq_zero (length_read h _ (WF_takeS h dst 0 wd (by omega)))
    rw [this]; simp
  · obtain ⟨a, hsa, ha, hcap, ec⟩ := copy_ok' h dst src wd (by omega)
    rw [ec]
    have hdc := wd.1
    have hlen : ((read h src).take (min dst.len src.len)).length = min dst.len src.len := by
      rw [List.length_take, length_read h src ws]; omega
    generalize (read h src).take (min dst.len src.len) = bs at hlen
    have hb : dst.off + bs.length ≤ (arrayOf h a).length := by omega
    refine ⟨?_, ?_⟩
    · apply unchanged_poke h a _ _ ha hb
      intro i h1 h2
      exact ⟨hsa, by simpa using h1, by rw [← hlen]; simpa using h2⟩
    · rw [← hlen]
      obtain ⟨arr, o, len, cap⟩ := dst
      simp at hsa; subst hsa
      exact read_poke_exact h a o bs cap ha hb

/-! ### what `ensureCapacity` hands to Seal/Open -/

/-- the facts about `ret, out := ensureCapacity(dst, n)` the callers use -/
structure ECOut (h : Heap) (dst : Slice) (n : Nat) (h' : Heap) (ret out : Slice) : Prop where
  out_eq : out = dropS ret dst.len
  ret_len : ret.len = dst.len + n
  wf : WF h' ret
  ext : UnchangedOutside h h' Nowhere
  pre : read h' (takeS ret dst.len) = read h dst
  shares : Shares ret dst ↔ dst.arr ≠ none ∧ n ≤ dst.cap - dst.len
  room : n ≤ dst.cap - dst.len → ret = takeS dst (dst.len + n) ∧ h' = h
  free : ∀ s, WF h s → Disjoint dst s → Avoids s (InRegion ret dst.len n)
  compat : ∀ s, WF h s → Disjoint dst s ∨ ExactOverlap dst s → s.len ≤ n →
    s.arr ≠ ret.arr ∨ s.off = ret.off + dst.len ∨ s.off + s.len ≤ ret.off + dst.len ∨
      ret.off + dst.len + s.len ≤ s.off
  other : ∀ s, WF h s → s.arr ≠ none → s.arr ≠ dst.arr → s.arr ≠ ret.arr

theorem ensureCapacityA64_out (h : Heap) (dst : Slice) (n : Nat) (wd : WF h dst) :
    ∃ h' ret out, ensureCapacityA64 h dst n = .ok (h', ret, out) ∧ ECOut h dst n h' ret out := by
  have hdc := wd.1
  rw [ensureCapacityA64_closed h dst n wd]
  by_cases hroom : n ≤ dst.cap - dst.len
  · rw [if_pos hroom]
    refine ⟨_, _, _, rfl, ?_⟩
    refine { out_eq := rfl, ret_len := rfl, wf := WF_takeS h dst _ wd (by omega),
             ext := unchanged_refl h _, pre := ?_, shares := ?_, room := fun _ => ⟨rfl, rfl⟩,
             free := ?_, compat := ?_, other := fun _ _ _ hne => hne }
    · rw [takeS_takeS, takeS_len]
    · simp [Shares, takeS, hroom]
    · intro s _ hd a i ha h1 h2 ⟨hr, h3, h4⟩
      have hr' : dst.arr = some a := hr
      have h3' : dst.off + dst.len ≤ i := h3
      have h4' : i < dst.off + dst.len + n := h4
      rcases hd with hd | hd | hd
      · exact hd (ha.trans hr'.symm)
      · omega
      · omega
    · intro s _ hd hsl
      show s.arr ≠ dst.arr ∨ s.off = dst.off + dst.len ∨ s.off + s.len ≤ dst.off + dst.len ∨
        dst.off + dst.len + s.len ≤ s.off
      rcases hd with (hd | hd | hd) | ⟨hd1, hd2⟩
      · exact Or.inl hd
      · right; right; left; exact hd
      · right; right; right; omega
      · right; left; exact hd2
  · rw [if_neg hroom]
    have hrl := length_read h dst wd
    have hxl : (read h dst ++ List.replicate n (0 : UInt8)).length = dst.len + n := by
      rw [List.length_append, List.length_replicate, hrl]
    have hnew : ∀ s, WF h s → s.arr ≠ (fresh h (dst.len + n)).arr := by
      intro s ws he
      have := arr_lt_of_WF ws (a := h.length) (by rw [he]; rfl)
      omega
    refine ⟨_, _, _, rfl, ?_⟩
    refine { out_eq := rfl, ret_len := rfl, wf := WF_fresh' h _ _ hxl,
             ext := unchanged_append h _ _, pre := ?_, shares := ?_,
             room := fun hr => absurd hr hroom,
             free := fun s ws _ => avoids_of_arr_ne (hnew s ws) _ _,
             compat := fun s ws _ _ => Or.inl (hnew s ws), other := fun s ws _ _ => hnew s ws }
    · rw [read_takeS _ _ _ (by show dst.len ≤ dst.len + n; omega), read_fresh' h _ _ hxl, ← hrl,
        List.take_left]
    · constructor
      · intro ⟨h1, _, _⟩
        exfalso
        exact hnew dst wd h1.symm
      · intro ⟨_, h2⟩; exact absurd h2 hroom

end SMGo.Proofs.GCMGlueA64
