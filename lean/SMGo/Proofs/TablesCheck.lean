/-
  Property C18, SM2 part — the executable checkers (core Lean only, evaluated by the kernel).

  A base-point table of a `w`-`s`-`it`-`r` comb stores, for sub-table `j < s` and bit pattern
  `1 ≤ idx < 2^w`, the affine point `[Σ_{t<w} bit_t(idx) · 2^(r + j·it + t·s·it)] G` as two lists of
  four little-endian 64-bit limbs in Montgomery form.  Evaluating ~730 scalar multiplications is too
  expensive; instead the checkers below verify every entry against *earlier entries of the table*
  with ONE affine addition of `Spec.SM2.add` (entry idx = entry (idx − top bit) + entry (top bit)),
  the single-bit entries by a doubling chain from the previous single-bit entry.  The soundness
  proofs (group laws) are in `TablesSound.lean`.
-/
import SMGo.Spec.SM2
import SMGo.Model.Field
namespace SMGo.Proofs.Tables
open SMGo SMGo.Spec.SM2 SMGo.Model.Field

/-- R⁻¹ mod p for R = 2^256 (`= Spec.SM2.invMod (2^256) p`, see `rinv_eq`) -/
def rinv : Nat := 0xfffffffb00000005fffffffc00000002fffffffd00000006fffffff900000004

theorem rinv_eq : rinv = Spec.SM2.invMod (2 ^ 256) Spec.SM2.p := by decide +kernel

/-- the affine point of a stored entry: `fromMontgomery` of the two stored limb vectors -/
def entryAffine (x y : List Nat) : Spec.SM2.Point :=
  some (limbsToNat x * rinv % p, limbsToNat y * rinv % p)

/-- Boolean equality of spec points -/
def ptEq : Spec.SM2.Point → Spec.SM2.Point → Bool
  | none, none => true
  | some (x1, y1), some (x2, y2) => x1 == x2 && y1 == y2
  | _, _ => false

/-- `k` doublings with the spec's group law -/
def dblN : Nat → Spec.SM2.Point → Spec.SM2.Point
  | 0, P => P
  | k + 1, P => dblN k (add P P)

/-- the affine points of an x/y table (sub-table of the first table, or the remainder table) -/
def pts (t : List (List (List Nat))) : List Spec.SM2.Point :=
  List.zipWith entryAffine (t.getD 0 []) (t.getD 1 [])

/-- the entry for bit pattern `idx` (`none` out of range) -/
def ent (T : List Spec.SM2.Point) (idx : Nat) : Spec.SM2.Point := T.getD (idx - 1) none

/-- comb check of one sub-table with base point `B` (the claimed `[2^e0]G`) and bit distance `d`:
    entry `2^t` is `d` doublings of entry `2^(t-1)` (entry 1 is `B`), and entry `2^t + i` is
    entry `i` + entry `2^t` for `1 ≤ i < 2^t` -/
def checkComb (T : List Spec.SM2.Point) (B : Spec.SM2.Point) (d : Nat) : Nat → Bool
  | 0 => true
  | w + 1 =>
    checkComb T B d w &&
    ptEq (ent T (2 ^ w)) (if w = 0 then B else dblN d (ent T (2 ^ (w - 1)))) &&
    (List.range (2 ^ w - 1)).all (fun i =>
      ptEq (ent T (2 ^ w + (i + 1))) (add (ent T (i + 1)) (ent T (2 ^ w))))

/-- the base point of sub-table `j`: `r` doublings of `G` for `j = 0`, else `it` doublings of the
    first entry of sub-table `j - 1` -/
def basePt (first : List (List (List (List Nat)))) (it r j : Nat) : Spec.SM2.Point :=
  if j = 0 then dblN r G else dblN it (ent (pts (first.getD (j - 1) [])) 1)

/-- check of sub-table `j` of a `w`-`s`-`it`-`r` comb -/
def checkSub (first : List (List (List (List Nat)))) (w s it r j : Nat) : Bool :=
  checkComb (pts (first.getD j [])) (basePt first it r j) (s * it) w

/-- check of the remainder table: entry 1 is `G`, entry `i + 2` is entry `i + 1` plus `G` -/
def checkRem (second : List (List (List Nat))) (r : Nat) : Bool :=
  ptEq (ent (pts second) 1) G &&
  (List.range (2 ^ r - 2)).all (fun i =>
    ptEq (ent (pts second) (i + 2)) (add (ent (pts second) (i + 1)) G))

/-! ### shape -/

/-- four limbs below 2^64 whose value is reduced mod p -/
def limbsOK (l : List Nat) : Bool :=
  l.length == 4 && l.all (fun v => decide (v < 2 ^ 64)) && decide (limbsToNat l < p)

/-- `n` well-formed limb vectors -/
def coordsOK (xs : List (List Nat)) (n : Nat) : Bool := xs.length == n && xs.all limbsOK

/-- an x/y table of `n` entries -/
def xyOK (t : List (List (List Nat))) (n : Nat) : Bool :=
  t.length == 2 && coordsOK (t.getD 0 []) n && coordsOK (t.getD 1 []) n

/-- `s` sub-tables of `2^w - 1` entries -/
def firstOK (first : List (List (List (List Nat)))) (w s : Nat) : Bool :=
  first.length == s && first.all (fun t => xyOK t (2 ^ w - 1))

end SMGo.Proofs.Tables
