import SMGo.Proofs.ISAValFusedPhase5
set_option linter.unusedSimpArgs false
namespace SMGo.Proofs.ISAVal
open SMGo.Model.ISAVal SMGo.Model.GCM SMGo.Proofs.GCM SMGo.Proofs.ISATouch
open SMGo.Model.ISA (Reg Opd Instr)

/-- the machine state at the end of the common prefix (instruction 1499): what the rest of `sealAsm` / `openAsm` starts from -/
structure AfterPrefix (rk nonce aad : List Nat) (np tp ap : Nat) (s : State) : Prop where
  pc : PCtx s
  env : FEnv s rk np tp ap nonce aad
  gh : GhCtx (hKey rk) s
  rkp : greg s 15 = 73014444032
  j0 : vreg s 14 = unlanes 8 (nonce ++ [0, 0, 0, 1])
  tmask : vreg s 15 = unlanes 8 (encB rk (nonce ++ [0, 0, 0, 1]))
  tag : vreg s 21 = (if aad.length < 16 then 0 else ghAllN (hKey rk) (aad.length / 16) 0 aad)
  taglt : vreg s 21 < 2 ^ 128

set_option maxRecDepth 100000 in
/-- **the common prefix of `sealAsm` and `openAsm` (instructions 0 … 1498) for a 12-byte nonce and additional data of a whole
    number of blocks**: constants, H = E(0¹²⁸) and its powers, J0, the tag mask E(J0), the GHASH of the additional data -/
theorem prefix_partial (r : Routine) (ps : PrefixSlices r) (lJ : findPc r 4841 = some (r.drop 814)) (lb : SPreLabels r)
    (s0 : State) (hG : s0.gpr.length = 16) (hV : s0.vec.length = 32) (hK : s0.kreg.length = 8)
    (rk nonce aad : List Nat) (np tp ap : Nat) (e : FEnv s0 rk np tp ap nonce aad)
    (hrk : rk.length = 32) (hrkb : ∀ x ∈ rk, x < 2 ^ 32) (hn : nonce.length = 12) (hnb : ∀ x ∈ nonce, x < 2 ^ 8) (hnp : np + 16 < 2 ^ 63)
    (hal : aad.length % 16 = 0) (hab : ∀ x ∈ aad, x < 2 ^ 8) (hap : ap + aad.length < 2 ^ 63) :
    ∃ s5 N, N ≤ 34 * (aad.length / 16) + 1200 ∧ Reach r 0 s0 1499 s5 N ∧ AfterPrefix rk nonce aad np tp ap s5 := by
  obtain ⟨s1, r1, p1, e1, h19, g1, _⟩ := phaseH r ps s0 hG hV hK rk np tp ap nonce aad e hrk hrkb
  obtain ⟨s2, r2, p2, e2, gc2, g2, _⟩ := phaseGh r ps s1 rk np tp ap nonce aad p1 e1 h19 g1
  obtain ⟨s3, r3, p3, e3, gc3, g3, v14, v6, _, _⟩ := phaseJ0_12 r ps lJ s2 rk np tp ap nonce aad p2 e2 _ gc2 g2 hn hnb hnp
  have hjb : (nonce ++ [0, 0, 0, 1]).length = 16 := by simp [hn]
  have hjbb : ∀ x ∈ nonce ++ [0, 0, 0, 1], x < 2 ^ 8 := by
    intro x hx
    rw [List.mem_append] at hx
    rcases hx with h1 | h1
    · exact hnb x h1
    · simp only [List.mem_cons, List.not_mem_nil, or_false] at h1
      rcases h1 with rfl | rfl | rfl | rfl <;> decide
  obtain ⟨s4, r4, p4, e4, gc4, g4, v15, k14, _, _⟩ := phaseT r ps s3 rk np tp ap nonce aad p3 e3 _ gc3 g3 hrk hrkb _ hjb hjbb v6
  obtain ⟨s5, N, hN, r5, p5, e5, gc5, v21, lt21, k5⟩ := phaseA_whole r ps lb s4 rk np tp ap nonce aad p4 e4 _ gc4 hal hab hap
  refine ⟨s5, 549 + 79 + 15 + 530 + N, by omega, ((((r1.trans r2).trans r3).trans r4).trans r5).cast rfl rfl,
    ⟨p5, e5, gc5, ?_, ?_, ?_, v21, lt21⟩⟩
  · rw [k5.g 15 (by decide)]; exact g4
  · rw [k5.v 14 (by decide), k14]; exact v14
  · rw [k5.v 15 (by decide)]; exact v15

end SMGo.Proofs.ISAVal
