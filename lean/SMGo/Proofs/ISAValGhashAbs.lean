import SMGo.Proofs.ISAValGhashRb
namespace SMGo.Proofs.ISAVal
open SMGo.Model.ISAVal SMGo.Model.ISA

/-! ### instruction steps on an abstract state -/

def setVreg (s : State) (d r : Nat) : State := { s with vec := s.vec.set d r }
def setGreg (s : State) (d r : Nat) : State := { s with gpr := s.gpr.set d r }
def setKreg (s : State) (d r : Nat) : State := { s with kreg := s.kreg.set d r }
def setFlags (s : State) (f : Flags) : State := { s with flags := f }
def setMem (s : State) (m : List Region) : State := { s with mem := m }
def kregD (s : State) (n : Nat) : Nat := s.kreg.getD n 0

theorem getElem?_getD (l : List Nat) (n : Nat) (h : n < l.length) : l[n]? = some (l.getD n 0) := by
  rw [List.getD_eq_getElem?_getD, List.getElem?_eq_getElem h]; rfl

theorem getD_set_eq (l : List Nat) (d r : Nat) (h : d < l.length) : (l.set d r).getD d 0 = r := by
  rw [List.getD_eq_getElem?_getD, List.getElem?_set_self h]; rfl
theorem getD_set_ne (l : List Nat) (d n r : Nat) (h : n ≠ d) : (l.set d r).getD n 0 = l.getD n 0 := by
  rw [List.getD_eq_getElem?_getD, List.getD_eq_getElem?_getD, List.getElem?_set_ne (Ne.symm h)]

@[simp] theorem vreg_setVreg_ne (s : State) (d r n : Nat) (h : n ≠ d) : vreg (setVreg s d r) n = vreg s n :=
  getD_set_ne _ _ _ _ h
theorem vreg_setVreg_eq (s : State) (d r : Nat) (h : d < s.vec.length) : vreg (setVreg s d r) d = r :=
  getD_set_eq _ _ _ h
@[simp] theorem greg_setGreg_ne (s : State) (d r n : Nat) (h : n ≠ d) : greg (setGreg s d r) n = greg s n :=
  getD_set_ne _ _ _ _ h
theorem greg_setGreg_eq (s : State) (d r : Nat) (h : d < s.gpr.length) : greg (setGreg s d r) d = r :=
  getD_set_eq _ _ _ h
@[simp] theorem vreg_setGreg (s : State) (d r n : Nat) : vreg (setGreg s d r) n = vreg s n := rfl
@[simp] theorem greg_setVreg (s : State) (d r n : Nat) : greg (setVreg s d r) n = greg s n := rfl
@[simp] theorem vreg_setFlags (s : State) (f : Flags) (n : Nat) : vreg (setFlags s f) n = vreg s n := rfl
@[simp] theorem greg_setFlags (s : State) (f : Flags) (n : Nat) : greg (setFlags s f) n = greg s n := rfl
@[simp] theorem vreg_setKreg (s : State) (d r n : Nat) : vreg (setKreg s d r) n = vreg s n := rfl
@[simp] theorem greg_setKreg (s : State) (d r n : Nat) : greg (setKreg s d r) n = greg s n := rfl
@[simp] theorem vreg_setMem (s : State) (m : List Region) (n : Nat) : vreg (setMem s m) n = vreg s n := rfl
@[simp] theorem greg_setMem (s : State) (m : List Region) (n : Nat) : greg (setMem s m) n = greg s n := rfl
@[simp] theorem lenV_setVreg (s : State) (d r : Nat) : (setVreg s d r).vec.length = s.vec.length := by simp [setVreg]
@[simp] theorem lenG_setGreg (s : State) (d r : Nat) : (setGreg s d r).gpr.length = s.gpr.length := by simp [setGreg]
@[simp] theorem lenK_setKreg (s : State) (d r : Nat) : (setKreg s d r).kreg.length = s.kreg.length := by simp [setKreg]

section
variable (s : State)

theorem a_vec3 (mn : Mn) (vl a b d r w : Nat) (hmn : isVec3 mn = true) (hvl : validVl vl = true)
    (ha : a < s.vec.length) (hb : b < s.vec.length) (hd : d < s.vec.length)
    (hr : vec3 mn vl (vreg s a) (vreg s b) = some (r, w)) :
    execD s (ins mn [R a, R b, R d] vl) = .ok (setVreg s d r) := by
  obtain ⟨g, v, k, fl, mem, syms, frame⟩ := s
  exact execD_vec3 g v k fl mem syms frame mn vl a b d _ _ r w hmn hvl (getElem?_getD v a ha) (getElem?_getD v b hb) hd hr

theorem a_vecImm (mn : Mn) (vl : Nat) (imm : Int) (a d r : Nat) (hmn : isVecImm mn = true) (hvl : validVl vl = true)
    (ha : a < s.vec.length) (hd : d < s.vec.length)
    (hr : vecImm mn vl (imm64 imm % 256) (vreg s a) = some r) :
    execD s (ins mn [.imm imm, R a, R d] vl) = .ok (setVreg s d r) := by
  obtain ⟨g, v, k, fl, mem, syms, frame⟩ := s
  exact execD_vecImm g v k fl mem syms frame mn vl imm a d _ r hmn hvl (getElem?_getD v a ha) hd hr

theorem a_vpermq_imm (vl : Nat) (imm : Int) (a d r : Nat) (hvl : validVl vl = true)
    (ha : a < s.vec.length) (hd : d < s.vec.length)
    (hr : vecImm .VPERMQ vl (imm64 imm % 256) (vreg s a) = some r) :
    execD s (ins .VPERMQ [.imm imm, R a, R d] vl) = .ok (setVreg s d r) := by
  obtain ⟨g, v, k, fl, mem, syms, frame⟩ := s
  exact execD_vpermq_imm g v k fl mem syms frame vl imm a d _ r hvl (getElem?_getD v a ha) hd hr

theorem a_vpermq_reg (vl a b d r w : Nat) (hvl : validVl vl = true)
    (ha : a < s.vec.length) (hb : b < s.vec.length) (hd : d < s.vec.length)
    (hr : vec3 .VPERMQ vl (vreg s a) (vreg s b) = some (r, w)) :
    execD s (ins .VPERMQ [R a, R b, R d] vl) = .ok (setVreg s d r) := by
  obtain ⟨g, v, k, fl, mem, syms, frame⟩ := s
  exact execD_vpermq_reg g v k fl mem syms frame vl a b d _ _ r w hvl (getElem?_getD v a ha) (getElem?_getD v b hb) hd hr

theorem a_vpermq_mask (vl a b kk d r w : Nat) (hvl : validVl vl = true)
    (ha : a < s.vec.length) (hb : b < s.vec.length) (hk : kk < s.kreg.length) (hd : d < s.vec.length)
    (hr : vec3 .VPERMQ vl (vreg s a) (vreg s b) = some (r, w)) :
    execD s (ins .VPERMQ [R a, R b, K kk, R d] vl)
      = .ok (setVreg s d (mergeMask w (8 * vl / w) (kregD s kk) r (vreg s d))) := by
  obtain ⟨g, v, k, fl, mem, syms, frame⟩ := s
  exact execD_vpermq_mask g v k fl mem syms frame vl a b kk d _ _ _ _ r w hvl (getElem?_getD v a ha) (getElem?_getD v b hb)
    (getElem?_getD k kk hk) (getElem?_getD v d hd) hd hr

theorem a_vmov_load (vl b : Nat) (disp : Int) (d : Nat) (bs : List Nat) (hvl : validVl vl = true)
    (hb : b < s.gpr.length) (hd : d < s.vec.length)
    (hload : readMem s.mem ((greg s b + 0 + imm64 disp) % 2 ^ 64) vl = .ok bs) :
    execD s (ins .VMOVDQU32 [M b disp, R d] vl) = .ok (setVreg s d (unlanes 8 bs)) := by
  obtain ⟨g, v, k, fl, mem, syms, frame⟩ := s
  exact execD_vmov_load g v k fl mem syms frame vl b disp d _ bs hvl (getElem?_getD g b hb) hd hload

theorem a_vmov_store (vl a b : Nat) (disp : Int) (mem' : List Region) (hvl : validVl vl = true)
    (hb : b < s.gpr.length) (ha : a < s.vec.length)
    (hstore : writeMem s.mem ((greg s b + 0 + imm64 disp) % 2 ^ 64) (lanes 8 vl (vreg s a)) = .ok mem') :
    execD s (ins .VMOVDQU32 [R a, M b disp] vl) = .ok (setMem s mem') := by
  obtain ⟨g, v, k, fl, mem, syms, frame⟩ := s
  exact execD_vmov_store g v k fl mem syms frame vl a b disp _ _ mem' hvl (getElem?_getD g b hb) (getElem?_getD v a ha) hstore

theorem a_broadcast_x2 (vl b : Nat) (disp : Int) (d : Nat) (bs : List Nat) (hvl : validVl vl = true)
    (hb : b < s.gpr.length) (hd : d < s.vec.length)
    (hload : readMem s.mem ((greg s b + 0 + imm64 disp) % 2 ^ 64) 8 = .ok bs) :
    execD s (ins .VBROADCASTI32X2 [M b disp, R d] vl)
      = .ok (setVreg s d (unlanes 64 (List.replicate (vl / 8) (unlanes 8 bs)))) := by
  obtain ⟨g, v, k, fl, mem, syms, frame⟩ := s
  exact execD_broadcast_x2 g v k fl mem syms frame vl b disp d _ bs hvl (getElem?_getD g b hb) hd hload

theorem a_broadcast_x4 (vl b : Nat) (disp : Int) (d : Nat) (bs : List Nat) (hvl : (vl == 32 || vl == 64) = true)
    (hb : b < s.gpr.length) (hd : d < s.vec.length)
    (hload : readMem s.mem ((greg s b + 0 + imm64 disp) % 2 ^ 64) 16 = .ok bs) :
    execD s (ins .VBROADCASTI32X4 [M b disp, R d] vl)
      = .ok (setVreg s d (unlanes 128 (List.replicate (vl / 16) (unlanes 8 bs)))) := by
  obtain ⟨g, v, k, fl, mem, syms, frame⟩ := s
  exact execD_broadcast_x4 g v k fl mem syms frame vl b disp d _ bs hvl (getElem?_getD g b hb) hd hload

theorem a_leaq (name : String) (off d a : Nat) (hs : lookup s.syms name = some a) (hd : d < s.gpr.length) :
    execD s (ins .LEAQ [.sym name off, G d] 0) = .ok (setGreg s d (a + off)) := by
  obtain ⟨g, v, k, fl, mem, syms, frame⟩ := s
  exact execD_leaq g v k fl mem syms frame name off d a hs hd

theorem a_movq_frame (name : String) (off d a : Nat) (hs : lookup s.frame name = some a) (hd : d < s.gpr.length) :
    execD s (ins .MOVQ [.frame name off, G d] 0) = .ok (setGreg s d a) := by
  obtain ⟨g, v, k, fl, mem, syms, frame⟩ := s
  exact execD_movq_frame g v k fl mem syms frame name off d a hs hd

theorem a_movq_imm (imm : Int) (d : Nat) (hd : d < s.gpr.length) :
    execD s (ins .MOVQ [.imm imm, G d] 0) = .ok (setGreg s d (imm64 imm)) := by
  obtain ⟨g, v, k, fl, mem, syms, frame⟩ := s
  exact execD_movq_imm g v k fl mem syms frame imm d hd

theorem a_kmovw (a d : Nat) (ha : a < s.gpr.length) (hd : d < s.kreg.length) :
    execD s (ins .KMOVW [G a, K d] 0) = .ok (setKreg s d (greg s a % 2 ^ 16)) := by
  obtain ⟨g, v, k, fl, mem, syms, frame⟩ := s
  exact execD_kmovw g v k fl mem syms frame a d _ (getElem?_getD g a ha) hd

theorem a_addq_imm (imm : Int) (d : Nat) (hd : d < s.gpr.length) :
    execD s (ins .ADDQ [.imm imm, G d] 0)
      = .ok (setFlags (setGreg s d (addF 8 (greg s d) (imm64 imm)).1) (addF 8 (greg s d) (imm64 imm)).2) := by
  obtain ⟨g, v, k, fl, mem, syms, frame⟩ := s
  exact execD_addq_imm g v k fl mem syms frame imm d _ (getElem?_getD g d hd) hd

theorem a_subq_imm (imm : Int) (d : Nat) (hd : d < s.gpr.length) :
    execD s (ins .SUBQ [.imm imm, G d] 0)
      = .ok (setFlags (setGreg s d (subF 8 (greg s d) (imm64 imm)).1) (subF 8 (greg s d) (imm64 imm)).2) := by
  obtain ⟨g, v, k, fl, mem, syms, frame⟩ := s
  exact execD_subq_imm g v k fl mem syms frame imm d _ (getElem?_getD g d hd) hd

theorem a_cmpq_imm (imm : Int) (a : Nat) (ha : a < s.gpr.length) :
    execD s (ins .CMPQ [G a, .imm imm] 0) = .ok (setFlags s (subF 8 (greg s a) (imm64 imm)).2) := by
  obtain ⟨g, v, k, fl, mem, syms, frame⟩ := s
  simp only [execD, ins, G, exCmpq, getG, getElem?_getD g a ha, setFlags, greg, ok_bind, pure_eq_ok]

end
end SMGo.Proofs.ISAVal
