import SMGo.Proofs.ISAValLadX16A
set_option linter.unusedSimpArgs false
namespace SMGo.Proofs.ISAVal
open SMGo.Model.ISAVal SMGo.Model.GCM SMGo.Proofs.GCM SMGo.Proofs.ISATouch
open SMGo.Model.ISA (Reg Opd Instr)

/-- `concatenate`: `VALIGND $(vl/8), a, b, t; VPADDD a, t, d` puts `a` in the low half and `b` in the high half -/
def catV (vl a b : Nat) : Nat :=
  map2 32 (vl / 4) (fun x y => (y + x) % 2 ^ 32) a (((b * 2 ^ (8 * vl) + a % 2 ^ (8 * vl)) >>> (32 * (vl / 8))) % 2 ^ (8 * vl))

theorem catV_dword (vl a b j : Nat) (hvl : vl % 8 = 0) (ha : a < 2 ^ (4 * vl)) (hb : b < 2 ^ (4 * vl)) (hj : j < vl / 4) :
    lane 32 j (catV vl a b) = if j < vl / 8 then lane 32 j a else lane 32 (j - vl / 8) b := by
  have ha0 : ∀ t, vl / 8 ≤ t → lane 32 t a = 0 := fun t ht =>
    lane32_hi_zero (vl / 8) a t (by have : 32 * (vl / 8) = 4 * vl := by omega
                                    rw [this]; exact ha) ht
  have hb0 : ∀ t, vl / 8 ≤ t → lane 32 t b = 0 := fun t ht =>
    lane32_hi_zero (vl / 8) b t (by have : 32 * (vl / 8) = 4 * vl := by omega
                                    rw [this]; exact hb) ht
  unfold catV
  rw [lane32_vpaddd (vl / 4) j _ _ hj, lane32_valignd vl (vl / 8) a b j hj (by omega)]
  by_cases h1 : j < vl / 8
  · rw [if_pos h1, if_pos (by omega), ha0 (j + vl / 8) (by omega), Nat.zero_add, Nat.mod_eq_of_lt (lane_lt 32 j a)]
  · rw [if_neg h1, if_neg (by omega), ha0 j (by omega), Nat.add_zero, Nat.mod_eq_of_lt (lane_lt 32 _ b)]
    congr 1; omega

theorem catV_lt (vl a b : Nat) (hvl : vl % 4 = 0) : catV vl a b < 2 ^ (8 * vl) := by
  have := vpaddd_lt (vl / 4) a (((b * 2 ^ (8 * vl) + a % 2 ^ (8 * vl)) >>> (32 * (vl / 8))) % 2 ^ (8 * vl))
  have e : 32 * (vl / 4) = 8 * vl := by omega
  rw [e] at this; exact this

theorem catV_bytes (vl a b : Nat) (hvl : vl % 8 = 0) (ha : a < 2 ^ (4 * vl)) (hb : b < 2 ^ (4 * vl)) :
    lanes 8 vl (catV vl a b) = lanes 8 (vl / 2) a ++ lanes 8 (vl / 2) b := by
  have e1 : vl = 4 * (vl / 8 + vl / 8) := by omega
  have e2 : vl / 2 = 4 * (vl / 8) := by omega
  have h := lanes_dwords (vl / 8 + vl / 8) (catV vl a b)
  rw [← e1] at h
  rw [e2, lanes_dwords (vl / 8) a, lanes_dwords (vl / 8) b, h, flatMap_range_add]
  congr 1
  · apply flatMap_range_congr
    intro i hi
    rw [catV_dword vl a b i hvl ha hb (by omega), if_pos hi]
  · apply flatMap_range_congr
    intro i hi
    rw [catV_dword vl a b _ hvl ha hb (by omega), if_neg (by omega)]
    congr 2; omega

end SMGo.Proofs.ISAVal
namespace SMGo.Proofs.ISAVal
open SMGo.Model.ISAVal SMGo.Model.GCM SMGo.Proofs.GCM SMGo.Proofs.ISATouch
open SMGo.Model.ISA (Reg Opd Instr)

set_option maxRecDepth 100000 in
/-- `4m` bytes as four chunks of `m` -/
theorem chunks4g (src : List Nat) (so m : Nat) (hso : so + 4 * m ≤ src.length) :
    (src.drop so).take (4 * m) = (src.drop (so + 0)).take m ++ ((src.drop (so + m)).take m ++ ((src.drop (so + 2 * m)).take m ++
      (src.drop (so + 3 * m)).take m)) := by
  apply List.ext_getElem
  · simp only [List.length_append, List.length_take, List.length_drop]; omega
  · intro i h1 h2
    simp only [List.length_take, List.length_drop] at h1
    simp only [List.getElem_take, List.getElem_drop, List.getElem_append, List.length_take, List.length_drop]
    split
    · rfl
    · split
      · congr 1; omega
      · split
        · congr 1; omega
        · congr 1; omega

/-- `loopX8`: xor with 128 input bytes, concatenation to two Z registers, store -/
def xs8Code : List DInstr :=
  [ins .VMOVDQU32 [M 10 0, R 1] 32, ins .VMOVDQU32 [M 10 32, R 2] 32, ins .VMOVDQU32 [M 10 64, R 3] 32, ins .VMOVDQU32 [M 10 96, R 4] 32,
   ins .VPXORD [R 1, R 9, R 9] 32, ins .VPXORD [R 2, R 8, R 8] 32, ins .VPXORD [R 3, R 7, R 7] 32, ins .VPXORD [R 4, R 6, R 6] 32,
   ins .VMOVDQA64 [R 9, R 2] 32, ins .VMOVDQA64 [R 8, R 3] 32, ins .VALIGND [.imm 8, R 2, R 3, R 3] 64, ins .VPADDD [R 2, R 3, R 9] 64,
   ins .VMOVDQA64 [R 7, R 2] 32, ins .VMOVDQA64 [R 6, R 3] 32, ins .VALIGND [.imm 8, R 2, R 3, R 3] 64, ins .VPADDD [R 2, R 3, R 7] 64,
   ins .VMOVDQU32 [R 9, M 13 0] 64, ins .VMOVDQU32 [R 7, M 13 64] 64]

theorem catV_unlanes (vl : Nat) (x y : List Nat) (hvl : vl % 8 = 0) (hx : x.length = vl / 2) (hy : y.length = vl / 2)
    (hxb : ∀ b ∈ x, b < 2 ^ 8) (hyb : ∀ b ∈ y, b < 2 ^ 8) : catV vl (unlanes 8 x) (unlanes 8 y) = unlanes 8 (x ++ y) := by
  have e : 8 * (vl / 2) = 4 * vl := by omega
  have hX : unlanes 8 x < 2 ^ (4 * vl) := by have := unlanes_lt 8 x hxb; rw [hx, e] at this; exact this
  have hY : unlanes 8 y < 2 ^ (4 * vl) := by have := unlanes_lt 8 y hyb; rw [hy, e] at this; exact this
  have h := catV_bytes vl _ _ hvl hX hY
  rw [lanes_unlanes 8 (vl / 2) x hxb hx, lanes_unlanes 8 (vl / 2) y hyb hy] at h
  rw [← h, unlanes_lanes, Nat.mod_eq_of_lt (catV_lt vl _ _ (by omega))]

end SMGo.Proofs.ISAVal
