/-
  Lemmas for property C20, second half (model side): the bit-extraction helpers of utils.go read
  the bits of the big-endian value, and the DecomposeNAF loop (run on a 32-byte input into a
  zeroed 257-entry output) produces exactly the textbook recoding `Spec.Utils.naf`.
-/
import SMGo.Proofs.UtilsCmp
import SMGo.Proofs.UtilsNafSpec
namespace SMGo.Proofs.UtilsNaf
open SMGo SMGo.Model.Utils SMGo.Spec.Utils SMGo.Proofs.UtilsCmp SMGo.Proofs.UtilsNafSpec

theorem getElem_toNatBE : ∀ (s : Bytes) (i : Nat) (h : i < s.length),
    s[i].toNat = Bytes.toNatBE s / 256 ^ (s.length - 1 - i) % 256 := by
  intro s
  induction s with
  | nil => intro i h; simp at h
  | cons a xs ih =>
    intro i h
    have hlt := toNatBE_lt xs
    have ha : a.toNat < 256 := UInt8.toNat_lt a
    rw [toNatBE_cons]
    cases i with
    | zero =>
      simp only [List.getElem_cons_zero, List.length_cons, Nat.add_sub_cancel, Nat.sub_zero]
      rw [Nat.add_comm, Nat.add_mul_div_right _ _ (Nat.pow_pos (by decide)),
        Nat.div_eq_of_lt hlt, Nat.zero_add, Nat.mod_eq_of_lt ha]
    | succ i =>
      simp only [List.length_cons] at h
      simp only [List.getElem_cons_succ, List.length_cons]
      rw [ih i (by omega)]
      have e : xs.length + 1 - 1 - (i + 1) = xs.length - 1 - i := by omega
      rw [e]
      have e2 : xs.length = (i + 1) + (xs.length - 1 - i) := by omega
      generalize xs.length - 1 - i = t at e2 ⊢
      rw [e2, Nat.pow_add, ← Nat.mul_assoc, Nat.add_comm, Nat.add_mul_div_right _ _ (Nat.pow_pos (by decide)),
        Nat.pow_succ, ← Nat.mul_assoc, Nat.add_mul_mod_self_right]

theorem bit_core (X r : Nat) (hr : r < 8) : (X % 256 / 2 ^ r) % 2 = X / 2 ^ r % 2 := by
  have : r = 0 ∨ r = 1 ∨ r = 2 ∨ r = 3 ∨ r = 4 ∨ r = 5 ∨ r = 6 ∨ r = 7 := by omega
  rcases this with rfl | rfl | rfl | rfl | rfl | rfl | rfl | rfl <;> omega

theorem bits_core (X r w : Nat) (hr : r < 8) (hw1 : 1 ≤ w) (hw : w ≤ 7) :
    (X % 256 / 2 ^ r) % 2 ^ (w + 1)
      + (if r + w + 1 > 7 then ((X / 256 % 256) % 2 ^ (r + w + 1 - 8)) * 2 ^ (w + 1 - (r + w + 1 - 8)) else 0)
      = X / 2 ^ r % 2 ^ (w + 1) := by
  have h1 : r = 0 ∨ r = 1 ∨ r = 2 ∨ r = 3 ∨ r = 4 ∨ r = 5 ∨ r = 6 ∨ r = 7 := by omega
  have h2 : w = 1 ∨ w = 2 ∨ w = 3 ∨ w = 4 ∨ w = 5 ∨ w = 6 ∨ w = 7 := by omega
  rcases h1 with rfl | rfl | rfl | rfl | rfl | rfl | rfl | rfl <;>
  rcases h2 with rfl | rfl | rfl | rfl | rfl | rfl | rfl <;> simp <;> omega

theorem div_two_pow_split (k j : Nat) : k / 2 ^ j = k / 256 ^ (j / 8) / 2 ^ (j % 8) := by
  rw [Nat.div_div_eq_div_mul]; congr 1
  have : (256 : Nat) = 2 ^ 8 := rfl
  rw [this, ← Nat.pow_mul, ← Nat.pow_add, Nat.div_add_mod]

theorem idx_eq (s : Bytes) (i : Nat) (h : i < s.length) : Outcome.idx s i = .ok s[i] := by
  simp [Outcome.idx, List.getElem?_eq_getElem h]

theorem byte_at (s : Bytes) (hs : s.length = 32) (q : Nat) (hq : q ≤ 31) :
    Outcome.idx s (31 - q) = .ok s[31 - q] ∧
      (s[31 - q]'(by omega)).toNat = Bytes.toNatBE s / 256 ^ q % 256 := by
  refine ⟨idx_eq s _ (by omega), ?_⟩
  rw [getElem_toNatBE s (31 - q) (by omega)]
  have : s.length - 1 - (31 - q) = q := by omega
  rw [this]

theorem getBit_eq (s : Bytes) (hs : s.length = 32) (j : Nat) (hj : j ≤ 255) (c : Bool) :
    getBit s (255 - j) c = .ok
      (if !c then (Bytes.toNatBE s / 2 ^ j % 2, false)
       else if Bytes.toNatBE s / 2 ^ j % 2 = 0 then (1, false) else (0, true)) := by
  have e1 : (255 - j) / 8 = 31 - j / 8 := by omega
  have e2 : 7 - (255 - j) % 8 = j % 8 := by omega
  obtain ⟨h1, h2⟩ := byte_at s hs (j / 8) (by omega)
  unfold getBit
  simp only [e1, e2, h1, Outcome.bind_ok, h2, Nat.shiftRight_eq_div_pow]
  rw [bit_core _ _ (Nat.mod_lt _ (by decide)), ← div_two_pow_split]
  cases c
  · simp
  · simp only [Bool.not_true, Bool.false_eq_true, if_false, Outcome.pure_eq]
    split <;> rfl

theorem and_mask (x n : Nat) : x &&& (2 ^ n - 1) = x % 2 ^ n := Nat.and_two_pow_sub_one_eq_mod x n

theorem or_shift (a b n : Nat) (h : a < 2 ^ n) : a ||| (b <<< n) = a + b * 2 ^ n := by
  rw [Nat.or_comm, ← Nat.shiftLeft_add_eq_or_of_lt h, Nat.shiftLeft_eq, Nat.add_comm]

theorem getBits_eq (s : Bytes) (hs : s.length = 32) (j : Nat) (hj : j ≤ 255) (w : Nat)
    (hw1 : 1 ≤ w) (hw : w ≤ 7) :
    getBits s (255 - j) w = .ok (Bytes.toNatBE s / 2 ^ j % 2 ^ (w + 1)) := by
  have e1 : (255 - j) / 8 = 31 - j / 8 := by omega
  have e2 : 7 - (255 - j) % 8 = j % 8 := by omega
  have hr : j % 8 < 8 := Nat.mod_lt _ (by decide)
  obtain ⟨h1, h2⟩ := byte_at s hs (j / 8) (by omega)
  have core := bits_core (Bytes.toNatBE s / 256 ^ (j / 8)) (j % 8) w hr hw1 hw
  rw [← div_two_pow_split] at core
  unfold getBits
  simp only [e1, e2, h1, Outcome.bind_ok, h2, Nat.shiftRight_eq_div_pow, and_mask]
  by_cases hc : j % 8 + w + 1 > 7 ∧ 31 - j / 8 > 0
  · rw [if_pos hc]
    obtain ⟨h3, h4⟩ := byte_at s hs (j / 8 + 1) (by omega)
    have e3 : 31 - j / 8 - 1 = 31 - (j / 8 + 1) := by omega
    rw [Nat.pow_succ, ← Nat.div_div_eq_div_mul] at h4
    simp only [e3, h3, Outcome.bind_ok, h4, Outcome.pure_eq]
    rw [if_pos hc.1] at core
    rw [or_shift, core]
    have e4 : w + 1 - (j % 8 + w + 1 - 8) = 8 - j % 8 := by omega
    rw [e4]
    have hb : Bytes.toNatBE s / 256 ^ (j / 8) % 256 < 256 := Nat.mod_lt _ (by decide)
    generalize Bytes.toNatBE s / 256 ^ (j / 8) % 256 = b at hb
    have : b / 2 ^ (j % 8) < 2 ^ (8 - j % 8) := by
      apply Nat.div_lt_of_lt_mul
      rw [← Nat.pow_add]
      have : j % 8 + (8 - j % 8) = 8 := by omega
      rw [this]; exact hb
    exact Nat.lt_of_le_of_lt (Nat.mod_le _ _) this
  · rw [if_neg hc, Outcome.pure_eq, ← core]
    by_cases hc1 : j % 8 + w + 1 > 7
    · have hq : j / 8 = 31 := by omega
      have hlt := toNatBE_lt s
      rw [hs] at hlt
      have : Bytes.toNatBE s / 256 ^ (j / 8) / 256 = 0 := by
        rw [Nat.div_div_eq_div_mul, ← Nat.pow_succ, hq]
        exact Nat.div_eq_of_lt hlt
      rw [if_pos hc1, this]; simp
    · rw [if_neg hc1]; simp

theorem nafLoop_stop (s : Bytes) (n w fuel j : Nat) (c : Bool) (out : List Int) (h : ¬ j + 1 < n) :
    nafLoop s n w fuel j c out = .ok (out, c) := by
  cases fuel <;> simp [nafLoop, h]

theorem nafLoop_zero_bit (s : Bytes) (w fuel j : Nat) (c : Bool) (out : List Int) (hj : j + 1 < 257)
    (b : Nat) (c1 : Bool) (hb : getBit s (255 - j) c = .ok (b, c1)) (hb1 : b ≠ 1) :
    nafLoop s 257 w (fuel + 1) j c out = nafLoop s 257 w fuel (j + 1) c1 out := by
  have e : 257 - j - 1 - 1 = 255 - j := by omega
  simp only [nafLoop, hj, if_true, e, hb, Outcome.bind_ok, hb1, if_false]

theorem nafLoop_digit (s : Bytes) (w fuel j : Nat) (c : Bool) (out : List Int) (hj : j + 1 < 257)
    (c1 : Bool) (hb : getBit s (255 - j) c = .ok (1, c1)) (d0 : Nat)
    (hg : getBits s (255 - j) w = .ok d0) (d2 : Int) (c2 : Bool)
    (hd : (if (if d0 % 2 = 0 ∧ c = true then (d0 : Int) + 1 else (d0 : Int)) ≥ ((2 ^ w : Nat) : Int)
            then ((if d0 % 2 = 0 ∧ c = true then (d0 : Int) + 1 else (d0 : Int)) - ((2 ^ (w + 1) : Nat) : Int), true)
            else ((if d0 % 2 = 0 ∧ c = true then (d0 : Int) + 1 else (d0 : Int)), c1)) = (d2, c2)) :
    nafLoop s 257 w (fuel + 1) j c out
      = (setIdx out j d2 >>= fun out' => nafLoop s 257 w fuel (j + w + 1) c2 out') := by
  have e : 257 - j - 1 - 1 = 255 - j := by omega
  simp only [nafLoop, hj, if_true, e, hb, Outcome.bind_ok, hg]
  simp only [hd]

/-- the bit produced by getBit is the low bit of (remaining value + carry) -/
theorem bit_arith (X : Nat) (c : Bool) :
    ∃ b c1, (if !c then (X % 2, false) else if X % 2 = 0 then (1, false) else (0, true)) = (b, c1) ∧
      b = (X + c.toNat) % 2 ∧ (b = 1 → c1 = false) ∧ (b ≠ 1 → X / 2 + c1.toNat = (X + c.toNat) / 2) := by
  cases c
  · refine ⟨X % 2, false, by simp, by simp, by simp, by simp⟩
  · by_cases h : X % 2 = 0
    · refine ⟨1, false, by simp [h], by simp; omega, by simp, by simp⟩
    · refine ⟨0, true, by simp [h], by simp; omega, by simp, by simp; omega⟩

theorem odd_carry_mod (w X : Nat) (c : Bool) (hodd : (X + c.toNat) % 2 = 1) :
    (X + c.toNat) % 2 ^ (w + 1) = X % 2 ^ (w + 1) + c.toNat ∧
    (X + c.toNat) / 2 ^ (w + 1) = X / 2 ^ (w + 1) := by
  cases c
  · simp
  · simp only [Bool.toNat_true] at hodd ⊢
    have hX : X % 2 = 0 := by omega
    have h0 : X % 2 ^ (w + 1) % 2 = 0 := by
      rw [Nat.mod_mod_of_dvd _ ⟨2 ^ w, by rw [Nat.pow_succ, Nat.mul_comm]⟩]; exact hX
    have hlt : X % 2 ^ (w + 1) < 2 ^ (w + 1) := Nat.mod_lt _ (Nat.two_pow_pos _)
    have hev := two_pow_even (w + 1) (by omega)
    have h1 := Nat.div_add_mod X (2 ^ (w + 1))
    have h2 := Nat.div_add_mod (X + 1) (2 ^ (w + 1))
    have hlt2 : (X + 1) % 2 ^ (w + 1) < 2 ^ (w + 1) := Nat.mod_lt _ (Nat.two_pow_pos _)
    have key : (X + 1) / 2 ^ (w + 1) = X / 2 ^ (w + 1) := by
      apply Nat.div_eq_of_lt_le
      · have := Nat.div_mul_le_self X (2 ^ (w + 1)); omega
      · rw [Nat.succ_mul, Nat.mul_comm]; omega
    refine ⟨?_, key⟩
    rw [key] at h2
    omega

theorem digit_eq (w X : Nat) (c : Bool) (hodd : (X + c.toNat) % 2 = 1) :
    (if (if X % 2 ^ (w + 1) % 2 = 0 ∧ c = true then ((X % 2 ^ (w + 1) : Nat) : Int) + 1
          else ((X % 2 ^ (w + 1) : Nat) : Int)) ≥ ((2 ^ w : Nat) : Int)
      then ((if X % 2 ^ (w + 1) % 2 = 0 ∧ c = true then ((X % 2 ^ (w + 1) : Nat) : Int) + 1
          else ((X % 2 ^ (w + 1) : Nat) : Int)) - ((2 ^ (w + 1) : Nat) : Int), true)
      else ((if X % 2 ^ (w + 1) % 2 = 0 ∧ c = true then ((X % 2 ^ (w + 1) : Nat) : Int) + 1
          else ((X % 2 ^ (w + 1) : Nat) : Int)), false))
      = (mods w (X + c.toNat), decide (mc w (X + c.toNat) = 1)) := by
  have hd1 : (if X % 2 ^ (w + 1) % 2 = 0 ∧ c = true then ((X % 2 ^ (w + 1) : Nat) : Int) + 1
          else ((X % 2 ^ (w + 1) : Nat) : Int)) = (((X + c.toNat) % 2 ^ (w + 1) : Nat) : Int) := by
    rw [(odd_carry_mod w X c hodd).1]
    cases c
    · simp
    · simp only [Bool.toNat_true] at hodd
      have h0 : X % 2 ^ (w + 1) % 2 = 0 := by
        rw [Nat.mod_mod_of_dvd _ ⟨2 ^ w, by rw [Nat.pow_succ, Nat.mul_comm]⟩]; omega
      simp [h0]
  rw [hd1, mods_val]
  unfold mc
  by_cases h : 2 ^ w ≤ (X + c.toNat) % 2 ^ (w + 1)
  · have h' : (((X + c.toNat) % 2 ^ (w + 1) : Nat) : Int) ≥ ((2 ^ w : Nat) : Int) := by omega
    rw [if_pos h', if_pos h]; simp
  · have h' : ¬ (((X + c.toNat) % 2 ^ (w + 1) : Nat) : Int) ≥ ((2 ^ w : Nat) : Int) := by omega
    rw [if_neg h', if_neg h]; simp

/-- what DecomposeNAF does after its loop -/
def fin (r : Outcome (List Int × Bool)) : Outcome (List Int) :=
  r >>= fun p => if p.2 = true then setIdx p.1 256 1 else pure p.1

theorem decomposeNAF_eq (out : List Int) (s : Bytes) (w : Nat) (hw1 : 1 ≤ w) (hw : w ≤ 7) :
    decomposeNAF (some out) (some s) 257 (w : Int) = fin (nafLoop s 257 w 257 0 false out) := by
  have h : ¬ ((w : Int) ≤ 0 ∨ (w : Int) > 7) := by omega
  unfold decomposeNAF fin
  simp only [h, if_false, Int.toNat_natCast]
  rfl

theorem naf_zero (w : Nat) : ∀ len, naf w len 0 = List.replicate len 0 := by
  intro len
  induction len with
  | zero => rfl
  | succ len ih => rw [naf_succ_even _ _ _ (by decide), ih, List.replicate_succ]

theorem setIdx_append (pre : List Int) (j m : Nat) (d : Int) (hpre : pre.length = j) :
    setIdx (pre ++ List.replicate (m + 1) 0) j d = .ok (pre ++ d :: List.replicate m 0) := by
  unfold setIdx
  have : j < (pre ++ List.replicate (m + 1) 0).length := by simp; omega
  rw [if_pos this]
  subst hpre
  simp [List.replicate_succ]

theorem fin_ok (out : List Int) : fin (.ok (out, false)) = .ok out := rfl

/-- the loop followed by the final carry write, started in the state (outIdx = j, carry = c) with
    the digits below j already written (`pre`) and zeros above, yields `pre` followed by the
    textbook digits of the remaining value -/
theorem loop_correct (s : Bytes) (hs : s.length = 32) (w : Nat) (hw1 : 1 ≤ w) (hw : w ≤ 7) :
    ∀ (fuel j : Nat) (c : Bool) (pre : List Int), pre.length = j → j ≤ 256 → 257 ≤ fuel + j →
      fin (nafLoop s 257 w fuel j c (pre ++ List.replicate (257 - j) 0))
        = .ok (pre ++ naf w (257 - j) (Bytes.toNatBE s / 2 ^ j + c.toNat)) := by
  intro fuel
  induction fuel with
  | zero => intro j c pre _ h1 h2; omega
  | succ fuel ih =>
    intro j c pre hpre hj hf
    have hk : Bytes.toNatBE s < 2 ^ 256 := by
      have := toNatBE_lt s; rw [hs] at this; exact this
    by_cases hj2 : j + 1 < 257
    · -- one more iteration
      have hgb := getBit_eq s hs j (by omega) c
      obtain ⟨b, c1, hbc, hb, hb1, hb0⟩ := bit_arith (Bytes.toNatBE s / 2 ^ j) c
      rw [hbc] at hgb
      have hlen : 257 - j = (256 - j) + 1 := by omega
      by_cases hbit : b = 1
      · -- a non-zero digit
        have hc1 := hb1 hbit
        subst hc1
        subst hbit
        have hodd : (Bytes.toNatBE s / 2 ^ j + c.toNat) % 2 = 1 := by omega
        have hg := getBits_eq s hs j (by omega) w hw1 hw
        rw [nafLoop_digit s w fuel j c _ hj2 false hgb _ hg _ _ (digit_eq w _ c hodd)]
        rw [hlen, setIdx_append pre j _ _ hpre, Outcome.bind_ok, naf_succ_odd _ _ _ hodd]
        have hmc := mc_le_one w (Bytes.toNatBE s / 2 ^ j + c.toNat)
        by_cases hjw : j + w + 1 ≤ 256
        · -- the loop continues at j + w + 1
          have hsplit : List.replicate (256 - j) (0 : Int)
              = List.replicate w 0 ++ List.replicate (257 - (j + w + 1)) 0 := by
            rw [List.replicate_append_replicate]; congr 1; omega
          have hpre' : (pre ++ mods w (Bytes.toNatBE s / 2 ^ j + c.toNat) :: List.replicate w 0).length
              = j + w + 1 := by simp; omega
          have := ih (j + w + 1) (decide (mc w (Bytes.toNatBE s / 2 ^ j + c.toNat) = 1))
            (pre ++ mods w (Bytes.toNatBE s / 2 ^ j + c.toNat) :: List.replicate w 0) hpre' hjw (by omega)
          rw [hsplit]
          rw [List.append_assoc, List.cons_append] at this
          rw [this, naf_pow2_mul, Nat.min_eq_left (by omega)]
          have e1 : 256 - j - w = 257 - (j + w + 1) := by omega
          have e2 : Bytes.toNatBE s / 2 ^ (j + w + 1) = (Bytes.toNatBE s / 2 ^ j + c.toNat) / 2 ^ (w + 1) := by
            rw [(odd_carry_mod w _ c hodd).2, Nat.div_div_eq_div_mul, ← Nat.pow_add]
            rfl
          have e3 : (decide (mc w (Bytes.toNatBE s / 2 ^ j + c.toNat) = 1)).toNat
              = mc w (Bytes.toNatBE s / 2 ^ j + c.toNat) := by
            by_cases h : mc w (Bytes.toNatBE s / 2 ^ j + c.toNat) = 1
            · simp [h]
            · have : mc w (Bytes.toNatBE s / 2 ^ j + c.toNat) = 0 := by omega
              simp [this]
          rw [e1, e2, e3]
          simp
        · -- the loop ends: the value left is below 2^w, so no carry remains
          rw [nafLoop_stop _ _ _ _ _ _ _ (by omega)]
          have hX : Bytes.toNatBE s / 2 ^ j < 2 ^ (256 - j) := by
            apply Nat.div_lt_of_lt_mul
            rw [← Nat.pow_add]
            have : j + (256 - j) = 256 := by omega
            rw [this]; exact hk
          have hev := two_pow_even (256 - j) (by omega)
          have hle : 2 ^ (256 - j) ≤ 2 ^ w := Nat.pow_le_pow_right (by decide) (by omega)
          have hc := Bool.toNat_le c
          have hK : Bytes.toNatBE s / 2 ^ j + c.toNat < 2 ^ w := by omega
          have hK2 : Bytes.toNatBE s / 2 ^ j + c.toNat < 2 ^ (w + 1) := by
            rw [Nat.pow_succ]; omega
          have hmc0 : mc w (Bytes.toNatBE s / 2 ^ j + c.toNat) = 0 := by
            unfold mc; rw [Nat.mod_eq_of_lt hK2]
            have : ¬ 2 ^ w ≤ Bytes.toNatBE s / 2 ^ j + c.toNat := by omega
            simp [this]
          rw [hmc0, Nat.div_eq_of_lt hK2]
          simp only [Nat.add_zero, Nat.mul_zero, naf_zero]
          exact fin_ok _
      · -- a zero digit
        rw [nafLoop_zero_bit s w fuel j c _ hj2 b c1 hgb hbit]
        have heven : (Bytes.toNatBE s / 2 ^ j + c.toNat) % 2 = 0 := by omega
        have hsplit : pre ++ List.replicate (257 - j) (0 : Int)
            = (pre ++ [0]) ++ List.replicate (257 - (j + 1)) 0 := by
          have : 257 - (j + 1) = 256 - j := by omega
          rw [hlen, List.replicate_succ, List.append_assoc, this]; rfl
        have := ih (j + 1) c1 (pre ++ [0]) (by simp; omega) (by omega) (by omega)
        rw [hsplit, this, hlen, naf_succ_even _ _ _ heven]
        have e2 : Bytes.toNatBE s / 2 ^ (j + 1) = Bytes.toNatBE s / 2 ^ j / 2 := by
          rw [Nat.div_div_eq_div_mul, ← Nat.pow_succ]
        rw [e2, hb0 hbit]
        simp
    · -- j = 256: the loop is over, the carry (if any) goes to out[256]
      have hj256 : j = 256 := by omega
      have h0 : Bytes.toNatBE s / 2 ^ 256 = 0 := Nat.div_eq_of_lt hk
      rw [nafLoop_stop _ _ _ _ _ _ _ (by omega), hj256, h0]
      rw [hj256] at hpre
      have e1 : 257 - 256 = 0 + 1 := rfl
      rw [e1]
      cases c
      · rw [fin_ok, Bool.toNat_false, naf_succ_even _ _ _ (by decide)]; rfl
      · have : fin (.ok (pre ++ List.replicate (0 + 1) 0, true))
            = setIdx (pre ++ List.replicate (0 + 1) 0) 256 1 := rfl
        rw [this, setIdx_append pre 256 0 1 hpre, Bool.toNat_true,
          naf_succ_odd _ _ _ (by decide), mods_one w hw1]
        rfl

/-- DecomposeNAF on a 32-byte input and a zeroed 257-entry output is the textbook recoding -/
theorem decomposeNAF_textbook (s : Bytes) (hs : s.length = 32) (w : Nat) (hw1 : 1 ≤ w) (hw : w ≤ 7) :
    decomposeNAF (some (List.replicate 257 0)) (some s) 257 (w : Int)
      = .ok (naf w 257 (Bytes.toNatBE s)) := by
  rw [decomposeNAF_eq _ _ _ hw1 hw]
  have := loop_correct s hs w hw1 hw 257 0 false [] rfl (by omega) (by omega)
  simp only [List.nil_append, Nat.sub_zero, Nat.pow_zero, Nat.div_one, Bool.toNat_false,
    Nat.add_zero] at this
  exact this

/-- an input shorter than 32 bytes makes the first bit read (byte 31) panic -/
theorem decomposeNAF_short (out : List Int) (s : Bytes) (hs : s.length < 32) (w : Nat)
    (hw1 : 1 ≤ w) (hw : w ≤ 7) :
    decomposeNAF (some out) (some s) 257 (w : Int) = .panic := by
  rw [decomposeNAF_eq _ _ _ hw1 hw]
  have h : s[31]? = none := by simp; omega
  have gen : ∀ fuel, nafLoop s 257 w (fuel + 1) 0 false out = .panic := by
    intro fuel
    simp [nafLoop, getBit, Outcome.idx, h]
  rw [show (257 : Nat) = 256 + 1 from rfl, gen 256]; rfl

theorem decomposeNAF_invalid (out : Option (List Int)) (s : Option Bytes) (n w : Int)
    (h : out = none ∨ s = none ∨ w ≤ 0 ∨ w > 7) : decomposeNAF out s n w = .panic := by
  cases out with
  | none => simp [decomposeNAF]
  | some out =>
    cases s with
    | none => simp [decomposeNAF]
    | some s =>
      have : w ≤ 0 ∨ w > 7 := by simpa using h
      simp [decomposeNAF, this]

end SMGo.Proofs.UtilsNaf
