import SMGo.Proofs.ISAValFusedPhase1
set_option linter.unusedSimpArgs false
namespace SMGo.Proofs.ISAVal
open SMGo.Model.ISAVal SMGo.Model.GCM SMGo.Proofs.GCM SMGo.Proofs.ISATouch
open SMGo.Model.ISA (Reg Opd Instr)

def j0HeadCode : List DInstr := [ins .VPXORD [R 14, R 14, R 14] 64, ins .CMPQ [G 11, .imm 12] 0]

theorem j0_head : (j0Code.drop 0).take j0HeadCode.length = j0HeadCode := by decide +kernel
theorem j0_jeq : (j0Code.drop 2).take 1 = [jcc .JEQ 4841] := by decide +kernel

theorem kNArgs : writesNone nonceArgsCode ((List.range 16).filter (fun n => !([12, 11, 6].contains n))) (List.range 32) (List.range 8) = true := by
  decide +kernel
theorem kJ0Head : writesNone j0HeadCode (List.range 16) ((List.range 32).filter (fun n => !([14].contains n))) (List.range 8) = true := by
  decide +kernel
theorem kMkCtr : writesNone mkCtrCode ((List.range 16).filter (fun n => !([9].contains n)))
    ((List.range 32).filter (fun n => !([0, 6, 14].contains n))) [0, 2, 3, 4, 5, 6, 7] = true := by decide +kernel

/-- **phase 3 for a 12-byte nonce: J0 = nonce ‖ 0x00000001** -/
theorem phaseJ0_12 (r : Routine) (ps : PrefixSlices r) (hl : findPc r 4841 = some (r.drop 814)) (s2 : State) (rk : List Nat)
    (np tp ap : Nat) (nonce aad : List Nat) (pc : PCtx s2) (e : FEnv s2 rk np tp ap nonce aad) (h : Nat) (gc : GhCtx h s2)
    (g15 : greg s2 15 = 73014444032) (hn : nonce.length = 12) (hnb : ∀ x ∈ nonce, x < 2 ^ 8) (hnp : np + 16 < 2 ^ 63) :
    ∃ s3, Reach r 628 s2 823 s3 15 ∧ PCtx s3 ∧ FEnv s3 rk np tp ap nonce aad ∧ GhCtx h s3 ∧ greg s3 15 = 73014444032 ∧
      vreg s3 14 = unlanes 8 (nonce ++ [0, 0, 0, 1]) ∧ vreg s3 6 = unlanes 8 (nonce ++ [0, 0, 0, 1]) ∧ greg s3 6 = tp ∧
      (s3.mem = s2.mem ∧ s3.frame = s2.frame) := by
  -- the three arguments
  let sa1 := setGreg s2 12 np
  let sa2 := setGreg sa1 11 nonce.length
  let sa3 := setGreg sa2 6 tp
  have hxa : execList nonceArgsCode s2 = .ok sa3 := by
    apply exec_step (a_movq_frame s2 "nonce" 32 12 _ e.fNonce (by rw [pc.lenG]; decide))
    apply exec_step (a_movq_frame sa1 "nonceLen" 40 11 _ e.fNonceLen (by simp [sa1, pc.lenG]))
    apply exec_step (a_movq_frame sa2 "tmp" 104 6 _ e.fTmp (by simp [sa1, sa2, pc.lenG]))
    rfl
  have ka := keeps_of_exec _ kNArgs hxa
  have ra : Reach r 628 s2 631 sa3 3 := reach_seg ps.nArgs (by rfl) hxa
  have pa := pc.of_keeps ka (by decide)
  have g12 : greg sa3 12 = np := by
    show greg (setGreg (setGreg sa1 11 _) 6 _) 12 = _
    rw [greg_setGreg_ne _ _ _ _ (by decide), greg_setGreg_ne _ _ _ _ (by decide)]
    exact greg_setGreg_eq s2 12 _ (by rw [pc.lenG]; decide)
  have g11 : greg sa3 11 = 12 := by
    show greg (setGreg sa2 6 _) 11 = _
    rw [greg_setGreg_ne _ _ _ _ (by decide), greg_setGreg_eq sa1 11 _ (by simp [sa1, pc.lenG]), hn]
  have g6 : greg sa3 6 = tp := greg_setGreg_eq sa2 6 _ (by simp [sa1, sa2, pc.lenG])
  -- VPXORD VzJ0; CMPQ nonceLen, $12
  let sb1 := setVreg sa3 14 (map2 32 (64 / 4) (fun a b => b ^^^ a) (vreg sa3 14) (vreg sa3 14))
  let sb2 := setFlags sb1 (subF 8 12 12).2
  have hxb : execList j0HeadCode sa3 = .ok sb2 := by
    apply exec_step (a_vec3 sa3 .VPXORD 64 14 14 14 _ 32 rfl rfl (by rw [pa.lenV]; decide) (by rw [pa.lenV]; decide)
      (by rw [pa.lenV]; decide) rfl)
    apply exec_step (s1 := sb2)
    · have := a_cmpq_imm sb1 12 11 (by simp [sb1, pa.lenG])
      rw [show greg sb1 11 = 12 from g11, show imm64 12 = 12 from by decide +kernel] at this
      exact this
    rfl
  have kb := keeps_of_exec _ kJ0Head hxb
  have rb : Reach r 631 sa3 633 sb2 2 := reach_seg (ps.j0.sub 0 j0HeadCode j0_head (by rw [j0_len]; decide)) (by rfl) hxb
  -- JE branch1
  have hcnd : Model.ISAVal.cond .JEQ sb2.flags = .ok (decide (12 = 12)) := cond_jeq 12 12 (by decide) (by decide)
  have rj := reach_jcc (r := r) (k := 633) (idx := 814) (ps.j0.sub 2 [jcc .JEQ 4841] j0_jeq (by rw [j0_len]; decide)) rfl hl hcnd
  simp only [decide_true, if_true] at rj
  -- makeCounterNew
  have pb := pa.of_keeps kb (by decide)
  have eb := (e.of_keeps ka).of_keeps kb
  obtain ⟨sc, hxc, v14, v6⟩ := mkCtr_spec sb2 pb.lenG pb.lenV pb.lenK pb.v16 nonce hn hnb np
    (by rw [kb.g 12 (by decide)]; exact g12) (by omega)
    (fun j hj => by
      have := eb.dNonce (4 * j) 4 (by omega)
      exact this)
  have kc := keeps_of_exec _ kMkCtr hxc
  have rc : Reach r 814 sb2 823 sc 9 :=
    (reach_seg (ps.j0.sub 183 mkCtrCode j0_tail (by rw [j0_len]; decide)) (by rfl) hxc).cast (by rfl) rfl
  refine ⟨sc, (((ra.trans rb).trans rj).trans rc).cast rfl rfl, pb.of_keeps kc (by decide), eb.of_keeps kc, ?_, ?_, v14, v6, ?_,
    ⟨(kc.mem.trans kb.mem).trans ka.mem, (kc.frame.trans kb.frame).trans ka.frame⟩⟩
  · exact ((gc.of_keeps ka (by decide)).of_keeps kb (by decide)).of_keeps kc (by decide)
  · rw [kc.g 15 (by decide), kb.g 15 (by decide), ka.g 15 (by decide)]; exact g15
  · rw [kc.g 6 (by decide), kb.g 6 (by decide)]; exact g6

end SMGo.Proofs.ISAVal
