/-
  C15 → C14 glue: the concrete point operations `Curve.pointOps Model.SM2.pointCtx` satisfy the
  hypotheses `Sem` of the scalar-multiplication theorems (SMGo/Proofs/CurveSem.lean) with
    ok P    := ∃ Q, Rep P Q                     (reduced coordinates representing a curve point)
    sem P   := toPoint (specOf P) : E.Point      (Mathlib's group of the SM2 curve)
    okXY x y := the two limb lists are 4 limbs < 2^64 whose values are the Montgomery forms of the
                coordinates of an affine curve point.
  `MultiSelectXY/XYZ` on a fresh point return the selected entry (or O for index 0).
-/
import SMGo.Proofs.PointRep
import SMGo.Proofs.CurveSem
import SMGo.Model.Curve

namespace SMGo.Proofs.PointSem
open SMGo SMGo.Model SMGo.Model.Field SMGo.Spec.SM2
open SMGo.Proofs.CurveGroup SMGo.Proofs.PointField SMGo.Proofs.PointSLPEval SMGo.Proofs.PointAdd
open SMGo.Proofs.PointRep SMGo.Proofs.CurveSem
open SMGo.Model.Point (Pt)

/-- well-formed model points -/
def ok (P : Pt Nat) : Prop := ∃ Q, Rep P Q

/-- the group element a model point stands for -/
noncomputable def sem (P : Pt Nat) : E.Point := toPoint (specOf P)

theorem sem_of_rep {P : Pt Nat} {Q : Spec.SM2.Point} (h : Rep P Q) : sem P = toPoint Q := by
  unfold sem; rw [h.specOf_eq]

theorem ok_of_rep {P : Pt Nat} {Q : Spec.SM2.Point} (h : Rep P Q) : ok P := ⟨Q, h⟩

/-- back from the group to the specification: a well-formed point whose group element is that of a
    valid specification point represents it -/
theorem rep_of_sem {P : Pt Nat} {Q : Spec.SM2.Point} (hP : ok P) (hQ : Valid Q) (h : sem P = toPoint Q) :
    Rep P Q := by
  obtain ⟨Q', hQ'⟩ := hP
  rw [sem_of_rep hQ'] at h
  rw [← toPoint_injective hQ'.valid hQ h]
  exact hQ'

/-! ### raw table entries -/

/-- four limbs below 2^64 -/
def limbsOk (l : List Nat) : Prop :=
  l.getD 0 0 < 2 ^ 64 ∧ l.getD 1 0 < 2 ^ 64 ∧ l.getD 2 0 < 2 ^ 64 ∧ l.getD 3 0 < 2 ^ 64

theorem limbsOk.all {l : List Nat} (h : limbsOk l) : ∀ j, j < 4 → l.getD j 0 < 2 ^ 64 := by
  intro j hj
  match j, hj with
  | 0, _ => exact h.1
  | 1, _ => exact h.2.1
  | 2, _ => exact h.2.2.1
  | 3, _ => exact h.2.2.2

/-- a raw (x, y) table entry: limbs of the Montgomery forms of an affine curve point -/
def okXY (x y : List Nat) : Prop :=
  limbsOk x ∧ limbsOk y ∧
    ∃ vx vy : Nat, Valid (some (vx, vy)) ∧ limbsToNat x = SM2.Fp.toMontgomery vx ∧
      limbsToNat y = SM2.Fp.toMontgomery vy

theorem fromXY_eq (x y : List Nat) :
    Point.fromXY SM2.pointCtx x y = { x := limbsToNat x, y := limbsToNat y, z := SM2.Fp.setOne } := rfl

theorem fromXY_rep {x y : List Nat} {vx vy : Nat} (hv : Valid (some (vx, vy)))
    (hx : limbsToNat x = SM2.Fp.toMontgomery vx) (hy : limbsToNat y = SM2.Fp.toMontgomery vy) :
    Rep (Point.fromXY SM2.pointCtx x y) (some (vx, vy)) := by
  rw [fromXY_eq, hx, hy]
  exact ofSpec_rep hv

theorem fromXY_ok {x y : List Nat} (h : okXY x y) : ok (Point.fromXY SM2.pointCtx x y) := by
  obtain ⟨_, _, vx, vy, hv, hx, hy⟩ := h
  exact ⟨_, fromXY_rep hv hx hy⟩

/-- executable check of a raw entry (for the generated tables): limbs in range, values reduced,
    and the plain coordinates on the curve -/
def checkXY (x y : List Nat) : Bool :=
  decide (x.getD 0 0 < 2 ^ 64) && decide (x.getD 1 0 < 2 ^ 64) && decide (x.getD 2 0 < 2 ^ 64) &&
  decide (x.getD 3 0 < 2 ^ 64) && decide (y.getD 0 0 < 2 ^ 64) && decide (y.getD 1 0 < 2 ^ 64) &&
  decide (y.getD 2 0 < 2 ^ 64) && decide (y.getD 3 0 < 2 ^ 64) &&
  decide (limbsToNat x < p) && decide (limbsToNat y < p) &&
  onCurve (SM2.Fp.fromMontgomery (limbsToNat x)) (SM2.Fp.fromMontgomery (limbsToNat y))

/-- the affine point a checked raw entry stands for -/
def xyPoint (x y : List Nat) : Spec.SM2.Point :=
  some (SM2.Fp.fromMontgomery (limbsToNat x), SM2.Fp.fromMontgomery (limbsToNat y))

theorem toMontgomery_fromMontgomery {e : Nat} (he : e < p) :
    SM2.Fp.toMontgomery (SM2.Fp.fromMontgomery e) = e := by
  apply val_inj (toMontgomery_lt _) he
  rw [val_toMontgomery, Fp_fromMontgomery, cast_fromMontgomery]

/-- a raw entry with limbs in range and reduced values whose plain coordinates form a valid
    point is well-formed and represents that point -/
theorem okXY_of_valid {x y : List Nat} (lx : limbsOk x) (ly : limbsOk y) (hx : limbsToNat x < p)
    (hy : limbsToNat y < p) (hv : Valid (xyPoint x y)) :
    okXY x y ∧ Rep (Point.fromXY SM2.pointCtx x y) (xyPoint x y) ∧
      sem (Point.fromXY SM2.pointCtx x y) = toPoint (xyPoint x y) := by
  have ex := (toMontgomery_fromMontgomery hx).symm
  have ey := (toMontgomery_fromMontgomery hy).symm
  have hr := fromXY_rep hv ex ey
  exact ⟨⟨lx, ly, _, _, hv, ex, ey⟩, hr, sem_of_rep hr⟩

set_option maxRecDepth 100000 in
/-- the `rinv` of the model is R⁻¹ = invMod (2^256) p (closed terms, kernel evaluation) -/
theorem pParams_rinv : SM2.pParams.rinv = Spec.SM2.invMod (2 ^ 256) p := by decide +kernel

/-- `xyPoint` in terms of the specification's `invMod` -/
theorem xyPoint_eq (x y : List Nat) :
    xyPoint x y = some (limbsToNat x * Spec.SM2.invMod (2 ^ 256) p % p,
      limbsToNat y * Spec.SM2.invMod (2 ^ 256) p % p) := by
  unfold xyPoint
  rw [Fp_fromMontgomery, Fp_fromMontgomery, rinv_def, pParams_rinv]

theorem checkXY_sound {x y : List Nat} (h : checkXY x y = true) :
    okXY x y ∧ Valid (xyPoint x y) ∧ Rep (Point.fromXY SM2.pointCtx x y) (xyPoint x y) := by
  unfold checkXY at h
  simp only [Bool.and_eq_true, decide_eq_true_eq] at h
  obtain ⟨⟨⟨⟨⟨⟨⟨⟨⟨⟨a0, a1⟩, a2⟩, a3⟩, b0⟩, b1⟩, b2⟩, b3⟩, hx⟩, hy⟩, hc⟩ := h
  have hv : Valid (xyPoint x y) := by
    refine ⟨?_, ?_, hc⟩
    · rw [Fp_fromMontgomery]; exact fromMontgomery_lt _
    · rw [Fp_fromMontgomery]; exact fromMontgomery_lt _
  obtain ⟨h1, h2, _⟩ := okXY_of_valid ⟨a0, a1, a2, a3⟩ ⟨b0, b1, b2, b3⟩ hx hy hv
  exact ⟨h1, hv, h2⟩

/-- the group element of a checked raw entry -/
theorem sem_fromXY_of_check {x y : List Nat} (h : checkXY x y = true) :
    sem (Point.fromXY SM2.pointCtx x y) = toPoint (xyPoint x y) :=
  sem_of_rep (checkXY_sound h).2.2

/-! ### MultiSelect on a fresh point -/

theorem limbsToNat_limbs4 (e : List Nat) : limbsToNat (FiatWrappers.limbs4 e) = limbsToNat e := by
  simp [limbsToNat, FiatWrappers.limbs4]

theorem limbs4_natToLimbs (v : Nat) : FiatWrappers.limbs4 (natToLimbs v) = natToLimbs v := rfl

theorem natToLimbs_all (v : Nat) : ∀ j, j < 4 → (natToLimbs v).getD j 0 < 2 ^ 64 := by
  intro j hj
  have h64 : 0 < 2 ^ 64 := by decide
  match j, hj with
  | 0, _ => exact Nat.mod_lt _ h64
  | 1, _ => exact Nat.mod_lt _ h64
  | 2, _ => exact Nat.mod_lt _ h64
  | 3, _ => exact Nat.mod_lt _ h64

theorem byteEq_zero : byteEq 0 0 = 1 := rfl

theorem byteEq_pos {bits : Nat} (h1 : 1 ≤ bits) (h2 : bits ≤ 255) : byteEq bits 0 = 0 := by
  unfold byteEq
  rw [if_neg]
  omega

/-- the fallback path: reading back the limbs of a reduced element -/
theorem select_fallback (pre : List (List Nat)) (w : Nat) (hw : w ≤ 255) {v : Nat} (hv : v < p) :
    SM2.Fp.ofRaw (multiSelectLimbs pre w 0 (SM2.Fp.raw v) 0) = v := by
  rw [Fp_raw, FiatWrappers.multiSelectLimbs_fallback pre w _ hw (natToLimbs_all v), limbs4_natToLimbs,
    Fp_ofRaw, FiatWrappers.limbs_roundtrip v (Nat.lt_trans hv p_lt)]

/-- the selecting path: entry `bits - 1` -/
theorem select_hit (pre : List (List Nat)) (w bits : Nat) (fb : List Nat) (h1 : 1 ≤ bits) (hbw : bits ≤ w)
    (hw : w ≤ 255) (hl : limbsOk (pre.getD (bits - 1) [])) :
    SM2.Fp.ofRaw (multiSelectLimbs pre w bits fb 1) = limbsToNat (pre.getD (bits - 1) []) := by
  rw [FiatWrappers.multiSelectLimbs_hit pre w bits fb h1 hbw hw hl.all, Fp_ofRaw, limbsToNat_limbs4]

/-- `multiSelectConditioned` unfolded, for any context (no panic when the width matches) -/
theorem multiSelect_unfold {α : Type} (C : Point.Ctx α) (q : Pt α) (t : Point.Table) (hasZ : Bool)
    (w bits : Nat) (hlen : (t.getD 0 []).length = w) :
    Point.multiSelect C q t hasZ w bits =
      .ok { x := C.F.ofRaw (multiSelectLimbs (t.getD 0 []) w bits (C.F.raw q.x) (1 - byteEq bits 0)),
            y := C.F.ofRaw (multiSelectLimbs (t.getD 1 []) w bits (C.F.raw q.y) (1 - byteEq bits 0)),
            z := if hasZ = true then
                   C.F.ofRaw (multiSelectLimbs (t.getD 2 []) w bits (C.F.raw q.z) (1 - byteEq bits 0))
                 else Field.select C.F.setOne q.z (1 - byteEq bits 0) } := by
  unfold Point.multiSelect
  rw [if_neg (by rw [hlen]; exact fun h => h rfl)]

theorem select_one {α : Type} (a b : α) : Field.select a b 1 = a := rfl
theorem select_zero {α : Type} (a b : α) : Field.select a b 0 = b := rfl

theorem inf_x : (Point.infinity SM2.pointCtx).x = SM2.Fp.zero := rfl
theorem inf_y : (Point.infinity SM2.pointCtx).y = SM2.Fp.setOne := rfl
theorem inf_z : (Point.infinity SM2.pointCtx).z = SM2.Fp.zero := rfl
theorem ctx_F : SM2.pointCtx.F = SM2.Fp := rfl
theorem inf_eq : Point.infinity SM2.pointCtx = { x := SM2.Fp.zero, y := SM2.Fp.setOne, z := SM2.Fp.zero } := rfl

/-- index 0 selects nothing: the fresh point (at infinity) stays -/
theorem multiSelect_zero (t : Point.Table) (hasZ : Bool) (w : Nat) (hlen : (t.getD 0 []).length = w)
    (hw : w ≤ 255) :
    Point.multiSelect SM2.pointCtx (Point.infinity SM2.pointCtx) t hasZ w 0 =
      .ok (Point.infinity SM2.pointCtx) := by
  rw [multiSelect_unfold _ _ _ _ _ _ hlen, byteEq_zero, Nat.sub_self, ctx_F, inf_x, inf_y, inf_z,
    select_fallback _ w hw zero_lt, select_fallback _ w hw setOne_lt, select_fallback _ w hw zero_lt,
    select_zero, inf_eq]
  cases hasZ
  · rw [if_neg Bool.false_ne_true]
  · rw [if_pos rfl]

/-- `MultiSelectXY` with index `bits ≥ 1`: the point built from entry `bits - 1`, z = 1 -/
theorem multiSelectXY_hit (t : Point.Table) (w bits : Nat) (hlen : (t.getD 0 []).length = w)
    (h1 : 1 ≤ bits) (hbw : bits ≤ w) (hw : w ≤ 255)
    (hx : limbsOk ((t.getD 0 []).getD (bits - 1) [])) (hy : limbsOk ((t.getD 1 []).getD (bits - 1) [])) :
    Point.multiSelect SM2.pointCtx (Point.infinity SM2.pointCtx) t false w bits =
      .ok (Point.fromXY SM2.pointCtx ((t.getD 0 []).getD (bits - 1) []) ((t.getD 1 []).getD (bits - 1) [])) := by
  rw [multiSelect_unfold _ _ _ _ _ _ hlen, byteEq_pos h1 (Nat.le_trans hbw hw), Nat.sub_zero, ctx_F,
    select_hit _ w bits _ h1 hbw hw hx, select_hit _ w bits _ h1 hbw hw hy, select_one, fromXY_eq,
    if_neg Bool.false_ne_true]

/-- `MultiSelectXYZ` with index `bits ≥ 1`: the three coordinates of entry `bits - 1` -/
theorem multiSelectXYZ_hit (t : Point.Table) (w bits : Nat) (hlen : (t.getD 0 []).length = w)
    (h1 : 1 ≤ bits) (hbw : bits ≤ w) (hw : w ≤ 255)
    (hx : limbsOk ((t.getD 0 []).getD (bits - 1) [])) (hy : limbsOk ((t.getD 1 []).getD (bits - 1) []))
    (hz : limbsOk ((t.getD 2 []).getD (bits - 1) [])) :
    Point.multiSelect SM2.pointCtx (Point.infinity SM2.pointCtx) t true w bits =
      .ok { x := limbsToNat ((t.getD 0 []).getD (bits - 1) []),
            y := limbsToNat ((t.getD 1 []).getD (bits - 1) []),
            z := limbsToNat ((t.getD 2 []).getD (bits - 1) []) } := by
  rw [multiSelect_unfold _ _ _ _ _ _ hlen, byteEq_pos h1 (Nat.le_trans hbw hw), Nat.sub_zero, ctx_F,
    select_hit _ w bits _ h1 hbw hw hx, select_hit _ w bits _ h1 hbw hw hy,
    select_hit _ w bits _ h1 hbw hw hz, if_pos rfl]

/-! ### TransformPrecomputed -/

theorem limbsOk_natToLimbs (v : Nat) : limbsOk (natToLimbs v) :=
  ⟨natToLimbs_all v 0 (by decide), natToLimbs_all v 1 (by decide), natToLimbs_all v 2 (by decide),
    natToLimbs_all v 3 (by decide)⟩

theorem transform_entry (pts : List (Pt Nat)) (f : Pt Nat → Nat) (i : Nat) (hi : i < pts.length) (d : Pt Nat) :
    (pts.map (fun q => SM2.Fp.raw (f q))).getD i [] = natToLimbs (f (pts.getD i d)) := by
  simp only [List.getD_eq_getElem?_getD, List.getElem?_map, List.getElem?_eq_getElem hi,
    Option.map_some, Option.getD_some, Fp_raw]

/-! ### the instance -/

/-- the concrete point operations compute in the group of the SM2 curve -/
theorem pointSem : Sem (Curve.pointOps SM2.pointCtx) ok okXY sem where
  inf_ok := ⟨none, infinity_rep⟩
  inf := by rw [show (Curve.pointOps SM2.pointCtx).infinity = Point.infinity SM2.pointCtx from rfl,
    sem_of_rep infinity_rep]; rfl
  add := by
    rintro x y ⟨P, hP⟩ ⟨Q, hQ⟩
    have h := add_rep hP hQ
    exact ⟨⟨_, h⟩, by
      rw [show (Curve.pointOps SM2.pointCtx).add x y = Point.add SM2.pointCtx x y from rfl,
        sem_of_rep h, sem_of_rep hP, sem_of_rep hQ, toPoint_add hP.valid hQ.valid]⟩
  double := by
    rintro x ⟨P, hP⟩
    have h := double_rep hP
    exact ⟨⟨_, h⟩, by
      rw [show (Curve.pointOps SM2.pointCtx).double x = Point.double SM2.pointCtx x from rfl,
        sem_of_rep h, sem_of_rep hP, toPoint_add hP.valid hP.valid]⟩
  neg := by
    rintro x ⟨P, hP⟩
    have h := negate_rep hP
    exact ⟨⟨_, h⟩, by
      rw [show (Curve.pointOps SM2.pointCtx).negate x = Point.negate SM2.pointCtx x from rfl,
        sem_of_rep h, sem_of_rep hP, toPoint_neg hP.valid]⟩
  fromXY_ok := fun x y h => fromXY_ok h
  selectXY := by
    intro t w bits hlx _ hwf hb hw
    show ∃ q, Point.multiSelect SM2.pointCtx (Point.infinity SM2.pointCtx) t false w bits = .ok q ∧ _
    by_cases h0 : bits = 0
    · subst h0
      refine ⟨_, multiSelect_zero t false w hlx hw, ⟨none, infinity_rep⟩, ?_⟩
      rw [if_pos rfl, sem_of_rep infinity_rep]; rfl
    · have h1 : 1 ≤ bits := Nat.one_le_iff_ne_zero.mpr h0
      have hok := hwf (bits - 1) (by omega)
      refine ⟨_, multiSelectXY_hit t w bits hlx h1 hb hw hok.1 hok.2.1, fromXY_ok hok, ?_⟩
      rw [if_neg h0]; rfl
  selectXYZ := by
    intro pts bits hlen hpts hb
    show ∃ q, Point.multiSelect SM2.pointCtx (Point.infinity SM2.pointCtx)
      (Point.transformPrecomputed SM2.pointCtx pts) true 15 bits = .ok q ∧ _
    have hl0 : ((Point.transformPrecomputed SM2.pointCtx pts).getD 0 []).length = 15 := by
      show (pts.map (fun q => SM2.Fp.raw q.x)).length = 15
      rw [List.length_map, hlen]
    by_cases h0 : bits = 0
    · subst h0
      refine ⟨_, multiSelect_zero _ true 15 hl0 (by decide), ⟨none, infinity_rep⟩, ?_⟩
      rw [if_pos rfl, sem_of_rep infinity_rep]; rfl
    · have h1 : 1 ≤ bits := Nat.one_le_iff_ne_zero.mpr h0
      have hi : bits - 1 < pts.length := by omega
      have ex := transform_entry pts (fun q => q.x) (bits - 1) hi (Point.infinity SM2.pointCtx)
      have ey := transform_entry pts (fun q => q.y) (bits - 1) hi (Point.infinity SM2.pointCtx)
      have ez := transform_entry pts (fun q => q.z) (bits - 1) hi (Point.infinity SM2.pointCtx)
      have hsel := multiSelectXYZ_hit (Point.transformPrecomputed SM2.pointCtx pts) 15 bits hl0 h1 hb
        (by decide)
        (by show limbsOk ((pts.map (fun q => SM2.Fp.raw q.x)).getD (bits - 1) []); rw [ex]; exact limbsOk_natToLimbs _)
        (by show limbsOk ((pts.map (fun q => SM2.Fp.raw q.y)).getD (bits - 1) []); rw [ey]; exact limbsOk_natToLimbs _)
        (by show limbsOk ((pts.map (fun q => SM2.Fp.raw q.z)).getD (bits - 1) []); rw [ez]; exact limbsOk_natToLimbs _)
      obtain ⟨Q, hQ⟩ := hpts (bits - 1) (by omega)
      have hq : (Curve.pointOps SM2.pointCtx).infinity = Point.infinity SM2.pointCtx := rfl
      rw [hq] at hQ
      have hc := hQ.canon
      have e :
          ({ x := limbsToNat (((Point.transformPrecomputed SM2.pointCtx pts).getD 0 []).getD (bits - 1) []),
             y := limbsToNat (((Point.transformPrecomputed SM2.pointCtx pts).getD 1 []).getD (bits - 1) []),
             z := limbsToNat (((Point.transformPrecomputed SM2.pointCtx pts).getD 2 []).getD (bits - 1) []) } : Pt Nat)
            = pts.getD (bits - 1) (Point.infinity SM2.pointCtx) := by
        show ({ x := limbsToNat ((pts.map (fun q => SM2.Fp.raw q.x)).getD (bits - 1) []),
                y := limbsToNat ((pts.map (fun q => SM2.Fp.raw q.y)).getD (bits - 1) []),
                z := limbsToNat ((pts.map (fun q => SM2.Fp.raw q.z)).getD (bits - 1) []) } : Pt Nat) = _
        rw [ex, ey, ez, FiatWrappers.limbs_roundtrip _ (Nat.lt_trans hc.1 p_lt),
          FiatWrappers.limbs_roundtrip _ (Nat.lt_trans hc.2.1 p_lt),
          FiatWrappers.limbs_roundtrip _ (Nat.lt_trans hc.2.2 p_lt)]
      rw [e] at hsel
      refine ⟨_, hsel, ⟨Q, hQ⟩, ?_⟩
      rw [if_neg h0, hq]

end SMGo.Proofs.PointSem
