import SMGo.Proofs.ISAValHelperCmp4
set_option linter.unusedSimpArgs false
namespace SMGo.Proofs.ISAVal
open SMGo SMGo.Model.ISAVal SMGo.Model.GCM SMGo.Proofs.GCM SMGo.Proofs.ISATouch
open SMGo.Model.ISA (Reg Opd Instr)

/-! ### `constantTimeCompareAsm` of helper_amd64.s (no Go declaration) -/

def hcR : Routine := Gen.ListAmd64Helper.constantTimeCompareAsm.map decodeD
theorem known_hc : Gen.ListAmd64Helper.constantTimeCompareAsm_chunks.all (fun c => c.all known) = true := by decide +kernel
theorem hcR_ok : Routine.ofListing Gen.ListAmd64Helper.constantTimeCompareAsm = .ok hcR := ofListing_chunks _ known_hc

def hcArgsCode : List DInstr :=
  [ins .MOVQ [.frame "x" 8, G 7] 0, ins .MOVQ [.frame "y" 16, G 6] 0, ins .MOVQ [.frame "l" 24, G 0] 0]

def hcCode : List DInstr := hcArgsCode ++ (hcBodyCode ++ [ins .MOVL [G 1, .frame "ret1" 32] 0, ins .RET [] 0])

/-- **the regenerated listing of `constantTimeCompareAsm` is: three argument loads, the compare body, the 32-bit result store, RET** -/
theorem hc_scheme : hcR.map erasePc = hcCode :=
  eqChunks_sound _ _ (by decide +kernel : eqChunks Gen.ListAmd64Helper.constantTimeCompareAsm_chunks hcCode = true)

theorem hc_labels : labelsOk hcR [("loop8", 5, 29), ("loop1", 14, 58), ("fold", 23, 84)] = true := by decide +kernel

theorem hcBody_len : hcBodyCode.length = 35 := by decide +kernel

theorem a_movl_reg_frame (s : State) (a : Nat) (name : String) (off : Nat) (fr' : List (String × Nat)) (ha : a < s.gpr.length)
    (h : setSlot s.frame name (fun old => old - old % 2 ^ 32 + greg s a % 2 ^ 32) = some fr') :
    execD s (ins .MOVL [G a, .frame name off] 0) = .ok { s with frame := fr' } := by
  obtain ⟨g, v, k, fl, mem, syms, frame⟩ := s
  have hga := getElem?_getD g a ha
  simp only [greg] at h
  simp only [execD, ins, G, exMov, getG, hga, ok_bind, writeSlot, h, show (Mn.MOVL = Mn.MOVQ) = False from by simp, if_false, if_true]

/-- the memory of `cmpState` as a family over the contents of `y` -/
def hcMem (x : List Nat) (e : List Nat) : List Region := hmem [⟨"x", x, false⟩, ⟨"y", e, true⟩]

theorem hcMem_buf (x : List Nat) (bl : Nat) (hbl : bl < 2 ^ 32) : Buf (hcMem x) 77309411328 bl := by
  refine ⟨fun b off n hb hn => ?_, fun b off bs hb hn => ?_⟩
  · exact hmem_read _ 1 ⟨"y", b, true⟩ rfl off n (by simp only; omega) (by omega)
  · exact hmem_write _ 1 ⟨"y", b, true⟩ rfl rfl off bs (by simp only; omega) (by omega)

theorem hcMem_x (x e : List Nat) (hxl : x.length < 2 ^ 32) : DataAt (hcMem x e) 73014444032 x :=
  fun off n hn => hmem_read _ 0 ⟨"x", x, false⟩ rfl off n hn (by omega)

/-- the frame of `cmpState` with the result slot set -/
def hcFrame (l r : Nat) : List (String × Nat) := [("x", arg 0), ("y", arg 1), ("l", l), ("ret1", r)]

set_option maxRecDepth 100000 in
/-- **`constantTimeCompareAsm(x, y, l)`, for every length**: the run returns and the low 32 bits of the result slot are the OR of the
    byte-wise XORs of `x[0:l)` and `y[0:l)` (a byte); the upper bits of the 8-byte slot of the model keep their value -/
theorem cmpAsm_run (g v k x y : List Nat) (l r0 : Nat) (hG : g.length = 16) (hxl : l ≤ x.length) (hyl : l ≤ y.length)
    (hx32 : x.length < 2 ^ 32) (hy32 : y.length < 2 ^ 32) (hxb : ∀ b ∈ x, b < 2 ^ 8) (hyb : ∀ b ∈ y, b < 2 ^ 8)
    (fuel : Nat) (hfuel : 9 * l + 60 < fuel) :
    runRet Gen.ListAmd64Helper.constantTimeCompareAsm fuel (cmpState g v k x y l r0)
      = .ok (r0 - r0 % 2 ^ 32 + orBytes (xorN (y.take l) (x.take l))) := by
  have hw := Slice.whole hc_scheme
  have sA : Slice hcR 0 hcArgsCode := hw.left
  have sB : Slice hcR (0 + 3) hcBodyCode := hw.right.left
  have sE0 := hw.right.right
  rw [hcBody_len] at sE0
  have sE : Slice hcR (0 + 3 + 35) [ins .MOVL [G 1, .frame "ret1" 32] 0] := Slice.left (a := [_]) (b := [_]) sE0
  have sR : Slice hcR (0 + 3 + 35 + 1) (ins .RET [] 0 :: []) := Slice.right (a := [_]) (b := [_]) sE0
  obtain ⟨s0, hs0⟩ : ∃ s0, s0 = cmpState g v k x y l r0 := ⟨_, rfl⟩
  have hG0 : s0.gpr.length = 16 := by rw [hs0]; exact hG
  have hfr : s0.frame = hcFrame l r0 := by rw [hs0]; rfl
  have fX : lookup s0.frame "x" = some 73014444032 := by rw [hfr]; simp [hcFrame, lookup]; rfl
  have fY : lookup s0.frame "y" = some 77309411328 := by rw [hfr]; simp [hcFrame, lookup]; rfl
  have fL : lookup s0.frame "l" = some l := by rw [hfr]; simp [hcFrame, lookup]
  let a1 := setGreg s0 7 73014444032
  let a2 := setGreg a1 6 77309411328
  let a3 := setGreg a2 0 l
  have hG3 : a3.gpr.length = 16 := by simp [a3, a2, a1, hG0]
  have hxA : execList hcArgsCode s0 = .ok a3 := by
    apply exec_step (a_movq_frame s0 "x" 8 7 _ fX (by rw [hG0]; decide))
    apply exec_step (a_movq_frame a1 "y" 16 6 _ fY (by simp [a1, hG0]))
    apply exec_step (a_movq_frame a2 "l" 24 0 _ fL (by simp [a2, a1, hG0]))
    rfl
  have rA : Reach hcR 0 s0 (0 + 3) a3 3 := reach_seg sA (by rfl) hxA
  have e30 : greg a3 0 = l := greg_setGreg_eq a2 0 _ (by simp [a2, a1, hG0])
  have e36 : greg a3 6 = 77309411328 := by
    show greg (setGreg a2 0 _) 6 = _
    rw [greg_setGreg_ne a2 0 _ 6 (by decide)]; exact greg_setGreg_eq a1 6 _ (by simp [a1, hG0])
  have e37 : greg a3 7 = 73014444032 := by
    show greg (setGreg a2 0 _) 7 = _
    rw [greg_setGreg_ne a2 0 _ 7 (by decide)]; show greg (setGreg a1 6 _) 7 = _
    rw [greg_setGreg_ne a1 6 _ 7 (by decide)]; exact greg_setGreg_eq s0 7 _ (by rw [hG0]; decide)
  obtain ⟨s1, N, e', hN, rB, hm1, _, g11, k1⟩ := hc_reach hcR (0 + 3) sB (label_findPc hc_labels (name := "loop8") (by decide))
    (label_findPc hc_labels (name := "loop1") (by decide)) (label_findPc hc_labels (name := "fold") (by decide))
    (hcMem x) 77309411328 y.length (hcMem_buf x _ hy32) (x.take l) 73014444032
    (fun e _ => DataAt.take (hcMem_x x e hx32) l) (fun b hb => hxb b (List.mem_of_mem_take hb))
    (by rw [List.length_take]; omega) (by omega) a3 hG3 y rfl (by show s0.mem = _; rw [hs0]; rfl) l e30 hyl
    (by rw [List.length_take]; omega) e37 e36 (fun b hb => hyb b (List.mem_of_mem_take hb))
  -- the result
  have hG1 : s1.gpr.length = 16 := k1.lenG.trans hG3
  have hf1 : s1.frame = hcFrame l r0 := by rw [k1.frame]; exact hfr
  obtain ⟨o, ho⟩ : ∃ o, o = orBytes (xorN (y.take l) (x.take l)) := ⟨_, rfl⟩
  have holt : o < 2 ^ 8 := by
    rw [ho]
    exact orBytes_lt _ (xorN_bytes _ _ (fun b hb => hyb b (List.mem_of_mem_take hb)) (fun b hb => hxb b (List.mem_of_mem_take hb)))
  rw [← ho] at g11 ⊢
  let b2 : State := { s1 with frame := hcFrame l (r0 - r0 % 2 ^ 32 + o) }
  have hxE : execList [ins .MOVL [G 1, .frame "ret1" 32] 0] s1 = .ok b2 := by
    apply exec_step (s1 := b2) (a_movl_reg_frame s1 1 "ret1" 32 _ (by omega) (by
      rw [g11, hf1, Nat.mod_eq_of_lt (by omega : o < 2 ^ 32)]; simp [hcFrame, setSlot]))
    rfl
  have rE : Reach hcR (0 + 3 + 35) s1 (0 + 3 + 35 + 1) b2 1 := reach_seg sE (by rfl) hxE
  have hrun := run_of_reach ((rA.trans rB).trans rE) sR fuel (by omega)
  unfold runRet run
  rw [hcR_ok]
  simp only [bind, Except.bind]
  rw [← hs0, hrun]
  simp [b2, hcFrame, lookup]

theorem nat_xor_zero_iff (x y : Nat) : x ^^^ y = 0 ↔ x = y := by
  constructor
  · intro h
    apply Nat.eq_of_testBit_eq
    intro i
    have := congrArg (fun n => n.testBit i) h
    simp only [Nat.testBit_xor, Nat.zero_testBit] at this
    cases hx : x.testBit i <;> cases hy : y.testBit i <;> simp [hx, hy] at this ⊢
  · intro h; subst h; exact Nat.xor_self x

/-- the OR of the byte-wise XORs is zero exactly when the two strings are equal -/
theorem orBytes_xorN_zero_iff : ∀ (a b : List Nat), a.length = b.length → (orBytes (xorN a b) = 0 ↔ a = b) := by
  intro a
  induction a with
  | nil => intro b h; cases b with
    | nil => simp [xorN, orBytes]
    | cons y ys => simp at h
  | cons x xs ih =>
    intro b h
    cases b with
    | nil => simp at h
    | cons y ys =>
      have h' : xs.length = ys.length := by simpa using h
      show orBytes ((x ^^^ y) :: xorN xs ys) = 0 ↔ _
      rw [orBytes_cons, Nat.or_eq_zero_iff, ih ys h', nat_xor_zero_iff]
      simp

end SMGo.Proofs.ISAVal
#print axioms SMGo.Proofs.ISAVal.cmpAsm_run
