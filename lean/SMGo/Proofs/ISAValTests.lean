/-
  TESTS (labelled as such, no general statement): the regenerated listings of the SM4 kernels, run by the
  value interpreter of SMGo/Model/ISAVal.lean inside the Lean kernel (`decide +kernel`), give the
  ciphertexts of the specification on concrete inputs.  The general theorem for `cryptoBlockAsm` is
  `kernelX1_eq_spec` (SMGo/Proofs/ISAValSpec.lean).
-/
import SMGo.Model.ISAValInst
import SMGo.Proofs.SM4Block
import SMGo.Proofs.SM4Key
open SMGo.Model.ISAVal SMGo

namespace SMGo.Proofs.ISAValTests

deriving instance DecidableEq for Except

/-- the example key of GB/T 32907-2016, annex A -/
def keyStd : List Nat := [0x01,0x23,0x45,0x67,0x89,0xab,0xcd,0xef,0xfe,0xdc,0xba,0x98,0x76,0x54,0x32,0x10]

/-- its round keys (annex A.1) -/
def rkStd : List Nat := [0xf12186f9, 0x41662b61, 0x5a6ab19a, 0x7ba92077, 0x367360f4, 0x776a0c61, 0xb6bb89b3, 0x24763151, 0xa520307c, 0xb7584dbd, 0xc30753ed, 0x7ee55b57, 0x6988608c, 0x30d895b7, 0x44ba14af, 0x104495a1, 0xd120b428, 0x73b55fa3, 0xcc874966, 0x92244439, 0xe89e641f, 0x98ca015a, 0xc7159060, 0x99e1fd2e, 0xb79bd80c, 0x1d2115b0, 0x0e228aeb, 0xf1780c81, 0x428d3654, 0x62293496, 0x01cf72e5, 0x9124a012]

/-- 256 bytes: sixteen pairwise different blocks -/
def blocks16 : List Nat := (List.range 256).map (fun i => (i * 7 + 3) % 256)

/-- the specification on each 16-byte block of `bs` -/
def specBlocks (rk : List Nat) (bs : List Nat) : List Nat :=
  (List.range (bs.length / 16)).flatMap (fun i =>
    (Spec.SM4.crypt (rk.map (BitVec.ofNat 32)) (((bs.drop (16 * i)).take 16).map UInt8.ofNat)).map (·.toNat))

/-- the same through the table-driven model of the portable Go code (fast inside the kernel; equal to the
    specification by `cryptoBlock_eq`) -/
def modelBlocks (rk : List Nat) (bs : List Nat) : List Nat :=
  (List.range (bs.length / 16)).flatMap (fun i =>
    (Model.SM4.cryptoBlock Model.SM4.genTables (rk.map (BitVec.ofNat 32))
      (((bs.drop (16 * i)).take 16).map UInt8.ofNat)).map (·.toNat))

theorem modelBlocks_eq (rk bs : List Nat) (hrk : rk.length = 32) : modelBlocks rk bs = specBlocks rk bs := by
  unfold modelBlocks specBlocks
  congr 1
  funext i
  rw [SM4.cryptoBlock_eq _ _ (by simpa using hrk)]

/-- TEST: the listing of `cryptoBlockAsm` on the worked example of GB/T 32907 A.1 gives the standard's ciphertext -/
theorem test_X1_standard :
    runDst Gen.ListAmd64Asm.cryptoBlockAsm 2000 (kernelState junkG junkV junkK rkStd (List.replicate 16 0) keyStd)
      = .ok [0x68,0x1e,0xdf,0x34,0xd2,0x06,0x96,0x5e,0x86,0xb3,0xe9,0x4f,0x53,0x6e,0x42,0x46] := by
  decide +kernel

/-- TEST: the same called in place (`dst == src`) -/
theorem test_X1_inplace :
    runDst Gen.ListAmd64Asm.cryptoBlockAsm 2000 (kernelStateInPlace junkG junkV junkK rkStd keyStd)
      = .ok [0x68,0x1e,0xdf,0x34,0xd2,0x06,0x96,0x5e,0x86,0xb3,0xe9,0x4f,0x53,0x6e,0x42,0x46] := by
  decide +kernel

theorem test_X2_model :
    runDst Gen.ListAmd64Asm.cryptoBlockAsmX2 2000 (kernelState junkG junkV junkK rkStd (List.replicate 32 0) (blocks16.take 32))
      = .ok (modelBlocks rkStd (blocks16.take 32)) := by
  decide +kernel

theorem test_X4_model :
    runDst Gen.ListAmd64Asm.cryptoBlockAsmX4 2000 (kernelState junkG junkV junkK rkStd (List.replicate 64 0) (blocks16.take 64))
      = .ok (modelBlocks rkStd (blocks16.take 64)) := by
  decide +kernel

theorem test_X8_model :
    runDst Gen.ListAmd64Asm.cryptoBlockAsmX8 2000 (kernelState junkG junkV junkK rkStd (List.replicate 128 0) (blocks16.take 128))
      = .ok (modelBlocks rkStd (blocks16.take 128)) := by
  decide +kernel

theorem test_X16_model :
    runDst Gen.ListAmd64Asm.cryptoBlockAsmX16 2000 (kernelState junkG junkV junkK rkStd (List.replicate 256 0) blocks16)
      = .ok (modelBlocks rkStd blocks16) := by
  decide +kernel

/-- TEST: the listing of `cryptoBlockAsmX2` on two different blocks gives two encryptions of the specification -/
theorem test_X2 :
    runDst Gen.ListAmd64Asm.cryptoBlockAsmX2 2000 (kernelState junkG junkV junkK rkStd (List.replicate 32 0) (blocks16.take 32))
      = .ok (specBlocks rkStd (blocks16.take 32)) := by
  rw [test_X2_model, modelBlocks_eq _ _ rfl]

/-- TEST: `cryptoBlockAsmX4`, four different blocks -/
theorem test_X4 :
    runDst Gen.ListAmd64Asm.cryptoBlockAsmX4 2000 (kernelState junkG junkV junkK rkStd (List.replicate 64 0) (blocks16.take 64))
      = .ok (specBlocks rkStd (blocks16.take 64)) := by
  rw [test_X4_model, modelBlocks_eq _ _ rfl]

/-- TEST: `cryptoBlockAsmX8`, eight different blocks -/
theorem test_X8 :
    runDst Gen.ListAmd64Asm.cryptoBlockAsmX8 2000 (kernelState junkG junkV junkK rkStd (List.replicate 128 0) (blocks16.take 128))
      = .ok (specBlocks rkStd (blocks16.take 128)) := by
  rw [test_X8_model, modelBlocks_eq _ _ rfl]

/-- TEST: `cryptoBlockAsmX16`, sixteen different blocks -/
theorem test_X16 :
    runDst Gen.ListAmd64Asm.cryptoBlockAsmX16 2000 (kernelState junkG junkV junkK rkStd (List.replicate 256 0) blocks16)
      = .ok (specBlocks rkStd blocks16) := by
  rw [test_X16_model, modelBlocks_eq _ _ rfl]

/-- TEST: the listing of `expandKeyAsm` on the example key gives the round keys of the specification, forwards
    in `enc` and backwards in `dec` -/
theorem test_expandKey :
    runExpandKey 2000 (expandKeyState junkG junkV junkK keyStd (List.replicate 128 0) (List.replicate 128 0))
      = .ok (((Spec.SM4.keySchedule (keyStd.map UInt8.ofNat)).map (·.toNat)),
             ((Spec.SM4.keySchedule (keyStd.map UInt8.ofNat)).reverse.map (·.toNat))) := by
  decide +kernel

/-- TEST: and these are the round keys printed in the standard -/
theorem test_expandKey_standard :
    (Spec.SM4.keySchedule (keyStd.map UInt8.ofNat)).map (·.toNat) = rkStd := by
  decide +kernel

end SMGo.Proofs.ISAValTests
