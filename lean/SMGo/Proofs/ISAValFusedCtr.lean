import SMGo.Proofs.ISAValFusedDw
import SMGo.Proofs.ISAValSealCode2
set_option linter.unusedSimpArgs false
namespace SMGo.Proofs.ISAVal
open SMGo.Model.ISAVal SMGo.Model.GCM SMGo.Proofs.GCM SMGo.Proofs.ISATouch
open SMGo.Model.ISA (Reg Opd Instr)

/-- the counter block `c` steps after the block with the big-endian words `W` (`VPADDD` on the last dword) -/
def ctrW (W : Nat × Nat × Nat × Nat) (c : Nat) : Nat × Nat × Nat × Nat := (W.1, W.2.1, W.2.2.1, (W.2.2.2 + c) % 2 ^ 32)

def QLt (W : Nat × Nat × Nat × Nat) : Prop := W.1 < 2 ^ 32 ∧ W.2.1 < 2 ^ 32 ∧ W.2.2.1 < 2 ^ 32 ∧ W.2.2.2 < 2 ^ 32

theorem quad_vpaddd (n a b l : Nat) (hl : 4 * l + 3 < n) :
    quadAt (map2 32 n (fun x y => (y + x) % 2 ^ 32) a b) l
      = ((lane 32 (4 * l) b + lane 32 (4 * l) a) % 2 ^ 32, (lane 32 (4 * l + 1) b + lane 32 (4 * l + 1) a) % 2 ^ 32,
         (lane 32 (4 * l + 2) b + lane 32 (4 * l + 2) a) % 2 ^ 32, (lane 32 (4 * l + 3) b + lane 32 (4 * l + 3) a) % 2 ^ 32) := by
  unfold quadAt
  rw [lane32_vpaddd n _ a b (by omega), lane32_vpaddd n _ a b (by omega), lane32_vpaddd n _ a b (by omega),
    lane32_vpaddd n _ a b (by omega)]

/-- counter + increment -/
theorem quad_ctr_add (n a b l : Nat) (hl : 4 * l + 3 < n) (W : Nat × Nat × Nat × Nat) (hW : QLt W) (c k : Nat)
    (ha : quadAt a l = ctrW W c) (hb : quadAt b l = (0, 0, 0, k)) :
    quadAt (map2 32 n (fun x y => (y + x) % 2 ^ 32) a b) l = ctrW W (c + k) := by
  rw [quad_vpaddd n a b l hl]
  unfold quadAt at ha hb
  unfold ctrW at ha
  simp only [Prod.mk.injEq] at ha hb
  obtain ⟨a0, a1, a2, a3⟩ := ha
  obtain ⟨b0, b1, b2, b3⟩ := hb
  obtain ⟨w0, w1, w2, _⟩ := hW
  rw [a0, a1, a2, a3, b0, b1, b2, b3]
  unfold ctrW
  simp only [Nat.zero_add, Prod.mk.injEq]
  refine ⟨Nat.mod_eq_of_lt w0, Nat.mod_eq_of_lt w1, Nat.mod_eq_of_lt w2, ?_⟩
  omega

/-- the same with the operands the other way round -/
theorem quad_ctr_add' (n a b l : Nat) (hl : 4 * l + 3 < n) (W : Nat × Nat × Nat × Nat) (hW : QLt W) (c k : Nat)
    (hb : quadAt b l = ctrW W c) (ha : quadAt a l = (0, 0, 0, k)) :
    quadAt (map2 32 n (fun x y => (y + x) % 2 ^ 32) a b) l = ctrW W (c + k) := by
  rw [quad_vpaddd n a b l hl]
  unfold quadAt at ha hb
  unfold ctrW at hb
  simp only [Prod.mk.injEq] at ha hb
  obtain ⟨a0, a1, a2, a3⟩ := ha
  obtain ⟨b0, b1, b2, b3⟩ := hb
  obtain ⟨w0, w1, w2, _⟩ := hW
  rw [a0, a1, a2, a3, b0, b1, b2, b3]
  unfold ctrW
  simp only [Nat.add_zero, Prod.mk.injEq]
  refine ⟨Nat.mod_eq_of_lt w0, Nat.mod_eq_of_lt w1, Nat.mod_eq_of_lt w2, ?_⟩
  omega

/-- increment + increment -/
theorem quad_inc_add (n a b l : Nat) (hl : 4 * l + 3 < n) (k1 k2 : Nat)
    (ha : quadAt a l = (0, 0, 0, k1)) (hb : quadAt b l = (0, 0, 0, k2)) (hk : k1 + k2 < 2 ^ 32) :
    quadAt (map2 32 n (fun x y => (y + x) % 2 ^ 32) a b) l = (0, 0, 0, k2 + k1) := by
  rw [quad_vpaddd n a b l hl]
  unfold quadAt at ha hb
  simp only [Prod.mk.injEq] at ha hb
  obtain ⟨a0, a1, a2, a3⟩ := ha
  obtain ⟨b0, b1, b2, b3⟩ := hb
  rw [a0, a1, a2, a3, b0, b1, b2, b3]
  simp only [Nat.zero_add, Prod.mk.injEq, Nat.zero_mod, true_and]
  omega

theorem add1_quad : ∀ l, l < 4 → quadAt ADD1v l = (0, 0, 0, l + 1) := by decide +kernel
theorem add2_quad : ∀ l, l < 4 → quadAt ADD2v l = (0, 0, 0, 4) := by decide +kernel
theorem add3_quad : ∀ l, l < 4 → quadAt ADD3v l = (0, 0, 0, 2) := by decide +kernel

theorem quadAt_mod (vl x l : Nat) (hl : 16 * l + 16 ≤ vl) : quadAt (x % 2 ^ (8 * vl)) l = quadAt x l := by
  have key : ∀ j, j < 4 * l + 4 → lane 32 j (x % 2 ^ (8 * vl)) = lane 32 j x := by
    intro j hj
    unfold lane
    rw [Nat.shiftRight_eq_div_pow, Nat.shiftRight_eq_div_pow]
    have e : 8 * vl = 32 * j + (8 * vl - 32 * j) := by omega
    rw [e, Nat.pow_add, Nat.mod_mul_right_div_self]
    have e2 : 8 * vl - 32 * j = 32 + (8 * vl - 32 * j - 32) := by omega
    rw [e2, Nat.pow_add, Nat.mod_mul_right_mod]
  unfold quadAt
  rw [key _ (by omega), key _ (by omega), key _ (by omega), key _ (by omega)]


section
variable (g v k : List Nat) (fl : Flags) (mem : List Region) (syms frame : List (String × Nat))
theorem execD_movl_imm (imm : Int) (d : Nat) (hd : d < g.length) :
    execD ⟨g, v, k, fl, mem, syms, frame⟩ (ins .MOVL [.imm imm, G d] 0)
      = .ok ⟨g.set d (imm64 imm % 2 ^ 32), v, k, fl, mem, syms, frame⟩ := by
  simp [execD, ins, G, exMov, setG, hd]
end

/-- `broadcastJ0` and `rev32` at the head of `cryptoBlocksAsm` -/
def headCode : List DInstr := (ladHeadCode 0).take 15

theorem ladHead_split (b : Nat) :
    ladHeadCode b = headCode ++ [ins .CMPQ [G 9, .imm 64] 0, ins .JLT [.target (b + 11872)] 0] := rfl

theorem quad_bcast_rev (J : Nat) (hJ : J < 2 ^ 128) (l : Nat) (hl : l < 4) :
    quadAt (vpshufb 64 (SHUFvl 64) (bcast4 J)) l
      = (bswap32 (lane 32 0 J), bswap32 (lane 32 1 J), bswap32 (lane 32 2 J), bswap32 (lane 32 3 J)) := by
  unfold quadAt
  rw [lane32_rev32_64 64 _ _ (by decide) (by omega), lane32_rev32_64 64 _ _ (by decide) (by omega),
    lane32_rev32_64 64 _ _ (by decide) (by omega), lane32_rev32_64 64 _ _ (by decide) (by omega),
    bcast4_lanes J hJ _ (by omega), bcast4_lanes J hJ _ (by omega), bcast4_lanes J hJ _ (by omega), bcast4_lanes J hJ _ (by omega)]
  have e0 : 4 * l % 4 = 0 := by omega
  have e1 : (4 * l + 1) % 4 = 1 := by omega
  have e2 : (4 * l + 2) % 4 = 2 := by omega
  have e3 : (4 * l + 3) % 4 = 3 := by omega
  rw [e0, e1, e2, e3]

set_option maxRecDepth 100000 in
theorem head_spec (s : State) (hG : s.gpr.length = 16) (hV : s.vec.length = 32) (J : Nat) (h14 : vreg s 14 = J) (hJ : J < 2 ^ 128)
    (h12 : vreg s 12 = SHUFvl 64) :
    ∃ s', execList headCode s = .ok s' ∧
      ∀ l, l < 4 → quadAt (vreg s' 14) l = (bswap32 (lane 32 0 J), bswap32 (lane 32 1 J), bswap32 (lane 32 2 J), bswap32 (lane 32 3 J)) := by
  have h16 : validVl 16 = true := by decide
  have h32 : validVl 32 = true := by decide
  have h64 : validVl 64 = true := by decide
  obtain ⟨gpr, vec, k, fl, mem, syms, frame⟩ := s
  simp only at hG hV
  obtain ⟨b0, b1, b2, b3, b4, b5, b6, b7, b8, b9, b10, b11, b12, b13, b14, b15, b16, b17, b18, b19, b20, b21, b22, b23, b24, b25, b26, b27, b28, b29, b30, b31, rfl⟩ := list32 vec hV
  simp only [vreg, List.getD_cons_succ, List.getD_cons_zero] at h12 h14
  subst h12 h14
  apply Exists.intro
  apply And.intro
  · show execList [_, _, _, _, _, _, _, _, _, _, _, _, _, _, _] _ = _
    apply exec_step
    · exact execD_movl_imm (hd := by omega) ..
    apply exec_step
    · exact execD_vmovreg (hmn := Or.inr rfl) (hvl := by rfl) (ha := by rfl) (hd := by simp) ..
    apply exec_step
    · exact execD_vmovreg (hmn := Or.inr rfl) (hvl := by rfl) (ha := by rfl) (hd := by simp) ..
    apply exec_step
    · exact execD_vmovreg (hmn := Or.inr rfl) (hvl := by rfl) (ha := by rfl) (hd := by simp) ..
    apply exec_step
    · exact execD_vmovreg (hmn := Or.inr rfl) (hvl := by rfl) (ha := by rfl) (hd := by simp) ..
    apply exec_step
    · exact execD_vmovreg (hmn := Or.inr rfl) (hvl := by rfl) (ha := by rfl) (hd := by simp) ..
    apply exec_step
    · exact execD_vmovreg (hmn := Or.inr rfl) (hvl := by rfl) (ha := by rfl) (hd := by simp) ..
    apply exec_step
    · exact execD_vmovreg (hmn := Or.inr rfl) (hvl := by rfl) (ha := by rfl) (hd := by simp) ..
    vstep; vstep; vstep; vstep; vstep; vstep; vstep
    exact execList_nil _
  · intro l hl
    simp only [List.set_cons_succ, List.set_cons_zero, vreg, List.getD_cons_succ, List.getD_cons_zero]
    have hJ' : b14 < 2 ^ (8 * 16) := hJ
    simp only [Nat.mod_eq_of_lt hJ']
    exact quad_bcast_rev b14 hJ l hl

end SMGo.Proofs.ISAVal
