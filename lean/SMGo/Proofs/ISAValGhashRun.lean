import SMGo.Proofs.ISAValGhashAbs
namespace SMGo.Proofs.ISAVal
open SMGo.Model.ISAVal SMGo.Model.ISA

/-! ### signed comparisons of non-negative 63-bit numbers -/

theorem msb8 (v : Nat) (hv : v < 2 ^ 64) : msb 8 v = decide (2 ^ 63 ≤ v) := by
  unfold msb
  rw [Nat.shiftRight_eq_div_pow]
  by_cases h : 2 ^ 63 ≤ v
  · have : v / 2 ^ (8 * 8 - 1) = 1 := by omega
    simp [this, h]
  · have : v / 2 ^ (8 * 8 - 1) = 0 := by omega
    simp [this, h]

theorem subF_flags (a b : Nat) (ha : a < 2 ^ 63) (hb : b < 2 ^ 63) :
    (subF 8 a b).2 = ⟨some (decide (a = b)), some (decide (a < b)), some (decide (a < b)), some false⟩ := by
  have hr : (a + 2 ^ (8 * 8) - b) % 2 ^ (8 * 8) < 2 ^ 64 := Nat.mod_lt _ (by decide)
  unfold subF
  simp only [msb8 a (by omega), msb8 b (by omega), msb8 _ hr]
  have h1 : decide (2 ^ 63 ≤ a) = false := by simp; omega
  have h2 : decide (2 ^ 63 ≤ b) = false := by simp; omega
  rw [h1, h2]
  by_cases hab : a < b
  · have e : (a + 2 ^ (8 * 8) - b) % 2 ^ (8 * 8) = a + 2 ^ 64 - b := by omega
    have : ((a + 2 ^ (8 * 8) - b) % 2 ^ (8 * 8) == 0) = false := by simp; omega
    have h3 : decide (2 ^ 63 ≤ (a + 2 ^ (8 * 8) - b) % 2 ^ (8 * 8)) = true := by simp; omega
    have h4 : decide (a = b) = false := by simp; omega
    simp [this, h3, h4, hab]
  · have e : (a + 2 ^ (8 * 8) - b) % 2 ^ (8 * 8) = a - b := by omega
    have h3 : decide (2 ^ 63 ≤ (a + 2 ^ (8 * 8) - b) % 2 ^ (8 * 8)) = false := by simp; omega
    by_cases heq : a = b
    · subst heq
      simp
    · have : ((a + 2 ^ (8 * 8) - b) % 2 ^ (8 * 8) == 0) = false := by simp; omega
      simp [this, h3, heq, hab]

theorem cond_jlt (a b : Nat) (ha : a < 2 ^ 63) (hb : b < 2 ^ 63) : Model.ISAVal.cond .JLT (subF 8 a b).2 = .ok (decide (a < b)) := by
  rw [subF_flags a b ha hb]; simp [Model.ISAVal.cond]
theorem cond_jgt (a b : Nat) (ha : a < 2 ^ 63) (hb : b < 2 ^ 63) : Model.ISAVal.cond .JGT (subF 8 a b).2 = .ok (decide (b < a)) := by
  rw [subF_flags a b ha hb]
  by_cases h1 : a = b
  · subst h1; simp [Model.ISAVal.cond]
  · by_cases h2 : a < b
    · have : ¬ b < a := by omega
      simp [Model.ISAVal.cond, h1, h2, this]
    · have : b < a := by omega
      simp [Model.ISAVal.cond, h1, h2, this]
theorem cond_jeq (a b : Nat) (ha : a < 2 ^ 63) (hb : b < 2 ^ 63) : Model.ISAVal.cond .JEQ (subF 8 a b).2 = .ok (decide (a = b)) := by
  rw [subF_flags a b ha hb]; simp [Model.ISAVal.cond]

/-! ### running through straight segments and conditional branches -/

theorem runFrom_seg (r : Routine) (a b : List DInstr) (hc : ∀ i ∈ a, i.mn.isControl = false)
    (s s' : State) (h : execList a s = .ok s') (fuel : Nat) :
    runFrom r (fuel + a.length) (a ++ b) s = runFrom r fuel b s' := by
  induction a generalizing s with
  | nil =>
    simp only [execList] at h
    have : s = s' := by injection h
    subst this
    simp
  | cons i rest ih =>
    have hi := hc i (by simp)
    simp only [execList] at h
    cases hE : execD s i with
    | error e => simp [hE] at h
    | ok s1 =>
      rw [hE] at h
      have hstep : stepD s i = .ok (s1, .fall) := by
        rw [stepD_of_not_control s i hi, hE]; rfl
      rw [List.length_cons, ← Nat.add_assoc, List.cons_append]
      simp only [runFrom, hstep]
      exact ih (fun j hj => hc j (by simp [hj])) s1 h

/-- a conditional branch whose condition is known -/
theorem runFrom_jcc (r : Routine) (i : DInstr) (rest : List DInstr) (s : State) (fuel pc : Nat) (c : Bool)
    (hmn : i.mn = .JLT ∨ i.mn = .JGT ∨ i.mn = .JEQ) (hops : i.ops = [.target pc])
    (hcnd : Model.ISAVal.cond i.mn s.flags = .ok c) :
    runFrom r (fuel + 1) (i :: rest) s
      = if c then (match findPc r pc with
                   | some cur => runFrom r fuel cur s
                   | none => .error "branch target is not an instruction")
        else runFrom r fuel rest s := by
  obtain ⟨pc0, mn, ops, vw⟩ := i
  simp only at hmn hops hcnd
  subst hops
  have hstep : stepD s ⟨pc0, mn, [.target pc], vw⟩ = .ok (s, if c then .jump pc else .fall) := by
    rcases hmn with rfl | rfl | rfl <;> simp [stepD, Mn.isControl, hcnd]
  simp only [runFrom, hstep]
  cases c <;> rfl

theorem runFrom_ret (r : Routine) (i : DInstr) (rest : List DInstr) (s : State) (fuel : Nat)
    (hmn : i.mn = .RET) (hops : i.ops = []) : runFrom r (fuel + 1) (i :: rest) s = .ok s := by
  obtain ⟨pc0, mn, ops, vw⟩ := i
  simp only at hmn hops
  subst hmn hops
  rfl

/-- more fuel does not change a successful run -/
theorem runFrom_mono (r : Routine) (fuel k : Nat) (cur : List DInstr) (s s' : State)
    (h : runFrom r fuel cur s = .ok s') : runFrom r (fuel + k) cur s = .ok s' := by
  induction fuel generalizing cur s with
  | zero => simp [runFrom] at h
  | succ f ih =>
    cases cur with
    | nil => simp [runFrom] at h
    | cons i rest =>
      rw [Nat.add_right_comm]
      simp only [runFrom] at h ⊢
      cases hs : stepD s i with
      | error e => rw [hs] at h; simp at h
      | ok p =>
        obtain ⟨s1, nx⟩ := p
        rw [hs] at h
        cases nx with
        | fall => exact ih rest s1 h
        | ret => exact h
        | jump pc =>
          simp only at h ⊢
          cases hf : findPc r pc with
          | none => rw [hf] at h; simp at h
          | some cur' => rw [hf] at h; exact ih cur' s1 h

end SMGo.Proofs.ISAVal
