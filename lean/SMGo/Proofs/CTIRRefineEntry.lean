/-
  Refinement, entry points of /repo/sm2/sm2.go in the generated program `prog` (SMGo/Gen/CTIRProg.lean), CLOSED:
  `sm2.DerivePublic` (96), `sm2.GenerateKey` (97), `sm2.SignHashed` (98) against `Model.SM2.derivePublic`,
  `generateKey`, `signHashed`, by COMPOSITION of
    SMGo/Proofs/CTIRRefineKeys.lean  (`ir_derivePublic_eq_model`, `ir_generateKey_eq_model_script`, modulo 87 and 91),
    SMGo/Proofs/CTIRRefineSign.lean  (`ir_signHashed_eq_model`, modulo `Callees`, `BigOk`, `ReaderOk`, `Globals`),
    SMGo/Proofs/CTIRRefineWrap.lean  (`ir_ScalarBaseMult_eq_model`: function 87 from the schedule 82),
    SMGo/Proofs/CTIRRefineClosed.lean (`pointCtx4`, the closed schedule / GetAffineX / Bytes, the transfer to `pointCtxFiat`),
    SMGo/Proofs/CTIRRefineScalar.lean, CTIRRefineScalarInv.lean (the scalar-field methods, `fiatN4`).
  No reasoning about IR statements here.

  The model context is `ctx4 : Model.SM2.Ctx Limbs Limbs` = `Model.SM2.ctxFiat` on the carrier `Limbs = {l // Out4 l}`
  of well-formed limb vectors (point layer `pointCtx4`, scalar field `fiatN4`, the generated 6-3-14 tables, n, …).
    §2  the callees, closed: `sbm4` (87, through CTIRRefineWrap from `ir_scalarBaseMult_6_3_14_fiat`), `pbytes4` (91);
    §3  `ir_derivePublic_fiat`, `ir_generateKey_fiat`, `ir_generateKey_nil_fiat`;
    §4  `callees4` (87, 89, scalar SetBytes 64 / Invert 57 / ToBigInt 71), `globals4` (globals 5, 15-18), `hne4` (the
        hypothesis `hne` of `ir_signHashed_eq_model` PROVED for `ctx4`: an accepted key has `d + 1 ≤ n - 1` and the scalar
        field's encoding of -1 is `ofNatBE 32 (n - 1)`), `ir_signHashed_fiat(_std)`;
    §5  transfer to `Model.SM2.ctxFiat` itself (carrier `List Nat`), the context of SMGo/Props/SM2Fiat.lean: the entry
        points return byte strings, so the transfer is an EQUATION: `derivePublic_ctx4`, `generateKey_ctx4`,
        `signHashed_ctx4`;
    §6  the closed statements against `ctxFiat`: `ir_derivePublic_ctxFiat(_std)`, `ir_generateKey_ctxFiat(_std)`,
        `ir_generateKey_nil_ctxFiat`, `ir_signHashed_ctxFiat(_std)`.
  Hypotheses left in the main statements: the domain (`r ≠ 0` non-nil reader handle, `priv.length < 2^63`) and the
  behaviour of the externals (`hE`: external 10 returns one value; `BigOk`; `ReaderOk`), all true of
  `stdOracle extKinds tape` with a scripted reader: the `_std` variants have none of them.

  FOUND while composing (fixed at the source): `CTIRRefineSign.Callees.setB` / `.inv` quantified over EVERY receiver
  `old`, false for `prog` (`runT prog globals noX 300000 64 [elemV [], bytesV (0^31 ++ [5])]` is stuck, Invert on a
  five-limb receiver returns five limbs); they now take `Out4 old →` (SignHashed passes the fresh `[0,0,0,0]`).
-/
import SMGo.Proofs.CTIRRefineClosed
import SMGo.Proofs.CTIRRefineWrap
import SMGo.Proofs.CTIRRefineKeys
import SMGo.Proofs.CTIRRefineSign
import SMGo.Proofs.CTIRRefineScalar
import SMGo.Proofs.CTIRRefineScalarInv
open SMGo SMGo.Model.CTIR SMGo.Gen.CTIRProg SMGo.Proofs.CTIRRefineUtils SMGo.Proofs.CTIRRefineField
open SMGo.Proofs.CTIRRefineClosed
open SMGo.Proofs.CTIRRefineFiat (fuelFiat)
open SMGo.Proofs.CTIRRefineComb (CalleeFails nilPointV)
open SMGo.Proofs.CTIRRefinePointB (ptV)
open SMGo.Proofs.CTIRRefineScalar (fiatN4)
set_option linter.unusedSimpArgs false
set_option linter.unusedVariables false

namespace SMGo.Proofs.CTIRRefineEntry

/-! ## 1. The context -/

/-- the two copies of the carrier (CTIRRefineClosed, CTIRRefineScalar) are the same type, with the same encoding -/
theorem limbs_eq : CTIRRefineScalar.Limbs = Limbs := rfl
theorem encL_eq : @CTIRRefineScalar.encL = @encL := rfl

/-- **the model context of the Go code**: `Model.SM2.ctxFiat` (SMGo/Model/SM2InstFiat.lean) on the carrier `Limbs`:
    the generated Fiat functions of both fields, the generated formulas, tables and constants -/
def ctx4 : Model.SM2.Ctx Limbs Limbs :=
  { C := pointCtx4, S := fiatN4,
    first := Gen.SM2Tables.sm2Precomputed_6_3_14, second := Gen.SM2Tables.sm2Precomputed_6_3_14_Remainder,
    n := Gen.SM2Params.param_N,
    zBytes := Bytes.ofNatBE Gen.SM2Params.zBytesLen Gen.SM2Params.zBytesVal,
    tt := Gen.SM3Const.tt.map (BitVec.ofNat 32) }

theorem ctx4_n : ctx4.n = Model.SM2.ctxFiat.n := rfl
theorem ctx4_first : ctx4.first = Model.SM2.ctxFiat.first := rfl
theorem ctx4_second : ctx4.second = Model.SM2.ctxFiat.second := rfl
theorem ctx4_zBytes : ctx4.zBytes = Model.SM2.ctxFiat.zBytes := rfl
theorem ctx4_tt : ctx4.tt = Model.SM2.ctxFiat.tt := rfl

/-! ## 2. The callees of the entry points, closed

  `O` is any oracle whose external 10 (`fmt.Errorf`) returns one value (`hE`; true of `stdOracle extKinds tape` and of
  every `readerOracle base s` over such a `base`). -/

/-- fuel of `internal.ScalarBaseMult` (87): the schedule (2278031) and the two forwarding wrappers -/
def fuelSbm : Nat := 2278041

/-- fuel of `(*SM2Point).Bytes` (91) -/
def fuelPBytes : Nat := 250766

section Callees
variable {O : Oracle}

/-- **`internal.ScalarBaseMult` (87) of `prog` = `Model.SM2.scalarBaseMult ctx4`**, in the `Computes` / `CalleeFails` form
    that DerivePublic, GenerateKey and SignHashed take as hypothesis -/
theorem sbm4 (hE : ∀ args : List Val, ∃ v, O 10 args = [v]) (k : Bytes) :
    match Model.SM2.scalarBaseMult ctx4 k with
    | .ok r => Computes prog globals O 87 fuelSbm [bytesV k] [CTIRRefinePointA.ptV encL r, .int 0]
    | .err => Computes prog globals O 87 fuelSbm [bytesV k] [nilPointV, .int 1]
    | .panic => CalleeFails prog globals O 87 [bytesV k] := by
  have h0 := ir_scalarBaseMult_6_3_14_fiat (X := O) k (hE _)
  rw [fuelScalarBaseMult_6_3_14] at h0
  have key := CTIRRefineWrap.ir_ScalarBaseMult_eq_model (G := globals) (X := O) ctx4 (ptV encL) (F := 2278031) k
    globals_7 globals_8 (by
      cases h : Model.Curve.scalarBaseMult (Model.Curve.pointOps ctx4.C) k ctx4.first ctx4.second 6 3 14 4 with
      | ok r => rw [show Model.Curve.scalarBaseMult (Model.Curve.pointOps pointCtx4) k Gen.SM2Tables.sm2Precomputed_6_3_14
            Gen.SM2Tables.sm2Precomputed_6_3_14_Remainder 6 3 14 4 = .ok r from h] at h0; exact h0
      | err => rw [show Model.Curve.scalarBaseMult (Model.Curve.pointOps pointCtx4) k Gen.SM2Tables.sm2Precomputed_6_3_14
            Gen.SM2Tables.sm2Precomputed_6_3_14_Remainder 6 3 14 4 = .err from h] at h0; exact h0
      | panic => rw [show Model.Curve.scalarBaseMult (Model.Curve.pointOps pointCtx4) k Gen.SM2Tables.sm2Precomputed_6_3_14
            Gen.SM2Tables.sm2Precomputed_6_3_14_Remainder 6 3 14 4 = .panic from h] at h0; exact h0)
  cases h : Model.SM2.scalarBaseMult ctx4 k with
  | ok r => rw [h] at key; exact key
  | err => rw [h] at key; exact key
  | panic => rw [h] at key; exact key

/-- `sbm4` in any other `match` (the auxiliary matchers of two theorems are different constants) -/
theorem sbm4' (hE : ∀ args : List Val, ∃ v, O 10 args = [v]) (k : Bytes) :
    (∀ r, Model.SM2.scalarBaseMult ctx4 k = .ok r →
      Computes prog globals O 87 fuelSbm [bytesV k] [CTIRRefinePointA.ptV encL r, .int 0]) ∧
    (Model.SM2.scalarBaseMult ctx4 k = .err → Computes prog globals O 87 fuelSbm [bytesV k] [nilPointV, .int 1]) ∧
    (Model.SM2.scalarBaseMult ctx4 k = .panic → CalleeFails prog globals O 87 [bytesV k]) := by
  have key := sbm4 hE k
  refine ⟨fun r h => ?_, fun h => ?_, fun h => ?_⟩ <;> (rw [h] at key; exact key)

/-- **`(*SM2Point).Bytes` (91) of `prog` = `Model.Point.bytes pointCtx4 p true`**, as a `Computes` fact -/
theorem pbytes4 (p : Model.Point.Pt Limbs) :
    Computes prog globals O 91 fuelPBytes [CTIRRefinePointA.ptV encL p] [bytesV (Model.Point.bytes ctx4.C p true)] := by
  have h := CTIRRefinePointB.pointBytes_computes (P := prog) (G := globals) (X := O) (C := pointCtx4) (enc := encL)
    prog_hasWrappers CTIRRefinePointB.prog_hasInv CTIRRefinePointB.prog_hasAffine (fun e => e.2)
    (fiatPrims4 (G := globals) (X := O)).square (fiatPrims4 (G := globals) (X := O)).mul rfl rfl bytesPrims4 globals_2 p
  rw [fuelPointBytes_fiat] at h
  exact h

end Callees

/-! ## 3. DerivePublic and GenerateKey, closed (no `Computes` hypothesis) -/

section Keys
open SMGo.Proofs.CTIRRefineKeys (fuelDerive fuelGen readerOracle)
open SMGo.Model.SM2 (Script avail)

/-- fuel of DerivePublic: 2278041 + 250766 + 40 -/
theorem fuelDerive_fiat : fuelDerive fuelSbm fuelPBytes = 2528847 := by decide

/-- **`sm2.DerivePublic` of `prog` = `Model.SM2.derivePublic ctx4`**, generated globals, any oracle whose external 10
    (`fmt.Errorf`, reached only through the error path `len(k) ≠ 32` of the schedule) returns one value; `priv` is any
    byte string.  `.ok (x, y)`: the run returns `(x, y, nil)`; `.err`: `(nil, nil, err)`; `.panic`: does not occur for
    the generated tables (SMGo/Props/SM2Fiat.lean), covered anyway. -/
theorem ir_derivePublic_fiat {O : Oracle} (hE : ∀ args : List Val, ∃ v, O 10 args = [v]) (priv : Bytes) :
    match Model.SM2.derivePublic ctx4 priv with
    | .ok (x, y) => ∀ f, 2528847 ≤ f →
        runV prog globals O f f_sm2_DerivePublic [bytesV priv] = .ret [bytesV x, bytesV y, .int 0]
    | .err => ∀ f, 2528847 ≤ f →
        runV prog globals O f f_sm2_DerivePublic [bytesV priv] = .ret [.arr [], .arr [], .int 1]
    | .panic =>
        (∃ F, ∀ f, F ≤ f → runV prog globals O f f_sm2_DerivePublic [bytesV priv] = .panic) ∨
        (∀ f, runV prog globals O f f_sm2_DerivePublic [bytesV priv] = .stuck) := by
  have key := CTIRRefineKeys.ir_derivePublic_eq_model (G := globals) (O := O) ctx4 encL fuelSbm fuelPBytes priv
    (fun k => by
      obtain ⟨a, b, c⟩ := sbm4' hE k
      cases h : Model.SM2.scalarBaseMult ctx4 k with
      | ok r => exact a r h
      | err => exact b h
      | panic => exact c h) pbytes4
  rw [fuelDerive_fiat] at key
  cases h : Model.SM2.derivePublic ctx4 priv with
  | ok xy => obtain ⟨x, y⟩ := xy; rw [h] at key; exact key
  | err => rw [h] at key; exact key
  | panic => rw [h] at key; exact key

/-- the scripted reader over a base oracle keeps external 10 -/
theorem readerOracle_errorf {base : Oracle} (hE : ∀ args : List Val, ∃ v, base 10 args = [v]) (s : Script)
    (args : List Val) : ∃ v, readerOracle base s 10 args = [v] := by
  rw [CTIRRefineKeys.readerOracle_other base s (by decide)]
  exact hE args

/-- global 5 (`sm2.nMinus1Bytes`) of the generated program is that of `ctx4` -/
theorem globals_5 : globals 5 = bytesV (Model.SM2.nMinus1Bytes ctx4) := CTIRRefineKeys.globals_nMinus1_ctx ctx4 rfl

/-- **`sm2.GenerateKey` of `prog` = `Model.SM2.generateKey ctx4 (some s)`**: generated globals; the reader is the
    scripted reader `readerOracle base s` of CTIRRefineKeys (external 11 = `io.ReadFull` answers from the script `s`)
    over any `base` whose external 10 returns one value; reader handle `.int r`, `r ≠ 0` (`.int 0` is the nil reader:
    `ir_generateKey_nil_fiat`).  Fuel: `fuelGen (avail s / 32 + 1) fuelSbm fuelPBytes
    = (avail s / 32 + 1) · 640 + 2528869`. -/
theorem ir_generateKey_fiat (base : Oracle) (hE : ∀ args : List Val, ∃ v, base 10 args = [v]) (s : Script)
    (r : Int) (hr : r ≠ 0) :
    match Model.SM2.generateKey ctx4 (some s) with
    | .ok ((priv, x, y), _) => ∀ f, fuelGen (avail s / 32 + 1) fuelSbm fuelPBytes ≤ f →
        runV prog globals (readerOracle base s) f f_sm2_GenerateKey [.int r] = .ret [bytesV priv, bytesV x, bytesV y, .int 0]
    | .err => ∃ v, ∀ f, fuelGen (avail s / 32 + 1) fuelSbm fuelPBytes ≤ f →
        runV prog globals (readerOracle base s) f f_sm2_GenerateKey [.int r] = .ret [v, .arr [], .arr [], .int 1]
    | .panic =>
        (∃ F, ∀ f, F ≤ f → runV prog globals (readerOracle base s) f f_sm2_GenerateKey [.int r] = .panic) ∨
        (∀ f, runV prog globals (readerOracle base s) f f_sm2_GenerateKey [.int r] = .stuck) := by
  have key := CTIRRefineKeys.ir_generateKey_eq_model_script (G := globals) ctx4 encL fuelSbm fuelPBytes base s globals_5 r hr
    (fun k => by
      obtain ⟨a, b, c⟩ := sbm4' (readerOracle_errorf hE s) k
      cases h : Model.SM2.scalarBaseMult ctx4 k with
      | ok r => exact a r h
      | err => exact b h
      | panic => exact c h) pbytes4
  cases h : Model.SM2.generateKey ctx4 (some s) with
  | ok res => obtain ⟨⟨priv, x, y⟩, n⟩ := res; rw [h] at key; exact key
  | err => rw [h] at key; exact key
  | panic => rw [h] at key; exact key

theorem fuelGen_fiat (n : Nat) : fuelGen n fuelSbm fuelPBytes = n * 640 + 2528869 := by
  unfold fuelGen CTIRRefineKeys.fuelLoop fuelDerive fuelSbm fuelPBytes
  omega

/-- **`sm2.GenerateKey(nil)`**: the model says `.err`, the IR returns `(nil, nil, nil, err)`; any globals, any oracle -/
theorem ir_generateKey_nil_fiat {G : Nat → Val} {O : Oracle} :
    Model.SM2.generateKey ctx4 none = .err ∧
    ∀ f, 20 ≤ f → runV prog G O f f_sm2_GenerateKey [.int 0] = .ret [.arr [], .arr [], .arr [], .int 1] :=
  CTIRRefineKeys.ir_generateKey_nil ctx4

end Keys


/-! ## 4. SignHashed, closed -/

section Sign
open SMGo.Proofs.CTIRRefineSign (Callees BigOk ReaderOk Globals fuelSign)
open SMGo.Model.SM2 (Script avail)

/-- fuels of GetAffineX (89), scalar SetBytes (64), scalar Invert (57), scalar ToBigInt (71) -/
def fuelGax : Nat := 247858
def fuelSsb : Nat := fuelSetBytes fuelFiat fuelFiat
def fuelSinv : Nat := CTIRRefineScalarInv.fuelScalarInvert fuelFiat fuelFiat
def fuelStb : Nat := CTIRRefinePointB.fuelToBigInt fuelFiat fuelFiat

/-- **the callees of SignHashed in `prog`** compute the operations of `ctx4` (hypothesis bundle `Callees` of
    CTIRRefineSign, discharged): for any oracle whose externals 7 (`big.Int.SetBytes`) and 10 (`fmt.Errorf`) behave -/
theorem callees4 {O : Oracle} (h7 : ∀ b : Bytes, O 7 [bytesV b] = [.int ((Bytes.toNatBE b : Nat) : Int)])
    (hE : ∀ args : List Val, ∃ v, O 10 args = [v]) :
    Callees prog globals O ctx4 encL encL fuelSbm fuelGax fuelSsb fuelSinv fuelStb where
  sbm := fun k => by
    obtain ⟨a, b, c⟩ := sbm4' hE k
    cases h : Model.SM2.scalarBaseMult ctx4 k with
    | ok r => exact a r h
    | err => exact b h
    | panic => exact c h
  gax := fun q => by
    have h := CTIRRefinePointB.getAffineX_computes (P := prog) (G := globals) (X := O) (C := pointCtx4) (enc := encL)
      prog_hasWrappers CTIRRefinePointB.prog_hasInv CTIRRefinePointB.prog_hasAffine (fun e => e.2)
      (fiatPrims4 (G := globals) (X := O)).square (fiatPrims4 (G := globals) (X := O)).mul rfl rfl bytesPrims4 globals_2 h7 q
    rw [fuelGetAffineX_fiat] at h
    exact h
  setB := fun old hold buf => by
    cases h0 : Model.Field.scalarSetBytes ctx4.S buf with
    | ok d =>
      have h : Model.Field.scalarSetBytes fiatN4 buf = .ok d := h0
      have hv : buf.length = 32 := by
        apply Classical.byContradiction
        intro hne
        simp [Model.Field.scalarSetBytes, hne] at h
      exact CTIRRefineScalar.scalarSetBytes_ok (X := O) CTIRRefineScalar.globals_3 old buf d h
        (CTIRRefineScalar.scalarSetBytesPrims4 old hold buf hv)
    | err =>
      have h : Model.Field.scalarSetBytes fiatN4 buf = .err := h0
      exact (CTIRRefineScalar.scalarSetBytes_err (X := O) CTIRRefineScalar.globals_3 old buf h).mono
        (F' := fuelSsb) (by decide)
    | panic =>
      have h : Model.Field.scalarSetBytes fiatN4 buf = .panic := h0
      exact absurd h (CTIRRefineScalar.scalarSetBytes_ne_panic fiatN4 buf
        (by rw [CTIRRefineScalar.scalarMinusOne_length]; exact Nat.le_refl _))
  inv := fun old hold d =>
    CTIRRefineScalarInv.scalarInvert_computes (P := prog) (G := globals) (X := O) (S := fiatN4) (encS := encL)
      CTIRRefineScalarInv.prog_hasScalarInv (fun e => e.2)
      (fun o a ho => (CTIRRefineFiat.ir_sm2ScalarSquare_eq_gen o a.val ho a.2).1)
      (fun o a b ho => (CTIRRefineFiat.ir_sm2ScalarMul_eq_gen o a.val b.val ho a.2 b.2).1) rfl rfl old hold d
  toB := fun d => CTIRRefineScalar.scalarToBigInt_computes (CTIRRefineScalar.scalarBytesPrims4 d) h7

set_option maxRecDepth 100000 in
/-- the globals read by SignHashed: `sm2.nMinus1Bytes` (5), `sm2.nBytes` (15), `sm2.n` (16), `sm2.nBytes33` (17),
    `sm2.one` (18) of the generated program are those of `ctx4` -/
theorem globals4 : Globals globals ctx4 where
  g5 := globals_5
  g15 := by kernel_rfl
  g16 := rfl
  g17 := by kernel_rfl
  g18 := rfl

/-! ### `hne`: the scalar field of `ctx4` agrees with `n` (the ignored error of `d1.SetBytes` cannot occur) -/

set_option maxRecDepth 100000 in
theorem minusOne_fiatN4 : Model.Field.minusOneEncoding fiatN4 = Bytes.ofNatBE 32 (Gen.SM2Params.param_N - 1) := by kernel_rfl

set_option maxRecDepth 100000 in
theorem nMinus1_length : (Model.SM2.nMinus1Bytes ctx4).length = 32 := by decide +kernel

/-- an accepted private key `d` satisfies `d + 1 ≤ n - 1` -/
theorem priv_le (priv : Bytes) (h : Model.SM2.testPrivateKey ctx4 priv = .ok 0) :
    Bytes.toNatBE priv + 1 ≤ Gen.SM2Params.param_N - 1 := by
  rw [CTIRRefineCurve.testPrivateKey_eq] at h
  have hlt := SM2SignBytes.toNatBE_lt priv
  by_cases hl : (priv.length : Int) - 32 > 0
  · rw [if_pos hl] at h
    simp only [Outcome.ok.injEq] at h
    omega
  · rw [if_neg hl] at h
    by_cases hz : priv.all (· == 0) = true
    · rw [if_pos hz] at h; simp at h
    · rw [if_neg hz] at h
      by_cases hs : (priv.length : Int) - 32 < 0
      · have hpow : 256 ^ priv.length ≤ 256 ^ 31 := Nat.pow_le_pow_right (by decide) (by omega)
        have hn : 256 ^ 31 + 1 ≤ Gen.SM2Params.param_N - 1 := by decide
        omega
      · rw [if_neg hs] at h
        have hlen : priv.length = 32 := by omega
        rw [UtilsCmp.cmp_total] at h
        simp only [Spec.Utils.cmp] at h
        have e32 : (32 : Int).toNat = 32 := rfl
        rw [e32, nMinus1_length, hlen] at h
        simp only [Nat.lt_irrefl, gt_iff_lt, or_self, if_false, Outcome.bind_ok] at h
        by_cases hc : Spec.Utils.lexCmp (priv.take 32) ((Model.SM2.nMinus1Bytes ctx4).take 32) = -1
        · rw [List.take_of_length_le (by omega), List.take_of_length_le (by rw [nMinus1_length]; exact Nat.le_refl _)] at hc
          have h1 := (UtilsCmp.lexCmp_lt_iff_toNat _ _ (by rw [hlen, nMinus1_length])).mp hc
          have h2 : Bytes.toNatBE (Model.SM2.nMinus1Bytes ctx4) = Gen.SM2Params.param_N - 1 :=
            SM2SignBytes.toNatBE_ofNatMin _
          omega
        · rw [if_neg hc] at h; simp at h

/-- **`hne` of `ir_signHashed_eq_model` holds for `ctx4`**: for an accepted key the scalar `SetBytes` of `d + 1`
    does not fail (`d + 1 ≤ n - 1`, and the scalar field's encoding of -1 is that of `n - 1`) -/
theorem hne4 (priv : Bytes) (h : Model.SM2.testPrivateKey ctx4 priv = .ok 0) :
    Model.Field.scalarSetBytes ctx4.S (Bytes.ofNatBE 32 (Bytes.toNatBE priv + 1)) ≠ .err := by
  have hle := priv_le priv h
  have hb := CTIRRefineSign.priv_bound ctx4 priv h
  show Model.Field.scalarSetBytes fiatN4 _ ≠ .err
  intro he
  unfold Model.Field.scalarSetBytes at he
  have hlen : (Bytes.ofNatBE 32 (Bytes.toNatBE priv + 1)).length = 32 := SM2SignBytes.ofNatBE_length _ _
  rw [if_neg (fun hh => hh hlen), UtilsCmp.cmp_total, minusOne_fiatN4] at he
  simp only [Spec.Utils.cmp] at he
  have e32 : (32 : Int).toNat = 32 := rfl
  rw [e32, hlen, SM2SignBytes.ofNatBE_length] at he
  simp only [Nat.lt_irrefl, gt_iff_lt, or_self, if_false] at he
  rw [List.take_of_length_le (by rw [hlen]; exact Nat.le_refl _),
    List.take_of_length_le (by rw [SM2SignBytes.ofNatBE_length]; exact Nat.le_refl _)] at he
  by_cases hc : 0 < Spec.Utils.lexCmp (Bytes.ofNatBE 32 (Bytes.toNatBE priv + 1)) (Bytes.ofNatBE 32 (Gen.SM2Params.param_N - 1))
  · have h1 : Spec.Utils.lexCmp (Bytes.ofNatBE 32 (Bytes.toNatBE priv + 1)) (Bytes.ofNatBE 32 (Gen.SM2Params.param_N - 1)) = 1 := by
      rcases UtilsCmp.lexCmp_range (Bytes.ofNatBE 32 (Bytes.toNatBE priv + 1)) (Bytes.ofNatBE 32 (Gen.SM2Params.param_N - 1))
        with e | e | e <;> omega
    have h2 := (UtilsCmp.lexCmp_swap _ _).mp h1
    have h3 := (UtilsCmp.lexCmp_lt_iff_toNat _ _ (by rw [SM2SignBytes.ofNatBE_length, SM2SignBytes.ofNatBE_length])).mp h2
    rw [SM2SignBytes.toNatBE_ofNatBE _ _ hb, SM2SignBytes.toNatBE_ofNatBE _ _ (by decide)] at h3
    omega
  · rw [if_neg hc] at he
    cases he

/-- fuel of SignHashed for a reader script delivering `a` bytes:
    `(fuelSbm + fuelGax + fuelSsb + fuelSinv + fuelStb + 1218) · (a / 32 + 1) + 623` (`CTIRRefineSign.fuelSign_eq`) -/
def fuelSign4 (a : Nat) : Nat := fuelSign fuelSbm fuelGax fuelSsb fuelSinv fuelStb a

/-- **`sm2.SignHashed` of `prog` = `Model.SM2.signHashed ctx4`**, generated globals; `O` any oracle whose `math/big`
    externals and `fmt.Errorf` behave (`BigOk`; true of `stdOracle extKinds tape`: `stdOracle_bigOk`) and whose
    external 11 (`io.ReadFull`) follows the scripts `sc 0, sc 1, …` (`ReaderOk`; satisfiable: `readerOracle_ok`);
    `rd` the reader value, `priv` (fewer than 2^63 bytes: a Go slice) and `e` any byte strings.
    The three hypotheses `hn0`, `hn`, `hne` of `ir_signHashed_eq_model` are discharged for `ctx4`. -/
theorem ir_signHashed_fiat {O : Oracle} (hB : BigOk O) {rd : Val} {sc : Nat → Script} (hR : ReaderOk O rd sc)
    {priv e : Bytes} (hlen : priv.length < 2 ^ 63) :
    match Model.SM2.signHashed ctx4 (sc 0) priv e with
    | .ok ((r, s), _) => ∀ f, fuelSign4 (avail (sc 0)) ≤ f →
        runV prog globals O f f_sm2_SignHashed [rd, bytesV priv, bytesV e] = .ret [bytesV r, bytesV s, .int 0]
    | .err => ∃ code : Int, code ≠ 0 ∧ ∀ f, fuelSign4 (avail (sc 0)) ≤ f →
        runV prog globals O f f_sm2_SignHashed [rd, bytesV priv, bytesV e] = .ret [bytesV [], bytesV [], .int code]
    | .panic => (∃ F, ∀ f, F ≤ f → runV prog globals O f f_sm2_SignHashed [rd, bytesV priv, bytesV e] = .panic) ∨
        (∀ f, runV prog globals O f f_sm2_SignHashed [rd, bytesV priv, bytesV e] = .stuck) := by
  have key := CTIRRefineSign.ir_signHashed_eq_model (callees4 hB.setBytes hB.errorf) hB globals4 (by decide) (by decide) hR
    (e := e) hlen (hne4 priv)
  cases h : Model.SM2.signHashed ctx4 (sc 0) priv e with
  | ok res => obtain ⟨⟨r, s⟩, n⟩ := res; rw [h] at key; exact key
  | err => rw [h] at key; exact key
  | panic => rw [h] at key; exact key

/-- **SignHashed with the standard external world and a scripted reader**: `O = readerOracle (stdOracle extKinds tape) s`
    (CTIRRefineSign's reader: external 11 answers from the script `s`).  NO hypothesis besides `priv.length < 2^63`. -/
theorem ir_signHashed_fiat_std (tape : Nat → Nat → Nat) (s : Script) (rd : Val) {priv e : Bytes} (hlen : priv.length < 2 ^ 63) :
    match Model.SM2.signHashed ctx4 s priv e with
    | .ok ((r, sg), _) => ∀ f, fuelSign4 (avail s) ≤ f →
        runV prog globals (CTIRRefineSign.readerOracle (stdOracle extKinds tape) s) f f_sm2_SignHashed [rd, bytesV priv, bytesV e]
          = .ret [bytesV r, bytesV sg, .int 0]
    | .err => ∃ code : Int, code ≠ 0 ∧ ∀ f, fuelSign4 (avail s) ≤ f →
        runV prog globals (CTIRRefineSign.readerOracle (stdOracle extKinds tape) s) f f_sm2_SignHashed [rd, bytesV priv, bytesV e]
          = .ret [bytesV [], bytesV [], .int code]
    | .panic => (∃ F, ∀ f, F ≤ f →
          runV prog globals (CTIRRefineSign.readerOracle (stdOracle extKinds tape) s) f f_sm2_SignHashed [rd, bytesV priv, bytesV e] = .panic) ∨
        (∀ f, runV prog globals (CTIRRefineSign.readerOracle (stdOracle extKinds tape) s) f f_sm2_SignHashed [rd, bytesV priv, bytesV e] = .stuck) := by
  have key := ir_signHashed_fiat (CTIRRefineSign.readerOracle_bigOk (CTIRRefineSign.stdOracle_bigOk tape) s)
    (CTIRRefineSign.readerOracle_ok (stdOracle extKinds tape) rd s) (priv := priv) (e := e) hlen
  have e0 : CTIRRefineSign.scAt s 0 = s := rfl
  rw [e0] at key
  cases h : Model.SM2.signHashed ctx4 s priv e with
  | ok res => obtain ⟨⟨r, sg⟩, n⟩ := res; rw [h] at key; exact key
  | err => rw [h] at key; exact key
  | panic => rw [h] at key; exact key

end Sign


/-! ## 5. Transfer to `Model.SM2.ctxFiat` (carrier `List Nat`, the context of SMGo/Props/SM2Fiat.lean)

  The entry points return byte strings, so the models over `ctx4` and over `ctxFiat` are EQUAL functions:
  `derivePublic_ctx4`, `generateKey_ctx4`, `signHashed_ctx4`.  Ingredients: `scalarBaseMult_val`, `pointBytes_val`,
  `getAffineX_val` of CTIRRefineClosed (coordinate field), `fiatN4_scalarSetBytes` of CTIRRefineScalar, and the generic
  `run_map` below for the inversion chain of the scalar field. -/

section Transfer
open SMGo.Proofs.FiatCompose (ORel)
open SMGo.Model.SM2 (ctxFiat Script avail)
open SMGo.Proofs.CTIRRefineKeys (pubOf)
open SMGo.Proofs.CTIRRefineSign (mS mInv mRk mR mKG mStep)

/-- an addition chain commutes with a map of carriers that commutes with squaring, multiplication and zero -/
theorem run_map {α β : Type} (φ : α → β) (sq : α → α) (mul : α → α → α) (zero : α) (sq' : β → β) (mul' : β → β → β)
    (zero' : β) (hsq : ∀ a, φ (sq a) = sq' (φ a)) (hmul : ∀ a b, φ (mul a b) = mul' (φ a) (φ b)) (hz : φ zero = zero')
    (n : Nat) (prog : List SMGo.Model.AddChain.Op) (x : α) :
    φ (SMGo.Model.AddChain.run sq mul zero n prog x) = SMGo.Model.AddChain.run sq' mul' zero' n prog (φ x) := by
  have hget : ∀ (r : List α) (i : Nat), (r.map φ).getD i zero' = φ (r.getD i zero) := by
    intro r i
    simp only [List.getD_eq_getElem?_getD, List.getElem?_map]
    cases r[i]? with
    | none => exact hz.symm
    | some a => rfl
  have hfold : ∀ (prog : List SMGo.Model.AddChain.Op) (r : List α),
      (prog.foldl (fun (r : List α) op =>
        match op with
        | .sq d s => r.set d (sq (r.getD s zero))
        | .mul d a b => r.set d (mul (r.getD a zero) (r.getD b zero))) r).map φ =
      prog.foldl (fun (r : List β) op =>
        match op with
        | .sq d s => r.set d (sq' (r.getD s zero'))
        | .mul d a b => r.set d (mul' (r.getD a zero') (r.getD b zero'))) (r.map φ) := by
    intro prog
    induction prog with
    | nil => intro r; rfl
    | cons op prog ih =>
      intro r
      rw [List.foldl_cons, List.foldl_cons, ih]
      cases op with
      | sq d s => simp only [List.map_set, hget, hsq]
      | mul d a b => simp only [List.map_set, hget, hmul]
  have h1 := hfold prog (x :: List.replicate (n - 1) zero)
  rw [List.map_cons, List.map_replicate, hz] at h1
  have h2 := hget (prog.foldl (fun (r : List α) op =>
        match op with
        | .sq d s => r.set d (sq (r.getD s zero))
        | .mul d a b => r.set d (mul (r.getD a zero) (r.getD b zero))) (x :: List.replicate (n - 1) zero)) 1
  rw [h1] at h2
  exact h2.symm

/-- the scalar inversion (the generated chain `scalarInverse`) commutes with `Subtype.val` -/
theorem invertN_val (x : Limbs) : (Model.Field.invert fiatN4 x).val = Model.Field.invert Model.SM2.fiatN x.val :=
  run_map Subtype.val fiatN4.square fiatN4.mul fiatN4.zero Model.SM2.fiatN.square Model.SM2.fiatN.mul Model.SM2.fiatN.zero
    (fun _ => rfl) (fun _ _ => rfl) rfl _ _ x

theorem toNatN_val (a : Limbs) : Model.Field.toNat fiatN4 a = Model.Field.toNat Model.SM2.fiatN a.val := rfl

/-- the fixed-base multiplication over `ctx4` and over `ctxFiat` -/
theorem sbm_ctx4 (k : Bytes) :
    ORel (fun p r => r = valPt p) (Model.SM2.scalarBaseMult ctx4 k) (Model.SM2.scalarBaseMult ctxFiat k) :=
  scalarBaseMult_val k Gen.SM2Tables.sm2Precomputed_6_3_14 Gen.SM2Tables.sm2Precomputed_6_3_14_Remainder 6 3 14 4
    tables_6_3_14_out4.1 tables_6_3_14_out4.2 (by rw [second_6_3_14_width]; decide)

theorem pubOf_ctx4 (priv : Bytes) : pubOf ctx4 priv = pubOf ctxFiat priv := by
  unfold pubOf
  refine SMGo.Proofs.FiatCompose.ORel.map_eq (sbm_ctx4 priv) (fun a b hab => ?_)
  subst hab
  have e : Model.Point.bytes ctxFiat.C (valPt a) true = Model.Point.bytes ctx4.C a true := pointBytes_val a
  rw [e]

/-- **`derivePublic` over `ctx4` is `derivePublic` over `ctxFiat`** -/
theorem derivePublic_ctx4 (priv : Bytes) : Model.SM2.derivePublic ctx4 priv = Model.SM2.derivePublic ctxFiat priv := by
  rw [CTIRRefineKeys.derivePublic_eq, CTIRRefineKeys.derivePublic_eq, pubOf_ctx4]

theorem testPrivateKey_ctx4 (priv : Bytes) : Model.SM2.testPrivateKey ctx4 priv = Model.SM2.testPrivateKey ctxFiat priv := rfl

theorem genKeyLoop_ctx4 : ∀ (fuel : Nat) (sc : Script),
    Model.SM2.genKeyLoop ctx4 fuel sc = Model.SM2.genKeyLoop ctxFiat fuel sc := by
  intro fuel
  induction fuel with
  | zero => intro sc; rfl
  | succ fuel ih =>
    intro sc
    rw [CTIRRefineKeys.genKeyLoop_succ, CTIRRefineKeys.genKeyLoop_succ]
    rcases Model.SM2.readFull sc 32 [] with ⟨_ | b, rest⟩
    · rfl
    · simp only [testPrivateKey_ctx4, ih]

/-- **`generateKey` over `ctx4` is `generateKey` over `ctxFiat`** -/
theorem generateKey_ctx4 (rand : Option Script) : Model.SM2.generateKey ctx4 rand = Model.SM2.generateKey ctxFiat rand := by
  cases rand with
  | none => rfl
  | some sc =>
    rw [CTIRRefineKeys.generateKey_some, CTIRRefineKeys.generateKey_some, genKeyLoop_ctx4]
    simp only [pubOf_ctx4]

theorem mS_ctx4 (rInt rkInt : Nat) (d1 : Limbs) : mS ctx4 rInt rkInt d1 = mS ctxFiat rInt rkInt d1.val := by
  unfold mS
  have e : Model.Field.toNat ctx4.S (Model.Field.invert ctx4.S d1) = Model.Field.toNat ctxFiat.S (Model.Field.invert ctxFiat.S d1.val) := by
    show Model.Field.toNat fiatN4 (Model.Field.invert fiatN4 d1) = Model.Field.toNat Model.SM2.fiatN (Model.Field.invert Model.SM2.fiatN d1.val)
    rw [toNatN_val, invertN_val]
  simp only [e]
  rfl

theorem mInv_ctx4 (priv : Bytes) (rInt rkInt : Nat) : mInv ctx4 priv rInt rkInt = mInv ctxFiat priv rInt rkInt := by
  unfold mInv
  cases Model.SM2.fillBytes 32 (Bytes.toNatBE priv + 1) with
  | err => rfl
  | panic => rfl
  | ok buf =>
    simp only
    have e : CTIRRefineScalar.mapO Subtype.val (Model.Field.scalarSetBytes ctx4.S buf) = Model.Field.scalarSetBytes ctxFiat.S buf :=
      CTIRRefineScalar.fiatN4_scalarSetBytes buf
    rw [← e]
    cases Model.Field.scalarSetBytes ctx4.S buf with
    | err => rfl
    | panic => rfl
    | ok d1 => exact mS_ctx4 rInt rkInt d1

theorem mRk_ctx4 (priv : Bytes) (rInt : Nat) (K : Bytes) : mRk ctx4 priv rInt K = mRk ctxFiat priv rInt K := by
  unfold mRk
  simp only [mInv_ctx4]
  rfl

theorem mR_ctx4 (priv e K : Bytes) (kG : Model.Point.Pt Limbs) : mR ctx4 priv e K kG = mR ctxFiat priv e K (valPt kG) := by
  unfold mR
  have eg : Model.Point.getAffineX ctxFiat.C (valPt kG) = Model.Point.getAffineX ctx4.C kG := getAffineX_val kG
  simp only [eg, mRk_ctx4]
  rfl

theorem mKG_ctx4 (priv e K : Bytes) : mKG ctx4 priv e K = mKG ctxFiat priv e K := by
  unfold mKG
  have h := sbm_ctx4 K
  cases h4 : Model.SM2.scalarBaseMult ctx4 K with
  | ok a =>
    cases hL : Model.SM2.scalarBaseMult ctxFiat K with
    | ok b =>
      rw [h4, hL] at h
      have hb : b = valPt a := h
      subst hb
      exact mR_ctx4 priv e K a
    | err => rw [h4, hL] at h; exact h.elim
    | panic => rw [h4, hL] at h; exact h.elim
  | err =>
    cases hL : Model.SM2.scalarBaseMult ctxFiat K with
    | ok b => rw [h4, hL] at h; exact h.elim
    | err => rfl
    | panic => rw [h4, hL] at h; exact h.elim
  | panic =>
    cases hL : Model.SM2.scalarBaseMult ctxFiat K with
    | ok b => rw [h4, hL] at h; exact h.elim
    | err => rw [h4, hL] at h; exact h.elim
    | panic => rfl

theorem mStep_ctx4 (priv e K : Bytes) : mStep ctx4 priv e K = mStep ctxFiat priv e K := by
  unfold mStep
  simp only [mKG_ctx4]
  rfl

theorem signLoop_ctx4 (priv e : Bytes) : ∀ (fuel : Nat) (sc : Script),
    Model.SM2.signLoop ctx4 priv e fuel sc = Model.SM2.signLoop ctxFiat priv e fuel sc := by
  intro fuel
  induction fuel with
  | zero => intro sc; rfl
  | succ fuel ih =>
    intro sc
    rw [CTIRRefineSign.signLoop_succ, CTIRRefineSign.signLoop_succ]
    rcases Model.SM2.readFull sc 32 [] with ⟨_ | K, rest⟩
    · rfl
    · simp only [mStep_ctx4, ih]

/-- **`signHashed` over `ctx4` is `signHashed` over `ctxFiat`** -/
theorem signHashed_ctx4 (sc : Script) (priv e : Bytes) :
    Model.SM2.signHashed ctx4 sc priv e = Model.SM2.signHashed ctxFiat sc priv e := by
  rw [CTIRRefineSign.signHashed_eq, CTIRRefineSign.signHashed_eq, testPrivateKey_ctx4, signLoop_ctx4]

end Transfer


/-! ## 6. The entry points of `prog` against `Model.SM2.ctxFiat`, closed

  `G = globals`.  Hypotheses left: only the domain (`r ≠ 0`: a non-nil reader; `priv.length < 2^63`: a Go slice) and, in
  the variants for a general oracle, the behaviour of the externals (`hE`, `BigOk`, `ReaderOk`), which the `_std` variants
  discharge for `stdOracle extKinds tape` with a scripted reader. -/

section Final
open SMGo.Model.SM2 (ctxFiat Script avail)
open SMGo.Proofs.CTIRRefineSign (BigOk ReaderOk)

/-- **`sm2.DerivePublic` of `prog` = `Model.SM2.derivePublic Model.SM2.ctxFiat`** -/
theorem ir_derivePublic_ctxFiat {O : Oracle} (hE : ∀ args : List Val, ∃ v, O 10 args = [v]) (priv : Bytes) :
    match Model.SM2.derivePublic ctxFiat priv with
    | .ok (x, y) => ∀ f, 2528847 ≤ f →
        runV prog globals O f f_sm2_DerivePublic [bytesV priv] = .ret [bytesV x, bytesV y, .int 0]
    | .err => ∀ f, 2528847 ≤ f →
        runV prog globals O f f_sm2_DerivePublic [bytesV priv] = .ret [.arr [], .arr [], .int 1]
    | .panic =>
        (∃ F, ∀ f, F ≤ f → runV prog globals O f f_sm2_DerivePublic [bytesV priv] = .panic) ∨
        (∀ f, runV prog globals O f f_sm2_DerivePublic [bytesV priv] = .stuck) := by
  have key := ir_derivePublic_fiat hE priv
  rw [derivePublic_ctx4] at key
  cases h : Model.SM2.derivePublic ctxFiat priv with
  | ok xy => obtain ⟨x, y⟩ := xy; rw [h] at key; exact key
  | err => rw [h] at key; exact key
  | panic => rw [h] at key; exact key

/-- the same with the standard external world: NO hypothesis -/
theorem ir_derivePublic_ctxFiat_std (tape : Nat → Nat → Nat) (priv : Bytes) :
    match Model.SM2.derivePublic ctxFiat priv with
    | .ok (x, y) => ∀ f, 2528847 ≤ f →
        runV prog globals (stdOracle extKinds tape) f f_sm2_DerivePublic [bytesV priv] = .ret [bytesV x, bytesV y, .int 0]
    | .err => ∀ f, 2528847 ≤ f →
        runV prog globals (stdOracle extKinds tape) f f_sm2_DerivePublic [bytesV priv] = .ret [.arr [], .arr [], .int 1]
    | .panic =>
        (∃ F, ∀ f, F ≤ f → runV prog globals (stdOracle extKinds tape) f f_sm2_DerivePublic [bytesV priv] = .panic) ∨
        (∀ f, runV prog globals (stdOracle extKinds tape) f f_sm2_DerivePublic [bytesV priv] = .stuck) :=
  ir_derivePublic_ctxFiat (fun args => ⟨_, stdOracle_errorf tape args⟩) priv

/-- **`sm2.GenerateKey` of `prog` = `Model.SM2.generateKey Model.SM2.ctxFiat (some s)`**, scripted reader of
    CTIRRefineKeys over any base oracle whose external 10 returns one value; reader handle `.int r`, `r ≠ 0` -/
theorem ir_generateKey_ctxFiat (base : Oracle) (hE : ∀ args : List Val, ∃ v, base 10 args = [v]) (s : Script)
    (r : Int) (hr : r ≠ 0) :
    match Model.SM2.generateKey ctxFiat (some s) with
    | .ok ((priv, x, y), _) => ∀ f, (avail s / 32 + 1) * 640 + 2528869 ≤ f →
        runV prog globals (CTIRRefineKeys.readerOracle base s) f f_sm2_GenerateKey [.int r]
          = .ret [bytesV priv, bytesV x, bytesV y, .int 0]
    | .err => ∃ v, ∀ f, (avail s / 32 + 1) * 640 + 2528869 ≤ f →
        runV prog globals (CTIRRefineKeys.readerOracle base s) f f_sm2_GenerateKey [.int r] = .ret [v, .arr [], .arr [], .int 1]
    | .panic =>
        (∃ F, ∀ f, F ≤ f → runV prog globals (CTIRRefineKeys.readerOracle base s) f f_sm2_GenerateKey [.int r] = .panic) ∨
        (∀ f, runV prog globals (CTIRRefineKeys.readerOracle base s) f f_sm2_GenerateKey [.int r] = .stuck) := by
  have key := ir_generateKey_fiat base hE s r hr
  rw [generateKey_ctx4, fuelGen_fiat] at key
  cases h : Model.SM2.generateKey ctxFiat (some s) with
  | ok res => obtain ⟨⟨priv, x, y⟩, n⟩ := res; rw [h] at key; exact key
  | err => rw [h] at key; exact key
  | panic => rw [h] at key; exact key

/-- the same over the standard external world: NO hypothesis besides `r ≠ 0` -/
theorem ir_generateKey_ctxFiat_std (tape : Nat → Nat → Nat) (s : Script) (r : Int) (hr : r ≠ 0) :
    match Model.SM2.generateKey ctxFiat (some s) with
    | .ok ((priv, x, y), _) => ∀ f, (avail s / 32 + 1) * 640 + 2528869 ≤ f →
        runV prog globals (CTIRRefineKeys.readerOracle (stdOracle extKinds tape) s) f f_sm2_GenerateKey [.int r]
          = .ret [bytesV priv, bytesV x, bytesV y, .int 0]
    | .err => ∃ v, ∀ f, (avail s / 32 + 1) * 640 + 2528869 ≤ f →
        runV prog globals (CTIRRefineKeys.readerOracle (stdOracle extKinds tape) s) f f_sm2_GenerateKey [.int r]
          = .ret [v, .arr [], .arr [], .int 1]
    | .panic =>
        (∃ F, ∀ f, F ≤ f →
          runV prog globals (CTIRRefineKeys.readerOracle (stdOracle extKinds tape) s) f f_sm2_GenerateKey [.int r] = .panic) ∨
        (∀ f, runV prog globals (CTIRRefineKeys.readerOracle (stdOracle extKinds tape) s) f f_sm2_GenerateKey [.int r] = .stuck) :=
  ir_generateKey_ctxFiat (stdOracle extKinds tape) (fun args => ⟨_, stdOracle_errorf tape args⟩) s r hr

/-- **`sm2.GenerateKey(nil)`** against `ctxFiat` -/
theorem ir_generateKey_nil_ctxFiat {G : Nat → Val} {O : Oracle} :
    Model.SM2.generateKey ctxFiat none = .err ∧
    ∀ f, 20 ≤ f → runV prog G O f f_sm2_GenerateKey [.int 0] = .ret [.arr [], .arr [], .arr [], .int 1] :=
  CTIRRefineKeys.ir_generateKey_nil ctxFiat

/-- **`sm2.SignHashed` of `prog` = `Model.SM2.signHashed Model.SM2.ctxFiat`** (hypotheses as `ir_signHashed_fiat`) -/
theorem ir_signHashed_ctxFiat {O : Oracle} (hB : BigOk O) {rd : Val} {sc : Nat → Script} (hR : ReaderOk O rd sc)
    {priv e : Bytes} (hlen : priv.length < 2 ^ 63) :
    match Model.SM2.signHashed ctxFiat (sc 0) priv e with
    | .ok ((r, s), _) => ∀ f, fuelSign4 (avail (sc 0)) ≤ f →
        runV prog globals O f f_sm2_SignHashed [rd, bytesV priv, bytesV e] = .ret [bytesV r, bytesV s, .int 0]
    | .err => ∃ code : Int, code ≠ 0 ∧ ∀ f, fuelSign4 (avail (sc 0)) ≤ f →
        runV prog globals O f f_sm2_SignHashed [rd, bytesV priv, bytesV e] = .ret [bytesV [], bytesV [], .int code]
    | .panic => (∃ F, ∀ f, F ≤ f → runV prog globals O f f_sm2_SignHashed [rd, bytesV priv, bytesV e] = .panic) ∨
        (∀ f, runV prog globals O f f_sm2_SignHashed [rd, bytesV priv, bytesV e] = .stuck) := by
  have key := ir_signHashed_fiat hB hR (priv := priv) (e := e) hlen
  rw [signHashed_ctx4] at key
  cases h : Model.SM2.signHashed ctxFiat (sc 0) priv e with
  | ok res => obtain ⟨⟨r, s⟩, n⟩ := res; rw [h] at key; exact key
  | err => rw [h] at key; exact key
  | panic => rw [h] at key; exact key

/-- **SignHashed, standard external world and scripted reader**: NO hypothesis besides `priv.length < 2^63` -/
theorem ir_signHashed_ctxFiat_std (tape : Nat → Nat → Nat) (s : Script) (rd : Val) {priv e : Bytes}
    (hlen : priv.length < 2 ^ 63) :
    match Model.SM2.signHashed ctxFiat s priv e with
    | .ok ((r, sg), _) => ∀ f, fuelSign4 (avail s) ≤ f →
        runV prog globals (CTIRRefineSign.readerOracle (stdOracle extKinds tape) s) f f_sm2_SignHashed [rd, bytesV priv, bytesV e]
          = .ret [bytesV r, bytesV sg, .int 0]
    | .err => ∃ code : Int, code ≠ 0 ∧ ∀ f, fuelSign4 (avail s) ≤ f →
        runV prog globals (CTIRRefineSign.readerOracle (stdOracle extKinds tape) s) f f_sm2_SignHashed [rd, bytesV priv, bytesV e]
          = .ret [bytesV [], bytesV [], .int code]
    | .panic => (∃ F, ∀ f, F ≤ f →
          runV prog globals (CTIRRefineSign.readerOracle (stdOracle extKinds tape) s) f f_sm2_SignHashed [rd, bytesV priv, bytesV e] = .panic) ∨
        (∀ f, runV prog globals (CTIRRefineSign.readerOracle (stdOracle extKinds tape) s) f f_sm2_SignHashed [rd, bytesV priv, bytesV e] = .stuck) := by
  have key := ir_signHashed_fiat_std tape s rd (priv := priv) (e := e) hlen
  rw [signHashed_ctx4] at key
  cases h : Model.SM2.signHashed ctxFiat s priv e with
  | ok res => obtain ⟨⟨r, sg⟩, n⟩ := res; rw [h] at key; exact key
  | err => rw [h] at key; exact key
  | panic => rw [h] at key; exact key

/-- the fuel of SignHashed in closed form: 2797095 per candidate `K` -/
theorem fuelSign4_eq (a : Nat) : fuelSign4 a = 2797095 * (a / 32 + 1) + 623 := by
  unfold fuelSign4
  rw [CTIRRefineSign.fuelSign_eq]
  have e : fuelSbm + fuelGax + fuelSsb + fuelSinv + fuelStb + 1218 = 2797095 := by decide
  rw [e]

end Final

#print axioms sbm4
#print axioms pbytes4
#print axioms callees4
#print axioms globals4
#print axioms hne4
#print axioms ir_derivePublic_fiat
#print axioms ir_generateKey_fiat
#print axioms ir_generateKey_nil_fiat
#print axioms ir_signHashed_fiat
#print axioms ir_signHashed_fiat_std
#print axioms derivePublic_ctx4
#print axioms generateKey_ctx4
#print axioms signHashed_ctx4
#print axioms ir_derivePublic_ctxFiat
#print axioms ir_derivePublic_ctxFiat_std
#print axioms ir_generateKey_ctxFiat
#print axioms ir_generateKey_ctxFiat_std
#print axioms ir_generateKey_nil_ctxFiat
#print axioms ir_signHashed_ctxFiat
#print axioms ir_signHashed_ctxFiat_std

end SMGo.Proofs.CTIRRefineEntry
