/-
  The specification's seal/open (`Spec.GCM.sealGCM/openGCM` over `Spec.SM4.cryptFast`) have the
  output lengths the Go glue relies on (`AsmLens`): |pt| + tagSize, and |ct| − tagSize.
  Core Lean only.
-/
import SMGo.Spec.GCM
import SMGo.Spec.SM4Fast
import SMGo.Model.GCMGlue
import SMGo.Proofs.GCMGlue
namespace SMGo.Proofs.GCMGlue
open SMGo SMGo.Model SMGo.Model.GCMGlue SMGo.Spec.GCM

theorem length_cryptFast (rk : List W32) (b : Bytes) : (Spec.SM4.cryptFast rk b).length = 16 := by
  unfold Spec.SM4.cryptFast
  generalize List.foldl Spec.SM4.roundStepF ((wordsBE b).getD 0 0, (wordsBE b).getD 1 0, (wordsBE b).getD 2 0, (wordsBE b).getD 3 0) rk = r
  obtain ⟨a, b, c, d⟩ := r
  simp [w32Bytes]

theorem length_natToBlock (n : Nat) : (natToBlock n).length = 16 := by
  simp [natToBlock, Bytes.ofNatBE]

theorem length_gctrAux (E : Bytes → Bytes) (hE : ∀ b, (E b).length = 16) :
    ∀ (fuel cb : Nat) (x : Bytes), x.length ≤ 16 * fuel → (gctrAux E fuel cb x).length = x.length := by
  intro fuel
  induction fuel with
  | zero => intro cb x hx; simp at hx; simp [gctrAux, hx]
  | succ k ih =>
    intro cb x hx
    unfold gctrAux
    by_cases he : x.isEmpty
    · have : x = [] := by simpa using he
      simp [this]
    · simp only [he, Bool.false_eq_true, if_false, List.length_append]
      rw [ih (inc32 cb) (x.drop 16) (by simp [List.length_drop]; omega)]
      simp [xorBytes, hE, List.length_drop]
      omega

theorem length_gctr (E : Bytes → Bytes) (hE : ∀ b, (E b).length = 16) (icb : Nat) (x : Bytes) :
    (gctr E icb x).length = x.length := by
  unfold gctr
  apply length_gctrAux E hE
  omega

theorem length_tagOf (E : Bytes → Bytes) (hE : ∀ b, (E b).length = 16) (h j : Nat) (aad c : Bytes)
    (t : Nat) (ht : t ≤ 16) : (tagOf E h j aad c t).length = t := by
  simp [tagOf, length_gctr E hE, length_natToBlock]; omega

theorem length_sealGCM (E : Bytes → Bytes) (hE : ∀ b, (E b).length = 16) (t : Nat) (ht : t ≤ 16)
    (iv pt aad : Bytes) : (sealGCM E t iv pt aad).length = pt.length + t := by
  simp [sealGCM, length_gctr E hE, length_tagOf E hE _ _ _ _ t ht]

theorem length_openGCM (E : Bytes → Bytes) (hE : ∀ b, (E b).length = 16) (t : Nat)
    (iv ct aad pt : Bytes) (h : openGCM E t iv ct aad = some pt) : pt.length = ct.length - t := by
  unfold openGCM at h
  by_cases h1 : ct.length < t
  · simp [h1] at h
  · simp only [h1, if_false] at h
    split at h
    · injection h with h; subst h
      rw [length_gctr E hE]; simp [List.length_take]
    · cases h

/-- the specification as the assembly's effect has the lengths the glue relies on -/
theorem asmLens_spec (rk : List W32) (nonceSize tagSize : Nat) (ht : tagSize ≤ 16) :
    AsmLens { nonceSize := nonceSize, tagSize := tagSize, asm := specAsm rk tagSize } where
  seal_len := fun nonce pt aad => length_sealGCM _ (length_cryptFast rk) tagSize ht nonce pt aad
  open_len := fun nonce ct aad pt h => length_openGCM _ (length_cryptFast rk) tagSize nonce ct aad pt h

theorem asmLens_newGCM (key : Bytes) (nonceSize tagSize : Nat) (ht : tagSize ≤ 16) :
    AsmLens (newGCM key nonceSize tagSize) :=
  asmLens_spec _ nonceSize tagSize ht

end SMGo.Proofs.GCMGlue
