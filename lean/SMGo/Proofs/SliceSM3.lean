/-
  `(*SM3).Sum(in)` on the slice heap: the digest has 32 bytes for every state with eight chaining
  words, and `append(in, hash[:]...)` follows the append rule.
  Core Lean only.
-/
import SMGo.Model.GCMGlue
import SMGo.Proofs.Slice
import SMGo.Proofs.GCMGlueContract
namespace SMGo.Proofs.SliceSM3
open SMGo SMGo.Model SMGo.Model.Mem SMGo.Model.GCMGlue SMGo.Proofs.Slice SMGo.Proofs.GCMGlue

theorem length_cf (tt h : List W32) (msg : Bytes) (hh : h.length = 8) :
    (SM3.cf tt h msg).length = 8 := by
  simp [SM3.cf, SM3.Regs.toList, hh]

theorem length_absorb (tt : List W32) :
    ∀ (n : Nat) (h : List W32) (data : Bytes), data.length ≤ n → h.length = 8 →
      (SM3.absorb tt h data).1.length = 8 := by
  intro n
  induction n with
  | zero =>
    intro h data hd hh
    rw [SM3.absorb]
    have : data.length < 64 := by omega
    simp [this, hh]
  | succ k ih =>
    intro h data hd hh
    rw [SM3.absorb]
    by_cases hlt : data.length < 64
    · simp [hlt, hh]
    · simp only [hlt, dite_false]
      apply ih
      · simp [List.length_drop]; omega
      · exact length_cf tt h data hh

theorem length_write_h (tt : List W32) (s : SM3.St) (data : Bytes) (hh : s.h.length = 8) :
    (SM3.write tt s data).1.h.length = 8 := by
  unfold SM3.write
  simp only []
  split <;> rename_i hnx
  · split <;> rename_i hfull
    · split <;> rename_i hz
      · split <;> simp [length_absorb tt _ _ _ (Nat.le_refl _) (length_cf tt _ _ hh)]
      · simp [length_cf tt _ _ hh]
    · split <;> rename_i hz
      · split <;> simp [length_absorb tt _ _ _ (Nat.le_refl _) hh]
      · simp [hh]
  · split <;> rename_i hz
    · split <;> simp [length_absorb tt _ _ _ (Nat.le_refl _) hh]
    · simp [hh]

/-- the digest `checkSum` writes into `hash[:]` is 32 bytes -/
theorem length_checkSum (tt : List W32) (s : SM3.St) (hh : s.h.length = 8) :
    (SM3.checkSum tt s).1.length = 32 := by
  unfold SM3.checkSum
  simp only []
  have h4 : ∀ l : List W32, (l.flatMap w32Bytes).length = 4 * l.length := by
    intro l
    induction l with
    | nil => rfl
    | cons a t ih => simp [List.flatMap_cons, w32Bytes, ih]; omega
  rw [h4]
  split <;> (rw [length_cf]; exact length_write_h tt _ _ hh)

/-- `Sum` follows the append rule and leaves the receiver as it was -/
theorem sum_contract (tt : List W32) (s : SM3.St) (h : Heap) (inp : Slice) (hwf : WF h inp) :
    let r := sm3Sum tt s h inp
    let d := (SM3.checkSum tt s).1
    r.1 = s ∧
    Mem.read r.2.1 r.2.2 = Mem.read h inp ++ d ∧
    Mem.read r.2.1 r.2.2 = SM3.sum tt s (Mem.read h inp) ∧
    WF r.2.1 r.2.2 ∧
    (Shares r.2.2 inp ↔ inp.arr ≠ none ∧ d.length ≤ inp.cap - inp.len) ∧
    UnchangedOutside h r.2.1 (InRegion r.2.2 inp.len d.length) := by
  intro r d
  obtain ⟨h1, h2, _, h4, h5, h6, h7⟩ := append_spec h inp d hwf
  have hr : r = (s, (append h inp d).1, (append h inp d).2) := rfl
  rw [hr]
  refine ⟨rfl, h1, h1, h2, h4, h7, h6, ?_⟩
  intro a i ha hout
  exact h5 a i ha hout

theorem sm3Sum_eq (tt : List W32) (s : SM3.St) (h : Heap) (inp : Slice) :
    sm3Sum tt s h inp =
      (s, (append h inp (SM3.checkSum tt s).1).1, (append h inp (SM3.checkSum tt s).1).2) := rfl

/-- Sum twice on the same buffer (receiver and heap as the first call left them) -/
theorem sum_twice (tt : List W32) (s : SM3.St) (h : Heap) (inp : Slice) (hwf : WF h inp) :
    Mem.read (sm3Sum tt (sm3Sum tt s h inp).1 (sm3Sum tt s h inp).2.1 inp).2.1
        (sm3Sum tt (sm3Sum tt s h inp).1 (sm3Sum tt s h inp).2.1 inp).2.2
      = Mem.read (sm3Sum tt s h inp).2.1 (sm3Sum tt s h inp).2.2 := by
  simp only [sm3Sum_eq]
  exact append_twice h inp _ hwf

end SMGo.Proofs.SliceSM3
