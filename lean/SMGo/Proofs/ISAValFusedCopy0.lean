import SMGo.Proofs.ISAValFusedPrefix
set_option linter.unusedSimpArgs false
namespace SMGo.Proofs.ISAVal
open SMGo.Model.ISAVal SMGo.Proofs.ISATouch
open SMGo.Model.ISA (Reg Opd Instr)

/-! ## `copyAsm` -/

/-- the move mnemonic of width `w` bytes -/
def movOf (w : Nat) : Mn := if w = 8 then .MOVQ else if w = 4 then .MOVL else if w = 2 then .MOVW else .MOVB

def isW (w : Nat) : Prop := w = 8 ∨ w = 4 ∨ w = 2 ∨ w = 1

theorem aluWidth_movOf {w : Nat} (h : isW w) : aluWidth (movOf w) = w := by
  rcases h with rfl | rfl | rfl | rfl <;> rfl

theorem a_mov_load_gpr (s : State) (w b d : Nat) (hw : isW w) (bs : List Nat) (hb : b < s.gpr.length) (hd : d < s.gpr.length)
    (hload : readMem s.mem ((greg s b + 0 + imm64 0) % 2 ^ 64) w = .ok bs) :
    execD s (ins (movOf w) [M b 0, G d] 0) = .ok (setGreg s d (mergeG w (greg s d) (unlanes 8 bs))) := by
  obtain ⟨g, v, k, fl, mem, syms, frame⟩ := s
  have hgb := getElem?_getD g b hb
  have hgd := getElem?_getD g d hd
  have hd' : d < g.length := hd
  simp only [greg, Nat.add_zero] at hload
  rcases hw with rfl | rfl | rfl | rfl <;>
    simp only [movOf, execD, ins, M, G, exMov, aluWidth, effAddr, getG, hgb, hgd, ok_bind, pure_eq_ok, Nat.add_zero, loadLE, hload,
      Except.map, setG, setGreg, if_pos hd', greg, if_true, if_false, Nat.reduceEqDiff] <;> rfl

theorem a_mov_store_gpr (s : State) (w a b : Nat) (hw : isW w) (mem' : List Region) (ha : a < s.gpr.length) (hb : b < s.gpr.length)
    (hstore : writeMem s.mem ((greg s b + 0 + imm64 0) % 2 ^ 64) (lanes 8 w (greg s a)) = .ok mem') :
    execD s (ins (movOf w) [G a, M b 0] 0) = .ok (setMem s mem') := by
  obtain ⟨g, v, k, fl, mem, syms, frame⟩ := s
  have hga := getElem?_getD g a ha
  have hgb := getElem?_getD g b hb
  simp only [greg, Nat.add_zero] at hstore
  rcases hw with rfl | rfl | rfl | rfl <;>
    simp only [movOf, execD, ins, M, G, exMov, aluWidth, effAddr, getG, hga, hgb, ok_bind, pure_eq_ok, Nat.add_zero, storeLE, hstore,
      Except.map, setMem, if_true, if_false, Nat.reduceEqDiff] <;> rfl


theorem lanes8_mod (w x : Nat) : lanes 8 w (x % 2 ^ (8 * w)) = lanes 8 w x :=
  lanes_congr 8 w _ _ (fun i hi => lane_mod 8 i (8 * w) x (by omega))

/-- the bytes a `w`-byte move stores after loading the bytes `bs` -/
theorem lanes_mergeG (w old : Nat) (hw : isW w) (bs : List Nat) (hl : bs.length = w) (hb : ∀ x ∈ bs, x < 2 ^ 8) :
    lanes 8 w (mergeG w old (unlanes 8 bs)) = bs := by
  have key : lanes 8 w (mergeG w old (unlanes 8 bs)) = lanes 8 w (unlanes 8 bs) := by
    rw [← lanes8_mod w (mergeG w old (unlanes 8 bs)), ← lanes8_mod w (unlanes 8 bs)]
    congr 1
    rcases hw with rfl | rfl | rfl | rfl
    · simp [mergeG]
    · simp [mergeG]
    · simp only [mergeG, if_neg (show ¬ (2 = 8) from by decide), if_neg (show ¬ (2 = 4) from by decide)]
      have h1 : old - old % 2 ^ (8 * 2) = 2 ^ (8 * 2) * (old / 2 ^ (8 * 2)) := by
        have := Nat.div_add_mod old (2 ^ (8 * 2)); omega
      rw [h1, Nat.mul_add_mod, Nat.mod_mod]
    · simp only [mergeG, if_neg (show ¬ (1 = 8) from by decide), if_neg (show ¬ (1 = 4) from by decide)]
      have h1 : old - old % 2 ^ (8 * 1) = 2 ^ (8 * 1) * (old / 2 ^ (8 * 1)) := by
        have := Nat.div_add_mod old (2 ^ (8 * 1)); omega
      rw [h1, Nat.mul_add_mod, Nat.mod_mod]
  rw [key, lanes_unlanes 8 w bs hb hl]

/-- a memory with one writable buffer of `len` bytes at `base`, as a function of the buffer's contents -/
structure Buf (M : List Nat → List Region) (base len : Nat) : Prop where
  rd : ∀ b off n, b.length = len → off + n ≤ len → readMem (M b) (base + off) n = .ok ((b.drop off).take n)
  wr : ∀ b off bs, b.length = len → off + bs.length ≤ len →
    writeMem (M b) (base + off) bs = .ok (M (b.take off ++ bs ++ b.drop (off + bs.length)))

/-- `b` with the bytes `bs` written at offset `off` -/
def spliceAt (b : List Nat) (off : Nat) (bs : List Nat) : List Nat := b.take off ++ bs ++ b.drop (off + bs.length)

theorem spliceAt_length (b : List Nat) (off : Nat) (bs : List Nat) (h : off + bs.length ≤ b.length) : (spliceAt b off bs).length = b.length := by
  simp [spliceAt]; omega

theorem spliceAt_spliceAt (b : List Nat) (off : Nat) (x y : List Nat) (h : off + x.length + y.length ≤ b.length) :
    spliceAt (spliceAt b off x) (off + x.length) y = spliceAt b off (x ++ y) := by
  unfold spliceAt
  have h1 : (b.take off ++ x ++ b.drop (off + x.length)).take (off + x.length) = b.take off ++ x := by
    rw [List.take_left' (by simp; omega)]
  have h2 : (b.take off ++ x ++ b.drop (off + x.length)).drop (off + x.length + y.length) = b.drop (off + (x ++ y).length) := by
    rw [List.drop_append, List.drop_eq_nil_of_le (by simp; omega), List.nil_append, List.drop_drop, List.length_append]
    congr 1
    simp
    omega
  rw [h1, h2]
  simp only [List.append_assoc]

end SMGo.Proofs.ISAVal
