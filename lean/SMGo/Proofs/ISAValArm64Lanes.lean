/-
  Lane algebra of the arm64 vector operations of SMGo/Model/ISAValArm64.lean: what EOR, SUB, SHL, SRI, TBL, TBX,
  REV32, the element insert do to the word / byte elements; SHL + SRI = rotate; the four-step table look-up
  (TBL + 3 × (SUB #64, TBX) over the 256-byte table in V16..V31) = the S-box of the specification.
-/
import SMGo.Proofs.ISAValArm64Run
import SMGo.Proofs.ISAValSpec
namespace SMGo.Proofs.ISAValArm64
open SMGo.Model.ISAValArm64 SMGo.Model.ISA
open SMGo.Model.ISAVal (lane lanes unlanes map1 map2 rotl32)
open SMGo.Proofs.ISAVal (lane_lt lane_mod lane_map1 lane_map2 lane_unlanes lanes_length unlanes_lanes lane_zero
  lanes84 tauN LN TN roundF sboxByte sboxByte_eq lane32_list4 unlanes_cons unlanes_nil mem_lanes_lt lanes_unlanes)

/-! ### EOR -/

theorem lane_xor (w i a b : Nat) : lane w i (a ^^^ b) = lane w i a ^^^ lane w i b := by
  simp only [lane, Nat.shiftRight_xor_distrib, Nat.xor_mod_two_pow]

theorem lane_veor (w i a b : Nat) (h : w * (i + 1) ≤ 128) : lane w i (veor a b) = lane w i a ^^^ lane w i b := by
  unfold veor
  rw [lane_mod w i 128 _ h, lane_xor]

/-! ### bytes of a word element -/

/-- byte `j` of word element 0 -/
theorem lane8_lane32 (j v : Nat) (hj : j < 4) : lane 8 j (lane 32 0 v) = lane 8 j v := by
  rw [lane_zero]; exact lane_mod 8 j 32 v (by omega)

/-- word element 0 from its four bytes -/
theorem lane32_bytes (v : Nat) : lane 32 0 v = unlanes 8 [lane 8 0 v, lane 8 1 v, lane 8 2 v, lane 8 3 v] := by
  have := unlanes_lanes 8 4 v
  rw [lanes84] at this
  rw [this, lane_zero]

/-! ### SHL + SRI = rotate left -/

theorem sriElem_lt (sh x old : Nat) (hsh : sh ≤ 32) (hx : x < 2 ^ 32) (hold : old < 2 ^ 32) :
    sriElem sh x old < 2 ^ 32 := by
  unfold sriElem
  have hk : 0 < 2 ^ (32 - sh) := Nat.pow_pos (by decide)
  have h1 : x >>> sh < 2 ^ (32 - sh) := by
    rw [Nat.shiftRight_eq_div_pow, Nat.div_lt_iff_lt_mul (Nat.pow_pos (by decide)), ← Nat.pow_add,
      Nat.sub_add_cancel hsh]
    exact hx
  have h2 : old - old % 2 ^ (32 - sh) = 2 ^ (32 - sh) * (old / 2 ^ (32 - sh)) := by
    have := Nat.div_add_mod old (2 ^ (32 - sh)); omega
  have h3 : old / 2 ^ (32 - sh) < 2 ^ sh := by
    rw [Nat.div_lt_iff_lt_mul hk, ← Nat.pow_add, Nat.add_comm, Nat.sub_add_cancel hsh]; exact hold
  have h4 : 2 ^ (32 - sh) * (old / 2 ^ (32 - sh)) + 2 ^ (32 - sh) ≤ 2 ^ (32 - sh) * 2 ^ sh := by
    rw [← Nat.mul_succ]; exact Nat.mul_le_mul_left _ h3
  rw [← Nat.pow_add, Nat.sub_add_cancel hsh] at h4
  omega

theorem lane_vsriS (sh i n d : Nat) (hi : i < 4) (hsh : sh ≤ 32) :
    lane 32 i (vsriS sh n d) = sriElem sh (lane 32 i n) (lane 32 i d) :=
  lane_map2 32 4 i n d _ hi (fun x y hx hy => sriElem_lt sh x y hsh hx hy)

theorem lane_vshlS (sh i n : Nat) (hi : i < 4) : lane 32 i (vshlS sh n) = (lane 32 i n <<< sh) % 2 ^ 32 :=
  lane_map1 32 4 i n _ hi (fun _ _ => Nat.mod_lt _ (by decide))

/-- `VSHL $r, X, T; VSRI $(32−r), X, T` leaves `X` rotated left by `r` in `T` -/
theorem sri_shl_rotl (r x : Nat) (hr : 0 < r) (hr' : r < 32) (hx : x < 2 ^ 32) :
    sriElem (32 - r) x ((x <<< r) % 2 ^ 32) = rotl32 r x := by
  unfold sriElem rotl32
  have e : 32 - (32 - r) = r := by omega
  rw [e, Nat.mod_eq_of_lt hr']
  -- the low r bits of (x <<< r) % 2^32 are zero
  have hdvd : (x <<< r) % 2 ^ 32 % 2 ^ r = 0 := by
    rw [Nat.mod_mod_of_dvd _ (Nat.pow_dvd_pow 2 (by omega : r ≤ 32)), Nat.shiftLeft_eq, Nat.mul_mod_left]
  rw [hdvd, Nat.sub_zero]
  have hlow : x >>> (32 - r) < 2 ^ r := by
    rw [Nat.shiftRight_eq_div_pow, Nat.div_lt_iff_lt_mul (Nat.pow_pos (by decide)), ← Nat.pow_add,
      Nat.add_comm, Nat.sub_add_cancel (by omega)]
    exact hx
  rw [← Nat.shiftLeft_add_eq_or_of_lt hlow]
  -- (a + b) % 2^32 with b < 2^r and 2^r ∣ a
  have hsplit : x <<< r = 2 ^ r * x := by rw [Nat.shiftLeft_eq, Nat.mul_comm]
  rw [hsplit]
  have h32 : (2 : Nat) ^ 32 = 2 ^ r * 2 ^ (32 - r) := by rw [← Nat.pow_add]; congr 1; omega
  rw [h32, Nat.mul_mod_mul_left]
  have hq : x % 2 ^ (32 - r) < 2 ^ (32 - r) := Nat.mod_lt _ (Nat.pow_pos (by decide))
  have hbound : 2 ^ r * (x % 2 ^ (32 - r)) + x >>> (32 - r) < 2 ^ r * 2 ^ (32 - r) := by
    have : 2 ^ r * (x % 2 ^ (32 - r)) + 2 ^ r ≤ 2 ^ r * 2 ^ (32 - r) := by
      rw [← Nat.mul_succ]; exact Nat.mul_le_mul_left _ hq
    omega
  have hdecomp : 2 ^ r * x + x >>> (32 - r)
      = (2 ^ r * (x % 2 ^ (32 - r)) + x >>> (32 - r)) + 2 ^ r * 2 ^ (32 - r) * (x / 2 ^ (32 - r)) := by
    have hx' : x = 2 ^ (32 - r) * (x / 2 ^ (32 - r)) + x % 2 ^ (32 - r) := (Nat.div_add_mod x _).symm
    have h := congrArg (fun t => 2 ^ r * t) hx'
    simp only [Nat.mul_add, ← Nat.mul_assoc] at h
    omega
  rw [hdecomp, Nat.add_mul_mod_self_left, Nat.mod_eq_of_lt hbound]

theorem lane_rot (r i x : Nat) (hi : i < 4) (hr : 0 < r) (hr' : r < 32) :
    lane 32 i (vsriS (32 - r) x (vshlS r x)) = rotl32 r (lane 32 i x) := by
  rw [lane_vsriS _ _ _ _ hi (by omega), lane_vshlS _ _ _ hi, sri_shl_rotl r _ hr hr' (lane_lt _ _ _)]

/-! ### the table look-up -/

theorem tbxByte_lt (tbl : List Nat) (idx old : Nat) (ht : ∀ x ∈ tbl, x < 256) (hold : old < 256) :
    tbxByte tbl idx old < 256 := by
  unfold tbxByte
  split
  · rename_i h
    rw [List.getD_eq_getElem?_getD, List.getElem?_eq_getElem h]
    exact ht _ (List.getElem_mem h)
  · exact hold

theorem tblByte_lt (tbl : List Nat) (idx : Nat) (ht : ∀ x ∈ tbl, x < 256) : tblByte tbl idx < 256 := by
  unfold tblByte
  split
  · rename_i h
    rw [List.getD_eq_getElem?_getD, List.getElem?_eq_getElem h]
    exact ht _ (List.getElem_mem h)
  · decide

theorem tableBytes_lt (regs : List Nat) : ∀ x ∈ tableBytes regs, x < 256 := by
  intro x hx
  simp only [tableBytes, List.mem_flatMap] at hx
  obtain ⟨r, _, hr⟩ := hx
  exact mem_lanes_lt 8 16 r x hr

theorem lane_vsubB (j m n : Nat) (hj : j < 16) :
    lane 8 j (vsubB m n) = (lane 8 j n + 256 - lane 8 j m) % 256 :=
  lane_map2 8 16 j m n _ hj (fun _ _ _ _ => Nat.mod_lt _ (by decide))

theorem lane_vtbl (j : Nat) (regs : List Nat) (m : Nat) (hj : j < 16) :
    lane 8 j (vtbl (tableBytes regs) m) = tblByte (tableBytes regs) (lane 8 j m) :=
  lane_map1 8 16 j m _ hj (fun _ _ => tblByte_lt _ _ (tableBytes_lt regs))

theorem lane_vtbx (j : Nat) (regs : List Nat) (m d : Nat) (hj : j < 16) :
    lane 8 j (vtbx (tableBytes regs) m d) = tbxByte (tableBytes regs) (lane 8 j m) (lane 8 j d) :=
  lane_map2 8 16 j m d _ hj (fun _ _ _ hy => tbxByte_lt _ _ _ (tableBytes_lt regs) hy)

/-- the sixteen table registers V16..V31 after `loadSBox`: sixteen bytes of `SBox<>` each, in memory order -/
def SBv (k : Nat) : Nat := unlanes 8 ((Gen.AsmData.arm64_SBox.drop (16 * k)).take 16)

/-- V15 after `VMOVI $0x40, V15.B16` -/
def CONSTv : Nat := vmovi8 64

/-- `tableLookupX4` of asm_arm64.s on one byte `b`, with `c` the byte of CONST: index, index − c, index − 2c,
    index − 3c into the four quarters of the table -/
def lookupByte (c b : Nat) : Nat :=
  let i1 := (b + 256 - c) % 256
  let i2 := (i1 + 256 - c) % 256
  let i3 := (i2 + 256 - c) % 256
  tbxByte (tableBytes [SBv 12, SBv 13, SBv 14, SBv 15]) i3
    (tbxByte (tableBytes [SBv 8, SBv 9, SBv 10, SBv 11]) i2
      (tbxByte (tableBytes [SBv 4, SBv 5, SBv 6, SBv 7]) i1
        (tblByte (tableBytes [SBv 0, SBv 1, SBv 2, SBv 3]) b)))

/-- … is the look-up in the 256-byte table `SBox<>` -/
theorem lookupByte_eq : ∀ b, b < 256 → lookupByte 64 b = Gen.AsmData.arm64_SBox.getD b 0 := by decide +kernel

theorem const_byte : ∀ j, j < 16 → lane 8 j CONSTv = 64 := by decide +kernel

/-- `SBox<>` is the S-box of the specification (C18: `arm64_SBox_table`, `sbox_alg`) -/
theorem sbox_getD (b : Nat) (hb : b < 256) : Gen.AsmData.arm64_SBox.getD b 0 = Spec.SM4.sboxAlg b := by
  rw [AsmData.arm64_SBox_table, SM4.sbox_alg, List.getD_eq_getElem?_getD, List.getElem?_map,
    List.getElem?_range hb]
  rfl

/-- the value `tableLookupX4` leaves in U0 from the value `x` it finds there -/
def lookupReg (x : Nat) : Nat :=
  vtbx (tableBytes [SBv 12, SBv 13, SBv 14, SBv 15]) (vsubB CONSTv (vsubB CONSTv (vsubB CONSTv x)))
    (vtbx (tableBytes [SBv 8, SBv 9, SBv 10, SBv 11]) (vsubB CONSTv (vsubB CONSTv x))
      (vtbx (tableBytes [SBv 4, SBv 5, SBv 6, SBv 7]) (vsubB CONSTv x)
        (vtbl (tableBytes [SBv 0, SBv 1, SBv 2, SBv 3]) x)))

theorem lane8_lookupReg (j x : Nat) (hj : j < 16) : lane 8 j (lookupReg x) = lookupByte 64 (lane 8 j x) := by
  unfold lookupReg lookupByte
  simp only [lane_vtbx j _ _ _ hj, lane_vtbl j _ _ hj, lane_vsubB j _ _ hj, const_byte j hj]

/-- the table look-up on EVERY byte of the register is the S-box of the specification -/
theorem lane8_lookupReg_spec (j x : Nat) (hj : j < 16) :
    lane 8 j (lookupReg x) = Spec.SM4.sboxAlg (lane 8 j x) := by
  rw [lane8_lookupReg j x hj, lookupByte_eq _ (lane_lt 8 j x), sbox_getD _ (lane_lt 8 j x)]

/-- word element 0 after the look-up: τ (as the amd64 proofs write it: `tauN`) -/
theorem lane0_lookupReg (x : Nat) : lane 32 0 (lookupReg x) = tauN (lane 32 0 x) := by
  rw [lane32_bytes]
  simp only [lane8_lookupReg_spec _ x (by decide : 0 < 16), lane8_lookupReg_spec _ x (by decide : 1 < 16),
    lane8_lookupReg_spec _ x (by decide : 2 < 16), lane8_lookupReg_spec _ x (by decide : 3 < 16)]
  simp only [tauN, lanes84, List.map_cons, List.map_nil, lane8_lane32 _ x (by decide : 0 < 4),
    lane8_lane32 _ x (by decide : 1 < 4), lane8_lane32 _ x (by decide : 2 < 4), lane8_lane32 _ x (by decide : 3 < 4),
    sboxByte_eq _ (lane_lt 8 _ x)]

/-- word element `j` seen as word element 0 of the register shifted right -/
theorem lane32_shift (j v : Nat) : lane 32 j v = lane 32 0 (v >>> (32 * j)) := by
  simp [lane]

theorem lane8_shift (i j v : Nat) : lane 8 i (v >>> (32 * j)) = lane 8 (i + 4 * j) v := by
  unfold lane
  rw [← Nat.shiftRight_add]
  congr 2
  omega

/-- word element `j` after the look-up: τ -/
theorem laneJ_lookupReg (j x : Nat) (hj : j < 4) : lane 32 j (lookupReg x) = tauN (lane 32 j x) := by
  rw [lane32_shift, lane32_bytes, lane32_shift j x]
  simp only [lane8_shift, lane8_lookupReg_spec _ x (by omega : 0 + 4 * j < 16),
    lane8_lookupReg_spec _ x (by omega : 1 + 4 * j < 16), lane8_lookupReg_spec _ x (by omega : 2 + 4 * j < 16),
    lane8_lookupReg_spec _ x (by omega : 3 + 4 * j < 16)]
  simp only [tauN, lanes84, List.map_cons, List.map_nil, lane8_lane32 _ _ (by decide : 0 < 4),
    lane8_lane32 _ _ (by decide : 1 < 4), lane8_lane32 _ _ (by decide : 2 < 4), lane8_lane32 _ _ (by decide : 3 < 4),
    lane8_shift, sboxByte_eq _ (lane_lt 8 _ x)]

/-! ### element insert -/

theorem lanes324 (v : Nat) : lanes 32 4 v = [lane 32 0 v, lane 32 1 v, lane 32 2 v, lane 32 3 v] := by
  simp [lanes, List.range, List.range.loop]

theorem lane0_setLaneS0 (v x : Nat) (hx : x < 2 ^ 32) : lane 32 0 (setLaneS 0 v x) = x := by
  simp only [setLaneS, lanes324, List.set_cons_zero]
  exact (lane32_list4 _ _ _ _ hx (lane_lt _ _ _) (lane_lt _ _ _) (lane_lt _ _ _)).1

end SMGo.Proofs.ISAValArm64
