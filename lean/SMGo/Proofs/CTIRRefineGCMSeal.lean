/-
  Refinement of the regenerated IR of the arm64 GCM Go glue (SMGo/Gen/CTIRProgSM4.lean, namespace Arm64):
  `(*sm4GcmAsm).Seal` (`fn_0`) and `(*sm4GcmAsm).Open` (`fn_13`) compute the SPECIFICATION `Spec.GCM.sealGCM` /
  `Spec.GCM.openGCM`, modulo the callees (`GlueCallees`, SMGo/Proofs/CTIRRefineGCMLeaf.lean) and the one leaf routine
  they call directly (`xor16`, `LeafOk`).  Core Lean only.
-/
import SMGo.Proofs.CTIRRefineGCMLeaf
open SMGo SMGo.Model.CTIR SMGo.Proofs.CTIRRefineUtils
open SMGo.Proofs.CTIRRefineField
open SMGo.Spec.GCM
open SMGo.Proofs.GCM (ghFold)

namespace SMGo.Proofs.CTIRRefineGCM

/-! ## Values: the pieces of SP 800-38D as the glue computes them -/

/-- the zeroed 16-byte array `var X [BlockSize]byte` -/
def zb : Bytes := List.replicate 16 0
theorem zb_length : zb.length = 16 := rfl

/-- H = E(0^128) -/
def hB (E : Bytes → Bytes) : Bytes := E zb
def hN (E : Bytes → Bytes) : Nat := blockToNat (hB E)
/-- the pre-counter block J0 -/
def jN (E : Bytes → Bytes) (nonce : Bytes) : Nat := j0 (hN E) nonce
def jB (E : Bytes → Bytes) (nonce : Bytes) : Bytes := natToBlock (jN E nonce)
/-- the tag mask E(J0) -/
def tmB (E : Bytes → Bytes) (nonce : Bytes) : Bytes := E (jB E nonce)
/-- the tag after `gHashUpdate(aad)`, `gHashUpdate(c)`, `gHashFinish` -/
def t1B (E : Bytes → Bytes) (aad : Bytes) : Bytes := natToBlock (ghFold (hN E) (blockToNat zb) (pad16 aad))
def t2B (E : Bytes → Bytes) (aad c : Bytes) : Bytes := natToBlock (ghFold (hN E) (blockToNat (t1B E aad)) (pad16 c))
def t3B (E : Bytes → Bytes) (aad c : Bytes) : Bytes :=
  natToBlock (ghFold (hN E) (blockToNat (t2B E aad c)) (be64 (8 * aad.length) ++ be64 (8 * c.length)))
/-- the full tag: `xor16(&tag[0], &tag[0], &TMask[0])` -/
def tgB (E : Bytes → Bytes) (nonce aad c : Bytes) : Bytes := xorBytes (t3B E aad c) (tmB E nonce)

theorem hN_lt {E : Bytes → Bytes} (hE : ∀ b, (E b).length = 16) : hN E < 2 ^ 128 := GCM.blockToNat_lt (hE _)

theorem j0_lt (H : Nat) (hH : H < 2 ^ 128) (iv : Bytes) : j0 H iv < 2 ^ 128 := by
  unfold j0
  split
  · apply GCM.blockToNat_lt
    simp [*]
  · rw [GCM.ghash_eq_ghFold]
    exact GCMGlueA64.ghFold_lt hH (by decide) _

theorem jB_length (E : Bytes → Bytes) (nonce : Bytes) : (jB E nonce).length = 16 := GCM.natToBlock_length _
theorem t1B_length (E : Bytes → Bytes) (aad : Bytes) : (t1B E aad).length = 16 := GCM.natToBlock_length _
theorem t2B_length (E : Bytes → Bytes) (aad c : Bytes) : (t2B E aad c).length = 16 := GCM.natToBlock_length _
theorem t3B_length (E : Bytes → Bytes) (aad c : Bytes) : (t3B E aad c).length = 16 := GCM.natToBlock_length _
theorem tgB_length {E : Bytes → Bytes} (hE : ∀ b, (E b).length = 16) (nonce aad c : Bytes) :
    (tgB E nonce aad c).length = 16 := by
  unfold tgB tmB
  rw [GCM.xorBytes_length, t3B_length, hE]; rfl

theorem blockToNat_jB {E : Bytes → Bytes} (hE : ∀ b, (E b).length = 16) (nonce : Bytes) :
    blockToNat (jB E nonce) = jN E nonce :=
  GCM.blockToNat_natToBlock (j0_lt _ (hN_lt hE) _)

/-- the truncated tag of the three GHASH updates and the mask is `tagOf` of the specification -/
theorem tgB_take {E : Bytes → Bytes} (hE : ∀ b, (E b).length = 16) (nonce aad c : Bytes) (t : Nat) :
    (tgB E nonce aad c).take t = tagOf E (hN E) (jN E nonce) aad c t := by
  have hH := hN_lt hE
  rw [GCM.tagOf_eq hE, GCM.ghash_eq_ghFold]
  unfold tgB t3B t2B t1B tmB jB
  have h0 : (0 : Nat) < 2 ^ 128 := by decide
  rw [show blockToNat zb = 0 from GCMGlueA64.blockToNat_zero,
    GCM.blockToNat_natToBlock (GCMGlueA64.ghFold_lt hH h0 (pad16 aad)),
    GCM.blockToNat_natToBlock (GCMGlueA64.ghFold_lt hH (GCMGlueA64.ghFold_lt hH h0 (pad16 aad)) (pad16 c)),
    List.append_assoc, List.append_assoc,
    GCM.ghFold_append _ _ _ _ _ (GCMGlueA64.pad16_length' aad), GCM.ghFold_append _ _ _ _ _ (GCMGlueA64.pad16_length' c)]

/-- ciphertext ‖ truncated tag is Algorithm 4 -/
theorem seal_value {E : Bytes → Bytes} (hE : ∀ b, (E b).length = 16) (nonce pt aad : Bytes) (t : Nat) :
    gctr E (inc32 (jN E nonce)) pt ++ (tgB E nonce aad (gctr E (inc32 (jN E nonce)) pt)).take t
      = sealGCM E t nonce pt aad := by
  rw [tgB_take hE]; rfl

theorem enc_res (E : Bytes → Bytes) (dst src : Bytes) (hd : dst.length = 16) (hs : src.length = 16) :
    E (src.take 16) ++ dst.drop 16 = E src := by
  rw [List.take_of_length_le (by omega), List.drop_of_length_le (by omega), List.append_nil]

/-! ## Small evaluation lemmas (as in CTIRRefineSign / CTIRRefineComb / CTIRRefineCurve) -/

section Eval
variable {P : Prog} {G : Nat → Val} {O : Oracle}

theorem ofBool_false {p : Prop} [Decidable p] (h : ¬ p) : ofBool (decide p) = 0 := by simp [ofBool, h]
theorem ofBool_true {p : Prop} [Decidable p] (h : p) : ofBool (decide p) = 1 := by simp [ofBool, h]

theorem evalV_zb (env : Env) : evalV G env (.mk (.lit 16) (.lit 0)) = some (bytesV zb) := by
  rw [evalV_mk]; rfl

theorem evalV_nil (env : Env) : evalV G env (.mk (.lit 0) (.lit 0)) = some (.arr []) := by
  rw [evalV_mk]; rfl

theorem elit0 {env : Env} : evalV G env (.lit 0) = some (.int ((0 : Nat) : Int)) := rfl

theorem evar {env : Env} {x : Nat} {v : Val} (h : env x = v) : evalV G env (.var x) = some v := by
  rw [evalV_var, h]

theorem evalV_lenB {env : Env} {a : Expr} {x : Bytes} (ha : evalV G env a = some (bytesV x)) :
    evalV G env (.len a) = some (.int (x.length : Int)) := by
  rw [evalV_len, ha]; simp [bytesV]

theorem sliceList_bytes (x : Bytes) (l h : Nat) (h1 : l ≤ h) (h2 : h ≤ x.length) :
    sliceList (x.map (fun x => Val.int (Int.ofNat x.toNat))) (l : Int) (h : Int)
      = some (((x.drop l).take (h - l)).map (fun x => Val.int (Int.ofNat x.toNat))) := by
  unfold sliceList
  rw [if_neg (by simp only [List.length_map]; omega)]
  simp only [Int.toNat_natCast, List.map_take, List.map_drop]

theorem evalV_sliceB {env : Env} {a lo hi : Expr} {x : Bytes} {l h : Nat}
    (ha : evalV G env a = some (bytesV x)) (hl : evalV G env lo = some (.int (l : Int)))
    (hh : evalV G env hi = some (.int (h : Int))) (h1 : l ≤ h) (h2 : h ≤ x.length) :
    evalV G env (.slice a lo hi) = some (bytesV ((x.drop l).take (h - l))) := by
  rw [evalV_slice, ha, hl, hh]
  simp only [bytesV]
  rw [sliceList_bytes x l h h1 h2]; rfl

theorem evalV_catB {env : Env} {a b : Expr} {x y : Bytes}
    (ha : evalV G env a = some (bytesV x)) (hb : evalV G env b = some (bytesV y)) :
    evalV G env (.cat a b) = some (bytesV (x ++ y)) := by
  rw [evalV_cat, ha, hb]; simp [bytesV]

theorem evIn_ext {env env1 : Env} {lhs : List Nat} {name : Nat} {leaky : Bool} {args : List Expr} {vs : List Val}
    (ha : evalVs G env args = some vs) (hset : env.setMany lhs (O name vs) = some env1) :
    EvIn P G O 1 env (.ext lhs name leaky args) env1 .norm := by
  intro f hf; obtain ⟨f, rfl⟩ := Nat.exists_eq_add_of_le' hf
  rw [execV_ext, ha]
  simp [hset]

theorem evIn_declass {env : Env} {x site : Nat} {e : Expr} {n : Int}
    (he : evalV G env e = some (.int n)) :
    EvIn P G O 1 env (.declass x site e) (env.set x (.int n)) .norm := by
  intro f hf; obtain ⟨f, rfl⟩ := Nat.exists_eq_add_of_le' hf
  rw [execV_declass, he]

/-- a check that passes: `if c { panic / return }` with `c` false -/
theorem evIn_check {env : Env} {c : Expr} {a : Stmt} (hc : evalV G env c = some (.int 0)) :
    EvIn P G O 2 env (.ite c a .skip) env .norm :=
  EvIn.ite hc rfl (EvIn.skip _)

/-- the first byte of a 16-byte array, as the bounds check `&t[0]` reads it into the blank variable -/
def hdV (t : Bytes) : Val := .int (Int.ofNat (t.headD 0).toNat)

/-- Go's bounds check of a pointer argument `&t[0]` of an assembly routine: `_ = t[0]` on a 16-byte array -/
theorem evIn_ptr {env : Env} {x : Nat} {t : Bytes} (hx : env x = bytesV t) (ht : t.length = 16) :
    EvIn P G O 1 env (.assign 9 [] (.idxc (.var x) 0)) (env.set 9 (hdV t)) .norm := by
  refine EvIn.assign ?_
  rw [evalV_idxc, evalV_var, hx]
  cases t with
  | nil => simp at ht
  | cons a as => simp [bytesV, hdV]

/-- the frame record and the leaf call `xor16(&t[0], &t[0], &m[0])` -/
theorem evIn_frame {env : Env} {E : Bytes → Bytes} {rk : Val} (hL : LeafOk O E rk) (k : Int) :
    EvIn P G O 1 env (.ext [] 0 true [(.lit k)]) env .norm := by
  refine evIn_ext (vs := [.int k]) rfl ?_
  rw [hL.frame]; rfl

theorem evIn_xor16 {env : Env} {E : Bytes → Bytes} {rk : Val} (hL : LeafOk O E rk) {x y : Nat} {t m : Bytes}
    (hx : env x = bytesV t) (hy : env y = bytesV m) (ht : t.length = 16) (hm : m.length = 16) :
    EvIn P G O 1 env (.ext [x] 9 false [(.var x), (.var x), (.var y)]) (env.set x (bytesV (xorBytes t m))) .norm := by
  refine evIn_ext (vs := [bytesV t, bytesV t, bytesV m]) ?_ ?_
  · simp only [evalVs_cons, evalVs_nil, evalV_var, hx, hy]
  · rw [hL.xor 9 16 (by simp [xorLeaves]) t t m (by omega) (by omega) (by omega),
      List.take_of_length_le (by omega), List.take_of_length_le (by omega), List.drop_of_length_le (by omega),
      List.append_nil]
    rfl

end Eval

/-! ## List facts for the slices of the glue -/

theorem take_pre (a b : Bytes) : ((a ++ b).drop 0).take (a.length - 0) = a := by simp
theorem drop_pre (a b : Bytes) : ((a ++ b).drop a.length).take ((a ++ b).length - a.length) = b := by simp
theorem take_all (a : Bytes) (n : Nat) (h : a.length = n) : (a.drop 0).take (n - 0) = a := by
  subst h; simp
theorem drop_all (a : Bytes) (n : Nat) (h : a.length = n) : (a.drop n).take (a.length - n) = [] := by
  subst h; simp

/-! ## Seal -/

def sealStmts : List Stmt := [
    .ite (.op2 .ne (.len (.var 5)) (.var 2)) (.panic) .skip,
    .ite (.op2 .gt (.op1 (.conv .u64) (.len (.var 6))) (.lit 68719476704)) (.panic) .skip,
    .assign 10 [] (.mk (.lit 16) (.lit 0)),
    .assign 11 [] (.mk (.lit 16) (.lit 0)),
    .assign 12 [] (.mk (.lit 16) (.lit 0)),
    .assign 13 [] (.mk (.lit 16) (.lit 0)),
    .call [10] 1 [(.var 0), (.var 10), (.var 10)],
    .call [12] 2 [(.var 0), (.var 1), (.var 2), (.var 3), (.var 5), (.var 12), (.var 10)],
    .call [11] 1 [(.var 0), (.var 11), (.var 12)],
    .call [4, 14, 15] 5 [(.var 4), (.op2 (.add .i64) (.len (.var 6)) (.var 3)), (.var 8)],
    .assign 16 [] (.var 14),
    .assign 17 [] (.var 15),
    .call [18] 6 [(.var 0), (.var 1), (.var 2), (.var 3), (.var 1), (.slice (.var 16) (.var 17) (.len (.var 16))), (.var 6), (.var 12)],
    .assign 16 [] (.cat (.slice (.var 16) (.lit 0) (.var 17)) (.var 18)),
    .call [13] 3 [(.var 0), (.var 1), (.var 2), (.var 3), (.var 10), (.var 13), (.var 7)],
    .assign 19 [] (.slice (.var 16) (.var 17) (.len (.var 16))),
    .call [13] 3 [(.var 0), (.var 1), (.var 2), (.var 3), (.var 10), (.var 13), (.slice (.var 19) (.lit 0) (.len (.var 6)))],
    .call [13] 4 [(.var 0), (.var 1), (.var 2), (.var 3), (.var 10), (.var 13), (.op1 (.conv .u64) (.len (.var 7))), (.op1 (.conv .u64) (.len (.var 6)))],
    .assign 9 [] (.idxc (.var 13) 0),
    .assign 9 [] (.idxc (.var 13) 0),
    .assign 9 [] (.idxc (.var 11) 0),
    .ext [] 0 true [(.lit 9)],
    .ext [13] 9 false [(.var 13), (.var 13), (.var 11)],
    .assign 20 [] (.slice (.var 16) (.var 17) (.len (.var 16))),
    .assign 21 [] (.slice (.var 13) (.lit 0) (.var 3)),
    .assign 22 [] (.op2 .min (.op2 (.sub .i64) (.len (.var 20)) (.len (.var 6))) (.len (.var 21))),
    .assign 16 [] (.cat (.slice (.var 16) (.lit 0) (.var 17)) (.cat (.slice (.var 20) (.lit 0) (.len (.var 6))) (.cat (.slice (.var 21) (.lit 0) (.var 22)) (.slice (.var 20) (.op2 (.add .i64) (.len (.var 6)) (.var 22)) (.len (.var 20))))))]

def sealRet : Stmt := .ret [(.var 4), (.var 16)]

theorem fn_0_body : SMGo.Gen.CTIRProgSM4.Arm64.fn_0.body = SMGo.Gen.CTIRProg.seqs (sealStmts ++ [.seq sealRet .panic]) := rfl

/-- the arguments of Seal / Open: receiver, dst, nonce, text, additional data, hidden capacity of dst -/
def glueArgs (c rk : Val) (ns ts : Nat) (dst nonce txt aad : Bytes) (cap : Nat) : List Val :=
  recv c rk ns ts ++ [bytesV dst, bytesV nonce, bytesV txt, bytesV aad, .int (cap : Int)]

/-- fuel of Seal (n = len(plaintext)) and Open (n = len(ciphertext) - tagSize) from the fuels of the callees -/
def fuelGlue (Fenc Fcfc Fghu Fghf Fens : Nat) (Fcb : Nat → Nat) (n : Nat) : Nat :=
  2 * Fenc + Fcfc + 2 * Fghu + Fghf + Fens + Fcb n + 100

section Seal
variable {P : Prog} {G : Nat → Val} {O : Oracle} {E : Bytes → Bytes} {c rk : Val} {ns ts : Nat}
  {Fenc Fcfc Fghu Fghf Fens : Nat} {Fcb : Nat → Nat}

theorem evalV_u64len {env : Env} {a : Expr} {x : Bytes} (ha : evalV G env a = some (bytesV x))
    (hx : x.length < 18446744073709551616) :
    evalV G env (.op1 (.conv .u64) (.len a)) = some (.int (x.length : Int)) := by
  rw [evalV_op1, evalV_lenB ha]
  simp only [evalOp1, norm]
  congr 2
  omega

/-- BODY LEVEL: Seal on admissible arguments returns dst ‖ sealGCM -/
theorem seal_body_ok (hL : LeafOk O E rk) (hC : GlueCallees P G O E c rk ns ts Fenc Fcfc Fghu Fghf Fens Fcb)
    (dst nonce pt aad : Bytes) (cap : Nat)
    (hn : nonce.length = ns) (hns : ns < 2 ^ 61) (hpt : pt.length ≤ maxPlain) (hcap : dst.length ≤ cap) (hts : ts ≤ 16)
    (hcap62 : cap < 2 ^ 62) (haad : aad.length < 2 ^ 61) :
    ∃ env', EvIn P G O (fuelGlue Fenc Fcfc Fghu Fghf Fens Fcb pt.length)
      (Env.ofList (glueArgs c rk ns ts dst nonce pt aad cap)) SMGo.Gen.CTIRProgSM4.Arm64.fn_0.body env'
      (.ret [bytesV dst, bytesV (dst ++ sealGCM E ts nonce pt aad)]) := by
  have hE := hL.E_len
  have hpt' : pt.length ≤ 68719476704 := hpt
  let CT : Bytes := gctr E (inc32 (jN E nonce)) pt
  have hCT : CT.length = pt.length := GCM.gctr_length hE _ _
  let TG : Bytes := tgB E nonce aad CT
  have hTG : TG.length = 16 := tgB_length hE _ _ _
  have htg : (TG.take ts).length = ts := by rw [List.length_take, hTG]; omega
  let R0 : Bytes := dst ++ List.replicate (pt.length + ts) 0
  let O1 : Bytes := CT ++ List.replicate ts 0
  have hO1 : O1.length = pt.length + ts := by simp [O1, hCT]
  let R1 : Bytes := dst ++ O1
  let e0 : Env := Env.ofList (glueArgs c rk ns ts dst nonce pt aad cap)
  let e1 := e0.set 10 (bytesV zb)
  let e2 := e1.set 11 (bytesV zb)
  let e3 := e2.set 12 (bytesV zb)
  let e4 := e3.set 13 (bytesV zb)
  let e5 := e4.set 10 (bytesV (hB E))
  let e6 := e5.set 12 (bytesV (jB E nonce))
  let e7 := e6.set 11 (bytesV (tmB E nonce))
  let e8 := ((e7.set 4 (bytesV dst)).set 14 (bytesV R0)).set 15 (.int (dst.length : Int))
  let e9 := e8.set 16 (bytesV R0)
  let e10 := e9.set 17 (.int (dst.length : Int))
  let e11 := e10.set 18 (bytesV O1)
  let e12 := e11.set 16 (bytesV R1)
  let e13 := e12.set 13 (bytesV (t1B E aad))
  let e14 := e13.set 19 (bytesV O1)
  let e15 := e14.set 13 (bytesV (t2B E aad CT))
  let e16 := e15.set 13 (bytesV (t3B E aad CT))
  let e16a := e16.set 9 (hdV (t3B E aad CT))
  let e16b := e16a.set 9 (hdV (t3B E aad CT))
  let e16c := e16b.set 9 (hdV (tmB E nonce))
  let e17 := e16c.set 13 (bytesV TG)
  let e18 := e17.set 20 (bytesV O1)
  let e19 := e18.set 21 (bytesV (TG.take ts))
  let e20 := e19.set 22 (.int (ts : Int))
  let e21 := e20.set 16 (bytesV (dst ++ sealGCM E ts nonce pt aad))
  -- the two checks
  have k1 : EvIn P G O 2 e0 (.ite (.op2 .ne (.len (.var 5)) (.var 2)) (.panic) .skip) e0 .norm := by
    refine evIn_check ?_
    rw [evalV_op2, evalV_lenB (x := nonce) (evar rfl), evar (show e0 2 = .int (ns : Int) from rfl)]
    simp [evalOp2, ofBool, hn]
  have k2 : EvIn P G O 2 e0 (.ite (.op2 .gt (.op1 (.conv .u64) (.len (.var 6))) (.lit 68719476704)) (.panic) .skip) e0 .norm := by
    refine evIn_check ?_
    rw [evalV_op2, evalV_u64len (x := pt) (evar rfl) (by omega), evalV_lit]
    simp only [evalOp2, Option.map_some]
    rw [ofBool_false (by omega)]
  have c1 : EvIn P G O 1 e0 (.assign 10 [] (.mk (.lit 16) (.lit 0))) e1 .norm := EvIn.assign (evalV_zb _)
  have c2 : EvIn P G O 1 e1 (.assign 11 [] (.mk (.lit 16) (.lit 0))) e2 .norm := EvIn.assign (evalV_zb _)
  have c3 : EvIn P G O 1 e2 (.assign 12 [] (.mk (.lit 16) (.lit 0))) e3 .norm := EvIn.assign (evalV_zb _)
  have c4 : EvIn P G O 1 e3 (.assign 13 [] (.mk (.lit 16) (.lit 0))) e4 .norm := EvIn.assign (evalV_zb _)
  -- H
  have c5 : EvIn P G O (Fenc + 1) e4 (.call [10] 1 [(.var 0), (.var 10), (.var 10)]) e5 .norm := by
    have h := hC.encrypt zb zb (by decide) (by decide)
    rw [enc_res E zb zb rfl rfl] at h
    refine h.call ?_ rfl
    simp only [evalVs_cons, evalVs_nil, evalV_var]
    simp [e4, e3, e2, e1, e0, Env.set, Env.ofList, glueArgs, recv]
  -- J0
  have c6 : EvIn P G O (Fcfc + 1) e5 (.call [12] 2 [(.var 0), (.var 1), (.var 2), (.var 3), (.var 5), (.var 12), (.var 10)]) e6 .norm := by
    refine (hC.firstCounter nonce (hB E) (hE _) (by omega)).call (rs := [bytesV (jB E nonce)]) ?_ rfl
    simp only [evalVs_cons, evalVs_nil, evalV_var]
    simp [e5, e4, e3, e2, e1, e0, Env.set, Env.ofList, glueArgs, recv, zb]
  -- TMask
  have c7 : EvIn P G O (Fenc + 1) e6 (.call [11] 1 [(.var 0), (.var 11), (.var 12)]) e7 .norm := by
    have h := hC.encrypt zb (jB E nonce) (by decide) (by rw [jB_length]; omega)
    rw [enc_res E zb (jB E nonce) rfl (jB_length _ _)] at h
    refine h.call (rs := [bytesV (tmB E nonce)]) ?_ rfl
    simp only [evalVs_cons, evalVs_nil, evalV_var]
    simp [e6, e5, e4, e3, e2, e1, e0, Env.set, Env.ofList, glueArgs, recv]
  -- ensureCapacity
  have c8 : EvIn P G O (Fens + 1) e7 (.call [4, 14, 15] 5 [(.var 4), (.op2 (.add .i64) (.len (.var 6)) (.var 3)), (.var 8)]) e8 .norm := by
    refine (hC.ensure dst (pt.length + ts) cap hcap hcap62 (by omega)).call ?_ rfl
    have q : evalV G e7 (.op2 (.add .i64) (.len (.var 6)) (.var 3)) = some (.int ((pt.length + ts : Nat) : Int)) := by
      rw [evalV_op2, evalV_lenB (x := pt) (evar rfl), evar (show e7 3 = .int (ts : Int) from rfl)]
      simp only [evalOp2, Option.map_some]
      rw [norm_i64_small (by omega) (by omega)]
      simp
    simp only [evalVs_cons, evalVs_nil, evalV_var, q]
    simp [e7, e6, e5, e4, e3, e2, e1, e0, Env.set, Env.ofList, glueArgs, recv]
  have c9 : EvIn P G O 1 e8 (.assign 16 [] (.var 14)) e9 .norm := EvIn.assign (evar rfl)
  have c10 : EvIn P G O 1 e9 (.assign 17 [] (.var 15)) e10 .norm := EvIn.assign (evar rfl)
  -- cryptoBlocks
  have c11 : EvIn P G O (Fcb pt.length + 1) e10 (.call [18] 6 [(.var 0), (.var 1), (.var 2), (.var 3), (.var 1), (.slice (.var 16) (.var 17) (.len (.var 16))), (.var 6), (.var 12)]) e11 .norm := by
    have h := hC.crypto (List.replicate (pt.length + ts) 0) pt (jB E nonce) (jB_length _ _) (by simp) hpt
    rw [blockToNat_jB hE, List.drop_replicate, Nat.add_sub_cancel_left] at h
    refine h.call (rs := [bytesV O1]) ?_ rfl
    have q : evalV G e10 (.slice (.var 16) (.var 17) (.len (.var 16))) = some (bytesV (List.replicate (pt.length + ts) 0)) := by
      rw [evalV_sliceB (x := R0) (l := dst.length) (h := R0.length) (evar rfl) (evar rfl) (evalV_lenB (evar rfl))
        (by simp [R0]) (Nat.le_refl _), drop_pre]
    simp only [evalVs_cons, evalVs_nil, evalV_var, q]
    simp [e10, e9, e8, e7, e6, e5, e4, e3, e2, e1, e0, Env.set, Env.ofList, glueArgs, recv]
  have c12 : EvIn P G O 1 e11 (.assign 16 [] (.cat (.slice (.var 16) (.lit 0) (.var 17)) (.var 18))) e12 .norm := by
    refine EvIn.assign ?_
    rw [evalV_catB (evalV_sliceB (x := R0) (l := 0) (h := dst.length) (evar rfl) elit0 (evar rfl)
      (Nat.zero_le _) (by simp [R0])) (evar (show e11 18 = bytesV O1 from rfl)), take_pre]
  -- GHASH of the additional data
  have c13 : EvIn P G O (Fghu + 1) e12 (.call [13] 3 [(.var 0), (.var 1), (.var 2), (.var 3), (.var 10), (.var 13), (.var 7)]) e13 .norm := by
    refine (hC.ghUpdate (hB E) zb aad (hE _) rfl (by omega)).call (rs := [bytesV (t1B E aad)]) ?_ rfl
    simp only [evalVs_cons, evalVs_nil, evalV_var]
    simp [e12, e11, e10, e9, e8, e7, e6, e5, e4, e3, e2, e1, e0, Env.set, Env.ofList, glueArgs, recv]
  have c14 : EvIn P G O 1 e13 (.assign 19 [] (.slice (.var 16) (.var 17) (.len (.var 16)))) e14 .norm := by
    refine EvIn.assign ?_
    rw [evalV_sliceB (x := R1) (l := dst.length) (h := R1.length) (evar rfl) (evar rfl) (evalV_lenB (evar rfl))
      (by simp [R1]) (Nat.le_refl _), drop_pre]
  -- GHASH of the ciphertext
  have c15 : EvIn P G O (Fghu + 1) e14 (.call [13] 3 [(.var 0), (.var 1), (.var 2), (.var 3), (.var 10), (.var 13), (.slice (.var 19) (.lit 0) (.len (.var 6)))]) e15 .norm := by
    refine (hC.ghUpdate (hB E) (t1B E aad) CT (hE _) (t1B_length _ _) (by rw [hCT]; omega)).call (rs := [bytesV (t2B E aad CT)]) ?_ rfl
    have q : evalV G e14 (.slice (.var 19) (.lit 0) (.len (.var 6))) = some (bytesV CT) := by
      rw [evalV_sliceB (x := O1) (l := 0) (h := pt.length) (evar rfl) elit0 (evalV_lenB (x := pt) (evar rfl))
        (Nat.zero_le _) (by omega), ← hCT, take_pre]
    simp only [evalVs_cons, evalVs_nil, evalV_var, q]
    simp [e14, e13, e12, e11, e10, e9, e8, e7, e6, e5, e4, e3, e2, e1, e0, Env.set, Env.ofList, glueArgs, recv]
  -- the length block
  have c16 : EvIn P G O (Fghf + 1) e15 (.call [13] 4 [(.var 0), (.var 1), (.var 2), (.var 3), (.var 10), (.var 13), (.op1 (.conv .u64) (.len (.var 7))), (.op1 (.conv .u64) (.len (.var 6)))]) e16 .norm := by
    have h := hC.ghFinish (hB E) (t2B E aad CT) aad.length CT.length (hE _) (t2B_length _ _ _) haad (by rw [hCT]; omega)
    rw [show ((CT.length : Nat) : Int) = (pt.length : Int) from congrArg _ hCT] at h
    refine h.call (rs := [bytesV (t3B E aad CT)]) ?_ rfl
    have q7 : evalV G e15 (.op1 (.conv .u64) (.len (.var 7))) = some (.int (aad.length : Int)) :=
      evalV_u64len (x := aad) (evar rfl) (by omega)
    have q6 : evalV G e15 (.op1 (.conv .u64) (.len (.var 6))) = some (.int (pt.length : Int)) :=
      evalV_u64len (x := pt) (evar rfl) (by omega)
    simp only [evalVs_cons, evalVs_nil, evalV_var, q6, q7]
    simp [e15, e14, e13, e12, e11, e10, e9, e8, e7, e6, e5, e4, e3, e2, e1, e0, Env.set, Env.ofList, glueArgs, recv]
  -- the mask
  have c17a : EvIn P G O 1 e16 (.assign 9 [] (.idxc (.var 13) 0)) e16a .norm :=
    evIn_ptr (t := t3B E aad CT) rfl (t3B_length _ _ _)
  have c17b : EvIn P G O 1 e16a (.assign 9 [] (.idxc (.var 13) 0)) e16b .norm :=
    evIn_ptr (t := t3B E aad CT) rfl (t3B_length _ _ _)
  have c17c : EvIn P G O 1 e16b (.assign 9 [] (.idxc (.var 11) 0)) e16c .norm :=
    evIn_ptr (t := tmB E nonce) rfl (hE _)
  have c17 : EvIn P G O 1 e16c (.ext [] 0 true [(.lit 9)]) e16c .norm := evIn_frame hL 9
  have c18 : EvIn P G O 1 e16c (.ext [13] 9 false [(.var 13), (.var 13), (.var 11)]) e17 .norm :=
    evIn_xor16 hL (t := t3B E aad CT) (m := tmB E nonce) rfl rfl (t3B_length _ _ _) (hE _)
  -- copy(out[len(plaintext):], tag[:tagSize])
  have c19 : EvIn P G O 1 e17 (.assign 20 [] (.slice (.var 16) (.var 17) (.len (.var 16)))) e18 .norm := by
    refine EvIn.assign ?_
    rw [evalV_sliceB (x := R1) (l := dst.length) (h := R1.length) (evar rfl) (evar rfl) (evalV_lenB (evar rfl))
      (by simp [R1]) (Nat.le_refl _), drop_pre]
  have c20 : EvIn P G O 1 e18 (.assign 21 [] (.slice (.var 13) (.lit 0) (.var 3))) e19 .norm := by
    refine EvIn.assign ?_
    rw [evalV_sliceB (x := TG) (l := 0) (h := ts) (evar rfl) elit0 (evar rfl) (Nat.zero_le _) (by omega)]
    simp
  have c21 : EvIn P G O 1 e19 (.assign 22 [] (.op2 .min (.op2 (.sub .i64) (.len (.var 20)) (.len (.var 6))) (.len (.var 21)))) e20 .norm := by
    refine EvIn.assign ?_
    rw [evalV_op2, evalV_op2, evalV_lenB (x := O1) (evar rfl), evalV_lenB (x := pt) (evar rfl),
      evalV_lenB (x := TG.take ts) (evar rfl)]
    have hn' : norm .i64 ((O1.length : Int) - (pt.length : Int)) = (ts : Int) := by
      rw [norm_i64_small (by omega) (by omega)]; omega
    simp only [evalOp2, Option.map_some, hn', htg]
    simp
  have c22 : EvIn P G O 1 e20 (.assign 16 [] (.cat (.slice (.var 16) (.lit 0) (.var 17)) (.cat (.slice (.var 20) (.lit 0) (.len (.var 6))) (.cat (.slice (.var 21) (.lit 0) (.var 22)) (.slice (.var 20) (.op2 (.add .i64) (.len (.var 6)) (.var 22)) (.len (.var 20))))))) e21 .norm := by
    refine EvIn.assign ?_
    have p1 : evalV G e20 (.slice (.var 16) (.lit 0) (.var 17)) = some (bytesV dst) := by
      rw [evalV_sliceB (x := R1) (l := 0) (h := dst.length) (evar rfl) elit0 (evar rfl)
        (Nat.zero_le _) (by simp [R1]), take_pre]
    have p2 : evalV G e20 (.slice (.var 20) (.lit 0) (.len (.var 6))) = some (bytesV CT) := by
      rw [evalV_sliceB (x := O1) (l := 0) (h := pt.length) (evar rfl) elit0 (evalV_lenB (x := pt) (evar rfl))
        (Nat.zero_le _) (by omega), ← hCT, take_pre]
    have p3 : evalV G e20 (.slice (.var 21) (.lit 0) (.var 22)) = some (bytesV (TG.take ts)) := by
      rw [evalV_sliceB (x := TG.take ts) (l := 0) (h := ts) (evar rfl) elit0 (evar rfl)
        (Nat.zero_le _) (by omega), take_all _ _ htg]
    have q : evalV G e20 (.op2 (.add .i64) (.len (.var 6)) (.var 22)) = some (.int ((pt.length + ts : Nat) : Int)) := by
      rw [evalV_op2, evalV_lenB (x := pt) (evar rfl), evar (show e20 22 = .int (ts : Int) from rfl)]
      simp only [evalOp2, Option.map_some]
      rw [norm_i64_small (by omega) (by omega)]
      simp
    have p4 : evalV G e20 (.slice (.var 20) (.op2 (.add .i64) (.len (.var 6)) (.var 22)) (.len (.var 20))) = some (bytesV []) := by
      rw [evalV_sliceB (x := O1) (l := pt.length + ts) (h := O1.length) (evar rfl) q (evalV_lenB (evar rfl))
        (by omega) (Nat.le_refl _), drop_all _ _ hO1]
    rw [evalV_catB p1 (evalV_catB p2 (evalV_catB p3 p4)), List.append_nil, ← seal_value hE]
  have sr : evalVs G e21 [(.var 4), (.var 16)] = some [bytesV dst, bytesV (dst ++ sealGCM E ts nonce pt aad)] := by
    simp only [evalVs_cons, evalVs_nil, evalV_var]
    simp [e21, e20, e19, e18, e17, e16c, e16b, e16a, e16, e15, e14, e13, e12, e11, e10, e9, e8, Env.set]
  refine ⟨e21, ?_⟩
  rw [fn_0_body]
  exact ((Pre.cons k1 (Pre.cons k2 (Pre.cons c1 (Pre.cons c2 (Pre.cons c3 (Pre.cons c4 (Pre.cons c5 (Pre.cons c6
    (Pre.cons c7 (Pre.cons c8 (Pre.cons c9 (Pre.cons c10 (Pre.cons c11 (Pre.cons c12 (Pre.cons c13 (Pre.cons c14
    (Pre.cons c15 (Pre.cons c16 (Pre.cons c17a (Pre.cons c17b (Pre.cons c17c (Pre.cons c17 (Pre.cons c18 (Pre.cons c19 (Pre.cons c20 (Pre.cons c21 (Pre.cons c22
    (Pre.nil _))))))))))))))))))))))))))) _).1 _ _ _
    (EvIn.seq_stop (EvIn.ret sr) (by simp))).mono (by simp only [fuelGlue]; omega)

/-- **Seal, as a `Computes` fact**, in any program whose function 0 is the generated Seal, modulo the callees.
    Go-type bounds used: `nonceSize < 2^61`, `cap(dst) < 2^62`, `len(additionalData) < 2^61`. -/
theorem seal_computes (h0 : P[0]? = some SMGo.Gen.CTIRProgSM4.Arm64.fn_0) (hL : LeafOk O E rk)
    (hC : GlueCallees P G O E c rk ns ts Fenc Fcfc Fghu Fghf Fens Fcb)
    (dst nonce pt aad : Bytes) (cap : Nat)
    (hn : nonce.length = ns) (hns : ns < 2 ^ 61) (hpt : pt.length ≤ maxPlain) (hcap : dst.length ≤ cap) (hts : ts ≤ 16)
    (hcap62 : cap < 2 ^ 62) (haad : aad.length < 2 ^ 61) :
    Computes P G O 0 (fuelGlue Fenc Fcfc Fghu Fghf Fens Fcb pt.length) (glueArgs c rk ns ts dst nonce pt aad cap)
      [bytesV dst, bytesV (dst ++ sealGCM E ts nonce pt aad)] := by
  obtain ⟨env', hb⟩ := seal_body_ok hL hC dst nonce pt aad cap hn hns hpt hcap hts hcap62 haad
  exact Computes.of_body h0 rfl rfl hb

/-- **Seal computes the specification** (run form): with any fuel ≥ `fuelGlue … len(plaintext)` the run returns
    dst (unchanged) and dst ‖ `sealGCM` -/
theorem ir_Seal_arm64_eq_spec_of_callees (h0 : P[0]? = some SMGo.Gen.CTIRProgSM4.Arm64.fn_0) (hL : LeafOk O E rk)
    (hC : GlueCallees P G O E c rk ns ts Fenc Fcfc Fghu Fghf Fens Fcb)
    (dst nonce pt aad : Bytes) (cap : Nat)
    (hn : nonce.length = ns) (hns : ns < 2 ^ 61) (hpt : pt.length ≤ maxPlain) (hcap : dst.length ≤ cap) (hts : ts ≤ 16)
    (hcap62 : cap < 2 ^ 62) (haad : aad.length < 2 ^ 61) :
    ∀ f, fuelGlue Fenc Fcfc Fghu Fghf Fens Fcb pt.length ≤ f →
      runV P G O f 0 (glueArgs c rk ns ts dst nonce pt aad cap)
        = .ret [bytesV dst, bytesV (dst ++ sealGCM E ts nonce pt aad)] :=
  (seal_computes h0 hL hC dst nonce pt aad cap hn hns hpt hcap hts hcap62 haad).runV

/-- `len(nonce) != g.nonceSize`: the explicit panic of Seal (no callee involved) -/
theorem seal_panics_nonce (h0 : P[0]? = some SMGo.Gen.CTIRProgSM4.Arm64.fn_0)
    (dst nonce pt aad : Bytes) (cap : Nat) (hn : nonce.length ≠ ns) :
    ∀ f, 4 ≤ f → runV P G O f 0 (glueArgs c rk ns ts dst nonce pt aad cap) = .panic := by
  let e0 : Env := Env.ofList (glueArgs c rk ns ts dst nonce pt aad cap)
  have hc : evalV G e0 (.op2 .ne (.len (.var 5)) (.var 2)) = some (.int 1) := by
    rw [evalV_op2, evalV_lenB (x := nonce) (evar rfl), evar (show e0 2 = .int (ns : Int) from rfl)]
    have : ¬ ((nonce.length : Int) = (ns : Int)) := by omega
    simp [evalOp2, ofBool, this]
  have hb : EvIn P G O 4 e0 SMGo.Gen.CTIRProgSM4.Arm64.fn_0.body e0 .panic := by
    rw [fn_0_body]
    exact (EvIn.seq_stop (EvIn.ite hc rfl (EvIn.panic _)) (by simp)).mono (by omega)
  exact runV_of_EvIn h0 rfl rfl hb

/-- plaintext longer than ((1<<32)-2)·16 bytes: the explicit panic of Seal (`len(plaintext) < 2^63`: a Go int) -/
theorem seal_panics_long (h0 : P[0]? = some SMGo.Gen.CTIRProgSM4.Arm64.fn_0)
    (dst nonce pt aad : Bytes) (cap : Nat) (hn : nonce.length = ns) (hpt : maxPlain < pt.length)
    (hpt63 : pt.length < 2 ^ 63) :
    ∀ f, 8 ≤ f → runV P G O f 0 (glueArgs c rk ns ts dst nonce pt aad cap) = .panic := by
  have hpt' : 68719476704 < pt.length := hpt
  let e0 : Env := Env.ofList (glueArgs c rk ns ts dst nonce pt aad cap)
  have k1 : EvIn P G O 2 e0 (.ite (.op2 .ne (.len (.var 5)) (.var 2)) (.panic) .skip) e0 .norm := by
    refine evIn_check ?_
    rw [evalV_op2, evalV_lenB (x := nonce) (evar rfl), evar (show e0 2 = .int (ns : Int) from rfl)]
    simp [evalOp2, ofBool, hn]
  have hc : evalV G e0 (.op2 .gt (.op1 (.conv .u64) (.len (.var 6))) (.lit 68719476704)) = some (.int 1) := by
    rw [evalV_op2, evalV_u64len (x := pt) (evar rfl) (by omega), evalV_lit]
    simp only [evalOp2, Option.map_some]
    rw [ofBool_true (by omega)]
  have hb : EvIn P G O 8 e0 SMGo.Gen.CTIRProgSM4.Arm64.fn_0.body e0 .panic := by
    rw [fn_0_body]
    exact (EvIn.seq k1 (EvIn.seq_stop (EvIn.ite hc rfl (EvIn.panic _)) (by simp))).mono (by omega)
  exact runV_of_EvIn h0 rfl rfl hb

end Seal

/-! ## Open -/

/-- the global `errOpen` of the generated program is a non-nil error (code 1) -/
theorem errOpen_value : GA 0 = .int 1 := rfl

def openA : List Stmt := [
    .ite (.op2 .ne (.len (.var 5)) (.var 2)) (.panic) .skip,
    .ite (.op2 .lt (.var 3) (.lit 12)) (.panic) .skip]
def openErr : Stmt := .ret [(.var 4), (.mk (.lit 0) (.lit 0)), (.glob 0)]
def openI3 : Stmt := .ite (.op2 .lt (.len (.var 6)) (.var 3)) openErr .skip
def openI4 : Stmt :=
  .ite (.op2 .gt (.op1 (.conv .u64) (.len (.var 6))) (.op2 (.add .u64) (.lit 68719476704) (.op1 (.conv .u64) (.var 3)))) openErr .skip
def openB : List Stmt := [
    .assign 10 [] (.slice (.var 6) (.op2 (.sub .i64) (.len (.var 6)) (.var 3)) (.len (.var 6))),
    .assign 6 [] (.slice (.var 6) (.lit 0) (.op2 (.sub .i64) (.len (.var 6)) (.var 3))),
    .assign 11 [] (.mk (.lit 16) (.lit 0)),
    .assign 12 [] (.mk (.lit 16) (.lit 0)),
    .assign 13 [] (.mk (.lit 16) (.lit 0)),
    .call [11] 1 [(.var 0), (.var 11), (.var 11)],
    .call [12] 2 [(.var 0), (.var 1), (.var 2), (.var 3), (.var 5), (.var 12), (.var 11)],
    .call [13] 1 [(.var 0), (.var 13), (.var 12)],
    .assign 14 [] (.mk (.lit 16) (.lit 0)),
    .call [14] 3 [(.var 0), (.var 1), (.var 2), (.var 3), (.var 11), (.var 14), (.var 7)],
    .call [14] 3 [(.var 0), (.var 1), (.var 2), (.var 3), (.var 11), (.var 14), (.var 6)],
    .call [14] 4 [(.var 0), (.var 1), (.var 2), (.var 3), (.var 11), (.var 14), (.op1 (.conv .u64) (.len (.var 7))), (.op1 (.conv .u64) (.len (.var 6)))],
    .assign 9 [] (.idxc (.var 14) 0),
    .assign 9 [] (.idxc (.var 14) 0),
    .assign 9 [] (.idxc (.var 13) 0),
    .ext [] 0 true [(.lit 9)],
    .ext [14] 9 false [(.var 14), (.var 14), (.var 13)],
    .declass 15 0 (.op2 .ne (.cteq (.slice (.var 14) (.lit 0) (.var 3)) (.var 10)) (.lit 1))]
def openIte : Stmt := .ite (.var 15) openErr .skip
def openC : List Stmt := [
    .call [4, 16, 17] 5 [(.var 4), (.len (.var 6)), (.var 8)],
    .assign 18 [] (.var 16),
    .assign 19 [] (.var 17),
    .call [20] 6 [(.var 0), (.var 1), (.var 2), (.var 3), (.var 1), (.slice (.var 18) (.var 19) (.len (.var 18))), (.var 6), (.var 12)],
    .assign 18 [] (.cat (.slice (.var 18) (.lit 0) (.var 19)) (.var 20))]
def openRet : Stmt := .ret [(.var 4), (.var 18), (.lit 0)]
/-- Open after the four checks -/
def openK : Stmt :=
  SMGo.Gen.CTIRProg.seqs (openB ++ [.seq openIte (SMGo.Gen.CTIRProg.seqs (openC ++ [.seq openRet .panic]))])

theorem fn_13_body : SMGo.Gen.CTIRProgSM4.Arm64.fn_13.body
    = SMGo.Gen.CTIRProg.seqs (openA ++ [.seq openI3 (.seq openI4 openK)]) := rfl

/-- the results of Open: dst, then `(dst ‖ plaintext, nil)` or `(nil, errOpen)` as Algorithm 5 decides -/
def openRes (G : Nat → Val) (dst : Bytes) : Option Bytes → List Val
  | some pt => [bytesV dst, bytesV (dst ++ pt), .int 0]
  | none => [bytesV dst, .arr [], G 0]

theorem drop_tail (a : Bytes) (m : Nat) : (a.drop m).take (a.length - m) = a.drop m := by
  rw [List.take_of_length_le (by rw [List.length_drop]; omega)]
theorem take_head (a : Bytes) (m : Nat) : (a.drop 0).take (m - 0) = a.take m := by simp

/-- Algorithm 5 in the vocabulary of the glue -/
theorem open_value {E : Bytes → Bytes} (hE : ∀ b, (E b).length = 16) (nonce ct aad : Bytes) (t : Nat)
    (hlt : ¬ ct.length < t) :
    openGCM E t nonce ct aad =
      if (tgB E nonce aad (ct.take (ct.length - t))).take t = ct.drop (ct.length - t)
      then some (gctr E (inc32 (jN E nonce)) (ct.take (ct.length - t))) else none := by
  unfold openGCM
  rw [if_neg hlt, tgB_take hE]
  rfl

section Open
variable {P : Prog} {G : Nat → Val} {O : Oracle} {E : Bytes → Bytes} {c rk : Val} {ns ts : Nat}
  {Fenc Fcfc Fghu Fghf Fens : Nat} {Fcb : Nat → Nat}

/-- the first two checks of Open pass -/
theorem open_checks (dst nonce ct aad : Bytes) (cap : Nat) (hn : nonce.length = ns) (h12 : 12 ≤ ts) :
    Pre P G O 6 (Env.ofList (glueArgs c rk ns ts dst nonce ct aad cap)) openA
      (Env.ofList (glueArgs c rk ns ts dst nonce ct aad cap)) := by
  let e0 : Env := Env.ofList (glueArgs c rk ns ts dst nonce ct aad cap)
  have k1 : EvIn P G O 2 e0 (.ite (.op2 .ne (.len (.var 5)) (.var 2)) (.panic) .skip) e0 .norm := by
    refine evIn_check ?_
    rw [evalV_op2, evalV_lenB (x := nonce) (evar rfl), evar (show e0 2 = .int (ns : Int) from rfl)]
    simp [evalOp2, ofBool, hn]
  have k2 : EvIn P G O 2 e0 (.ite (.op2 .lt (.var 3) (.lit 12)) (.panic) .skip) e0 .norm := by
    refine evIn_check ?_
    rw [evalV_op2, evar (show e0 3 = .int (ts : Int) from rfl), evalV_lit]
    simp only [evalOp2, Option.map_some]
    rw [ofBool_false (by omega)]
  exact Pre.cons k1 (Pre.cons k2 (Pre.nil _))

theorem open_err_ret (env : Env) (dst : Bytes) (h4 : env 4 = bytesV dst) :
    EvIn P G O 1 env openErr env (.ret [bytesV dst, .arr [], G 0]) := by
  refine EvIn.ret ?_
  simp only [evalVs_cons, evalVs_nil, evalV_var, evalV_nil, evalV_glob, h4]

/-- BODY LEVEL: a ciphertext shorter than the tag: `(nil, errOpen)` -/
theorem open_body_short (dst nonce ct aad : Bytes) (cap : Nat) (hn : nonce.length = ns) (h12 : 12 ≤ ts)
    (hs : ct.length < ts) :
    ∃ env', EvIn P G O 10 (Env.ofList (glueArgs c rk ns ts dst nonce ct aad cap))
      SMGo.Gen.CTIRProgSM4.Arm64.fn_13.body env' (.ret [bytesV dst, .arr [], G 0]) := by
  let e0 : Env := Env.ofList (glueArgs c rk ns ts dst nonce ct aad cap)
  have hc : evalV G e0 (.op2 .lt (.len (.var 6)) (.var 3)) = some (.int 1) := by
    rw [evalV_op2, evalV_lenB (x := ct) (evar rfl), evar (show e0 3 = .int (ts : Int) from rfl)]
    simp only [evalOp2, Option.map_some]
    rw [ofBool_true (by omega)]
  refine ⟨e0, ?_⟩
  rw [fn_13_body]
  exact ((open_checks (P := P) (G := G) (O := O) dst nonce ct aad cap hn h12 _).1 _ _ _
    (EvIn.seq_stop (EvIn.ite hc rfl (open_err_ret e0 dst rfl)) (by simp))).mono (by omega)

/-- BODY LEVEL: a ciphertext longer than ((1<<32)-2)·16 + tagSize bytes: `(nil, errOpen)` (outside the domain of the
    AEAD contract: `openGCM` would compute) -/
theorem open_body_long (dst nonce ct aad : Bytes) (cap : Nat) (hn : nonce.length = ns) (h12 : 12 ≤ ts) (hts : ts ≤ 16)
    (hl : maxPlain + ts < ct.length) (hl63 : ct.length < 2 ^ 63) :
    ∃ env', EvIn P G O 14 (Env.ofList (glueArgs c rk ns ts dst nonce ct aad cap))
      SMGo.Gen.CTIRProgSM4.Arm64.fn_13.body env' (.ret [bytesV dst, .arr [], G 0]) := by
  have hl' : 68719476704 + ts < ct.length := hl
  let e0 : Env := Env.ofList (glueArgs c rk ns ts dst nonce ct aad cap)
  have k3 : EvIn P G O 2 e0 openI3 e0 .norm := by
    refine evIn_check ?_
    rw [evalV_op2, evalV_lenB (x := ct) (evar rfl), evar (show e0 3 = .int (ts : Int) from rfl)]
    simp only [evalOp2, Option.map_some]
    rw [ofBool_false (by omega)]
  have hc : evalV G e0 (.op2 .gt (.op1 (.conv .u64) (.len (.var 6))) (.op2 (.add .u64) (.lit 68719476704) (.op1 (.conv .u64) (.var 3))))
      = some (.int 1) := by
    rw [evalV_op2, evalV_u64len (x := ct) (evar rfl) (by omega), evalV_op2, evalV_lit, evalV_op1,
      evar (show e0 3 = .int (ts : Int) from rfl)]
    simp only [evalOp1, evalOp2, Option.map_some, norm]
    rw [ofBool_true (by omega)]
  refine ⟨e0, ?_⟩
  rw [fn_13_body]
  exact ((open_checks (P := P) (G := G) (O := O) dst nonce ct aad cap hn h12 _).1 _ _ _
    (EvIn.seq k3 (EvIn.seq_stop (EvIn.ite hc rfl (open_err_ret e0 dst rfl)) (by simp)))).mono (by omega)

/-- BODY LEVEL, the main path of Open: tagSize ≤ len(ciphertext) ≤ ((1<<32)-2)·16 + tagSize -/
theorem open_body_main (hL : LeafOk O E rk) (hC : GlueCallees P G O E c rk ns ts Fenc Fcfc Fghu Fghf Fens Fcb)
    (dst nonce ct aad : Bytes) (cap : Nat)
    (hn : nonce.length = ns) (hns : ns < 2 ^ 61) (h12 : 12 ≤ ts) (hts : ts ≤ 16) (hs : ts ≤ ct.length) (hlen : ct.length ≤ maxPlain + ts)
    (hcap : dst.length ≤ cap) (hcap62 : cap < 2 ^ 62) (haad : aad.length < 2 ^ 61) :
    ∃ env', EvIn P G O (fuelGlue Fenc Fcfc Fghu Fghf Fens Fcb (ct.length - ts))
      (Env.ofList (glueArgs c rk ns ts dst nonce ct aad cap)) SMGo.Gen.CTIRProgSM4.Arm64.fn_13.body env'
      (.ret (openRes G dst (openGCM E ts nonce ct aad))) := by
  have hE := hL.E_len
  have hlen' : ct.length ≤ 68719476704 + ts := hlen
  let C : Bytes := ct.take (ct.length - ts)
  let tagIn : Bytes := ct.drop (ct.length - ts)
  have hCl : C.length = ct.length - ts := by simp [C]
  let TG : Bytes := tgB E nonce aad C
  have hTG : TG.length = 16 := tgB_length hE _ _ _
  let PT : Bytes := gctr E (inc32 (jN E nonce)) C
  let v : Int := if TG.take ts = tagIn then 0 else 1
  let e0 : Env := Env.ofList (glueArgs c rk ns ts dst nonce ct aad cap)
  let e1 := e0.set 10 (bytesV tagIn)
  let e2 := e1.set 6 (bytesV C)
  let e3 := e2.set 11 (bytesV zb)
  let e4 := e3.set 12 (bytesV zb)
  let e5 := e4.set 13 (bytesV zb)
  let e6 := e5.set 11 (bytesV (hB E))
  let e7 := e6.set 12 (bytesV (jB E nonce))
  let e8 := e7.set 13 (bytesV (tmB E nonce))
  let e9 := e8.set 14 (bytesV zb)
  let e10 := e9.set 14 (bytesV (t1B E aad))
  let e11 := e10.set 14 (bytesV (t2B E aad C))
  let e12 := e11.set 14 (bytesV (t3B E aad C))
  let e12a := e12.set 9 (hdV (t3B E aad C))
  let e12b := e12a.set 9 (hdV (t3B E aad C))
  let e12c := e12b.set 9 (hdV (tmB E nonce))
  let e13 := e12c.set 14 (bytesV TG)
  let e14 := e13.set 15 (.int v)
  -- checks 3 and 4
  have k3 : EvIn P G O 2 e0 openI3 e0 .norm := by
    refine evIn_check ?_
    rw [evalV_op2, evalV_lenB (x := ct) (evar rfl), evar (show e0 3 = .int (ts : Int) from rfl)]
    simp only [evalOp2, Option.map_some]
    rw [ofBool_false (by omega)]
  have k4 : EvIn P G O 2 e0 openI4 e0 .norm := by
    refine evIn_check ?_
    rw [evalV_op2, evalV_u64len (x := ct) (evar rfl) (by omega), evalV_op2, evalV_lit, evalV_op1,
      evar (show e0 3 = .int (ts : Int) from rfl)]
    simp only [evalOp1, evalOp2, Option.map_some, norm]
    rw [ofBool_false (by omega)]
  -- tag := ciphertext[len-tagSize:]; ciphertext = ciphertext[:len-tagSize]
  have qsub0 : evalV G e0 (.op2 (.sub .i64) (.len (.var 6)) (.var 3)) = some (.int ((ct.length - ts : Nat) : Int)) := by
    rw [evalV_op2, evalV_lenB (x := ct) (evar rfl), evar (show e0 3 = .int (ts : Int) from rfl)]
    simp only [evalOp2, Option.map_some]
    rw [norm_i64_small (by omega) (by omega)]
    congr 2; omega
  have qsub1 : evalV G e1 (.op2 (.sub .i64) (.len (.var 6)) (.var 3)) = some (.int ((ct.length - ts : Nat) : Int)) := by
    rw [evalV_op2, evalV_lenB (x := ct) (evar rfl), evar (show e1 3 = .int (ts : Int) from rfl)]
    simp only [evalOp2, Option.map_some]
    rw [norm_i64_small (by omega) (by omega)]
    congr 2; omega
  have c1 : EvIn P G O 1 e0 (.assign 10 [] (.slice (.var 6) (.op2 (.sub .i64) (.len (.var 6)) (.var 3)) (.len (.var 6)))) e1 .norm := by
    refine EvIn.assign ?_
    rw [evalV_sliceB (x := ct) (l := ct.length - ts) (h := ct.length) (evar rfl) qsub0 (evalV_lenB (evar rfl))
      (by omega) (Nat.le_refl _), drop_tail]
  have c2 : EvIn P G O 1 e1 (.assign 6 [] (.slice (.var 6) (.lit 0) (.op2 (.sub .i64) (.len (.var 6)) (.var 3)))) e2 .norm := by
    refine EvIn.assign ?_
    rw [evalV_sliceB (x := ct) (l := 0) (h := ct.length - ts) (evar rfl) elit0 qsub1
      (Nat.zero_le _) (by omega), take_head]
  have c3 : EvIn P G O 1 e2 (.assign 11 [] (.mk (.lit 16) (.lit 0))) e3 .norm := EvIn.assign (evalV_zb _)
  have c4 : EvIn P G O 1 e3 (.assign 12 [] (.mk (.lit 16) (.lit 0))) e4 .norm := EvIn.assign (evalV_zb _)
  have c5 : EvIn P G O 1 e4 (.assign 13 [] (.mk (.lit 16) (.lit 0))) e5 .norm := EvIn.assign (evalV_zb _)
  have c6 : EvIn P G O (Fenc + 1) e5 (.call [11] 1 [(.var 0), (.var 11), (.var 11)]) e6 .norm := by
    have h := hC.encrypt zb zb (by decide) (by decide)
    rw [enc_res E zb zb rfl rfl] at h
    refine h.call ?_ rfl
    simp only [evalVs_cons, evalVs_nil, evalV_var]
    simp [e5, e4, e3, e2, e1, e0, Env.set, Env.ofList, glueArgs, recv]
  have c7 : EvIn P G O (Fcfc + 1) e6 (.call [12] 2 [(.var 0), (.var 1), (.var 2), (.var 3), (.var 5), (.var 12), (.var 11)]) e7 .norm := by
    refine (hC.firstCounter nonce (hB E) (hE _) (by omega)).call (rs := [bytesV (jB E nonce)]) ?_ rfl
    simp only [evalVs_cons, evalVs_nil, evalV_var]
    simp [e6, e5, e4, e3, e2, e1, e0, Env.set, Env.ofList, glueArgs, recv, zb]
  have c8 : EvIn P G O (Fenc + 1) e7 (.call [13] 1 [(.var 0), (.var 13), (.var 12)]) e8 .norm := by
    have h := hC.encrypt zb (jB E nonce) (by decide) (by rw [jB_length]; omega)
    rw [enc_res E zb (jB E nonce) rfl (jB_length _ _)] at h
    refine h.call (rs := [bytesV (tmB E nonce)]) ?_ rfl
    simp only [evalVs_cons, evalVs_nil, evalV_var]
    simp [e7, e6, e5, e4, e3, e2, e1, e0, Env.set, Env.ofList, glueArgs, recv]
  have c9 : EvIn P G O 1 e8 (.assign 14 [] (.mk (.lit 16) (.lit 0))) e9 .norm := EvIn.assign (evalV_zb _)
  have c10 : EvIn P G O (Fghu + 1) e9 (.call [14] 3 [(.var 0), (.var 1), (.var 2), (.var 3), (.var 11), (.var 14), (.var 7)]) e10 .norm := by
    refine (hC.ghUpdate (hB E) zb aad (hE _) rfl (by omega)).call (rs := [bytesV (t1B E aad)]) ?_ rfl
    simp only [evalVs_cons, evalVs_nil, evalV_var]
    simp [e9, e8, e7, e6, e5, e4, e3, e2, e1, e0, Env.set, Env.ofList, glueArgs, recv]
  have c11 : EvIn P G O (Fghu + 1) e10 (.call [14] 3 [(.var 0), (.var 1), (.var 2), (.var 3), (.var 11), (.var 14), (.var 6)]) e11 .norm := by
    refine (hC.ghUpdate (hB E) (t1B E aad) C (hE _) (t1B_length _ _) (by rw [hCl]; omega)).call (rs := [bytesV (t2B E aad C)]) ?_ rfl
    simp only [evalVs_cons, evalVs_nil, evalV_var]
    simp [e10, e9, e8, e7, e6, e5, e4, e3, e2, e1, e0, Env.set, Env.ofList, glueArgs, recv]
  have c12 : EvIn P G O (Fghf + 1) e11 (.call [14] 4 [(.var 0), (.var 1), (.var 2), (.var 3), (.var 11), (.var 14), (.op1 (.conv .u64) (.len (.var 7))), (.op1 (.conv .u64) (.len (.var 6)))]) e12 .norm := by
    have h := hC.ghFinish (hB E) (t2B E aad C) aad.length C.length (hE _) (t2B_length _ _ _) haad (by rw [hCl]; omega)
    refine h.call (rs := [bytesV (t3B E aad C)]) ?_ rfl
    have q7 : evalV G e11 (.op1 (.conv .u64) (.len (.var 7))) = some (.int (aad.length : Int)) :=
      evalV_u64len (x := aad) (evar rfl) (by omega)
    have q6 : evalV G e11 (.op1 (.conv .u64) (.len (.var 6))) = some (.int (C.length : Int)) :=
      evalV_u64len (x := C) (evar rfl) (by rw [hCl]; omega)
    simp only [evalVs_cons, evalVs_nil, evalV_var, q6, q7]
    simp [e11, e10, e9, e8, e7, e6, e5, e4, e3, e2, e1, e0, Env.set, Env.ofList, glueArgs, recv]
  have c13a : EvIn P G O 1 e12 (.assign 9 [] (.idxc (.var 14) 0)) e12a .norm :=
    evIn_ptr (t := t3B E aad C) rfl (t3B_length _ _ _)
  have c13b : EvIn P G O 1 e12a (.assign 9 [] (.idxc (.var 14) 0)) e12b .norm :=
    evIn_ptr (t := t3B E aad C) rfl (t3B_length _ _ _)
  have c13c : EvIn P G O 1 e12b (.assign 9 [] (.idxc (.var 13) 0)) e12c .norm :=
    evIn_ptr (t := tmB E nonce) rfl (hE _)
  have c13 : EvIn P G O 1 e12c (.ext [] 0 true [(.lit 9)]) e12c .norm := evIn_frame hL 9
  have c14 : EvIn P G O 1 e12c (.ext [14] 9 false [(.var 14), (.var 14), (.var 13)]) e13 .norm :=
    evIn_xor16 hL (t := t3B E aad C) (m := tmB E nonce) rfl rfl (t3B_length _ _ _) (hE _)
  -- the verdict
  have c15 : EvIn P G O 1 e13 (.declass 15 0 (.op2 .ne (.cteq (.slice (.var 14) (.lit 0) (.var 3)) (.var 10)) (.lit 1))) e14 .norm := by
    refine evIn_declass ?_
    have p : evalV G e13 (.slice (.var 14) (.lit 0) (.var 3)) = some (bytesV (TG.take ts)) := by
      rw [evalV_sliceB (x := TG) (l := 0) (h := ts) (evar rfl) elit0 (evar rfl) (Nat.zero_le _) (by omega), take_head]
    rw [evalV_op2, evalV_cteq_bytes p (evar (show e13 10 = bytesV tagIn from rfl)), evalV_lit]
    by_cases hq : TG.take ts = tagIn <;> simp [hq, evalOp2, ofBool, v]
  have preB : Pre P G O (2 * Fenc + Fcfc + 2 * Fghu + Fghf + 36) e0 openB e14 :=
    (Pre.cons c1 (Pre.cons c2 (Pre.cons c3 (Pre.cons c4 (Pre.cons c5 (Pre.cons c6 (Pre.cons c7 (Pre.cons c8
      (Pre.cons c9 (Pre.cons c10 (Pre.cons c11 (Pre.cons c12 (Pre.cons c13a (Pre.cons c13b (Pre.cons c13c (Pre.cons c13 (Pre.cons c14 (Pre.cons c15
      (Pre.nil _))))))))))))))))))).mono (by omega)
  have hval := open_value hE nonce ct aad ts (by omega)
  by_cases hq : TG.take ts = tagIn
  · -- the tags agree
    have hv : v = 0 := by simp [v, hq]
    rw [hval, if_pos hq]
    let R0 : Bytes := dst ++ List.replicate C.length 0
    let e15 := ((e14.set 4 (bytesV dst)).set 16 (bytesV R0)).set 17 (.int (dst.length : Int))
    let e16 := e15.set 18 (bytesV R0)
    let e17 := e16.set 19 (.int (dst.length : Int))
    let e18 := e17.set 20 (bytesV PT)
    let e19 := e18.set 18 (bytesV (dst ++ PT))
    have ki : EvIn P G O 2 e14 openIte e14 .norm := by
      refine evIn_check ?_
      rw [evar (show e14 15 = .int v from rfl), hv]
    have d1 : EvIn P G O (Fens + 1) e14 (.call [4, 16, 17] 5 [(.var 4), (.len (.var 6)), (.var 8)]) e15 .norm := by
      refine (hC.ensure dst C.length cap hcap hcap62 (by rw [hCl]; omega)).call ?_ rfl
      have q : evalV G e14 (.len (.var 6)) = some (.int (C.length : Int)) := evalV_lenB (evar rfl)
      simp only [evalVs_cons, evalVs_nil, evalV_var, q]
      simp [e14, e13, e12c, e12b, e12a, e12, e11, e10, e9, e8, e7, e6, e5, e4, e3, e2, e1, e0, Env.set, Env.ofList, glueArgs, recv]
    have d2 : EvIn P G O 1 e15 (.assign 18 [] (.var 16)) e16 .norm := EvIn.assign (evar rfl)
    have d3 : EvIn P G O 1 e16 (.assign 19 [] (.var 17)) e17 .norm := EvIn.assign (evar rfl)
    have hF : Fcb C.length = Fcb (ct.length - ts) := by rw [hCl]
    have d4 : EvIn P G O (Fcb C.length + 1) e17 (.call [20] 6 [(.var 0), (.var 1), (.var 2), (.var 3), (.var 1), (.slice (.var 18) (.var 19) (.len (.var 18))), (.var 6), (.var 12)]) e18 .norm := by
      have h := hC.crypto (List.replicate C.length 0) C (jB E nonce) (jB_length _ _) (by simp) (by rw [hCl]; omega)
      rw [blockToNat_jB hE, List.drop_replicate, Nat.sub_self, List.replicate_zero, List.append_nil] at h
      refine h.call (rs := [bytesV PT]) ?_ rfl
      have q : evalV G e17 (.slice (.var 18) (.var 19) (.len (.var 18))) = some (bytesV (List.replicate C.length 0)) := by
        rw [evalV_sliceB (x := R0) (l := dst.length) (h := R0.length) (evar rfl) (evar rfl) (evalV_lenB (evar rfl))
          (by simp [R0]) (Nat.le_refl _), drop_pre]
      simp only [evalVs_cons, evalVs_nil, evalV_var, q]
      simp [e17, e16, e15, e14, e13, e12c, e12b, e12a, e12, e11, e10, e9, e8, e7, e6, e5, e4, e3, e2, e1, e0, Env.set, Env.ofList, glueArgs, recv]
    have d5 : EvIn P G O 1 e18 (.assign 18 [] (.cat (.slice (.var 18) (.lit 0) (.var 19)) (.var 20))) e19 .norm := by
      refine EvIn.assign ?_
      rw [evalV_catB (evalV_sliceB (x := R0) (l := 0) (h := dst.length) (evar rfl) elit0 (evar rfl)
        (Nat.zero_le _) (by simp [R0])) (evar (show e18 20 = bytesV PT from rfl)), take_pre]
    have sr : evalVs G e19 [(.var 4), (.var 18), (.lit 0)] = some [bytesV dst, bytesV (dst ++ PT), .int 0] := by
      simp only [evalVs_cons, evalVs_nil, evalV_var, evalV_lit]
      simp [e19, e18, e17, e16, e15, Env.set]
    refine ⟨e19, ?_⟩
    rw [fn_13_body]
    exact ((open_checks (P := P) (G := G) (O := O) dst nonce ct aad cap hn h12 _).1 _ _ _
      (EvIn.seq k3 (EvIn.seq k4 ((preB _).1 _ _ _ (EvIn.seq ki
        ((Pre.cons d1 (Pre.cons d2 (Pre.cons d3 (Pre.cons d4 (Pre.cons d5 (Pre.nil _))))) _).1 _ _ _
          (EvIn.seq_stop (EvIn.ret sr) (by simp)))))))).mono (by simp only [fuelGlue]; omega)
  · -- the tags differ
    have hv : v = 1 := by simp [v, hq]
    rw [hval, if_neg hq]
    have hi : EvIn P G O 2 e14 openIte e14 (.ret [bytesV dst, .arr [], G 0]) := by
      refine EvIn.ite (v := .int v) (d := true) (evar rfl) (by rw [hv]; rfl) (open_err_ret e14 dst rfl)
    refine ⟨e14, ?_⟩
    rw [fn_13_body]
    exact ((open_checks (P := P) (G := G) (O := O) dst nonce ct aad cap hn h12 _).1 _ _ _
      (EvIn.seq k3 (EvIn.seq k4 ((preB _).1 _ _ _ (EvIn.seq_stop hi (by simp)))))).mono
        (by simp only [fuelGlue]; omega)

/-- BODY LEVEL: Open on the domain of the AEAD contract (`len(ciphertext) ≤ ((1<<32)-2)·16 + tagSize`) -/
theorem open_body_ok (hL : LeafOk O E rk) (hC : GlueCallees P G O E c rk ns ts Fenc Fcfc Fghu Fghf Fens Fcb)
    (dst nonce ct aad : Bytes) (cap : Nat)
    (hn : nonce.length = ns) (hns : ns < 2 ^ 61) (h12 : 12 ≤ ts) (hts : ts ≤ 16) (hlen : ct.length ≤ maxPlain + ts)
    (hcap : dst.length ≤ cap) (hcap62 : cap < 2 ^ 62) (haad : aad.length < 2 ^ 61) :
    ∃ env', EvIn P G O (fuelGlue Fenc Fcfc Fghu Fghf Fens Fcb (ct.length - ts))
      (Env.ofList (glueArgs c rk ns ts dst nonce ct aad cap)) SMGo.Gen.CTIRProgSM4.Arm64.fn_13.body env'
      (.ret (openRes G dst (openGCM E ts nonce ct aad))) := by
  by_cases hs : ct.length < ts
  · obtain ⟨env', hb⟩ := open_body_short (P := P) (G := G) (O := O) (c := c) (rk := rk) dst nonce ct aad cap hn h12 hs
    rw [GCM.openGCM_short E ts nonce ct aad hs]
    exact ⟨env', hb.mono (by simp only [fuelGlue]; omega)⟩
  · exact open_body_main hL hC dst nonce ct aad cap hn hns h12 hts (by omega) hlen hcap hcap62 haad

/-- **Open, as a `Computes` fact**, in any program whose function 13 is the generated Open, modulo the callees.
    Go-type bounds used: `nonceSize < 2^61`, `cap(dst) < 2^62`, `len(additionalData) < 2^61`. -/
theorem open_computes (h13 : P[13]? = some SMGo.Gen.CTIRProgSM4.Arm64.fn_13) (hL : LeafOk O E rk)
    (hC : GlueCallees P G O E c rk ns ts Fenc Fcfc Fghu Fghf Fens Fcb)
    (dst nonce ct aad : Bytes) (cap : Nat)
    (hn : nonce.length = ns) (hns : ns < 2 ^ 61) (h12 : 12 ≤ ts) (hts : ts ≤ 16) (hlen : ct.length ≤ maxPlain + ts)
    (hcap : dst.length ≤ cap) (hcap62 : cap < 2 ^ 62) (haad : aad.length < 2 ^ 61) :
    Computes P G O 13 (fuelGlue Fenc Fcfc Fghu Fghf Fens Fcb (ct.length - ts)) (glueArgs c rk ns ts dst nonce ct aad cap)
      (openRes G dst (openGCM E ts nonce ct aad)) := by
  obtain ⟨env', hb⟩ := open_body_ok hL hC dst nonce ct aad cap hn hns h12 hts hlen hcap hcap62 haad
  exact Computes.of_body h13 rfl rfl hb

/-- **Open decides as Algorithm 5** (run form): with any fuel ≥ `fuelGlue … (len(ciphertext) - tagSize)` the run
    returns dst (unchanged), then `(dst ‖ plaintext, nil)` if `openGCM` accepts, `(nil, errOpen)` if it rejects -/
theorem ir_Open_arm64_eq_spec_of_callees (h13 : P[13]? = some SMGo.Gen.CTIRProgSM4.Arm64.fn_13) (hL : LeafOk O E rk)
    (hC : GlueCallees P G O E c rk ns ts Fenc Fcfc Fghu Fghf Fens Fcb)
    (dst nonce ct aad : Bytes) (cap : Nat)
    (hn : nonce.length = ns) (hns : ns < 2 ^ 61) (h12 : 12 ≤ ts) (hts : ts ≤ 16) (hlen : ct.length ≤ maxPlain + ts)
    (hcap : dst.length ≤ cap) (hcap62 : cap < 2 ^ 62) (haad : aad.length < 2 ^ 61) :
    ∀ f, fuelGlue Fenc Fcfc Fghu Fghf Fens Fcb (ct.length - ts) ≤ f →
      runV P G O f 13 (glueArgs c rk ns ts dst nonce ct aad cap) =
        match openGCM E ts nonce ct aad with
        | some pt => .ret [bytesV dst, bytesV (dst ++ pt), .int 0]
        | none => .ret [bytesV dst, .arr [], G 0] := by
  intro f hf
  rw [(open_computes h13 hL hC dst nonce ct aad cap hn hns h12 hts hlen hcap hcap62 haad).runV f hf]
  cases openGCM E ts nonce ct aad <;> rfl

/-- Open on a ciphertext longer than ((1<<32)-2)·16 + tagSize bytes (outside the domain of the AEAD contract; `openGCM`
    would compute): `(nil, errOpen)`, no callee involved (`len(ciphertext) < 2^63`: a Go int) -/
theorem open_computes_long (h13 : P[13]? = some SMGo.Gen.CTIRProgSM4.Arm64.fn_13)
    (dst nonce ct aad : Bytes) (cap : Nat) (hn : nonce.length = ns) (h12 : 12 ≤ ts) (hts : ts ≤ 16)
    (hl : maxPlain + ts < ct.length) (hl63 : ct.length < 2 ^ 63) :
    Computes P G O 13 14 (glueArgs c rk ns ts dst nonce ct aad cap) [bytesV dst, .arr [], G 0] := by
  obtain ⟨env', hb⟩ := open_body_long (P := P) (G := G) (O := O) (c := c) (rk := rk) dst nonce ct aad cap hn h12 hts hl hl63
  exact Computes.of_body h13 rfl rfl hb

/-- `len(nonce) != g.nonceSize`: the explicit panic of Open -/
theorem open_panics_nonce (h13 : P[13]? = some SMGo.Gen.CTIRProgSM4.Arm64.fn_13)
    (dst nonce ct aad : Bytes) (cap : Nat) (hn : nonce.length ≠ ns) :
    ∀ f, 4 ≤ f → runV P G O f 13 (glueArgs c rk ns ts dst nonce ct aad cap) = .panic := by
  let e0 : Env := Env.ofList (glueArgs c rk ns ts dst nonce ct aad cap)
  have hc : evalV G e0 (.op2 .ne (.len (.var 5)) (.var 2)) = some (.int 1) := by
    rw [evalV_op2, evalV_lenB (x := nonce) (evar rfl), evar (show e0 2 = .int (ns : Int) from rfl)]
    have : ¬ ((nonce.length : Int) = (ns : Int)) := by omega
    simp [evalOp2, ofBool, this]
  have hb : EvIn P G O 4 e0 SMGo.Gen.CTIRProgSM4.Arm64.fn_13.body e0 .panic := by
    rw [fn_13_body]
    exact (EvIn.seq_stop (EvIn.ite hc rfl (EvIn.panic _)) (by simp)).mono (by omega)
  exact runV_of_EvIn h13 rfl rfl hb

/-- `g.tagSize < gcmMinimumTagSize`: the explicit panic of Open -/
theorem open_panics_tagSize (h13 : P[13]? = some SMGo.Gen.CTIRProgSM4.Arm64.fn_13)
    (dst nonce ct aad : Bytes) (cap : Nat) (hn : nonce.length = ns) (h12 : ts < 12) :
    ∀ f, 8 ≤ f → runV P G O f 13 (glueArgs c rk ns ts dst nonce ct aad cap) = .panic := by
  let e0 : Env := Env.ofList (glueArgs c rk ns ts dst nonce ct aad cap)
  have k1 : EvIn P G O 2 e0 (.ite (.op2 .ne (.len (.var 5)) (.var 2)) (.panic) .skip) e0 .norm := by
    refine evIn_check ?_
    rw [evalV_op2, evalV_lenB (x := nonce) (evar rfl), evar (show e0 2 = .int (ns : Int) from rfl)]
    simp [evalOp2, ofBool, hn]
  have hc : evalV G e0 (.op2 .lt (.var 3) (.lit 12)) = some (.int 1) := by
    rw [evalV_op2, evar (show e0 3 = .int (ts : Int) from rfl), evalV_lit]
    simp only [evalOp2, Option.map_some]
    rw [ofBool_true (by omega)]
  have hb : EvIn P G O 8 e0 SMGo.Gen.CTIRProgSM4.Arm64.fn_13.body e0 .panic := by
    rw [fn_13_body]
    exact (EvIn.seq k1 (EvIn.seq_stop (EvIn.ite hc rfl (EvIn.panic _)) (by simp))).mono (by omega)
  exact runV_of_EvIn h13 rfl rfl hb

end Open

/-! ## The arm64 program -/

section Arm64
variable {O : Oracle} {E : Bytes → Bytes} {c rk : Val} {ns ts : Nat}
  {Fenc Fcfc Fghu Fghf Fens : Nat} {Fcb : Nat → Nat}

/-- Seal of the generated arm64 program: the run (with its leakage trace `t`) returns dst ‖ `sealGCM` -/
theorem run_Seal_arm64 (hL : LeafOk O E rk) (hC : GlueCallees PA GA O E c rk ns ts Fenc Fcfc Fghu Fghf Fens Fcb)
    (dst nonce pt aad : Bytes) (cap : Nat)
    (hn : nonce.length = ns) (hns : ns < 2 ^ 61) (hpt : pt.length ≤ maxPlain) (hcap : dst.length ≤ cap) (hts : ts ≤ 16)
    (hcap62 : cap < 2 ^ 62) (haad : aad.length < 2 ^ 61) (f : Nat)
    (hf : fuelGlue Fenc Fcfc Fghu Fghf Fens Fcb pt.length ≤ f) :
    ∃ t, run PA GA O f 0 (glueArgs c rk ns ts dst nonce pt aad cap)
      = some (.ret [bytesV dst, bytesV (dst ++ sealGCM E ts nonce pt aad)], t) :=
  run_of_runV PA GA O f 0 _ _
    (ir_Seal_arm64_eq_spec_of_callees (P := PA) rfl hL hC dst nonce pt aad cap hn hns hpt hcap hts hcap62 haad f hf)

/-- Open of the generated arm64 program: the plaintext appended to dst and a nil error, or nil and `errOpen` (= 1) -/
theorem run_Open_arm64 (hL : LeafOk O E rk) (hC : GlueCallees PA GA O E c rk ns ts Fenc Fcfc Fghu Fghf Fens Fcb)
    (dst nonce ct aad : Bytes) (cap : Nat)
    (hn : nonce.length = ns) (hns : ns < 2 ^ 61) (h12 : 12 ≤ ts) (hts : ts ≤ 16) (hlen : ct.length ≤ maxPlain + ts)
    (hcap : dst.length ≤ cap) (hcap62 : cap < 2 ^ 62) (haad : aad.length < 2 ^ 61) (f : Nat)
    (hf : fuelGlue Fenc Fcfc Fghu Fghf Fens Fcb (ct.length - ts) ≤ f) :
    ∃ t, run PA GA O f 13 (glueArgs c rk ns ts dst nonce ct aad cap) =
      match openGCM E ts nonce ct aad with
      | some pt => some (.ret [bytesV dst, bytesV (dst ++ pt), .int 0], t)
      | none => some (.ret [bytesV dst, .arr [], .int 1], t) := by
  have h := ir_Open_arm64_eq_spec_of_callees (P := PA) rfl hL hC dst nonce ct aad cap hn hns h12 hts hlen hcap hcap62 haad f hf
  cases hv : openGCM E ts nonce ct aad with
  | some pt =>
    rw [hv] at h
    exact run_of_runV PA GA O f 13 _ _ h
  | none =>
    rw [hv] at h
    exact run_of_runV PA GA O f 13 _ _ h

end Arm64

#print axioms seal_computes
#print axioms ir_Seal_arm64_eq_spec_of_callees
#print axioms seal_panics_nonce
#print axioms seal_panics_long
#print axioms open_computes
#print axioms ir_Open_arm64_eq_spec_of_callees
#print axioms open_computes_long
#print axioms open_panics_nonce
#print axioms open_panics_tagSize
#print axioms run_Seal_arm64
#print axioms run_Open_arm64

end SMGo.Proofs.CTIRRefineGCM
