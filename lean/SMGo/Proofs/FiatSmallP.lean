/-
  Property C16, small generated Fiat-Crypto functions for the field modulus p:
  Add, Sub, Opp, Selectznz, SetOne, Nonzero, ToBytes, FromBytes.
  The modulus-generic parts (`addG`, `subG`, arithmetic lemmas) are reused by `FiatSmallN`.  Core Lean only.
-/
import SMGo.Proofs.FiatBytes
import SMGo.Gen.FiatP
import SMGo.Spec.SM2
namespace SMGo.Proofs.FiatSmallP
open SMGo SMGo.Proofs.Fiat SMGo.Model.FiatPrim

/-- value of four limbs, as an explicit polynomial -/
abbrev v4 (a0 a1 a2 a3 : Nat) : Nat :=
  a0 + a1 * 18446744073709551616 + a2 * 340282366920938463463374607431768211456
    + a3 * 6277101735386680763835789423207666416102355444464034512896

theorem v4_lt {a0 a1 a2 a3 : Nat} (h0 : a0 < 18446744073709551616) (h1 : a1 < 18446744073709551616)
    (h2 : a2 < 18446744073709551616) (h3 : a3 < 18446744073709551616) :
    v4 a0 a1 a2 a3 < 115792089237316195423570985008687907853269984665640564039457584007913129639936 := by
  unfold v4; omega

theorem chain_add {a0 a1 a2 a3 b0 b1 b2 b3 x1 x2 x3 x4 x5 x6 x7 x8 c : Nat}
    (e1 : x1 + x2 * 18446744073709551616 = a0 + b0 + c)
    (e3 : x3 + x4 * 18446744073709551616 = a1 + b1 + x2)
    (e5 : x5 + x6 * 18446744073709551616 = a2 + b2 + x4)
    (e7 : x7 + x8 * 18446744073709551616 = a3 + b3 + x6) :
    v4 x1 x3 x5 x7 + x8 * 115792089237316195423570985008687907853269984665640564039457584007913129639936
      = v4 a0 a1 a2 a3 + v4 b0 b1 b2 b3 + c := by
  unfold v4; omega

theorem chain_sub {a0 a1 a2 a3 b0 b1 b2 b3 x1 x2 x3 x4 x5 x6 x7 x8 c : Nat}
    (e1 : x1 + b0 + c = a0 + x2 * 18446744073709551616)
    (e3 : x3 + b1 + x2 = a1 + x4 * 18446744073709551616)
    (e5 : x5 + b2 + x4 = a2 + x6 * 18446744073709551616)
    (e7 : x7 + b3 + x6 = a3 + x8 * 18446744073709551616) :
    v4 x1 x3 x5 x7 + v4 b0 b1 b2 b3 + c
      = v4 a0 a1 a2 a3 + x8 * 115792089237316195423570985008687907853269984665640564039457584007913129639936 := by
  unfold v4; omega

theorem add_final {A B M S T x8 x16 d x18 : Nat}
    (hA : A < M) (hB : B < M)
    (hM : M < 115792089237316195423570985008687907853269984665640564039457584007913129639936)
    (hS : S < 115792089237316195423570985008687907853269984665640564039457584007913129639936)
    (hT : T < 115792089237316195423570985008687907853269984665640564039457584007913129639936)
    (e1 : S + x8 * 115792089237316195423570985008687907853269984665640564039457584007913129639936 = A + B + 0)
    (e2 : T + M + 0 = S + x16 * 115792089237316195423570985008687907853269984665640564039457584007913129639936)
    (e3 : d + 0 + x16 = x8 + x18 * 18446744073709551616) (hd : d < 18446744073709551616) :
    (x18 = 0 ∧ T + M = A + B ∧ T < M) ∨ (x18 = 1 ∧ S = A + B ∧ S < M) := by
  omega

/-- the text of the generated `Add`, with the modulus limbs as parameters -/
def addG (m0 m1 m2 m3 : Nat) (arg1 arg2 : List Nat) : List Nat :=
  let x1 := add64s (arg1.getD 0 0) (arg2.getD 0 0) 0
  let x2 := add64c (arg1.getD 0 0) (arg2.getD 0 0) 0
  let x3 := add64s (arg1.getD 1 0) (arg2.getD 1 0) x2
  let x4 := add64c (arg1.getD 1 0) (arg2.getD 1 0) x2
  let x5 := add64s (arg1.getD 2 0) (arg2.getD 2 0) x4
  let x6 := add64c (arg1.getD 2 0) (arg2.getD 2 0) x4
  let x7 := add64s (arg1.getD 3 0) (arg2.getD 3 0) x6
  let x8 := add64c (arg1.getD 3 0) (arg2.getD 3 0) x6
  let x9 := sub64d x1 m0 0
  let x10 := sub64b x1 m0 0
  let x11 := sub64d x3 m1 x10
  let x12 := sub64b x3 m1 x10
  let x13 := sub64d x5 m2 x12
  let x14 := sub64b x5 m2 x12
  let x15 := sub64d x7 m3 x14
  let x16 := sub64b x7 m3 x14
  let x18 := sub64b x8 0 x16
  [cmov x18 x9 x1, cmov x18 x11 x3, cmov x18 x13 x5, cmov x18 x15 x7]

theorem cmovP_eq (c x y : Nat) : Gen.FiatP.sm2CmovznzU64 c x y = cmov c x y := rfl

theorem add_eq_addG : Gen.FiatP.sm2Add =
    addG 0xffffffffffffffff 0xffffffff00000000 0xffffffffffffffff 0xfffffffeffffffff := rfl

theorem addG_spec {m0 m1 m2 m3 : Nat}
    (hm0 : m0 < 18446744073709551616) (hm1 : m1 < 18446744073709551616)
    (hm2 : m2 < 18446744073709551616) (hm3 : m3 < 18446744073709551616)
    (a b : List Nat) (ha : Canon (v4 m0 m1 m2 m3) a) (hb : Canon (v4 m0 m1 m2 m3) b) :
    Canon (v4 m0 m1 m2 m3) (addG m0 m1 m2 m3 a b) ∧
      eval (addG m0 m1 m2 m3 a b) = (eval a + eval b) % v4 m0 m1 m2 m3 := by
  obtain ⟨a0, a1, a2, a3, rfl, ha0, ha1, ha2, ha3, hA⟩ := canon_cases ha
  obtain ⟨b0, b1, b2, b3, rfl, hb0, hb1, hb2, hb3, hB⟩ := canon_cases hb
  unfold addG
  simp only [List.getD_cons_zero, List.getD_cons_succ, eval_four]
  have hc0 : (0 : Nat) ≤ 1 := by omega
  have hz : (0 : Nat) < 18446744073709551616 := by omega
  obtain ⟨e1, l1⟩ := add64_spec a0 b0 0
  have c2 := add64c_le_one ha0 hb0 hc0
  generalize add64s a0 b0 0 = x1 at *
  generalize add64c a0 b0 0 = x2 at *
  obtain ⟨e3, l3⟩ := add64_spec a1 b1 x2
  have c4 := add64c_le_one ha1 hb1 c2
  generalize add64s a1 b1 x2 = x3 at *
  generalize add64c a1 b1 x2 = x4 at *
  obtain ⟨e5, l5⟩ := add64_spec a2 b2 x4
  have c6 := add64c_le_one ha2 hb2 c4
  generalize add64s a2 b2 x4 = x5 at *
  generalize add64c a2 b2 x4 = x6 at *
  obtain ⟨e7, l7⟩ := add64_spec a3 b3 x6
  have c8 := add64c_le_one ha3 hb3 c6
  generalize add64s a3 b3 x6 = x7 at *
  generalize add64c a3 b3 x6 = x8 at *
  obtain ⟨e9, l9, c10⟩ := sub64_spec l1 hm0 hc0
  generalize sub64d x1 m0 0 = x9 at *
  generalize sub64b x1 m0 0 = x10 at *
  obtain ⟨e11, l11, c12⟩ := sub64_spec l3 hm1 c10
  generalize sub64d x3 m1 x10 = x11 at *
  generalize sub64b x3 m1 x10 = x12 at *
  obtain ⟨e13, l13, c14⟩ := sub64_spec l5 hm2 c12
  generalize sub64d x5 m2 x12 = x13 at *
  generalize sub64b x5 m2 x12 = x14 at *
  obtain ⟨e15, l15, c16⟩ := sub64_spec l7 hm3 c14
  generalize sub64d x7 m3 x14 = x15 at *
  generalize sub64b x7 m3 x14 = x16 at *
  obtain ⟨e17, l17, c18⟩ := sub64_spec (show x8 < 18446744073709551616 by omega) hz c16
  generalize sub64d x8 0 x16 = d at *
  generalize sub64b x8 0 x16 = x18 at *
  have hS := chain_add e1 e3 e5 e7
  have hT := chain_sub e9 e11 e13 e15
  have hfin := add_final hA hB (v4_lt hm0 hm1 hm2 hm3) (v4_lt l1 l3 l5 l7) (v4_lt l9 l11 l13 l15)
    hS hT e17 l17
  rcases hfin with ⟨rfl, h1, h2⟩ | ⟨rfl, h1, h2⟩
  · rw [cmov_zero _ l9, cmov_zero _ l11, cmov_zero _ l13, cmov_zero _ l15]
    refine ⟨canon_mk l9 l11 l13 l15 h2, ?_⟩
    show v4 x9 x11 x13 x15 = (v4 a0 a1 a2 a3 + v4 b0 b1 b2 b3) % v4 m0 m1 m2 m3
    rw [← h1, Nat.add_mod_right, Nat.mod_eq_of_lt h2]
  · rw [cmov_one _ l1, cmov_one _ l3, cmov_one _ l5, cmov_one _ l7]
    refine ⟨canon_mk l1 l3 l5 l7 h2, ?_⟩
    show v4 x1 x3 x5 x7 = (v4 a0 a1 a2 a3 + v4 b0 b1 b2 b3) % v4 m0 m1 m2 m3
    rw [← h1, Nat.mod_eq_of_lt h2]

theorem p_eq : Spec.SM2.p =
    v4 0xffffffffffffffff 0xffffffff00000000 0xffffffffffffffff 0xfffffffeffffffff := by decide

theorem add_spec (a b : List Nat) (ha : Canon Spec.SM2.p a) (hb : Canon Spec.SM2.p b) :
    Canon Spec.SM2.p (Gen.FiatP.sm2Add a b) ∧
      eval (Gen.FiatP.sm2Add a b) = (eval a + eval b) % Spec.SM2.p := by
  rw [p_eq] at ha hb ⊢
  rw [add_eq_addG]
  exact addG_spec (by decide) (by decide) (by decide) (by decide) a b ha hb

theorem sub_final {A B M R D K x8 c : Nat}
    (hA : A < M) (hB : B < M)
    (hM : M < 115792089237316195423570985008687907853269984665640564039457584007913129639936)
    (hR : R < 115792089237316195423570985008687907853269984665640564039457584007913129639936)
    (hD : D < 115792089237316195423570985008687907853269984665640564039457584007913129639936)
    (e1 : D + B + 0 = A + x8 * 115792089237316195423570985008687907853269984665640564039457584007913129639936)
    (e2 : R + c * 115792089237316195423570985008687907853269984665640564039457584007913129639936 = D + K + 0)
    (hK : (x8 = 0 ∧ K = 0) ∨ (x8 = 1 ∧ K = M)) :
    R < M ∧ (R + B = A ∨ R + B = A + M) := by
  omega

theorem sub_mod {A B M R : Nat} (hR : R < M) (h : R + B = A ∨ R + B = A + M) :
    R = (A + M - B) % M := by
  rcases h with h | h
  · have e : A + M - B = R + M := by omega
    rw [e, Nat.add_mod_right, Nat.mod_eq_of_lt hR]
  · have e : A + M - B = R := by omega
    rw [e, Nat.mod_eq_of_lt hR]

/-- the text of the generated `Sub`; `f_i` are the maskings of the all-ones/zero word `x9` -/
def subG (f0 f1 f2 f3 : Nat → Nat) (arg1 arg2 : List Nat) : List Nat :=
  let x1 := sub64d (arg1.getD 0 0) (arg2.getD 0 0) 0
  let x2 := sub64b (arg1.getD 0 0) (arg2.getD 0 0) 0
  let x3 := sub64d (arg1.getD 1 0) (arg2.getD 1 0) x2
  let x4 := sub64b (arg1.getD 1 0) (arg2.getD 1 0) x2
  let x5 := sub64d (arg1.getD 2 0) (arg2.getD 2 0) x4
  let x6 := sub64b (arg1.getD 2 0) (arg2.getD 2 0) x4
  let x7 := sub64d (arg1.getD 3 0) (arg2.getD 3 0) x6
  let x8 := sub64b (arg1.getD 3 0) (arg2.getD 3 0) x6
  let x9 := cmov x8 0 0xffffffffffffffff
  let x10 := add64s x1 (f0 x9) 0
  let x11 := add64c x1 (f0 x9) 0
  let x12 := add64s x3 (f1 x9) x11
  let x13 := add64c x3 (f1 x9) x11
  let x14 := add64s x5 (f2 x9) x13
  let x15 := add64c x5 (f2 x9) x13
  let x16 := add64s x7 (f3 x9) x15
  [x10, x12, x14, x16]

theorem subG_spec {m0 m1 m2 m3 : Nat} {f0 f1 f2 f3 : Nat → Nat}
    (hm0 : m0 < 18446744073709551616) (hm1 : m1 < 18446744073709551616)
    (hm2 : m2 < 18446744073709551616) (hm3 : m3 < 18446744073709551616)
    (z0 : f0 0 = 0) (z1 : f1 0 = 0) (z2 : f2 0 = 0) (z3 : f3 0 = 0)
    (o0 : f0 18446744073709551615 = m0) (o1 : f1 18446744073709551615 = m1)
    (o2 : f2 18446744073709551615 = m2) (o3 : f3 18446744073709551615 = m3)
    (a b : List Nat) (ha : Canon (v4 m0 m1 m2 m3) a) (hb : Canon (v4 m0 m1 m2 m3) b) :
    Canon (v4 m0 m1 m2 m3) (subG f0 f1 f2 f3 a b) ∧
      eval (subG f0 f1 f2 f3 a b) = (eval a + v4 m0 m1 m2 m3 - eval b) % v4 m0 m1 m2 m3 := by
  obtain ⟨a0, a1, a2, a3, rfl, ha0, ha1, ha2, ha3, hA⟩ := canon_cases ha
  obtain ⟨b0, b1, b2, b3, rfl, hb0, hb1, hb2, hb3, hB⟩ := canon_cases hb
  unfold subG
  simp only [List.getD_cons_zero, List.getD_cons_succ, eval_four]
  have hc0 : (0 : Nat) ≤ 1 := by omega
  have hz : (0 : Nat) < 18446744073709551616 := by omega
  have hones : (18446744073709551615 : Nat) < 18446744073709551616 := by omega
  obtain ⟨e1, l1, c2⟩ := sub64_spec ha0 hb0 hc0
  generalize sub64d a0 b0 0 = x1 at *
  generalize sub64b a0 b0 0 = x2 at *
  obtain ⟨e3, l3, c4⟩ := sub64_spec ha1 hb1 c2
  generalize sub64d a1 b1 x2 = x3 at *
  generalize sub64b a1 b1 x2 = x4 at *
  obtain ⟨e5, l5, c6⟩ := sub64_spec ha2 hb2 c4
  generalize sub64d a2 b2 x4 = x5 at *
  generalize sub64b a2 b2 x4 = x6 at *
  obtain ⟨e7, l7, c8⟩ := sub64_spec ha3 hb3 c6
  generalize sub64d a3 b3 x6 = x7 at *
  generalize sub64b a3 b3 x6 = x8 at *
  have hD := chain_sub e1 e3 e5 e7
  have hx8 : x8 = 0 ∨ x8 = 1 := by omega
  clear e1 e3 e5 e7 c2 c4 c6
  rcases hx8 with rfl | rfl
  · rw [cmov_zero _ hz, z0, z1, z2, z3]
    obtain ⟨e10, l10⟩ := add64_spec x1 0 0
    generalize add64s x1 0 0 = x10 at *
    generalize add64c x1 0 0 = x11 at *
    obtain ⟨e12, l12⟩ := add64_spec x3 0 x11
    generalize add64s x3 0 x11 = x12 at *
    generalize add64c x3 0 x11 = x13 at *
    obtain ⟨e14, l14⟩ := add64_spec x5 0 x13
    generalize add64s x5 0 x13 = x14 at *
    generalize add64c x5 0 x13 = x15 at *
    obtain ⟨e16, l16⟩ := add64_spec x7 0 x15
    generalize add64s x7 0 x15 = x16 at *
    generalize add64c x7 0 x15 = c at *
    have hR := chain_add e10 e12 e14 e16
    obtain ⟨h1, h2⟩ := sub_final hA hB (v4_lt hm0 hm1 hm2 hm3) (v4_lt l10 l12 l14 l16)
      (v4_lt l1 l3 l5 l7) hD hR (Or.inl ⟨rfl, rfl⟩)
    exact ⟨canon_mk l10 l12 l14 l16 h1, sub_mod h1 h2⟩
  · rw [cmov_one _ hones, o0, o1, o2, o3]
    obtain ⟨e10, l10⟩ := add64_spec x1 m0 0
    generalize add64s x1 m0 0 = x10 at *
    generalize add64c x1 m0 0 = x11 at *
    obtain ⟨e12, l12⟩ := add64_spec x3 m1 x11
    generalize add64s x3 m1 x11 = x12 at *
    generalize add64c x3 m1 x11 = x13 at *
    obtain ⟨e14, l14⟩ := add64_spec x5 m2 x13
    generalize add64s x5 m2 x13 = x14 at *
    generalize add64c x5 m2 x13 = x15 at *
    obtain ⟨e16, l16⟩ := add64_spec x7 m3 x15
    generalize add64s x7 m3 x15 = x16 at *
    generalize add64c x7 m3 x15 = c at *
    have hR := chain_add e10 e12 e14 e16
    obtain ⟨h1, h2⟩ := sub_final hA hB (v4_lt hm0 hm1 hm2 hm3) (v4_lt l10 l12 l14 l16)
      (v4_lt l1 l3 l5 l7) hD hR (Or.inr ⟨rfl, rfl⟩)
    exact ⟨canon_mk l10 l12 l14 l16 h1, sub_mod h1 h2⟩

theorem sub_eq_subG : Gen.FiatP.sm2Sub =
    subG (fun x => x) (fun x => x &&& 0xffffffff00000000) (fun x => x)
      (fun x => x &&& 0xfffffffeffffffff) := rfl

theorem opp_eq_subG (a : List Nat) : Gen.FiatP.sm2Opp a =
    subG (fun x => x) (fun x => x &&& 0xffffffff00000000) (fun x => x)
      (fun x => x &&& 0xfffffffeffffffff) [0, 0, 0, 0] a := rfl

theorem canon_zero {m : Nat} (hm : 0 < m) : Canon m [0, 0, 0, 0] :=
  canon_mk (by omega) (by omega) (by omega) (by omega) (by omega)

theorem sub_spec (a b : List Nat) (ha : Canon Spec.SM2.p a) (hb : Canon Spec.SM2.p b) :
    Canon Spec.SM2.p (Gen.FiatP.sm2Sub a b) ∧
      eval (Gen.FiatP.sm2Sub a b) = (eval a + Spec.SM2.p - eval b) % Spec.SM2.p := by
  rw [p_eq] at ha hb ⊢
  rw [sub_eq_subG]
  exact subG_spec (by decide) (by decide) (by decide) (by decide) (by decide) (by decide) (by decide)
    (by decide) (by decide) (by decide) (by decide) (by decide) a b ha hb

theorem opp_spec (a : List Nat) (ha : Canon Spec.SM2.p a) :
    Canon Spec.SM2.p (Gen.FiatP.sm2Opp a) ∧
      eval (Gen.FiatP.sm2Opp a) = (Spec.SM2.p - eval a) % Spec.SM2.p := by
  rw [p_eq] at ha ⊢
  rw [opp_eq_subG]
  have h := subG_spec (f0 := fun x => x) (f1 := fun x => x &&& 0xffffffff00000000) (f2 := fun x => x)
    (f3 := fun x => x &&& 0xfffffffeffffffff)
    (by decide) (by decide) (by decide) (by decide) (by decide) (by decide) (by decide)
    (by decide) (by decide) (by decide) (by decide) (by decide) [0, 0, 0, 0] a
    (canon_zero (by decide)) ha
  have e : eval [0, 0, 0, 0] = 0 := by decide
  rw [e, Nat.zero_add] at h
  exact h


/-! ### Selectznz, SetOne, Nonzero -/

theorem selectznz_zero (a b : List Nat) (ha : Limbs4 a) : Gen.FiatP.sm2Selectznz 0 a b = a := by
  obtain ⟨a0, a1, a2, a3, rfl, h0, h1, h2, h3⟩ := limbs4_cases ha
  show [cmov 0 a0 (b.getD 0 0), cmov 0 a1 (b.getD 1 0), cmov 0 a2 (b.getD 2 0), cmov 0 a3 (b.getD 3 0)] = _
  rw [cmov_zero _ h0, cmov_zero _ h1, cmov_zero _ h2, cmov_zero _ h3]

theorem selectznz_one (a b : List Nat) (hb : Limbs4 b) : Gen.FiatP.sm2Selectznz 1 a b = b := by
  obtain ⟨b0, b1, b2, b3, rfl, h0, h1, h2, h3⟩ := limbs4_cases hb
  show [cmov 1 (a.getD 0 0) b0, cmov 1 (a.getD 1 0) b1, cmov 1 (a.getD 2 0) b2, cmov 1 (a.getD 3 0) b3] = _
  rw [cmov_one _ h0, cmov_one _ h1, cmov_one _ h2, cmov_one _ h3]

theorem setOne_spec : Canon Spec.SM2.p Gen.FiatP.sm2SetOne ∧
    eval Gen.FiatP.sm2SetOne = 2 ^ 256 % Spec.SM2.p :=
  ⟨canon_mk (by decide) (by decide) (by decide) (by decide) (by decide), by decide⟩

theorem nonzero_spec (a : List Nat) (ha : Limbs4 a) :
    (Gen.FiatP.sm2Nonzero a = 0 ↔ eval a = 0) ∧ Gen.FiatP.sm2Nonzero a < 2 ^ 64 := by
  obtain ⟨a0, a1, a2, a3, rfl, h0, h1, h2, h3⟩ := limbs4_cases ha
  show ((a0 ||| (a1 ||| (a2 ||| a3))) = 0 ↔ eval [a0, a1, a2, a3] = 0) ∧ (a0 ||| (a1 ||| (a2 ||| a3))) < 2 ^ 64
  refine ⟨?_, Nat.or_lt_two_pow h0 (Nat.or_lt_two_pow h1 (Nat.or_lt_two_pow h2 h3))⟩
  rw [eval_four, Nat.or_eq_zero_iff, Nat.or_eq_zero_iff, Nat.or_eq_zero_iff]
  omega

/-! ### ToBytes / FromBytes -/

theorem toBytes_eq (a0 a1 a2 a3 : Nat) : Gen.FiatP.sm2ToBytes [a0, a1, a2, a3] =
    limbBytes a0 ++ (limbBytes a1 ++ (limbBytes a2 ++ limbBytes a3)) := by
  unfold Gen.FiatP.sm2ToBytes
  simp only [List.getD_cons_zero, List.getD_cons_succ, shr8, and_ff]
  rfl

theorem fromBytes_eq (b0 b1 b2 b3 b4 b5 b6 b7 b8 b9 b10 b11 b12 b13 b14 b15 b16 b17 b18 b19 b20 b21 b22
    b23 b24 b25 b26 b27 b28 b29 b30 b31 : Nat) :
    Gen.FiatP.sm2FromBytes [b0, b1, b2, b3, b4, b5, b6, b7, b8, b9, b10, b11, b12, b13, b14, b15, b16,
      b17, b18, b19, b20, b21, b22, b23, b24, b25, b26, b27, b28, b29, b30, b31] =
    [bytesLimb b0 b1 b2 b3 b4 b5 b6 b7, bytesLimb b8 b9 b10 b11 b12 b13 b14 b15,
     bytesLimb b16 b17 b18 b19 b20 b21 b22 b23, bytesLimb b24 b25 b26 b27 b28 b29 b30 b31] := rfl

theorem pow256_8 : (256 : Nat) ^ 8 = 18446744073709551616 := by decide

theorem toBytes_spec (a : List Nat) (ha : Limbs4 a) :
    (Gen.FiatP.sm2ToBytes a).length = 32 ∧ (∀ x ∈ Gen.FiatP.sm2ToBytes a, x < 256) ∧
      leValue (Gen.FiatP.sm2ToBytes a) = eval a := by
  obtain ⟨a0, a1, a2, a3, rfl, h0, h1, h2, h3⟩ := limbs4_cases ha
  rw [toBytes_eq]
  refine ⟨rfl, ?_, ?_⟩
  · intro x hx
    simp only [List.mem_append] at hx
    rcases hx with hx | hx | hx | hx <;> exact limbBytes_lt _ x hx
  · rw [leValue_append, leValue_append, leValue_append, leValue_limbBytes h0, leValue_limbBytes h1,
      leValue_limbBytes h2, leValue_limbBytes h3, limbBytes_length, limbBytes_length, limbBytes_length,
      pow256_8, eval_four]
    omega

theorem fromBytes_spec (bs : List Nat) (hl : bs.length = 32) (hb : ∀ x ∈ bs, x < 256) :
    Limbs4 (Gen.FiatP.sm2FromBytes bs) ∧ eval (Gen.FiatP.sm2FromBytes bs) = leValue bs := by
  obtain ⟨b0, b1, b2, b3, b4, b5, b6, b7, b8, b9, b10, b11, b12, b13, b14, b15, b16, b17, b18, b19,
    b20, b21, b22, b23, b24, b25, b26, b27, b28, b29, b30, b31, rfl,
    ⟨h0, h1, h2, h3, h4, h5, h6, h7⟩, ⟨h8, h9, h10, h11, h12, h13, h14, h15⟩,
    ⟨h16, h17, h18, h19, h20, h21, h22, h23⟩, ⟨h24, h25, h26, h27, h28, h29, h30, h31⟩⟩ :=
    list32_cases hl hb
  rw [fromBytes_eq]
  refine ⟨limbs4_mk (bytesLimb_lt ..) (bytesLimb_lt ..) (bytesLimb_lt ..) (bytesLimb_lt ..), ?_⟩
  rw [eval_four, bytesLimb_eq h0 h1 h2 h3 h4 h5 h6 h7, bytesLimb_eq h8 h9 h10 h11 h12 h13 h14 h15,
    bytesLimb_eq h16 h17 h18 h19 h20 h21 h22 h23, bytesLimb_eq h24 h25 h26 h27 h28 h29 h30 h31]
  show _ = leValue ([b0, b1, b2, b3, b4, b5, b6, b7] ++ ([b8, b9, b10, b11, b12, b13, b14, b15] ++
    ([b16, b17, b18, b19, b20, b21, b22, b23] ++ [b24, b25, b26, b27, b28, b29, b30, b31])))
  rw [leValue_append, leValue_append, leValue_append]
  simp only [List.length_cons, List.length_nil, Nat.zero_add, Nat.reduceAdd, pow256_8]
  generalize leValue [b0, b1, b2, b3, b4, b5, b6, b7] = l0
  generalize leValue [b8, b9, b10, b11, b12, b13, b14, b15] = l1
  generalize leValue [b16, b17, b18, b19, b20, b21, b22, b23] = l2
  generalize leValue [b24, b25, b26, b27, b28, b29, b30, b31] = l3
  omega

theorem fromBytes_toBytes (a : List Nat) (ha : Limbs4 a) :
    Gen.FiatP.sm2FromBytes (Gen.FiatP.sm2ToBytes a) = a := by
  obtain ⟨a0, a1, a2, a3, rfl, h0, h1, h2, h3⟩ := limbs4_cases ha
  rw [toBytes_eq]
  simp only [limbBytes, List.cons_append, List.nil_append]
  rw [fromBytes_eq, bytesLimb_limbBytes h0, bytesLimb_limbBytes h1, bytesLimb_limbBytes h2,
    bytesLimb_limbBytes h3]

theorem toBytes_fromBytes (bs : List Nat) (hl : bs.length = 32) (hb : ∀ x ∈ bs, x < 256) :
    Gen.FiatP.sm2ToBytes (Gen.FiatP.sm2FromBytes bs) = bs := by
  obtain ⟨b0, b1, b2, b3, b4, b5, b6, b7, b8, b9, b10, b11, b12, b13, b14, b15, b16, b17, b18, b19,
    b20, b21, b22, b23, b24, b25, b26, b27, b28, b29, b30, b31, rfl,
    ⟨h0, h1, h2, h3, h4, h5, h6, h7⟩, ⟨h8, h9, h10, h11, h12, h13, h14, h15⟩,
    ⟨h16, h17, h18, h19, h20, h21, h22, h23⟩, ⟨h24, h25, h26, h27, h28, h29, h30, h31⟩⟩ :=
    list32_cases hl hb
  rw [fromBytes_eq, toBytes_eq, limbBytes_bytesLimb h0 h1 h2 h3 h4 h5 h6 h7,
    limbBytes_bytesLimb h8 h9 h10 h11 h12 h13 h14 h15,
    limbBytes_bytesLimb h16 h17 h18 h19 h20 h21 h22 h23,
    limbBytes_bytesLimb h24 h25 h26 h27 h28 h29 h30 h31]
  rfl

end SMGo.Proofs.FiatSmallP
