/-
  **The arm64 listing of `cryptoBlockAsmX8` = eight SM4 block functions of the specification**, for all round keys,
  all eight blocks, any register / destination contents — under the UNVALIDATED arm64 semantics of
  SMGo/Model/ISAValArm64.lean.  Prologue: loadSBox, pointers, CONST, two `VLD4.P` (blocks 0..3 into the elements of
  Z = V0..V3, blocks 4..7 into those of Y = V4..V7), REV32; 32 × (key load, VDUP, `subRoundX8`); epilogue: REV32,
  four register swaps through V13, two `VST4.P`.
-/
import SMGo.Proofs.ISAValArm64X8
namespace SMGo.Proofs.ISAValArm64
open SMGo.Model.ISAValArm64 SMGo.Model.ISA SMGo
open SMGo.Model.ISAVal (lane lanes unlanes Region readMem writeMem lookup regionBase)
open SMGo.Proofs.ISAVal (lane_lt lane_mod list32 list16 stepN iterN beBytes iterN_take getD_lt unlanes_lanes lanes_length
  lane32_list4 roundF)

/-- the state between two rounds of `cryptoBlockAsmX8` -/
structure Ready8 (mem : List Region) (syms frame : List (String × Nat)) (rkBase dstp : Nat)
    (i : Nat) (X : Nat → Nat × Nat × Nat × Nat) (s : State) : Prop where
  lenG : s.gpr.length = 31
  lenV : s.vec.length = 32
  hmem : s.mem = mem
  hsyms : s.syms = syms
  hframe : s.frame = frame
  g10 : greg s 10 = rkBase + 4 * i
  g11 : greg s 11 = dstp
  tab : s.vec.drop 15 = tabs
  z0 : ∀ j, j < 4 → lane 32 j (vreg s (sreg i 0)) = (X j).1
  z1 : ∀ j, j < 4 → lane 32 j (vreg s (sreg i 1)) = (X j).2.1
  z2 : ∀ j, j < 4 → lane 32 j (vreg s (sreg i 2)) = (X j).2.2.1
  z3 : ∀ j, j < 4 → lane 32 j (vreg s (sreg i 3)) = (X j).2.2.2
  y0 : ∀ j, j < 4 → lane 32 j (vreg s (4 + sreg i 0)) = (X (4 + j)).1
  y1 : ∀ j, j < 4 → lane 32 j (vreg s (4 + sreg i 1)) = (X (4 + j)).2.1
  y2 : ∀ j, j < 4 → lane 32 j (vreg s (4 + sreg i 2)) = (X (4 + j)).2.2.1
  y3 : ∀ j, j < 4 → lane 32 j (vreg s (4 + sreg i 3)) = (X (4 + j)).2.2.2

def round8I (i : Nat) : List DInstr := keyLoadDupCode .S4 ++ sub8Code (sreg i 0) (sreg i 1) (sreg i 2) (sreg i 3)

theorem ready8_step (mem : List Region) (syms frame : List (String × Nat))
    (rkBase dstp i : Nat) (X : Nat → Nat × Nat × Nat × Nat) (s : State) (bs : List Nat)
    (hb : rkBase + 4 * i + 4 < 2 ^ 64) (hrk : readMem mem (rkBase + 4 * i) 4 = .ok bs) (hbs : unlanes 8 bs < 2 ^ 32)
    (h : Ready8 mem syms frame rkBase dstp i X s) :
    ∃ s', execList (round8I i) s = .ok s' ∧
      Ready8 mem syms frame rkBase dstp (i + 1) (fun j => stepN (X j) (unlanes 8 bs)) s' := by
  have hk := keyLoadDup_spec .S4 (Or.inl rfl) s h.lenG h.lenV bs (by rw [h.hmem, h.g10]; exact hrk)
  generalize hs1 : ({ s with gpr := s.gpr.set 10 ((greg s 10 + 4) % 2 ^ 64),
                             vec := s.vec.set 12 (vdupS (dupCount .S4) 0 (setLaneS 0 (vreg s 12) (unlanes 8 bs))) } : State)
    = s1 at hk
  have hv1 : s1.vec = s.vec.set 12 (vdupS (dupCount .S4) 0 (setLaneS 0 (vreg s 12) (unlanes 8 bs))) := by rw [← hs1]
  have hg1 : s1.gpr = s.gpr.set 10 ((greg s 10 + 4) % 2 ^ 64) := by rw [← hs1]
  have hm1 : s1.mem = s.mem := by rw [← hs1]
  have hsy1 : s1.syms = s.syms := by rw [← hs1]
  have hf1 : s1.frame = s.frame := by rw [← hs1]
  have hne : ∀ n, n ≠ 12 → vreg s1 n = vreg s n := fun n hn => by
    unfold vreg; rw [hv1]; exact getD_set_ne _ _ _ _ hn
  have h12 : ∀ j, j < 4 → lane 32 j (vreg s1 12) = unlanes 8 bs := by
    intro j hj
    unfold vreg; rw [hv1, getD_set_eq _ _ _ (by rw [h.lenV]; decide), lane_vdupS (dupCount .S4) _ _ _ hj]
    exact lane0_setLaneS0 _ _ hbs
  have htab1 : s1.vec.drop 15 = tabs := by
    rw [hv1, List.drop_set_of_lt (by decide)]; exact h.tab
  obtain ⟨s', hrun, hp⟩ := sub8_spec (sreg i 0) (sreg i 1) (sreg i 2) (sreg i 3) (sreg_perm i) s1
    (by rw [hv1, List.length_set]; exact h.lenV) htab1
  have hlt := fun j => sreg_lt i j
  refine ⟨s', execList_append_ok hk hrun, ?_⟩
  constructor
  · rw [hp.gpr, hg1, List.length_set]; exact h.lenG
  · exact hp.lenV
  · rw [hp.mem, hm1, h.hmem]
  · rw [hp.syms, hsy1, h.hsyms]
  · rw [hp.frame, hf1, h.hframe]
  · unfold greg; rw [hp.gpr, hg1, getD_set_eq _ _ _ (by rw [h.lenG]; decide)]
    rw [h.g10, Nat.mod_eq_of_lt (by omega)]; omega
  · unfold greg; rw [hp.gpr, hg1, getD_set_ne _ _ _ _ (by decide)]; exact h.g11
  · rw [hp.tab]; exact htab1
  · intro j hj; rw [sreg_succ, hp.vB, hne _ (by have := hlt 1; omega)]; exact h.z1 j hj
  · intro j hj; rw [sreg_succ, hp.vC, hne _ (by have := hlt 2; omega)]; exact h.z2 j hj
  · intro j hj; rw [sreg_succ, hp.vD, hne _ (by have := hlt 3; omega)]; exact h.z3 j hj
  · intro j hj
    rw [sreg_succ3, hp.vA j hj, hne _ (by have := hlt 0; omega), hne _ (by have := hlt 1; omega),
      hne _ (by have := hlt 2; omega), hne _ (by have := hlt 3; omega), h12 j hj, h.z0 j hj, h.z1 j hj, h.z2 j hj,
      h.z3 j hj]
    rfl
  · intro j hj; rw [sreg_succ, hp.vF, hne _ (by have := hlt 1; omega)]; exact h.y1 j hj
  · intro j hj; rw [sreg_succ, hp.vG, hne _ (by have := hlt 2; omega)]; exact h.y2 j hj
  · intro j hj; rw [sreg_succ, hp.vH, hne _ (by have := hlt 3; omega)]; exact h.y3 j hj
  · intro j hj
    rw [sreg_succ3, hp.vE j hj, hne _ (by have := hlt 0; omega), hne _ (by have := hlt 1; omega),
      hne _ (by have := hlt 2; omega), hne _ (by have := hlt 3; omega), h12 j hj, h.y0 j hj, h.y1 j hj, h.y2 j hj,
      h.y3 j hj]
    rfl

def rounds8Code : Nat → List DInstr
  | 0 => []
  | n + 1 => rounds8Code n ++ round8I n

theorem ready8_rounds (mem : List Region) (syms frame : List (String × Nat))
    (rkBase dstp : Nat) (kb : Nat → List Nat) (hbase : rkBase + 4 * 32 < 2 ^ 64)
    (hrk : ∀ i, i < 32 → readMem mem (rkBase + 4 * i) 4 = .ok (kb i))
    (hkb : ∀ i, i < 32 → unlanes 8 (kb i) < 2 ^ 32)
    (X : Nat → Nat × Nat × Nat × Nat) (s : State) (h : Ready8 mem syms frame rkBase dstp 0 X s)
    (n : Nat) (hn : n ≤ 32) :
    ∃ s', execList (rounds8Code n) s = .ok s' ∧
      Ready8 mem syms frame rkBase dstp n (fun j => iterN (fun i => unlanes 8 (kb i)) (X j) n) s' := by
  induction n with
  | zero => exact ⟨s, rfl, h⟩
  | succ n ih =>
    obtain ⟨s1, hrun1, hr1⟩ := ih (by omega)
    obtain ⟨s2, hrun2, hr2⟩ := ready8_step mem syms frame rkBase dstp n _ s1 (kb n) (by omega) (hrk n (by omega))
      (hkb n (by omega)) hr1
    exact ⟨s2, execList_append_ok hrun1 hrun2, hr2⟩

/-! ### prologue -/

def pro8Code : List DInstr :=
  [ins .MOVD [.symAddr "SBox" 0, G 0] nn,
   ins .VLD1P [M 0 64, L4 16 17 18 19] [.none, .B16],
   ins .VLD1P [M 0 64, L4 20 21 22 23] [.none, .B16],
   ins .VLD1P [M 0 64, L4 24 25 26 27] [.none, .B16],
   ins .VLD1P [M 0 64, L4 28 29 30 31] [.none, .B16],
   ins .MOVD [.frame "rk" 0, G 10] nn,
   ins .MOVD [.frame "dst" 8, G 11] nn,
   ins .MOVD [.frame "src" 16, G 12] nn,
   ins .VMOVI [.imm 64, R 15] [.none, .B16],
   ins .VLD4P [M 12 64, L4 0 1 2 3] [.none, .S4],
   ins .VLD4P [M 12 64, L4 4 5 6 7] [.none, .S4],
   ins .VREV32 [R 0, R 0] r2, ins .VREV32 [R 1, R 1] r2, ins .VREV32 [R 2, R 2] r2, ins .VREV32 [R 3, R 3] r2,
   ins .VREV32 [R 4, R 4] r2, ins .VREV32 [R 5, R 5] r2, ins .VREV32 [R 6, R 6] r2, ins .VREV32 [R 7, R 7] r2]

attribute [local irreducible] execD

/-- word element `e` of a de-interleaved register after REV32 -/
theorem ld4_lane (bs : List Nat) (hb : ∀ x ∈ bs, x < 256) (r : Nat) (hr : r < 4) (e : Nat) (he : e < 4) :
    lane 32 e (vrev32 (unlanes 32 [leWord bs r, leWord bs (4 + r), leWord bs (8 + r), leWord bs (12 + r)]))
      = bswap32 (leWord (blockAt bs e) r) := by
  have hw := fun j => leWord_lt bs hb j
  rw [laneJ_vrev32' e _ he, leWord_blockAt bs e r hr]
  congr 1
  obtain ⟨h0, h1, h2, h3⟩ := lane32_list4 (leWord bs r) (leWord bs (4 + r)) (leWord bs (8 + r)) (leWord bs (12 + r))
    (hw _) (hw _) (hw _) (hw _)
  have : e = 0 ∨ e = 1 ∨ e = 2 ∨ e = 3 := by omega
  rcases this with rfl | rfl | rfl | rfl
  · rw [h0]; exact congrArg _ (by omega)
  · rw [h1]
  · rw [h2]
  · rw [h3]

set_option maxRecDepth 10000 in
theorem prologue8_spec (s : State) (hG : s.gpr.length = 31) (hV : s.vec.length = 32)
    (aSrc aRk aDst : Nat) (bs0 bs1 : List Nat) (hb0 : ∀ x ∈ bs0, x < 256) (hb1 : ∀ x ∈ bs1, x < 256)
    (hS : lookup s.syms "SBox" = some 4294967296)
    (hS0 : readMem s.mem 4294967296 64 = .ok (sbQuarter 0))
    (hS1 : readMem s.mem 4294967360 64 = .ok (sbQuarter 1))
    (hS2 : readMem s.mem 4294967424 64 = .ok (sbQuarter 2))
    (hS3 : readMem s.mem 4294967488 64 = .ok (sbQuarter 3))
    (hSrc : lookup s.frame "src" = some aSrc) (hSrc' : aSrc + 128 < 2 ^ 64)
    (hI0 : readMem s.mem aSrc 64 = .ok bs0) (hI1 : readMem s.mem (aSrc + 64) 64 = .ok bs1)
    (hRk : lookup s.frame "rk" = some aRk) (hDst : lookup s.frame "dst" = some aDst) :
    ∃ s', execList pro8Code s = .ok s' ∧
      Ready8 s.mem s.syms s.frame aRk aDst 0
        (fun e => if e < 4 then blockWords (blockAt bs0 e) else blockWords (blockAt bs1 (e - 4))) s' := by
  obtain ⟨gpr, vec, mem, syms, frame⟩ := s
  simp only at hG hV hS hS0 hS1 hS2 hS3 hSrc hI0 hI1 hRk hDst
  obtain ⟨a0, a1, a2, a3, a4, a5, a6, a7, a8, a9, a10, a11, a12, a13, a14, a15, a16, a17, a18, a19, a20, a21, a22, a23, a24, a25, a26, a27, a28, a29, a30, rfl⟩ := list31 gpr hG
  obtain ⟨b0, b1, b2, b3, b4, b5, b6, b7, b8, b9, b10, b11, b12, b13, b14, b15, b16, b17, b18, b19, b20, b21, b22, b23, b24, b25, b26, b27, b28, b29, b30, b31, rfl⟩ := list32 vec hV
  have e1 : (aSrc + 64) % 2 ^ 64 = aSrc + 64 := Nat.mod_eq_of_lt (by omega)
  apply Exists.intro
  apply And.intro
  · unfold pro8Code
    apply exec_step
    · exact execD_movd_sym (hs := hS) (hd0 := by rfl) ..
    simp only [List.set_cons_succ, List.set_cons_zero, Nat.add_zero]
    apply exec_step
    · exact execD_ld1p_four (bs := sbQuarter 0) (hc := by decide) (hb := by rfl)
        (e0 := by rfl) (e1 := by rfl) (e2 := by rfl) (e3 := by rfl) (hload := hS0) ..
    simp only [List.set_cons_succ, List.set_cons_zero, Nat.reduceAdd, Nat.reducePow, Nat.reduceMod]
    apply exec_step
    · exact execD_ld1p_four (bs := sbQuarter 1) (hc := by decide) (hb := by rfl)
        (e0 := by rfl) (e1 := by rfl) (e2 := by rfl) (e3 := by rfl) (hload := hS1) ..
    simp only [List.set_cons_succ, List.set_cons_zero, Nat.reduceAdd, Nat.reducePow, Nat.reduceMod]
    apply exec_step
    · exact execD_ld1p_four (bs := sbQuarter 2) (hc := by decide) (hb := by rfl)
        (e0 := by rfl) (e1 := by rfl) (e2 := by rfl) (e3 := by rfl) (hload := hS2) ..
    simp only [List.set_cons_succ, List.set_cons_zero, Nat.reduceAdd, Nat.reducePow, Nat.reduceMod]
    apply exec_step
    · exact execD_ld1p_four (bs := sbQuarter 3) (hc := by decide) (hb := by rfl)
        (e0 := by rfl) (e1 := by rfl) (e2 := by rfl) (e3 := by rfl) (hload := hS3) ..
    simp only [List.set_cons_succ, List.set_cons_zero, Nat.reduceAdd, Nat.reducePow, Nat.reduceMod]
    pstep; pstep; pstep; pstep
    apply exec_step
    · exact execD_ld4 (post := true) (bs := bs0) (hc := by decide) (hb := by rfl)
        (e0 := by rfl) (e1 := by rfl) (e2 := by rfl) (e3 := by rfl) (hload := hI0) ..
    simp only [List.set_cons_succ, List.set_cons_zero, if_true, e1]
    apply exec_step
    · exact execD_ld4 (post := true) (bs := bs1) (hc := by decide) (hb := by rfl)
        (e0 := by rfl) (e1 := by rfl) (e2 := by rfl) (e3 := by rfl) (hload := hI1) ..
    simp only [List.set_cons_succ, List.set_cons_zero, if_true]
    pstep; pstep; pstep; pstep; pstep; pstep; pstep; pstep
    exact execList_nil _
  · have k0 := ld4_lane bs0 hb0
    have k1 := ld4_lane bs1 hb1
    constructor
    · rfl
    · rfl
    · rfl
    · rfl
    · rfl
    · simp only [greg, List.getD_cons_succ, List.getD_cons_zero, Nat.mul_zero, Nat.add_zero]
    · simp only [greg, List.getD_cons_succ, List.getD_cons_zero]
    · simp only [List.drop_succ_cons, List.drop_zero]
      exact tabs_loaded
    · intro e he
      simp only [vreg, sreg, Nat.zero_add, Nat.reduceMod, List.getD_cons_succ, List.getD_cons_zero, if_pos he]
      exact k0 0 (by decide) e he
    · intro e he
      simp only [vreg, sreg, Nat.zero_add, Nat.reduceMod, List.getD_cons_succ, List.getD_cons_zero, if_pos he]
      exact k0 1 (by decide) e he
    · intro e he
      simp only [vreg, sreg, Nat.zero_add, Nat.reduceMod, List.getD_cons_succ, List.getD_cons_zero, if_pos he]
      exact k0 2 (by decide) e he
    · intro e he
      simp only [vreg, sreg, Nat.zero_add, Nat.reduceMod, List.getD_cons_succ, List.getD_cons_zero, if_pos he]
      exact k0 3 (by decide) e he
    · intro e he
      simp only [vreg, sreg, Nat.zero_add, Nat.reduceMod, Nat.reduceAdd, List.getD_cons_succ, List.getD_cons_zero,
        if_neg (by omega : ¬ 4 + e < 4), Nat.add_sub_cancel_left]
      exact k1 0 (by decide) e he
    · intro e he
      simp only [vreg, sreg, Nat.zero_add, Nat.reduceMod, Nat.reduceAdd, List.getD_cons_succ, List.getD_cons_zero,
        if_neg (by omega : ¬ 4 + e < 4), Nat.add_sub_cancel_left]
      exact k1 1 (by decide) e he
    · intro e he
      simp only [vreg, sreg, Nat.zero_add, Nat.reduceMod, Nat.reduceAdd, List.getD_cons_succ, List.getD_cons_zero,
        if_neg (by omega : ¬ 4 + e < 4), Nat.add_sub_cancel_left]
      exact k1 2 (by decide) e he
    · intro e he
      simp only [vreg, sreg, Nat.zero_add, Nat.reduceMod, Nat.reduceAdd, List.getD_cons_succ, List.getD_cons_zero,
        if_neg (by omega : ¬ 4 + e < 4), Nat.add_sub_cancel_left]
      exact k1 3 (by decide) e he

/-! ### epilogue -/

def epi8Code : List DInstr :=
  [ins .VREV32 [R 0, R 0] r2, ins .VREV32 [R 1, R 1] r2, ins .VREV32 [R 2, R 2] r2, ins .VREV32 [R 3, R 3] r2,
   ins .VREV32 [R 4, R 4] r2, ins .VREV32 [R 5, R 5] r2, ins .VREV32 [R 6, R 6] r2, ins .VREV32 [R 7, R 7] r2,
   ins .VMOV [R 0, R 13] r2, ins .VMOV [R 3, R 0] r2, ins .VMOV [R 13, R 3] r2,
   ins .VMOV [R 1, R 13] r2, ins .VMOV [R 2, R 1] r2, ins .VMOV [R 13, R 2] r2,
   ins .VMOV [R 4, R 13] r2, ins .VMOV [R 7, R 4] r2, ins .VMOV [R 13, R 7] r2,
   ins .VMOV [R 5, R 13] r2, ins .VMOV [R 6, R 5] r2, ins .VMOV [R 13, R 6] r2,
   ins .VST4P [L4 0 1 2 3, M 11 64] [.S4, .none],
   ins .VST4P [L4 4 5 6 7, M 11 64] [.S4, .none]]

/-- the 64 bytes ST4 stores for four blocks after REV32 and the swaps -/
theorem st4_out (c0 c1 c2 c3 : Nat) (X : Nat → Nat × Nat × Nat × Nat)
    (h0 : ∀ j, j < 4 → lane 32 j c0 = (X j).1) (h1 : ∀ j, j < 4 → lane 32 j c1 = (X j).2.1)
    (h2 : ∀ j, j < 4 → lane 32 j c2 = (X j).2.2.1) (h3 : ∀ j, j < 4 → lane 32 j c3 = (X j).2.2.2) :
    st4Bytes (vrev32 c3 % 2 ^ 128) (vrev32 c2 % 2 ^ 128) (vrev32 c1 % 2 ^ 128 % 2 ^ 128) (vrev32 c0 % 2 ^ 128 % 2 ^ 128)
      = outBytes (X 0) ++ (outBytes (X 1) ++ (outBytes (X 2) ++ outBytes (X 3))) := by
  simp only [st4Bytes, out_word _ _ (by decide : 0 < 4), out_word _ _ (by decide : 1 < 4), out_word _ _ (by decide : 2 < 4),
    out_word _ _ (by decide : 3 < 4), out_word2 _ _ (by decide : 0 < 4), out_word2 _ _ (by decide : 1 < 4),
    out_word2 _ _ (by decide : 2 < 4), out_word2 _ _ (by decide : 3 < 4),
    h0 0 (by decide), h0 1 (by decide), h0 2 (by decide), h0 3 (by decide),
    h1 0 (by decide), h1 1 (by decide), h1 2 (by decide), h1 3 (by decide),
    h2 0 (by decide), h2 1 (by decide), h2 2 (by decide), h2 3 (by decide),
    h3 0 (by decide), h3 1 (by decide), h3 2 (by decide), h3 3 (by decide), outBytes, List.append_assoc]

set_option maxRecDepth 10000 in
theorem epilogue8_spec (mem : List Region) (syms frame : List (String × Nat)) (rkBase dstp : Nat)
    (X : Nat → Nat × Nat × Nat × Nat) (s : State) (m1 m2 : List Region)
    (h : Ready8 mem syms frame rkBase dstp 32 X s) (hd : dstp + 128 < 2 ^ 64)
    (hw0 : writeMem mem dstp (outBytes (X 0) ++ (outBytes (X 1) ++ (outBytes (X 2) ++ outBytes (X 3)))) = .ok m1)
    (hw1 : writeMem m1 (dstp + 64)
      (outBytes (X 4) ++ (outBytes (X 5) ++ (outBytes (X 6) ++ outBytes (X 7)))) = .ok m2) :
    ∃ s', execList epi8Code s = .ok s' ∧ s'.mem = m2 := by
  obtain ⟨hG, hV, hmem, -, -, -, hg11, -, hz0, hz1, hz2, hz3, hy0, hy1, hy2, hy3⟩ := h
  obtain ⟨gpr, vec, mem0, syms0, frame0⟩ := s
  simp only at hG hV hmem
  obtain ⟨a0, a1, a2, a3, a4, a5, a6, a7, a8, a9, a10, a11, a12, a13, a14, a15, a16, a17, a18, a19, a20, a21, a22, a23, a24, a25, a26, a27, a28, a29, a30, rfl⟩ := list31 gpr hG
  obtain ⟨b0, b1, b2, b3, b4, b5, b6, b7, b8, b9, b10, b11, b12, b13, b14, b15, b16, b17, b18, b19, b20, b21, b22, b23, b24, b25, b26, b27, b28, b29, b30, b31, rfl⟩ := list32 vec hV
  simp only [greg, vreg, sreg, Nat.reduceAdd, Nat.reduceMod, List.getD_cons_succ, List.getD_cons_zero] at hg11 hz0 hz1 hz2 hz3 hy0 hy1 hy2 hy3
  subst hmem hg11
  rw [← st4_out b0 b1 b2 b3 X hz0 hz1 hz2 hz3] at hw0
  rw [← st4_out b4 b5 b6 b7 (fun j => X (4 + j)) hy0 hy1 hy2 hy3] at hw1
  have e1 : (a11 + 64) % 2 ^ 64 = a11 + 64 := Nat.mod_eq_of_lt (by omega)
  apply Exists.intro
  apply And.intro
  · unfold epi8Code
    mstep; mstep; mstep; mstep; mstep; mstep; mstep; mstep
    mstep; mstep; mstep; mstep; mstep; mstep; mstep; mstep; mstep; mstep; mstep; mstep
    apply exec_step
    · exact execD_st4 (post := true) (hc := by decide) (hb := by rfl) (h0 := by rfl) (h1 := by rfl) (h2 := by rfl)
        (h3 := by rfl) (hstore := hw0) ..
    simp only [List.set_cons_succ, List.set_cons_zero, if_true, e1]
    apply exec_step
    · exact execD_st4 (post := true) (hc := by decide) (hb := by rfl) (h0 := by rfl) (h1 := by rfl) (h2 := by rfl)
        (h3 := by rfl) (hstore := hw1) ..
    exact execList_nil _
  · rfl

/-! ### the listing -/

structure X8Env (S : State) (rk src : List Nat) (aRk aSrc : Nat) (rDst : Nat) (dst0 : List Nat) : Prop where
  hG : S.gpr.length = 31
  hV : S.vec.length = 32
  sbox : lookup S.syms "SBox" = some 4294967296
  sb0 : readMem S.mem 4294967296 64 = .ok (sbQuarter 0)
  sb1 : readMem S.mem 4294967360 64 = .ok (sbQuarter 1)
  sb2 : readMem S.mem 4294967424 64 = .ok (sbQuarter 2)
  sb3 : readMem S.mem 4294967488 64 = .ok (sbQuarter 3)
  fSrc : lookup S.frame "src" = some aSrc
  srcLt : aSrc + 128 < 2 ^ 64
  srcR0 : readMem S.mem aSrc 64 = .ok (src.take 64)
  srcR1 : readMem S.mem (aSrc + 64) 64 = .ok ((src.drop 64).take 64)
  fRk : lookup S.frame "rk" = some aRk
  rkLt : aRk + 4 * 32 < 2 ^ 64
  rkR : ∀ i, i < 32 → readMem S.mem (aRk + 4 * i) 4 = .ok (lanes 8 4 (rk.getD i 0))
  fDst : lookup S.frame "dst" = some (regionBase rDst)
  dstLt : regionBase rDst + 128 < 2 ^ 64
  dstM : S.mem[rDst]? = some ⟨"dst", dst0, true⟩
  dstLen : dst0.length = 128

def x8Code : List DInstr := pro8Code ++ rounds8Code 32 ++ epi8Code

theorem blockAt_take (src : List Nat) (e : Nat) (he : e < 4) : blockAt (src.take 64) e = blockAt src e := by
  unfold blockAt
  rw [List.drop_take, List.take_take, Nat.min_eq_left (by omega)]

theorem blockAt_drop (src : List Nat) (e : Nat) (he : e < 4) : blockAt ((src.drop 64).take 64) e = blockAt src (4 + e) := by
  unfold blockAt
  rw [List.drop_take, List.take_take, Nat.min_eq_left (by omega), List.drop_drop]
  congr 2
  omega

theorem blockAt_length8 (src : List Nat) (hsrc : src.length = 128) (e : Nat) (he : e < 8) : (blockAt src e).length = 16 := by
  simp only [blockAt, List.length_take, List.length_drop, hsrc]; omega

/-- two consecutive 64-byte stores into a 128-byte region -/
theorem write_two64 (mem : List Region) (r : Nat) (name : String) (d W0 W1 : List Nat)
    (hm : mem[r]? = some ⟨name, d, true⟩) (hd : d.length = 128) (h0 : W0.length = 64) (h1 : W1.length = 64) :
    ∃ m1, writeMem mem (regionBase r) W0 = .ok m1 ∧
      writeMem m1 (regionBase r + 64) W1 = .ok (mem.set r ⟨name, W0 ++ W1, true⟩) := by
  have hr : r < mem.length := (List.getElem?_eq_some_iff.mp hm).1
  have w0 := write_region mem r name d 0 W0 hm (by rw [h0, hd]; decide) (by decide)
  rw [Nat.add_zero, List.take_zero, List.nil_append, Nat.zero_add, h0] at w0
  refine ⟨_, w0, ?_⟩
  rw [write_region _ r name _ 64 W1 (List.getElem?_set_self hr)
    (by rw [h1, List.length_append, h0, List.length_drop, hd]; decide) (by decide), List.set_set]
  congr 3
  rw [List.take_left' h0, h1, List.drop_of_length_le (by rw [List.length_append, h0, List.length_drop, hd]; decide),
    List.append_nil]

set_option maxRecDepth 10000 in
theorem x8_body_generic (S : State) (rk src : List Nat) (aRk aSrc rDst : Nat) (dst0 : List Nat)
    (env : X8Env S rk src aRk aSrc rDst dst0)
    (hrk : rk.length = 32) (hrkb : ∀ x ∈ rk, x < 2 ^ 32) (hsrc : src.length = 128) (hsb : ∀ x ∈ src, x < 256) :
    ∃ s', execList x8Code S = .ok s' ∧
      s'.mem = S.mem.set rDst ⟨"dst",
        (specBlock rk src 0 ++ (specBlock rk src 1 ++ (specBlock rk src 2 ++ specBlock rk src 3))) ++
        (specBlock rk src 4 ++ (specBlock rk src 5 ++ (specBlock rk src 6 ++ specBlock rk src 7))), true⟩ := by
  have hb0 : ∀ x ∈ src.take 64, x < 256 := fun x hx => hsb x (List.mem_of_mem_take hx)
  have hb1 : ∀ x ∈ (src.drop 64).take 64, x < 256 := fun x hx => hsb x (List.mem_of_mem_drop (List.mem_of_mem_take hx))
  obtain ⟨s1', hrun1, hr1⟩ := prologue8_spec S env.hG env.hV aSrc aRk (regionBase rDst) _ _ hb0 hb1
    env.sbox env.sb0 env.sb1 env.sb2 env.sb3 env.fSrc env.srcLt env.srcR0 env.srcR1 env.fRk env.fDst
  obtain ⟨s2', hrun2, hr2⟩ := ready8_rounds S.mem S.syms S.frame aRk (regionBase rDst)
    (fun i => lanes 8 4 (rk.getD i 0)) env.rkLt env.rkR
    (fun i _ => by rw [unlanes_lanes]; exact Nat.mod_lt _ (by decide)) _ s1' hr1 32 (Nat.le_refl _)
  have hkw : (fun i => unlanes 8 (lanes 8 4 (rk.getD i 0))) = (fun i => rk.getD i 0) := by
    funext i
    rw [unlanes_lanes]; exact Nat.mod_eq_of_lt (getD_lt rk hrkb i)
  simp only [hkw, iterN_take rk _ 32 (by omega), List.take_of_length_le (Nat.le_of_eq hrk)] at hr2
  generalize hX : (fun j => rk.foldl stepN
      (if j < 4 then blockWords (blockAt (src.take 64) j) else blockWords (blockAt ((src.drop 64).take 64) (j - 4)))) = X at hr2
  have hXe : ∀ e, e < 8 → X e = rk.foldl stepN (blockWords (blockAt src e)) := by
    intro e he
    rw [← hX]
    by_cases h4 : e < 4
    · simp only [if_pos h4, blockAt_take src e h4]
    · simp only [if_neg h4]
      rw [blockAt_drop src (e - 4) (by omega)]
      congr 4
      omega
  obtain ⟨m1, hw0, hw1⟩ := write_two64 S.mem rDst "dst" dst0
    (outBytes (X 0) ++ (outBytes (X 1) ++ (outBytes (X 2) ++ outBytes (X 3))))
    (outBytes (X 4) ++ (outBytes (X 5) ++ (outBytes (X 6) ++ outBytes (X 7)))) env.dstM env.dstLen
    (by simp only [List.length_append, outBytes_length]) (by simp only [List.length_append, outBytes_length])
  obtain ⟨s3', hrun3, hmem3⟩ := epilogue8_spec S.mem S.syms S.frame _ _ X s2' m1 _ hr2 env.dstLt hw0 hw1
  refine ⟨s3', execList_append_ok (execList_append_ok hrun1 hrun2) hrun3, ?_⟩
  rw [hmem3]
  have hs : ∀ e, e < 8 → outBytes (X e) = specBlock rk src e := by
    intro e he
    rw [hXe e he, specBlock, ← block_spec rk _ hrkb (blockAt_length8 src hsrc e he) (blockAt_lt src hsb e)]
  rw [hs 0 (by decide), hs 1 (by decide), hs 2 (by decide), hs 3 (by decide), hs 4 (by decide), hs 5 (by decide),
    hs 6 (by decide), hs 7 (by decide)]

theorem x8_decode :
    (zipDecode Gen.ListArm64Asm.cryptoBlockAsmX8 Gen.ListArm64AsmArr.cryptoBlockAsmX8_arr).toOption.map
        (fun r => r.map erasePc) = some (x8Code ++ [retI]) := by decide +kernel

theorem x8_noRet : x8Code.all (fun i => i.mn != .RET) = true := by decide +kernel

theorem run_x8 (s s' : State) (h : execList x8Code s = .ok s') :
    run Gen.ListArm64Asm.cryptoBlockAsmX8 Gen.ListArm64AsmArr.cryptoBlockAsmX8_arr s = .ok s' :=
  run_of_decode _ _ x8Code x8_decode x8_noRet s s' h

theorem ks8_env (g v rk dst0 src : List Nat) (hg : g.length = 31) (hv : v.length = 32) (hrk : rk.length = 32)
    (hsrc : src.length = 128) (hdst : dst0.length = 128) :
    X8Env (kernelState g v rk dst0 src) rk src (regionBase 3) (regionBase 5) 4 dst0 where
  hG := hg
  hV := hv
  sbox := symTab_sbox
  sb0 := read_sbox _ rfl 0 (by decide)
  sb1 := read_sbox _ rfl 1 (by decide)
  sb2 := read_sbox _ rfl 2 (by decide)
  sb3 := read_sbox _ rfl 3 (by decide)
  fSrc := frame_src
  srcLt := by decide
  srcR0 := by
    have := read_region (kernelState g v rk dst0 src).mem 5 ⟨"src", src, false⟩ 0 64 rfl (by simp only [hsrc]; omega) (by decide)
    rw [Nat.add_zero, List.drop_zero] at this
    exact this
  srcR1 := read_region (kernelState g v rk dst0 src).mem 5 ⟨"src", src, false⟩ 64 64 rfl (by simp only [hsrc]; omega) (by decide)
  fRk := frame_rk
  rkLt := by decide
  rkR := fun i hi => read_rk _ 3 rk rfl hrk i hi
  fDst := frame_dst
  dstLt := by decide
  dstM := rfl
  dstLen := hdst

/-- **the arm64 listing of `cryptoBlockAsmX8` computes the SM4 block function of the specification on each of
    its eight blocks**, for every round-key array, whatever the registers and the destination buffer hold at entry -/
theorem kernelX8_eq_spec (g v rk dst0 src : List Nat)
    (hg : g.length = 31) (hv : v.length = 32) (hrk : rk.length = 32) (hrkb : ∀ x ∈ rk, x < 2 ^ 32)
    (hsrc : src.length = 128) (hsb : ∀ x ∈ src, x < 256) (hdst : dst0.length = 128) :
    runDst Gen.ListArm64Asm.cryptoBlockAsmX8 Gen.ListArm64AsmArr.cryptoBlockAsmX8_arr (kernelState g v rk dst0 src)
      = .ok ((specBlock rk src 0 ++ (specBlock rk src 1 ++ (specBlock rk src 2 ++ specBlock rk src 3))) ++
             (specBlock rk src 4 ++ (specBlock rk src 5 ++ (specBlock rk src 6 ++ specBlock rk src 7)))) := by
  have env := ks8_env g v rk dst0 src hg hv hrk hsrc hdst
  obtain ⟨s', hrun, hmem⟩ := x8_body_generic _ rk src _ _ _ _ env hrk hrkb hsrc hsb
  unfold runDst
  rw [run_x8 _ s' hrun]
  obtain ⟨g3, v3, m3, sy3, fr3⟩ := s'
  simp only at hmem
  subst hmem
  simp only [ok_bind]
  rw [dst_after g3 v3 _ sy3 fr3 _ rfl rfl rfl _ rfl (by show (4 : Nat) < 6; decide)]
  rfl

end SMGo.Proofs.ISAValArm64

#print axioms SMGo.Proofs.ISAValArm64.kernelX8_eq_spec
