/-
  C11 (memory safety, PARTIAL): bounded tie, part Open1.  Each theorem runs the address interpreter on the
  resolved GENERATED listing for every case of the group and compares with the hand-written model
  (`decide +kernel`: kernel evaluation, no native code).  Ranges: see `SMGo.Proofs.AsmAccessCases`.
-/
import SMGo.Proofs.AsmAccessCases

namespace SMGo.Proofs.AsmAccessTie
open SMGo.Proofs.AsmAccessCases
set_option maxRecDepth 100000

theorem open_pl0 : (plGroup 0).all openCheck = true := by decide +kernel
theorem open_pl1 : (plGroup 1).all openCheck = true := by decide +kernel

end SMGo.Proofs.AsmAccessTie
