import SMGo.Proofs.ISAValFusedEnv
set_option linter.unusedSimpArgs false
namespace SMGo.Proofs.ISAVal
open SMGo.Model.ISAVal SMGo.Model.GCM SMGo.Proofs.GCM SMGo.Proofs.ISATouch
open SMGo.Model.ISA (Reg Opd Instr)

def sPreKeepG : List Nat := (List.range 16).filter (fun n => !([7, 8, 11, 12].contains n))

set_option maxRecDepth 100000 in
set_option maxHeartbeats 1000000 in
/-- `CalculateSPre` up to `withRemain` (instruction 1430): the whole blocks of the additional data -/
theorem sPre_blocks (r : Routine) (ps : PrefixSlices r) (lb : SPreLabels r) (s4 : State) (rk : List Nat) (np tp ap : Nat)
    (nonce aad : List Nat) (pc : PCtx s4) (e : FEnv s4 rk np tp ap nonce aad) (h : Nat) (gc : GhCtx h s4)
    (hab : ∀ x ∈ aad, x < 2 ^ 8) (hap : ap + aad.length < 2 ^ 63) :
    ∃ t N, N ≤ 34 * (aad.length / 16) + 13 ∧ Reach r 1353 s4 1430 t N ∧ PCtx t ∧ FEnv t rk np tp ap nonce aad ∧ GhCtx h t ∧
      vreg t 21 = (if aad.length < 16 then 0 else ghAllN h (aad.length / 16) 0 aad) ∧ vreg t 21 < 2 ^ 128 ∧
      greg t 11 = aad.length % 16 ∧ greg t 8 = ap + 16 * (aad.length / 16) ∧
      Keeps sPreKeepG (bodyKeepV 21) (List.range 8) s4 t := by
  have hG := pc.lenG
  -- the two arguments
  let sa1 := setGreg s4 8 ap
  let sa2 := setGreg sa1 7 aad.length
  have hxa : execList aadArgsCode s4 = .ok sa2 := by
    apply exec_step (a_movq_frame s4 "aData" 80 8 _ e.fAData (by rw [hG]; decide))
    apply exec_step (a_movq_frame sa1 "aLen" 88 7 _ e.fALen (by simp [sa1, hG]))
    rfl
  have ka := keeps_of_exec _ kAArgs hxa
  have ra : Reach r 1353 s4 1355 sa2 2 := reach_seg ps.aArgs (by rfl) hxa
  have pa := pc.of_keeps ka pRegs_all
  have g8 : greg sa2 8 = ap := by
    show greg (setGreg sa1 7 _) 8 = _
    rw [greg_setGreg_ne _ _ _ _ (by decide)]; exact greg_setGreg_eq s4 8 _ (by rw [hG]; decide)
  have g7 : greg sa2 7 = aad.length := greg_setGreg_eq sa1 7 _ (by simp [sa1, hG])
  -- VxTag := 0, block count and remainder, CMPQ aLen, $16
  obtain ⟨f1, hf1⟩ := alu_and15 aad.length (setGreg (setGreg (setVreg sa2 21 (map2 32 (16 / 4) (fun a b => b ^^^ a) (vreg sa2 21) (vreg sa2 21))) 12 (greg sa2 7)) 11 (greg sa2 7)).flags
  let sb1 := setVreg sa2 21 (map2 32 (16 / 4) (fun a b => b ^^^ a) (vreg sa2 21) (vreg sa2 21))
  let sb2 := setGreg sb1 12 (greg sa2 7)
  let sb3 := setGreg sb2 11 (greg sa2 7)
  let sb4 := setFlags (setGreg sb3 11 (aad.length % 16)) f1
  obtain ⟨f2, hf2⟩ := alu_shr4 aad.length sb4.flags
  let sb5 := setFlags (setGreg sb4 12 (aad.length / 16)) f2
  let sb6 := setFlags sb5 (subF 8 aad.length 16).2
  have hxb : execList sPreHeadCode sa2 = .ok sb6 := by
    apply exec_step (a_vec3 sa2 .VPXORD 16 21 21 21 _ 32 rfl rfl (by rw [pa.lenV]; decide) (by rw [pa.lenV]; decide)
      (by rw [pa.lenV]; decide) rfl)
    apply exec_step (s1 := sb2) (a_movq_rr sb1 7 12 (by simp [sb1, pa.lenG]) (by simp [sb1, pa.lenG]))
    apply exec_step (s1 := sb3) (by
      have := a_movq_rr sb2 7 11 (by simp [sb1, sb2, pa.lenG]) (by simp [sb1, sb2, pa.lenG])
      rw [show greg sb2 7 = greg sa2 7 from by
        show greg (setGreg (setVreg sa2 21 _) 12 _) 7 = _
        rw [greg_setGreg_ne _ _ _ _ (by decide), greg_setVreg]] at this
      exact this)
    apply exec_step (s1 := sb4) (a_alu_imm sb3 .ANDQ 15 11 _ f1 (by simp) (by simp [sb1, sb2, sb3, pa.lenG]) (by
      rw [show greg sb3 11 = aad.length from by
        show greg (setGreg sb2 11 _) 11 = _
        rw [greg_setGreg_eq sb2 11 _ (by simp [sb1, sb2, pa.lenG])]; exact g7]
      exact hf1))
    apply exec_step (s1 := sb5) (a_alu_imm sb4 .SHRQ 4 12 _ f2 (by simp) (by simp [sb1, sb2, sb3, sb4, pa.lenG]) (by
      rw [show greg sb4 12 = aad.length from by
        show greg (setFlags (setGreg (setGreg (setGreg sb1 12 _) 11 _) 11 _) _) 12 = _
        rw [greg_setFlags, greg_setGreg_ne _ _ _ _ (by decide), greg_setGreg_ne _ _ _ _ (by decide),
          greg_setGreg_eq sb1 12 _ (by simp [sb1, pa.lenG])]; exact g7]
      exact hf2))
    apply exec_step (s1 := sb6) (by
      have := a_cmpq_imm sb5 16 7 (by simp [sb1, sb2, sb3, sb4, sb5, pa.lenG])
      rw [show greg sb5 7 = aad.length from by
        show greg (setFlags (setGreg (setFlags (setGreg (setGreg (setGreg (setVreg sa2 21 _) 12 _) 11 _) 11 _) _) 12 _) _) 7 = _
        rw [greg_setFlags, greg_setGreg_ne _ _ _ _ (by decide), greg_setFlags, greg_setGreg_ne _ _ _ _ (by decide),
          greg_setGreg_ne _ _ _ _ (by decide), greg_setGreg_ne _ _ _ _ (by decide), greg_setVreg]; exact g7,
        show imm64 16 = 16 from by decide +kernel] at this
      exact this)
    rfl
  have kb := keeps_of_exec _ kSPreHead hxb
  have rb : Reach r 1355 sa2 1361 sb6 6 := reach_seg (ps.sPre.sub 0 sPreHeadCode sPre_head (by rw [len_sPre]; decide)) (by rfl) hxb
  have pb := pa.of_keeps kb (by decide)
  have eb := (e.of_keeps ka).of_keeps kb
  have gb := (gc.of_keeps ka ghRegs_all).of_keeps kb (by decide)
  have b21 : vreg sb6 21 = 0 := by
    show vreg (setFlags (setFlags (setGreg (setFlags (setGreg (setGreg (setGreg sb1 12 _) 11 _) 11 _) _) 12 _) _) _) 21 = _
    rw [vreg_setFlags, vreg_setFlags, vreg_setGreg, vreg_setFlags, vreg_setGreg, vreg_setGreg, vreg_setGreg,
      vreg_setVreg_eq sa2 21 _ (by rw [pa.lenV]; decide)]
    exact zero_xor 16 _
  have b8 : greg sb6 8 = ap := by rw [kb.g 8 (by decide)]; exact g8
  have b12 : greg sb6 12 = aad.length / 16 := by
    show greg (setFlags (setFlags (setGreg sb4 12 _) _) _) 12 = _
    rw [greg_setFlags, greg_setFlags, greg_setGreg_eq sb4 12 _ (by simp [sb1, sb2, sb3, sb4, pa.lenG])]
  have b11 : greg sb6 11 = aad.length % 16 := by
    show greg (setFlags (setFlags (setGreg (setFlags (setGreg sb3 11 _) _) 12 _) _) _) 11 = _
    rw [greg_setFlags, greg_setFlags, greg_setGreg_ne _ _ _ _ (by decide), greg_setFlags,
      greg_setGreg_eq sb3 11 _ (by simp [sb1, sb2, sb3, pa.lenG])]
  -- JL withRemain
  have hcnd : Model.ISAVal.cond .JLT sb6.flags = .ok (decide (aad.length < 16)) := cond_jlt aad.length 16 (by omega) (by decide)
  have rj := reach_jcc (r := r) (k := 1361) (idx := 1430) (ps.sPre.sub 6 [jcc .JLT 8544] sPre_jlt (by rw [len_sPre]; decide)) rfl lb.lRem hcnd
  have kab : Keeps sPreKeepG (bodyKeepV 21) (List.range 8) s4 sb6 :=
    (ka.mono (by decide) (by decide) (fun _ h => h)).trans (kb.mono (by decide) (by decide) (fun _ h => h))
  by_cases hlt : aad.length < 16
  · simp only [hlt, decide_true, if_true] at rj
    refine ⟨sb6, 2 + 6 + 1, by omega, ((ra.trans rb).trans rj).cast rfl rfl, pb, eb, gb, ?_, ?_, b11, ?_, kab⟩
    · rw [b21, if_pos hlt]
    · rw [b21]; decide
    · rw [b8]; omega
  · simp only [hlt, decide_false, Bool.false_eq_true, if_false] at rj
    obtain ⟨sc, N, hN, rc, gcc, v21, lt21, g8c, kc⟩ := ghLoops_reach r 1362 8 12 21 8143 8363 8544 (Or.inr (Or.inl ⟨rfl, rfl, rfl⟩))
      ((ps.sPre.sub 7 _ sPre_loops (by rw [len_sPre, ghLoops_len]; decide)).cast rfl rfl) lb.l4 lb.l1 lb.lRem h (aad.length / 16) sb6 ap 0 aad gb
      b8 b12 b21 (by decide) (by omega) (by omega) (by omega) (by omega) hab eb.dAad
    refine ⟨sc, 2 + 6 + 1 + N, by omega, (((ra.trans rb).trans rj).trans rc).cast rfl rfl, pb.of_keeps kc pRegs_body21, eb.of_keeps kc, gcc,
      ?_, lt21, ?_, g8c, kab.trans (kc.mono (by decide) (fun _ h => h) (fun _ h => h))⟩
    · rw [v21, if_neg hlt]
    · rw [kc.g 11 (by decide), b11]


theorem sPre_rem : (sPreCode.drop 75).take (remCode 8 8856 8572 8598 8623 8650 8675).length = remCode 8 8856 8572 8598 8623 8650 8675 := by
  decide +kernel
theorem rem_len (p pEnd p8 p4 p2 p1 pe : Nat) : (remCode p pEnd p8 p4 p2 p1 pe).length = 68 := rfl

/-- labels of the tail copy of `CalculateSPre` -/
structure SPreCopyLabels (r : Routine) : Prop where
  c8 : findPc r 8572 = some (r.drop 1435)
  c4 : findPc r 8598 = some (r.drop 1443)
  c2 : findPc r 8623 = some (r.drop 1451)
  c1 : findPc r 8650 = some (r.drop 1459)
  ce : findPc r 8675 = some (r.drop 1467)

def phaseAKeepG : List Nat := (List.range 16).filter (fun n => !([1, 2, 6, 7, 8, 11, 12].contains n))

set_option maxRecDepth 100000 in
set_option maxHeartbeats 1000000 in
/-- **phase 5: GHASH of the additional data**, any length: whole blocks, then the zero-padded remainder through the scratch block -/
theorem phaseA (r : Routine) (ps : PrefixSlices r) (lb : SPreLabels r) (lc : SPreCopyLabels r) (s4 : State) (rk : List Nat) (np tp ap : Nat)
    (nonce aad : List Nat) (pc : PCtx s4) (e : FEnv s4 rk np tp ap nonce aad) (h : Nat) (gc : GhCtx h s4)
    (Mf : List Nat → List Region) (mf : MemFam Mf tp rk np ap nonce aad) (b4 : List Nat) (hb4 : b4.length = 32) (hm4 : s4.mem = Mf b4)
    (toff : Nat) (hto : toff = 0 ∨ toff = 16) (h6 : greg s4 6 = tp + toff) (htp : tp + 32 < 2 ^ 63)
    (hab : ∀ x ∈ aad, x < 2 ^ 8) (hap : ap + aad.length < 2 ^ 63) :
    ∃ s5 N b5, N ≤ 34 * (aad.length / 16) + 140 ∧ Reach r 1353 s4 1499 s5 N ∧ s5.mem = Mf b5 ∧ b5.length = 32 ∧ PCtx s5 ∧
      FEnv s5 rk np tp ap nonce aad ∧ GhCtx h s5 ∧ vreg s5 21 = ghUpdN h 0 aad ∧ vreg s5 21 < 2 ^ 128 ∧
      greg s5 6 = (if aad.length % 16 = 0 then tp + toff else tp + toff + 16) ∧
      KeepsM phaseAKeepG (bodyKeepV 21) (List.range 8) s4 s5 := by
  obtain ⟨t, N1, hN1, r1, pt, et, gt, v21, lt21, g11, g8, kt⟩ := sPre_blocks r ps lb s4 rk np tp ap nonce aad pc e h gc hab hap
  have hmt : t.mem = Mf b4 := by rw [kt.mem]; exact hm4
  obtain ⟨s5, N2, b5, hN2, r2, m5, hb5, g5, v5, lt5, g56, k5⟩ := rem_reach r 1430 8 8856 8572 8598 8623 8650 8675 (Or.inl rfl)
    ((ps.sPre.sub 75 _ sPre_rem (by rw [len_sPre, rem_len]; decide)).cast rfl rfl) lb.lEnd lc.c8 lc.c4 lc.c2 lc.c1 lc.ce Mf tp mf.buf aad ap
    (fun b hb => (mf.env b hb).dAad) hab htp hap h t b4 (16 * (aad.length / 16)) toff (aad.length % 16) _ hto gt hb4 hmt g11
    (by omega) g8 (by rw [kt.g 6 (by decide)]; exact h6) (by omega) rfl lt21
  have r3 : Reach r 1498 s5 1499 s5 1 := reach_seg (ps.sPre.sub 143 [ins .NOP [] 0] sPre_nop (by rw [len_sPre]; decide)) (by rfl) (by rfl)
  have kAll : KeepsM phaseAKeepG (bodyKeepV 21) (List.range 8) s4 s5 :=
    (kt.toM.mono (by decide) (fun _ h => h) (fun _ h => h)).trans (k5.mono (by decide) (fun _ h => h) (fun _ h => h))
  refine ⟨s5, N1 + N2 + 1, b5, by omega, ((r1.trans r2).trans r3).cast rfl rfl, m5, hb5, pc.of_keepsM kAll pRegs_body21,
    e.remem (by rw [m5]; exact mf.env b5 hb5) kAll.syms kAll.frame, g5, ?_, lt5, g56, kAll⟩
  rw [v5, v21]
  unfold ghUpdN
  by_cases h0 : aad.length % 16 = 0
  · rw [if_pos h0, if_pos h0]
  · rw [if_neg h0, if_neg h0]
    congr 4
    rw [List.take_of_length_le (by rw [List.length_drop]; omega)]

end SMGo.Proofs.ISAVal
