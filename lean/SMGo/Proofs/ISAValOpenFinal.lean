import SMGo.Proofs.ISAValOpenModel
import SMGo.Proofs.ISAValSealAny
set_option linter.unusedSimpArgs false
namespace SMGo.Proofs.ISAVal
open SMGo SMGo.Model.ISAVal SMGo.Model.GCM SMGo.Proofs.GCM SMGo.Spec.GCM SMGo.Proofs.ISATouch
open SMGo.Model.ISA (Reg Opd Instr)

theorem lookup_ret (cp t : Nat) (nonce ct aad : List Nat) (v : Nat) : lookup (openFrame cp t nonce ct aad v) "ret1" = some v := by
  simp [openFrame, lookup]

theorem open_j0Labels : J0Labels openR :=
  ⟨label_findPc open_labels (name := "J0.loopBy4") (by decide), label_findPc open_labels (name := "J0.loopBy1") (by decide),
   label_findPc open_labels (name := "J0.last") (by decide), label_findPc open_labels (name := "J0.copy8") (by decide),
   label_findPc open_labels (name := "J0.copy4") (by decide), label_findPc open_labels (name := "J0.copy2") (by decide),
   label_findPc open_labels (name := "J0.copy1") (by decide), label_findPc open_labels (name := "J0.copyEnd") (by decide),
   label_findPc open_labels (name := "J0.doneJ0") (by decide), label_findPc open_labels (name := "J0.endJ0") (by decide)⟩

/-- **`openAsm`, instructions 0 … 1498, on its entry state**, for ANY nonce and any additional data -/
theorem open_prefix_any (g v k rk : List Nat) (t : Nat) (dst nonce ct aad tmp : List Nat) (r0 : Nat)
    (hG : g.length = 16) (hV : v.length = 32) (hK : k.length = 8) (hrk : rk.length = 32) (hrkb : ∀ x ∈ rk, x < 2 ^ 32)
    (hnl : nonce.length < 2 ^ 32) (hnb : ∀ x ∈ nonce, x < 2 ^ 8) (hab : ∀ x ∈ aad, x < 2 ^ 8) (hall : aad.length < 2 ^ 32)
    (htmp : tmp.length = 32) :
    ∃ s5 N, N ≤ 34 * (nonce.length / 16) + 34 * (aad.length / 16) + 1700 ∧
      Reach openR 0 (openState g v k rk t dst nonce ct aad tmp r0) 1499 s5 N ∧
      AfterPre (fun b => fmem "cipher" false rk dst nonce ct aad b) rk nonce aad (j0N rk nonce)
        81604378624 94489280512 90194313216 s5 ∧ s5.frame = (openState g v k rk t dst nonce ct aad tmp r0).frame := by
  have e := fenv_of (openState g v k rk t dst nonce ct aad tmp r0) "cipher" false rk dst nonce ct aad tmp (open_mem ..) (open_syms ..)
    (by simp [openState, mkState, lookup]; rfl) (by simp [openState, mkState, lookup]; rfl) (by simp [openState, mkState, lookup])
    (by simp [openState, mkState, lookup]; rfl) (by simp [openState, mkState, lookup]; rfl) (by simp [openState, mkState, lookup])
    hrk hnl hall
  exact prefix_any openR open_prefix_slices ⟨open_lJ, open_sPreLabels, open_copyLabels⟩ open_j0Labels _ hG hV hK rk nonce aad _ _ _ e _
    (memFam_fmem "cipher" false rk dst nonce ct aad hrk hnl hall) tmp htmp (open_mem ..) hrk hrkb hnb (by omega) (by omega) hab
    (by omega) (by decide)

/-- **`openAsm` = SP 800-38D Algorithm 5 (GCM-AD) over SM4, for EVERY nonce length**: run from its entry state the listing returns;
    if the specification rejects (tag mismatch) the result slot is 0 and the destination is UNTOUCHED; otherwise the result slot
    is 1 and the destination starts with the plaintext (the rest of the destination keeps its old contents) -/
theorem openAsm_run (g v k rk : List Nat) (t : Nat) (dst nonce ct aad tmp : List Nat) (r0 : Nat)
    (hG : g.length = 16) (hV : v.length = 32) (hK : k.length = 8) (hrk : rk.length = 32) (hrkb : ∀ x ∈ rk, x < 2 ^ 32)
    (hnl : nonce.length < 2 ^ 32) (hnb : ∀ x ∈ nonce, x < 2 ^ 8) (hab : ∀ x ∈ aad, x < 2 ^ 8) (hall : aad.length < 2 ^ 32)
    (hcb : ∀ x ∈ ct, x < 2 ^ 8) (hcl : ct.length < 2 ^ 32) (ht : t ≤ 16) (htc : t ≤ ct.length) (htmp : tmp.length = 32)
    (hdl : ct.length - t ≤ dst.length) (hdl32 : dst.length < 2 ^ 32) (fuel : Nat)
    (hfuel : 34 * (nonce.length / 16) + 34 * (aad.length / 16) + 34 * ((ct.length - t) / 16) + 700 * ((ct.length - t) / 256) + 7000 < fuel) :
    runOpen fuel (openState g v k rk t dst nonce ct aad tmp r0)
      = .ok (match openGCM (encE rk) t (toB nonce) (toB ct) (toB aad) with
             | some p => (1, spliceAt dst 0 (p.map (·.toNat)))
             | none => (0, dst)) := by
  obtain ⟨s5, N5, hN5, r5, ap, hf5⟩ := open_prefix_any g v k rk t dst nonce ct aad tmp r0 hG hV hK hrk hrkb hnl hnb hab hall htmp
  obtain ⟨s9, N9, hN9, r9, av⟩ := open_verdict_after g v k rk t dst nonce ct aad tmp r0 hrk hnl hall hcb hcl ht htc _ s5 ap hf5
  obtain ⟨s', N, hN, r1, hres⟩ := open_after_verdict g v k rk t dst nonce ct aad tmp r0 hrk hrkb hcb hcl ht htc hdl hdl32 _
    (j0N_length rk nonce) (j0N_bytes rk nonce hnb) s9 av ((ct.length - t) / 16 + 1) (fuelNeed_le16 _)
  have sRet : Slice openR (5556 + 2) [ins .RET [] 0] := Slice.right (a := [_, _]) (b := [_]) open_slices'.fin
  have hrun := run_of_reach ((r5.trans r9).trans r1) sRet fuel (by omega)
  have hmod := open_modelJ rk (j0N rk nonce) nonce ct aad t ((ct.length - t) / 16 + 1) (j0N_length rk nonce) (j0N_bytes rk nonce hnb)
    (j0N_model rk nonce hnb) hcb hab ht htc (fuelNeed_le16 _)
  rw [open_eq_spec (encE_length rk)] at hmod
  unfold runOpen run
  rw [openR_ok]
  simp only [bind, Except.bind]
  rw [hrun, hmod]
  by_cases h0 : orBytes (xorN ((openTagJ rk (j0N rk nonce) ct aad t).take t) (ct.drop (ct.length - t))) = 0
  · rw [if_pos h0] at hres ⊢
    simp only [hres.1, hres.2, lookup_ret]
    have hb : ∀ x ∈ openOutJ rk (j0N rk nonce) ct t ((ct.length - t) / 16 + 1), x < 2 ^ 8 :=
      ladN_bytes _ _ _ _ _ _ _ _ (fun x hx => hcb x (List.mem_of_mem_take hx))
    rw [toNat_toB _ hb]
    rfl
  · rw [if_neg h0] at hres ⊢
    simp only [hres.1, hres.2, lookup_ret]
    rfl

end SMGo.Proofs.ISAVal
#print axioms SMGo.Proofs.ISAVal.openAsm_run
