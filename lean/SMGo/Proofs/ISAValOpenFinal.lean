import SMGo.Proofs.ISAValOpenModel
set_option linter.unusedSimpArgs false
namespace SMGo.Proofs.ISAVal
open SMGo SMGo.Model.ISAVal SMGo.Model.GCM SMGo.Proofs.GCM SMGo.Spec.GCM SMGo.Proofs.ISATouch
open SMGo.Model.ISA (Reg Opd Instr)

theorem lookup_ret (t : Nat) (nonce ct aad : List Nat) (v : Nat) : lookup (openFrame t nonce ct aad v) "ret1" = some v := by
  simp [openFrame, lookup]

/-- **`openAsm` = SP 800-38D Algorithm 5 (GCM-AD) over SM4, for 12-byte nonces**: run from its entry state the listing returns; if
    the specification rejects (tag mismatch) the result slot is 0 and the destination is UNTOUCHED; otherwise the result slot is 1
    and the destination starts with the plaintext (the rest of the destination keeps its old contents) -/
theorem openAsm_run12 (g v k rk : List Nat) (t : Nat) (dst nonce ct aad tmp : List Nat) (r0 : Nat)
    (hG : g.length = 16) (hV : v.length = 32) (hK : k.length = 8) (hrk : rk.length = 32) (hrkb : ∀ x ∈ rk, x < 2 ^ 32)
    (hn : nonce.length = 12) (hnb : ∀ x ∈ nonce, x < 2 ^ 8) (hab : ∀ x ∈ aad, x < 2 ^ 8) (hall : aad.length < 2 ^ 32)
    (hcb : ∀ x ∈ ct, x < 2 ^ 8) (hcl : ct.length < 2 ^ 32) (ht : t ≤ 16) (htc : t ≤ ct.length) (htmp : tmp.length = 32)
    (hdl : ct.length - t ≤ dst.length) (hdl32 : dst.length < 2 ^ 32) (fuel : Nat)
    (hfuel : 34 * (aad.length / 16) + 34 * ((ct.length - t) / 16) + 700 * ((ct.length - t) / 256) + 6500 < fuel) :
    runOpen fuel (openState g v k rk t dst nonce ct aad tmp r0)
      = .ok (match openGCM (encE rk) t (toB nonce) (toB ct) (toB aad) with
             | some p => (1, spliceAt dst 0 (p.map (·.toNat)))
             | none => (0, dst)) := by
  obtain ⟨s', N, hN, r1, hres⟩ := open_reach12 g v k rk t dst nonce ct aad tmp r0 hG hV hK hrk hrkb hn hnb hab hall hcb hcl ht htc htmp hdl hdl32
    ((ct.length - t) / 16 + 1) (fuelNeed_le16 _)
  have sRet : Slice openR (5556 + 2) [ins .RET [] 0] := Slice.right (a := [_, _]) (b := [_]) open_slices'.fin
  have hrun := run_of_reach r1 sRet fuel (by omega)
  have hmod := open_model12 rk nonce ct aad t ((ct.length - t) / 16 + 1) hn hnb hcb hab ht htc (fuelNeed_le16 _)
  rw [open_eq_spec (encE_length rk)] at hmod
  unfold runOpen run
  rw [openR_ok]
  simp only [bind, Except.bind]
  rw [hrun, hmod]
  by_cases h0 : orBytes (xorN ((openTagN rk nonce ct aad t).take t) (ct.drop (ct.length - t))) = 0
  · rw [if_pos h0] at hres ⊢
    simp only [hres.1, hres.2, lookup_ret]
    have hb : ∀ x ∈ openOutN rk nonce ct t ((ct.length - t) / 16 + 1), x < 2 ^ 8 :=
      ladN_bytes _ _ _ _ _ _ _ _ (fun x hx => hcb x (List.mem_of_mem_take hx))
    rw [toNat_toB _ hb]
    rfl
  · rw [if_neg h0] at hres ⊢
    simp only [hres.1, hres.2, lookup_ret]
    rfl

end SMGo.Proofs.ISAVal
#print axioms SMGo.Proofs.ISAVal.openAsm_run12
