/-
  Lemmas for property C14: the comb `scalarBaseMult_SkipBitExtration` computes `[k]G`
  for any scheme `w`-`s`-`it`-`r` with `w*s*it + r = 256`, `w ≤ 8`, `r ≤ 4`.
-/
import SMGo.Proofs.CurveSem
namespace SMGo.Proofs.CurveBase
open SMGo SMGo.Model.Curve SMGo.Proofs.CurveBits SMGo.Proofs.CurveSem

variable {Γ : Type} {A : Type} [AddCommGroup A]
variable {G : GOps Γ} {ok : Γ → Prop} {okXY : List Nat → List Nat → Prop} {sem : Γ → A}

/-- every bit position the comb reads lies inside the scalar -/
theorem pos_lt (w s it r i j t : Nat) (hi : i < it) (hj : j < s) (ht : t < w) :
    t * (s * it) + (i + j * it + r) < w * s * it + r := by
  have h1 : i + j * it < s * it := by
    have : (j + 1) * it ≤ s * it := Nat.mul_le_mul_right it hj
    rw [Nat.succ_mul] at this
    omega
  have h2 : (t + 1) * (s * it) ≤ w * (s * it) := Nat.mul_le_mul_right (s * it) ht
  rw [Nat.succ_mul] at h2
  rw [Nat.mul_assoc w s it]
  omega

theorem two_pow_le_256 (w : Nat) (hw : w ≤ 8) : 2 ^ w ≤ 256 := by
  have : 2 ^ w ≤ 2 ^ 8 := Nat.pow_le_pow_right (by decide) hw
  simpa using this

/-- selecting from sub-table `j` with an extracted pattern `bits < 2^w` -/
theorem select_sub (S : Sem G ok okXY sem) {g : A} {first : List Table} {w s it r : Nat}
    (T : TableValid G okXY sem g first w s it r) (hw : w ≤ 8) (j : Nat) (hj : j < s)
    (bits : Nat) (hb : bits < 2 ^ w) :
    ∃ q, G.selectXY (first.getD j []) (2 ^ w - 1) bits = .ok q ∧ ok q ∧
      sem q = combMultiplier w s it r j bits • g := by
  have h256 := two_pow_le_256 w hw
  obtain ⟨q, e, hq, hs⟩ := S.selectXY (first.getD j []) (2 ^ w - 1) bits (T.lenX j hj) (T.lenY j hj)
    (T.wf j hj) (by omega) (by omega)
  refine ⟨q, e, hq, ?_⟩
  rw [hs]
  by_cases h0 : bits = 0
  · rw [if_pos h0, h0, combMultiplier_zero, zero_nsmul]
  · rw [if_neg h0]
    exact T.val j hj bits (by omega) hb

/-- the inner `for j` loop at iteration `i` adds `combRow i` times the generator -/
theorem combInner_spec (S : Sem G ok okXY sem) {g : A} {first : List Table} {w s it r : Nat}
    (T : TableValid G okXY sem g first w s it r) (hw : w ≤ 8) (hsum : w * s * it + r = 256)
    (k : Bytes) (hk : k.length = 32) (i : Nat) (hi : i < it) (st : Γ × Bool) (v : A)
    (h : Inv ok sem st v) :
    ∃ st', combInner G k first w s it r i st = .ok st' ∧
      Inv ok sem st' (v + combRow (Bytes.toNatBE k) w s it r i • g) := by
  unfold combInner combRow
  refine foldlM_range_inv _
    (fun m st' => Inv ok sem st' (v + sumN m (fun j => combMultiplier w s it r j
        (combDigit (Bytes.toNatBE k) w (s * it) (i + j * it + r))) • g)) s st
    (by simpa using h) ?_
  intro j st1 hj h1
  have hx := extractHigherBits_eq k hk (i + j * it + r) w (s * it) hw
    (fun t ht => by have := pos_lt w s it r i j t hi hj ht; omega)
  obtain ⟨q, e, hq, hs⟩ := select_sub S T hw j hj _ (combDigit_lt (Bytes.toNatBE k) w (s * it) (i + j * it + r))
  obtain ⟨ret, skip⟩ := st1
  simp only [hx, Outcome.bind_ok, e]
  have h2 := inv_add_or_set S (ret, skip) _ h1 q hq
  rw [hs, add_assoc, ← add_nsmul] at h2
  cases skip <;> exact ⟨_, rfl, h2⟩

/-- the main loop: after all iterations the accumulator is `Σ_i 2^i · combRow i` times `g` -/
theorem combLoop_spec (S : Sem G ok okXY sem) {g : A} {first : List Table} {w s it r : Nat}
    (T : TableValid G okXY sem g first w s it r) (hw : w ≤ 8) (hsum : w * s * it + r = 256)
    (k : Bytes) (hk : k.length = 32) :
    ∃ st', (List.range it).foldlM (fun (st : Γ × Bool) ii => do
        let i := it - 1 - ii
        let st := if !st.2 then (G.double st.1, st.2) else st
        combInner G k first w s it r i st) (G.infinity, true) = .ok st' ∧
      ok st'.1 ∧ sem st'.1 = sumN it (fun i => 2 ^ i * combRow (Bytes.toNatBE k) w s it r i) • g := by
  obtain ⟨st', e, a, hinv, ha⟩ := foldlM_range_inv
    (fun (st : Γ × Bool) ii => do
        let i := it - 1 - ii
        let st := if !st.2 then (G.double st.1, st.2) else st
        combInner G k first w s it r i st)
    (fun m st' => ∃ a : Nat, Inv ok sem st' (a • g) ∧
      a * 2 ^ (it - m) + sumN (it - m) (fun i => 2 ^ i * combRow (Bytes.toNatBE k) w s it r i)
        = sumN it (fun i => 2 ^ i * combRow (Bytes.toNatBE k) w s it r i))
    it (G.infinity, true)
    ⟨0, by rw [zero_nsmul]; exact inv_init S, by simp⟩
    (by
      intro m st1 hm ⟨a, h1, ha⟩
      have h2 := inv_double S st1 _ h1
      obtain ⟨st2, e2, h3⟩ := combInner_spec S T hw hsum k hk (it - 1 - m) (by omega) _ _ h2
      refine ⟨st2, e2, a + a + combRow (Bytes.toNatBE k) w s it r (it - 1 - m), ?_, ?_⟩
      · rw [add_nsmul, add_nsmul]; exact h3
      · rw [← ha]
        have e1 : it - m = (it - 1 - m) + 1 := by omega
        have e3 : it - (m + 1) = it - 1 - m := by omega
        rw [e1, e3, sumN_succ, Nat.pow_succ]
        generalize 2 ^ (it - 1 - m) = P
        generalize combRow (Bytes.toNatBE k) w s it r (it - 1 - m) = R
        generalize sumN (it - 1 - m) _ = Q
        rw [Nat.add_mul, Nat.add_mul, ← Nat.mul_assoc, Nat.mul_comm P R]
        omega)
  refine ⟨st', e, hinv.1, ?_⟩
  rw [hinv.2.1]
  simp only [Nat.sub_self, Nat.pow_zero, Nat.mul_one, sumN_zero, Nat.add_zero] at ha
  rw [ha]

/-- the remainder step: selecting `[k mod 2^r] g` from the second table -/
theorem select_remainder (S : Sem G ok okXY sem) {g : A} {second : Table} {r : Nat}
    (R : RemainderValid G okXY sem g second r) (hr : r ≤ 4) (bits : Nat) (hb : bits < 2 ^ r) :
    ∃ q, G.selectXY second ((second.getD 0 []).length) bits = .ok q ∧ ok q ∧ sem q = bits • g := by
  have h16 : 2 ^ r ≤ 2 ^ 4 := Nat.pow_le_pow_right (by decide) hr
  obtain ⟨q, e, hq, hs⟩ := S.selectXY second ((second.getD 0 []).length) bits rfl
    (by rw [R.lenY, R.lenX]) (by rw [R.lenX]; exact R.wf) (by rw [R.lenX]; omega) (by rw [R.lenX]; omega)
  refine ⟨q, e, hq, ?_⟩
  rw [hs]
  by_cases h0 : bits = 0
  · rw [if_pos h0, h0, zero_nsmul]
  · rw [if_neg h0]
    exact R.val bits (by omega) hb

theorem scalarBaseMult_spec (S : Sem G ok okXY sem) {g : A} {first : List Table} {second : Table}
    {w s it r : Nat} (hw : w ≤ 8) (hr : r ≤ 4) (hsum : w * s * it + r = 256)
    (T : TableValid G okXY sem g first w s it r)
    (R : 1 ≤ r → RemainderValid G okXY sem g second r)
    (k : Bytes) (hk : k.length = 32) :
    ∃ q, scalarBaseMult G k first second w s it r = .ok q ∧ ok q ∧ sem q = Bytes.toNatBE k • g := by
  have hs0 : 0 < s := by
    rcases Nat.eq_zero_or_pos s with h | h
    · subst h; simp at hsum; omega
    · exact h
  have hlen : ((first.getD 0 []).getD 0 []).length = 2 ^ w - 1 := T.lenX 0 hs0
  obtain ⟨st', e, hok, hsem⟩ := combLoop_spec S T hw hsum k hk
  have hpart := comb_partition (Bytes.toNatBE k) w s it r (by rw [hsum]; exact toNatBE_lt_256 k hk)
  unfold scalarBaseMult
  rw [if_neg (by omega), if_neg (by omega), if_neg (by rw [hlen]; exact fun h => h rfl),
    if_neg (by rw [hk]; exact fun h => h rfl)]
  simp only [e, Outcome.bind_ok]
  by_cases hr1 : r ≥ 1
  · rw [if_pos hr1]
    rw [extractLowerBits_eq k hk r (by omega)]
    obtain ⟨q, eq, hq, hsq⟩ := select_remainder S (R hr1) hr (Bytes.toNatBE k % 2 ^ r)
      (Nat.mod_lt _ (Nat.pow_pos (by decide)))
    simp only [Outcome.bind_ok, eq, Outcome.pure_eq]
    obtain ⟨a1, a2⟩ := S.add st'.1 q hok hq
    refine ⟨_, rfl, a1, ?_⟩
    rw [a2, hsem, hsq, ← add_nsmul, hpart]
  · rw [if_neg hr1]
    refine ⟨_, rfl, hok, ?_⟩
    have : r = 0 := by omega
    subst this
    rw [hsem]
    simp only [Nat.pow_zero, Nat.mod_one, Nat.add_zero] at hpart
    rw [hpart]

/-- any other scalar length is a returned error (for a well-formed scheme and first table) -/
theorem scalarBaseMult_len_err (G : GOps Γ) (first : List Table) (second : Table) (w s it r : Nat)
    (hw : w ≤ 8) (hr : r ≤ 4) (hsum : w * s * it + r = 256)
    (hlen : ((first.getD 0 []).getD 0 []).length = 2 ^ w - 1)
    (k : Bytes) (hk : k.length ≠ 32) :
    scalarBaseMult G k first second w s it r = .err := by
  unfold scalarBaseMult
  rw [if_neg (by omega), if_neg (by omega), if_neg (by rw [hlen]; exact fun h => h rfl), if_pos hk]

end SMGo.Proofs.CurveBase
