/-
  Soundness of the CT-IR label checker (SMGo/Model/CTIR.lean): a checked function, run twice on
  inputs that agree on the public parameters and have secret parameters of the same shape, produces
  the same leakage trace — unless the two runs differ in a declassified verdict, in which case the
  traces agree up to the first differing verdict.

  The interpreter is total (`Ctl.stuck` with the trace so far), so the main invariant is a LOCKSTEP
  statement: two runs with the same fuel, without any termination hypothesis (`exec_lockstep`,
  `check_lockstep`).  Consequences: whether a run completes within a given fuel is itself a public
  property up to declassified verdicts (`check_progress`, `check_progress_verdicts`), and, with
  monotonicity in the fuel (`exec_mono`), the statement about two completed runs with arbitrary fuels
  (`check_sound`, `check_sound_trace`).
-/
import SMGo.Model.CTIR

namespace SMGo.Model.CTIR

/-- agreement of two values at a label: public values are equal, secret values have the same shape -/
def lowEqV : Label → Val → Val → Prop
  | .L, a, b => a = b
  | .H, a, b => a.erase = b.erase

def lowEqList : List Label → List Val → List Val → Prop
  | [], [], [] => True
  | l :: ls, a :: as, b :: bs => lowEqV l a b ∧ lowEqList ls as bs
  | _, _, _ => False

def lowEqEnv (Γ : LEnv) (e1 e2 : Env) : Prop := ∀ x, lowEqV (Γ.get x) (e1 x) (e2 x)

/-- the two external worlds of the two runs: the same call (same name, same arguments) gives results
    that agree at the declared labels; and for an external whose results are all secret (the only ones
    the checker lets be called without leaking their arguments) calls with arguments of the same
    shape give results of the same shape -/
def OracleRel (S : Sigs) (X1 X2 : Oracle) : Prop :=
  (∀ name a, lowEqList (S.ext.getD name []) (X1 name a) (X2 name a)) ∧
  (∀ name a1 a2, allH (S.ext.getD name []) = true → a1.map Val.erase = a2.map Val.erase →
      (X1 name a1).map Val.erase = (X2 name a2).map Val.erase)

/-- the traces diverge at a declassified verdict: common prefix, then the same site with two
    different values -/
def Div (t1 t2 : Trace) : Prop :=
  ∃ p s v1 v2 r1 r2, v1 ≠ v2 ∧ t1 = p ++ Event.declass s v1 :: r1 ∧ t2 = p ++ Event.declass s v2 :: r2

def CtlRel (res : List Label) : Ctl → Ctl → Prop
  | .norm, .norm => True
  | .brk, .brk => True
  | .cont, .cont => True
  | .panic, .panic => True
  | .stuck, .stuck => True
  | .ret v1, .ret v2 => lowEqList res v1 v2
  | _, _ => False


/-! ## Shapes -/

theorem erase_arr (l : List Val) : (Val.arr l).erase = .arr (l.map Val.erase) := by
  simp [Val.erase]

theorem erase_int (n : Int) : (Val.int n).erase = .int 0 := by
  simp [Val.erase]

theorem eraseL_of_arr {l1 l2 : List Val} (h : (Val.arr l1).erase = (Val.arr l2).erase) :
    l1.map Val.erase = l2.map Val.erase := by
  rw [erase_arr, erase_arr] at h
  exact Val.arr.inj h

theorem arr_of_eraseL {l1 l2 : List Val} (h : l1.map Val.erase = l2.map Val.erase) :
    (Val.arr l1).erase = (Val.arr l2).erase := by
  rw [erase_arr, erase_arr, h]

theorem eraseL_getElem? {l1 l2 : List Val} (h : l1.map Val.erase = l2.map Val.erase) (k : Nat)
    {v1 v2 : Val} (h1 : l1[k]? = some v1) (h2 : l2[k]? = some v2) : v1.erase = v2.erase := by
  have h3 : (l1.map Val.erase)[k]? = (l2.map Val.erase)[k]? := by rw [h]
  simp only [List.getElem?_map, h1, h2, Option.map_some] at h3
  exact Option.some.inj h3

theorem eraseL_getIdx {l1 l2 : List Val} (h : l1.map Val.erase = l2.map Val.erase) (n : Int)
    {v1 v2 : Val} (h1 : getIdx l1 n = some v1) (h2 : getIdx l2 n = some v2) : v1.erase = v2.erase := by
  unfold getIdx at h1 h2
  split at h1
  · cases h1
  · rename_i hn
    rw [if_neg hn] at h2
    exact eraseL_getElem? h _ h1 h2

theorem eraseL_slice {l1 l2 : List Val} (h : l1.map Val.erase = l2.map Val.erase) (n m : Int)
    {r1 r2 : List Val} (h1 : sliceList l1 n m = some r1) (h2 : sliceList l2 n m = some r2) :
    r1.map Val.erase = r2.map Val.erase := by
  unfold sliceList at h1 h2
  split at h1
  · cases h1
  · split at h2
    · cases h2
    · cases h1; cases h2
      simp only [List.map_take, List.map_drop, h]

theorem erase_updPath : ∀ (ks : List Nat) (o1 o2 v1 v2 n1 n2 : Val), o1.erase = o2.erase →
    v1.erase = v2.erase → updPath o1 ks v1 = some n1 → updPath o2 ks v2 = some n2 →
    n1.erase = n2.erase := by
  intro ks
  induction ks with
  | nil =>
    intro o1 o2 v1 v2 n1 n2 _ hv h1 h2
    rw [updPath] at h1 h2
    cases h1; cases h2; exact hv
  | cons k ks ih =>
    intro o1 o2 v1 v2 n1 n2 ho hv h1 h2
    cases o1 with
    | int a => rw [updPath] at h1; cases h1
    | arr l1 =>
      cases o2 with
      | int b => rw [updPath] at h2; cases h2
      | arr l2 =>
        have hl := eraseL_of_arr ho
        rw [updPath] at h1 h2
        cases hk1 : l1[k]? with
        | none => simp [hk1] at h1
        | some a1 =>
          cases hk2 : l2[k]? with
          | none => simp [hk2] at h2
          | some a2 =>
            simp only [hk1, hk2] at h1 h2
            cases hu1 : updPath a1 ks v1 with
            | none => simp [hu1] at h1
            | some m1 =>
              cases hu2 : updPath a2 ks v2 with
              | none => simp [hu2] at h2
              | some m2 =>
                simp only [hu1, hu2, Option.some.injEq] at h1 h2
                subst h1; subst h2
                have hm := ih a1 a2 v1 v2 m1 m2 (eraseL_getElem? hl k hk1 hk2) hv hu1 hu2
                apply arr_of_eraseL
                rw [List.map_set, List.map_set, hl, hm]

/-! ## Agreement at a label -/

theorem lowEqV_refl (l : Label) (a : Val) : lowEqV l a a := by
  cases l <;> rfl

theorem lowEqV_erase {l : Label} {a b : Val} (h : lowEqV l a b) : a.erase = b.erase := by
  cases l
  · have : a = b := h
    rw [this]
  · exact h

theorem lowEqV_mono {l1 l2 : Label} {a b : Val} (hle : l1.le l2 = true) (h : lowEqV l1 a b) :
    lowEqV l2 a b := by
  cases l2
  · cases l1
    · exact h
    · simp [Label.le] at hle
  · exact lowEqV_erase h

theorem join_eq_L {la lb : Label} (h : la.join lb = .L) : la = .L ∧ lb = .L := by
  cases la <;> cases lb <;> simp [Label.join] at h ⊢

theorem lowEqV_int {l : Label} {a b : Int} (h : l = .L → a = b) : lowEqV l (.int a) (.int b) := by
  cases l
  · have := h rfl
    subst this; rfl
  · show (Val.int a).erase = (Val.int b).erase
    rw [erase_int, erase_int]

theorem lowEqV_L_int {a b : Int} (h : lowEqV .L (.int a) (.int b)) : a = b :=
  Val.int.inj h

theorem lowEqV_L_arr {a b : List Val} (h : lowEqV .L (.arr a) (.arr b)) : a = b :=
  Val.arr.inj h

theorem lowEqV_getElem? {l : Label} {l1 l2 : List Val} (h : lowEqV l (.arr l1) (.arr l2)) (k : Nat)
    {v1 v2 : Val} (h1 : l1[k]? = some v1) (h2 : l2[k]? = some v2) : lowEqV l v1 v2 := by
  cases l
  · have := lowEqV_L_arr h
    subst this
    exact Option.some.inj (h1.symm.trans h2)
  · exact eraseL_getElem? (eraseL_of_arr h) k h1 h2

theorem lowEqV_getIdx {l : Label} {l1 l2 : List Val} (h : lowEqV l (.arr l1) (.arr l2)) (n : Int)
    {v1 v2 : Val} (h1 : getIdx l1 n = some v1) (h2 : getIdx l2 n = some v2) : lowEqV l v1 v2 := by
  cases l
  · have := lowEqV_L_arr h
    subst this
    exact Option.some.inj (h1.symm.trans h2)
  · exact eraseL_getIdx (eraseL_of_arr h) n h1 h2

theorem lowEqV_slice {l : Label} {l1 l2 : List Val} (h : lowEqV l (.arr l1) (.arr l2)) (n m : Int)
    {r1 r2 : List Val} (h1 : sliceList l1 n m = some r1) (h2 : sliceList l2 n m = some r2) :
    lowEqV l (.arr r1) (.arr r2) := by
  cases l
  · have := lowEqV_L_arr h
    subst this
    have := Option.some.inj (h1.symm.trans h2)
    subst this; rfl
  · exact arr_of_eraseL (eraseL_slice (eraseL_of_arr h) n m h1 h2)

theorem lowEqV_replicate {l : Label} {v1 v2 : Val} (h : lowEqV l v1 v2) (k : Nat) :
    lowEqV l (.arr (List.replicate k v1)) (.arr (List.replicate k v2)) := by
  cases l
  · have : v1 = v2 := h
    subst this; rfl
  · apply arr_of_eraseL
    have : v1.erase = v2.erase := h
    rw [List.map_replicate, List.map_replicate, this]

theorem lowEqV_cat {la lb : Label} {a1 a2 b1 b2 : List Val} (ha : lowEqV la (.arr a1) (.arr a2))
    (hb : lowEqV lb (.arr b1) (.arr b2)) : lowEqV (la.join lb) (.arr (a1 ++ b1)) (.arr (a2 ++ b2)) := by
  cases hj : la.join lb
  · obtain ⟨rfl, rfl⟩ := join_eq_L hj
    have h1 := lowEqV_L_arr ha
    have h2 := lowEqV_L_arr hb
    subst h1; subst h2; rfl
  · apply arr_of_eraseL
    rw [List.map_append, List.map_append, eraseL_of_arr (lowEqV_erase ha),
      eraseL_of_arr (lowEqV_erase hb)]


/-! ## Inversion of the evaluator and of the labelling -/

section Inv
variable {G : Nat → Val} {env : Env} {Γ : LEnv}

theorem evalE_idx {a i : Expr} {v : Val} {t : Trace} (h : evalE G env (.idx a i) = some (v, t)) :
    ∃ l t1 n t2, evalE G env a = some (.arr l, t1) ∧ evalE G env i = some (.int n, t2) ∧
      getIdx l n = some v ∧ t = t1 ++ t2 ++ [.idx n] := by
  simp only [evalE] at h
  split at h
  · rename_i l t1 n t2 ha hi
    split at h
    · rename_i v' hv
      cases h
      exact ⟨l, t1, n, t2, ha, hi, hv, rfl⟩
    · cases h
  · cases h

theorem evalE_idxc {a : Expr} {k : Nat} {v : Val} {t : Trace}
    (h : evalE G env (.idxc a k) = some (v, t)) :
    ∃ l, evalE G env a = some (.arr l, t) ∧ l[k]? = some v := by
  simp only [evalE] at h
  split at h
  · rename_i l t1 ha
    split at h
    · rename_i v' hv
      cases h
      exact ⟨l, ha, hv⟩
    · cases h
  · cases h

theorem evalE_len {a : Expr} {v : Val} {t : Trace} (h : evalE G env (.len a) = some (v, t)) :
    ∃ l, evalE G env a = some (.arr l, t) ∧ v = .int l.length := by
  simp only [evalE] at h
  split at h
  · rename_i l t1 ha
    cases h
    exact ⟨l, ha, rfl⟩
  · cases h

theorem evalE_slice {a lo hi : Expr} {v : Val} {t : Trace}
    (h : evalE G env (.slice a lo hi) = some (v, t)) :
    ∃ l t1 n t2 m t3 r, evalE G env a = some (.arr l, t1) ∧ evalE G env lo = some (.int n, t2) ∧
      evalE G env hi = some (.int m, t3) ∧ sliceList l n m = some r ∧ v = .arr r ∧
      t = t1 ++ t2 ++ t3 ++ [.slice n m] := by
  simp only [evalE] at h
  split at h
  · rename_i l t1 n t2 m t3 ha hlo hhi
    split at h
    · rename_i r hr
      cases h
      exact ⟨l, t1, n, t2, m, t3, r, ha, hlo, hhi, hr, rfl, rfl⟩
    · cases h
  · cases h

theorem evalE_mk {n init : Expr} {v : Val} {t : Trace} (h : evalE G env (.mk n init) = some (v, t)) :
    ∃ k t1 w t2, evalE G env n = some (.int k, t1) ∧ evalE G env init = some (w, t2) ∧
      v = .arr (List.replicate k.toNat w) ∧ t = t1 ++ t2 ++ [.alloc k] ∧ ¬ k < 0 := by
  simp only [evalE] at h
  split at h
  · rename_i k t1 w t2 hn hi
    split at h
    · cases h
    · rename_i hk
      cases h
      exact ⟨k, t1, w, t2, hn, hi, rfl, rfl, hk⟩
  · cases h

theorem evalE_cat {a b : Expr} {v : Val} {t : Trace} (h : evalE G env (.cat a b) = some (v, t)) :
    ∃ l1 t1 l2 t2, evalE G env a = some (.arr l1, t1) ∧ evalE G env b = some (.arr l2, t2) ∧
      v = .arr (l1 ++ l2) ∧ t = t1 ++ t2 := by
  simp only [evalE] at h
  split at h
  · rename_i l1 t1 l2 t2 ha hb
    cases h
    exact ⟨l1, t1, l2, t2, ha, hb, rfl, rfl⟩
  · cases h

theorem evalE_cteq {a b : Expr} {v : Val} {t : Trace} (h : evalE G env (.cteq a b) = some (v, t)) :
    ∃ l1 t1 l2 t2 r, evalE G env a = some (.arr l1, t1) ∧ evalE G env b = some (.arr l2, t2) ∧
      ctEqList l1 l2 = some r ∧ v = .int r ∧ t = t1 ++ t2 := by
  simp only [evalE] at h
  split at h
  · rename_i l1 t1 l2 t2 ha hb
    split at h
    · rename_i r hr
      cases h
      exact ⟨l1, t1, l2, t2, r, ha, hb, hr, rfl, rfl⟩
    · cases h
  · cases h

theorem evalE_op1 {o : Op1} {a : Expr} {v : Val} {t : Trace}
    (h : evalE G env (.op1 o a) = some (v, t)) :
    ∃ n, evalE G env a = some (.int n, t) ∧ v = .int (evalOp1 o n) := by
  simp only [evalE] at h
  split at h
  · rename_i n t1 ha
    cases h
    exact ⟨n, ha, rfl⟩
  · cases h

theorem evalE_op2 {o : Op2} {a b : Expr} {v : Val} {t : Trace}
    (h : evalE G env (.op2 o a b) = some (v, t)) :
    ∃ n t1 m t2 r, evalE G env a = some (.int n, t1) ∧ evalE G env b = some (.int m, t2) ∧
      evalOp2 o n m = some r ∧ v = .int r ∧
      t = t1 ++ t2 ++ (if o.isShift then [.shift m] else []) := by
  simp only [evalE] at h
  split at h
  · rename_i n t1 m t2 ha hb
    split at h
    · rename_i r hr
      cases h
      exact ⟨n, t1, m, t2, r, ha, hb, hr, rfl, rfl⟩
    · cases h
  · cases h

theorem evalE_op3 {o : Op3} {a b c : Expr} {v : Val} {t : Trace}
    (h : evalE G env (.op3 o a b c) = some (v, t)) :
    ∃ n t1 m t2 k t3, evalE G env a = some (.int n, t1) ∧ evalE G env b = some (.int m, t2) ∧
      evalE G env c = some (.int k, t3) ∧ v = .int (evalOp3 o n m k) ∧ t = t1 ++ t2 ++ t3 := by
  simp only [evalE] at h
  split at h
  · rename_i n t1 m t2 k t3 ha hb hc
    cases h
    exact ⟨n, t1, m, t2, k, t3, ha, hb, hc, rfl, rfl⟩
  · cases h

theorem labelE_idx {a i : Expr} {ℓ : Label} (h : labelE Γ (.idx a i) = some ℓ) :
    labelE Γ a = some ℓ ∧ labelE Γ i = some .L := by
  simp only [labelE] at h
  split at h
  · rename_i la ha hi
    cases h
    exact ⟨ha, hi⟩
  · cases h

theorem labelE_len {a : Expr} {ℓ : Label} (h : labelE Γ (.len a) = some ℓ) :
    ℓ = .L ∧ ∃ la, labelE Γ a = some la := by
  simp only [labelE] at h
  split at h
  · rename_i la ha
    cases h
    exact ⟨rfl, la, ha⟩
  · cases h

theorem labelE_slice {a lo hi : Expr} {ℓ : Label} (h : labelE Γ (.slice a lo hi) = some ℓ) :
    labelE Γ a = some ℓ ∧ labelE Γ lo = some .L ∧ labelE Γ hi = some .L := by
  simp only [labelE] at h
  split at h
  · rename_i la ha hlo hhi
    cases h
    exact ⟨ha, hlo, hhi⟩
  · cases h

theorem labelE_mk {n init : Expr} {ℓ : Label} (h : labelE Γ (.mk n init) = some ℓ) :
    labelE Γ n = some .L ∧ labelE Γ init = some ℓ := by
  simp only [labelE] at h
  split at h
  · rename_i li hn hi
    cases h
    exact ⟨hn, hi⟩
  · cases h

theorem labelE_cat {a b : Expr} {ℓ : Label} (h : labelE Γ (.cat a b) = some ℓ) :
    ∃ la lb, labelE Γ a = some la ∧ labelE Γ b = some lb ∧ ℓ = la.join lb := by
  simp only [labelE] at h
  split at h
  · rename_i la lb ha hb
    cases h
    exact ⟨la, lb, ha, hb, rfl⟩
  · cases h

theorem labelE_cteq {a b : Expr} {ℓ : Label} (h : labelE Γ (.cteq a b) = some ℓ) :
    ∃ la lb, labelE Γ a = some la ∧ labelE Γ b = some lb ∧ ℓ = la.join lb := by
  simp only [labelE] at h
  split at h
  · rename_i la lb ha hb
    cases h
    exact ⟨la, lb, ha, hb, rfl⟩
  · cases h

theorem labelE_op2 {o : Op2} {a b : Expr} {ℓ : Label} (h : labelE Γ (.op2 o a b) = some ℓ) :
    ∃ la lb, labelE Γ a = some la ∧ labelE Γ b = some lb ∧ ℓ = la.join lb ∧
      (o.isShift = true → lb = .L) := by
  simp only [labelE] at h
  split at h
  · rename_i la lb ha hb
    split at h
    · cases h
    · rename_i hs
      cases h
      refine ⟨la, lb, ha, hb, rfl, ?_⟩
      intro ho
      cases lb
      · rfl
      · exfalso; apply hs; simp [ho]
  · cases h

theorem labelE_op3 {o : Op3} {a b c : Expr} {ℓ : Label} (h : labelE Γ (.op3 o a b c) = some ℓ) :
    ∃ la lb lc, labelE Γ a = some la ∧ labelE Γ b = some lb ∧ labelE Γ c = some lc ∧
      ℓ = (la.join lb).join lc := by
  simp only [labelE] at h
  split at h
  · rename_i la lb lc ha hb hc
    cases h
    exact ⟨la, lb, lc, ha, hb, hc, rfl⟩
  · cases h

end Inv



/-! ## Symmetry and kinds -/

theorem lowEqV_symm {l : Label} {a b : Val} (h : lowEqV l a b) : lowEqV l b a := by
  cases l
  · exact (h : a = b).symm
  · exact (h : a.erase = b.erase).symm

theorem lowEqEnv_symm {Γ : LEnv} {e1 e2 : Env} (h : lowEqEnv Γ e1 e2) : lowEqEnv Γ e2 e1 :=
  fun x => lowEqV_symm (h x)

theorem erase_eq_int {n : Int} {v : Val} (h : (Val.int n).erase = v.erase) : ∃ m, v = .int m := by
  cases v with
  | int m => exact ⟨m, rfl⟩
  | arr l => rw [erase_int, erase_arr] at h; cases h

theorem erase_eq_arr {l : List Val} {v : Val} (h : (Val.arr l).erase = v.erase) : ∃ l', v = .arr l' := by
  cases v with
  | int m => rw [erase_int, erase_arr] at h; cases h
  | arr l' => exact ⟨l', rfl⟩

theorem lowEqV_int_inv {l : Label} {n : Int} {v : Val} (h : lowEqV l (.int n) v) : ∃ m, v = .int m :=
  erase_eq_int (lowEqV_erase h)

theorem lowEqV_arr_inv {l : Label} {a : List Val} {v : Val} (h : lowEqV l (.arr a) v) :
    ∃ a', v = .arr a' :=
  erase_eq_arr (lowEqV_erase h)

theorem eraseL_length {l1 l2 : List Val} (h : l1.map Val.erase = l2.map Val.erase) :
    l1.length = l2.length := by
  have := congrArg List.length h
  simpa only [List.length_map] using this

theorem lowEqV_length {l : Label} {l1 l2 : List Val} (h : lowEqV l (.arr l1) (.arr l2)) :
    l1.length = l2.length :=
  eraseL_length (eraseL_of_arr (lowEqV_erase h))

theorem getElem?_shape {l1 l2 : List Val} (hlen : l1.length = l2.length) {k : Nat} {v1 : Val}
    (h1 : l1[k]? = some v1) : ∃ v2, l2[k]? = some v2 := by
  have hk : k < l1.length := (List.getElem?_eq_some_iff.1 h1).1
  have hk2 : k < l2.length := hlen ▸ hk
  exact ⟨l2[k], List.getElem?_eq_getElem hk2⟩

theorem getIdx_shape {l1 l2 : List Val} (hlen : l1.length = l2.length) {n : Int} {v1 : Val}
    (h1 : getIdx l1 n = some v1) : ∃ v2, getIdx l2 n = some v2 := by
  unfold getIdx at h1 ⊢
  split at h1
  · cases h1
  · rename_i hn
    rw [if_neg hn]
    exact getElem?_shape hlen h1

theorem sliceList_shape {l1 l2 : List Val} (hlen : l1.length = l2.length) {n m : Int} {r1 : List Val}
    (h1 : sliceList l1 n m = some r1) : ∃ r2, sliceList l2 n m = some r2 := by
  unfold sliceList at h1 ⊢
  split at h1
  · cases h1
  · rename_i hn
    rw [hlen] at hn
    rw [if_neg hn]
    exact ⟨_, rfl⟩

theorem ctEqList_shape : ∀ (a b a' b' : List Val) (r : Int),
    a.map Val.erase = a'.map Val.erase → b.map Val.erase = b'.map Val.erase →
    ctEqList a b = some r → ∃ r', ctEqList a' b' = some r' := by
  intro a
  induction a with
  | nil =>
    intro b a' b' r ha hb h
    cases a' with
    | cons _ _ => simp at ha
    | nil =>
      cases b with
      | nil =>
        cases b' with
        | nil => exact ⟨1, rfl⟩
        | cons _ _ => simp at hb
      | cons y bs =>
        cases b' with
        | nil => simp at hb
        | cons y' bs' => exact ⟨0, rfl⟩
  | cons x as ih =>
    intro b a' b' r ha hb h
    cases a' with
    | nil => simp at ha
    | cons x' as' =>
      simp only [List.map_cons, List.cons.injEq] at ha
      cases b with
      | nil =>
        cases b' with
        | nil => exact ⟨0, by cases x' <;> rfl⟩
        | cons _ _ => simp at hb
      | cons y bs =>
        cases b' with
        | nil => simp at hb
        | cons y' bs' =>
          simp only [List.map_cons, List.cons.injEq] at hb
          cases x with
          | arr _ => simp [ctEqList] at h
          | int xn =>
            cases y with
            | arr _ => simp [ctEqList] at h
            | int yn =>
              obtain ⟨xn', rfl⟩ := erase_eq_int ha.1
              obtain ⟨yn', rfl⟩ := erase_eq_int hb.1
              simp only [ctEqList] at h ⊢
              cases hr : ctEqList as bs with
              | none => simp [hr] at h
              | some r0 =>
                obtain ⟨r0', hr'⟩ := ih bs as' bs' r0 ha.2 hb.2 hr
                rw [hr']
                exact ⟨_, rfl⟩

theorem evalOp2_shape {o : Op2} {n1 m1 n2 m2 r1 : Int} (h : evalOp2 o n1 m1 = some r1)
    (hs : o.isShift = true → m1 = m2) : ∃ r2, evalOp2 o n2 m2 = some r2 := by
  cases o with
  | shl t =>
    have := hs rfl
    subst this
    simp only [evalOp2] at h ⊢
    split at h
    · cases h
    · rename_i hm
      rw [if_neg hm]
      exact ⟨_, rfl⟩
  | shr =>
    have := hs rfl
    subst this
    simp only [evalOp2] at h ⊢
    split at h
    · cases h
    · rename_i hm
      rw [if_neg hm]
      exact ⟨_, rfl⟩
  | _ => exact ⟨_, rfl⟩

theorem updPath_shape : ∀ (ks : List Nat) (o1 o2 v1 v2 n1 : Val), o1.erase = o2.erase →
    updPath o1 ks v1 = some n1 → ∃ n2, updPath o2 ks v2 = some n2 := by
  intro ks
  induction ks with
  | nil =>
    intro o1 o2 v1 v2 n1 _ _
    exact ⟨v2, by rw [updPath]⟩
  | cons k ks ih =>
    intro o1 o2 v1 v2 n1 ho h1
    cases o1 with
    | int a => rw [updPath] at h1; cases h1
    | arr l1 =>
      obtain ⟨l2, rfl⟩ := erase_eq_arr ho
      have hl := eraseL_of_arr ho
      rw [updPath] at h1 ⊢
      cases hk1 : l1[k]? with
      | none => simp [hk1] at h1
      | some a1 =>
        obtain ⟨a2, hk2⟩ := getElem?_shape (eraseL_length hl) hk1
        simp only [hk1, hk2] at h1 ⊢
        cases hu1 : updPath a1 ks v1 with
        | none => simp [hu1] at h1
        | some m1 =>
          obtain ⟨m2, hu2⟩ := ih a1 a2 v1 v2 m1 (eraseL_getElem? hl k hk1 hk2) hu1
          rw [hu2]
          exact ⟨_, rfl⟩


/-! ## Expressions: what the first run computes, the second computes too, with the same events -/

theorem evalE_fwd (G : Nat → Val) (Γ : LEnv) (e1 e2 : Env) (hΓ : lowEqEnv Γ e1 e2) :
    ∀ (e : Expr) (ℓ : Label) (v1 : Val) (t1 : Trace),
      labelE Γ e = some ℓ → evalE G e1 e = some (v1, t1) →
      ∃ v2, evalE G e2 e = some (v2, t1) ∧ lowEqV ℓ v1 v2 := by
  intro e
  induction e with
  | lit n =>
    intro ℓ v1 t1 _ h1
    simp only [evalE] at h1 ⊢
    cases h1
    exact ⟨_, rfl, lowEqV_refl _ _⟩
  | glob g =>
    intro ℓ v1 t1 _ h1
    simp only [evalE] at h1 ⊢
    cases h1
    exact ⟨_, rfl, lowEqV_refl _ _⟩
  | var x =>
    intro ℓ v1 t1 hl h1
    simp only [evalE] at h1 ⊢
    simp only [labelE] at hl
    cases h1; cases hl
    exact ⟨_, rfl, hΓ x⟩
  | idx a i iha ihi =>
    intro ℓ v1 t1 hl h1
    obtain ⟨l1, ta, n, ti, ha1, hi1, hg1, rfl⟩ := evalE_idx h1
    obtain ⟨hla, hli⟩ := labelE_idx hl
    obtain ⟨va2, ha2, hva⟩ := iha _ _ _ hla ha1
    obtain ⟨vi2, hi2, hvi⟩ := ihi _ _ _ hli hi1
    obtain ⟨l2, rfl⟩ := lowEqV_arr_inv hva
    have hn : Val.int n = vi2 := hvi
    subst hn
    obtain ⟨v2, hg2⟩ := getIdx_shape (lowEqV_length hva) hg1
    refine ⟨v2, ?_, lowEqV_getIdx hva _ hg1 hg2⟩
    simp only [evalE, ha2, hi2, hg2]
  | idxc a k iha =>
    intro ℓ v1 t1 hl h1
    obtain ⟨l1, ha1, hg1⟩ := evalE_idxc h1
    have hla : labelE Γ a = some ℓ := by simpa only [labelE] using hl
    obtain ⟨va2, ha2, hva⟩ := iha _ _ _ hla ha1
    obtain ⟨l2, rfl⟩ := lowEqV_arr_inv hva
    obtain ⟨v2, hg2⟩ := getElem?_shape (lowEqV_length hva) hg1
    refine ⟨v2, ?_, lowEqV_getElem? hva _ hg1 hg2⟩
    simp only [evalE, ha2, hg2]
  | len a iha =>
    intro ℓ v1 t1 hl h1
    obtain ⟨l1, ha1, rfl⟩ := evalE_len h1
    obtain ⟨rfl, la, hla⟩ := labelE_len hl
    obtain ⟨va2, ha2, hva⟩ := iha _ _ _ hla ha1
    obtain ⟨l2, rfl⟩ := lowEqV_arr_inv hva
    refine ⟨.int l2.length, ?_, ?_⟩
    · simp only [evalE, ha2]
    · show Val.int _ = Val.int _
      rw [lowEqV_length hva]
  | slice a lo hi iha ihlo ihhi =>
    intro ℓ v1 t1 hl h1
    obtain ⟨l1, ta, n, tl, m, th, r1, ha1, hlo1, hhi1, hs1, rfl, rfl⟩ := evalE_slice h1
    obtain ⟨hla, hllo, hlhi⟩ := labelE_slice hl
    obtain ⟨va2, ha2, hva⟩ := iha _ _ _ hla ha1
    obtain ⟨vlo2, hlo2, hvlo⟩ := ihlo _ _ _ hllo hlo1
    obtain ⟨vhi2, hhi2, hvhi⟩ := ihhi _ _ _ hlhi hhi1
    obtain ⟨l2, rfl⟩ := lowEqV_arr_inv hva
    have hn : Val.int n = vlo2 := hvlo
    subst hn
    have hm : Val.int m = vhi2 := hvhi
    subst hm
    obtain ⟨r2, hs2⟩ := sliceList_shape (lowEqV_length hva) hs1
    refine ⟨.arr r2, ?_, lowEqV_slice hva _ _ hs1 hs2⟩
    simp only [evalE, ha2, hlo2, hhi2, hs2]
  | mk n init ihn ihi =>
    intro ℓ v1 t1 hl h1
    obtain ⟨k, tn, w1, ti, hn1, hi1, rfl, rfl, hk⟩ := evalE_mk h1
    obtain ⟨hln, hli⟩ := labelE_mk hl
    obtain ⟨vn2, hn2, hvn⟩ := ihn _ _ _ hln hn1
    obtain ⟨w2, hi2, hvi⟩ := ihi _ _ _ hli hi1
    have hn : Val.int k = vn2 := hvn
    subst hn
    refine ⟨.arr (List.replicate k.toNat w2), ?_, lowEqV_replicate hvi _⟩
    simp only [evalE, hn2, hi2, if_neg hk]
  | cat a b iha ihb =>
    intro ℓ v1 t1 hl h1
    obtain ⟨l1, ta, m1, tb, ha1, hb1, rfl, rfl⟩ := evalE_cat h1
    obtain ⟨la, lb, hla, hlb, rfl⟩ := labelE_cat hl
    obtain ⟨va2, ha2, hva⟩ := iha _ _ _ hla ha1
    obtain ⟨vb2, hb2, hvb⟩ := ihb _ _ _ hlb hb1
    obtain ⟨l2, rfl⟩ := lowEqV_arr_inv hva
    obtain ⟨m2, rfl⟩ := lowEqV_arr_inv hvb
    refine ⟨.arr (l2 ++ m2), ?_, lowEqV_cat hva hvb⟩
    simp only [evalE, ha2, hb2]
  | cteq a b iha ihb =>
    intro ℓ v1 t1 hl h1
    obtain ⟨l1, ta, m1, tb, r1, ha1, hb1, hr1, rfl, rfl⟩ := evalE_cteq h1
    obtain ⟨la, lb, hla, hlb, rfl⟩ := labelE_cteq hl
    obtain ⟨va2, ha2, hva⟩ := iha _ _ _ hla ha1
    obtain ⟨vb2, hb2, hvb⟩ := ihb _ _ _ hlb hb1
    obtain ⟨l2, rfl⟩ := lowEqV_arr_inv hva
    obtain ⟨m2, rfl⟩ := lowEqV_arr_inv hvb
    obtain ⟨r2, hr2⟩ := ctEqList_shape l1 m1 l2 m2 r1 (eraseL_of_arr (lowEqV_erase hva))
      (eraseL_of_arr (lowEqV_erase hvb)) hr1
    refine ⟨.int r2, ?_, lowEqV_int ?_⟩
    · simp only [evalE, ha2, hb2, hr2]
    · intro hj
      obtain ⟨rfl, rfl⟩ := join_eq_L hj
      have e1 := lowEqV_L_arr hva
      have e2 := lowEqV_L_arr hvb
      subst e1; subst e2
      exact Option.some.inj (hr1.symm.trans hr2)
  | op1 o a iha =>
    intro ℓ v1 t1 hl h1
    obtain ⟨n1, ha1, rfl⟩ := evalE_op1 h1
    have hla : labelE Γ a = some ℓ := by simpa only [labelE] using hl
    obtain ⟨va2, ha2, hva⟩ := iha _ _ _ hla ha1
    obtain ⟨n2, rfl⟩ := lowEqV_int_inv hva
    refine ⟨.int (evalOp1 o n2), ?_, lowEqV_int ?_⟩
    · simp only [evalE, ha2]
    · intro hj
      subst hj
      rw [lowEqV_L_int hva]
  | op2 o a b iha ihb =>
    intro ℓ v1 t1 hl h1
    obtain ⟨n1, ta, m1, tb, r1, ha1, hb1, hr1, rfl, rfl⟩ := evalE_op2 h1
    obtain ⟨la, lb, hla, hlb, rfl, hsh⟩ := labelE_op2 hl
    obtain ⟨va2, ha2, hva⟩ := iha _ _ _ hla ha1
    obtain ⟨vb2, hb2, hvb⟩ := ihb _ _ _ hlb hb1
    obtain ⟨n2, rfl⟩ := lowEqV_int_inv hva
    obtain ⟨m2, rfl⟩ := lowEqV_int_inv hvb
    have hm : o.isShift = true → m1 = m2 := by
      intro hs
      have := hsh hs
      subst this
      exact lowEqV_L_int hvb
    obtain ⟨r2, hr2⟩ := evalOp2_shape (n2 := n2) hr1 hm
    refine ⟨.int r2, ?_, lowEqV_int ?_⟩
    · simp only [evalE, ha2, hb2, hr2]
      cases hs : o.isShift
      · simp
      · rw [hm hs]
    · intro hj
      obtain ⟨rfl, rfl⟩ := join_eq_L hj
      have e1 := lowEqV_L_int hva
      have e2 := lowEqV_L_int hvb
      subst e1; subst e2
      exact Option.some.inj (hr1.symm.trans hr2)
  | op3 o a b c iha ihb ihc =>
    intro ℓ v1 t1 hl h1
    obtain ⟨n1, ta, m1, tb, k1, tc, ha1, hb1, hc1, rfl, rfl⟩ := evalE_op3 h1
    obtain ⟨la, lb, lc, hla, hlb, hlc, rfl⟩ := labelE_op3 hl
    obtain ⟨va2, ha2, hva⟩ := iha _ _ _ hla ha1
    obtain ⟨vb2, hb2, hvb⟩ := ihb _ _ _ hlb hb1
    obtain ⟨vc2, hc2, hvc⟩ := ihc _ _ _ hlc hc1
    obtain ⟨n2, rfl⟩ := lowEqV_int_inv hva
    obtain ⟨m2, rfl⟩ := lowEqV_int_inv hvb
    obtain ⟨k2, rfl⟩ := lowEqV_int_inv hvc
    refine ⟨.int (evalOp3 o n2 m2 k2), ?_, lowEqV_int ?_⟩
    · simp only [evalE, ha2, hb2, hc2]
    · intro hj
      obtain ⟨hj', rfl⟩ := join_eq_L hj
      obtain ⟨rfl, rfl⟩ := join_eq_L hj'
      rw [lowEqV_L_int hva, lowEqV_L_int hvb, lowEqV_L_int hvc]

/-- the two evaluations of a well-labelled expression: both fail, or both succeed with the same events
    and values that agree at the label -/
theorem evalE_rel (G : Nat → Val) {Γ : LEnv} {e1 e2 : Env} (hΓ : lowEqEnv Γ e1 e2) {e : Expr}
    {ℓ : Label} (hl : labelE Γ e = some ℓ) :
    (evalE G e1 e = none ∧ evalE G e2 e = none) ∨
    ∃ v1 v2 t, evalE G e1 e = some (v1, t) ∧ evalE G e2 e = some (v2, t) ∧ lowEqV ℓ v1 v2 := by
  cases h1 : evalE G e1 e with
  | some p =>
    obtain ⟨v1, t⟩ := p
    obtain ⟨v2, h2, hv⟩ := evalE_fwd G Γ e1 e2 hΓ e ℓ v1 t hl h1
    exact Or.inr ⟨v1, v2, t, rfl, h2, hv⟩
  | none =>
    cases h2 : evalE G e2 e with
    | none => exact Or.inl ⟨rfl, rfl⟩
    | some p =>
      obtain ⟨v2, t⟩ := p
      obtain ⟨v1, h1', _⟩ := evalE_fwd G Γ e2 e1 (lowEqEnv_symm hΓ) e ℓ v2 t hl h2
      rw [h1] at h1'
      cases h1'

/-! ## Lists of values -/

theorem lowEqList_eraseL : ∀ (ls : List Label) (a b : List Val), lowEqList ls a b →
    a.map Val.erase = b.map Val.erase
  | [], [], [], _ => rfl
  | l :: ls, a :: as, b :: bs, h => by
    obtain ⟨h1, h2⟩ := h
    simp only [List.map_cons]
    rw [lowEqV_erase h1, lowEqList_eraseL ls as bs h2]
  | [], _ :: _, _, h => by cases h
  | [], [], _ :: _, h => by cases h
  | _ :: _, [], _, h => by cases h
  | _ :: _, _ :: _, [], h => by cases h

theorem lowEqList_allL : ∀ (n : Nat) (a b : List Val), lowEqList (List.replicate n .L) a b → a = b
  | 0, [], [], _ => rfl
  | n + 1, a :: as, b :: bs, h => by
    obtain ⟨h1, h2⟩ := h
    have : a = b := h1
    rw [this, lowEqList_allL n as bs h2]
  | 0, _ :: _, _, h => by cases h
  | 0, [], _ :: _, h => by cases h
  | _ + 1, [], _, h => by cases h
  | _ + 1, _ :: _, [], h => by cases h

theorem lowEqList_getD : ∀ (ls : List Label) (a b : List Val), lowEqList ls a b → ∀ (x : Nat),
    x < ls.length → lowEqV (ls.getD x .H) (a.getD x (.int 0)) (b.getD x (.int 0))
  | [], _, _, _, x, hx => by cases hx
  | l :: ls, a :: as, b :: bs, h, x, hx => by
    obtain ⟨h1, h2⟩ := h
    cases x with
    | zero => simpa using h1
    | succ x =>
      have := lowEqList_getD ls as bs h2 x (Nat.lt_of_succ_lt_succ hx)
      simpa using this
  | _ :: _, [], _, h, _, _ => by cases h
  | _ :: _, _ :: _, [], h, _, _ => by cases h

theorem lowEqList_length : ∀ (ls : List Label) (a b : List Val), lowEqList ls a b →
    a.length = ls.length ∧ b.length = ls.length
  | [], [], [], _ => ⟨rfl, rfl⟩
  | l :: ls, a :: as, b :: bs, h => by
    obtain ⟨_, h2⟩ := h
    obtain ⟨h3, h4⟩ := lowEqList_length ls as bs h2
    simp [h3, h4]
  | [], _ :: _, _, h => by cases h
  | [], [], _ :: _, h => by cases h
  | _ :: _, [], _, h => by cases h
  | _ :: _, _ :: _, [], h => by cases h

theorem evalEs_fwd (G : Nat → Val) (Γ : LEnv) (e1 e2 : Env) (hΓ : lowEqEnv Γ e1 e2) :
    ∀ (es : List Expr) (ls : List Label) (vs1 : List Val) (t1 : Trace),
      checkEs Γ es ls = true → evalEs G e1 es = some (vs1, t1) →
      ∃ vs2, evalEs G e2 es = some (vs2, t1) ∧ lowEqList ls vs1 vs2 := by
  intro es
  induction es with
  | nil =>
    intro ls vs1 t1 hc h1
    simp only [evalEs] at h1 ⊢
    cases h1
    cases ls with
    | nil => exact ⟨[], rfl, trivial⟩
    | cons l ls => simp [checkEs] at hc
  | cons e es ih =>
    intro ls vs1 t1 hc h1
    cases ls with
    | nil => simp [checkEs] at hc
    | cons l ls =>
      simp only [checkEs, Bool.and_eq_true] at hc
      obtain ⟨hce, hces⟩ := hc
      simp only [evalEs] at h1
      cases he1 : evalE G e1 e with
      | none => simp [he1] at h1
      | some p1 =>
        obtain ⟨w1, u1⟩ := p1
        cases hes1 : evalEs G e1 es with
        | none => simp [he1, hes1] at h1
        | some q1 =>
          obtain ⟨ws1, us1⟩ := q1
          simp only [he1, hes1, Option.some.injEq, Prod.mk.injEq] at h1
          obtain ⟨rfl, rfl⟩ := h1
          cases hle : labelE Γ e with
          | none => simp [hle] at hce
          | some le =>
            simp only [hle] at hce
            obtain ⟨w2, he2, hv⟩ := evalE_fwd G Γ e1 e2 hΓ e le _ _ hle he1
            obtain ⟨ws2, hes2, hvs⟩ := ih ls _ _ hces hes1
            exact ⟨w2 :: ws2, by simp only [evalEs, he2, hes2], lowEqV_mono hce hv, hvs⟩

/-- `checkEs` does not depend on the environments: it can be used in both directions -/
theorem evalEs_rel (G : Nat → Val) {Γ : LEnv} {e1 e2 : Env} (hΓ : lowEqEnv Γ e1 e2) {es : List Expr}
    {ls : List Label} (hc : checkEs Γ es ls = true) :
    (evalEs G e1 es = none ∧ evalEs G e2 es = none) ∨
    ∃ vs1 vs2 t, evalEs G e1 es = some (vs1, t) ∧ evalEs G e2 es = some (vs2, t) ∧
      lowEqList ls vs1 vs2 := by
  cases h1 : evalEs G e1 es with
  | some p =>
    obtain ⟨vs1, t⟩ := p
    obtain ⟨vs2, h2, hv⟩ := evalEs_fwd G Γ e1 e2 hΓ es ls vs1 t hc h1
    exact Or.inr ⟨vs1, vs2, t, rfl, h2, hv⟩
  | none =>
    cases h2 : evalEs G e2 es with
    | none => exact Or.inl ⟨rfl, rfl⟩
    | some p =>
      obtain ⟨vs2, t⟩ := p
      obtain ⟨vs1, h1', _⟩ := evalEs_fwd G Γ e2 e1 (lowEqEnv_symm hΓ) es ls vs2 t hc h2
      rw [h1] at h1'
      cases h1'

theorem evalPath_fwd (G : Nat → Val) (Γ : LEnv) (e1 e2 : Env) (hΓ : lowEqEnv Γ e1 e2) :
    ∀ (p : List PathE) (ks : List Nat) (t : Trace),
      checkPath Γ p = true → evalPath G e1 p = some (ks, t) → evalPath G e2 p = some (ks, t) := by
  intro p
  induction p with
  | nil =>
    intro ks t _ h1
    simp only [evalPath] at h1 ⊢
    exact h1
  | cons st p ih =>
    intro ks t hc h1
    cases st with
    | c k =>
      simp only [checkPath] at hc
      simp only [evalPath] at h1 ⊢
      cases hp1 : evalPath G e1 p with
      | none => simp [hp1] at h1
      | some q1 =>
        obtain ⟨js1, u1⟩ := q1
        rw [ih _ _ hc hp1]
        simpa only [hp1] using h1
    | e i =>
      simp only [checkPath, Bool.and_eq_true, beq_iff_eq] at hc
      obtain ⟨hli, hcp⟩ := hc
      simp only [evalPath] at h1 ⊢
      cases hi1 : evalE G e1 i with
      | none => simp [hi1] at h1
      | some p1 =>
        obtain ⟨w1, u1⟩ := p1
        obtain ⟨w2, hi2, hv⟩ := evalE_fwd G Γ e1 e2 hΓ i .L _ _ hli hi1
        have : w1 = w2 := hv
        subst this
        cases hp1 : evalPath G e1 p with
        | none =>
          cases w1 <;> simp [hi1, hp1] at h1
        | some q1 =>
          obtain ⟨js1, v1⟩ := q1
          rw [hi2, ih _ _ hcp hp1]
          simpa only [hi1, hp1] using h1

theorem evalPath_rel (G : Nat → Val) {Γ : LEnv} {e1 e2 : Env} (hΓ : lowEqEnv Γ e1 e2) {p : List PathE}
    (hc : checkPath Γ p = true) :
    (evalPath G e1 p = none ∧ evalPath G e2 p = none) ∨
    ∃ ks t, evalPath G e1 p = some (ks, t) ∧ evalPath G e2 p = some (ks, t) := by
  cases h1 : evalPath G e1 p with
  | some q =>
    obtain ⟨ks, t⟩ := q
    exact Or.inr ⟨ks, t, rfl, evalPath_fwd G Γ e1 e2 hΓ p ks t hc h1⟩
  | none =>
    cases h2 : evalPath G e2 p with
    | none => exact Or.inl ⟨rfl, rfl⟩
    | some q =>
      obtain ⟨ks, t⟩ := q
      have h1' := evalPath_fwd G Γ e2 e1 (lowEqEnv_symm hΓ) p ks t hc h2
      rw [h1] at h1'
      cases h1'

theorem updPath_rel (ks : List Nat) {o1 o2 : Val} (ho : o1.erase = o2.erase) (v1 v2 : Val) :
    (updPath o1 ks v1 = none ∧ updPath o2 ks v2 = none) ∨
    ∃ n1 n2, updPath o1 ks v1 = some n1 ∧ updPath o2 ks v2 = some n2 := by
  cases h1 : updPath o1 ks v1 with
  | some n1 =>
    obtain ⟨n2, h2⟩ := updPath_shape ks o1 o2 v1 v2 n1 ho h1
    exact Or.inr ⟨n1, n2, rfl, h2⟩
  | none =>
    cases h2 : updPath o2 ks v2 with
    | none => exact Or.inl ⟨rfl, rfl⟩
    | some n2 =>
      obtain ⟨n1, h1'⟩ := updPath_shape ks o2 o1 v2 v1 n2 ho.symm h2
      rw [h1] at h1'
      cases h1'

/-! ## Divergence at a verdict -/

theorem Div.append_left {t1 t2 : Trace} (p : Trace) (h : Div t1 t2) : Div (p ++ t1) (p ++ t2) := by
  obtain ⟨q, s, v1, v2, r1, r2, hv, rfl, rfl⟩ := h
  exact ⟨p ++ q, s, v1, v2, r1, r2, hv, by simp, by simp⟩

theorem Div.append_right {t1 t2 : Trace} (u1 u2 : Trace) (h : Div t1 t2) :
    Div (t1 ++ u1) (t2 ++ u2) := by
  obtain ⟨q, s, v1, v2, r1, r2, hv, rfl, rfl⟩ := h
  exact ⟨q, s, v1, v2, r1 ++ u1, r2 ++ u2, hv, by simp, by simp⟩

theorem Div.cons {t1 t2 : Trace} (e : Event) (h : Div t1 t2) : Div (e :: t1) (e :: t2) :=
  Div.append_left [e] h

theorem declassOf_append (a b : Trace) : declassOf (a ++ b) = declassOf a ++ declassOf b := by
  induction a with
  | nil => rfl
  | cons e a ih =>
    cases e <;> simp [declassOf, ih]

theorem Div.declass_ne {t1 t2 : Trace} (h : Div t1 t2) : declassOf t1 ≠ declassOf t2 := by
  obtain ⟨q, s, v1, v2, r1, r2, hv, rfl, rfl⟩ := h
  intro he
  rw [declassOf_append, declassOf_append] at he
  have := List.append_cancel_left he
  simp only [declassOf, List.cons.injEq, Prod.mk.injEq, true_and] at this
  exact hv this.1

/-! ## Environments -/

theorem lowEqEnv_set {Γ : LEnv} {e1 e2 : Env} (h : lowEqEnv Γ e1 e2) (x : Nat) {v1 v2 : Val}
    (hv : lowEqV (Γ.get x) v1 v2) : lowEqEnv Γ (e1.set x v1) (e2.set x v2) := by
  intro y
  unfold Env.set
  by_cases hy : y = x
  · subst hy; simpa using hv
  · simpa [hy] using h y

theorem setMany_length : ∀ (lhs : List Nat) (vs : List Val) (e e' : Env),
    e.setMany lhs vs = some e' → lhs.length = vs.length
  | [], [], _, _, _ => rfl
  | x :: xs, v :: vs, e, e', h => by
    simp only [Env.setMany] at h
    simp [setMany_length xs vs _ _ h]
  | [], _ :: _, _, _, h => by simp [Env.setMany] at h
  | _ :: _, [], _, _, h => by simp [Env.setMany] at h

theorem checkLhs_length {Γ : LEnv} : ∀ (lhs : List Nat) (ls : List Label),
    checkLhs Γ lhs ls = true → lhs.length = ls.length
  | [], [], _ => rfl
  | x :: xs, l :: ls, h => by
    simp only [checkLhs, Bool.and_eq_true] at h
    simp [checkLhs_length xs ls h.2]
  | [], _ :: _, h => by simp [checkLhs] at h
  | _ :: _, [], h => by simp [checkLhs] at h

theorem lowEqEnv_setMany {Γ : LEnv} : ∀ (lhs : List Nat) (ls : List Label) (vs1 vs2 : List Val)
    (e1 e2 e1' e2' : Env), checkLhs Γ lhs ls = true → lowEqList ls vs1 vs2 → lowEqEnv Γ e1 e2 →
    e1.setMany lhs vs1 = some e1' → e2.setMany lhs vs2 = some e2' → lowEqEnv Γ e1' e2'
  | [], [], [], [], e1, e2, e1', e2', _, _, hΓ, h1, h2 => by
    simp only [Env.setMany] at h1 h2
    cases h1; cases h2; exact hΓ
  | x :: xs, l :: ls, v1 :: vs1, v2 :: vs2, e1, e2, e1', e2', hc, hv, hΓ, h1, h2 => by
    simp only [checkLhs, Bool.and_eq_true] at hc
    simp only [Env.setMany] at h1 h2
    obtain ⟨hv1, hvs⟩ := hv
    exact lowEqEnv_setMany xs ls vs1 vs2 _ _ e1' e2' hc.2 hvs
      (lowEqEnv_set hΓ x (lowEqV_mono hc.1 hv1)) h1 h2
  | [], _ :: _, _, _, _, _, _, _, hc, _, _, _, _ => by simp [checkLhs] at hc
  | _ :: _, [], _, _, _, _, _, _, hc, _, _, _, _ => by simp [checkLhs] at hc
  | [], [], _ :: _, _, _, _, _, _, _, hv, _, _, _ => by cases hv
  | [], [], [], _ :: _, _, _, _, _, _, hv, _, _, _ => by cases hv
  | _ :: _, _ :: _, [], _, _, _, _, _, _, hv, _, _, _ => by cases hv
  | _ :: _, _ :: _, _ :: _, [], _, _, _, _, _, hv, _, _, _ => by cases hv

theorem lowEqList_allH : ∀ (ls : List Label) (a b : List Val), allH ls = true →
    a.map Val.erase = b.map Val.erase → a.length = ls.length → lowEqList ls a b
  | [], [], [], _, _, _ => trivial
  | l :: ls, a :: as, b :: bs, h, he, hl => by
    simp only [allH, Bool.and_eq_true, beq_iff_eq] at h
    simp only [List.map_cons, List.cons.injEq] at he
    simp only [List.length_cons, Nat.add_right_cancel_iff] at hl
    obtain ⟨rfl, hls⟩ := h
    exact ⟨he.1, lowEqList_allH ls as bs hls he.2 hl⟩
  | [], _ :: _, _, _, _, hl => by simp at hl
  | [], [], _ :: _, _, he, _ => by simp at he
  | _ :: _, [], _, _, _, hl => by simp at hl
  | _ :: _, _ :: _, [], _, he, _ => by simp at he

theorem lowEqEnv_ofList (Γ' : LEnv) (params : List Label) (n : Nat) (htake : Γ'.take n = params)
    (hlen : params.length = n) (vs1 vs2 : List Val) (h : lowEqList params vs1 vs2) :
    lowEqEnv Γ' (Env.ofList vs1) (Env.ofList vs2) := by
  intro x
  unfold Env.ofList LEnv.get
  obtain ⟨hl1, hl2⟩ := lowEqList_length _ _ _ h
  by_cases hx : x < n
  · have hg : Γ'.getD x .H = params.getD x .H := by
      rw [← htake]
      simp only [List.getD_eq_getElem?_getD, List.getElem?_take, hx, if_true]
    rw [hg]
    exact lowEqList_getD _ _ _ h x (hlen ▸ hx)
  · have h1 : vs1.getD x (.int 0) = .int 0 := by
      rw [List.getD_eq_getElem?_getD, List.getElem?_eq_none (by omega)]; rfl
    have h2 : vs2.getD x (.int 0) = .int 0 := by
      rw [List.getD_eq_getElem?_getD, List.getElem?_eq_none (by omega)]; rfl
    rw [h1, h2]
    exact lowEqV_refl _ _

theorem checkAll_get (P : Prog) (S : Sigs) : ∀ (fns : List Fn) (g0 : Nat),
    checkAll P S g0 fns = true → ∀ (i : Nat) (fn : Fn), fns[i]? = some fn →
    checkFn P S (g0 + i) fn = true
  | [], _, _, i, fn, h => by simp at h
  | f :: fns, g0, hc, i, fn, h => by
    simp only [checkAll, Bool.and_eq_true] at hc
    cases i with
    | zero =>
      simp only [List.getElem?_cons_zero, Option.some.injEq] at h
      subst h
      simpa using hc.1
    | succ i =>
      simp only [List.getElem?_cons_succ] at h
      have := checkAll_get P S fns (g0 + 1) hc.2 i fn h
      have e : g0 + (i + 1) = g0 + 1 + i := by omega
      rw [e]; exact this

/-- what `checkAll` gives for a real function: its body is well-labelled under the inferred
    environment, which agrees with the signature on the parameters -/
theorem checkAll_fn {P : Prog} {S : Sigs} (hP : checkAll P S 0 P = true) {g : Nat} {fn : Fn} {fs : FnSig}
    (hfn : P[g]? = some fn) (hfs : S.fn[g]? = some fs) (hstub : fn.stub = false) :
    fs.params.length = fn.nparams ∧ (gammaOf S fs fn).take fn.nparams = fs.params ∧
    checkS P S (gammaOf S fs fn) fs.results fs.declass fn.body = true := by
  have h := checkAll_get P S P 0 hP g fn hfn
  simp only [Nat.zero_add, checkFn, hstub, hfs, Bool.false_or, Bool.and_eq_true, beq_iff_eq] at h
  exact ⟨h.1.1, h.1.2, h.2⟩


theorem setMany_some : ∀ (lhs : List Nat) (vs : List Val) (e : Env), lhs.length = vs.length →
    ∃ e', e.setMany lhs vs = some e'
  | [], [], e, _ => ⟨e, rfl⟩
  | x :: xs, v :: vs, e, h => by
    simp only [Env.setMany]
    exact setMany_some xs vs _ (by simpa using h)
  | [], _ :: _, _, h => by simp at h
  | _ :: _, [], _, h => by simp at h

/-- `setMany` is defined exactly when the lengths agree -/
theorem setMany_rel (lhs : List Nat) {vs1 vs2 : List Val} (hl : vs1.length = vs2.length) (e1 e2 : Env) :
    (e1.setMany lhs vs1 = none ∧ e2.setMany lhs vs2 = none) ∨
    ∃ e1' e2', e1.setMany lhs vs1 = some e1' ∧ e2.setMany lhs vs2 = some e2' := by
  cases h1 : e1.setMany lhs vs1 with
  | some e1' =>
    have := setMany_length _ _ _ _ h1
    obtain ⟨e2', h2⟩ := setMany_some lhs vs2 e2 (this.trans hl)
    exact Or.inr ⟨e1', e2', rfl, h2⟩
  | none =>
    cases h2 : e2.setMany lhs vs2 with
    | none => exact Or.inl ⟨rfl, rfl⟩
    | some e2' =>
      have := setMany_length _ _ _ _ h2
      obtain ⟨e1', h1'⟩ := setMany_some lhs vs1 e1 (this.trans hl.symm)
      rw [h1] at h1'
      cases h1'


/-! ## The interpreter, one statement at a time -/

/-- `a; b` from the result of `a` and the run of `b` -/
def seqK (r : Res) (k : Env → Res) : Res :=
  match r with
  | (env1, .norm, t1) =>
    match k env1 with
    | (env2, c2, t2) => (env2, c2, t1 ++ t2)
  | r => r

/-- the end of a round of a loop whose body ended normally (or with `continue`), from the result of
    the post statement and the run of the rest of the loop -/
def postK (t0 t1 : Trace) (rp : Res) (kl : Env → Res) : Res :=
  match rp with
  | (env2, .norm, t2) =>
    match kl env2 with
    | (env3, c3, t3) => (env3, c3, t0 ++ Event.loopc true :: (t1 ++ (t2 ++ t3)))
  | (env2, _, t2) => (env2, .stuck, t0 ++ Event.loopc true :: (t1 ++ t2))

/-- one round of a loop whose condition holds, from the result of the body, the run of the post
    statement and the run of the rest of the loop -/
def loopK (t0 : Trace) (rb : Res) (kp kl : Env → Res) : Res :=
  match rb with
  | (env1, .brk, t1) => (env1, .norm, t0 ++ Event.loopc true :: t1)
  | (env1, .ret vs, t1) => (env1, .ret vs, t0 ++ Event.loopc true :: t1)
  | (env1, .panic, t1) => (env1, .panic, t0 ++ Event.loopc true :: t1)
  | (env1, .stuck, t1) => (env1, .stuck, t0 ++ Event.loopc true :: t1)
  | (env1, _, t1) => postK t0 t1 (kp env1) kl

/-- return from a call, from the result of the callee's body -/
def callK (env : Env) (lhs : List Nat) (t0 : Trace) (g : Nat) (rc : Res) : Res :=
  match rc with
  | (_, .ret rs, t1) =>
    match env.setMany lhs rs with
    | some env1 => (env1, .norm, t0 ++ .call g :: t1)
    | none => (env, .stuck, t0 ++ .call g :: t1)
  | (_, .panic, t1) => (env, .panic, t0 ++ .call g :: t1)
  | (_, _, t1) => (env, .stuck, t0 ++ .call g :: t1)

section Unfold
variable (P : Prog) (G : Nat → Val) (X : Oracle) (f : Nat) (env : Env)

theorem exec_zero (s : Stmt) : exec P G X 0 env s = (env, .stuck, []) := rfl

theorem exec_skip : exec P G X (f + 1) env .skip = (env, .norm, []) := rfl

theorem exec_brk : exec P G X (f + 1) env .brk = (env, .brk, []) := rfl

theorem exec_cont : exec P G X (f + 1) env .cont = (env, .cont, []) := rfl

theorem exec_panic : exec P G X (f + 1) env .panic = (env, .panic, []) := rfl

theorem exec_assign (x : Nat) (p : List PathE) (e : Expr) :
    exec P G X (f + 1) env (.assign x p e) =
      match evalE G env e, evalPath G env p with
      | some (v, t1), some (ks, t2) =>
        match updPath (env x) ks v with
        | some n => (env.set x n, .norm, t1 ++ t2)
        | none => (env, .stuck, [])
      | _, _ => (env, .stuck, []) := rfl

theorem exec_declass (x site : Nat) (e : Expr) :
    exec P G X (f + 1) env (.declass x site e) =
      match evalE G env e with
      | some (.int n, t1) => (env.set x (.int n), .norm, t1 ++ [.declass site n])
      | _ => (env, .stuck, []) := rfl

theorem exec_seq (a b : Stmt) :
    exec P G X (f + 1) env (.seq a b) = seqK (exec P G X f env a) (fun e => exec P G X f e b) := rfl

theorem exec_ite (c : Expr) (a b : Stmt) :
    exec P G X (f + 1) env (.ite c a b) =
      match evalE G env c with
      | some (v, t0) =>
        match asBool v with
        | some d =>
          ((exec P G X f env (if d then a else b)).1, (exec P G X f env (if d then a else b)).2.1,
            t0 ++ .branch d :: (exec P G X f env (if d then a else b)).2.2)
        | none => (env, .stuck, [])
      | none => (env, .stuck, []) := rfl

theorem exec_loop (c : Expr) (body post : Stmt) :
    exec P G X (f + 1) env (.loop c body post) =
      match evalE G env c with
      | some (v, t0) =>
        match asBool v with
        | some false => (env, .norm, t0 ++ [.loopc false])
        | some true =>
          loopK t0 (exec P G X f env body) (fun e => exec P G X f e post)
            (fun e => exec P G X f e (.loop c body post))
        | none => (env, .stuck, [])
      | none => (env, .stuck, []) := rfl

theorem exec_ret (es : List Expr) :
    exec P G X (f + 1) env (.ret es) =
      match evalEs G env es with
      | some (vs, t) => (env, .ret vs, t)
      | none => (env, .stuck, []) := rfl

theorem exec_call (lhs : List Nat) (g : Nat) (args : List Expr) :
    exec P G X (f + 1) env (.call lhs g args) =
      match evalEs G env args, P[g]? with
      | some (vs, t0), some fn =>
        if fn.stub || vs.length != fn.nparams then (env, .stuck, []) else
        callK env lhs t0 g (exec P G X f (Env.ofList vs) fn.body)
      | _, _ => (env, .stuck, []) := rfl

theorem exec_ext (lhs : List Nat) (name : Nat) (leaky : Bool) (args : List Expr) :
    exec P G X (f + 1) env (.ext lhs name leaky args) =
      match evalEs G env args with
      | some (vs, t0) =>
        match env.setMany lhs (X name vs) with
        | some env1 => (env1, .norm, t0 ++ [if leaky then .ext name vs else .obs name])
        | none => (env, .stuck, [])
      | none => (env, .stuck, []) := rfl

end Unfold


/-! ## Lockstep: two runs with the same fuel -/

/-- the relation between the results of the two runs -/
def Concl (Γ : LEnv) (res : List Label) (r1 r2 : Res) : Prop :=
  Div r1.2.2 r2.2.2 ∨ (r1.2.2 = r2.2.2 ∧ lowEqEnv Γ r1.1 r2.1 ∧ CtlRel res r1.2.1 r2.2.1)

/-- the invariant at fuel `f` -/
def LockAt (P : Prog) (S : Sigs) (G : Nat → Val) (X1 X2 : Oracle) (f : Nat) : Prop :=
  ∀ (Γ : LEnv) (res : List Label) (allowed : List Nat) (s : Stmt) (e1 e2 : Env),
    checkS P S Γ res allowed s = true → lowEqEnv Γ e1 e2 →
    Concl Γ res (exec P G X1 f e1 s) (exec P G X2 f e2 s)

theorem Concl.same {Γ : LEnv} {res : List Label} {e1 e2 : Env} (hΓ : lowEqEnv Γ e1 e2) {c1 c2 : Ctl}
    (hC : CtlRel res c1 c2) (t : Trace) : Concl Γ res (e1, c1, t) (e2, c2, t) :=
  Or.inr ⟨rfl, hΓ, hC⟩

theorem seqK_trace (r : Res) (k : Env → Res) : ∃ u, (seqK r k).2.2 = r.2.2 ++ u := by
  obtain ⟨env1, c1, t1⟩ := r
  cases c1 <;> first
    | exact ⟨(k env1).2.2, rfl⟩
    | exact ⟨[], (List.append_nil _).symm⟩

theorem seqK_concl {Γ : LEnv} {res : List Label} {r1 r2 : Res} {k1 k2 : Env → Res}
    (h : Concl Γ res r1 r2)
    (hk : ∀ e1 e2, lowEqEnv Γ e1 e2 → Concl Γ res (k1 e1) (k2 e2)) :
    Concl Γ res (seqK r1 k1) (seqK r2 k2) := by
  rcases h with hd | ⟨ht, hE, hC⟩
  · left
    obtain ⟨u1, hu1⟩ := seqK_trace r1 k1
    obtain ⟨u2, hu2⟩ := seqK_trace r2 k2
    rw [hu1, hu2]
    exact hd.append_right _ _
  · obtain ⟨env1, c1, t1⟩ := r1
    obtain ⟨env2, c2, t2⟩ := r2
    simp only at ht hE hC
    subst ht
    cases c1 <;> cases c2 <;> try (exact False.elim hC)
    · -- norm, norm
      rcases hk env1 env2 hE with hd | ⟨ht, hE', hC'⟩
      · left
        exact hd.append_left t1
      · right
        exact ⟨congrArg (t1 ++ ·) ht, hE', hC'⟩
    all_goals exact Or.inr ⟨rfl, hE, hC⟩

theorem postK_trace (t0 t1 : Trace) (rp : Res) (kl : Env → Res) :
    ∃ u, (postK t0 t1 rp kl).2.2 = t0 ++ Event.loopc true :: (t1 ++ (rp.2.2 ++ u)) := by
  obtain ⟨env2, c2, t2⟩ := rp
  cases c2 <;> first
    | exact ⟨(kl env2).2.2, rfl⟩
    | exact ⟨[], by simp [postK]⟩

theorem loopK_trace (t0 : Trace) (rb : Res) (kp kl : Env → Res) :
    ∃ u, (loopK t0 rb kp kl).2.2 = t0 ++ Event.loopc true :: (rb.2.2 ++ u) := by
  obtain ⟨env1, c1, t1⟩ := rb
  cases c1
  case norm =>
    obtain ⟨u, hu⟩ := postK_trace t0 t1 (kp env1) kl
    exact ⟨_, hu⟩
  case cont =>
    obtain ⟨u, hu⟩ := postK_trace t0 t1 (kp env1) kl
    exact ⟨_, hu⟩
  all_goals exact ⟨[], by simp [loopK]⟩

theorem postK_concl {Γ : LEnv} {res : List Label} {t0 t1 : Trace} {rp1 rp2 : Res}
    {kl1 kl2 : Env → Res} (h : Concl Γ res rp1 rp2)
    (hl : ∀ e1 e2, lowEqEnv Γ e1 e2 → Concl Γ res (kl1 e1) (kl2 e2)) :
    Concl Γ res (postK t0 t1 rp1 kl1) (postK t0 t1 rp2 kl2) := by
  rcases h with hd | ⟨ht, hE, hC⟩
  · left
    obtain ⟨u1, hu1⟩ := postK_trace t0 t1 rp1 kl1
    obtain ⟨u2, hu2⟩ := postK_trace t0 t1 rp2 kl2
    rw [hu1, hu2]
    exact (((hd.append_right _ _).append_left _).cons _).append_left _
  · obtain ⟨env1, c1, t21⟩ := rp1
    obtain ⟨env2, c2, t22⟩ := rp2
    simp only at ht hE hC
    subst ht
    cases c1 <;> cases c2 <;> try (exact False.elim hC)
    · -- norm, norm: the rest of the loop
      rcases hl env1 env2 hE with hd | ⟨ht, hE3, hC3⟩
      · left
        exact (((hd.append_left _).append_left _).cons _).append_left _
      · right
        exact ⟨congrArg (fun u => t0 ++ Event.loopc true :: (t1 ++ (t21 ++ u))) ht, hE3, hC3⟩
    all_goals exact Or.inr ⟨rfl, hE, trivial⟩

theorem loopK_concl {Γ : LEnv} {res : List Label} {t0 : Trace} {rb1 rb2 : Res}
    {kp1 kp2 kl1 kl2 : Env → Res}
    (h : Concl Γ res rb1 rb2)
    (hp : ∀ e1 e2, lowEqEnv Γ e1 e2 → Concl Γ res (kp1 e1) (kp2 e2))
    (hl : ∀ e1 e2, lowEqEnv Γ e1 e2 → Concl Γ res (kl1 e1) (kl2 e2)) :
    Concl Γ res (loopK t0 rb1 kp1 kl1) (loopK t0 rb2 kp2 kl2) := by
  rcases h with hd | ⟨ht, hE, hC⟩
  · left
    obtain ⟨u1, hu1⟩ := loopK_trace t0 rb1 kp1 kl1
    obtain ⟨u2, hu2⟩ := loopK_trace t0 rb2 kp2 kl2
    rw [hu1, hu2]
    exact ((hd.append_right _ _).cons _).append_left _
  · obtain ⟨env1, c1, t1⟩ := rb1
    obtain ⟨env2, c2, t2⟩ := rb2
    simp only at ht hE hC
    subst ht
    have tail : Concl Γ res (postK t0 t1 (kp1 env1) kl1) (postK t0 t1 (kp2 env2) kl2) :=
      postK_concl (hp env1 env2 hE) hl
    cases c1 <;> cases c2 <;> try (exact False.elim hC)
    · exact tail
    · exact Or.inr ⟨rfl, hE, trivial⟩
    · exact tail
    · exact Or.inr ⟨rfl, hE, hC⟩
    · exact Or.inr ⟨rfl, hE, trivial⟩
    · exact Or.inr ⟨rfl, hE, trivial⟩

theorem callK_trace (env : Env) (lhs : List Nat) (t0 : Trace) (g : Nat) (rc : Res) :
    (callK env lhs t0 g rc).2.2 = t0 ++ .call g :: rc.2.2 := by
  obtain ⟨envc, cc, t1⟩ := rc
  cases cc <;> try rfl
  simp only [callK]
  split <;> rfl

theorem callK_concl {Γ : LEnv} {res rl : List Label} {e1 e2 : Env} {lhs : List Nat} {t0 : Trace}
    {g : Nat} {rc1 rc2 : Res}
    (h : Div rc1.2.2 rc2.2.2 ∨ (rc1.2.2 = rc2.2.2 ∧ CtlRel rl rc1.2.1 rc2.2.1))
    (hlhs : checkLhs Γ lhs rl = true) (hΓ : lowEqEnv Γ e1 e2) :
    Concl Γ res (callK e1 lhs t0 g rc1) (callK e2 lhs t0 g rc2) := by
  rcases h with hd | ⟨ht, hC⟩
  · left
    rw [callK_trace, callK_trace]
    exact (hd.cons _).append_left _
  · obtain ⟨envc1, cc1, t1⟩ := rc1
    obtain ⟨envc2, cc2, t2⟩ := rc2
    simp only at ht hC
    subst ht
    cases cc1 <;> cases cc2 <;> try (exact False.elim hC)
    case ret.ret rs1 rs2 =>
      have hC' : lowEqList rl rs1 rs2 := hC
      obtain ⟨hl1, hl2⟩ := lowEqList_length _ _ _ hC'
      rcases setMany_rel lhs (hl1.trans hl2.symm) e1 e2 with ⟨h1, h2⟩ | ⟨e1', e2', h1, h2⟩
      · simp only [callK, h1, h2]
        exact Or.inr ⟨rfl, hΓ, trivial⟩
      · simp only [callK, h1, h2]
        exact Or.inr ⟨rfl, lowEqEnv_setMany lhs rl rs1 rs2 _ _ _ _ hlhs hC' hΓ h1 h2, trivial⟩
    all_goals exact Or.inr ⟨rfl, hΓ, trivial⟩

section Lock
variable {P : Prog} {S : Sigs} {G : Nat → Val} {X1 X2 : Oracle} {f : Nat} {Γ : LEnv}
  {res : List Label} {allowed : List Nat} {e1 e2 : Env}

theorem lock_stuck (hΓ : lowEqEnv Γ e1 e2) : Concl Γ res (e1, .stuck, []) (e2, .stuck, []) :=
  Or.inr ⟨rfl, hΓ, trivial⟩

theorem lock_assign {x : Nat} {p : List PathE} {e : Expr}
    (hc : checkS P S Γ res allowed (.assign x p e) = true) (hΓ : lowEqEnv Γ e1 e2) :
    Concl Γ res (exec P G X1 (f + 1) e1 (.assign x p e)) (exec P G X2 (f + 1) e2 (.assign x p e)) := by
  simp only [checkS, Bool.and_eq_true] at hc
  obtain ⟨hcp, hce⟩ := hc
  cases hle : labelE Γ e with
  | none => simp [hle] at hce
  | some le =>
    simp only [hle] at hce
    rw [exec_assign, exec_assign]
    rcases evalPath_rel G hΓ hcp with ⟨hp1, hp2⟩ | ⟨ks, u, hp1, hp2⟩
    · rcases evalE_rel G hΓ hle with ⟨h1, h2⟩ | ⟨v1, v2, t, h1, h2, hv⟩
      · simp only [h1, h2, hp1, hp2]
        exact lock_stuck hΓ
      · simp only [h1, h2, hp1, hp2]
        exact lock_stuck hΓ
    · rcases evalE_rel G hΓ hle with ⟨h1, h2⟩ | ⟨v1, v2, t, h1, h2, hv⟩
      · simp only [h1, h2, hp1, hp2]
        exact lock_stuck hΓ
      · have hv' := lowEqV_mono hce hv
        have hx := hΓ x
        rcases updPath_rel ks (lowEqV_erase hx) v1 v2 with ⟨hu1, hu2⟩ | ⟨n1, n2, hu1, hu2⟩
        · simp only [h1, h2, hp1, hp2, hu1, hu2]
          exact lock_stuck hΓ
        · simp only [h1, h2, hp1, hp2, hu1, hu2]
          right
          refine ⟨rfl, lowEqEnv_set hΓ x ?_, trivial⟩
          generalize Γ.get x = lx at hv' hx ⊢
          cases lx
          · have ev : v1 = v2 := hv'
            have ex : e1 x = e2 x := hx
            rw [ev, ex] at hu1
            exact Option.some.inj (hu1.symm.trans hu2)
          · exact erase_updPath ks _ _ _ _ _ _ hx hv' hu1 hu2

theorem lock_declass {x site : Nat} {e : Expr}
    (hc : checkS P S Γ res allowed (.declass x site e) = true) (hΓ : lowEqEnv Γ e1 e2) :
    Concl Γ res (exec P G X1 (f + 1) e1 (.declass x site e))
      (exec P G X2 (f + 1) e2 (.declass x site e)) := by
  simp only [checkS, Bool.and_eq_true] at hc
  obtain ⟨⟨_, hsome⟩, _⟩ := hc
  cases hle : labelE Γ e with
  | none => simp [hle] at hsome
  | some le =>
    rw [exec_declass, exec_declass]
    rcases evalE_rel G hΓ hle with ⟨h1, h2⟩ | ⟨v1, v2, t, h1, h2, hv⟩
    · simp only [h1, h2]
      exact lock_stuck hΓ
    · cases v1 with
      | arr l1 =>
        obtain ⟨l2, rfl⟩ := lowEqV_arr_inv hv
        simp only [h1, h2]
        exact lock_stuck hΓ
      | int n1 =>
        obtain ⟨n2, rfl⟩ := lowEqV_int_inv hv
        simp only [h1, h2]
        by_cases hn : n1 = n2
        · subst hn
          right
          exact ⟨rfl, lowEqEnv_set hΓ x (lowEqV_refl _ _), trivial⟩
        · left
          exact ⟨t, site, n1, n2, [], [], hn, rfl, rfl⟩

theorem lock_ret {es : List Expr}
    (hc : checkS P S Γ res allowed (.ret es) = true) (hΓ : lowEqEnv Γ e1 e2) :
    Concl Γ res (exec P G X1 (f + 1) e1 (.ret es)) (exec P G X2 (f + 1) e2 (.ret es)) := by
  simp only [checkS] at hc
  rw [exec_ret, exec_ret]
  rcases evalEs_rel G hΓ hc with ⟨h1, h2⟩ | ⟨vs1, vs2, t, h1, h2, hvs⟩
  · simp only [h1, h2]
    exact lock_stuck hΓ
  · simp only [h1, h2]
    exact Or.inr ⟨rfl, hΓ, hvs⟩

theorem lock_seq (ih : LockAt P S G X1 X2 f) {a b : Stmt}
    (hc : checkS P S Γ res allowed (.seq a b) = true) (hΓ : lowEqEnv Γ e1 e2) :
    Concl Γ res (exec P G X1 (f + 1) e1 (.seq a b)) (exec P G X2 (f + 1) e2 (.seq a b)) := by
  simp only [checkS, Bool.and_eq_true] at hc
  rw [exec_seq, exec_seq]
  exact seqK_concl (ih Γ res allowed a e1 e2 hc.1 hΓ)
    (fun e1' e2' hΓ' => ih Γ res allowed b e1' e2' hc.2 hΓ')

theorem lock_ite (ih : LockAt P S G X1 X2 f) {c : Expr} {a b : Stmt}
    (hc : checkS P S Γ res allowed (.ite c a b) = true) (hΓ : lowEqEnv Γ e1 e2) :
    Concl Γ res (exec P G X1 (f + 1) e1 (.ite c a b)) (exec P G X2 (f + 1) e2 (.ite c a b)) := by
  simp only [checkS, Bool.and_eq_true, beq_iff_eq] at hc
  obtain ⟨⟨hlc, hca⟩, hcb⟩ := hc
  rw [exec_ite, exec_ite]
  rcases evalE_rel G hΓ hlc with ⟨h1, h2⟩ | ⟨v1, v2, t, h1, h2, hv⟩
  · simp only [h1, h2]
    exact lock_stuck hΓ
  · have ev : v1 = v2 := hv
    subst ev
    simp only [h1, h2]
    cases hd : asBool v1 with
    | none => exact lock_stuck hΓ
    | some d =>
      have hcs : checkS P S Γ res allowed (if d then a else b) = true := by
        cases d
        · simpa using hcb
        · simpa using hca
      rcases ih Γ res allowed _ e1 e2 hcs hΓ with hd | ⟨ht, hE, hC⟩
      · left
        exact (hd.cons _).append_left _
      · right
        exact ⟨congrArg (fun u => t ++ Event.branch d :: u) ht, hE, hC⟩

theorem lock_loop (ih : LockAt P S G X1 X2 f) {c : Expr} {body post : Stmt}
    (hc0 : checkS P S Γ res allowed (.loop c body post) = true) (hΓ : lowEqEnv Γ e1 e2) :
    Concl Γ res (exec P G X1 (f + 1) e1 (.loop c body post))
      (exec P G X2 (f + 1) e2 (.loop c body post)) := by
  have hc := hc0
  simp only [checkS, Bool.and_eq_true, beq_iff_eq] at hc
  obtain ⟨⟨hlc, hcb⟩, hcp⟩ := hc
  rw [exec_loop, exec_loop]
  rcases evalE_rel G hΓ hlc with ⟨h1, h2⟩ | ⟨v1, v2, t, h1, h2, hv⟩
  · simp only [h1, h2]
    exact lock_stuck hΓ
  · have ev : v1 = v2 := hv
    subst ev
    simp only [h1, h2]
    cases hd : asBool v1 with
    | none => exact lock_stuck hΓ
    | some d =>
      cases d with
      | false => exact Or.inr ⟨rfl, hΓ, trivial⟩
      | true =>
        exact loopK_concl (ih Γ res allowed body e1 e2 hcb hΓ)
          (fun e1' e2' hΓ' => ih Γ res allowed post e1' e2' hcp hΓ')
          (fun e1' e2' hΓ' => ih Γ res allowed (.loop c body post) e1' e2' hc0 hΓ')

theorem lock_call (hP : checkAll P S 0 P = true) (ih : LockAt P S G X1 X2 f)
    {lhs : List Nat} {g : Nat} {args : List Expr}
    (hc : checkS P S Γ res allowed (.call lhs g args) = true) (hΓ : lowEqEnv Γ e1 e2) :
    Concl Γ res (exec P G X1 (f + 1) e1 (.call lhs g args))
      (exec P G X2 (f + 1) e2 (.call lhs g args)) := by
  simp only [checkS] at hc
  cases hfs : S.fn[g]? with
  | none => simp [hfs] at hc
  | some fs =>
    cases hfn : P[g]? with
    | none => simp [hfs, hfn] at hc
    | some fn =>
      simp only [hfs, hfn, Bool.and_eq_true, Bool.not_eq_true'] at hc
      obtain ⟨⟨hst, hargs⟩, hlhs⟩ := hc
      rw [exec_call, exec_call]
      rcases evalEs_rel G hΓ hargs with ⟨h1, h2⟩ | ⟨vs1, vs2, t, h1, h2, hvs⟩
      · simp only [h1, h2, hfn]
        exact lock_stuck hΓ
      · simp only [h1, h2, hfn]
        obtain ⟨hl1, hl2⟩ := lowEqList_length _ _ _ hvs
        obtain ⟨hpl, htake, hbody⟩ := checkAll_fn hP hfn hfs hst
        by_cases hlen : vs1.length = fn.nparams
        · have hlen2 : vs2.length = fn.nparams := by rw [hl2, ← hl1]; exact hlen
          have c1 : (fn.stub || vs1.length != fn.nparams) = false := by simp [hst, hlen]
          have c2 : (fn.stub || vs2.length != fn.nparams) = false := by simp [hst, hlen2]
          simp only [c1, c2, Bool.false_eq_true, if_false]
          have hΓ' := lowEqEnv_ofList (gammaOf S fs fn) fs.params fn.nparams htake hpl vs1 vs2 hvs
          apply callK_concl (rl := fs.results) _ hlhs hΓ
          rcases ih _ fs.results fs.declass fn.body _ _ hbody hΓ' with hd | ⟨ht, _, hC⟩
          · exact Or.inl hd
          · exact Or.inr ⟨ht, hC⟩
        · have hlen2 : ¬ vs2.length = fn.nparams := by rw [hl2, ← hl1]; exact hlen
          have c1 : (fn.stub || vs1.length != fn.nparams) = true := by simp [hlen]
          have c2 : (fn.stub || vs2.length != fn.nparams) = true := by simp [hlen2]
          simp only [c1, c2, if_true]
          exact lock_stuck hΓ

theorem lock_ext (hX : OracleRel S X1 X2) {lhs : List Nat} {name : Nat} {leaky : Bool}
    {args : List Expr}
    (hc : checkS P S Γ res allowed (.ext lhs name leaky args) = true) (hΓ : lowEqEnv Γ e1 e2) :
    Concl Γ res (exec P G X1 (f + 1) e1 (.ext lhs name leaky args))
      (exec P G X2 (f + 1) e2 (.ext lhs name leaky args)) := by
  simp only [checkS] at hc
  cases hrl : S.ext[name]? with
  | none => simp [hrl] at hc
  | some rl =>
    simp only [hrl, Bool.and_eq_true] at hc
    obtain ⟨hlhs, hargs⟩ := hc
    have hgetD : S.ext.getD name [] = rl := by
      rw [List.getD_eq_getElem?_getD, hrl]; rfl
    rw [exec_ext, exec_ext]
    -- the arguments agree well enough for the results to agree at the declared labels
    have key : (evalEs G e1 args = none ∧ evalEs G e2 args = none) ∨
        ∃ vs1 vs2 t, evalEs G e1 args = some (vs1, t) ∧ evalEs G e2 args = some (vs2, t) ∧
          (if leaky then Event.ext name vs1 else Event.obs name) =
            (if leaky then Event.ext name vs2 else Event.obs name) ∧
          (X1 name vs1).length = (X2 name vs2).length ∧
          ((X1 name vs1).length = rl.length → lowEqList rl (X1 name vs1) (X2 name vs2)) := by
      cases leaky with
      | true =>
        simp only [if_true] at hargs
        rcases evalEs_rel G hΓ hargs with ⟨h1, h2⟩ | ⟨vs1, vs2, t, h1, h2, hvs⟩
        · exact Or.inl ⟨h1, h2⟩
        · have evs := lowEqList_allL _ _ _ hvs
          subst evs
          have hres := hX.1 name vs1
          rw [hgetD] at hres
          obtain ⟨hl1, hl2⟩ := lowEqList_length _ _ _ hres
          exact Or.inr ⟨vs1, vs1, t, h1, h2, rfl, hl1.trans hl2.symm, fun _ => hres⟩
      | false =>
        simp only [Bool.false_eq_true, if_false, Bool.and_eq_true] at hargs
        obtain ⟨hargs, hallH⟩ := hargs
        rcases evalEs_rel G hΓ hargs with ⟨h1, h2⟩ | ⟨vs1, vs2, t, h1, h2, hvs⟩
        · exact Or.inl ⟨h1, h2⟩
        · have he := hX.2 name vs1 vs2 (by rw [hgetD]; exact hallH) (lowEqList_eraseL _ _ _ hvs)
          exact Or.inr ⟨vs1, vs2, t, h1, h2, rfl, eraseL_length he,
            fun hlen => lowEqList_allH rl _ _ hallH he hlen⟩
    rcases key with ⟨h1, h2⟩ | ⟨vs1, vs2, t, h1, h2, hev, hlen, hres⟩
    · simp only [h1, h2]
      exact lock_stuck hΓ
    · simp only [h1, h2]
      rcases setMany_rel lhs hlen e1 e2 with ⟨hs1, hs2⟩ | ⟨e1', e2', hs1, hs2⟩
      · simp only [hs1, hs2]
        exact lock_stuck hΓ
      · simp only [hs1, hs2]
        have hl : (X1 name vs1).length = rl.length := by
          rw [← setMany_length _ _ _ _ hs1, checkLhs_length _ _ hlhs]
        right
        refine ⟨?_, lowEqEnv_setMany lhs rl _ _ _ _ _ _ hlhs (hres hl) hΓ hs1 hs2, trivial⟩
        show t ++ [_] = t ++ [_]
        rw [hev]

end Lock

theorem lockAt_all (P : Prog) (S : Sigs) (G : Nat → Val) (X1 X2 : Oracle) (hX : OracleRel S X1 X2)
    (hP : checkAll P S 0 P = true) : ∀ f, LockAt P S G X1 X2 f := by
  intro f
  induction f with
  | zero =>
    intro Γ res allowed s e1 e2 _ hΓ
    exact lock_stuck hΓ
  | succ f ih =>
    intro Γ res allowed s e1 e2 hc hΓ
    cases s with
    | skip => exact Or.inr ⟨rfl, hΓ, trivial⟩
    | brk => exact Or.inr ⟨rfl, hΓ, trivial⟩
    | cont => exact Or.inr ⟨rfl, hΓ, trivial⟩
    | panic => exact Or.inr ⟨rfl, hΓ, trivial⟩
    | assign x p e => exact lock_assign hc hΓ
    | declass x site e => exact lock_declass hc hΓ
    | ret es => exact lock_ret hc hΓ
    | seq a b => exact lock_seq ih hc hΓ
    | ite c a b => exact lock_ite ih hc hΓ
    | loop c body post => exact lock_loop ih hc hΓ
    | call lhs g args => exact lock_call hP ih hc hΓ
    | ext lhs name leaky args => exact lock_ext hX hc hΓ

/-- lockstep: the SAME fuel in both runs, no termination hypothesis on either: the traces diverge at a
    declassified verdict, or they are equal and the runs end in related states with related control
    signals (in particular both are stuck, or neither) -/
theorem exec_lockstep (P : Prog) (S : Sigs) (G : Nat → Val) (X1 X2 : Oracle) (hX : OracleRel S X1 X2)
    (hP : checkAll P S 0 P = true) :
    ∀ (f : Nat) (Γ : LEnv) (res : List Label) (allowed : List Nat) (s : Stmt) (e1 e2 : Env),
      checkS P S Γ res allowed s = true → lowEqEnv Γ e1 e2 →
      Div (exec P G X1 f e1 s).2.2 (exec P G X2 f e2 s).2.2 ∨
      ((exec P G X1 f e1 s).2.2 = (exec P G X2 f e2 s).2.2 ∧
        lowEqEnv Γ (exec P G X1 f e1 s).1 (exec P G X2 f e2 s).1 ∧
        CtlRel res (exec P G X1 f e1 s).2.1 (exec P G X2 f e2 s).2.1) :=
  fun f Γ res allowed s e1 e2 hc hΓ => lockAt_all P S G X1 X2 hX hP f Γ res allowed s e1 e2 hc hΓ


/-! ## Fuel -/

theorem seqK_mono {r r' : Res} {k k' : Env → Res} (h : (seqK r k).2.1 ≠ .stuck)
    (hr : r.2.1 ≠ .stuck → r' = r) (hk : ∀ e, (k e).2.1 ≠ .stuck → k' e = k e) :
    seqK r' k' = seqK r k := by
  obtain ⟨env1, c1, t1⟩ := r
  cases c1
  case norm =>
    have e := hr (by simp)
    subst e
    have hk1 : (k env1).2.1 ≠ .stuck := h
    show ((k' env1).1, (k' env1).2.1, t1 ++ (k' env1).2.2) = ((k env1).1, (k env1).2.1, t1 ++ (k env1).2.2)
    rw [hk env1 hk1]
  case stuck => exact absurd rfl h
  all_goals
    have e := hr (by simp)
    subst e
    rfl

theorem postK_mono {t0 t1 : Trace} {rp rp' : Res} {kl kl' : Env → Res}
    (h : (postK t0 t1 rp kl).2.1 ≠ .stuck)
    (hr : rp.2.1 ≠ .stuck → rp' = rp) (hl : ∀ e, (kl e).2.1 ≠ .stuck → kl' e = kl e) :
    postK t0 t1 rp' kl' = postK t0 t1 rp kl := by
  obtain ⟨env2, c2, t2⟩ := rp
  cases c2
  case norm =>
    have e := hr (by simp)
    subst e
    have hl1 : (kl env2).2.1 ≠ .stuck := h
    show ((kl' env2).1, (kl' env2).2.1, t0 ++ Event.loopc true :: (t1 ++ (t2 ++ (kl' env2).2.2))) =
      ((kl env2).1, (kl env2).2.1, t0 ++ Event.loopc true :: (t1 ++ (t2 ++ (kl env2).2.2)))
    rw [hl env2 hl1]
  all_goals exact absurd rfl h

theorem loopK_mono {t0 : Trace} {rb rb' : Res} {kp kp' kl kl' : Env → Res}
    (h : (loopK t0 rb kp kl).2.1 ≠ .stuck)
    (hr : rb.2.1 ≠ .stuck → rb' = rb) (hp : ∀ e, (kp e).2.1 ≠ .stuck → kp' e = kp e)
    (hl : ∀ e, (kl e).2.1 ≠ .stuck → kl' e = kl e) :
    loopK t0 rb' kp' kl' = loopK t0 rb kp kl := by
  obtain ⟨env1, c1, t1⟩ := rb
  cases c1
  case norm =>
    have e := hr (by simp)
    subst e
    exact postK_mono h (hp env1) hl
  case cont =>
    have e := hr (by simp)
    subst e
    exact postK_mono h (hp env1) hl
  case stuck => exact absurd rfl h
  all_goals
    have e := hr (by simp)
    subst e
    rfl

theorem callK_mono {env : Env} {lhs : List Nat} {t0 : Trace} {g : Nat} {rc rc' : Res}
    (h : (callK env lhs t0 g rc).2.1 ≠ .stuck) (hr : rc.2.1 ≠ .stuck → rc' = rc) :
    callK env lhs t0 g rc' = callK env lhs t0 g rc := by
  obtain ⟨envc, cc, t1⟩ := rc
  cases cc
  case ret rs =>
    have e := hr (by simp)
    subst e
    rfl
  case panic =>
    have e := hr (by simp)
    subst e
    rfl
  all_goals exact absurd rfl h

/-- more fuel does not change a run that is not stuck -/
theorem exec_mono (P : Prog) (G : Nat → Val) (X : Oracle) :
    ∀ (f : Nat) (e : Env) (s : Stmt), (exec P G X f e s).2.1 ≠ .stuck →
      exec P G X (f + 1) e s = exec P G X f e s := by
  intro f
  induction f with
  | zero =>
    intro e s h
    exact absurd rfl h
  | succ f ih =>
    intro e s h
    cases s with
    | skip => rfl
    | brk => rfl
    | cont => rfl
    | panic => rfl
    | assign x p ex => rfl
    | declass x site ex => rfl
    | ret es => rfl
    | ext lhs name leaky args => rfl
    | seq a b =>
      rw [exec_seq] at h
      rw [exec_seq, exec_seq]
      exact seqK_mono h (ih e a) (fun e' => ih e' b)
    | ite c a b =>
      rw [exec_ite] at h
      rw [exec_ite, exec_ite]
      cases hc : evalE G e c with
      | none => rfl
      | some q =>
        obtain ⟨v, t0⟩ := q
        simp only [hc] at h ⊢
        cases hd : asBool v with
        | none => rfl
        | some d =>
          simp only [hd] at h ⊢
          rw [ih e _ h]
    | loop c body post =>
      rw [exec_loop] at h
      rw [exec_loop, exec_loop]
      cases hc : evalE G e c with
      | none => rfl
      | some q =>
        obtain ⟨v, t0⟩ := q
        simp only [hc] at h ⊢
        cases hd : asBool v with
        | none => rfl
        | some d =>
          cases d with
          | false => rfl
          | true =>
            simp only [hd] at h ⊢
            exact loopK_mono h (ih e body) (fun e' => ih e' post)
              (fun e' => ih e' (.loop c body post))
    | call lhs g args =>
      rw [exec_call] at h
      rw [exec_call, exec_call]
      cases hc : evalEs G e args with
      | none => rfl
      | some q =>
        obtain ⟨vs, t0⟩ := q
        cases hfn : P[g]? with
        | none => rfl
        | some fn =>
          simp only [hc, hfn] at h ⊢
          by_cases hcond : (fn.stub || vs.length != fn.nparams) = true
          · rw [if_pos hcond, if_pos hcond]
          · rw [if_neg hcond] at h
            rw [if_neg hcond, if_neg hcond]
            exact callK_mono h (ih _ fn.body)

theorem exec_mono_add (P : Prog) (G : Nat → Val) (X : Oracle) (f : Nat) (e : Env) (s : Stmt)
    (h : (exec P G X f e s).2.1 ≠ .stuck) : ∀ k, exec P G X (f + k) e s = exec P G X f e s := by
  intro k
  induction k with
  | zero => rfl
  | succ k ih =>
    have h' : (exec P G X (f + k) e s).2.1 ≠ .stuck := by rw [ih]; exact h
    rw [← Nat.add_assoc, exec_mono P G X (f + k) e s h', ih]

theorem exec_mono_le (P : Prog) (G : Nat → Val) (X : Oracle) (f f' : Nat) (hf : f ≤ f') (e : Env)
    (s : Stmt) (h : (exec P G X f e s).2.1 ≠ .stuck) : exec P G X f' e s = exec P G X f e s := by
  obtain ⟨k, rfl⟩ := Nat.exists_eq_add_of_le hf
  exact exec_mono_add P G X f e s h k

theorem runT_mono_le (P : Prog) (G : Nat → Val) (X : Oracle) (f f' : Nat) (hf : f ≤ f') (g : Nat)
    (a : List Val) (h : (runT P G X f g a).1 ≠ .stuck) : runT P G X f' g a = runT P G X f g a := by
  unfold runT at h ⊢
  cases hfn : P[g]? with
  | none => rfl
  | some fn =>
    simp only [hfn] at h ⊢
    by_cases hcond : (fn.stub || a.length != fn.nparams) = true
    · rw [if_pos hcond, if_pos hcond]
    · rw [if_neg hcond] at h ⊢
      rw [if_neg hcond]
      have h' : (exec P G X f (Env.ofList a) fn.body).2.1 ≠ .stuck := h
      rw [exec_mono_le P G X f f' hf _ _ h']

theorem run_eq_some {P : Prog} {G : Nat → Val} {X : Oracle} {f g : Nat} {a : List Val} {c : Ctl}
    {t : Trace} : run P G X f g a = some (c, t) ↔
      (runT P G X f g a = (c, t) ∧ ((∃ vs, c = .ret vs) ∨ c = .panic)) := by
  unfold run
  generalize runT P G X f g a = r
  obtain ⟨c', t'⟩ := r
  cases c' <;> simp <;> intro h <;> subst h <;> simp

theorem run_mono_le {P : Prog} {G : Nat → Val} {X : Oracle} {f f' : Nat} (hf : f ≤ f') {g : Nat}
    {a : List Val} {c : Ctl} {t : Trace} (h : run P G X f g a = some (c, t)) :
    run P G X f' g a = some (c, t) := by
  obtain ⟨hr, hc⟩ := run_eq_some.1 h
  have hns : (runT P G X f g a).1 ≠ .stuck := by
    rw [hr]
    rcases hc with ⟨vs, rfl⟩ | rfl <;> simp
  exact run_eq_some.2 ⟨(runT_mono_le P G X f f' hf g a hns).trans hr, hc⟩


/-! ## The theorems -/

theorem check_lockstep (P : Prog) (S : Sigs) (G : Nat → Val) (X1 X2 : Oracle) (hX : OracleRel S X1 X2)
    (g : Nat) (hc : check P S g = true) (fs : FnSig) (hfs : S.fn[g]? = some fs)
    (a1 a2 : List Val) (ha : lowEqList fs.params a1 a2) (f : Nat) :
    Div (runT P G X1 f g a1).2 (runT P G X2 f g a2).2 ∨
    ((runT P G X1 f g a1).2 = (runT P G X2 f g a2).2 ∧
      CtlRel fs.results (runT P G X1 f g a1).1 (runT P G X2 f g a2).1) := by
  unfold check at hc
  simp only [Bool.and_eq_true] at hc
  obtain ⟨hg, hP⟩ := hc
  unfold runT
  cases hfn : P[g]? with
  | none => simp [hfn] at hg
  | some fn =>
    simp only [hfn, Bool.not_eq_true'] at hg ⊢
    obtain ⟨hpl, htake, hbody⟩ := checkAll_fn hP hfn hfs hg
    obtain ⟨hl1, hl2⟩ := lowEqList_length _ _ _ ha
    have c1 : (fn.stub || a1.length != fn.nparams) = false := by simp [hg, hl1, hpl]
    have c2 : (fn.stub || a2.length != fn.nparams) = false := by simp [hg, hl2, hpl]
    simp only [c1, c2, Bool.false_eq_true, if_false]
    have hΓ' := lowEqEnv_ofList (gammaOf S fs fn) fs.params fn.nparams htake hpl a1 a2 ha
    rcases exec_lockstep P S G X1 X2 hX hP f _ fs.results fs.declass fn.body _ _ hbody hΓ' with
      hd | ⟨ht, _, hC⟩
    · left
      exact hd.cons _
    · right
      exact ⟨congrArg (Event.call g :: ·) ht, hC⟩

/-- progress: if the first run completes with fuel `f`, the second run with the SAME fuel either
    completes with the same trace, or its (possibly partial) trace departs from the first at a
    declassified verdict -/
theorem check_progress (P : Prog) (S : Sigs) (G : Nat → Val) (X1 X2 : Oracle) (hX : OracleRel S X1 X2)
    (g : Nat) (hc : check P S g = true) (fs : FnSig) (hfs : S.fn[g]? = some fs)
    (a1 a2 : List Val) (ha : lowEqList fs.params a1 a2) (f : Nat) (c1 : Ctl) (t1 : Trace)
    (h1 : run P G X1 f g a1 = some (c1, t1)) :
    (∃ c2, run P G X2 f g a2 = some (c2, t1) ∧ CtlRel fs.results c1 c2) ∨
    Div t1 (runT P G X2 f g a2).2 := by
  obtain ⟨hr1, hc1⟩ := run_eq_some.1 h1
  have h := check_lockstep P S G X1 X2 hX g hc fs hfs a1 a2 ha f
  rw [hr1] at h
  rcases h with hd | ⟨ht, hC⟩
  · exact Or.inr hd
  · left
    simp only at ht hC
    generalize hr2 : runT P G X2 f g a2 = r2 at ht hC
    obtain ⟨c2, t2⟩ := r2
    simp only at ht hC
    subst ht
    refine ⟨c2, run_eq_some.2 ⟨hr2, ?_⟩, hC⟩
    rcases hc1 with ⟨vs, rfl⟩ | rfl
    · cases c2 <;> first | exact False.elim hC | exact Or.inl ⟨_, rfl⟩
    · cases c2 <;> first | exact False.elim hC | exact Or.inr rfl

/-- in particular: equal declassified verdicts (on the trace so far of the second run) ⇒ the second run
    completes, with the same trace -/
theorem check_progress_verdicts (P : Prog) (S : Sigs) (G : Nat → Val) (X1 X2 : Oracle)
    (hX : OracleRel S X1 X2)
    (g : Nat) (hc : check P S g = true) (fs : FnSig) (hfs : S.fn[g]? = some fs)
    (a1 a2 : List Val) (ha : lowEqList fs.params a1 a2) (f : Nat) (c1 : Ctl) (t1 : Trace)
    (h1 : run P G X1 f g a1 = some (c1, t1))
    (hd : declassOf t1 = declassOf (runT P G X2 f g a2).2) :
    ∃ c2, run P G X2 f g a2 = some (c2, t1) ∧ CtlRel fs.results c1 c2 := by
  rcases check_progress P S G X1 X2 hX g hc fs hfs a1 a2 ha f c1 t1 h1 with h | h
  · exact h
  · exact absurd hd h.declass_ne

/-- two completed runs (with possibly different fuel) -/
theorem check_sound (P : Prog) (S : Sigs) (G : Nat → Val) (X1 X2 : Oracle) (hX : OracleRel S X1 X2)
    (g : Nat) (hc : check P S g = true) (fs : FnSig) (hfs : S.fn[g]? = some fs)
    (a1 a2 : List Val) (ha : lowEqList fs.params a1 a2)
    (f1 f2 : Nat) (c1 c2 : Ctl) (t1 t2 : Trace)
    (h1 : run P G X1 f1 g a1 = some (c1, t1)) (h2 : run P G X2 f2 g a2 = some (c2, t2)) :
    Div t1 t2 ∨ (t1 = t2 ∧ CtlRel fs.results c1 c2) := by
  have h1' := run_mono_le (Nat.le_max_left f1 f2) h1
  have h2' := run_mono_le (Nat.le_max_right f1 f2) h2
  obtain ⟨hr1, _⟩ := run_eq_some.1 h1'
  obtain ⟨hr2, _⟩ := run_eq_some.1 h2'
  have h := check_lockstep P S G X1 X2 hX g hc fs hfs a1 a2 ha (max f1 f2)
  rw [hr1, hr2] at h
  exact h

/-- the form quoted by property C08: equal declassified verdicts ⇒ equal traces -/
theorem check_sound_trace (P : Prog) (S : Sigs) (G : Nat → Val) (X1 X2 : Oracle)
    (hX : OracleRel S X1 X2)
    (g : Nat) (hc : check P S g = true) (fs : FnSig) (hfs : S.fn[g]? = some fs)
    (a1 a2 : List Val) (ha : lowEqList fs.params a1 a2)
    (f1 f2 : Nat) (c1 c2 : Ctl) (t1 t2 : Trace)
    (h1 : run P G X1 f1 g a1 = some (c1, t1)) (h2 : run P G X2 f2 g a2 = some (c2, t2))
    (hd : declassOf t1 = declassOf t2) : t1 = t2 ∧ CtlRel fs.results c1 c2 := by
  rcases check_sound P S G X1 X2 hX g hc fs hfs a1 a2 ha f1 f2 c1 c2 t1 t2 h1 h2 with h | h
  · exact absurd hd h.declass_ne
  · exact h

#print axioms exec_lockstep
#print axioms exec_mono
#print axioms check_lockstep
#print axioms check_progress
#print axioms check_progress_verdicts
#print axioms check_sound
#print axioms check_sound_trace

end SMGo.Model.CTIR
