/-
  Soundness of the CT-IR label checker (SMGo/Model/CTIR.lean): a checked function, run twice on
  inputs that agree on the public parameters and have secret parameters of the same shape, produces
  the same leakage trace — unless the two runs differ in a declassified verdict, in which case the
  traces agree up to the first differing verdict.
-/
import SMGo.Model.CTIR

namespace SMGo.Model.CTIR

/-- agreement of two values at a label: public values are equal, secret values have the same shape -/
def lowEqV : Label → Val → Val → Prop
  | .L, a, b => a = b
  | .H, a, b => a.erase = b.erase

def lowEqList : List Label → List Val → List Val → Prop
  | [], [], [] => True
  | l :: ls, a :: as, b :: bs => lowEqV l a b ∧ lowEqList ls as bs
  | _, _, _ => False

def lowEqEnv (Γ : LEnv) (e1 e2 : Env) : Prop := ∀ x, lowEqV (Γ.get x) (e1 x) (e2 x)

/-- the two external worlds of the two runs: the same call (same arguments) gives results that
    agree at the declared labels, and calls with arguments of the same shape give results of the
    same shape (needed only for the non-leaking `obs` calls, whose results are all secret) -/
def OracleRel (S : Sigs) (X1 X2 : Oracle) : Prop :=
  (∀ name a, lowEqList (S.ext.getD name []) (X1 name a) (X2 name a)) ∧
  (∀ name a1 a2, a1.map Val.erase = a2.map Val.erase →
      (X1 name a1).map Val.erase = (X2 name a2).map Val.erase)

/-- the traces diverge at a declassified verdict: common prefix, then the same site with two
    different values -/
def Div (t1 t2 : Trace) : Prop :=
  ∃ p s v1 v2 r1 r2, v1 ≠ v2 ∧ t1 = p ++ Event.declass s v1 :: r1 ∧ t2 = p ++ Event.declass s v2 :: r2

def CtlRel (res : List Label) : Ctl → Ctl → Prop
  | .norm, .norm => True
  | .brk, .brk => True
  | .cont, .cont => True
  | .panic, .panic => True
  | .ret v1, .ret v2 => lowEqList res v1 v2
  | _, _ => False

end SMGo.Model.CTIR
