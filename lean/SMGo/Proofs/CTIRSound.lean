/-
  Soundness of the CT-IR label checker (SMGo/Model/CTIR.lean): a checked function, run twice on
  inputs that agree on the public parameters and have secret parameters of the same shape, produces
  the same leakage trace — unless the two runs differ in a declassified verdict, in which case the
  traces agree up to the first differing verdict.
-/
import SMGo.Model.CTIR

namespace SMGo.Model.CTIR

/-- agreement of two values at a label: public values are equal, secret values have the same shape -/
def lowEqV : Label → Val → Val → Prop
  | .L, a, b => a = b
  | .H, a, b => a.erase = b.erase

def lowEqList : List Label → List Val → List Val → Prop
  | [], [], [] => True
  | l :: ls, a :: as, b :: bs => lowEqV l a b ∧ lowEqList ls as bs
  | _, _, _ => False

def lowEqEnv (Γ : LEnv) (e1 e2 : Env) : Prop := ∀ x, lowEqV (Γ.get x) (e1 x) (e2 x)

/-- the two external worlds of the two runs: the same call (same arguments) gives results that
    agree at the declared labels, and calls with arguments of the same shape give results of the
    same shape (needed only for the non-leaking `obs` calls, whose results are all secret) -/
def OracleRel (S : Sigs) (X1 X2 : Oracle) : Prop :=
  (∀ name a, lowEqList (S.ext.getD name []) (X1 name a) (X2 name a)) ∧
  (∀ name a1 a2, a1.map Val.erase = a2.map Val.erase →
      (X1 name a1).map Val.erase = (X2 name a2).map Val.erase)

/-- the traces diverge at a declassified verdict: common prefix, then the same site with two
    different values -/
def Div (t1 t2 : Trace) : Prop :=
  ∃ p s v1 v2 r1 r2, v1 ≠ v2 ∧ t1 = p ++ Event.declass s v1 :: r1 ∧ t2 = p ++ Event.declass s v2 :: r2

def CtlRel (res : List Label) : Ctl → Ctl → Prop
  | .norm, .norm => True
  | .brk, .brk => True
  | .cont, .cont => True
  | .panic, .panic => True
  | .ret v1, .ret v2 => lowEqList res v1 v2
  | _, _ => False


/-! ## Shapes -/

theorem erase_arr (l : List Val) : (Val.arr l).erase = .arr (l.map Val.erase) := by
  simp [Val.erase]

theorem erase_int (n : Int) : (Val.int n).erase = .int 0 := by
  simp [Val.erase]

theorem eraseL_of_arr {l1 l2 : List Val} (h : (Val.arr l1).erase = (Val.arr l2).erase) :
    l1.map Val.erase = l2.map Val.erase := by
  rw [erase_arr, erase_arr] at h
  exact Val.arr.inj h

theorem arr_of_eraseL {l1 l2 : List Val} (h : l1.map Val.erase = l2.map Val.erase) :
    (Val.arr l1).erase = (Val.arr l2).erase := by
  rw [erase_arr, erase_arr, h]

theorem eraseL_getElem? {l1 l2 : List Val} (h : l1.map Val.erase = l2.map Val.erase) (k : Nat)
    {v1 v2 : Val} (h1 : l1[k]? = some v1) (h2 : l2[k]? = some v2) : v1.erase = v2.erase := by
  have h3 : (l1.map Val.erase)[k]? = (l2.map Val.erase)[k]? := by rw [h]
  simp only [List.getElem?_map, h1, h2, Option.map_some] at h3
  exact Option.some.inj h3

theorem eraseL_getIdx {l1 l2 : List Val} (h : l1.map Val.erase = l2.map Val.erase) (n : Int)
    {v1 v2 : Val} (h1 : getIdx l1 n = some v1) (h2 : getIdx l2 n = some v2) : v1.erase = v2.erase := by
  unfold getIdx at h1 h2
  split at h1
  · cases h1
  · rename_i hn
    rw [if_neg hn] at h2
    exact eraseL_getElem? h _ h1 h2

theorem eraseL_slice {l1 l2 : List Val} (h : l1.map Val.erase = l2.map Val.erase) (n m : Int)
    {r1 r2 : List Val} (h1 : sliceList l1 n m = some r1) (h2 : sliceList l2 n m = some r2) :
    r1.map Val.erase = r2.map Val.erase := by
  unfold sliceList at h1 h2
  split at h1
  · cases h1
  · split at h2
    · cases h2
    · cases h1; cases h2
      simp only [List.map_take, List.map_drop, h]

theorem erase_updPath : ∀ (ks : List Nat) (o1 o2 v1 v2 n1 n2 : Val), o1.erase = o2.erase →
    v1.erase = v2.erase → updPath o1 ks v1 = some n1 → updPath o2 ks v2 = some n2 →
    n1.erase = n2.erase := by
  intro ks
  induction ks with
  | nil =>
    intro o1 o2 v1 v2 n1 n2 _ hv h1 h2
    rw [updPath] at h1 h2
    cases h1; cases h2; exact hv
  | cons k ks ih =>
    intro o1 o2 v1 v2 n1 n2 ho hv h1 h2
    cases o1 with
    | int a => rw [updPath] at h1; cases h1
    | arr l1 =>
      cases o2 with
      | int b => rw [updPath] at h2; cases h2
      | arr l2 =>
        have hl := eraseL_of_arr ho
        rw [updPath] at h1 h2
        cases hk1 : l1[k]? with
        | none => simp [hk1] at h1
        | some a1 =>
          cases hk2 : l2[k]? with
          | none => simp [hk2] at h2
          | some a2 =>
            simp only [hk1, hk2] at h1 h2
            cases hu1 : updPath a1 ks v1 with
            | none => simp [hu1] at h1
            | some m1 =>
              cases hu2 : updPath a2 ks v2 with
              | none => simp [hu2] at h2
              | some m2 =>
                simp only [hu1, hu2, Option.some.injEq] at h1 h2
                subst h1; subst h2
                have hm := ih a1 a2 v1 v2 m1 m2 (eraseL_getElem? hl k hk1 hk2) hv hu1 hu2
                apply arr_of_eraseL
                rw [List.map_set, List.map_set, hl, hm]

/-! ## Agreement at a label -/

theorem lowEqV_refl (l : Label) (a : Val) : lowEqV l a a := by
  cases l <;> rfl

theorem lowEqV_erase {l : Label} {a b : Val} (h : lowEqV l a b) : a.erase = b.erase := by
  cases l
  · have : a = b := h
    rw [this]
  · exact h

theorem lowEqV_mono {l1 l2 : Label} {a b : Val} (hle : l1.le l2 = true) (h : lowEqV l1 a b) :
    lowEqV l2 a b := by
  cases l2
  · cases l1
    · exact h
    · simp [Label.le] at hle
  · exact lowEqV_erase h

theorem join_eq_L {la lb : Label} (h : la.join lb = .L) : la = .L ∧ lb = .L := by
  cases la <;> cases lb <;> simp [Label.join] at h ⊢

theorem lowEqV_int {l : Label} {a b : Int} (h : l = .L → a = b) : lowEqV l (.int a) (.int b) := by
  cases l
  · have := h rfl
    subst this; rfl
  · show (Val.int a).erase = (Val.int b).erase
    rw [erase_int, erase_int]

theorem lowEqV_L_int {a b : Int} (h : lowEqV .L (.int a) (.int b)) : a = b :=
  Val.int.inj h

theorem lowEqV_L_arr {a b : List Val} (h : lowEqV .L (.arr a) (.arr b)) : a = b :=
  Val.arr.inj h

theorem lowEqV_getElem? {l : Label} {l1 l2 : List Val} (h : lowEqV l (.arr l1) (.arr l2)) (k : Nat)
    {v1 v2 : Val} (h1 : l1[k]? = some v1) (h2 : l2[k]? = some v2) : lowEqV l v1 v2 := by
  cases l
  · have := lowEqV_L_arr h
    subst this
    exact Option.some.inj (h1.symm.trans h2)
  · exact eraseL_getElem? (eraseL_of_arr h) k h1 h2

theorem lowEqV_getIdx {l : Label} {l1 l2 : List Val} (h : lowEqV l (.arr l1) (.arr l2)) (n : Int)
    {v1 v2 : Val} (h1 : getIdx l1 n = some v1) (h2 : getIdx l2 n = some v2) : lowEqV l v1 v2 := by
  cases l
  · have := lowEqV_L_arr h
    subst this
    exact Option.some.inj (h1.symm.trans h2)
  · exact eraseL_getIdx (eraseL_of_arr h) n h1 h2

theorem lowEqV_slice {l : Label} {l1 l2 : List Val} (h : lowEqV l (.arr l1) (.arr l2)) (n m : Int)
    {r1 r2 : List Val} (h1 : sliceList l1 n m = some r1) (h2 : sliceList l2 n m = some r2) :
    lowEqV l (.arr r1) (.arr r2) := by
  cases l
  · have := lowEqV_L_arr h
    subst this
    have := Option.some.inj (h1.symm.trans h2)
    subst this; rfl
  · exact arr_of_eraseL (eraseL_slice (eraseL_of_arr h) n m h1 h2)

theorem lowEqV_replicate {l : Label} {v1 v2 : Val} (h : lowEqV l v1 v2) (k : Nat) :
    lowEqV l (.arr (List.replicate k v1)) (.arr (List.replicate k v2)) := by
  cases l
  · have : v1 = v2 := h
    subst this; rfl
  · apply arr_of_eraseL
    have : v1.erase = v2.erase := h
    rw [List.map_replicate, List.map_replicate, this]

theorem lowEqV_cat {la lb : Label} {a1 a2 b1 b2 : List Val} (ha : lowEqV la (.arr a1) (.arr a2))
    (hb : lowEqV lb (.arr b1) (.arr b2)) : lowEqV (la.join lb) (.arr (a1 ++ b1)) (.arr (a2 ++ b2)) := by
  cases hj : la.join lb
  · obtain ⟨rfl, rfl⟩ := join_eq_L hj
    have h1 := lowEqV_L_arr ha
    have h2 := lowEqV_L_arr hb
    subst h1; subst h2; rfl
  · apply arr_of_eraseL
    rw [List.map_append, List.map_append, eraseL_of_arr (lowEqV_erase ha),
      eraseL_of_arr (lowEqV_erase hb)]


/-! ## Inversion of the evaluator and of the labelling -/

section Inv
variable {G : Nat → Val} {env : Env} {Γ : LEnv}

theorem evalE_idx {a i : Expr} {v : Val} {t : Trace} (h : evalE G env (.idx a i) = some (v, t)) :
    ∃ l t1 n t2, evalE G env a = some (.arr l, t1) ∧ evalE G env i = some (.int n, t2) ∧
      getIdx l n = some v ∧ t = t1 ++ t2 ++ [.idx n] := by
  simp only [evalE] at h
  split at h
  · rename_i l t1 n t2 ha hi
    split at h
    · rename_i v' hv
      cases h
      exact ⟨l, t1, n, t2, ha, hi, hv, rfl⟩
    · cases h
  · cases h

theorem evalE_idxc {a : Expr} {k : Nat} {v : Val} {t : Trace}
    (h : evalE G env (.idxc a k) = some (v, t)) :
    ∃ l, evalE G env a = some (.arr l, t) ∧ l[k]? = some v := by
  simp only [evalE] at h
  split at h
  · rename_i l t1 ha
    split at h
    · rename_i v' hv
      cases h
      exact ⟨l, ha, hv⟩
    · cases h
  · cases h

theorem evalE_len {a : Expr} {v : Val} {t : Trace} (h : evalE G env (.len a) = some (v, t)) :
    ∃ l, evalE G env a = some (.arr l, t) ∧ v = .int l.length := by
  simp only [evalE] at h
  split at h
  · rename_i l t1 ha
    cases h
    exact ⟨l, ha, rfl⟩
  · cases h

theorem evalE_slice {a lo hi : Expr} {v : Val} {t : Trace}
    (h : evalE G env (.slice a lo hi) = some (v, t)) :
    ∃ l t1 n t2 m t3 r, evalE G env a = some (.arr l, t1) ∧ evalE G env lo = some (.int n, t2) ∧
      evalE G env hi = some (.int m, t3) ∧ sliceList l n m = some r ∧ v = .arr r ∧
      t = t1 ++ t2 ++ t3 ++ [.slice n m] := by
  simp only [evalE] at h
  split at h
  · rename_i l t1 n t2 m t3 ha hlo hhi
    split at h
    · rename_i r hr
      cases h
      exact ⟨l, t1, n, t2, m, t3, r, ha, hlo, hhi, hr, rfl, rfl⟩
    · cases h
  · cases h

theorem evalE_mk {n init : Expr} {v : Val} {t : Trace} (h : evalE G env (.mk n init) = some (v, t)) :
    ∃ k t1 w t2, evalE G env n = some (.int k, t1) ∧ evalE G env init = some (w, t2) ∧
      v = .arr (List.replicate k.toNat w) ∧ t = t1 ++ t2 ++ [.alloc k] := by
  simp only [evalE] at h
  split at h
  · rename_i k t1 w t2 hn hi
    split at h
    · cases h
    · cases h
      exact ⟨k, t1, w, t2, hn, hi, rfl, rfl⟩
  · cases h

theorem evalE_cat {a b : Expr} {v : Val} {t : Trace} (h : evalE G env (.cat a b) = some (v, t)) :
    ∃ l1 t1 l2 t2, evalE G env a = some (.arr l1, t1) ∧ evalE G env b = some (.arr l2, t2) ∧
      v = .arr (l1 ++ l2) ∧ t = t1 ++ t2 := by
  simp only [evalE] at h
  split at h
  · rename_i l1 t1 l2 t2 ha hb
    cases h
    exact ⟨l1, t1, l2, t2, ha, hb, rfl, rfl⟩
  · cases h

theorem evalE_cteq {a b : Expr} {v : Val} {t : Trace} (h : evalE G env (.cteq a b) = some (v, t)) :
    ∃ l1 t1 l2 t2 r, evalE G env a = some (.arr l1, t1) ∧ evalE G env b = some (.arr l2, t2) ∧
      ctEqList l1 l2 = some r ∧ v = .int r ∧ t = t1 ++ t2 := by
  simp only [evalE] at h
  split at h
  · rename_i l1 t1 l2 t2 ha hb
    split at h
    · rename_i r hr
      cases h
      exact ⟨l1, t1, l2, t2, r, ha, hb, hr, rfl, rfl⟩
    · cases h
  · cases h

theorem evalE_op1 {o : Op1} {a : Expr} {v : Val} {t : Trace}
    (h : evalE G env (.op1 o a) = some (v, t)) :
    ∃ n, evalE G env a = some (.int n, t) ∧ v = .int (evalOp1 o n) := by
  simp only [evalE] at h
  split at h
  · rename_i n t1 ha
    cases h
    exact ⟨n, ha, rfl⟩
  · cases h

theorem evalE_op2 {o : Op2} {a b : Expr} {v : Val} {t : Trace}
    (h : evalE G env (.op2 o a b) = some (v, t)) :
    ∃ n t1 m t2 r, evalE G env a = some (.int n, t1) ∧ evalE G env b = some (.int m, t2) ∧
      evalOp2 o n m = some r ∧ v = .int r ∧
      t = t1 ++ t2 ++ (if o.isShift then [.shift m] else []) := by
  simp only [evalE] at h
  split at h
  · rename_i n t1 m t2 ha hb
    split at h
    · rename_i r hr
      cases h
      exact ⟨n, t1, m, t2, r, ha, hb, hr, rfl, rfl⟩
    · cases h
  · cases h

theorem evalE_op3 {o : Op3} {a b c : Expr} {v : Val} {t : Trace}
    (h : evalE G env (.op3 o a b c) = some (v, t)) :
    ∃ n t1 m t2 k t3, evalE G env a = some (.int n, t1) ∧ evalE G env b = some (.int m, t2) ∧
      evalE G env c = some (.int k, t3) ∧ v = .int (evalOp3 o n m k) ∧ t = t1 ++ t2 ++ t3 := by
  simp only [evalE] at h
  split at h
  · rename_i n t1 m t2 k t3 ha hb hc
    cases h
    exact ⟨n, t1, m, t2, k, t3, ha, hb, hc, rfl, rfl⟩
  · cases h

theorem labelE_idx {a i : Expr} {ℓ : Label} (h : labelE Γ (.idx a i) = some ℓ) :
    labelE Γ a = some ℓ ∧ labelE Γ i = some .L := by
  simp only [labelE] at h
  split at h
  · rename_i la ha hi
    cases h
    exact ⟨ha, hi⟩
  · cases h

theorem labelE_len {a : Expr} {ℓ : Label} (h : labelE Γ (.len a) = some ℓ) :
    ℓ = .L ∧ ∃ la, labelE Γ a = some la := by
  simp only [labelE] at h
  split at h
  · rename_i la ha
    cases h
    exact ⟨rfl, la, ha⟩
  · cases h

theorem labelE_slice {a lo hi : Expr} {ℓ : Label} (h : labelE Γ (.slice a lo hi) = some ℓ) :
    labelE Γ a = some ℓ ∧ labelE Γ lo = some .L ∧ labelE Γ hi = some .L := by
  simp only [labelE] at h
  split at h
  · rename_i la ha hlo hhi
    cases h
    exact ⟨ha, hlo, hhi⟩
  · cases h

theorem labelE_mk {n init : Expr} {ℓ : Label} (h : labelE Γ (.mk n init) = some ℓ) :
    labelE Γ n = some .L ∧ labelE Γ init = some ℓ := by
  simp only [labelE] at h
  split at h
  · rename_i li hn hi
    cases h
    exact ⟨hn, hi⟩
  · cases h

theorem labelE_cat {a b : Expr} {ℓ : Label} (h : labelE Γ (.cat a b) = some ℓ) :
    ∃ la lb, labelE Γ a = some la ∧ labelE Γ b = some lb ∧ ℓ = la.join lb := by
  simp only [labelE] at h
  split at h
  · rename_i la lb ha hb
    cases h
    exact ⟨la, lb, ha, hb, rfl⟩
  · cases h

theorem labelE_cteq {a b : Expr} {ℓ : Label} (h : labelE Γ (.cteq a b) = some ℓ) :
    ∃ la lb, labelE Γ a = some la ∧ labelE Γ b = some lb ∧ ℓ = la.join lb := by
  simp only [labelE] at h
  split at h
  · rename_i la lb ha hb
    cases h
    exact ⟨la, lb, ha, hb, rfl⟩
  · cases h

theorem labelE_op2 {o : Op2} {a b : Expr} {ℓ : Label} (h : labelE Γ (.op2 o a b) = some ℓ) :
    ∃ la lb, labelE Γ a = some la ∧ labelE Γ b = some lb ∧ ℓ = la.join lb ∧
      (o.isShift = true → lb = .L) := by
  simp only [labelE] at h
  split at h
  · rename_i la lb ha hb
    split at h
    · cases h
    · rename_i hs
      cases h
      refine ⟨la, lb, ha, hb, rfl, ?_⟩
      intro ho
      cases lb
      · rfl
      · exfalso; apply hs; simp [ho]
  · cases h

theorem labelE_op3 {o : Op3} {a b c : Expr} {ℓ : Label} (h : labelE Γ (.op3 o a b c) = some ℓ) :
    ∃ la lb lc, labelE Γ a = some la ∧ labelE Γ b = some lb ∧ labelE Γ c = some lc ∧
      ℓ = (la.join lb).join lc := by
  simp only [labelE] at h
  split at h
  · rename_i la lb lc ha hb hc
    cases h
    exact ⟨la, lb, lc, ha, hb, hc, rfl⟩
  · cases h

end Inv


/-! ## Expressions -/

theorem evalE_sound (G : Nat → Val) (Γ : LEnv) (e1 e2 : Env) (hΓ : lowEqEnv Γ e1 e2) :
    ∀ (e : Expr) (ℓ : Label) (v1 : Val) (t1 : Trace) (v2 : Val) (t2 : Trace),
      labelE Γ e = some ℓ → evalE G e1 e = some (v1, t1) → evalE G e2 e = some (v2, t2) →
      t1 = t2 ∧ lowEqV ℓ v1 v2 := by
  intro e
  induction e with
  | lit n =>
    intro ℓ v1 t1 v2 t2 _ h1 h2
    simp only [evalE] at h1 h2
    cases h1; cases h2
    exact ⟨rfl, lowEqV_refl _ _⟩
  | glob g =>
    intro ℓ v1 t1 v2 t2 _ h1 h2
    simp only [evalE] at h1 h2
    cases h1; cases h2
    exact ⟨rfl, lowEqV_refl _ _⟩
  | var x =>
    intro ℓ v1 t1 v2 t2 hl h1 h2
    simp only [evalE] at h1 h2
    simp only [labelE] at hl
    cases h1; cases h2; cases hl
    exact ⟨rfl, hΓ x⟩
  | idx a i iha ihi =>
    intro ℓ v1 t1 v2 t2 hl h1 h2
    obtain ⟨l1, ta1, n1, ti1, ha1, hi1, hg1, rfl⟩ := evalE_idx h1
    obtain ⟨l2, ta2, n2, ti2, ha2, hi2, hg2, rfl⟩ := evalE_idx h2
    obtain ⟨hla, hli⟩ := labelE_idx hl
    obtain ⟨rfl, hva⟩ := iha _ _ _ _ _ hla ha1 ha2
    obtain ⟨rfl, hvi⟩ := ihi _ _ _ _ _ hli hi1 hi2
    have := lowEqV_L_int hvi
    subst this
    exact ⟨rfl, lowEqV_getIdx hva _ hg1 hg2⟩
  | idxc a k iha =>
    intro ℓ v1 t1 v2 t2 hl h1 h2
    obtain ⟨l1, ha1, hg1⟩ := evalE_idxc h1
    obtain ⟨l2, ha2, hg2⟩ := evalE_idxc h2
    have hla : labelE Γ a = some ℓ := by simpa only [labelE] using hl
    obtain ⟨rfl, hva⟩ := iha _ _ _ _ _ hla ha1 ha2
    exact ⟨rfl, lowEqV_getElem? hva _ hg1 hg2⟩
  | len a iha =>
    intro ℓ v1 t1 v2 t2 hl h1 h2
    obtain ⟨l1, ha1, rfl⟩ := evalE_len h1
    obtain ⟨l2, ha2, rfl⟩ := evalE_len h2
    obtain ⟨rfl, la, hla⟩ := labelE_len hl
    obtain ⟨rfl, hva⟩ := iha _ _ _ _ _ hla ha1 ha2
    refine ⟨rfl, ?_⟩
    have hlen : l1.length = l2.length := by
      have := congrArg List.length (eraseL_of_arr (lowEqV_erase hva))
      simpa only [List.length_map] using this
    show Val.int _ = Val.int _
    rw [hlen]
  | slice a lo hi iha ihlo ihhi =>
    intro ℓ v1 t1 v2 t2 hl h1 h2
    obtain ⟨l1, ta1, n1, tl1, m1, th1, r1, ha1, hlo1, hhi1, hs1, rfl, rfl⟩ := evalE_slice h1
    obtain ⟨l2, ta2, n2, tl2, m2, th2, r2, ha2, hlo2, hhi2, hs2, rfl, rfl⟩ := evalE_slice h2
    obtain ⟨hla, hllo, hlhi⟩ := labelE_slice hl
    obtain ⟨rfl, hva⟩ := iha _ _ _ _ _ hla ha1 ha2
    obtain ⟨rfl, hvlo⟩ := ihlo _ _ _ _ _ hllo hlo1 hlo2
    obtain ⟨rfl, hvhi⟩ := ihhi _ _ _ _ _ hlhi hhi1 hhi2
    have := lowEqV_L_int hvlo
    subst this
    have := lowEqV_L_int hvhi
    subst this
    exact ⟨rfl, lowEqV_slice hva _ _ hs1 hs2⟩
  | mk n init ihn ihi =>
    intro ℓ v1 t1 v2 t2 hl h1 h2
    obtain ⟨k1, tn1, w1, ti1, hn1, hi1, rfl, rfl⟩ := evalE_mk h1
    obtain ⟨k2, tn2, w2, ti2, hn2, hi2, rfl, rfl⟩ := evalE_mk h2
    obtain ⟨hln, hli⟩ := labelE_mk hl
    obtain ⟨rfl, hvn⟩ := ihn _ _ _ _ _ hln hn1 hn2
    obtain ⟨rfl, hvi⟩ := ihi _ _ _ _ _ hli hi1 hi2
    have := lowEqV_L_int hvn
    subst this
    exact ⟨rfl, lowEqV_replicate hvi _⟩
  | cat a b iha ihb =>
    intro ℓ v1 t1 v2 t2 hl h1 h2
    obtain ⟨l1, ta1, m1, tb1, ha1, hb1, rfl, rfl⟩ := evalE_cat h1
    obtain ⟨l2, ta2, m2, tb2, ha2, hb2, rfl, rfl⟩ := evalE_cat h2
    obtain ⟨la, lb, hla, hlb, rfl⟩ := labelE_cat hl
    obtain ⟨rfl, hva⟩ := iha _ _ _ _ _ hla ha1 ha2
    obtain ⟨rfl, hvb⟩ := ihb _ _ _ _ _ hlb hb1 hb2
    exact ⟨rfl, lowEqV_cat hva hvb⟩
  | cteq a b iha ihb =>
    intro ℓ v1 t1 v2 t2 hl h1 h2
    obtain ⟨l1, ta1, m1, tb1, r1, ha1, hb1, hr1, rfl, rfl⟩ := evalE_cteq h1
    obtain ⟨l2, ta2, m2, tb2, r2, ha2, hb2, hr2, rfl, rfl⟩ := evalE_cteq h2
    obtain ⟨la, lb, hla, hlb, rfl⟩ := labelE_cteq hl
    obtain ⟨rfl, hva⟩ := iha _ _ _ _ _ hla ha1 ha2
    obtain ⟨rfl, hvb⟩ := ihb _ _ _ _ _ hlb hb1 hb2
    refine ⟨rfl, lowEqV_int ?_⟩
    intro hj
    obtain ⟨rfl, rfl⟩ := join_eq_L hj
    have e1 := lowEqV_L_arr hva
    have e2 := lowEqV_L_arr hvb
    subst e1; subst e2
    exact Option.some.inj (hr1.symm.trans hr2)
  | op1 o a iha =>
    intro ℓ v1 t1 v2 t2 hl h1 h2
    obtain ⟨n1, ha1, rfl⟩ := evalE_op1 h1
    obtain ⟨n2, ha2, rfl⟩ := evalE_op1 h2
    have hla : labelE Γ a = some ℓ := by simpa only [labelE] using hl
    obtain ⟨rfl, hva⟩ := iha _ _ _ _ _ hla ha1 ha2
    refine ⟨rfl, lowEqV_int ?_⟩
    intro hj
    subst hj
    rw [lowEqV_L_int hva]
  | op2 o a b iha ihb =>
    intro ℓ v1 t1 v2 t2 hl h1 h2
    obtain ⟨n1, ta1, m1, tb1, r1, ha1, hb1, hr1, rfl, rfl⟩ := evalE_op2 h1
    obtain ⟨n2, ta2, m2, tb2, r2, ha2, hb2, hr2, rfl, rfl⟩ := evalE_op2 h2
    obtain ⟨la, lb, hla, hlb, rfl, hsh⟩ := labelE_op2 hl
    obtain ⟨rfl, hva⟩ := iha _ _ _ _ _ hla ha1 ha2
    obtain ⟨rfl, hvb⟩ := ihb _ _ _ _ _ hlb hb1 hb2
    constructor
    · cases hs : o.isShift
      · simp
      · have := hsh hs
        subst this
        rw [lowEqV_L_int hvb]
    · apply lowEqV_int
      intro hj
      obtain ⟨rfl, rfl⟩ := join_eq_L hj
      have e1 := lowEqV_L_int hva
      have e2 := lowEqV_L_int hvb
      subst e1; subst e2
      exact Option.some.inj (hr1.symm.trans hr2)
  | op3 o a b c iha ihb ihc =>
    intro ℓ v1 t1 v2 t2 hl h1 h2
    obtain ⟨n1, ta1, m1, tb1, k1, tc1, ha1, hb1, hc1, rfl, rfl⟩ := evalE_op3 h1
    obtain ⟨n2, ta2, m2, tb2, k2, tc2, ha2, hb2, hc2, rfl, rfl⟩ := evalE_op3 h2
    obtain ⟨la, lb, lc, hla, hlb, hlc, rfl⟩ := labelE_op3 hl
    obtain ⟨rfl, hva⟩ := iha _ _ _ _ _ hla ha1 ha2
    obtain ⟨rfl, hvb⟩ := ihb _ _ _ _ _ hlb hb1 hb2
    obtain ⟨rfl, hvc⟩ := ihc _ _ _ _ _ hlc hc1 hc2
    refine ⟨rfl, lowEqV_int ?_⟩
    intro hj
    obtain ⟨hj', rfl⟩ := join_eq_L hj
    obtain ⟨rfl, rfl⟩ := join_eq_L hj'
    rw [lowEqV_L_int hva, lowEqV_L_int hvb, lowEqV_L_int hvc]

/-! ## Lists of values -/

theorem lowEqList_eraseL : ∀ (ls : List Label) (a b : List Val), lowEqList ls a b →
    a.map Val.erase = b.map Val.erase
  | [], [], [], _ => rfl
  | l :: ls, a :: as, b :: bs, h => by
    obtain ⟨h1, h2⟩ := h
    simp only [List.map_cons]
    rw [lowEqV_erase h1, lowEqList_eraseL ls as bs h2]
  | [], _ :: _, _, h => by cases h
  | [], [], _ :: _, h => by cases h
  | _ :: _, [], _, h => by cases h
  | _ :: _, _ :: _, [], h => by cases h

theorem lowEqList_allL : ∀ (n : Nat) (a b : List Val), lowEqList (List.replicate n .L) a b → a = b
  | 0, [], [], _ => rfl
  | n + 1, a :: as, b :: bs, h => by
    obtain ⟨h1, h2⟩ := h
    have : a = b := h1
    rw [this, lowEqList_allL n as bs h2]
  | 0, _ :: _, _, h => by cases h
  | 0, [], _ :: _, h => by cases h
  | _ + 1, [], _, h => by cases h
  | _ + 1, _ :: _, [], h => by cases h

theorem lowEqList_getD : ∀ (ls : List Label) (a b : List Val), lowEqList ls a b → ∀ (x : Nat),
    x < ls.length → lowEqV (ls.getD x .H) (a.getD x (.int 0)) (b.getD x (.int 0))
  | [], _, _, _, x, hx => by cases hx
  | l :: ls, a :: as, b :: bs, h, x, hx => by
    obtain ⟨h1, h2⟩ := h
    cases x with
    | zero => simpa using h1
    | succ x =>
      have := lowEqList_getD ls as bs h2 x (Nat.lt_of_succ_lt_succ hx)
      simpa using this
  | _ :: _, [], _, h, _, _ => by cases h
  | _ :: _, _ :: _, [], h, _, _ => by cases h

theorem lowEqList_length : ∀ (ls : List Label) (a b : List Val), lowEqList ls a b →
    a.length = ls.length ∧ b.length = ls.length
  | [], [], [], _ => ⟨rfl, rfl⟩
  | l :: ls, a :: as, b :: bs, h => by
    obtain ⟨_, h2⟩ := h
    obtain ⟨h3, h4⟩ := lowEqList_length ls as bs h2
    simp [h3, h4]
  | [], _ :: _, _, h => by cases h
  | [], [], _ :: _, h => by cases h
  | _ :: _, [], _, h => by cases h
  | _ :: _, _ :: _, [], h => by cases h

theorem evalEs_sound (G : Nat → Val) (Γ : LEnv) (e1 e2 : Env) (hΓ : lowEqEnv Γ e1 e2) :
    ∀ (es : List Expr) (ls : List Label) (vs1 : List Val) (t1 : Trace) (vs2 : List Val) (t2 : Trace),
      checkEs Γ es ls = true → evalEs G e1 es = some (vs1, t1) → evalEs G e2 es = some (vs2, t2) →
      t1 = t2 ∧ lowEqList ls vs1 vs2 := by
  intro es
  induction es with
  | nil =>
    intro ls vs1 t1 vs2 t2 hc h1 h2
    simp only [evalEs] at h1 h2
    cases h1; cases h2
    cases ls with
    | nil => exact ⟨rfl, trivial⟩
    | cons l ls => simp [checkEs] at hc
  | cons e es ih =>
    intro ls vs1 t1 vs2 t2 hc h1 h2
    cases ls with
    | nil => simp [checkEs] at hc
    | cons l ls =>
      simp only [checkEs, Bool.and_eq_true] at hc
      obtain ⟨hce, hces⟩ := hc
      simp only [evalEs] at h1 h2
      cases he1 : evalE G e1 e with
      | none => simp [he1] at h1
      | some p1 =>
        obtain ⟨w1, u1⟩ := p1
        cases hes1 : evalEs G e1 es with
        | none => simp [he1, hes1] at h1
        | some q1 =>
          obtain ⟨ws1, us1⟩ := q1
          cases he2 : evalE G e2 e with
          | none => simp [he2] at h2
          | some p2 =>
            obtain ⟨w2, u2⟩ := p2
            cases hes2 : evalEs G e2 es with
            | none => simp [he2, hes2] at h2
            | some q2 =>
              obtain ⟨ws2, us2⟩ := q2
              simp only [he1, hes1, he2, hes2, Option.some.injEq, Prod.mk.injEq] at h1 h2
              obtain ⟨rfl, rfl⟩ := h1
              obtain ⟨rfl, rfl⟩ := h2
              cases hle : labelE Γ e with
              | none => simp [hle] at hce
              | some le =>
                simp only [hle] at hce
                obtain ⟨rfl, hv⟩ := evalE_sound G Γ e1 e2 hΓ e le _ _ _ _ hle he1 he2
                obtain ⟨rfl, hvs⟩ := ih ls _ _ _ _ hces hes1 hes2
                exact ⟨rfl, lowEqV_mono hce hv, hvs⟩

theorem evalPath_sound (G : Nat → Val) (Γ : LEnv) (e1 e2 : Env) (hΓ : lowEqEnv Γ e1 e2) :
    ∀ (p : List PathE) (ks1 : List Nat) (t1 : Trace) (ks2 : List Nat) (t2 : Trace),
      checkPath Γ p = true → evalPath G e1 p = some (ks1, t1) → evalPath G e2 p = some (ks2, t2) →
      ks1 = ks2 ∧ t1 = t2 := by
  intro p
  induction p with
  | nil =>
    intro ks1 t1 ks2 t2 _ h1 h2
    simp only [evalPath] at h1 h2
    cases h1; cases h2
    exact ⟨rfl, rfl⟩
  | cons st p ih =>
    intro ks1 t1 ks2 t2 hc h1 h2
    cases st with
    | c k =>
      simp only [checkPath] at hc
      simp only [evalPath] at h1 h2
      cases hp1 : evalPath G e1 p with
      | none => simp [hp1] at h1
      | some q1 =>
        obtain ⟨js1, u1⟩ := q1
        cases hp2 : evalPath G e2 p with
        | none => simp [hp2] at h2
        | some q2 =>
          obtain ⟨js2, u2⟩ := q2
          simp only [hp1, hp2, Option.some.injEq, Prod.mk.injEq] at h1 h2
          obtain ⟨rfl, rfl⟩ := h1
          obtain ⟨rfl, rfl⟩ := h2
          obtain ⟨rfl, rfl⟩ := ih _ _ _ _ hc hp1 hp2
          exact ⟨rfl, rfl⟩
    | e i =>
      simp only [checkPath, Bool.and_eq_true, beq_iff_eq] at hc
      obtain ⟨hli, hcp⟩ := hc
      simp only [evalPath] at h1 h2
      cases hi1 : evalE G e1 i with
      | none => simp [hi1] at h1
      | some p1 =>
        obtain ⟨w1, u1⟩ := p1
        cases hi2 : evalE G e2 i with
        | none => simp [hi2] at h2
        | some p2 =>
          obtain ⟨w2, u2⟩ := p2
          obtain ⟨rfl, hv⟩ := evalE_sound G Γ e1 e2 hΓ i .L _ _ _ _ hli hi1 hi2
          have : w1 = w2 := hv
          subst this
          cases w1 with
          | arr l => simp [hi1] at h1
          | int n =>
            cases hp1 : evalPath G e1 p with
            | none => simp [hi1, hp1] at h1
            | some q1 =>
              obtain ⟨js1, v1⟩ := q1
              cases hp2 : evalPath G e2 p with
              | none => simp [hi2, hp2] at h2
              | some q2 =>
                obtain ⟨js2, v2⟩ := q2
                obtain ⟨rfl, rfl⟩ := ih _ _ _ _ hcp hp1 hp2
                simp only [hi1, hp1, hi2, hp2] at h1 h2
                split at h1
                · cases h1
                · rename_i hn
                  rw [if_neg hn] at h2
                  cases h1; cases h2
                  exact ⟨rfl, rfl⟩


/-! ## Divergence at a verdict -/

theorem Div.append_left {t1 t2 : Trace} (p : Trace) (h : Div t1 t2) : Div (p ++ t1) (p ++ t2) := by
  obtain ⟨q, s, v1, v2, r1, r2, hv, rfl, rfl⟩ := h
  exact ⟨p ++ q, s, v1, v2, r1, r2, hv, by simp, by simp⟩

theorem Div.append_right {t1 t2 : Trace} (u1 u2 : Trace) (h : Div t1 t2) :
    Div (t1 ++ u1) (t2 ++ u2) := by
  obtain ⟨q, s, v1, v2, r1, r2, hv, rfl, rfl⟩ := h
  exact ⟨q, s, v1, v2, r1 ++ u1, r2 ++ u2, hv, by simp, by simp⟩

theorem Div.cons {t1 t2 : Trace} (e : Event) (h : Div t1 t2) : Div (e :: t1) (e :: t2) :=
  Div.append_left [e] h

theorem declassOf_append (a b : Trace) : declassOf (a ++ b) = declassOf a ++ declassOf b := by
  induction a with
  | nil => rfl
  | cons e a ih =>
    cases e <;> simp [declassOf, ih]

theorem Div.declass_ne {t1 t2 : Trace} (h : Div t1 t2) : declassOf t1 ≠ declassOf t2 := by
  obtain ⟨q, s, v1, v2, r1, r2, hv, rfl, rfl⟩ := h
  intro he
  rw [declassOf_append, declassOf_append] at he
  have := List.append_cancel_left he
  simp only [declassOf, List.cons.injEq, Prod.mk.injEq, true_and] at this
  exact hv this.1

/-! ## Environments -/

theorem lowEqEnv_set {Γ : LEnv} {e1 e2 : Env} (h : lowEqEnv Γ e1 e2) (x : Nat) {v1 v2 : Val}
    (hv : lowEqV (Γ.get x) v1 v2) : lowEqEnv Γ (e1.set x v1) (e2.set x v2) := by
  intro y
  unfold Env.set
  by_cases hy : y = x
  · subst hy; simpa using hv
  · simpa [hy] using h y

theorem setMany_length : ∀ (lhs : List Nat) (vs : List Val) (e e' : Env),
    e.setMany lhs vs = some e' → lhs.length = vs.length
  | [], [], _, _, _ => rfl
  | x :: xs, v :: vs, e, e', h => by
    simp only [Env.setMany] at h
    simp [setMany_length xs vs _ _ h]
  | [], _ :: _, _, _, h => by simp [Env.setMany] at h
  | _ :: _, [], _, _, h => by simp [Env.setMany] at h

theorem checkLhs_length {Γ : LEnv} : ∀ (lhs : List Nat) (ls : List Label),
    checkLhs Γ lhs ls = true → lhs.length = ls.length
  | [], [], _ => rfl
  | x :: xs, l :: ls, h => by
    simp only [checkLhs, Bool.and_eq_true] at h
    simp [checkLhs_length xs ls h.2]
  | [], _ :: _, h => by simp [checkLhs] at h
  | _ :: _, [], h => by simp [checkLhs] at h

theorem lowEqEnv_setMany {Γ : LEnv} : ∀ (lhs : List Nat) (ls : List Label) (vs1 vs2 : List Val)
    (e1 e2 e1' e2' : Env), checkLhs Γ lhs ls = true → lowEqList ls vs1 vs2 → lowEqEnv Γ e1 e2 →
    e1.setMany lhs vs1 = some e1' → e2.setMany lhs vs2 = some e2' → lowEqEnv Γ e1' e2'
  | [], [], [], [], e1, e2, e1', e2', _, _, hΓ, h1, h2 => by
    simp only [Env.setMany] at h1 h2
    cases h1; cases h2; exact hΓ
  | x :: xs, l :: ls, v1 :: vs1, v2 :: vs2, e1, e2, e1', e2', hc, hv, hΓ, h1, h2 => by
    simp only [checkLhs, Bool.and_eq_true] at hc
    simp only [Env.setMany] at h1 h2
    obtain ⟨hv1, hvs⟩ := hv
    exact lowEqEnv_setMany xs ls vs1 vs2 _ _ e1' e2' hc.2 hvs
      (lowEqEnv_set hΓ x (lowEqV_mono hc.1 hv1)) h1 h2
  | [], _ :: _, _, _, _, _, _, _, hc, _, _, _, _ => by simp [checkLhs] at hc
  | _ :: _, [], _, _, _, _, _, _, hc, _, _, _, _ => by simp [checkLhs] at hc
  | [], [], _ :: _, _, _, _, _, _, _, hv, _, _, _ => by cases hv
  | [], [], [], _ :: _, _, _, _, _, _, hv, _, _, _ => by cases hv
  | _ :: _, _ :: _, [], _, _, _, _, _, _, hv, _, _, _ => by cases hv
  | _ :: _, _ :: _, _ :: _, [], _, _, _, _, _, hv, _, _, _ => by cases hv

theorem lowEqList_allH : ∀ (ls : List Label) (a b : List Val), allH ls = true →
    a.map Val.erase = b.map Val.erase → a.length = ls.length → lowEqList ls a b
  | [], [], [], _, _, _ => trivial
  | l :: ls, a :: as, b :: bs, h, he, hl => by
    simp only [allH, Bool.and_eq_true, beq_iff_eq] at h
    simp only [List.map_cons, List.cons.injEq] at he
    simp only [List.length_cons, Nat.add_right_cancel_iff] at hl
    obtain ⟨rfl, hls⟩ := h
    exact ⟨he.1, lowEqList_allH ls as bs hls he.2 hl⟩
  | [], _ :: _, _, _, _, hl => by simp at hl
  | [], [], _ :: _, _, he, _ => by simp at he
  | _ :: _, [], _, _, _, hl => by simp at hl
  | _ :: _, _ :: _, [], _, he, _ => by simp at he

theorem lowEqEnv_ofList (Γ' : LEnv) (params : List Label) (n : Nat) (htake : Γ'.take n = params)
    (hlen : params.length = n) (vs1 vs2 : List Val) (h : lowEqList params vs1 vs2) :
    lowEqEnv Γ' (Env.ofList vs1) (Env.ofList vs2) := by
  intro x
  unfold Env.ofList LEnv.get
  obtain ⟨hl1, hl2⟩ := lowEqList_length _ _ _ h
  by_cases hx : x < n
  · have hg : Γ'.getD x .H = params.getD x .H := by
      rw [← htake]
      simp only [List.getD_eq_getElem?_getD, List.getElem?_take, hx, if_true]
    rw [hg]
    exact lowEqList_getD _ _ _ h x (hlen ▸ hx)
  · have h1 : vs1.getD x (.int 0) = .int 0 := by
      rw [List.getD_eq_getElem?_getD, List.getElem?_eq_none (by omega)]; rfl
    have h2 : vs2.getD x (.int 0) = .int 0 := by
      rw [List.getD_eq_getElem?_getD, List.getElem?_eq_none (by omega)]; rfl
    rw [h1, h2]
    exact lowEqV_refl _ _

theorem checkAll_get (P : Prog) (S : Sigs) : ∀ (fns : List Fn) (g0 : Nat),
    checkAll P S g0 fns = true → ∀ (i : Nat) (fn : Fn), fns[i]? = some fn →
    checkFn P S (g0 + i) fn = true
  | [], _, _, i, fn, h => by simp at h
  | f :: fns, g0, hc, i, fn, h => by
    simp only [checkAll, Bool.and_eq_true] at hc
    cases i with
    | zero =>
      simp only [List.getElem?_cons_zero, Option.some.injEq] at h
      subst h
      simpa using hc.1
    | succ i =>
      simp only [List.getElem?_cons_succ] at h
      have := checkAll_get P S fns (g0 + 1) hc.2 i fn h
      have e : g0 + (i + 1) = g0 + 1 + i := by omega
      rw [e]; exact this

/-- what `checkAll` gives for a real function: its body is well-labelled under the inferred
    environment, which agrees with the signature on the parameters -/
theorem checkAll_fn {P : Prog} {S : Sigs} (hP : checkAll P S 0 P = true) {g : Nat} {fn : Fn} {fs : FnSig}
    (hfn : P[g]? = some fn) (hfs : S.fn[g]? = some fs) (hstub : fn.stub = false) :
    fs.params.length = fn.nparams ∧ (gammaOf S fs fn).take fn.nparams = fs.params ∧
    checkS P S (gammaOf S fs fn) fs.results fs.declass fn.body = true := by
  have h := checkAll_get P S P 0 hP g fn hfn
  simp only [Nat.zero_add, checkFn, hstub, hfs, Bool.false_or, Bool.and_eq_true, beq_iff_eq] at h
  exact ⟨h.1.1, h.1.2, h.2⟩


/-! ## Inversion of the interpreter -/

section ExecInv
variable {P : Prog} {G : Nat → Val} {X : Oracle} {f : Nat} {env : Env} {r : Res}

theorem exec_assign_inv {x : Nat} {p : List PathE} {e : Expr}
    (h : exec P G X (f + 1) env (.assign x p e) = some r) :
    ∃ v t1 ks t2 n, evalE G env e = some (v, t1) ∧ evalPath G env p = some (ks, t2) ∧
      updPath (env x) ks v = some n ∧ r = (env.set x n, .norm, t1 ++ t2) := by
  simp only [exec] at h
  split at h
  · rename_i v t1 ks t2 he hp
    split at h
    · rename_i n hn
      cases h
      exact ⟨v, t1, ks, t2, n, he, hp, hn, rfl⟩
    · cases h
  · cases h

theorem exec_declass_inv {x site : Nat} {e : Expr}
    (h : exec P G X (f + 1) env (.declass x site e) = some r) :
    ∃ n t1, evalE G env e = some (.int n, t1) ∧
      r = (env.set x (.int n), .norm, t1 ++ [.declass site n]) := by
  simp only [exec] at h
  split at h
  · rename_i n t1 he
    cases h
    exact ⟨n, t1, he, rfl⟩
  · cases h

theorem exec_ret_inv {es : List Expr} (h : exec P G X (f + 1) env (.ret es) = some r) :
    ∃ vs t, evalEs G env es = some (vs, t) ∧ r = (env, .ret vs, t) := by
  simp only [exec] at h
  split at h
  · rename_i vs t he
    cases h
    exact ⟨vs, t, he, rfl⟩
  · cases h

theorem exec_seq_inv {a b : Stmt} (h : exec P G X (f + 1) env (.seq a b) = some r) :
    ∃ env1 c1 t1, exec P G X f env a = some (env1, c1, t1) ∧ (∃ u, r.2.2 = t1 ++ u) ∧
      ((c1 = .norm ∧ ∃ env2 c2 t2, exec P G X f env1 b = some (env2, c2, t2) ∧
          r = (env2, c2, t1 ++ t2)) ∨
       (c1 ≠ .norm ∧ r = (env1, c1, t1))) := by
  simp only [exec] at h
  split at h
  · rename_i env1 t1 ha
    split at h
    · rename_i env2 c2 t2 hb
      cases h
      exact ⟨env1, .norm, t1, ha, ⟨t2, rfl⟩, Or.inl ⟨rfl, env2, c2, t2, hb, rfl⟩⟩
    · cases h
  · rename_i r' hne ha
    cases h
    obtain ⟨env1, c1, t1⟩ := r
    refine ⟨env1, c1, t1, ha, ⟨[], by simp⟩, Or.inr ⟨?_, rfl⟩⟩
    intro hc
    subst hc
    exact hne _ _ rfl
  · cases h

theorem exec_ite_inv {c : Expr} {a b : Stmt} (h : exec P G X (f + 1) env (.ite c a b) = some r) :
    ∃ v t0 d env1 c1 t1, evalE G env c = some (v, t0) ∧ asBool v = some d ∧
      exec P G X f env (if d then a else b) = some (env1, c1, t1) ∧
      r = (env1, c1, t0 ++ .branch d :: t1) := by
  simp only [exec] at h
  split at h
  · rename_i v t0 hc
    split at h
    · rename_i d hd
      split at h
      · rename_i env1 c1 t1 hx
        cases h
        exact ⟨v, t0, d, env1, c1, t1, hc, hd, hx, rfl⟩
      · cases h
    · cases h
  · cases h

/-- what a loop does with the control signal of its body: `some c'` = leave the loop with `c'` -/
def loopExit : Ctl → Option Ctl
  | .brk => some .norm
  | .ret vs => some (.ret vs)
  | .panic => some .panic
  | _ => none

theorem exec_loop_inv {c : Expr} {body post : Stmt}
    (h : exec P G X (f + 1) env (.loop c body post) = some r) :
    ∃ v t0 d, evalE G env c = some (v, t0) ∧ asBool v = some d ∧
      ((d = false ∧ r = (env, .norm, t0 ++ [.loopc false])) ∨
       (d = true ∧ ∃ env1 c1 t1, exec P G X f env body = some (env1, c1, t1) ∧
          (∃ u, r.2.2 = t0 ++ .loopc true :: (t1 ++ u)) ∧
          ((∃ c', loopExit c1 = some c' ∧ r = (env1, c', t0 ++ .loopc true :: t1)) ∨
           (loopExit c1 = none ∧ ∃ env2 t2 env3 c3 t3,
              exec P G X f env1 post = some (env2, .norm, t2) ∧
              exec P G X f env2 (.loop c body post) = some (env3, c3, t3) ∧
              r = (env3, c3, t0 ++ .loopc true :: (t1 ++ (t2 ++ t3))))))) := by
  simp only [exec] at h
  cases hc : evalE G env c with
  | none => simp [hc] at h
  | some q =>
    obtain ⟨v, t0⟩ := q
    simp only [hc] at h
    cases hd : asBool v with
    | none => simp [hd] at h
    | some d =>
      refine ⟨v, t0, d, rfl, hd, ?_⟩
      cases d with
      | false =>
        simp only [hd] at h
        cases h
        exact Or.inl ⟨rfl, rfl⟩
      | true =>
        simp only [hd] at h
        refine Or.inr ⟨rfl, ?_⟩
        cases hb : exec P G X f env body with
        | none => simp [hb] at h
        | some q1 =>
          obtain ⟨env1, c1, t1⟩ := q1
          refine ⟨env1, c1, t1, rfl, ?_⟩
          have tail : ∀ (hx : (match exec P G X f env1 post with
                | some (env2, .norm, t2) =>
                  match exec P G X f env2 (.loop c body post) with
                  | some (env3, c3, t3) => some (env3, c3, t0 ++ .loopc true :: (t1 ++ (t2 ++ t3)))
                  | none => none
                | _ => none) = some r),
              ∃ env2 t2 env3 c3 t3,
                exec P G X f env1 post = some (env2, .norm, t2) ∧
                exec P G X f env2 (.loop c body post) = some (env3, c3, t3) ∧
                r = (env3, c3, t0 ++ .loopc true :: (t1 ++ (t2 ++ t3))) := by
            intro hx
            split at hx
            · rename_i env2 t2 hp
              split at hx
              · rename_i env3 c3 t3 hl
                cases hx
                exact ⟨env2, t2, env3, c3, t3, hp, hl, rfl⟩
              · cases hx
            · cases hx
          cases c1 with
          | brk =>
            simp only [hb] at h
            cases h
            exact ⟨⟨[], by simp⟩, Or.inl ⟨_, rfl, rfl⟩⟩
          | ret vs =>
            simp only [hb] at h
            cases h
            exact ⟨⟨[], by simp⟩, Or.inl ⟨_, rfl, rfl⟩⟩
          | panic =>
            simp only [hb] at h
            cases h
            exact ⟨⟨[], by simp⟩, Or.inl ⟨_, rfl, rfl⟩⟩
          | norm =>
            simp only [hb] at h
            obtain ⟨env2, t2, env3, c3, t3, hp, hl, rfl⟩ := tail h
            exact ⟨⟨t2 ++ t3, rfl⟩, Or.inr ⟨rfl, env2, t2, env3, c3, t3, hp, hl, rfl⟩⟩
          | cont =>
            simp only [hb] at h
            obtain ⟨env2, t2, env3, c3, t3, hp, hl, rfl⟩ := tail h
            exact ⟨⟨t2 ++ t3, rfl⟩, Or.inr ⟨rfl, env2, t2, env3, c3, t3, hp, hl, rfl⟩⟩

theorem exec_call_inv {lhs : List Nat} {g : Nat} {args : List Expr}
    (h : exec P G X (f + 1) env (.call lhs g args) = some r) :
    ∃ vs t0 fn envc cc t1, evalEs G env args = some (vs, t0) ∧ P[g]? = some fn ∧ fn.stub = false ∧
      vs.length = fn.nparams ∧ exec P G X f (Env.ofList vs) fn.body = some (envc, cc, t1) ∧
      r.2.2 = t0 ++ .call g :: t1 ∧
      ((∃ rs env1, cc = .ret rs ∧ env.setMany lhs rs = some env1 ∧
          r = (env1, .norm, t0 ++ .call g :: t1)) ∨
       (cc = .panic ∧ r = (env, .panic, t0 ++ .call g :: t1))) := by
  simp only [exec] at h
  split at h
  · rename_i vs t0 fn he hfn
    split at h
    · cases h
    · rename_i hcond
      simp only [Bool.or_eq_true, bne_iff_ne, ne_eq, not_or, Bool.not_eq_true, Decidable.not_not]
        at hcond
      split at h
      · rename_i envc rs t1 hx
        split at h
        · rename_i env1 hs
          cases h
          exact ⟨vs, t0, fn, envc, _, t1, he, hfn, hcond.1, hcond.2, hx, rfl,
            Or.inl ⟨rs, env1, rfl, hs, rfl⟩⟩
        · cases h
      · rename_i envc t1 hx
        cases h
        exact ⟨vs, t0, fn, envc, _, t1, he, hfn, hcond.1, hcond.2, hx, rfl, Or.inr ⟨rfl, rfl⟩⟩
      · cases h
  · cases h

theorem exec_ext_inv {lhs : List Nat} {name : Nat} {leaky : Bool} {args : List Expr}
    (h : exec P G X (f + 1) env (.ext lhs name leaky args) = some r) :
    ∃ vs t0 env1, evalEs G env args = some (vs, t0) ∧ env.setMany lhs (X name vs) = some env1 ∧
      r = (env1, .norm, t0 ++ [if leaky then .ext name vs else .obs name]) := by
  simp only [exec] at h
  split at h
  · rename_i vs t0 he
    split at h
    · rename_i env1 hs
      cases h
      exact ⟨vs, t0, env1, he, hs, rfl⟩
    · cases h
  · cases h

end ExecInv


/-! ## Statements -/

/-- the relation between the results of the two runs -/
def Concl (Γ : LEnv) (res : List Label) (r1 r2 : Res) : Prop :=
  Div r1.2.2 r2.2.2 ∨ (r1.2.2 = r2.2.2 ∧ lowEqEnv Γ r1.1 r2.1 ∧ CtlRel res r1.2.1 r2.2.1)

/-- the invariant for first runs with fuel `f1` -/
def SoundAt (P : Prog) (S : Sigs) (G : Nat → Val) (X1 X2 : Oracle) (f1 : Nat) : Prop :=
  ∀ (f2 : Nat) (Γ : LEnv) (res : List Label) (allowed : List Nat) (s : Stmt) (e1 e2 : Env)
    (r1 r2 : Res),
    checkS P S Γ res allowed s = true → lowEqEnv Γ e1 e2 →
    exec P G X1 f1 e1 s = some r1 → exec P G X2 f2 e2 s = some r2 → Concl Γ res r1 r2

theorem CtlRel_norm_iff {res : List Label} {c1 c2 : Ctl} (h : CtlRel res c1 c2) :
    c1 = .norm ↔ c2 = .norm := by
  cases c1 <;> cases c2 <;> first | exact False.elim h | simp

theorem CtlRel_loopExit {res : List Label} {c1 c2 : Ctl} (h : CtlRel res c1 c2) :
    (loopExit c1 = none ∧ loopExit c2 = none) ∨
    ∃ c1' c2', loopExit c1 = some c1' ∧ loopExit c2 = some c2' ∧ CtlRel res c1' c2' := by
  cases c1 <;> cases c2 <;> first
    | exact False.elim h
    | exact Or.inl ⟨rfl, rfl⟩
    | exact Or.inr ⟨_, _, rfl, rfl, h⟩
    | exact Or.inr ⟨_, _, rfl, rfl, trivial⟩

section Sound
variable {P : Prog} {S : Sigs} {G : Nat → Val} {X1 X2 : Oracle} {f1 f2 : Nat} {Γ : LEnv}
  {res : List Label} {allowed : List Nat} {e1 e2 : Env} {r1 r2 : Res}

theorem sound_assign {x : Nat} {p : List PathE} {e : Expr}
    (hc : checkS P S Γ res allowed (.assign x p e) = true) (hΓ : lowEqEnv Γ e1 e2)
    (h1 : exec P G X1 (f1 + 1) e1 (.assign x p e) = some r1)
    (h2 : exec P G X2 (f2 + 1) e2 (.assign x p e) = some r2) : Concl Γ res r1 r2 := by
  simp only [checkS, Bool.and_eq_true] at hc
  obtain ⟨hcp, hce⟩ := hc
  obtain ⟨v1, t1, ks1, u1, n1, he1, hp1, hu1, rfl⟩ := exec_assign_inv h1
  obtain ⟨v2, t2, ks2, u2, n2, he2, hp2, hu2, rfl⟩ := exec_assign_inv h2
  cases hle : labelE Γ e with
  | none => simp [hle] at hce
  | some le =>
    simp only [hle] at hce
    obtain ⟨rfl, hv⟩ := evalE_sound G Γ e1 e2 hΓ e le _ _ _ _ hle he1 he2
    obtain ⟨rfl, rfl⟩ := evalPath_sound G Γ e1 e2 hΓ p _ _ _ _ hcp hp1 hp2
    right
    refine ⟨rfl, lowEqEnv_set hΓ x ?_, trivial⟩
    have hv' := lowEqV_mono hce hv
    have hx := hΓ x
    generalize Γ.get x = lx at hv' hx ⊢
    cases lx
    · have ev : v1 = v2 := hv'
      have ex : e1 x = e2 x := hx
      rw [ev, ex] at hu1
      exact Option.some.inj (hu1.symm.trans hu2)
    · exact erase_updPath ks1 _ _ _ _ _ _ hx hv' hu1 hu2

theorem sound_declass {x site : Nat} {e : Expr}
    (hc : checkS P S Γ res allowed (.declass x site e) = true) (hΓ : lowEqEnv Γ e1 e2)
    (h1 : exec P G X1 (f1 + 1) e1 (.declass x site e) = some r1)
    (h2 : exec P G X2 (f2 + 1) e2 (.declass x site e) = some r2) : Concl Γ res r1 r2 := by
  simp only [checkS, Bool.and_eq_true] at hc
  obtain ⟨⟨_, hsome⟩, _⟩ := hc
  obtain ⟨n1, t1, he1, rfl⟩ := exec_declass_inv h1
  obtain ⟨n2, t2, he2, rfl⟩ := exec_declass_inv h2
  cases hle : labelE Γ e with
  | none => simp [hle] at hsome
  | some le =>
    obtain ⟨rfl, _⟩ := evalE_sound G Γ e1 e2 hΓ e le _ _ _ _ hle he1 he2
    by_cases hn : n1 = n2
    · subst hn
      right
      exact ⟨rfl, lowEqEnv_set hΓ x (lowEqV_refl _ _), trivial⟩
    · left
      exact ⟨t1, site, n1, n2, [], [], hn, rfl, rfl⟩

theorem sound_ret {es : List Expr}
    (hc : checkS P S Γ res allowed (.ret es) = true) (hΓ : lowEqEnv Γ e1 e2)
    (h1 : exec P G X1 (f1 + 1) e1 (.ret es) = some r1)
    (h2 : exec P G X2 (f2 + 1) e2 (.ret es) = some r2) : Concl Γ res r1 r2 := by
  simp only [checkS] at hc
  obtain ⟨vs1, t1, he1, rfl⟩ := exec_ret_inv h1
  obtain ⟨vs2, t2, he2, rfl⟩ := exec_ret_inv h2
  obtain ⟨rfl, hvs⟩ := evalEs_sound G Γ e1 e2 hΓ es res _ _ _ _ hc he1 he2
  right
  exact ⟨rfl, hΓ, hvs⟩

theorem sound_seq (ih : SoundAt P S G X1 X2 f1) {a b : Stmt}
    (hc : checkS P S Γ res allowed (.seq a b) = true) (hΓ : lowEqEnv Γ e1 e2)
    (h1 : exec P G X1 (f1 + 1) e1 (.seq a b) = some r1)
    (h2 : exec P G X2 (f2 + 1) e2 (.seq a b) = some r2) : Concl Γ res r1 r2 := by
  simp only [checkS, Bool.and_eq_true] at hc
  obtain ⟨env1, c1, t1, ha1, ⟨u1, hu1⟩, hr1⟩ := exec_seq_inv h1
  obtain ⟨env2, c2, t2, ha2, ⟨u2, hu2⟩, hr2⟩ := exec_seq_inv h2
  rcases ih f2 Γ res allowed a e1 e2 _ _ hc.1 hΓ ha1 ha2 with hd | ⟨ht, hE, hC⟩
  · left
    rw [hu1, hu2]
    exact hd.append_right _ _
  · simp only at ht hE hC
    subst ht
    have hnn := CtlRel_norm_iff hC
    rcases hr1 with ⟨hn1, env1', c1', t1', hb1, rfl⟩ | ⟨hn1, rfl⟩
    · rcases hr2 with ⟨_, env2', c2', t2', hb2, rfl⟩ | ⟨hn2, _⟩
      · rcases ih f2 Γ res allowed b env1 env2 _ _ hc.2 hE hb1 hb2 with hd | ⟨ht, hE', hC'⟩
        · left
          exact hd.append_left _
        · right
          simp only at ht hE' hC' ⊢
          subst ht
          exact ⟨rfl, hE', hC'⟩
      · exact absurd (hnn.1 hn1) hn2
    · rcases hr2 with ⟨hn2, _⟩ | ⟨_, rfl⟩
      · exact absurd (hnn.2 hn2) hn1
      · right
        exact ⟨rfl, hE, hC⟩

theorem sound_ite (ih : SoundAt P S G X1 X2 f1) {c : Expr} {a b : Stmt}
    (hc : checkS P S Γ res allowed (.ite c a b) = true) (hΓ : lowEqEnv Γ e1 e2)
    (h1 : exec P G X1 (f1 + 1) e1 (.ite c a b) = some r1)
    (h2 : exec P G X2 (f2 + 1) e2 (.ite c a b) = some r2) : Concl Γ res r1 r2 := by
  simp only [checkS, Bool.and_eq_true, beq_iff_eq] at hc
  obtain ⟨⟨hlc, hca⟩, hcb⟩ := hc
  obtain ⟨v1, t01, d1, env1, c1, t1, hc1, hd1, hx1, rfl⟩ := exec_ite_inv h1
  obtain ⟨v2, t02, d2, env2, c2, t2, hc2, hd2, hx2, rfl⟩ := exec_ite_inv h2
  obtain ⟨rfl, hv⟩ := evalE_sound G Γ e1 e2 hΓ c .L _ _ _ _ hlc hc1 hc2
  have ev : v1 = v2 := hv
  subst ev
  have ed : d1 = d2 := Option.some.inj (hd1.symm.trans hd2)
  subst ed
  have hcs : checkS P S Γ res allowed (if d1 then a else b) = true := by
    cases d1
    · simpa using hcb
    · simpa using hca
  rcases ih f2 Γ res allowed _ e1 e2 _ _ hcs hΓ hx1 hx2 with hd | ⟨ht, hE, hC⟩
  · left
    exact (hd.cons _).append_left _
  · right
    simp only at ht hE hC ⊢
    subst ht
    exact ⟨rfl, hE, hC⟩

theorem sound_loop (ih : SoundAt P S G X1 X2 f1) {c : Expr} {body post : Stmt}
    (hc0 : checkS P S Γ res allowed (.loop c body post) = true) (hΓ : lowEqEnv Γ e1 e2)
    (h1 : exec P G X1 (f1 + 1) e1 (.loop c body post) = some r1)
    (h2 : exec P G X2 (f2 + 1) e2 (.loop c body post) = some r2) : Concl Γ res r1 r2 := by
  have hc := hc0
  simp only [checkS, Bool.and_eq_true, beq_iff_eq] at hc
  obtain ⟨⟨hlc, hcb⟩, hcp⟩ := hc
  obtain ⟨v1, t01, d1, hc1, hd1, hr1⟩ := exec_loop_inv h1
  obtain ⟨v2, t02, d2, hc2, hd2, hr2⟩ := exec_loop_inv h2
  obtain ⟨rfl, hv⟩ := evalE_sound G Γ e1 e2 hΓ c .L _ _ _ _ hlc hc1 hc2
  have ev : v1 = v2 := hv
  subst ev
  have ed : d1 = d2 := Option.some.inj (hd1.symm.trans hd2)
  subst ed
  rcases hr1 with ⟨hf1, rfl⟩ | ⟨ht1, env1, c1, t1, hb1, ⟨u1, hu1⟩, hk1⟩
  · rcases hr2 with ⟨_, rfl⟩ | ⟨ht2, _⟩
    · right
      exact ⟨rfl, hΓ, trivial⟩
    · rw [hf1] at ht2; cases ht2
  · rcases hr2 with ⟨hf2, _⟩ | ⟨_, env2, c2, t2, hb2, ⟨u2, hu2⟩, hk2⟩
    · rw [ht1] at hf2; cases hf2
    · rcases ih f2 Γ res allowed body e1 e2 _ _ hcb hΓ hb1 hb2 with hd | ⟨ht, hE, hC⟩
      · left
        rw [hu1, hu2]
        exact ((hd.append_right _ _).cons _).append_left _
      · simp only at ht hE hC
        subst ht
        rcases CtlRel_loopExit hC with ⟨hn1, hn2⟩ | ⟨c1', c2', he1, he2, hC'⟩
        · rcases hk1 with ⟨c', he, _⟩ | ⟨_, env12, t12, env13, c13, t13, hp1, hl1, rfl⟩
          · rw [hn1] at he; cases he
          · rcases hk2 with ⟨c', he, _⟩ | ⟨_, env22, t22, env23, c23, t23, hp2, hl2, rfl⟩
            · rw [hn2] at he; cases he
            · rcases ih f2 Γ res allowed post env1 env2 _ _ hcp hE hp1 hp2 with
                hd | ⟨ht, hE2, hC2⟩
              · left
                exact (((hd.append_right _ _).append_left _).cons _).append_left _
              · simp only at ht hE2 hC2
                subst ht
                rcases ih f2 Γ res allowed (.loop c body post) env12 env22 _ _ hc0 hE2 hl1 hl2 with
                  hd | ⟨ht, hE3, hC3⟩
                · left
                  exact (((hd.append_left _).append_left _).cons _).append_left _
                · right
                  simp only at ht hE3 hC3 ⊢
                  subst ht
                  exact ⟨rfl, hE3, hC3⟩
        · rcases hk1 with ⟨c', he, rfl⟩ | ⟨hn, _⟩
          · rw [he1] at he; cases he
            rcases hk2 with ⟨c'', he', rfl⟩ | ⟨hn, _⟩
            · rw [he2] at he'; cases he'
              right
              exact ⟨rfl, hE, hC'⟩
            · rw [he2] at hn; cases hn
          · rw [he1] at hn; cases hn

theorem sound_call (hP : checkAll P S 0 P = true) (ih : SoundAt P S G X1 X2 f1)
    {lhs : List Nat} {g : Nat} {args : List Expr}
    (hc : checkS P S Γ res allowed (.call lhs g args) = true) (hΓ : lowEqEnv Γ e1 e2)
    (h1 : exec P G X1 (f1 + 1) e1 (.call lhs g args) = some r1)
    (h2 : exec P G X2 (f2 + 1) e2 (.call lhs g args) = some r2) : Concl Γ res r1 r2 := by
  simp only [checkS] at hc
  obtain ⟨vs1, t01, fn1, envc1, cc1, t1, hev1, hfn1, hst1, hlen1, hx1, htr1, hr1⟩ := exec_call_inv h1
  obtain ⟨vs2, t02, fn2, envc2, cc2, t2, hev2, hfn2, hst2, hlen2, hx2, htr2, hr2⟩ := exec_call_inv h2
  have efn : fn1 = fn2 := Option.some.inj (hfn1.symm.trans hfn2)
  subst efn
  cases hfs : S.fn[g]? with
  | none => simp [hfs] at hc
  | some fs =>
    simp only [hfs, hfn1, Bool.and_eq_true] at hc
    obtain ⟨⟨_, hargs⟩, hlhs⟩ := hc
    obtain ⟨rfl, hvs⟩ := evalEs_sound G Γ e1 e2 hΓ args fs.params _ _ _ _ hargs hev1 hev2
    obtain ⟨hpl, htake, hbody⟩ := checkAll_fn hP hfn1 hfs hst1
    have hΓ' := lowEqEnv_ofList (gammaOf S fs fn1) fs.params fn1.nparams htake hpl vs1 vs2 hvs
    rcases ih f2 _ fs.results fs.declass fn1.body _ _ _ _ hbody hΓ' hx1 hx2 with hd | ⟨ht, _, hC⟩
    · left
      rw [htr1, htr2]
      exact (hd.cons _).append_left _
    · simp only at ht hC
      subst ht
      rcases hr1 with ⟨rs1, env1, rfl, hs1, rfl⟩ | ⟨rfl, rfl⟩
      · rcases hr2 with ⟨rs2, env2, rfl, hs2, rfl⟩ | ⟨rfl, _⟩
        · right
          exact ⟨rfl, lowEqEnv_setMany lhs fs.results rs1 rs2 _ _ _ _ hlhs hC hΓ hs1 hs2, trivial⟩
        · exact False.elim hC
      · rcases hr2 with ⟨rs2, env2, rfl, _, _⟩ | ⟨rfl, rfl⟩
        · exact False.elim hC
        · right
          exact ⟨rfl, hΓ, trivial⟩

theorem sound_ext (hX : OracleRel S X1 X2) {lhs : List Nat} {name : Nat} {leaky : Bool}
    {args : List Expr}
    (hc : checkS P S Γ res allowed (.ext lhs name leaky args) = true) (hΓ : lowEqEnv Γ e1 e2)
    (h1 : exec P G X1 (f1 + 1) e1 (.ext lhs name leaky args) = some r1)
    (h2 : exec P G X2 (f2 + 1) e2 (.ext lhs name leaky args) = some r2) : Concl Γ res r1 r2 := by
  simp only [checkS] at hc
  obtain ⟨vs1, t01, env1, hev1, hs1, rfl⟩ := exec_ext_inv h1
  obtain ⟨vs2, t02, env2, hev2, hs2, rfl⟩ := exec_ext_inv h2
  cases hrl : S.ext[name]? with
  | none => simp [hrl] at hc
  | some rl =>
    simp only [hrl, Bool.and_eq_true] at hc
    obtain ⟨hlhs, hargs⟩ := hc
    have hgetD : S.ext.getD name [] = rl := by
      rw [List.getD_eq_getElem?_getD, hrl]; rfl
    cases leaky with
    | true =>
      simp only [if_true] at hargs
      obtain ⟨rfl, hvs⟩ := evalEs_sound G Γ e1 e2 hΓ args _ _ _ _ _ hargs hev1 hev2
      have evs := lowEqList_allL _ _ _ hvs
      subst evs
      have hres := hX.1 name vs1
      rw [hgetD] at hres
      right
      exact ⟨rfl, lowEqEnv_setMany lhs rl _ _ _ _ _ _ hlhs hres hΓ hs1 hs2, trivial⟩
    | false =>
      simp only [Bool.false_eq_true, if_false, Bool.and_eq_true] at hargs
      obtain ⟨hargs, hallH⟩ := hargs
      obtain ⟨rfl, hvs⟩ := evalEs_sound G Γ e1 e2 hΓ args _ _ _ _ _ hargs hev1 hev2
      have he := hX.2 name vs1 vs2 (lowEqList_eraseL _ _ _ hvs)
      have hlen : (X1 name vs1).length = rl.length := by
        rw [← setMany_length _ _ _ _ hs1, checkLhs_length _ _ hlhs]
      have hres := lowEqList_allH rl _ _ hallH he hlen
      right
      exact ⟨rfl, lowEqEnv_setMany lhs rl _ _ _ _ _ _ hlhs hres hΓ hs1 hs2, trivial⟩

end Sound

theorem soundAt_all (P : Prog) (S : Sigs) (G : Nat → Val) (X1 X2 : Oracle) (hX : OracleRel S X1 X2)
    (hP : checkAll P S 0 P = true) : ∀ f1, SoundAt P S G X1 X2 f1 := by
  intro f1
  induction f1 with
  | zero =>
    intro f2 Γ res allowed s e1 e2 r1 r2 _ _ h1 _
    simp [exec] at h1
  | succ f1 ih =>
    intro f2 Γ res allowed s e1 e2 r1 r2 hc hΓ h1 h2
    cases f2 with
    | zero => simp [exec] at h2
    | succ f2 =>
      cases s with
      | skip =>
        simp only [exec] at h1 h2
        cases h1; cases h2
        exact Or.inr ⟨rfl, hΓ, trivial⟩
      | brk =>
        simp only [exec] at h1 h2
        cases h1; cases h2
        exact Or.inr ⟨rfl, hΓ, trivial⟩
      | cont =>
        simp only [exec] at h1 h2
        cases h1; cases h2
        exact Or.inr ⟨rfl, hΓ, trivial⟩
      | panic =>
        simp only [exec] at h1 h2
        cases h1; cases h2
        exact Or.inr ⟨rfl, hΓ, trivial⟩
      | assign x p e => exact sound_assign hc hΓ h1 h2
      | declass x site e => exact sound_declass hc hΓ h1 h2
      | ret es => exact sound_ret hc hΓ h1 h2
      | seq a b => exact sound_seq ih hc hΓ h1 h2
      | ite c a b => exact sound_ite ih hc hΓ h1 h2
      | loop c body post => exact sound_loop ih hc hΓ h1 h2
      | call lhs g args => exact sound_call hP ih hc hΓ h1 h2
      | ext lhs name leaky args => exact sound_ext hX hc hΓ h1 h2

/-! ## The theorems -/

/-- main invariant, by induction on fuel -/
theorem exec_sound (P : Prog) (S : Sigs) (G : Nat → Val) (X1 X2 : Oracle) (hX : OracleRel S X1 X2)
    (hP : checkAll P S 0 P = true) :
    ∀ (f1 f2 : Nat) (Γ : LEnv) (res : List Label) (allowed : List Nat) (s : Stmt) (e1 e2 : Env)
      (r1 r2 : Res),
      checkS P S Γ res allowed s = true → lowEqEnv Γ e1 e2 →
      exec P G X1 f1 e1 s = some r1 → exec P G X2 f2 e2 s = some r2 →
      Div r1.2.2 r2.2.2 ∨ (r1.2.2 = r2.2.2 ∧ lowEqEnv Γ r1.1 r2.1 ∧ CtlRel res r1.2.1 r2.2.1) :=
  fun f1 f2 Γ res allowed s e1 e2 r1 r2 hc hΓ h1 h2 =>
    soundAt_all P S G X1 X2 hX hP f1 f2 Γ res allowed s e1 e2 r1 r2 hc hΓ h1 h2

theorem run_inv {P : Prog} {G : Nat → Val} {X : Oracle} {f g : Nat} {args : List Val} {c : Ctl}
    {t : Trace} (h : run P G X f g args = some (c, t)) :
    ∃ fn env' t', P[g]? = some fn ∧ fn.stub = false ∧ args.length = fn.nparams ∧
      exec P G X f (Env.ofList args) fn.body = some (env', c, t') ∧ t = .call g :: t' := by
  unfold run at h
  split at h
  · rename_i fn hfn
    split at h
    · cases h
    · rename_i hcond
      simp only [Bool.or_eq_true, bne_iff_ne, ne_eq, not_or, Bool.not_eq_true, Decidable.not_not]
        at hcond
      split at h
      · rename_i env' c' t' hx
        cases h
        exact ⟨fn, env', t', hfn, hcond.1, hcond.2, hx, rfl⟩
      · cases h
  · cases h

theorem check_sound (P : Prog) (S : Sigs) (G : Nat → Val) (X1 X2 : Oracle) (hX : OracleRel S X1 X2)
    (g : Nat) (hc : check P S g = true) (fs : FnSig) (hfs : S.fn[g]? = some fs)
    (a1 a2 : List Val) (ha : lowEqList fs.params a1 a2)
    (f1 f2 : Nat) (c1 c2 : Ctl) (t1 t2 : Trace)
    (h1 : run P G X1 f1 g a1 = some (c1, t1)) (h2 : run P G X2 f2 g a2 = some (c2, t2)) :
    Div t1 t2 ∨ (t1 = t2 ∧ CtlRel fs.results c1 c2) := by
  have hP : checkAll P S 0 P = true := by
    unfold check at hc
    simp only [Bool.and_eq_true] at hc
    exact hc.2
  obtain ⟨fn1, env1, u1, hfn1, hst1, _, hx1, rfl⟩ := run_inv h1
  obtain ⟨fn2, env2, u2, hfn2, _, _, hx2, rfl⟩ := run_inv h2
  have efn : fn1 = fn2 := Option.some.inj (hfn1.symm.trans hfn2)
  subst efn
  obtain ⟨hpl, htake, hbody⟩ := checkAll_fn hP hfn1 hfs hst1
  have hΓ' := lowEqEnv_ofList (gammaOf S fs fn1) fs.params fn1.nparams htake hpl a1 a2 ha
  rcases exec_sound P S G X1 X2 hX hP f1 f2 _ fs.results fs.declass fn1.body _ _ _ _ hbody hΓ'
    hx1 hx2 with hd | ⟨ht, _, hC⟩
  · left
    exact hd.cons _
  · right
    simp only at ht hC
    subst ht
    exact ⟨rfl, hC⟩

/-- the form quoted by property C08: equal declassified verdicts ⇒ equal traces -/
theorem check_sound_trace (P : Prog) (S : Sigs) (G : Nat → Val) (X1 X2 : Oracle)
    (hX : OracleRel S X1 X2)
    (g : Nat) (hc : check P S g = true) (fs : FnSig) (hfs : S.fn[g]? = some fs)
    (a1 a2 : List Val) (ha : lowEqList fs.params a1 a2)
    (f1 f2 : Nat) (c1 c2 : Ctl) (t1 t2 : Trace)
    (h1 : run P G X1 f1 g a1 = some (c1, t1)) (h2 : run P G X2 f2 g a2 = some (c2, t2))
    (hd : declassOf t1 = declassOf t2) : t1 = t2 ∧ CtlRel fs.results c1 c2 := by
  rcases check_sound P S G X1 X2 hX g hc fs hfs a1 a2 ha f1 f2 c1 c2 t1 t2 h1 h2 with h | h
  · exact absurd hd h.declass_ne
  · exact h

#print axioms exec_sound
#print axioms check_sound
#print axioms check_sound_trace

end SMGo.Model.CTIR
