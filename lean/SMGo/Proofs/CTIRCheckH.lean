/-
  C08, part H: completion of the point operations on concrete inputs (kernel evaluation of the
  interpreter: each of these runs a dozen field multiplications of ~600 IR statements each).
-/
import SMGo.Proofs.CTIRCheckG
open SMGo.Model.CTIR SMGo.Gen.CTIRProg
set_option maxRecDepth 1000000
namespace SMGo.Proofs.CTIRCheck

theorem runs_Add : completes f_internal_SM2Point_Add [ptV 0 0 0, ptV 5 7 1, ptV 9 4 1] = true := by decide +kernel
theorem runs_Double : completes f_internal_SM2Point_Double [ptV 0 0 0, ptV 5 7 1] = true := by decide +kernel

end SMGo.Proofs.CTIRCheck
