/-
  The crypto/cipher AEAD buffer contract for the Go glue of sm4_gcm_amd64.go, derived from the
  closed forms of `Proofs/GCMGlue.lean`: predicates used in the statements of property C10
  (`InRegion`, `UnchangedOutside`, `Disjoint`, `ExactOverlap`, `Admissible`) and the contract
  lemmas for a generic `GcmAsm` whose assembly has the right output lengths (`AsmLens`).
  Core Lean only.
-/
import SMGo.Model.GCMGlue
import SMGo.Proofs.Slice
import SMGo.Proofs.GCMGlue
namespace SMGo.Proofs.GCMGlue
open SMGo SMGo.Model SMGo.Model.Mem SMGo.Model.GCMGlue SMGo.Proofs.Slice

/-! ### the vocabulary of the contract -/

/-- byte `i` of array `a` is one of the `n` bytes behind `ret[:k]` -/
def InRegion (ret : Slice) (k n a i : Nat) : Prop :=
  ret.arr = some a ∧ ret.off + k ≤ i ∧ i < ret.off + k + n

/-- nothing of the old heap changed outside the region `R`: no array disappeared or changed its
    length, and every byte outside `R` is what it was -/
def UnchangedOutside (h h' : Heap) (R : Nat → Nat → Prop) : Prop :=
  h.length ≤ h'.length ∧
  (∀ a, a < h.length → (arrayOf h' a).length = (arrayOf h a).length) ∧
  (∀ a i, a < h.length → ¬ R a i → byteAt h' a i = byteAt h a i)

/-- the empty region -/
def Nowhere : Nat → Nat → Prop := fun _ _ => False

/-- `s` shows no byte of dst's spare capacity `dst[len(dst):cap(dst)]` (the only place of the old
    heap a call may write to): another array, or entirely before it, or entirely behind it.
    "Disjoint from dst's array" (`s.arr ≠ dst.arr`) is the first alternative. -/
def Disjoint (dst s : Slice) : Prop :=
  s.arr ≠ dst.arr ∨ s.off + s.len ≤ dst.off + dst.len ∨ dst.off + dst.cap ≤ s.off

/-- `s` begins exactly where the output will begin, in dst's array: the overlap the AEAD contract
    allows.  `dst = s[:0]` is the case `dst.len = 0`. -/
def ExactOverlap (dst s : Slice) : Prop :=
  s.arr = dst.arr ∧ s.off = dst.off + dst.len

/-- the in-place idiom: dst is the zero-length prefix of the text, `text[:0]` -/
def IsPrefix0 (dst text : Slice) : Prop := dst = { text with len := 0 }

/-- the calls the AEAD contract (and this model) speaks about: nonce and additional data do not
    meet the output region; the text does not meet it or overlaps it exactly -/
def Admissible (dst nonce text aad : Slice) : Prop :=
  Disjoint dst nonce ∧ Disjoint dst aad ∧ (Disjoint dst text ∨ ExactOverlap dst text)

theorem exactOverlap_of_prefix0 (dst text : Slice) (hp : IsPrefix0 dst text) :
    ExactOverlap dst text := by
  unfold IsPrefix0 at hp; subst hp; simp [ExactOverlap]

/-- dst's own bytes do not meet its spare capacity -/
theorem disjoint_self (dst : Slice) : Disjoint dst dst := Or.inr (Or.inl (Nat.le_refl _))

/-! ### consequences of `UnchangedOutside` -/

theorem unchanged_refl (h : Heap) (R : Nat → Nat → Prop) : UnchangedOutside h h R :=
  ⟨Nat.le_refl _, fun _ _ => rfl, fun _ _ _ _ => rfl⟩

theorem unchanged_append (h : Heap) (x : Bytes) (R : Nat → Nat → Prop) :
    UnchangedOutside h (h ++ [x]) R :=
  ⟨by simp, fun a ha => by rw [arrayOf_append_left h x a ha],
   fun a i ha _ => byteAt_append_left h x a i ha⟩

theorem unchanged_poke (h : Heap) (a off : Nat) (bs : Bytes) (ha : a < h.length)
    (hb : off + bs.length ≤ (arrayOf h a).length) (R : Nat → Nat → Prop)
    (hR : ∀ i, off ≤ i → i < off + bs.length → R a i) :
    UnchangedOutside h (poke h a off bs) R := by
  refine ⟨by rw [length_poke]; exact Nat.le_refl _, fun b _ => length_arrayOf_poke h a b off bs hb, ?_⟩
  intro b i _ hout
  apply byteAt_poke_outside h a b off i bs ha (by omega)
  intro ⟨h1, h2, h3⟩
  subst h1
  exact hout (hR i h2 h3)

/-- well-formedness only depends on which arrays exist and how long they are -/
theorem WF_of_unchanged (h h' : Heap) (R : Nat → Nat → Prop) (hu : UnchangedOutside h h' R)
    (s : Slice) (hwf : WF h s) : WF h' s := by
  obtain ⟨arr, o, len, cap⟩ := s
  cases arr with
  | none => exact hwf
  | some a =>
    obtain ⟨h1, h2, h3⟩ := hwf
    exact ⟨h1, Nat.lt_of_lt_of_le h2 hu.1, by rw [hu.2.1 a h2]; exact h3⟩

/-! ### Seal -/

/-- Seal follows the append rule.  The last clause says that every slice (key, nonce, additional
    data, plaintext, anything else) that does not meet dst's spare capacity shows the same bytes
    afterwards; `UnchangedOutside` says the same byte by byte. -/
theorem seal_contract (g : GcmAsm) (hl : AsmLens g) (ht : 0 < g.tagSize)
    (h : Heap) (dst nonce pt aad : Slice)
    (hwf : WF h dst) (hwn : WF h nonce) (hwp : WF h pt) (hwa : WF h aad)
    (hn : nonce.len = g.nonceSize) (hp : pt.len ≤ maxPlain) :
    ∃ h' ret, GCMGlue.seal g h dst nonce pt aad = .ok (h', ret) ∧
      WF h' ret ∧
      Mem.read h' ret = Mem.read h dst ++ sealBytes g h nonce pt aad ∧
      (Shares ret dst ↔ dst.arr ≠ none ∧ pt.len + g.tagSize ≤ dst.cap - dst.len) ∧
      (pt.len + g.tagSize ≤ dst.cap - dst.len →
        ret = { dst with len := dst.len + (pt.len + g.tagSize) }) ∧
      UnchangedOutside h h' (InRegion ret dst.len (pt.len + g.tagSize)) ∧
      (∀ s, WF h s → Disjoint dst s → Mem.read h' s = Mem.read h s) := by
  have hlen : (sealBytes g h nonce pt aad).length = pt.len + g.tagSize := by
    rw [sealBytes, hl.seal_len, length_read h pt hwp]
  have hlenle := hwf.1
  by_cases hroom : pt.len + g.tagSize ≤ dst.cap - dst.len
  · obtain ⟨a, hs, ha, hcap, he⟩ := seal_room g h dst nonce pt aad hl ht hwf hwp hn hp hroom
    have hb : dst.off + dst.len + (sealBytes g h nonce pt aad).length ≤ (arrayOf h a).length := by
      rw [hlen]; omega
    refine ⟨_, _, he, ?_, ?_, ?_, fun _ => rfl, ?_, ?_⟩
    · apply WF_poke h a _ _ _ hb
      obtain ⟨arr, o, len, cap⟩ := dst
      simp at hs; subst hs
      exact ⟨by simp at hroom hlenle ⊢; omega, ha, hcap⟩
    · have := read_poke_extend h a (sealBytes g h nonce pt aad) dst hs ha hb
      rw [hlen] at this; exact this
    · simp [Shares, hs, hroom]
    · apply unchanged_poke h a _ _ ha hb
      intro i h1 h2
      rw [hlen] at h2
      exact ⟨hs, h1, h2⟩
    · intro s _ hd
      apply read_poke_apart h a _ _ s ha hb
      rw [hlen]
      rcases hd with hd | hd | hd
      · left; rw [hs] at hd; exact hd
      · right; left; exact hd
      · right; right; omega
  · have he := seal_expand g h dst nonce pt aad hl ht hwf hwn hwp hwa hn hp hroom
    have hrl := length_read h dst hwf
    refine ⟨_, _, he, ?_, ?_, ?_, fun hr => absurd hr hroom, unchanged_append h _ _, ?_⟩
    · refine ⟨Nat.le_refl _, by simp, ?_⟩
      show 0 + (dst.len + (pt.len + g.tagSize)) ≤ (arrayOf _ h.length).length
      rw [arrayOf_append_new]; simp [hrl, hlen]
    · show ((arrayOf (h ++ [_]) h.length).drop 0).take (dst.len + (pt.len + g.tagSize)) = _
      rw [arrayOf_append_new]
      simp only [List.drop_zero]
      apply List.take_of_length_le
      simp [hrl, hlen]
    · constructor
      · intro ⟨h1, _, _⟩
        exfalso
        obtain ⟨arr, o, len, cap⟩ := dst
        simp [fresh] at h1; subst h1
        exact Nat.lt_irrefl _ hwf.2.1
      · intro ⟨_, h2⟩; exact absurd h2 hroom
    · intro s hws _; exact read_append_heap h _ s hws

/-! ### Open -/

/-- Open on a tag match follows the append rule; an empty plaintext included (then `ret` is dst
    itself, nil stays nil) -/
theorem open_contract_ok (g : GcmAsm) (hl : AsmLens g) (ht : gcmMinimumTagSize ≤ g.tagSize)
    (h : Heap) (dst nonce ct aad : Slice)
    (hwf : WF h dst) (hwn : WF h nonce) (hwc : WF h ct) (hwa : WF h aad)
    (hn : nonce.len = g.nonceSize) (h1 : g.tagSize ≤ ct.len) (h2 : ct.len ≤ maxPlain + g.tagSize)
    (p : Bytes) (hv : openVal g h nonce ct aad = some p) :
    ∃ h' ret, GCMGlue.open g h dst nonce ct aad = .ok (h', some ret) ∧
      WF h' ret ∧
      Mem.read h' ret = Mem.read h dst ++ p ∧
      (Shares ret dst ↔ dst.arr ≠ none ∧ ct.len - g.tagSize ≤ dst.cap - dst.len) ∧
      (ct.len - g.tagSize ≤ dst.cap - dst.len →
        ret = { dst with len := dst.len + (ct.len - g.tagSize) }) ∧
      UnchangedOutside h h' (InRegion ret dst.len (ct.len - g.tagSize)) ∧
      (∀ s, WF h s → Disjoint dst s → Mem.read h' s = Mem.read h s) := by
  have hplen : p.length = ct.len - g.tagSize := by
    rw [hl.open_len _ _ _ p hv, length_read h ct hwc]
  have hlenle := hwf.1
  by_cases hroom : ct.len - g.tagSize ≤ dst.cap - dst.len
  · have he := open_room_ok g h dst nonce ct aad hl hwf hwc hn ht h1 h2 hroom p hv
    by_cases hpe : p = []
    · -- nothing stored: the heap is the same, the result is dst
      subst hpe
      have hz : ct.len - g.tagSize = 0 := by simpa using hplen.symm
      have hh : storeBehind h dst [] = h := by unfold storeBehind; cases dst.arr <;> simp
      rw [hh] at he
      have hret : ({ dst with len := dst.len + (ct.len - g.tagSize) } : Slice) = dst := by
        rw [hz]; cases dst; rfl
      rw [hret] at he
      refine ⟨_, _, he, hwf, by simp, ?_, fun _ => hret.symm, unchanged_refl h _, fun _ _ _ => rfl⟩
      simp [Shares, hz]
    · have hpos : 0 < p.length := by
        cases p with
        | nil => exact absurd rfl hpe
        | cons => simp
      obtain ⟨a, hs, ha, hcap⟩ := arr_of_cap_pos h dst hwf (by omega)
      have hne : p.isEmpty = false := by
        cases p with
        | nil => exact absurd rfl hpe
        | cons => rfl
      have hh : storeBehind h dst p = poke h a (dst.off + dst.len) p := by
        simp [storeBehind, hs, hne]
      rw [hh] at he
      have hb : dst.off + dst.len + p.length ≤ (arrayOf h a).length := by rw [hplen]; omega
      refine ⟨_, _, he, ?_, ?_, ?_, fun _ => rfl, ?_, ?_⟩
      · apply WF_poke h a _ _ _ hb
        obtain ⟨arr, o, len, cap⟩ := dst
        simp at hs; subst hs
        exact ⟨by simp at hroom hlenle ⊢; omega, ha, hcap⟩
      · have := read_poke_extend h a p dst hs ha hb
        rw [hplen] at this; exact this
      · simp [Shares, hs, hroom]
      · apply unchanged_poke h a _ _ ha hb
        intro i h1 h2
        rw [hplen] at h2
        exact ⟨hs, h1, h2⟩
      · intro s _ hd
        apply read_poke_apart h a _ _ s ha hb
        rw [hplen]
        rcases hd with hd | hd | hd
        · left; rw [hs] at hd; exact hd
        · right; left; exact hd
        · right; right; omega
  · have he := open_expand_ok g h dst nonce ct aad hl hwf hwn hwc hwa hn ht h1 h2 hroom p hv
    have hrl := length_read h dst hwf
    refine ⟨_, _, he, ?_, ?_, ?_, fun hr => absurd hr hroom, unchanged_append h _ _, ?_⟩
    · refine ⟨Nat.le_refl _, by simp, ?_⟩
      show 0 + (dst.len + (ct.len - g.tagSize)) ≤ (arrayOf _ h.length).length
      rw [arrayOf_append_new]; simp [hrl, hplen]
    · show ((arrayOf (h ++ [_]) h.length).drop 0).take (dst.len + (ct.len - g.tagSize)) = _
      rw [arrayOf_append_new]
      simp only [List.drop_zero]
      apply List.take_of_length_le
      simp [hrl, hplen]
    · constructor
      · intro ⟨h1, _, _⟩
        exfalso
        obtain ⟨arr, o, len, cap⟩ := dst
        simp [fresh] at h1; subst h1
        exact Nat.lt_irrefl _ hwf.2.1
      · intro ⟨_, h2⟩; exact absurd h2 hroom
    · intro s hws _; exact read_append_heap h _ s hws

/-- Open fails (`(nil, errOpen)`) when the ciphertext is shorter than the tag, too long, or the
    tags differ; then not one byte of the old heap changed, and the only thing that can have
    happened is the allocation of dst ‖ zeros by `ensureCapacity` (garbage, holds no plaintext) -/
theorem open_contract_err (g : GcmAsm) (ht : gcmMinimumTagSize ≤ g.tagSize)
    (h : Heap) (dst nonce ct aad : Slice)
    (hwf : WF h dst) (hwn : WF h nonce) (hwc : WF h ct) (hwa : WF h aad)
    (hn : nonce.len = g.nonceSize)
    (hv : ct.len < g.tagSize ∨ ct.len > maxPlain + g.tagSize ∨ openVal g h nonce ct aad = none) :
    ∃ h', GCMGlue.open g h dst nonce ct aad = .ok (h', none) ∧
      (h' = h ∨ h' = h ++ [Mem.read h dst ++ List.replicate (ct.len - g.tagSize) 0]) ∧
      UnchangedOutside h h' Nowhere ∧
      (∀ s, WF h s → Mem.read h' s = Mem.read h s) := by
  by_cases hs : ct.len < g.tagSize ∨ ct.len > maxPlain + g.tagSize
  · exact ⟨h, open_short g h dst nonce ct aad hn ht hs, Or.inl rfl, unchanged_refl h _, fun _ _ => rfl⟩
  · have h1 : g.tagSize ≤ ct.len := by omega
    have h2 : ct.len ≤ maxPlain + g.tagSize := by omega
    have hv' : openVal g h nonce ct aad = none := by
      rcases hv with hv | hv | hv
      · omega
      · omega
      · exact hv
    by_cases hroom : ct.len - g.tagSize ≤ dst.cap - dst.len
    · exact ⟨h, open_room_fail g h dst nonce ct aad hwf hn ht h1 h2 hroom hv', Or.inl rfl,
        unchanged_refl h _, fun _ _ => rfl⟩
    · exact ⟨_, open_expand_fail g h dst nonce ct aad hwf hwn hwc hwa hn ht h1 h2 hroom hv',
        Or.inr rfl, unchanged_append h _ _, fun s hws => read_append_heap h _ s hws⟩

end SMGo.Proofs.GCMGlue
