import SMGo.Proofs.ISAValX1
import SMGo.Proofs.SM4Block
namespace SMGo.Proofs.ISAVal
open SMGo.Model.ISAVal SMGo

theorem ofNat_rotl32 (r y : Nat) (hr : r < 32) (hy : y < 2 ^ 32) :
    BitVec.ofNat 32 (rotl32 r y) = (BitVec.ofNat 32 y).rotateLeft r := by
  apply BitVec.eq_of_toNat_eq
  rw [BitVec.rotateLeft_def]
  simp only [rotl32, BitVec.toNat_ofNat, BitVec.toNat_or, BitVec.toNat_shiftLeft, BitVec.toNat_ushiftRight,
    Nat.mod_eq_of_lt hr, Nat.mod_eq_of_lt hy, Nat.mod_mod]
  rw [Nat.or_mod_two_pow]
  congr 1
  exact (Nat.mod_eq_of_lt (Nat.lt_of_le_of_lt (Nat.shiftRight_le _ _) hy))


theorem sboxByte_lt (b : Nat) : sboxByte b < 256 := affineByte_lt _ _ _

theorem tauN_lt (y : Nat) : tauN y < 2 ^ 32 := by
  have := unlanes_lt 8 ((lanes 8 4 y).map sboxByte) (by
    intro x hx
    simp only [List.mem_map] at hx
    obtain ⟨p, _, rfl⟩ := hx
    exact sboxByte_lt p)
  simpa [tauN, lanes_length] using this

theorem ofNat_tauN (y : Nat) (hy : y < 2 ^ 32) : BitVec.ofNat 32 (tauN y) = Spec.SM4.tau (BitVec.ofNat 32 y) := by
  rw [SM4.spec_tau_eq]
  simp only [BitVec.toNat_ushiftRight, BitVec.toNat_ofNat, Nat.mod_eq_of_lt hy]
  have e0 : y % 256 = lane 8 0 y := by simp [lane]
  have e1 : (y >>> 8) % 256 = lane 8 1 y := by simp [lane]
  have e2 : (y >>> 16) % 256 = lane 8 2 y := by simp [lane]
  have e3 : (y >>> 24) % 256 = lane 8 3 y := by simp [lane]
  rw [e0, e1, e2, e3, ← sboxByte_eq _ (lane_lt 8 0 y), ← sboxByte_eq _ (lane_lt 8 1 y),
    ← sboxByte_eq _ (lane_lt 8 2 y), ← sboxByte_eq _ (lane_lt 8 3 y)]
  congr 1
  simp only [tauN, lanes84, List.map_cons, List.map_nil, unlanes_cons, unlanes_nil]
  omega

theorem ofNat_LN (y : Nat) (hy : y < 2 ^ 32) : BitVec.ofNat 32 (LN y) = Spec.SM4.L (BitVec.ofNat 32 y) := by
  unfold LN Spec.SM4.L
  rw [BitVec.ofNat_xor, BitVec.ofNat_xor, BitVec.ofNat_xor, BitVec.ofNat_xor,
    ofNat_rotl32 24 y (by decide) hy, ofNat_rotl32 18 y (by decide) hy, ofNat_rotl32 10 y (by decide) hy,
    ofNat_rotl32 2 y (by decide) hy]
  ac_rfl

theorem ofNat_TN (y : Nat) (hy : y < 2 ^ 32) : BitVec.ofNat 32 (TN y) = Spec.SM4.T (BitVec.ofNat 32 y) := by
  unfold TN Spec.SM4.T
  rw [ofNat_LN _ (tauN_lt y), ofNat_tauN y hy]


theorem LN_lt (y : Nat) (hy : y < 2 ^ 32) : LN y < 2 ^ 32 := by
  unfold LN
  exact Nat.xor_lt_two_pow hy (Nat.xor_lt_two_pow (Nat.xor_lt_two_pow (rotl32_lt _ _) (rotl32_lt _ _))
    (Nat.xor_lt_two_pow (rotl32_lt _ _) (rotl32_lt _ _)))

theorem TN_lt (y : Nat) : TN y < 2 ^ 32 := LN_lt _ (tauN_lt y)

/-- all four words are 32-bit -/
def Bnd (X : Nat × Nat × Nat × Nat) : Prop := X.1 < 2 ^ 32 ∧ X.2.1 < 2 ^ 32 ∧ X.2.2.1 < 2 ^ 32 ∧ X.2.2.2 < 2 ^ 32

def toW (X : Nat × Nat × Nat × Nat) : W32 × W32 × W32 × W32 :=
  (BitVec.ofNat 32 X.1, BitVec.ofNat 32 X.2.1, BitVec.ofNat 32 X.2.2.1, BitVec.ofNat 32 X.2.2.2)

theorem stepN_bnd (X : Nat × Nat × Nat × Nat) (k : Nat) (h : Bnd X) : Bnd (stepN X k) :=
  ⟨h.2.1, h.2.2.1, h.2.2.2, Nat.xor_lt_two_pow h.1 (TN_lt _)⟩

theorem toW_stepN (X : Nat × Nat × Nat × Nat) (k : Nat) (h : Bnd X) (hk : k < 2 ^ 32) :
    toW (stepN X k) = Spec.SM4.roundStep (toW X) (BitVec.ofNat 32 k) := by
  obtain ⟨xa, xb, xc, xd⟩ := X
  obtain ⟨ha, hb, hc, hd⟩ := h
  simp only at ha hb hc hd
  simp only [toW, stepN, Spec.SM4.roundStep, roundF]
  rw [BitVec.ofNat_xor, ofNat_TN _ (Nat.xor_lt_two_pow (Nat.xor_lt_two_pow (Nat.xor_lt_two_pow hc hb) hd) hk),
    BitVec.ofNat_xor, BitVec.ofNat_xor, BitVec.ofNat_xor,
    BitVec.xor_comm (BitVec.ofNat 32 xc) (BitVec.ofNat 32 xb)]

theorem iterN_take (l : List Nat) (X : Nat × Nat × Nat × Nat) (n : Nat) (hn : n ≤ l.length) :
    iterN (fun i => l.getD i 0) X n = (l.take n).foldl stepN X := by
  induction n with
  | zero => rfl
  | succ n ih =>
    have hlt : n < l.length := by omega
    rw [iterN, ih (by omega), List.take_add_one, List.foldl_append]
    simp [List.getD_eq_getElem?_getD, List.getElem?_eq_getElem hlt]

theorem foldl_stepN (l : List Nat) (hl : ∀ x ∈ l, x < 2 ^ 32) (X : Nat × Nat × Nat × Nat) (h : Bnd X) :
    Bnd (l.foldl stepN X) ∧ toW (l.foldl stepN X) = (l.map (BitVec.ofNat 32)).foldl Spec.SM4.roundStep (toW X) := by
  induction l generalizing X with
  | nil => exact ⟨h, rfl⟩
  | cons k ks ih =>
    have hk := hl k (by simp)
    have := ih (fun x hx => hl x (by simp [hx])) (stepN X k) (stepN_bnd X k h)
    simp only [List.foldl_cons, List.map_cons]
    rw [← toW_stepN X k h hk]
    exact this


def frameTab : List (String × Nat) := [("rk", arg 0), ("dst", arg 1), ("src", arg 2)]
theorem frame_src : lookup frameTab "src" = some 81604378624 := by decide +kernel
theorem frame_rk : lookup frameTab "rk" = some 73014444032 := by decide +kernel
theorem frame_dst : lookup frameTab "dst" = some 77309411328 := by decide +kernel

theorem getD_lt (l : List Nat) (hl : ∀ x ∈ l, x < 2 ^ 32) (i : Nat) : l.getD i 0 < 2 ^ 32 := by
  rw [List.getD_eq_getElem?_getD]
  cases h : l[i]? with
  | none => simp
  | some x => exact hl x (List.mem_of_getElem? h)

theorem beWord_lt (a b c d : Nat) (ha : a < 256) (hb : b < 256) (hc : c < 256) (hd : d < 256) : beWord a b c d < 2 ^ 32 := by
  simp only [beWord, unlanes_cons, unlanes_nil]; omega

theorem ofNat_beWord (a b c d : Nat) (ha : a < 256) (hb : b < 256) (hc : c < 256) (hd : d < 256) :
    BitVec.ofNat 32 (beWord a b c d) = be32 (UInt8.ofNat a) (UInt8.ofNat b) (UInt8.ofNat c) (UInt8.ofNat d) := by
  simp only [be32, UInt8.toNat_ofNat', Nat.mod_eq_of_lt ha, Nat.mod_eq_of_lt hb, Nat.mod_eq_of_lt hc, Nat.mod_eq_of_lt hd]
  congr 1
  simp only [beWord, unlanes_cons, unlanes_nil]; omega

theorem w32Bytes_ofNat (x : Nat) (hx : x < 2 ^ 32) :
    (w32Bytes (BitVec.ofNat 32 x)).map (·.toNat) = beBytes x := by
  simp only [w32Bytes, beBytes, List.map_cons, List.map_nil, UInt8.toNat_ofNat', BitVec.toNat_ofNat, Nat.mod_eq_of_lt hx,
    lane, Nat.shiftRight_eq_div_pow]
  have : x / 16777216 < 256 := by omega
  simp [Nat.mod_eq_of_lt this]

/-- what the listing of `cryptoBlockAsm` needs from the entry state: the three read-only symbols, the frame
    slots, the input block, the round keys -/
structure X1Env (S : State) (rk src : List Nat) (aRk aDst aSrc : Nat) : Prop where
  hG : S.gpr.length = 16
  hV : S.vec.length = 32
  shuf : lookup S.syms "Shuffle" = some 4294967296
  shufR : readMem S.mem 4294967296 16 = .ok Gen.AsmData.amd64_Shuffle
  pre : lookup S.syms "PreAffineMatrix" = some 8589934592
  preR : readMem S.mem 8589934592 8 = .ok Gen.AsmData.amd64_PreAffineMatrix
  post : lookup S.syms "PostAffineMatrix" = some 12884901888
  postR : readMem S.mem 12884901888 8 = .ok Gen.AsmData.amd64_PostAffineMatrix
  fSrc : lookup S.frame "src" = some aSrc
  srcLt : aSrc < 2 ^ 64
  srcR : readMem S.mem aSrc 16 = .ok src
  fRk : lookup S.frame "rk" = some aRk
  rkLt : aRk + 4 * 32 < 2 ^ 64
  rkR : ∀ i, i < 32 → readMem S.mem (aRk + 4 * i) 4 = .ok (lanes 8 4 (rk.getD i 0))
  fDst : lookup S.frame "dst" = some aDst
  dstLt : aDst < 2 ^ 64

set_option maxRecDepth 10000 in
/-- the straight-line body on any state that provides `X1Env`: it stores the block function of the
    specification at the destination pointer -/
theorem x1_body_generic (S : State) (rk : List Nat) (aRk aDst aSrc : Nat)
    (s0 s1 s2 s3 s4 s5 s6 s7 s8 s9 s10 s11 s12 s13 s14 s15 : Nat)
    (env : X1Env S rk [s0, s1, s2, s3, s4, s5, s6, s7, s8, s9, s10, s11, s12, s13, s14, s15] aRk aDst aSrc)
    (hrk : rk.length = 32) (hrkb : ∀ x ∈ rk, x < 2 ^ 32)
    (hsb : ∀ x ∈ [s0, s1, s2, s3, s4, s5, s6, s7, s8, s9, s10, s11, s12, s13, s14, s15], x < 2 ^ 8)
    (mem' : List Nat → List Region) (hwr : ∀ bs, bs.length = 16 → writeMem S.mem aDst bs = .ok (mem' bs)) :
    ∃ s', execList (proCode ++ roundsCode 32 ++ epiCode) S = .ok s' ∧
      s'.mem = mem' ((Spec.SM4.crypt (rk.map (BitVec.ofNat 32))
        ([s0, s1, s2, s3, s4, s5, s6, s7, s8, s9, s10, s11, s12, s13, s14, s15].map UInt8.ofNat)).map (·.toNat)) := by
  -- prologue
  obtain ⟨s1', hrun1, hr1⟩ := prologue_spec S env.hG env.hV 4294967296 8589934592 12884901888 aSrc aRk aDst
    s0 s1 s2 s3 s4 s5 s6 s7 s8 s9 s10 s11 s12 s13 s14 s15 hsb
    env.shuf (by decide) env.shufR env.pre (by decide) env.preR env.post (by decide) env.postR
    env.fSrc env.srcLt env.srcR env.fRk env.fDst
  -- 32 rounds
  obtain ⟨s2', hrun2, hr2⟩ := ready_rounds S.mem S.syms S.frame aRk aDst SHUFv
    (fun i => lanes 8 4 (rk.getD i 0)) env.rkLt env.rkR
    (fun i _ => by rw [unlanes_lanes]; exact Nat.mod_lt _ (by decide)) _ s1' hr1 32 (Nat.le_refl _)
  -- the round keys as read from memory are the round keys
  have hkw : (fun i => unlanes 8 (lanes 8 4 (rk.getD i 0))) = (fun i => rk.getD i 0) := by
    funext i
    rw [unlanes_lanes]; exact Nat.mod_eq_of_lt (getD_lt rk hrkb i)
  rw [hkw, iterN_take rk _ 32 (by omega), List.take_of_length_le (by omega)] at hr2
  -- the window against the specification
  have hb0 : Bnd (beWord s0 s1 s2 s3, beWord s4 s5 s6 s7, beWord s8 s9 s10 s11, beWord s12 s13 s14 s15) := by
    have h := fun x hx => hsb x hx
    simp only [List.mem_cons, List.not_mem_nil, or_false] at h
    exact ⟨beWord_lt _ _ _ _ (h s0 (by simp)) (h s1 (by simp)) (h s2 (by simp)) (h s3 (by simp)),
      beWord_lt _ _ _ _ (h s4 (by simp)) (h s5 (by simp)) (h s6 (by simp)) (h s7 (by simp)),
      beWord_lt _ _ _ _ (h s8 (by simp)) (h s9 (by simp)) (h s10 (by simp)) (h s11 (by simp)),
      beWord_lt _ _ _ _ (h s12 (by simp)) (h s13 (by simp)) (h s14 (by simp)) (h s15 (by simp))⟩
  obtain ⟨hbX, hWX⟩ := foldl_stepN rk hrkb _ hb0
  generalize hX : rk.foldl stepN (beWord s0 s1 s2 s3, beWord s4 s5 s6 s7, beWord s8 s9 s10 s11, beWord s12 s13 s14 s15) = X at hr2 hbX hWX
  -- epilogue
  have hwrite := hwr (beBytes X.2.2.2 ++ (beBytes X.2.2.1 ++ (beBytes X.2.1 ++ beBytes X.1))) (by simp [beBytes])
  obtain ⟨s3', hrun3, hmem3⟩ := epilogue_spec S.mem S.syms S.frame _ _ X s2' _ hr2 env.dstLt hwrite
  refine ⟨s3', execList_append_ok (execList_append_ok hrun1 hrun2) hrun3, ?_⟩
  rw [hmem3]
  congr 1
  -- the specification, unfolded on the explicit block
  have h := fun x hx => hsb x hx
  simp only [List.mem_cons, List.not_mem_nil, or_false] at h
  have hw0 := ofNat_beWord s0 s1 s2 s3 (h s0 (by simp)) (h s1 (by simp)) (h s2 (by simp)) (h s3 (by simp))
  have hw1 := ofNat_beWord s4 s5 s6 s7 (h s4 (by simp)) (h s5 (by simp)) (h s6 (by simp)) (h s7 (by simp))
  have hw2 := ofNat_beWord s8 s9 s10 s11 (h s8 (by simp)) (h s9 (by simp)) (h s10 (by simp)) (h s11 (by simp))
  have hw3 := ofNat_beWord s12 s13 s14 s15 (h s12 (by simp)) (h s13 (by simp)) (h s14 (by simp)) (h s15 (by simp))
  simp only [Spec.SM4.crypt, List.map_cons, List.map_nil, wordsBE, List.getD_cons_zero, List.getD_cons_succ]
  simp only [toW, hw0, hw1, hw2, hw3] at hWX
  rw [← hWX]
  obtain ⟨xa, xb, xc, xd⟩ := X
  obtain ⟨ha, hb, hc, hd⟩ := hbX
  simp only at ha hb hc hd
  simp only [List.map_append, w32Bytes_ofNat _ ha, w32Bytes_ofNat _ hb, w32Bytes_ofNat _ hc, w32Bytes_ofNat _ hd,
    List.append_assoc]

/-- `kernelState` (dst and src disjoint) provides the environment -/
theorem ks_env (g v k rk dst0 : List Nat) (s0 s1 s2 s3 s4 s5 s6 s7 s8 s9 s10 s11 s12 s13 s14 s15 : Nat)
    (hg : g.length = 16) (hv : v.length = 32) (hrk : rk.length = 32) :
    X1Env (kernelState g v k rk dst0 [s0, s1, s2, s3, s4, s5, s6, s7, s8, s9, s10, s11, s12, s13, s14, s15]) rk
      [s0, s1, s2, s3, s4, s5, s6, s7, s8, s9, s10, s11, s12, s13, s14, s15] 73014444032 77309411328 81604378624 where
  hG := hg
  hV := hv
  shuf := by rw [ks_syms]; exact symTab_shuffle
  shufR := ks_read_shuffle ..
  pre := by rw [ks_syms]; exact symTab_pre
  preR := ks_read_pre ..
  post := by rw [ks_syms]; exact symTab_post
  postR := ks_read_post ..
  fSrc := by rw [ks_frame]; exact frame_src
  srcLt := by decide
  srcR := ks_read_src ..
  fRk := by rw [ks_frame]; exact frame_rk
  rkLt := by decide
  rkR := fun i hi => ks_read_rk g v k rk dst0 _ hrk i hi
  fDst := by rw [ks_frame]; exact frame_dst
  dstLt := by decide

set_option maxRecDepth 10000 in
theorem x1_body_spec (g v k rk dst0 : List Nat)
    (s0 s1 s2 s3 s4 s5 s6 s7 s8 s9 s10 s11 s12 s13 s14 s15 : Nat)
    (hg : g.length = 16) (hv : v.length = 32) (hrk : rk.length = 32) (hrkb : ∀ x ∈ rk, x < 2 ^ 32)
    (hsb : ∀ x ∈ [s0, s1, s2, s3, s4, s5, s6, s7, s8, s9, s10, s11, s12, s13, s14, s15], x < 2 ^ 8)
    (hdst : dst0.length = 16) :
    ∃ s', execList (proCode ++ roundsCode 32 ++ epiCode)
        (kernelState g v k rk dst0 [s0, s1, s2, s3, s4, s5, s6, s7, s8, s9, s10, s11, s12, s13, s14, s15]) = .ok s' ∧
      regionBytes s' "dst" = some ((Spec.SM4.crypt (rk.map (BitVec.ofNat 32))
        ([s0, s1, s2, s3, s4, s5, s6, s7, s8, s9, s10, s11, s12, s13, s14, s15].map UInt8.ofNat)).map (·.toNat)) := by
  obtain ⟨s', hrun, hmem⟩ := x1_body_generic _ rk _ _ _ s0 s1 s2 s3 s4 s5 s6 s7 s8 s9 s10 s11 s12 s13 s14 s15
    (ks_env g v k rk dst0 s0 s1 s2 s3 s4 s5 s6 s7 s8 s9 s10 s11 s12 s13 s14 s15 hg hv hrk) hrk hrkb hsb
    (fun bs => (kernelState g v k rk dst0 [s0, s1, s2, s3, s4, s5, s6, s7, s8, s9, s10, s11, s12, s13, s14, s15]).mem.set 17
      ⟨"dst", bs, true⟩)
    (fun bs hbs => ks_write_dst g v k rk dst0 _ bs (by rw [hbs, hdst]))
  refine ⟨s', hrun, ?_⟩
  obtain ⟨g3, v3, k3, fl3, m3, sy3, fr3⟩ := s'
  simp only at hmem
  subst hmem
  exact ks_dst_after ..


/-! ### from the straight-line block to the listing -/

/-- the body of `cryptoBlockAsm` as a scheme: prologue, 32 × `subRound` on rotating registers, epilogue -/
def x1Code : List DInstr := proCode ++ roundsCode 32 ++ epiCode

/-- the regenerated LISTING decodes to exactly this scheme followed by RET (byte offsets aside) -/
theorem x1_decode :
    (Routine.ofListing Gen.ListAmd64Asm.cryptoBlockAsm).toOption.map (fun r => r.map erasePc)
      = some (x1Code ++ [ins .RET [] 0]) := by decide +kernel

theorem x1_noControl : x1Code.all (fun i => !i.mn.isControl) = true := by decide +kernel
theorem x1_length : x1Code.length = 564 := by decide +kernel

theorem run_x1 (s s' : State) (h : execList x1Code s = .ok s') :
    run Gen.ListAmd64Asm.cryptoBlockAsm 2000 s = .ok s' := by
  have hd := x1_decode
  cases hr : Routine.ofListing Gen.ListAmd64Asm.cryptoBlockAsm with
  | error e => rw [hr] at hd; simp [Except.toOption] at hd
  | ok r =>
    rw [hr] at hd
    simp only [Except.toOption, Option.map_some, Option.some.injEq] at hd
    obtain ⟨body, rest, rfl, hbody, hrest⟩ := List.map_eq_append_iff.mp hd
    obtain ⟨ret, rfl, hret⟩ : ∃ ret, rest = [ret] ∧ erasePc ret = ins .RET [] 0 := by
      cases rest with
      | nil => simp at hrest
      | cons a t =>
        cases t with
        | nil => exact ⟨a, rfl, by simpa using hrest⟩
        | cons b u => simp at hrest
    have hmn : ret.mn = .RET := by have := congrArg DInstr.mn hret; simpa [erasePc, ins] using this
    have hops : ret.ops = [] := by have := congrArg DInstr.ops hret; simpa [erasePc, ins] using this
    have hexec : execList body s = .ok s' := by rw [← execList_erase, hbody]; exact h
    have hlen : body.length = 564 := by rw [← x1_length, ← hbody, List.length_map]
    have hc : ∀ i ∈ body, i.mn.isControl = false := by
      intro i hi
      have hall := x1_noControl
      rw [← hbody, List.all_eq_true] at hall
      have := hall (erasePc i) (List.mem_map_of_mem hi)
      simpa [erasePc] using this
    unfold run
    rw [hr]
    exact runFrom_straight _ body ret [] hc hmn hops 2000 (by omega) s s' hexec


/-- **the listing of `cryptoBlockAsm` computes the SM4 block function of the specification**, for every
    round-key array, every input block, whatever the registers and the destination buffer hold at entry -/
theorem kernelX1_eq_spec (g v k rk dst0 src : List Nat)
    (hg : g.length = 16) (hv : v.length = 32) (hrk : rk.length = 32) (hrkb : ∀ x ∈ rk, x < 2 ^ 32)
    (hsrc : src.length = 16) (hsb : ∀ x ∈ src, x < 256) (hdst : dst0.length = 16) :
    runDst Gen.ListAmd64Asm.cryptoBlockAsm 2000 (kernelState g v k rk dst0 src)
      = .ok ((Spec.SM4.crypt (rk.map (BitVec.ofNat 32)) (src.map UInt8.ofNat)).map (·.toNat)) := by
  obtain ⟨s0, s1, s2, s3, s4, s5, s6, s7, s8, s9, s10, s11, s12, s13, s14, s15, rfl⟩ := list16 src hsrc
  obtain ⟨s', hrun, hdstv⟩ := x1_body_spec g v k rk dst0 s0 s1 s2 s3 s4 s5 s6 s7 s8 s9 s10 s11 s12 s13 s14 s15
    hg hv hrk hrkb hsb hdst
  unfold runDst
  rw [run_x1 _ s' hrun]
  simp only [ok_bind, hdstv]
  rfl

/-! ### called in place (`dst == src`) -/

section inplace
variable (g v k rk : List Nat)

theorem ksi_syms (buf : List Nat) : (kernelStateInPlace g v k rk buf).syms = symTab := rfl
theorem ksi_frame (buf : List Nat) :
    (kernelStateInPlace g v k rk buf).frame = [("rk", arg 0), ("dst", arg 1), ("src", arg 1)] := rfl

def frameTabI : List (String × Nat) := [("rk", arg 0), ("dst", arg 1), ("src", arg 1)]
theorem frameI_src : lookup frameTabI "src" = some 77309411328 := by decide +kernel
theorem frameI_rk : lookup frameTabI "rk" = some 73014444032 := by decide +kernel
theorem frameI_dst : lookup frameTabI "dst" = some 77309411328 := by decide +kernel

theorem ksi_read_shuffle (buf : List Nat) :
    readMem (kernelStateInPlace g v k rk buf).mem 4294967296 16 = .ok Gen.AsmData.amd64_Shuffle := rfl
theorem ksi_read_pre (buf : List Nat) :
    readMem (kernelStateInPlace g v k rk buf).mem 8589934592 8 = .ok Gen.AsmData.amd64_PreAffineMatrix := rfl
theorem ksi_read_post (buf : List Nat) :
    readMem (kernelStateInPlace g v k rk buf).mem 12884901888 8 = .ok Gen.AsmData.amd64_PostAffineMatrix := rfl

theorem ksi_read_src (s0 s1 s2 s3 s4 s5 s6 s7 s8 s9 s10 s11 s12 s13 s14 s15 : Nat) :
    readMem (kernelStateInPlace g v k rk [s0, s1, s2, s3, s4, s5, s6, s7, s8, s9, s10, s11, s12, s13, s14, s15]).mem
      77309411328 16 = .ok [s0, s1, s2, s3, s4, s5, s6, s7, s8, s9, s10, s11, s12, s13, s14, s15] := rfl

theorem ksi_mem_rk (buf : List Nat) : (kernelStateInPlace g v k rk buf).mem[16]? = some ⟨"rk", wordsMem rk, false⟩ := rfl
theorem ksi_mem_dst (buf : List Nat) : (kernelStateInPlace g v k rk buf).mem[17]? = some ⟨"dst", buf, true⟩ := rfl

theorem ksi_read_rk (buf : List Nat) (hrk : rk.length = 32) (i : Nat) (hi : i < 32) :
    readMem (kernelStateInPlace g v k rk buf).mem (73014444032 + 4 * i) 4 = .ok (lanes 8 4 (rk.getD i 0)) := by
  unfold readMem
  have h1 : (73014444032 + 4 * i) / 2 ^ 32 = 17 := by omega
  have h2 : (73014444032 + 4 * i) % 2 ^ 32 = 4 * i := by omega
  simp only [h1, h2, Nat.reduceSub, ksi_mem_rk]
  rw [if_neg (by decide), if_pos (by rw [wordsMem_length rk hrk]; omega)]
  unfold wordsMem
  rw [drop_take_flatMap (lanes 8 4) 4 (fun x => lanes_length 8 4 x) rk i (by omega)]

theorem ksi_write_dst (buf bs : List Nat) (h : bs.length = buf.length) :
    writeMem (kernelStateInPlace g v k rk buf).mem 77309411328 bs
      = .ok ((kernelStateInPlace g v k rk buf).mem.set 17 ⟨"dst", bs, true⟩) := by
  unfold writeMem
  have h1 : 77309411328 / 2 ^ 32 = 18 := by decide
  have h2 : 77309411328 % 2 ^ 32 = 0 := by decide
  simp only [h1, h2, Nat.reduceSub, ksi_mem_dst]
  simp [h]

theorem ksi_dst_after (buf bs : List Nat) (g' v' k' : List Nat) (fl' : Flags) (syms' frame' : List (String × Nat)) :
    regionBytes ⟨g', v', k', fl', (kernelStateInPlace g v k rk buf).mem.set 17 ⟨"dst", bs, true⟩, syms', frame'⟩ "dst"
      = some bs := by
  simp [regionBytes, kernelStateInPlace, mkState, symbols, List.find?]

theorem ksi_env (s0 s1 s2 s3 s4 s5 s6 s7 s8 s9 s10 s11 s12 s13 s14 s15 : Nat)
    (hg : g.length = 16) (hv : v.length = 32) (hrk : rk.length = 32) :
    X1Env (kernelStateInPlace g v k rk [s0, s1, s2, s3, s4, s5, s6, s7, s8, s9, s10, s11, s12, s13, s14, s15]) rk
      [s0, s1, s2, s3, s4, s5, s6, s7, s8, s9, s10, s11, s12, s13, s14, s15] 73014444032 77309411328 77309411328 where
  hG := hg
  hV := hv
  shuf := by rw [ksi_syms]; exact symTab_shuffle
  shufR := ksi_read_shuffle ..
  pre := by rw [ksi_syms]; exact symTab_pre
  preR := ksi_read_pre ..
  post := by rw [ksi_syms]; exact symTab_post
  postR := ksi_read_post ..
  fSrc := by rw [ksi_frame]; exact frameI_src
  srcLt := by decide
  srcR := ksi_read_src ..
  fRk := by rw [ksi_frame]; exact frameI_rk
  rkLt := by decide
  rkR := fun i hi => ksi_read_rk g v k rk _ hrk i hi
  fDst := by rw [ksi_frame]; exact frameI_dst
  dstLt := by decide

end inplace

/-- **`cryptoBlockAsm` called in place** (`dst == src`, as `Encrypt(b, b)` does): the buffer ends up holding the
    block function of the specification applied to what it held -/
theorem kernelX1_inplace_eq_spec (g v k rk buf : List Nat)
    (hg : g.length = 16) (hv : v.length = 32) (hrk : rk.length = 32) (hrkb : ∀ x ∈ rk, x < 2 ^ 32)
    (hbuf : buf.length = 16) (hsb : ∀ x ∈ buf, x < 256) :
    runDst Gen.ListAmd64Asm.cryptoBlockAsm 2000 (kernelStateInPlace g v k rk buf)
      = .ok ((Spec.SM4.crypt (rk.map (BitVec.ofNat 32)) (buf.map UInt8.ofNat)).map (·.toNat)) := by
  obtain ⟨s0, s1, s2, s3, s4, s5, s6, s7, s8, s9, s10, s11, s12, s13, s14, s15, rfl⟩ := list16 buf hbuf
  obtain ⟨s', hrun, hmem⟩ := x1_body_generic _ rk _ _ _ s0 s1 s2 s3 s4 s5 s6 s7 s8 s9 s10 s11 s12 s13 s14 s15
    (ksi_env g v k rk s0 s1 s2 s3 s4 s5 s6 s7 s8 s9 s10 s11 s12 s13 s14 s15 hg hv hrk) hrk hrkb hsb
    (fun bs => (kernelStateInPlace g v k rk [s0, s1, s2, s3, s4, s5, s6, s7, s8, s9, s10, s11, s12, s13, s14, s15]).mem.set 17
      ⟨"dst", bs, true⟩)
    (fun bs hbs => ksi_write_dst g v k rk _ bs (by rw [hbs]; rfl))
  unfold runDst
  rw [run_x1 _ s' hrun]
  obtain ⟨g3, v3, k3, fl3, m3, sy3, fr3⟩ := s'
  simp only at hmem
  subst hmem
  simp only [ok_bind, ksi_dst_after]
  rfl

end SMGo.Proofs.ISAVal

/-
  The wide kernels.  The same statement for the listings of cryptoBlockAsmX2 / X4 / X8 / X16 is proved in
  SMGo/Proofs/ISAValWideSpec.lean (`kernelX4_eq_spec`, `kernelX8_eq_spec`, `kernelX16_eq_spec`: one scheme `wideCode vl`
  at vector length 16/32/64) and SMGo/Proofs/ISAValWideX2Spec.lean (`kernelX2_eq_spec`), restated in Props/C05.lean.
  Ingredients: the round lemma for EVERY dword lane at every vector length (ISAValRoundL: `round_specL`,
  `readyL_rounds`), the dword view of VPUNPCK{L,H}DQ / VPUNPCK{L,H}QDQ and of `rev32` on every 128-bit lane
  (ISAValWideLanes, ISAValWideRev), the 4×4 transposition (ISAValWideTranspose: `transpose_spec`), prologue and
  epilogue (ISAValWidePro: `wpro_spec` — "dword 4l+m of state register k = word k of block (vl/16)·m+l";
  ISAValWideEpi: `wepi_spec`), the per-block link to the specification (`encQ_eq_spec`).
  EXACT GAP that remains for X2/X4/X8/X16: only the call with `dst` and `src` DISJOINT buffers of exactly n·16 bytes
  is proved (the in-place call `dst == src` is proved for cryptoBlockAsm only; for the wide kernels it is covered by
  the harness, which runs them three-way on every check).
-/

#print axioms SMGo.Proofs.ISAVal.kernelX1_eq_spec
#print axioms SMGo.Proofs.ISAVal.kernelX1_inplace_eq_spec
