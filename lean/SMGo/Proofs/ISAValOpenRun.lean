import SMGo.Proofs.ISAValOpenVerdict
set_option linter.unusedSimpArgs false
namespace SMGo.Proofs.ISAVal
open SMGo.Model.ISAVal SMGo.Model.GCM SMGo.Proofs.GCM SMGo.Proofs.ISATouch
open SMGo.Model.ISA (Reg Opd Instr)

theorem a_movq_imm_frame (s : State) (v : Int) (name : String) (off : Nat) (fr' : List (String × Nat))
    (h : setSlot s.frame name (fun _ => imm64 v) = some fr') :
    execD s (ins .MOVQ [.imm v, .frame name off] 0) = .ok { s with frame := fr' } := by
  simp [execD, ins, exMov, writeSlot, h]

theorem open_ladLabels : LadLabels openR 1785 10247 :=
  ⟨label_findPc open_labels (name := "loopX16") (by decide), label_findPc open_labels (name := "X16Done") (by decide),
   label_findPc open_labels (name := "loopX8") (by decide), label_findPc open_labels (name := "X8Done") (by decide),
   label_findPc open_labels (name := "loopX4") (by decide), label_findPc open_labels (name := "X4Done") (by decide),
   label_findPc open_labels (name := "loopX2") (by decide), label_findPc open_labels (name := "X2Done") (by decide),
   label_findPc open_labels (name := "loopX1") (by decide), label_findPc open_labels (name := "X1Done") (by decide),
   label_findPc open_labels (name := "loopX0") (by decide),
   ⟨label_findPc open_labels (name := "X0.copyIn8") (by decide), label_findPc open_labels (name := "X0.copyIn4") (by decide),
    label_findPc open_labels (name := "X0.copyIn2") (by decide), label_findPc open_labels (name := "X0.copyIn1") (by decide),
    label_findPc open_labels (name := "X0.copyInEnd") (by decide), label_findPc open_labels (name := "X0.clearLoop") (by decide),
    label_findPc open_labels (name := "X0.clearEnd") (by decide), label_findPc open_labels (name := "X0.copyOut8") (by decide),
    label_findPc open_labels (name := "X0.copyOut4") (by decide), label_findPc open_labels (name := "X0.copyOut2") (by decide),
    label_findPc open_labels (name := "X0.copyOut1") (by decide), label_findPc open_labels (name := "X0.copyOutEnd") (by decide),
    label_findPc open_labels (name := "cryptoBlocksDone") (by decide)⟩⟩

theorem imm64_1'' : imm64 1 = 1 := by decide +kernel

end SMGo.Proofs.ISAVal
namespace SMGo.Proofs.ISAVal
open SMGo.Model.ISAVal SMGo.Model.GCM SMGo.Proofs.GCM SMGo.Proofs.ISATouch
open SMGo.Model.ISA (Reg Opd Instr)

/-- without hashing the output of the ladder does not depend on the GHASH value -/
theorem ladN_fst_hf0 (rk jb : List Nat) (h : Nat) : ∀ (fuel c y y' : Nat) (src : List Nat),
    (ladN rk jb h 0 fuel c y src).1 = (ladN rk jb h 0 fuel c y' src).1 := by
  intro fuel
  induction fuel with
  | zero => intro c y y' src; rfl
  | succ f ih =>
    intro c y y' src
    by_cases h16 : src.length < 16
    · rw [ladN_small rk jb h 0 f c y src h16, ladN_small rk jb h 0 f c y' src h16]
    · have hcf := class_facts src.length
      have hn0 : classOf src.length ≠ 0 := fun h0 => by have := hcf.2.1 h0; omega
      rw [ladN_class rk jb h 0 f c y src _ rfl hn0, ladN_class rk jb h 0 f c y' src _ rfl hn0]
      simp only [if_true]
      rw [ih _ y y']

/-- plaintext of `openAsm` on numbers: the ladder without hashing over the input minus its tag -/
def openOutJ (rk jb ct : List Nat) (t fuel : Nat) : List Nat :=
  (ladN rk jb (hKey rk) 0 fuel 0 0 (ct.take (ct.length - t))).1

set_option maxHeartbeats 4000000 in
set_option maxRecDepth 100000 in
/-- **`openAsm` from the verdict to `RET`**: on a tag mismatch the result slot is 0 and the destination is untouched; otherwise the
    result slot is 1 and the destination holds the decryption -/
theorem open_after_verdict_gen (rk : List Nat) (t : Nat) (dst nonce inp ct aad : List Nat) (cp r0 : Nat)
    (hrk : rk.length = 32) (hrkb : ∀ x ∈ rk, x < 2 ^ 32)
    (hcb : ∀ x ∈ ct, x < 2 ^ 8) (hcl : ct.length < 2 ^ 32) (ht : t ≤ 16) (htc : t ≤ ct.length)
    (hdl : ct.length - t ≤ dst.length) (hdl32 : dst.length < 2 ^ 32) (jb : List Nat) (hjb : jb.length = 16) (hjbb : ∀ x ∈ jb, x < 2 ^ 8)
    (s9 : State) (av : AtVerdictG (openFrame cp t nonce ct aad r0) rk t dst nonce inp ct aad jb s9)
    (lm : LadMem (fun d t' => fmem "cipher" false rk d nonce inp aad t') 77309411328 dst.length 94489280512 rk
      (ct.take (ct.length - t)) cp)
    (hs0 : ∀ b, b.length = 32 → SrcFrom (fmem "cipher" false rk dst nonce inp aad b) cp (ct.take (ct.length - t)) 0)
    (hcp : cp + ct.length < 2 ^ 63)
    (fuel : Nat) (hfuel : fuelNeed (ct.length - t) ≤ fuel) :
    ∃ s' N, N ≤ 700 * ((ct.length - t) / 256) + 4300 ∧ Reach openR 1775 s9 5558 s' N ∧
      (if orBytes (xorN ((openTagJ rk jb ct aad t).take t) (ct.drop (ct.length - t))) = 0
       then s'.frame = openFrame cp t nonce ct aad 1 ∧ regionBytes s' "dst" = some (spliceAt dst 0 (openOutJ rk jb ct t fuel))
       else s'.frame = openFrame cp t nonce ct aad 0 ∧ regionBytes s' "dst" = some dst) := by
  obtain ⟨b9, hb9, hm9⟩ := av.mem
  have os := open_slices'
  have hfr9 : s9.frame = openFrame cp t nonce ct aad r0 := av.frame
  obtain ⟨d, hd⟩ : ∃ d, d = orBytes (xorN ((openTagJ rk jb ct aad t).take t) (ct.drop (ct.length - t))) := ⟨_, rfl⟩
  rw [← hd]
  have hdlt : d < 2 ^ 8 := by
    rw [hd]
    exact orBytes_lt _ (xorN_bytes _ _ (fun b hb => by
      have := List.mem_of_mem_take hb
      unfold openTagJ at this
      exact mem_lanes_lt 8 16 _ b this) (fun b hb => hcb b (List.mem_of_mem_drop hb)))
  have hg2 : greg s9 2 = d := by rw [hd]; exact av.g2
  -- the verdict
  have rV := guard_reach (idx := 5557) os.verdict rfl (label_findPc open_labels (name := "tagUnMatch") (by decide)) s9
    (by rw [av.pc.lenG]; decide) d 0 hg2 imm64_0' (decide (d ≠ 0)) (cond_jne _ _ (by omega) (by decide))
  let sV := setFlags s9 (subF 8 d 0).2
  have kV : KeepsM (List.range 16) (List.range 32) (List.range 8) s9 sV := keepsM_setFlags _ _ _ s9 _
  have sF0 : Slice openR 5556 [ins .JMP [.target 32900] 0] := Slice.left (a := [_]) (b := [_, _]) os.fin
  have sF1 : Slice openR (5556 + 1) [ins .MOVQ [.imm 0, .frame "ret1" 112] 0] :=
    Slice.left (a := [_]) (b := [_]) (Slice.right (a := [_]) (b := [_, _]) os.fin)
  by_cases h0 : d = 0
  · -- the tags agree: decrypt
    have hdne : decide (d ≠ 0) = false := by simp [h0]
    rw [hdne] at rV
    simp only [Bool.false_eq_true, if_false] at rV
    simp only [if_pos h0]
    -- ret1 := 1 and the arguments of the ladder
    let a0 : State := { sV with frame := openFrame cp t nonce ct aad 1 }
    have x0 : execD sV (ins .MOVQ [.imm 1, .frame "ret1" 112] 0) = .ok a0 :=
      a_movq_imm_frame sV 1 "ret1" 112 _ (by show setSlot s9.frame _ _ = _; rw [hfr9, imm64_1'']; exact setRet cp t nonce ct aad r0 1)
    have hG0 : a0.gpr.length = 16 := av.pc.lenG
    have fDst : lookup a0.frame "dst" = some 77309411328 := by simp [a0, openFrame, lookup]; rfl
    have fC : lookup a0.frame "cipher" = some cp := by simp [a0, openFrame, lookup]
    have fCl : lookup a0.frame "cipherLen" = some ct.length := by simp [a0, openFrame, lookup]
    have fTs : lookup a0.frame "tagSize" = some t := by simp [a0, openFrame, lookup]
    have fTmp : lookup a0.frame "tmp" = some 94489280512 := by simp [a0, openFrame, lookup]; rfl
    obtain ⟨nC, hnC⟩ : ∃ nC, nC = ct.length - t := ⟨_, rfl⟩
    let a1 := setGreg a0 13 77309411328
    let a2 := setGreg a1 10 cp
    let a3 := setGreg a2 9 ct.length
    let a4 := setGreg a3 14 t
    have hG4 : a4.gpr.length = 16 := by simp [a4, a3, a2, a1]; exact hG0
    have e49 : greg a4 9 = ct.length := by
      show greg (setGreg a3 14 _) 9 = _
      rw [greg_setGreg_ne a3 14 _ 9 (by decide)]; exact greg_setGreg_eq a2 9 _ (by simp [a2, a1]; rw [hG0]; decide)
    have e414 : greg a4 14 = t := greg_setGreg_eq a3 14 _ (by simp [a3, a2, a1]; rw [hG0]; decide)
    have x5 := a_subq_rr a4 14 9 (by omega) (by omega) (by rw [e414]; omega) (by rw [e49]; omega)
    rw [e414, e49, show (ct.length + 2 ^ 64 - t) % 2 ^ 64 = nC from by omega] at x5
    let a5 := setFlags (setGreg a4 9 nC) (subF 8 ct.length t).2
    have hG5 : a5.gpr.length = 16 := (lenG_sf a4 9 _ _).trans hG4
    let a6 := setGreg a5 6 94489280512
    let a7 := setGreg a6 0 (imm64 0)
    have hxa : execList openDecArgsCode sV = .ok a7 := by
      apply exec_step x0
      apply exec_step (a_movq_frame a0 "dst" 24 13 _ fDst (by rw [hG0]; decide))
      apply exec_step (a_movq_frame a1 "cipher" 56 10 _ fC (by simp [a1]; rw [hG0]; decide))
      apply exec_step (a_movq_frame a2 "cipherLen" 64 9 _ fCl (by simp [a2, a1]; rw [hG0]; decide))
      apply exec_step (a_movq_frame a3 "tagSize" 16 14 _ fTs (by simp [a3, a2, a1]; rw [hG0]; decide))
      apply exec_step x5
      apply exec_step (a_movq_frame a5 "tmp" 104 6 _ fTmp (by rw [hG5]; decide))
      apply exec_step (a_movq_imm a6 0 0 (by simp [a6]; rw [hG5]; decide))
      rfl
    have rA : Reach openR 1777 sV 1785 a7 8 := reach_seg os.decArgs (by rfl) hxa
    have kA : KeepsM [15] (List.range 32) (List.range 8) a0 a7 :=
      ((((keepsM_setGreg a0 13 _ _ (by decide)).trans (keepsM_setGreg a1 10 _ _ (by decide))).trans (keepsM_setGreg a2 9 _ _ (by decide))).trans
        (keepsM_setGreg a3 14 _ _ (by decide))).trans
        ((⟨lenG_sf a4 9 _ _, rfl, rfl, fun m hm => (by
          simp only [List.mem_cons, List.not_mem_nil, or_false] at hm; subst hm
          show greg (setFlags (setGreg a4 9 _) _) 15 = _
          rw [greg_setFlags, greg_setGreg_ne a4 9 _ 15 (by decide)]), fun _ _ => rfl, fun _ _ => rfl, rfl, rfl⟩ : KeepsM [15] (List.range 32) (List.range 8) a4 a5).trans
        ((keepsM_setGreg a5 6 _ _ (by decide)).trans (keepsM_setGreg a6 0 _ _ (by decide))))
    -- registers of a7
    have g70 : greg a7 0 = 0 := by rw [greg_setGreg_eq a6 0 _ (by simp [a6]; rw [hG5]; decide)]; exact imm64_0'
    have rest7 : ∀ m, m ≠ 0 → m ≠ 6 → greg a7 m = greg a5 m := by
      intro m h1 h2
      show greg (setGreg a6 0 _) m = _
      rw [greg_setGreg_ne a6 0 _ m h1]; exact greg_setGreg_ne a5 6 _ m h2
    have g76 : greg a7 6 = 94489280512 + 0 := by
      show greg (setGreg a6 0 _) 6 = _
      rw [greg_setGreg_ne a6 0 _ 6 (by decide)]; exact greg_setGreg_eq a5 6 _ (by rw [hG5]; decide)
    have g79 : greg a7 9 = nC := by
      rw [rest7 9 (by decide) (by decide)]
      show greg (setFlags (setGreg a4 9 _) _) 9 = _
      rw [greg_setFlags, greg_setGreg_eq a4 9 _ (by omega)]
    have rest5 : ∀ m, m ≠ 9 → greg a5 m = greg a4 m := by
      intro m hm
      show greg (setFlags (setGreg a4 9 _) _) m = _
      rw [greg_setFlags, greg_setGreg_ne a4 9 _ m hm]
    have g710 : greg a7 10 = cp := by
      rw [rest7 10 (by decide) (by decide), rest5 10 (by decide)]
      show greg (setGreg a3 14 _) 10 = _
      rw [greg_setGreg_ne a3 14 _ 10 (by decide)]
      show greg (setGreg a2 9 _) 10 = _
      rw [greg_setGreg_ne a2 9 _ 10 (by decide)]; exact greg_setGreg_eq a1 10 _ (by simp [a1]; rw [hG0]; decide)
    have g713 : greg a7 13 = 77309411328 := by
      rw [rest7 13 (by decide) (by decide), rest5 13 (by decide)]
      show greg (setGreg a3 14 _) 13 = _
      rw [greg_setGreg_ne a3 14 _ 13 (by decide)]
      show greg (setGreg a2 9 _) 13 = _
      rw [greg_setGreg_ne a2 9 _ 13 (by decide)]
      show greg (setGreg a1 10 _) 13 = _
      rw [greg_setGreg_ne a1 10 _ 13 (by decide)]; exact greg_setGreg_eq a0 13 _ (by rw [hG0]; decide)
    -- the memory family of the ladder
    rw [← hnC] at lm hs0
    have hCl : (ct.take nC).length = nC := by rw [List.length_take]; omega
    have pc0 : PCtx a0 := ⟨av.pc.lenG, av.pc.lenV, av.pc.lenK, av.pc.syms, av.pc.v10, av.pc.v11, av.pc.v12, av.pc.v16, av.pc.v17, av.pc.v18,
      av.pc.v22, av.pc.v23, av.pc.v24⟩
    have gh0 : GhCtx (hKey rk) a0 := ⟨av.gh.lenG, av.gh.lenV, av.gh.lenK, av.gh.v22, av.gh.v23, av.gh.v24,
      ⟨av.gh.hc.hlt, av.gh.hc.v19, av.gh.hc.v25, av.gh.hc.v26, ⟨av.gh.hc.c4.v29, av.gh.hc.c4.v30, av.gh.hc.c4.v31⟩⟩⟩
    obtain ⟨s10, N10, hN10, r10, e10⟩ := ladder_reach openR 1785 10247 (ladSlices_of openR 1785 10247 os.lad) open_ladLabels
      (fun d t' => fmem "cipher" false rk d nonce inp aad t') 77309411328 dst.length 94489280512 cp rk (jb)
      (ct.take nC) lm hrk hrkb hjb hjbb (fun x hx => hcb x (List.mem_of_mem_take hx)) (by rw [hCl]; omega) (by omega) (by rw [hCl]; omega)
      (by decide) 0 (hKey rk) 0 (by decide) (Or.inl rfl) (vreg s9 21) dst b9 a7 (pc0.of_keepsM kA (by decide)) (gh0.of_keepsM kA (by decide))
      (by rw [kA.g 15 (by decide)]; exact av.rkp) g70 (by rw [g79, hCl]) g710 g713 g76 (by rw [kA.v 14 (by decide)]; exact av.j0)
      (by rw [kA.v 21 (by decide)]; rfl) av.acc (by show s9.mem = _; exact hm9) rfl hb9 hs0
    have e := e10 (nC / 256 + 5) (by rw [hCl]; exact Nat.le_refl _)
    rw [ladN_fuel rk _ (hKey rk) 0 (nC / 256 + 5) fuel 0 _ _ (by rw [hCl]; exact fuelNeed_le _) (by rw [hCl, hnC]; exact hfuel),
      ladN_fst_hf0 rk _ (hKey rk) fuel 0 _ 0] at e
    obtain ⟨tc10, htc10, hm10⟩ := e.mem
    -- the end
    have sN := x0_nop_slice openR (1785 + 3120) 10247 (ladSlices_of openR 1785 10247 os.lad).x0
    have rN : Reach openR 5555 s10 5556 s10 1 :=
      reach_seg (s := s10) (s' := s10) sN (by rfl) (exec_step (s1 := s10) rfl (execList_nil _))
    have rJ : Reach openR 5556 s10 5558 s10 1 := reach_jmp sF0 (label_findPc open_labels (name := "openDone") (by decide)) s10
    refine ⟨s10, 2 + 8 + N10 + 1 + 1, by rw [hCl] at hN10; omega, ((((rV.trans rA).trans r10).trans rN).trans rJ).cast rfl rfl, ?_, ?_⟩
    · rw [e.keep.frame]; rfl
    · rw [regionBytes_fmem s10 _ _ _ _ _ _ _ _ hm10]
      unfold openOutJ
      rw [← hnC]
  · -- the tags differ
    have hdne : decide (d ≠ 0) = true := by simp [h0]
    rw [hdne] at rV
    simp only [if_true] at rV
    simp only [if_neg h0]
    let aE : State := { sV with frame := openFrame cp t nonce ct aad 0 }
    have xE : execD sV (ins .MOVQ [.imm 0, .frame "ret1" 112] 0) = .ok aE :=
      a_movq_imm_frame sV 0 "ret1" 112 _ (by show setSlot s9.frame _ _ = _; rw [hfr9, imm64_0']; exact setRet cp t nonce ct aad r0 0)
    have rE : Reach openR (5556 + 1) sV (5556 + 1 + 1) aE 1 := reach_seg sF1 (by rfl) (by apply exec_step xE; exact execList_nil _)
    refine ⟨aE, 2 + 1, by omega, (rV.trans rE).cast rfl rfl, rfl, ?_⟩
    exact regionBytes_fmem aE _ _ _ _ _ _ _ _ (by show s9.mem = _; exact hm9)

/-- **`openAsm` from the verdict to `RET`**, input in its own region -/
theorem open_after_verdict (g v k rk : List Nat) (t : Nat) (dst nonce ct aad tmp : List Nat) (r0 : Nat)
    (hrk : rk.length = 32) (hrkb : ∀ x ∈ rk, x < 2 ^ 32)
    (hcb : ∀ x ∈ ct, x < 2 ^ 8) (hcl : ct.length < 2 ^ 32) (ht : t ≤ 16) (htc : t ≤ ct.length)
    (hdl : ct.length - t ≤ dst.length) (hdl32 : dst.length < 2 ^ 32) (jb : List Nat) (hjb : jb.length = 16) (hjbb : ∀ x ∈ jb, x < 2 ^ 8)
    (s9 : State) (av : AtVerdict g v k rk t dst nonce ct aad tmp r0 jb s9) (fuel : Nat) (hfuel : fuelNeed (ct.length - t) ≤ fuel) :
    ∃ s' N, N ≤ 700 * ((ct.length - t) / 256) + 4300 ∧ Reach openR 1775 s9 5558 s' N ∧
      (if orBytes (xorN ((openTagJ rk jb ct aad t).take t) (ct.drop (ct.length - t))) = 0
       then s'.frame = openFrame 85899345920 t nonce ct aad 1 ∧ regionBytes s' "dst" = some (spliceAt dst 0 (openOutJ rk jb ct t fuel))
       else s'.frame = openFrame 85899345920 t nonce ct aad 0 ∧ regionBytes s' "dst" = some dst) := by
  have lm0 := ladMem_fmem "cipher" false rk nonce ct aad dst.length hrk hdl32 hcl
  have hd : ∀ d b, DataAt (fmem "cipher" false rk d nonce ct aad b) 85899345920 (ct.take (ct.length - t)) := fun d b =>
    DataAt.take (fun off n hn => fmem_read_inp "cipher" false rk d nonce ct aad b off n hn (by omega)) _
  exact open_after_verdict_gen rk t dst nonce ct ct aad 85899345920 r0 hrk hrkb hcb hcl ht htc hdl hdl32 jb hjb hjbb s9 av
    ⟨lm0.m2, lm0.rk, fun dc tc o n bs _ _ _ _ _ => SrcFrom.ofData (hd _ tc) _⟩ (fun b _ => SrcFrom.ofData (hd dst b) 0) (by omega)
    fuel hfuel

end SMGo.Proofs.ISAVal
