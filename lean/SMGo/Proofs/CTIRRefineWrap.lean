/-
  Refinement, item 2 (exported wrappers): `internal.ScalarBaseMult` (`fn_87`) calls
  `scalarBaseMult_SkipBitExtraction_6_3_14` (`fn_83`), which calls the comb schedule `fn_82` with the 6-3-14 tables
  (globals 7 and 8) and the parameters 6, 3, 14, 4 — the model `Model.SM2.scalarBaseMult X k`
  (= `Curve.scalarBaseMult (pointOps X.C) k X.first X.second 6 3 14 4`).

  Also the bridge between the two forms in which the refinement theorems are stated:
  run level (`∀ f ≥ F, runV … = .ret rs`, what the schedule theorems conclude) and `Computes` / `CalleeFails`
  (what callers take as hypotheses).
-/
import SMGo.Proofs.CTIRRefineComb
import SMGo.Model.SM2Proto
open SMGo SMGo.Model.CTIR SMGo.Gen.CTIRProg SMGo.Proofs.CTIRRefineUtils
open SMGo.Proofs.CTIRRefineComb (Computes CalleeFails Fails nilPointV encT)

namespace SMGo.Proofs.CTIRRefineWrap

section Bridge
variable {P : Prog} {G : Nat → Val} {X : Oracle}

/-- run level ⇒ `Computes` -/
theorem computes_of_runV {g F : Nat} {args rs : List Val} {fn : Fn} (hg : P[g]? = some fn) (hs : fn.stub = false)
    (hn : args.length = fn.nparams) (h : ∀ f, F ≤ f → runV P G X f g args = .ret rs) :
    Computes P G X g F args rs := by
  have hF : (execV P G X F (Env.ofList args) fn.body).2 = .ret rs := by
    have := h F (Nat.le_refl _)
    rw [runV_eq, hg] at this
    simpa only [hs, hn, bne_self_eq_false, Bool.or_self, Bool.false_eq_true, ↓reduceIte] using this
  refine ⟨fn, (execV P G X F (Env.ofList args) fn.body).1, hg, hs, hn, ?_⟩
  intro f hf
  rw [execV_mono P G X (Env.ofList args) hf fn.body (by rw [hF]; simp)]
  exact Prod.ext rfl hF

/-- run level ⇒ `CalleeFails` -/
theorem calleeFails_of_runV {g : Nat} {args : List Val} {fn : Fn} (hg : P[g]? = some fn) (hs : fn.stub = false)
    (hn : args.length = fn.nparams)
    (h : (∃ F, ∀ f, F ≤ f → runV P G X f g args = .panic) ∨ (∀ f, runV P G X f g args = .stuck)) :
    CalleeFails P G X g args := by
  rcases h with ⟨F, h⟩ | h
  · left
    have hF : (execV P G X F (Env.ofList args) fn.body).2 = .panic := by
      have := h F (Nat.le_refl _)
      rw [runV_eq, hg] at this
      simpa only [hs, hn, bne_self_eq_false, Bool.or_self, Bool.false_eq_true, ↓reduceIte] using this
    refine ⟨fn, F, (execV P G X F (Env.ofList args) fn.body).1, hg, hs, hn, ?_⟩
    intro f hf
    rw [execV_mono P G X (Env.ofList args) hf fn.body (by rw [hF]; simp)]
    exact Prod.ext rfl hF
  · right
    refine ⟨fn, hg, ?_⟩
    intro f
    have := h f
    rw [runV_eq, hg] at this
    simpa only [hs, hn, bne_self_eq_false, Bool.or_self, Bool.false_eq_true, ↓reduceIte] using this

/-- `CalleeFails` ⇒ run level -/
theorem runV_of_calleeFails {g : Nat} {args : List Val} (h : CalleeFails P G X g args) :
    (∃ F, ∀ f, F ≤ f → runV P G X f g args = .panic) ∨ (∀ f, runV P G X f g args = .stuck) := by
  rcases h with ⟨fn, F, env', hg, hs, hn, hb⟩ | ⟨fn, hg, hb⟩
  · exact Or.inl ⟨F, runV_of_EvIn hg hs hn hb⟩
  · exact Or.inr (runV_of_Stuck hg hb)

/-! ### a function that only forwards a call with two results: `x, y := g(args…); return x, y` -/

def fwd2 (x y g : Nat) (es : List Expr) : Stmt :=
  .seq (.call [x, y] g es) (.seq (.ret [(.var x), (.var y)]) .panic)

theorem fwd2_computes {x y g g' F : Nat} {es : List Expr} {args vs : List Val} {a b : Val} {fn : Fn}
    (hg : P[g']? = some fn) (hs : fn.stub = false) (hn : args.length = fn.nparams) (hb : fn.body = fwd2 x y g es)
    (hxy : x ≠ y) (ha : evalVs G (Env.ofList args) es = some vs) (h : Computes P G X g F vs [a, b]) :
    Computes P G X g' (F + 5) args [a, b] := by
  refine ⟨fn, ((Env.ofList args).set x a).set y b, hg, hs, hn, ?_⟩
  rw [hb]
  have c1 := h.call (env := Env.ofList args) (lhs := [x, y]) ha (env1 := ((Env.ofList args).set x a).set y b) rfl
  have r : evalVs G (((Env.ofList args).set x a).set y b) [(.var x), (.var y)] = some [a, b] := by
    simp only [evalVs_cons, evalVs_nil, evalV_var, Env.set, if_neg hxy, ↓reduceIte]
  exact (EvIn.seq c1 (EvIn.seq_stop (EvIn.ret r) (by simp))).mono (by omega)

theorem fwd2_fails {x y g g' : Nat} {es : List Expr} {args vs : List Val} {fn : Fn}
    (hg : P[g']? = some fn) (hs : fn.stub = false) (hn : args.length = fn.nparams) (hb : fn.body = fwd2 x y g es)
    (ha : evalVs G (Env.ofList args) es = some vs) (h : CalleeFails P G X g vs) :
    CalleeFails P G X g' args := by
  have hf : Fails P G X (Env.ofList args) fn.body := by
    rw [hb]; exact Fails.seq_left (Fails.call ha h)
  rcases hf with ⟨F, env', h1⟩ | h1
  · exact Or.inl ⟨fn, F, env', hg, hs, hn, h1⟩
  · exact Or.inr ⟨fn, hg, h1⟩

end Bridge

/-! ## `ScalarBaseMult` -/

section SBM
variable {G : Nat → Val} {X : Oracle}

theorem fn_83_body : fn_83.body = fwd2 2 3 82 [(.var 0), (.glob 7), (.glob 8), (.lit 6), (.lit 3), (.lit 14), (.lit 4)] := rfl
theorem fn_87_body : fn_87.body = fwd2 2 3 83 [(.var 0)] := rfl

/-- the arguments with which the 6-3-14 wrapper calls the schedule -/
def sbmArgs (G : Nat → Val) (k : Val) : List Val := [k, G 7, G 8, .int 6, .int 3, .int 14, .int 4]

theorem eval83 (k : Val) :
    evalVs G (Env.ofList [k]) [(.var 0), (.glob 7), (.glob 8), (.lit 6), (.lit 3), (.lit 14), (.lit 4)] = some (sbmArgs G k) := by
  simp only [evalVs_cons, evalVs_nil, evalV_var, evalV_glob, evalV_lit]
  rfl

theorem eval87 (k : Val) : evalVs G (Env.ofList [k]) [(.var 0)] = some [k] := by
  simp only [evalVs_cons, evalVs_nil, evalV_var]
  rfl

/-- `ScalarBaseMult(k)` returns what the schedule returns on the 6-3-14 tables -/
theorem ScalarBaseMult_computes {F : Nat} (k a b : Val) (h : Computes prog G X 82 F (sbmArgs G k) [a, b]) :
    Computes prog G X f_internal_ScalarBaseMult (F + 10) [k] [a, b] :=
  fwd2_computes (g' := 87) rfl rfl rfl fn_87_body (by decide) (eval87 k)
    (fwd2_computes (g' := 83) rfl rfl rfl fn_83_body (by decide) (eval83 k) h)

theorem ScalarBaseMult_fails (k : Val) (h : CalleeFails prog G X 82 (sbmArgs G k)) :
    CalleeFails prog G X f_internal_ScalarBaseMult [k] :=
  fwd2_fails (g' := 87) rfl rfl rfl fn_87_body (eval87 k) (fwd2_fails (g' := 83) rfl rfl rfl fn_83_body (eval83 k) h)

/-- **ScalarBaseMult** against `Model.SM2.scalarBaseMult`, from the run-level statement of the schedule
    (`ir_scalarBaseMult_eq_model` and its closed forms) at the parameters 6, 3, 14, 4: in the `Computes` /
    `CalleeFails` form that the entry points (DerivePublic, GenerateKey, SignHashed) take as hypothesis -/
theorem ir_ScalarBaseMult_eq_model {α β : Type} (M : Model.SM2.Ctx α β) (encP : Model.Point.Pt α → Val) {F : Nat} (k : Bytes)
    (hG7 : G 7 = .arr (M.first.map encT)) (hG8 : G 8 = encT M.second)
    (h : match Model.Curve.scalarBaseMult (Model.Curve.pointOps M.C) k M.first M.second 6 3 14 4 with
      | .ok r => ∀ f, F ≤ f → runV prog G X f f_internal_scalarBaseMult_SkipBitExtration
          [bytesV k, .arr (M.first.map encT), encT M.second, .int (6 : Nat), .int (3 : Nat), .int (14 : Nat), .int (4 : Nat)]
            = .ret [encP r, .int 0]
      | .err => ∀ f, 20 ≤ f → runV prog G X f f_internal_scalarBaseMult_SkipBitExtration
          [bytesV k, .arr (M.first.map encT), encT M.second, .int (6 : Nat), .int (3 : Nat), .int (14 : Nat), .int (4 : Nat)]
            = .ret [nilPointV, .int 1]
      | .panic =>
        (∃ F', ∀ f, F' ≤ f → runV prog G X f f_internal_scalarBaseMult_SkipBitExtration
          [bytesV k, .arr (M.first.map encT), encT M.second, .int (6 : Nat), .int (3 : Nat), .int (14 : Nat), .int (4 : Nat)] = .panic) ∨
        (∀ f, runV prog G X f f_internal_scalarBaseMult_SkipBitExtration
          [bytesV k, .arr (M.first.map encT), encT M.second, .int (6 : Nat), .int (3 : Nat), .int (14 : Nat), .int (4 : Nat)] = .stuck)) :
    match Model.SM2.scalarBaseMult M k with
    | .ok r => Computes prog G X f_internal_ScalarBaseMult (max F 20 + 10) [bytesV k] [encP r, .int 0]
    | .err => Computes prog G X f_internal_ScalarBaseMult (max F 20 + 10) [bytesV k] [nilPointV, .int 1]
    | .panic => CalleeFails prog G X f_internal_ScalarBaseMult [bytesV k] := by
  have hargs : sbmArgs G (bytesV k) =
      [bytesV k, .arr (M.first.map encT), encT M.second, .int (6 : Nat), .int (3 : Nat), .int (14 : Nat), .int (4 : Nat)] := by
    simp only [sbmArgs, hG7, hG8]; rfl
  unfold Model.SM2.scalarBaseMult
  cases hm : Model.Curve.scalarBaseMult (Model.Curve.pointOps M.C) k M.first M.second 6 3 14 4 with
  | ok r =>
    rw [hm] at h
    refine ScalarBaseMult_computes _ _ _ ?_
    rw [hargs]
    exact computes_of_runV (g := 82) rfl rfl rfl (fun f hf => h f (Nat.le_trans (Nat.le_max_left _ _) hf))
  | err =>
    rw [hm] at h
    refine ScalarBaseMult_computes _ _ _ ?_
    rw [hargs]
    exact computes_of_runV (g := 82) rfl rfl rfl (fun f hf => h f (Nat.le_trans (Nat.le_max_right _ _) hf))
  | panic =>
    rw [hm] at h
    refine ScalarBaseMult_fails _ ?_
    rw [hargs]
    exact calleeFails_of_runV (g := 82) rfl rfl rfl h

end SBM

#print axioms computes_of_runV
#print axioms calleeFails_of_runV
#print axioms ScalarBaseMult_computes
#print axioms ScalarBaseMult_fails
#print axioms ir_ScalarBaseMult_eq_model

end SMGo.Proofs.CTIRRefineWrap
