/-
  `cryptoBlocks` of the arm64 Go glue on the slice heap: `fillSingleBlock`, `fillCounterN`, one
  length class (`classStep`), the 256-byte loop, the 128/64/32/16-byte stages chosen by the bits of
  the block count, the byte loop of the 1..15-byte tail — and the result: for every input length
  (up to the bound Seal/Open enforce) the routine stores GCTR_K(inc32(J0), input) at `out`,
  touches nothing else of the caller's memory, and this also when `out` and `in` start at the same
  address (the in-place case: the key stream goes through `tmp`, every piece of `in` is read before
  the same piece of `out` is written).  Core Lean only.
-/
import SMGo.Proofs.GCMGlueArm64Fun
namespace SMGo.Proofs.GCMGlueA64
open SMGo SMGo.Model SMGo.Model.Mem SMGo.Model.GCMGlueA64 SMGo.Proofs.Slice
open SMGo.Spec.GCM
open SMGo.Proofs.GCMGlue (UnchangedOutside InRegion Nowhere fresh unchanged_refl unchanged_append
  unchanged_poke WF_of_unchanged)
open SMGo.Proofs.GCM (ctrAdd ctrAdd_ctrAdd stream stream_length stream_add blockToNat_lt
  blockToNat_natToBlock natToBlock_blockToNat natToBlock_length ofNatBE_length xorBytes_length
  xorBytes_append_right xorBytes_take gctr_eq_xor inc32_eq_ctrAdd)

/-! ### list facts -/

theorem xorBytes_comm (a b : Bytes) : xorBytes a b = xorBytes b a := by
  induction a generalizing b with
  | nil => simp [xorBytes]
  | cons x a ih =>
    cases b with
    | nil => simp [xorBytes]
    | cons y b =>
      rw [GCM.xorBytes_cons, GCM.xorBytes_cons, ih b, UInt8.xor_comm]

theorem xorBytes_take_succ (a b : Bytes) (i : Nat) (ha : i < a.length) (hb : i < b.length) :
    xorBytes (a.take (i + 1)) (b.take (i + 1))
      = xorBytes (a.take i) (b.take i) ++ [a[i] ^^^ b[i]] := by
  rw [List.take_add_one, List.take_add_one, List.getElem?_eq_getElem ha, List.getElem?_eq_getElem hb]
  simp only [Option.toList]
  rw [GCM.xorBytes_append _ _ _ _ (by rw [List.length_take, List.length_take]; omega)]
  rfl

/-- two adjacent stores are one store of the concatenation -/
theorem splice_splice_adj (l : Bytes) (off : Nat) (A B : Bytes) (h : off + A.length ≤ l.length) :
    splice (splice l off A) (off + A.length) B = splice l off (A ++ B) := by
  apply List.ext_getElem?
  intro i
  have hl : (splice l off A).length = l.length := length_splice l off A h
  rw [getElem?_splice _ _ _ (by rw [hl]; omega), getElem?_splice _ _ _ (by omega),
    getElem?_splice _ _ _ (by omega)]
  by_cases h1 : i < off
  · have : i < off + A.length := by omega
    simp [h1, this]
  · by_cases h2 : i < off + A.length
    · have h3 : i < off + (A ++ B).length := by rw [List.length_append]; omega
      have h4 : i - off < A.length := by omega
      simp [h1, h2, List.getElem?_append_left h4]
      intro hc; omega
    · by_cases h3 : i < off + A.length + B.length
      · have h4 : i < off + (A ++ B).length := by rw [List.length_append]; omega
        have h5 : A.length ≤ i - off := by omega
        have h6 : i - (off + A.length) = i - off - A.length := by omega
        simp [h1, h2, h3, List.getElem?_append_right h5, h6]
        intro hc; omega
      · have h4 : ¬ i < off + (A ++ B).length := by rw [List.length_append]; omega
        simp [h1, h2, h3]
        intro hc; omega

theorem poke_poke_adj (h : Heap) (a off : Nat) (A B : Bytes) (ha : a < h.length)
    (hb : off + A.length ≤ (arrayOf h a).length) :
    poke (poke h a off A) a (off + A.length) B = poke h a off (A ++ B) := by
  unfold poke
  rw [show arrayOf (h.set a (splice (arrayOf h a) off A)) a = splice (arrayOf h a) off A from
    arrayOf_poke_same h a off A ha, splice_splice_adj _ _ _ _ hb, List.set_set]

/-! ### fillSingleBlock, fillCounterN -/

/-- `fillSingleBlock(dst, src, count)`: the 16 bytes `src[:12] ‖ be32(count)` at `dst` -/
theorem fillSingleBlock_ok (h : Heap) (dst src : Slice) (v : Nat)
    (hwd : WF h dst) (hdl : 16 ≤ dst.len) (hws : WF h src) (hsl : src.len = 16) :
    ∃ a, dst.arr = some a ∧ a < h.length ∧ dst.off + dst.cap ≤ (arrayOf h a).length ∧
      fillSingleBlock h dst src v =
        .ok (poke h a dst.off ((read h src).take 12 ++ Bytes.ofNatBE 4 v)) := by
  have hdc := hwd.1
  have hsc := hws.1
  have hsr : (read h src).length = 16 := by rw [length_read h src hws, hsl]
  unfold fillSingleBlock
  rw [sliceTo_ok src 12 (by omega), Outcome.bind_ok]
  have hmin : min dst.len (takeS src 12).len = 12 := by show min dst.len 12 = 12; omega
  obtain ⟨a, hsa, ha, hcap, ec⟩ := copy_ok' h dst (takeS src 12) hwd (by rw [hmin]; omega)
  rw [hmin, read_takeS h src 12 (by omega), List.take_take, Nat.min_self] at ec
  refine ⟨a, hsa, ha, hcap, ?_⟩
  rw [ec]
  simp only []
  rw [sliceFrom_ok dst 12 (by omega) hdc, Outcome.bind_ok]
  have hl12 : ((read h src).take 12).length = 12 := by rw [List.length_take]; omega
  have hb : dst.off + ((read h src).take 12).length ≤ (arrayOf h a).length := by omega
  have wd1 : WF (poke h a dst.off ((read h src).take 12)) (dropS dst 12) :=
    WF_poke h a _ _ _ hb (WF_dropS h dst 12 hwd (by omega))
  obtain ⟨a', hsa', _, _, es⟩ := store_ok _ (dropS dst 12) (Bytes.ofNatBE 4 v) wd1
    (by rw [ofNatBE_length]; omega) (by rw [ofNatBE_length]; show 4 ≤ dst.len - 12; omega)
  have : a' = a := by
    have : (dropS dst 12).arr = dst.arr := rfl
    rw [this, hsa] at hsa'; injection hsa' with e; exact e.symm
  subst this
  unfold putUint32BE
  rw [if_pos (by show 3 < dst.len - 12; omega), es]
  show Outcome.ok (poke _ a' (dst.off + 12) _) = _
  have := poke_poke_adj h a' dst.off ((read h src).take 12) (Bytes.ofNatBE 4 v) ha hb
  rw [hl12] at this
  rw [this]

/-- the lanes `first .. first+n-1` of `fillCounterN` -/
def lanes (J : Bytes) (c : Nat) : Nat → Nat → Bytes
  | _, 0 => []
  | i, n + 1 => (J.take 12 ++ Bytes.ofNatBE 4 ((c + i) % 2 ^ 32)) ++ lanes J c (i + 1) n

theorem fillLanes_spec (h0 : Heap) (src dst : Slice) (c : Nat)
    (hws : WF h0 src) (hsl : src.len = 16) (hwd : WF h0 dst) (hne : src.arr ≠ dst.arr) :
    ∀ (n i : Nat) (h : Heap), UnchangedOutside h0 h (Reg dst) → 16 * (i + n) ≤ dst.len →
      ∃ h', fillLanes src c n i h dst = .ok h' ∧ UnchangedOutside h0 h' (Reg dst) ∧
        read h' (takeS dst (16 * (i + n)))
          = read h (takeS dst (16 * i)) ++ lanes (read h0 src) c i n := by
  have avoid : ∀ a i, src.arr = some a → src.off ≤ i → i < src.off + src.len → ¬ Reg dst a i := by
    intro a i ha _ _ ⟨hr, _, _⟩; exact hne (ha.trans hr.symm)
  intro n
  induction n with
  | zero =>
    intro i h hu _
    exact ⟨h, rfl, hu, by simp [lanes]⟩
  | succ n ih =>
    intro i h hu hlen
    have hdc := hwd.1
    have wd := WF_of_unchanged h0 h _ hu dst hwd
    have ws := WF_of_unchanged h0 h _ hu src hws
    have rs : read h src = read h0 src := read_of_UO hu src hws avoid
    have hsr : (read h0 src).length = 16 := by rw [length_read h0 src hws, hsl]
    unfold fillLanes
    rw [sliceFrom_ok dst (16 * i) (by omega) hdc, Outcome.bind_ok]
    obtain ⟨a, hsa, ha, hcap, ef⟩ := fillSingleBlock_ok h (dropS dst (16 * i)) src ((c + i) % 2 ^ 32)
      (WF_dropS h dst _ wd (by omega)) (by show 16 ≤ dst.len - 16 * i; omega) ws hsl
    rw [ef, Outcome.bind_ok, rs]
    have hsa' : dst.arr = some a := hsa
    have hcap' : dst.off + 16 * i + (dst.cap - 16 * i) ≤ (arrayOf h a).length := hcap
    have hll : ((read h0 src).take 12 ++ Bytes.ofNatBE 4 ((c + i) % 2 ^ 32)).length = 16 := by
      rw [List.length_append, List.length_take, ofNatBE_length]; omega
    have hb : dst.off + 16 * i + ((read h0 src).take 12
        ++ Bytes.ofNatBE 4 ((c + i) % 2 ^ 32)).length ≤ (arrayOf h a).length := by
      rw [hll]; omega
    have hu1 : UnchangedOutside h0 (poke h a (dst.off + 16 * i)
        ((read h0 src).take 12 ++ Bytes.ofNatBE 4 ((c + i) % 2 ^ 32))) (Reg dst) := by
      refine UO_trans hu (unchanged_poke h a _ _ ha hb (Reg dst) ?_) (fun _ _ _ hr => hr)
      intro x h1 h2
      rw [hll] at h2
      exact ⟨hsa', by simp; omega, by simp; omega⟩
    obtain ⟨h', e', u', r'⟩ := ih (i + 1) _ hu1 (by omega)
    refine ⟨h', e', u', ?_⟩
    rw [show i + (n + 1) = i + 1 + n by omega, r']
    have hext := read_poke_extend h a ((read h0 src).take 12 ++ Bytes.ofNatBE 4 ((c + i) % 2 ^ 32))
      (takeS dst (16 * i)) hsa' ha (by show dst.off + 16 * i + _ ≤ _; exact hb)
    rw [hll] at hext
    have hext' : read (poke h a (dst.off + 16 * i)
        ((read h0 src).take 12 ++ Bytes.ofNatBE 4 ((c + i) % 2 ^ 32))) (takeS dst (16 * i + 16))
        = read h (takeS dst (16 * i))
          ++ ((read h0 src).take 12 ++ Bytes.ofNatBE 4 ((c + i) % 2 ^ 32)) := hext
    rw [show 16 * (i + 1) = 16 * i + 16 by omega, hext', lanes, List.append_assoc]

theorem lanes_eq (J : Bytes) (hJ : J.length = 16) (k : Nat) :
    ∀ (n i : Nat), lanes J ((Bytes.toNatBE (J.drop 12) + k) % 2 ^ 32) i n
      = ctrBlocks (blockToNat J) (k + i) n := by
  intro n
  induction n with
  | zero => intro i; rfl
  | succ n ih =>
    intro i
    have hm : ((Bytes.toNatBE (J.drop 12) + k) % 2 ^ 32 + i) % 2 ^ 32
        = (Bytes.toNatBE (J.drop 12) + (k + i)) % 2 ^ 32 := by omega
    rw [lanes, ctrBlocks, ih (i + 1), ← lane_block J hJ (k + i),
      show k + (i + 1) = k + i + 1 by omega, hm]

/-- `fillCounterN(dst, src, count)`: the `n` counter blocks J+count+1, …, J+count+n -/
theorem fillCounter_spec (n : Nat) (h : Heap) (dst src : Slice) (count : Nat)
    (hwd : WF h dst) (hdl : dst.len = 16 * n) (hws : WF h src) (hsl : src.len = 16)
    (hne : src.arr ≠ dst.arr) :
    ∃ h', fillCounter n h dst src count = .ok h' ∧ UnchangedOutside h h' (Reg dst) ∧
      read h' dst = ctrBlocks (blockToNat (read h src)) (count + 1) n := by
  have hsc := hws.1
  have hsr : (read h src).length = 16 := by rw [length_read h src hws, hsl]
  unfold fillCounter
  rw [sliceFrom_ok src 12 (by omega) hsc, Outcome.bind_ok]
  have hw : uint32BE h (dropS src 12) = .ok (Bytes.toNatBE ((read h src).drop 12)) := by
    unfold uint32BE
    rw [if_pos (by show 3 < src.len - 12; omega), read_dropS,
      List.take_of_length_le (by rw [List.length_drop]; omega)]
  rw [hw, Outcome.bind_ok]
  obtain ⟨h', e, u, r⟩ := fillLanes_spec h src dst
    ((Bytes.toNatBE ((read h src).drop 12) + count + 1) % 2 ^ 32) hws hsl hwd hne n 0 h
    (unchanged_refl h _) (by omega)
  refine ⟨h', e, u, ?_⟩
  rw [Nat.zero_add, ← hdl, takeS_len] at r
  rw [r]
  have : read h (takeS dst (16 * 0)) = [] := by
    have := length_read h (takeS dst (16 * 0)) (WF_takeS h dst _ hwd (by omega))
    exact List.eq_nil_of_length_eq_zero this
  rw [this, List.nil_append, Nat.add_assoc, lanes_eq _ hsr (count + 1) n 0]

/-! ### the setting of one call of cryptoBlocks -/

/-- what `cryptoBlocks(out, in, preCounter)` may assume: well-formed slices, room for the output,
    a 16-byte pre-counter block outside the output, and `in` either outside the output region or
    starting exactly where it starts -/
structure CBCtx (h0 : Heap) (out0 in0 pre : Slice) : Prop where
  wo : WF h0 out0
  wi : WF h0 in0
  wp : WF h0 pre
  pl : pre.len = 16
  le : in0.len ≤ out0.len
  compat : in0.arr ≠ out0.arr ∨ in0.off = out0.off ∨ in0.off + in0.len ≤ out0.off ∨
    out0.off + in0.len ≤ in0.off
  po : pre.arr ≠ out0.arr

section ctx
variable {k : Kernels} (hk : KSpec k) {h0 : Heap} {out0 in0 pre : Slice}
  (cx : CBCtx h0 out0 in0 pre)
include hk cx

/-- after `m` whole blocks: only `out0[0 : 16m)` changed, and it shows the xor of the input with the
    key stream E(J+1) ‖ … ‖ E(J+m) -/
def Inv (k : Kernels) (h0 : Heap) (out0 in0 pre : Slice) (m : Nat) (h : Heap) : Prop :=
  UnchangedOutside h0 h (InRegion out0 0 (16 * m)) ∧
  read h (takeS out0 (16 * m)) =
    xorBytes ((read h0 in0).take (16 * m)) (stream k.E (ctrAdd (blockToNat (read h0 pre)) 1) m)

omit hk in
/-- the part of the input not yet consumed is still what it was (also in place) -/
theorem rest_unchanged (m : Nat) (hm : 16 * m ≤ in0.len) (h : Heap) (n : Nat)
    (hu : UnchangedOutside h0 h (InRegion out0 0 n)) (hn : n ≤ 16 * m) :
    read h (dropS in0 (16 * m)) = (read h0 in0).drop (16 * m) := by
  rw [← read_dropS]
  apply read_of_UO hu _ (WF_dropS h0 in0 _ cx.wi hm)
  intro a i ha h1 h2 ⟨hr, h3, h4⟩
  have ha' : in0.arr = some a := ha
  have h1' : in0.off + 16 * m ≤ i := h1
  have h2' : i < in0.off + 16 * m + (in0.len - 16 * m) := h2
  rcases cx.compat with hc | hc | hc | hc
  · exact hc (ha'.trans hr.symm)
  · omega
  · omega
  · omega

omit hk in
theorem pre_unchanged (h : Heap) (n : Nat) (hu : UnchangedOutside h0 h (InRegion out0 0 n)) :
    read h pre = read h0 pre := by
  apply read_of_UO hu _ cx.wp
  intro a i ha _ _ ⟨hr, _, _⟩
  exact cx.po (ha.trans hr.symm)

omit hk cx in
theorem takeS_takeS (s : Slice) (a b : Nat) : takeS (takeS s a) b = takeS s b := rfl

omit hk cx in
theorem dropS_takeS (s : Slice) (a b : Nat) : dropS (takeS s (a + b)) a = takeS (dropS s a) b := by
  simp [dropS, takeS]

/-- one length class keeps the invariant -/
theorem classStep_inv (n : Nat) (hn : 0 < n) (m : Nat) (h : Heap) (hinv : Inv k h0 out0 in0 pre m h)
    (hlen : 16 * (m + n) ≤ in0.len) :
    ∃ h', classStep k n h (dropS out0 (16 * m)) (dropS in0 (16 * m)) pre m
        = .ok (h', dropS out0 (16 * (m + n)), dropS in0 (16 * (m + n))) ∧
      Inv k h0 out0 in0 pre (m + n) h' := by
  obtain ⟨hu, hr⟩ := hinv
  have hle := cx.le
  have hoc := cx.wo.1
  have hic := cx.wi.1
  -- slices in the current heap
  have wo := WF_of_unchanged h0 h _ hu out0 cx.wo
  have wi := WF_of_unchanged h0 h _ hu in0 cx.wi
  have wp := WF_of_unchanged h0 h _ hu pre cx.wp
  have rp : read h pre = read h0 pre := pre_unchanged cx h _ hu
  have hJ : (read h0 pre).length = 16 := by rw [length_read h0 pre cx.wp, cx.pl]
  have hXl : (read h0 in0).length = in0.len := length_read h0 in0 cx.wi
  -- the two local arrays
  unfold classStep
  simp only [localArray_eq]
  generalize hh1 : h ++ [List.replicate (16 * n) (0 : UInt8)] = h1
  have hh1l : h1.length = h.length + 1 := by rw [← hh1]; simp
  have e1 : UnchangedOutside h h1 Nowhere := by rw [← hh1]; exact unchanged_append h _ _
  have wc1 : WF h1 (fresh h (16 * n)) := by rw [← hh1]; exact WF_fresh h _
  generalize hh2 : h1 ++ [List.replicate (16 * n) (0 : UInt8)] = h2
  have e2 : UnchangedOutside h1 h2 Nowhere := by rw [← hh2]; exact unchanged_append h1 _ _
  have wc2 : WF h2 (fresh h (16 * n)) := WF_of_unchanged h1 h2 _ e2 _ wc1
  have wt2 : WF h2 (fresh h1 (16 * n)) := by rw [← hh2]; exact WF_fresh h1 _
  have e02 : UnchangedOutside h h2 Nowhere := UO_trans e1 e2 (fun _ _ _ f => f)
  have wp2 := WF_of_unchanged h h2 _ e02 pre wp
  have rp2 : read h2 pre = read h0 pre := by
    rw [read_of_UO e02 pre wp (fun _ _ _ _ _ f => f), rp]
  -- fillCounter
  have hpc : pre.arr ≠ (fresh h (16 * n)).arr := by
    intro he
    have := arr_lt_of_WF wp (a := h.length) (by rw [he]; rfl)
    omega
  obtain ⟨h3, ef, u3, r3⟩ := fillCounter_spec n h2 (fresh h (16 * n)) pre m wc2 rfl wp2 cx.pl hpc
  rw [rp2] at r3
  have e03 : UnchangedOutside h h3 Nowhere :=
    UO_trans e02 u3 (Reg_new (s := fresh h (16 * n)) rfl (Nat.le_refl _) Nowhere 0 _)
  have wc3 := WF_of_unchanged h2 h3 _ u3 _ wc2
  have wt3 := WF_of_unchanged h2 h3 _ u3 _ wt2
  -- the kernel
  obtain ⟨h4, ec, u4, r4⟩ := cryptoBlockN_spec k hk n hn h3 (fresh h1 (16 * n)) (fresh h (16 * n))
    wt3 wc3 (Nat.le_refl _) (Nat.le_refl _)
  have e04 : UnchangedOutside h h4 Nowhere :=
    UO_trans e03 u4 (Reg_new (s := fresh h1 (16 * n)) rfl (by omega) Nowhere 0 _)
  have wt4 := WF_of_unchanged h3 h4 _ u4 _ wt3
  have r4' : read h4 (fresh h1 (16 * n))
      = stream k.E (ctrAdd (blockToNat (read h0 pre)) (m + 1)) n := by
    have : takeS (fresh h1 (16 * n)) (16 * n) = fresh h1 (16 * n) := rfl
    rw [this] at r4
    rw [r4, r3, List.take_of_length_le (by rw [ctrBlocks_length]; omega), blocksE_ctrBlocks]
  -- the xor
  have wo4 := WF_of_unchanged h h4 _ e04 out0 wo
  have wi4 := WF_of_unchanged h h4 _ e04 in0 wi
  obtain ⟨h5, ex, u5, r5⟩ := xorN_spec k hk (16 * n) (by omega) h4 (dropS out0 (16 * m))
    (fresh h1 (16 * n)) (dropS in0 (16 * m))
    (WF_dropS h4 out0 _ wo4 (by omega)) wt4 (WF_dropS h4 in0 _ wi4 (by omega))
    (by show 16 * n ≤ out0.len - 16 * m; omega) (Nat.le_refl _)
    (by show 16 * n ≤ in0.len - 16 * m; omega)
  refine ⟨h5, ?_, ?_, ?_⟩
  · rw [ef, Outcome.bind_ok, ec, Outcome.bind_ok, ex, Outcome.bind_ok,
      sliceFrom_ok _ (16 * n) (by show 16 * n ≤ out0.len - 16 * m; omega)
        (by show out0.len - 16 * m ≤ out0.cap - 16 * m; omega),
      Outcome.bind_ok,
      sliceFrom_ok _ (16 * n) (by show 16 * n ≤ in0.len - 16 * m; omega)
        (by show in0.len - 16 * m ≤ in0.cap - 16 * m; omega),
      Outcome.bind_ok, dropS_dropS, dropS_dropS, ← Nat.mul_add]
  · have huA : UnchangedOutside h0 h4 (InRegion out0 0 (16 * (m + n))) :=
      UO_trans (UO_mono hu (fun a i _ ⟨x, y, z⟩ => ⟨x, y, by omega⟩)) e04 (fun _ _ _ f => f.elim)
    refine UO_trans huA u5 ?_
    intro a i _ ⟨x, y, z⟩
    have y' : out0.off + 16 * m + 0 ≤ i := y
    have z' : i < out0.off + 16 * m + 0 + 16 * n := z
    exact ⟨x, by omega, by omega⟩
  · have hsplit := read_split h5 (takeS out0 (16 * (m + n))) (16 * m)
      (by show 16 * m ≤ 16 * (m + n); omega)
    rw [takeS_takeS, Nat.mul_add, dropS_takeS] at hsplit
    rw [Nat.mul_add, hsplit, r5, r4']
    -- the part written before
    have rA : read h5 (takeS out0 (16 * m)) = read h (takeS out0 (16 * m)) := by
      have wA := WF_takeS h out0 (16 * m) wo (by omega)
      rw [read_of_UO u5 _ (WF_of_unchanged h h4 _ e04 _ wA), read_of_UO e04 _ wA (fun _ _ _ _ _ f => f)]
      intro a i _ h1 h2 ⟨_, y, _⟩
      have h2' : i < out0.off + 16 * m := h2
      have y' : out0.off + 16 * m + 0 ≤ i := y
      omega
    -- the input of this class
    have rI : read h4 (dropS in0 (16 * m)) = (read h0 in0).drop (16 * m) := by
      rw [read_of_UO e04 _ (WF_dropS h in0 _ wi (by omega)) (fun _ _ _ _ _ f => f)]
      exact rest_unchanged cx m (by omega) h _ hu (Nat.le_refl _)
    rw [rA, hr, rI, stream_add, ctrAdd_ctrAdd, Nat.add_comm 1 m, xorBytes_append_right,
      stream_length hk.E_len, List.take_take, List.drop_take]
    congr 1
    · rw [Nat.min_eq_left (by omega)]
    · rw [List.take_of_length_le (by rw [stream_length hk.E_len]; omega), xorBytes_comm]
      congr 2
      omega

/-- the variables of `cryptoBlocks` after `m` blocks, `r` blocks to go in the stages -/
def stAt (out0 in0 : Slice) (h : Heap) (m r : Nat) : CB :=
  { h := h, out := dropS out0 (16 * m), inp := dropS in0 (16 * m), blockCount := m, blocks := r }

omit hk cx in
theorem maxPlain_eq : maxPlain = 68719476704 := by decide

theorem loop256_inv (hmax : in0.len ≤ maxPlain) (r : Nat) :
    ∀ (i m : Nat) (h : Heap), Inv k h0 out0 in0 pre m h → 16 * (m + 16 * i) ≤ in0.len →
      ∃ h', loop256 k pre i (stAt out0 in0 h m r) = .ok (stAt out0 in0 h' (m + 16 * i) r) ∧
        Inv k h0 out0 in0 pre (m + 16 * i) h' := by
  rw [maxPlain_eq] at hmax
  intro i
  induction i with
  | zero => intro m h hinv _; exact ⟨h, rfl, hinv⟩
  | succ i ih =>
    intro m h hinv hlen
    obtain ⟨h1, e1, inv1⟩ := classStep_inv hk cx 16 (by omega) m h hinv (by omega)
    obtain ⟨h2, e2, inv2⟩ := ih (m + 16) h1 inv1 (by omega)
    refine ⟨h2, ?_, by rw [show m + 16 * (i + 1) = m + 16 + 16 * i by omega]; exact inv2⟩
    unfold loop256
    show (classStep k 16 h (dropS out0 (16 * m)) (dropS in0 (16 * m)) pre m >>= _) = _
    rw [e1, Outcome.bind_ok]
    have hw : (m + 16) % 2 ^ 32 = m + 16 := by omega
    show loop256 k pre i (CB.mk h1 (dropS out0 (16 * (m + 16))) (dropS in0 (16 * (m + 16)))
      ((m + 16) % 2 ^ 32) r) = _
    rw [hw, show m + 16 * (i + 1) = m + 16 + 16 * i by omega]
    exact e2

theorem stage_inv (hmax : in0.len ≤ maxPlain) (n : Nat) (hn : 0 < n) (m r : Nat) (h : Heap)
    (hinv : Inv k h0 out0 in0 pre m h) (hB : 16 * (m + r) ≤ in0.len)
    (hr : r < 2 * n) (hbit : r &&& n ≠ 0 ↔ n ≤ r) :
    ∃ h' m' r', stage k n pre (stAt out0 in0 h m r) = .ok (stAt out0 in0 h' m' r') ∧
      Inv k h0 out0 in0 pre m' h' ∧ m' + r' = m + r ∧ r' < n := by
  rw [maxPlain_eq] at hmax
  unfold stage
  by_cases hb : r &&& n ≠ 0
  · have hnr := hbit.mp hb
    obtain ⟨h1, e1, inv1⟩ := classStep_inv hk cx n hn m h hinv (by omega)
    refine ⟨h1, m + n, r - n, ?_, inv1, by omega, by omega⟩
    show (if r &&& n ≠ 0 then _ else _) = _
    rw [if_pos hb]
    show (classStep k n h (dropS out0 (16 * m)) (dropS in0 (16 * m)) pre m >>= _) = _
    rw [e1, Outcome.bind_ok]
    have hw : (m + n) % 2 ^ 32 = m + n := by omega
    show Outcome.ok (CB.mk h1 _ _ ((m + n) % 2 ^ 32) (r - n)) = _
    rw [hw]
    rfl
  · have hnr : ¬ n ≤ r := fun hc => hb (hbit.mpr hc)
    refine ⟨h, m, r, ?_, hinv, rfl, by omega⟩
    show (if r &&& n ≠ 0 then _ else _) = _
    rw [if_neg hb]

end ctx

/-! ### the byte loop of the tail -/

theorem idx_ok {α : Type} (l : List α) (i : Nat) (hi : i < l.length) : Outcome.idx l i = .ok l[i] := by
  unfold Outcome.idx
  rw [List.getElem?_eq_getElem hi]

theorem byteLoop_spec (hb : Heap) (tmp out inp : Slice) (ρ : Nat)
    (wt : WF hb tmp) (wo : WF hb out) (wi : WF hb inp)
    (ht : ρ ≤ tmp.len) (ho : ρ ≤ out.len) (hi : ρ ≤ inp.len)
    (hto : tmp.arr ≠ out.arr)
    (compat : inp.arr ≠ out.arr ∨ inp.off = out.off ∨ inp.off + inp.len ≤ out.off ∨
      out.off + ρ ≤ inp.off) :
    ∀ (r i : Nat) (h : Heap), i + r = ρ → UnchangedOutside hb h (InRegion out 0 i) →
      read h (takeS out i) = xorBytes ((read hb tmp).take i) ((read hb inp).take i) →
      ∃ h', byteLoop tmp out inp r i h = .ok h' ∧ UnchangedOutside hb h' (InRegion out 0 ρ) ∧
        read h' (takeS out ρ) = xorBytes ((read hb tmp).take ρ) ((read hb inp).take ρ) := by
  have hKl : (read hb tmp).length = tmp.len := length_read hb tmp wt
  have hTl : (read hb inp).length = inp.len := length_read hb inp wi
  intro r
  induction r with
  | zero =>
    intro i h hir hu hrd
    have : i = ρ := by omega
    subst this
    exact ⟨h, rfl, hu, hrd⟩
  | succ r ih =>
    intro i h hir hu hrd
    have wt' := WF_of_unchanged hb h _ hu tmp wt
    have wo' := WF_of_unchanged hb h _ hu out wo
    have wi' := WF_of_unchanged hb h _ hu inp wi
    -- tmp[i]
    have rt : read h tmp = read hb tmp := by
      apply read_of_UO hu tmp wt
      intro a x ha _ _ ⟨hr, _, _⟩
      exact hto (ha.trans hr.symm)
    have e1 : index h tmp i = .ok (read hb tmp)[i] := by
      unfold index
      rw [if_pos (by omega), rt, idx_ok _ i (by omega)]
    -- in[i]
    have hd : (read h inp).drop i = (read hb inp).drop i := by
      rw [← read_dropS, ← read_dropS]
      apply read_of_UO hu _ (WF_dropS hb inp i wi (by omega))
      intro a x ha h1 h2 ⟨hr, h3, h4⟩
      have ha' : inp.arr = some a := ha
      have h1' : inp.off + i ≤ x := h1
      have h2' : x < inp.off + i + (inp.len - i) := h2
      rcases compat with hc | hc | hc | hc
      · exact hc (ha'.trans hr.symm)
      · omega
      · omega
      · omega
    have hg : (read h inp)[i]? = (read hb inp)[i]? := by
      have := congrArg (fun l => l[0]?) hd
      simpa using this
    have hil : i < (read h inp).length := by rw [length_read h inp wi']; omega
    have e2 : index h inp i = .ok (read hb inp)[i] := by
      unfold index
      rw [if_pos (by omega), idx_ok _ i hil]
      congr 1
      rw [List.getElem?_eq_getElem hil, List.getElem?_eq_getElem (by omega)] at hg
      exact Option.some.inj hg
    -- out[i] = …
    obtain ⟨a, hsa, ha, hcap, e3⟩ := setIndex_ok h out i ((read hb tmp)[i] ^^^ (read hb inp)[i]) wo'
      (by omega)
    have hoc := wo.1
    have hbnd : out.off + i + 1 ≤ (arrayOf h a).length := by omega
    have hu' : UnchangedOutside hb (poke h a (out.off + i) [(read hb tmp)[i] ^^^ (read hb inp)[i]])
        (InRegion out 0 (i + 1)) := by
      refine UO_trans (UO_mono hu (fun a x _ ⟨p, q, s⟩ => ⟨p, q, by omega⟩))
        (unchanged_poke h a _ _ ha (by simpa using hbnd) _ ?_) (fun _ _ _ f => f)
      intro x h1 h2
      exact ⟨hsa, by omega, by simp at h2; omega⟩
    have hext := read_poke_extend h a [(read hb tmp)[i] ^^^ (read hb inp)[i]] (takeS out i) hsa ha
      (show out.off + i + 1 ≤ _ from hbnd)
    have hext' : read (poke h a (out.off + i) [(read hb tmp)[i] ^^^ (read hb inp)[i]])
        (takeS out (i + 1)) = read h (takeS out i) ++ [(read hb tmp)[i] ^^^ (read hb inp)[i]] := hext
    obtain ⟨h', e', u', r'⟩ := ih (i + 1) _ (by omega) hu'
      (by rw [hext', hrd, xorBytes_take_succ _ _ i (by omega) (by omega)])
    refine ⟨h', ?_, u', r'⟩
    unfold byteLoop
    rw [e1, Outcome.bind_ok, e2, Outcome.bind_ok, e3, Outcome.bind_ok]
    exact e'

end SMGo.Proofs.GCMGlueA64
