import SMGo.Proofs.ISAValLadXs4
import SMGo.Proofs.ISAValLadX8
set_option linter.unusedSimpArgs false
namespace SMGo.Proofs.ISAVal
open SMGo.Model.ISAVal SMGo.Model.GCM SMGo.Proofs.GCM SMGo.Proofs.ISATouch
open SMGo.Model.ISA (Reg Opd Instr)

def x4ACode : List DInstr := fill4Code ++ (kernCode 16 ++ xs4Code)

theorem fill4_writes : writesNone fill4Code (List.range 16) aKeepV (List.range 8) = true := by decide +kernel
theorem xs4_writesM : writesNoneM xs4Code (List.range 16) (14 :: aKeepV) (List.range 8) = true := by decide +kernel

set_option maxHeartbeats 1000000 in
/-- `loopX4` from `fillCounterX4` to the store: 64 bytes of counter-mode output -/
theorem x4A_spec (s : State) (pc : PCtx s) (rk jb src : List Nat) (hrk : rk.length = 32) (hrkb : ∀ x ∈ rk, x < 2 ^ 32)
    (hjb : jb.length = 16) (hjbb : ∀ x ∈ jb, x < 2 ^ 8) (hsb : ∀ x ∈ src, x < 2 ^ 8)
    (Mf : List Nat → List Region) (dbase dlen sp : Nat) (bf : Buf Mf dbase dlen)
    (hrd : ∀ b i, b.length = dlen → i < 32 → readMem (Mf b) (73014444032 + 4 * i) 4 = .ok (lanes 8 4 (rk.getD i 0)))
    (b0 : List Nat) (hb0 : b0.length = dlen) (hm : s.mem = Mf b0) (c : Nat) (hsrc : SrcFrom (Mf b0) sp src (16 * c))
    (hctr : quadAt (vreg s 14) 0 = ctrW (Wblk jb 0) c) (h15 : greg s 15 = 73014444032)
    (h10 : greg s 10 = sp + 16 * c) (h13 : greg s 13 = dbase + 16 * c) (hso : 16 * c + 64 ≤ src.length) (hdo : 16 * c + 64 ≤ dlen)
    (hsp : sp + src.length < 2 ^ 63) (hdb : dbase + dlen < 2 ^ 63) :
    ∃ s', execList x4ACode s = .ok s' ∧
      s'.mem = Mf (spliceAt b0 (16 * c) ((oReg rk jb src c 1 0 ++ oReg rk jb src c 1 1) ++ (oReg rk jb src c 1 2 ++ oReg rk jb src c 1 3))) ∧
      vreg s' 9 = unlanes 8 ((oReg rk jb src c 1 0 ++ oReg rk jb src c 1 1) ++ (oReg rk jb src c 1 2 ++ oReg rk jb src c 1 3)) ∧
      quadAt (vreg s' 14) 0 = ctrW (Wblk jb 0) (c + 4) ∧ greg s' 15 = 73014444032 ∧
      KeepsM aKeepG aKeepV (List.range 8) s s' := by
  obtain ⟨s1, hr1, q, q14⟩ := fill4_spec s pc.lenV pc.v16 (Wblk jb 0) (Wblk_qlt jb 0) c hctr
  have k1 := keeps_of_exec _ fill4_writes hr1
  obtain ⟨s2, hr2, out2, g15, k2⟩ := kern_spec 16 (by decide) s1 (k1.lenG.trans pc.lenG) (k1.lenV.trans pc.lenV)
    ((k1.v 10 (by decide)).trans pc.v10) ((k1.v 11 (by decide)).trans pc.v11) ((k1.v 12 (by decide)).trans pc.v12)
    (fun r l => ctrW (Wblk jb 0) (c + 1 * r + l + 1)) q rk hrk hrkb 73014444032 (by rw [k1.g 15 (by decide)]; exact h15) (by decide)
    (fun i hi => by rw [k1.mem, hm]; exact hrd b0 i hb0 hi)
  have hks : ∀ r, r < 4 → vreg s2 (9 - r) < 2 ^ (8 * 16) ∧ lanes 8 16 (vreg s2 (9 - r)) = ksReg rk jb c 1 r ∧ (ksReg rk jb c 1 r).length = 16 ∧
      ∀ x ∈ ksReg rk jb c 1 r, x < 2 ^ 8 := by
    intro r hr
    refine ⟨(out2 r hr).1, ?_, ksReg_length rk jb c 1 r, ksReg_bytes rk jb c 1 r⟩
    rw [(out2 r hr).2]
    unfold ksReg
    apply flatMap_range_congr
    intro l _
    exact encQ_ctr rk jb hrkb hjb hjbb _
  have hm2 : s2.mem = Mf b0 := by rw [k2.mem, k1.mem]; exact hm
  obtain ⟨s3, hr3, m3, r9⟩ := xs4_spec s2 (k2.lenG.trans (k1.lenG.trans pc.lenG)) (k2.lenV.trans (k1.lenV.trans pc.lenV)) Mf dbase dlen bf src sp
    hsb b0 hb0 hm2 (16 * c) (16 * c) hsrc (by rw [k2.g 10 (by decide), k1.g 10 (by decide)]; exact h10)
    (by rw [k2.g 13 (by decide), k1.g 13 (by decide)]; exact h13) hso hdo hsp hdb (ksReg rk jb c 1) hks
  have k3 := keepsM_of_exec _ xs4_writesM hr3
  refine ⟨s3, execList_append_ok hr1 (execList_append_ok hr2 hr3), m3, r9, ?_, ?_, ?_⟩
  · rw [k3.v 14 (by decide), k2.v 14 (by decide)]; exact q14
  · rw [k3.g 15 (by decide)]; exact g15
  · exact ((k1.toM.mono (by decide) (fun _ h => h) (fun _ h => h)).trans (k2.toM.mono (by decide) (by decide) (fun _ h => h))).trans
      (k3.mono (by decide) (by decide) (fun _ h => h))

/-- the 64 output bytes of the class -/
theorem x4_out (rk jb src : List Nat) (c : Nat) (hso : 16 * c + 64 ≤ src.length) :
    (oReg rk jb src c 1 0 ++ oReg rk jb src c 1 1) ++ (oReg rk jb src c 1 2 ++ oReg rk jb src c 1 3)
      = xorN ((src.drop (16 * c)).take 64) (ksN rk jb c 4) := by
  have hk := ksN_regs rk jb c 1
  have hc := chunks4g src (16 * c) 16 hso
  have hl : ∀ a, a + 16 ≤ 64 → ((src.drop (16 * c + a)).take 16).length = (ksReg rk jb c 1 0).length := by
    intro a ha; rw [ksReg_length, List.length_take, List.length_drop]; omega
  show _ = xorN ((src.drop (16 * c)).take (4 * 16)) (ksN rk jb c (1 + (1 + (1 + 1))))
  rw [hk, hc, xorN_append _ _ _ _ (by rw [hl 0 (by omega)]),
    xorN_append _ _ _ _ (by rw [hl 16 (by omega), ksReg_length, ksReg_length]),
    xorN_append _ _ _ _ (by rw [hl (2 * 16) (by omega), ksReg_length, ksReg_length]), List.append_assoc]
  rfl

theorem x4_eq (b : Nat) : ladX4Code b =
    [ins .CMPQ [G 9, .imm 64] 0, ins .JLT [.target (b + 11872)] 0] ++ (x4ACode ++
      ([ins .CMPQ [G 0, .imm 0] 0, ins .JEQ [.target (b + 11855)] 0] ++ (hash4Code ++ (ladTailCode 64 ++
        [ins .JMP [.target (b + 8234)] 0])))) := by
  simp only [ladX4Code, x4ACode, fill4Code, kernCode, xs4Code, hash4Code, ghStepCode, ladTailCode, List.append_assoc, List.cons_append,
    List.nil_append]

theorem x4A_len : x4ACode.length = 565 := by
  simp only [x4ACode, List.length_append, kern_len, fill4Code, xs4Code, List.length_cons, List.length_nil]
theorem x4A_nc : x4ACode.all (fun i => !i.mn.isControl) = true := by
  unfold x4ACode; rw [List.all_append, List.all_append, kern_nc]; rfl
theorem hash4_len : hash4Code.length = 31 := by decide +kernel
theorem hash4_nc : hash4Code.all (fun i => !i.mn.isControl) = true := by decide +kernel

set_option maxHeartbeats 1000000 in
/-- **`loopX4`**, when at least 64 bytes remain -/
theorem x4_step (r : Routine) (k b : Nat) (hs : Slice r k (ladX4Code b))
    (lself : findPc r (b + 8234) = some (r.drop k)) (ldone : findPc r (b + 11855) = some (r.drop (k + 600)))
    (lnext : findPc r (b + 11872) = some (r.drop (k + 605)))
    (M2 : List Nat → List Nat → List Region) (dbase dlen tp sp : Nat) (rk jb src : List Nat) (lm : LadMem M2 dbase dlen tp rk src sp)
    (hrk : rk.length = 32) (hrkb : ∀ x ∈ rk, x < 2 ^ 32) (hjb : jb.length = 16) (hjbb : ∀ x ∈ jb, x < 2 ^ 8) (hsb : ∀ x ∈ src, x < 2 ^ 8)
    (hsp : sp + src.length < 2 ^ 63) (hdb : dbase + dlen < 2 ^ 63) (hsl : src.length ≤ dlen)
    (toff h hf c y : Nat) (dc tc : List Nat) (s : State) (hhf : hf < 2 ^ 63)
    (st : LadSt M2 dbase dlen tp sp toff (Wblk jb 0) h hf src 1 c y dc tc s) (hlen : 16 * c + 64 ≤ src.length) :
    ∃ s' N, N ≤ 700 ∧ Reach r k s k s' N ∧
      LadSt M2 dbase dlen tp sp toff (Wblk jb 0) h hf src 1 (c + 4)
        (if hf = 0 then y else ghN4 h 1 y (xorN ((src.drop (16 * c)).take 64) (ksN rk jb c 4)))
        (spliceAt dc (16 * c) (xorN ((src.drop (16 * c)).take 64) (ksN rk jb c 4))) tc s' ∧
      KeepsM ladKeepG ladKeepV (List.range 8) s s' := by
  rw [x4_eq] at hs
  have sG : Slice r k [ins .CMPQ [G 9, .imm 64] 0, ins .JLT [.target (b + 11872)] 0] := hs.left
  have sA : Slice r (k + 2) x4ACode := hs.right.left
  have sH0 := hs.right.right
  rw [x4A_len] at sH0
  have sC : Slice r (k + 2 + 565) [ins .CMPQ [G 0, .imm 0] 0, ins .JEQ [.target (b + 11855)] 0] := sH0.left
  have sH : Slice r (k + 2 + 565 + 2) hash4Code := sH0.right.left
  have sT0 := sH0.right.right
  rw [hash4_len] at sT0
  have sT : Slice r (k + 2 + 565 + 2 + 31) (ladTailCode 64) := sT0.left
  have sJ : Slice r (k + 2 + 565 + 2 + 31 + 4) [ins .JMP [.target (b + 8234)] 0] := sT0.right
  have hg9 : greg s 9 = src.length - 16 * c := st.g9
  have r0 := guard_reach (idx := k + 605) sG rfl lnext s (by rw [st.pc.lenG]; decide) (src.length - 16 * c) 64 hg9 imm64_64 false
    (by rw [cond_jlt _ _ (by omega) (by decide)]; simp; omega)
  simp only [Bool.false_eq_true, if_false] at r0
  let s0 := setFlags s (subF 8 (src.length - 16 * c) 64).2
  have k0 : KeepsM (List.range 16) (List.range 32) (List.range 8) s s0 := keepsM_setFlags _ _ _ s _
  have pc0 : PCtx s0 := st.pc.of_keepsM k0 (by decide)
  obtain ⟨s1, hr1, m1, reg9, ctr1, g15, k1⟩ := x4A_spec s0 pc0 rk jb src hrk hrkb hjb hjbb hsb (fun d => M2 d tc) dbase dlen sp
    (lm.m2.bufD tc st.htc) (fun d i hd hi => lm.rk d tc i hd st.htc hi) dc st.hdc st.mem c (st.srcOK tc st.htc)
    (st.ctr 0 (by decide)) st.rkp st.g10 st.g13 hlen (by omega) hsp hdb
  have r1 : Reach r (k + 2) s0 (k + 2 + 565) s1 565 := by
    have := reach_seg sA x4A_nc hr1; rw [x4A_len] at this; exact this
  have c1 : GhCtx h s1 := (st.gh.of_keepsM k0 (by decide)).of_keepsM k1 (by decide)
  have hout := x4_out rk jb src c hlen
  rw [hout] at m1 reg9
  have hg0 : greg s1 0 = hf := by rw [k1.g 0 (by decide)]; exact st.g0
  have r2 := guard_reach (idx := k + 600) sC rfl ldone s1 (by rw [c1.lenG]; decide) hf 0 hg0 imm64_0' (decide (hf = 0))
    (cond_jeq _ _ hhf (by decide))
  let s2 := setFlags s1 (subF 8 hf 0).2
  have k2 : KeepsM (List.range 16) (List.range 32) (List.range 8) s1 s2 := keepsM_setFlags _ _ _ s1 _
  have c2 : GhCtx h s2 := c1.of_keepsM k2 (by decide)
  have y2 : vreg s2 21 = y := by
    show vreg s1 21 = y
    rw [k1.v 21 (by decide)]; exact st.acc
  obtain ⟨s3, N3, hN3, r3, y3, lt3, m3, k3⟩ : ∃ s3 N3, N3 ≤ 121 ∧ Reach r (if decide (hf = 0) = true then k + 600 else k + 2 + 565 + 2) s2 (k + 600) s3 N3 ∧
      vreg s3 21 = (if hf = 0 then y else ghN4 h 1 y (xorN ((src.drop (16 * c)).take 64) (ksN rk jb c 4))) ∧ vreg s3 21 < 2 ^ 128 ∧
      s3.mem = s2.mem ∧ KeepsM hKeepG hKeepV (List.range 8) s2 s3 := by
    by_cases h0 : hf = 0
    · simp only [h0, decide_true, if_true]
      exact ⟨s2, 0, by omega, Reach.refl _ _ _, y2, by rw [y2]; exact st.acclt, rfl, KeepsM.rfl' _ _ _ _⟩
    · simp only [h0, decide_false, Bool.false_eq_true, if_false]
      obtain ⟨s3, hr3, v3, l3, _, k3⟩ := hash4_spec s2 h c2 y y2 st.acclt (xorN ((src.drop (16 * c)).take 64) (ksN rk jb c 4))
        ⟨by rw [xorN_length, ksN_length, List.length_take, List.length_drop]; omega,
          xorN_bytes _ _ (fun x hx => hsb x (List.mem_of_mem_drop (List.mem_of_mem_take hx))) (ksN_bytes _ _ _ _)⟩
        (by show vreg s1 9 = _; exact reg9)
      have := reach_seg sH hash4_nc hr3
      rw [hash4_len] at this
      exact ⟨s3, 31, by omega, this.cast (by omega) rfl, v3, l3, k3.mem, k3.toM.mono (by decide) (by decide) (fun _ h => h)⟩
  have hG3 : s3.gpr.length = 16 := k3.lenG.trans c2.lenG
  have e13 : greg s3 13 = dbase + 16 * c := by
    rw [k3.g 13 (by decide)]; show greg s1 13 = _; rw [k1.g 13 (by decide)]; exact st.g13
  have e10 : greg s3 10 = sp + 16 * c := by
    rw [k3.g 10 (by decide)]; show greg s1 10 = _; rw [k1.g 10 (by decide)]; exact st.g10
  have e9 : greg s3 9 = src.length - 16 * c := by
    rw [k3.g 9 (by decide)]; show greg s1 9 = _; rw [k1.g 9 (by decide)]; exact st.g9
  obtain ⟨s4, hr4, g13, g10, g9, k4⟩ := ladTail_spec 64 64 imm64_64 (by decide) s3 hG3 _ _ _ e13 e10 e9 (by omega) (by omega) (by omega) (by omega)
  have r4 : Reach r (k + 2 + 565 + 2 + 31) s3 (k + 2 + 565 + 2 + 31 + 4) s4 4 := reach_seg sT (ladTail_nc 64) hr4
  have r5 : Reach r (k + 2 + 565 + 2 + 31 + 4) s4 k s4 1 := reach_jmp sJ lself s4
  have rAll : Reach r k s k s4 (2 + 565 + 2 + N3 + 4 + 1) :=
    (((((r0.trans r1).trans r2).trans r3).trans (r4.cast rfl rfl)).trans r5)
  have kA : KeepsM ladKeepG ladKeepV (List.range 8) s s4 := by
    refine ((((k0.mono (by decide) (by decide) (fun _ h => h)).trans ?_).trans (k2.mono (by decide) (by decide) (fun _ h => h))).trans
      (k3.mono (by decide) (by decide) (fun _ h => h))).trans (k4.toM.mono (by decide) (by decide) (fun _ h => h))
    exact ⟨k1.lenG, k1.lenV, k1.lenK, fun n hn => by
        simp only [ladKeepG, List.mem_cons, List.not_mem_nil, or_false] at hn
        rcases hn with rfl | rfl | rfl
        · exact k1.g 0 (by decide)
        · exact k1.g 6 (by decide)
        · rw [g15]; exact st.rkp.symm,
      fun n hn => k1.v n (by revert n; decide), fun n hn => k1.k n hn, k1.syms, k1.frame⟩
  refine ⟨s4, _, by omega, rAll, ?_, kA⟩
  have hm4 : s4.mem = M2 (spliceAt dc (16 * c) (xorN ((src.drop (16 * c)).take 64) (ksN rk jb c 4))) tc := by
    rw [k4.mem, m3]; exact m1
  refine ⟨st.pc.of_keepsM kA pRegs_lad, st.gh.of_keepsM kA ghRegs_lad, (kA.g 15 (by decide)).trans st.rkp, (kA.g 0 (by decide)).trans st.g0,
    ?_, ?_, ?_, (kA.g 6 (by decide)).trans st.g6, ?_, ?_, ?_, hm4, ?_, st.htc, ?_⟩
  · rw [g9]; omega
  · rw [g10]; omega
  · rw [g13]; omega
  · intro l hl
    have hl0 : l = 0 := by omega
    subst hl0
    rw [k4.v 14 (by decide), k3.v 14 (by decide)]; exact ctr1
  · rw [k4.v 21 (by decide)]; exact y3
  · rw [← y3]; exact lt3
  · rw [spliceAt_length _ _ _ (by rw [xorN_length, ksN_length, List.length_take, List.length_drop, st.hdc]; omega)]; exact st.hdc
  · intro t ht
    exact (lm.adv dc t (16 * c) 64 _ st.hdc ht (by rw [xorN_length, ksN_length, List.length_take, List.length_drop]; omega) (by omega)
      (st.srcOK t ht)).mono _ (by omega)

end SMGo.Proofs.ISAVal
