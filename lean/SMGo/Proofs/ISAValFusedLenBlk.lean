import SMGo.Proofs.ISAValFusedModel
set_option linter.unusedSimpArgs false
namespace SMGo.Proofs.ISAVal
open SMGo.Model.ISAVal SMGo.Model.GCM SMGo.Proofs.GCM SMGo.Proofs.ISATouch
open SMGo.Model.ISA (Reg Opd Instr)

def SH1v : Nat := unlanes 8 Gen.AsmData.amd64_Shuffle1
def SH2v : Nat := unlanes 8 Gen.AsmData.amd64_Shuffle2

/-- the 8 bytes of a 64-bit number, most significant first -/
def be64N (n : Nat) : List Nat := [lane 8 7 n, lane 8 6 n, lane 8 5 n, lane 8 4 n, lane 8 3 n, lane 8 2 n, lane 8 1 n, lane 8 0 n]

theorem lane8_mergeMask (n k new old q : Nat) (hq : q < n) :
    lane 8 q (mergeMask 8 n k new old) = if (k >>> q) % 2 = 1 then lane 8 q new else lane 8 q old := by
  unfold mergeMask
  rw [lane_unlanes 8 _ (by
    intro x hx
    simp only [List.mem_map, List.mem_range] at hx
    obtain ⟨j, _, rfl⟩ := hx
    split <;> exact lane_lt 8 _ _) q (by simpa using hq)]
  simp

theorem sh1_bytes : ∀ J, J < 8 → lane 8 J SH1v = 7 - J := by decide +kernel
theorem sh2_bytes : ∀ J, J < 16 → lane 8 J SH2v = 15 - J := by decide +kernel
theorem k255 : ∀ J, J < 16 → ((255 >>> J) % 2 = 1) = (J < 8) := by decide

theorem lane8_of_lane128 (x J : Nat) (hJ : J < 16) : (lanes 8 16 (lane 128 0 x)).getD J 0 = lane 8 J (lane 128 0 x) := by
  rw [List.getD_eq_getElem?_getD, List.getElem?_eq_getElem (by simp [lanes_length]; exact hJ), getElem_lanes]
  rfl

theorem lane8_hi_zero (a J : Nat) (ha : a < 2 ^ 64) (hJ : 8 ≤ J) : lane 8 J a = 0 := by
  unfold lane
  rw [Nat.shiftRight_eq_div_pow, Nat.div_eq_of_lt, Nat.zero_mod]
  exact Nat.lt_of_lt_of_le ha (Nat.pow_le_pow_right (by decide) (by omega))

/-- **the length block** 8·aLen ‖ 8·cLen (big-endian) as `rev64X2` builds it from two MOVQ'd registers -/
theorem lenBlk_value (x2 x3 a c : Nat) (ha : a < 2 ^ 64) (hc : c < 2 ^ 64) (h2 : lane 128 0 x2 = a) (h3 : lane 128 0 x3 = c) :
    mergeMask 8 (8 * 16 / 8) 255 (vpshufb 16 SH1v x2) (vpshufb 16 SH2v x3) = unlanes 8 (be64N a ++ be64N c) := by
  have hB : ∀ x ∈ be64N a ++ be64N c, x < 2 ^ 8 := by
    intro x hx
    simp only [be64N, List.cons_append, List.nil_append, List.mem_cons, List.not_mem_nil, or_false] at hx
    rcases hx with rfl | rfl | rfl | rfl | rfl | rfl | rfl | rfl | rfl | rfl | rfl | rfl | rfl | rfl | rfl | rfl <;> exact lane_lt _ _ _
  apply eq_of_lanes 8 16
  · unfold mergeMask
    have := unlanes_lt 8 ((List.range (8 * 16 / 8)).map (fun j => if (255 >>> j) % 2 = 1 then lane 8 j (vpshufb 16 SH1v x2) else lane 8 j (vpshufb 16 SH2v x3)))
      (by
        intro x hx
        simp only [List.mem_map, List.mem_range] at hx
        obtain ⟨j, _, rfl⟩ := hx
        split <;> exact lane_lt 8 _ _)
    simpa using this
  · have := unlanes_lt 8 _ hB
    simpa [be64N] using this
  · intro J hJ
    rw [lane8_mergeMask _ _ _ _ J (by omega), byte_vpshufb 16 _ _ J (by decide) hJ, byte_vpshufb 16 _ _ J (by decide) hJ,
      lane_unlanes 8 _ hB J (by simp [be64N]; exact hJ)]
    have hJ0 : J / 16 = 0 := by omega
    rw [hJ0, h2, h3]
    by_cases h8 : J < 8
    · have hk : (255 >>> J) % 2 = 1 := by rw [k255 J hJ]; exact h8
      rw [if_pos hk, sh1_bytes J h8]
      unfold pshufbByte
      rw [if_neg (by omega), Nat.mod_eq_of_lt (by omega)]
      have : (lanes 8 16 a).getD (7 - J) 0 = lane 8 (7 - J) a := by
        rw [List.getD_eq_getElem?_getD, List.getElem?_eq_getElem (by simp [lanes_length]; omega), getElem_lanes]; rfl
      rw [this]
      have hc8 : J = 0 ∨ J = 1 ∨ J = 2 ∨ J = 3 ∨ J = 4 ∨ J = 5 ∨ J = 6 ∨ J = 7 := by omega
      rcases hc8 with rfl | rfl | rfl | rfl | rfl | rfl | rfl | rfl <;> rfl
    · have hk : ¬ (255 >>> J) % 2 = 1 := by rw [k255 J hJ]; exact h8
      rw [if_neg hk, sh2_bytes J hJ]
      unfold pshufbByte
      rw [if_neg (by omega), Nat.mod_eq_of_lt (by omega)]
      have : (lanes 8 16 c).getD (15 - J) 0 = lane 8 (15 - J) c := by
        rw [List.getD_eq_getElem?_getD, List.getElem?_eq_getElem (by simp [lanes_length]; omega), getElem_lanes]; rfl
      rw [this]
      have hc8 : J = 8 ∨ J = 9 ∨ J = 10 ∨ J = 11 ∨ J = 12 ∨ J = 13 ∨ J = 14 ∨ J = 15 := by omega
      rcases hc8 with rfl | rfl | rfl | rfl | rfl | rfl | rfl | rfl <;> rfl

end SMGo.Proofs.ISAVal
