import SMGo.Proofs.ISAValTouchSound
namespace SMGo.Proofs.ISATouch
open SMGo.Model.ISAVal
open SMGo.Model.ISA (Reg Opd Instr)

def optR : Option Reg → List Reg
  | some r => [r]
  | none => []

/-- base and index of the memory operand -/
def addrRegs (t : Touch) : List Reg :=
  match t.mem with
  | some (b, i, _, _) => b :: optR i
  | none => []

/-- the two memories hold the same bytes in `[addr, addr + w)` -/
def MemAgree (s1 s2 : State) (addr w : Nat) : Prop :=
  ∀ a n, addr ≤ a → a + n ≤ addr + w → readMem s1.mem a n = readMem s2.mem a n

/-- the two states agree on everything the footprint says is read -/
structure Agree (t : Touch) (s1 s2 : State) : Prop where
  regs : ∀ r, r ∈ t.reads → rv s1 r = rv s2 r
  flags : t.rf = true → s1.flags = s2.flags
  addr : t.load = true → ∀ r, r ∈ addrRegs t → rv s1 r = rv s2 r
  mem : t.load = true → ∀ b i sc dp addr, t.mem = some (b, i, sc, dp) → effAddr s1 b i sc dp = .ok addr →
    MemAgree s1 s2 addr t.width
  syms : ∀ n, n ∈ t.syms → lookup s1.syms n = lookup s2.syms n
  frame : ∀ n, n ∈ t.fload ++ t.fstore → lookup s1.frame n = lookup s2.frame n

/-- the two result states agree on everything the footprint says is written -/
structure SameOut (t : Touch) (s1 s2 : State) : Prop where
  regs : ∀ r, r ∈ t.writes → rv s1 r = rv s2 r
  flags : t.wf = true → s1.flags = s2.flags
  slots : ∀ n, n ∈ t.fstore → lookup s1.frame n = lookup s2.frame n

theorem rv_setV (s : State) (d v : Nat) (h : d < s.vec.length) : rv { s with vec := s.vec.set d v } (.vec d) = some v := by
  simp [rv, h]
theorem rv_setG (s : State) (d v : Nat) (h : d < s.gpr.length) : rv { s with gpr := s.gpr.set d v } (.gpr d) = some v := by
  simp [rv, h]
theorem rv_setK (s : State) (d v : Nat) (h : d < s.kreg.length) : rv { s with kreg := s.kreg.set d v } (.k d) = some v := by
  simp [rv, h]

theorem fin_setV {t : Touch} {s1 s2 s1' s2' : State} {d v : Nat} (h1 : setV s1 d v = .ok s1') (h2 : setV s2 d v = .ok s2')
    (hw : t.writes = [.vec d]) (hf : t.wf = false) (hs : t.fstore = []) : SameOut t s1' s2' := by
  obtain ⟨l1, rfl⟩ := setV_ok.mp h1
  obtain ⟨l2, rfl⟩ := setV_ok.mp h2
  refine ⟨?_, fun h => (by rw [hf] at h; cases h), fun n hn => (by rw [hs] at hn; cases hn)⟩
  intro r hr
  rw [hw] at hr
  simp only [List.mem_cons, List.not_mem_nil, or_false] at hr
  subst hr
  rw [rv_setV _ _ _ l1, rv_setV _ _ _ l2]

theorem fin_setG {t : Touch} {s1 s2 s1' s2' : State} {d v : Nat} (h1 : setG s1 d v = .ok s1') (h2 : setG s2 d v = .ok s2')
    (hw : t.writes = [.gpr d]) (hf : t.wf = false) (hs : t.fstore = []) : SameOut t s1' s2' := by
  obtain ⟨l1, rfl⟩ := setG_ok.mp h1
  obtain ⟨l2, rfl⟩ := setG_ok.mp h2
  refine ⟨?_, fun h => (by rw [hf] at h; cases h), fun n hn => (by rw [hs] at hn; cases hn)⟩
  intro r hr
  rw [hw] at hr
  simp only [List.mem_cons, List.not_mem_nil, or_false] at hr
  subst hr
  rw [rv_setG _ _ _ l1, rv_setG _ _ _ l2]

theorem fin_setK {t : Touch} {s1 s2 s1' s2' : State} {d v : Nat} (h1 : setK s1 d v = .ok s1') (h2 : setK s2 d v = .ok s2')
    (hw : t.writes = [.k d]) (hf : t.wf = false) (hs : t.fstore = []) : SameOut t s1' s2' := by
  obtain ⟨l1, rfl⟩ := setK_ok.mp h1
  obtain ⟨l2, rfl⟩ := setK_ok.mp h2
  refine ⟨?_, fun h => (by rw [hf] at h; cases h), fun n hn => (by rw [hs] at hn; cases hn)⟩
  intro r hr
  rw [hw] at hr
  simp only [List.mem_cons, List.not_mem_nil, or_false] at hr
  subst hr
  rw [rv_setK _ _ _ l1, rv_setK _ _ _ l2]

theorem fin_setG_flags {t : Touch} {s1 s2 s1' s2' : State} {d v : Nat} {f : Flags}
    (h1 : withFlags (setG s1 d v) f = .ok s1') (h2 : withFlags (setG s2 d v) f = .ok s2')
    (hw : t.writes = [.gpr d]) (hs : t.fstore = []) : SameOut t s1' s2' := by
  obtain ⟨x1, e1, rfl⟩ := withFlags_ok.mp h1
  obtain ⟨x2, e2, rfl⟩ := withFlags_ok.mp h2
  obtain ⟨l1, rfl⟩ := setG_ok.mp e1
  obtain ⟨l2, rfl⟩ := setG_ok.mp e2
  refine ⟨?_, fun _ => rfl, fun n hn => (by rw [hs] at hn; cases hn)⟩
  intro r hr
  rw [hw] at hr
  simp only [List.mem_cons, List.not_mem_nil, or_false] at hr
  subst hr
  exact (rv_setG _ _ _ l1).trans (rv_setG _ _ _ l2).symm

theorem fin_none {t : Touch} {s1' s2' : State} (hw : t.writes = []) (hf : t.wf = true → s1'.flags = s2'.flags)
    (hs : t.fstore = []) : SameOut t s1' s2' :=
  ⟨fun r hr => (by rw [hw] at hr; cases hr), hf, fun n hn => (by rw [hs] at hn; cases hn)⟩

/-! ### addresses and loads -/

theorem effAddr_agree (s1 s2 : State) (b : Reg) (i : Option Reg) (sc : Nat) (dp : Int)
    (h : ∀ r, r ∈ b :: optR i → rv s1 r = rv s2 r) : effAddr s1 b i sc dp = effAddr s2 b i sc dp := by
  have hb := h b (by simp)
  cases b with
  | gpr b =>
    have gb : getG s1 b = getG s2 b := by unfold getG; have hb' : s1.gpr[b]? = s2.gpr[b]? := hb; rw [hb']
    cases i with
    | none => simp only [effAddr, gb]
    | some i =>
      have hi := h i (by simp [optR])
      cases i with
      | gpr i =>
        have gi : getG s1 i = getG s2 i := by unfold getG; have hi' : s1.gpr[i]? = s2.gpr[i]? := hi; rw [hi']
        simp only [effAddr, gb, gi]
      | vec i => simp only [effAddr, gb]
      | k i => simp only [effAddr, gb]
  | vec b => rfl
  | k b => rfl

theorem loadLE_agree {s1 s2 : State} {addr w a n : Nat} (h : MemAgree s1 s2 addr w) (ha : addr ≤ a) (hn : a + n ≤ addr + w) :
    loadLE s1 a n = loadLE s2 a n := by
  unfold loadLE; rw [h a n ha hn]

theorem mapM_congr {α β : Type} (f g : α → Except String β) (l : List α) (h : ∀ x, x ∈ l → f x = g x) :
    l.mapM f = l.mapM g := by
  induction l with
  | nil => rfl
  | cons x xs ih =>
    simp only [List.mapM_cons]
    rw [h x (by simp), ih (fun y hy => h y (by simp [hy]))]

theorem loadMasked_agree {s1 s2 : State} {addr k old n w : Nat} (h : MemAgree s1 s2 addr w) (hn : 4 * n ≤ w) :
    loadMasked s1 addr k old n = loadMasked s2 addr k old n := by
  unfold loadMasked
  apply mapM_congr
  intro j hj
  have hj' := List.mem_range.mp hj
  split
  · exact loadLE_agree h (by omega) (by omega)
  · rfl

/-- from the agreement: the effective address and the memory agreement at it -/
theorem agree_load {t : Touch} {s1 s2 : State} (ag : Agree t s1 s2) (hl : t.load = true)
    {b : Reg} {i : Option Reg} {sc : Nat} {dp : Int} (hm : t.mem = some (b, i, sc, dp)) {addr : Nat}
    (h1 : effAddr s1 b i sc dp = .ok addr) : effAddr s2 b i sc dp = .ok addr ∧ MemAgree s1 s2 addr t.width := by
  refine ⟨?_, ag.mem hl b i sc dp addr hm h1⟩
  rw [← effAddr_agree s1 s2 b i sc dp (fun r hr => ag.addr hl r (by simp only [addrRegs, hm]; exact hr))]
  exact h1


/-! ### dependency, group by group -/

-- turn the agreement on the registers read into equations, the binds of both runs into register facts
set_option hygiene false in
macro "dep_pre" : tactic => `(tactic|
  (have ag' := ag.regs
   simp only [List.mem_cons, List.not_mem_nil, or_false, forall_eq_or_imp, forall_eq, false_implies, implies_true] at ag'
   simp only [bind_ok, getV_ok, getG_ok, getK_ok] at h1 h2))

theorem dep_vec3 {s1 s2 s1' s2' : State} {mn : Mn} {vl : Nat} {ops : List Opd} {t : Touch}
    (ht : tVec3 mn ops = some t) (ag : Agree t s1 s2)
    (h1 : exVec3 s1 mn vl ops = .ok s1') (h2 : exVec3 s2 mn vl ops = .ok s2') : SameOut t s1' s2' := by
  unfold tVec3 at ht
  unfold exVec3 at h1 h2
  split at h1
  · cases h1
  rename_i hvl
  rw [if_neg hvl] at h2
  split at ht
  · cases ht
    dep_pre
    obtain ⟨av, ha1, bv, hb1, h1⟩ := h1
    obtain ⟨av', ha2, bv', hb2, h2⟩ := h2
    simp_all
    cases hv : vec3 mn vl av' bv' with
    | none => simp [hv, bad_ne] at h1
    | some p => simp only [hv] at h1 h2; exact fin_setV h1 h2 rfl rfl rfl
  · split at ht
    · cases ht
      rename_i hm
      simp only [if_pos hm] at h1 h2
      dep_pre
      obtain ⟨av, ha1, bv, hb1, kv, hk1, old, ho1, h1⟩ := h1
      obtain ⟨av', ha2, bv', hb2, kv', hk2, old', ho2, h2⟩ := h2
      simp_all
      cases hv : vec3 mn vl av' bv' with
      | none => simp [hv, bad_ne] at h1
      | some p => simp only [hv] at h1 h2; exact fin_setV h1 h2 rfl rfl rfl
    · cases ht
  · cases ht

theorem dep_vecImm {s1 s2 s1' s2' : State} {mn : Mn} {vl : Nat} {ops : List Opd} {t : Touch}
    (ht : tVecImm ops = some t) (ag : Agree t s1 s2)
    (h1 : exVecImm s1 mn vl ops = .ok s1') (h2 : exVecImm s2 mn vl ops = .ok s2') : SameOut t s1' s2' := by
  unfold tVecImm at ht
  unfold exVecImm at h1 h2
  split at h1
  · cases h1
  rename_i hvl
  rw [if_neg hvl] at h2
  split at ht
  · cases ht
    dep_pre
    obtain ⟨av, ha1, h1⟩ := h1
    obtain ⟨av', ha2, h2⟩ := h2
    simp_all
    rename_i v _ _
    cases hv : vecImm mn vl (imm64 v % 256) av' with
    | none => simp [hv, bad_ne] at h1
    | some p => simp only [hv] at h1 h2; exact fin_setV h1 h2 rfl rfl rfl
  · cases ht

theorem dep_vecImm2 {s1 s2 s1' s2' : State} {mn : Mn} {vl : Nat} {ops : List Opd} {t : Touch}
    (ht : tVecImm2 ops = some t) (ag : Agree t s1 s2)
    (h1 : exVecImm2 s1 mn vl ops = .ok s1') (h2 : exVecImm2 s2 mn vl ops = .ok s2') : SameOut t s1' s2' := by
  unfold tVecImm2 at ht
  unfold exVecImm2 at h1 h2
  split at h1
  · cases h1
  rename_i hvl
  rw [if_neg hvl] at h2
  split at ht
  · cases ht
    dep_pre
    obtain ⟨av, ha1, bv, hb1, h1⟩ := h1
    obtain ⟨av', ha2, bv', hb2, h2⟩ := h2
    simp_all
    rename_i v _ _ _
    cases hv : vecImm2 mn vl (imm64 v % 256) av' bv' with
    | none => simp [hv, bad_ne] at h1
    | some p => simp only [hv] at h1 h2; exact fin_setV h1 h2 rfl rfl rfl
  · cases ht


theorem dep_vmovdqu32 {s1 s2 s1' s2' : State} {vl : Nat} {ops : List Opd} {t : Touch}
    (ht : tVmovdqu32 vl ops = some t) (ag : Agree t s1 s2)
    (h1 : exVmovdqu32 s1 vl ops = .ok s1') (h2 : exVmovdqu32 s2 vl ops = .ok s2') : SameOut t s1' s2' := by
  unfold tVmovdqu32 at ht
  unfold exVmovdqu32 at h1 h2
  split at h1
  · cases h1
  rename_i hvl
  rw [if_neg hvl] at h2
  split at ht
  · cases ht
    simp only [bind_ok] at h1 h2
    obtain ⟨addr, hea1, v, hv1, h1⟩ := h1
    obtain ⟨addr', hea2, v', hv2, h2⟩ := h2
    obtain ⟨hea2', hm⟩ := agree_load ag rfl rfl hea1
    rw [hea2'] at hea2; cases hea2
    rw [loadLE_agree hm (Nat.le_refl _) (Nat.le_refl _), hv2] at hv1; cases hv1
    exact fin_setV h1 h2 rfl rfl rfl
  · cases ht
    dep_pre
    obtain ⟨addr, hea1, kv, hk1, old, ho1, ds, hd1, h1⟩ := h1
    obtain ⟨addr', hea2, kv', hk2, old', ho2, ds', hd2, h2⟩ := h2
    obtain ⟨hea2', hm⟩ := agree_load ag rfl rfl hea1
    rw [hea2'] at hea2; cases hea2
    obtain rfl : kv = kv' := Option.some.inj ((hk1.symm.trans ag'.1).trans hk2)
    obtain rfl : old = old' := Option.some.inj ((ho1.symm.trans ag'.2).trans ho2)
    have hvl' : vl = 16 ∨ vl = 32 ∨ vl = 64 := by
      have : ¬vl = 16 → ¬vl = 32 → vl = 64 := by simpa [validVl] using hvl
      omega
    rw [loadMasked_agree hm (by show 4 * (vl / 4) ≤ vl; omega), hd2] at hd1; cases hd1
    exact fin_setV h1 h2 rfl rfl rfl
  · cases ht
    exact fin_none rfl (fun h => by cases h) rfl
  · cases ht
    exact fin_none rfl (fun h => by cases h) rfl
  · cases ht

theorem dep_vmovReg {s1 s2 s1' s2' : State} {vl : Nat} {ops : List Opd} {t : Touch}
    (ht : tVmovReg ops = some t) (ag : Agree t s1 s2)
    (h1 : exVmovReg s1 vl ops = .ok s1') (h2 : exVmovReg s2 vl ops = .ok s2') : SameOut t s1' s2' := by
  unfold tVmovReg at ht
  unfold exVmovReg at h1 h2
  split at h1
  · cases h1
  rename_i hvl
  rw [if_neg hvl] at h2
  split at ht
  · cases ht
    dep_pre
    obtain ⟨av, ha1, h1⟩ := h1
    obtain ⟨av', ha2, h2⟩ := h2
    simp_all
    exact fin_setV h1 h2 rfl rfl rfl
  · cases ht

theorem dep_broadcastD {s1 s2 s1' s2' : State} {vl : Nat} {ops : List Opd} {t : Touch}
    (ht : tBroadcastD ops = some t) (ag : Agree t s1 s2)
    (h1 : exBroadcastD s1 vl ops = .ok s1') (h2 : exBroadcastD s2 vl ops = .ok s2') : SameOut t s1' s2' := by
  unfold tBroadcastD at ht
  unfold exBroadcastD at h1 h2
  split at h1
  · cases h1
  rename_i hvl
  rw [if_neg hvl] at h2
  split at ht
  · cases ht
    dep_pre
    obtain ⟨av, ha1, h1⟩ := h1
    obtain ⟨av', ha2, h2⟩ := h2
    simp_all
    exact fin_setV h1 h2 rfl rfl rfl
  · cases ht
    dep_pre
    obtain ⟨av, ha1, h1⟩ := h1
    obtain ⟨av', ha2, h2⟩ := h2
    simp_all
    exact fin_setV h1 h2 rfl rfl rfl
  · cases ht

theorem dep_broadcastMem {s1 s2 s1' s2' : State} {w vl : Nat} {ops : List Opd} {t : Touch}
    (ht : tBroadcastMem w ops = some t) (ag : Agree t s1 s2)
    (h1 : exBroadcastMem s1 w vl ops = .ok s1') (h2 : exBroadcastMem s2 w vl ops = .ok s2') : SameOut t s1' s2' := by
  unfold tBroadcastMem at ht
  unfold exBroadcastMem at h1 h2
  split at h1
  · cases h1
  rename_i hvl
  rw [if_neg hvl] at h2
  split at ht
  · cases ht
    simp only [bind_ok] at h1 h2
    obtain ⟨addr, hea1, v, hv1, h1⟩ := h1
    obtain ⟨addr', hea2, v', hv2, h2⟩ := h2
    obtain ⟨hea2', hm⟩ := agree_load ag rfl rfl hea1
    rw [hea2'] at hea2; cases hea2
    rw [loadLE_agree hm (Nat.le_refl _) (Nat.le_refl _), hv2] at hv1; cases hv1
    exact fin_setV h1 h2 rfl rfl rfl
  · cases ht

theorem dep_psllo {s1 s2 s1' s2' : State} {ops : List Opd} {t : Touch}
    (ht : tPsllo ops = some t) (ag : Agree t s1 s2)
    (h1 : exPsllo s1 ops = .ok s1') (h2 : exPsllo s2 ops = .ok s2') : SameOut t s1' s2' := by
  unfold tPsllo at ht
  unfold exPsllo at h1 h2
  split at ht
  · cases ht
    dep_pre
    obtain ⟨av, ha1, h1⟩ := h1
    obtain ⟨av', ha2, h2⟩ := h2
    simp_all
    exact fin_setV h1 h2 rfl rfl rfl
  · cases ht

theorem dep_kmovw {s1 s2 s1' s2' : State} {ops : List Opd} {t : Touch}
    (ht : tKmovw ops = some t) (ag : Agree t s1 s2)
    (h1 : exKmovw s1 ops = .ok s1') (h2 : exKmovw s2 ops = .ok s2') : SameOut t s1' s2' := by
  unfold tKmovw at ht
  unfold exKmovw at h1 h2
  split at ht
  · cases ht
    dep_pre
    obtain ⟨av, ha1, h1⟩ := h1
    obtain ⟨av', ha2, h2⟩ := h2
    simp_all
    exact fin_setK h1 h2 rfl rfl rfl
  · cases ht

theorem dep_leaq {s1 s2 s1' s2' : State} {ops : List Opd} {t : Touch}
    (ht : tLeaq ops = some t) (ag : Agree t s1 s2)
    (h1 : exLeaq s1 ops = .ok s1') (h2 : exLeaq s2 ops = .ok s2') : SameOut t s1' s2' := by
  unfold tLeaq at ht
  unfold exLeaq at h1 h2
  split at ht
  · cases ht
    simp only at h1 h2
    have hs := ag.syms _ (List.mem_singleton.mpr rfl)
    rw [← hs] at h2
    split at h1
    · rename_i a ha
      simp only [ha] at h2
      exact fin_setG h1 h2 rfl rfl rfl
    · cases h1
  · cases ht

theorem dep_cmpq {s1 s2 s1' s2' : State} {ops : List Opd} {t : Touch}
    (ht : tCmpq ops = some t) (ag : Agree t s1 s2)
    (h1 : exCmpq s1 ops = .ok s1') (h2 : exCmpq s2 ops = .ok s2') : SameOut t s1' s2' := by
  unfold tCmpq at ht
  unfold exCmpq at h1 h2
  split at ht
  · cases ht
    dep_pre
    simp only [pure_ok_iff] at h1 h2
    obtain ⟨x, hx1, rfl⟩ := h1
    obtain ⟨x', hx2, rfl⟩ := h2
    simp_all
    exact fin_none rfl (fun _ => rfl) rfl
  · cases ht
    dep_pre
    simp only [pure_ok_iff] at h1 h2
    obtain ⟨x, hx1, y, hy1, rfl⟩ := h1
    obtain ⟨x', hx2, y', hy2, rfl⟩ := h2
    simp_all
    exact fin_none rfl (fun _ => rfl) rfl
  · cases ht


theorem lookup_setSlot_self (l l' : List (String × Nat)) (name : String) (f : Nat → Nat) (h : setSlot l name f = some l') :
    ∃ v, lookup l name = some v ∧ lookup l' name = some (f v) := by
  induction l generalizing l' with
  | nil => simp [setSlot] at h
  | cons p rest ih =>
    obtain ⟨k, v⟩ := p
    unfold setSlot at h
    split at h
    · cases h
      rename_i hk
      exact ⟨v, by simp [lookup, hk], by simp [lookup, hk]⟩
    · rename_i hk
      cases hr : setSlot rest name f with
      | none => simp [hr] at h
      | some r' =>
        simp only [hr, Option.map_some, Option.some.injEq] at h
        subst h
        obtain ⟨v', e1, e2⟩ := ih r' hr
        exact ⟨v', by simp [lookup, hk, e1], by simp [lookup, hk, e2]⟩

theorem fin_slot {t : Touch} {s1 s2 s1' s2' : State} {name : String} {f : Nat → Nat}
    (h1 : writeSlot s1 name f = .ok s1') (h2 : writeSlot s2 name f = .ok s2')
    (ag : lookup s1.frame name = lookup s2.frame name)
    (hw : t.writes = []) (hf : t.wf = false) (hs : t.fstore = [name]) : SameOut t s1' s2' := by
  unfold writeSlot at h1 h2
  cases e1 : setSlot s1.frame name f with
  | none => simp [e1] at h1
  | some fr1 =>
    cases e2 : setSlot s2.frame name f with
    | none => simp [e2] at h2
    | some fr2 =>
      simp only [e1, e2, Except.ok.injEq] at h1 h2
      subst h1 h2
      refine ⟨fun r hr => (by rw [hw] at hr; cases hr), fun h => (by rw [hf] at h; cases h), ?_⟩
      intro n hn
      rw [hs] at hn
      simp only [List.mem_cons, List.not_mem_nil, or_false] at hn
      subst hn
      obtain ⟨v1, a1, b1⟩ := lookup_setSlot_self _ _ _ _ e1
      obtain ⟨v2, a2, b2⟩ := lookup_setSlot_self _ _ _ _ e2
      rw [a1, a2] at ag
      cases ag
      exact b1.trans b2.symm

theorem mergeG_wide (w old old' v : Nat) (hw : w = 8 ∨ w = 4) : mergeG w old v = mergeG w old' v := by
  rcases hw with rfl | rfl <;> simp [mergeG]

theorem dep_mov {s1 s2 s1' s2' : State} {mn : Mn} {ops : List Opd} {t : Touch}
    (ht : tMov mn ops = some t) (ag : Agree t s1 s2)
    (h1 : exMov s1 mn ops = .ok s1') (h2 : exMov s2 mn ops = .ok s2') : SameOut t s1' s2' := by
  unfold tMov at ht
  unfold exMov at h1 h2
  split at ht
  · -- MOVL m32, X
    split at ht
    · cases ht
      rename_i hm
      simp only [if_pos hm] at h1 h2
      dep_pre
      obtain ⟨addr, hea1, v, hv1, old, ho1, h1⟩ := h1
      obtain ⟨addr', hea2, v', hv2, old', ho2, h2⟩ := h2
      obtain ⟨hea2', hma⟩ := agree_load ag rfl rfl hea1
      rw [hea2'] at hea2; cases hea2
      rw [loadLE_agree hma (Nat.le_refl _) (Nat.le_refl _), hv2] at hv1; cases hv1
      obtain rfl : old = old' := Option.some.inj ((ho1.symm.trans ag').trans ho2)
      exact fin_setV h1 h2 rfl rfl rfl
    · cases ht
  · -- MOVQ r64, X
    split at ht
    · cases ht
      rename_i hm
      simp only [if_pos hm] at h1 h2
      dep_pre
      obtain ⟨v, hv1, old, ho1, h1⟩ := h1
      obtain ⟨v', hv2, old', ho2, h2⟩ := h2
      simp_all
      exact fin_setV h1 h2 rfl rfl rfl
    · cases ht
  · -- MOVQ slot, r
    split at ht
    · cases ht
      rename_i hm
      simp only [if_pos hm] at h1 h2
      have hs := ag.frame _ (List.mem_append_left _ (List.mem_singleton.mpr rfl))
      rw [← hs] at h2
      split at h1
      · rename_i a ha
        simp only [ha] at h2
        exact fin_setG h1 h2 rfl rfl rfl
      · cases h1
    · cases ht
  · -- MOVQ $imm, slot
    split at ht
    · cases ht
      rename_i hm
      simp only [if_pos hm] at h1 h2
      exact fin_slot h1 h2 (ag.frame _ (by simp)) rfl rfl rfl
    · cases ht
  · -- MOVQ / MOVL r, slot
    split at ht
    · cases ht
      rename_i hm
      simp only [if_pos hm] at h1 h2
      dep_pre
      obtain ⟨v, hv1, h1⟩ := h1
      obtain ⟨v', hv2, h2⟩ := h2
      obtain rfl : v = v' := Option.some.inj ((hv1.symm.trans ag').trans hv2)
      exact fin_slot h1 h2 (ag.frame _ (by simp)) rfl rfl rfl
    · split at ht
      · cases ht
        rename_i hm1 hm
        simp only [if_neg hm1, if_pos hm] at h1 h2
        dep_pre
        obtain ⟨v, hv1, h1⟩ := h1
        obtain ⟨v', hv2, h2⟩ := h2
        obtain rfl : v = v' := Option.some.inj ((hv1.symm.trans ag').trans hv2)
        exact fin_slot h1 h2 (ag.frame _ (by simp)) rfl rfl rfl
      · cases ht
  · -- MOVQ / MOVL $imm, r
    split at ht
    · cases ht
      rename_i hm
      simp only [if_pos hm] at h1 h2
      exact fin_setG h1 h2 rfl rfl rfl
    · split at ht
      · cases ht
        rename_i hm1 hm
        simp only [if_neg hm1, if_pos hm] at h1 h2
        exact fin_setG h1 h2 rfl rfl rfl
      · cases ht
  · -- MOVQ r, r
    split at ht
    · cases ht
      rename_i hm
      simp only [if_pos hm] at h1 h2
      dep_pre
      obtain ⟨v, hv1, h1⟩ := h1
      obtain ⟨v', hv2, h2⟩ := h2
      simp_all
      exact fin_setG h1 h2 rfl rfl rfl
    · cases ht
  · -- load
    cases ht
    dep_pre
    obtain ⟨addr, hea1, v, hv1, old, ho1, h1⟩ := h1
    obtain ⟨addr', hea2, v', hv2, old', ho2, h2⟩ := h2
    obtain ⟨hea2', hma⟩ := agree_load ag rfl rfl hea1
    rw [hea2'] at hea2; cases hea2
    rw [loadLE_agree hma (Nat.le_refl _) (Nat.le_refl _), hv2] at hv1; cases hv1
    by_cases hw : aluWidth mn = 8 ∨ aluWidth mn = 4
    · rw [mergeG_wide _ old old' _ hw] at h1
      exact fin_setG h1 h2 rfl rfl rfl
    · simp only [if_neg hw, List.mem_cons, List.not_mem_nil, or_false, forall_eq] at ag'
      obtain rfl : old = old' := Option.some.inj ((ho1.symm.trans ag').trans ho2)
      exact fin_setG h1 h2 rfl rfl rfl
  · -- store
    cases ht
    exact fin_none rfl (fun h => by cases h) rfl
  · -- store immediate
    split at ht
    · cases ht
      exact fin_none rfl (fun h => by cases h) rfl
    · cases ht
  · cases ht


/-- the incoming flags matter to `alu` only for a shift by 0 -/
theorem alu_flags (mn : Mn) (w src dst : Nat) (f1 f2 : Flags) (h : (mn = .SHLQ ∨ mn = .SHRQ) → src % 64 ≠ 0) :
    alu mn w src dst f1 = alu mn w src dst f2 := by
  unfold alu
  cases mn <;> simp only
  · rw [if_neg (h (Or.inl rfl)), if_neg (h (Or.inl rfl))]
  · rw [if_neg (h (Or.inr rfl)), if_neg (h (Or.inr rfl))]

theorem dep_alu {s1 s2 s1' s2' : State} {mn : Mn} {ops : List Opd} {t : Touch}
    (ht : tAlu mn ops = some t) (ag : Agree t s1 s2)
    (h1 : exAlu s1 mn ops = .ok s1') (h2 : exAlu s2 mn ops = .ok s2') : SameOut t s1' s2' := by
  unfold tAlu at ht
  unfold exAlu at h1 h2
  split at ht
  · -- $imm, r
    rename_i v d
    have hm : mn = .ADDQ ∨ mn = .SUBQ ∨ mn = .ANDQ ∨ mn = .SHLQ ∨ mn = .SHRQ := by
      split at ht
      · rename_i h1; rcases h1 with h1 | h1 | h1 <;> simp [h1]
      · split at ht
        · rename_i h1; rcases h1 with h1 | h1 <;> simp [h1]
        · cases ht
    have hsh : (mn = .SHLQ ∨ mn = .SHRQ) → imm64 v % 64 ≠ 0 := by
      intro hs
      split at ht
      · rename_i h1; rcases h1 with h1 | h1 | h1 <;> rcases hs with h2 | h2 <;> rw [h1] at h2 <;> cases h2
      · split at ht
        · cases ht
        · assumption
    have ht' : t = { reads := [.gpr d], writes := [.gpr d], wf := true } := by
      split at ht
      · cases ht; rfl
      · split at ht
        · split at ht
          · cases ht
          · cases ht; rfl
        · cases ht
    subst ht'
    simp only [if_pos hm] at h1 h2
    dep_pre
    obtain ⟨old, ho1, ⟨r, f⟩, ha1, h1⟩ := h1
    obtain ⟨old', ho2, ⟨r', f'⟩, ha2, h2⟩ := h2
    obtain rfl : old = old' := Option.some.inj ((ho1.symm.trans ag').trans ho2)
    rw [alu_flags mn 8 _ _ s1.flags s2.flags hsh, ha2] at ha1
    cases ha1
    exact fin_setG_flags h1 h2 rfl rfl
  · -- r, r
    split at ht
    · cases ht
      rename_i hm
      have hsh : (mn = .SHLQ ∨ mn = .SHRQ) → ∀ x : Nat, x % 64 ≠ 0 := by
        intro hs; rcases hm with h1 | h1 | h1 <;> rcases hs with h2 | h2 <;> rw [h1] at h2 <;> cases h2
      simp only [if_pos hm] at h1 h2
      dep_pre
      obtain ⟨src, hs1, old, ho1, ⟨r, f⟩, ha1, h1⟩ := h1
      obtain ⟨src', hs2, old', ho2, ⟨r', f'⟩, ha2, h2⟩ := h2
      obtain rfl : src = src' := Option.some.inj ((hs1.symm.trans ag'.1).trans hs2)
      obtain rfl : old = old' := Option.some.inj ((ho1.symm.trans ag'.2).trans ho2)
      rw [alu_flags mn _ _ _ s1.flags s2.flags (fun hs => hsh hs _), ha2] at ha1
      cases ha1
      exact fin_setG_flags h1 h2 rfl rfl
    · cases ht
  · -- mem, r
    split at ht
    · cases ht
      rename_i hm
      have hsh : (mn = .SHLQ ∨ mn = .SHRQ) → ∀ x : Nat, x % 64 ≠ 0 := by
        intro hs; rcases hm with h1 | h1 <;> rcases hs with h2 | h2 <;> rw [h1] at h2 <;> cases h2
      simp only [if_pos hm] at h1 h2
      dep_pre
      obtain ⟨addr, hea1, src, hs1, old, ho1, ⟨r, f⟩, ha1, h1⟩ := h1
      obtain ⟨addr', hea2, src', hs2, old', ho2, ⟨r', f'⟩, ha2, h2⟩ := h2
      obtain ⟨hea2', hma⟩ := agree_load ag rfl rfl hea1
      rw [hea2'] at hea2; cases hea2
      rw [loadLE_agree hma (Nat.le_refl _) (Nat.le_refl _), hs2] at hs1; cases hs1
      obtain rfl : old = old' := Option.some.inj ((ho1.symm.trans ag').trans ho2)
      rw [alu_flags mn _ _ _ s1.flags s2.flags (fun hs => hsh hs _), ha2] at ha1
      cases ha1
      exact fin_setG_flags h1 h2 rfl rfl
    · cases ht
  · -- r, mem
    split at ht
    · cases ht
      rename_i hm
      have hsh : (mn = .SHLQ ∨ mn = .SHRQ) → ∀ x : Nat, x % 64 ≠ 0 := by
        intro hs; rcases hm with h1 | h1 <;> rcases hs with h2 | h2 <;> rw [h1] at h2 <;> cases h2
      simp only [if_pos hm] at h1 h2
      dep_pre
      obtain ⟨addr, hea1, src, hs1, old, ho1, ⟨r, f⟩, ha1, h1⟩ := h1
      obtain ⟨addr', hea2, src', hs2, old', ho2, ⟨r', f'⟩, ha2, h2⟩ := h2
      obtain ⟨hea2', hma⟩ := agree_load ag rfl rfl hea1
      rw [hea2'] at hea2; cases hea2
      rw [loadLE_agree hma (Nat.le_refl _) (Nat.le_refl _), ho2] at ho1; cases ho1
      obtain rfl : src = src' := Option.some.inj ((hs1.symm.trans ag').trans hs2)
      rw [alu_flags mn _ _ _ s1.flags s2.flags (fun hs => hsh hs _), ha2] at ha1
      cases ha1
      obtain ⟨x1, _, rfl⟩ := withFlags_ok.mp h1
      obtain ⟨x2, _, rfl⟩ := withFlags_ok.mp h2
      exact fin_none rfl (fun _ => rfl) rfl
    · cases ht
  · cases ht

/-- **dependency**: two runs of the same instruction from states that agree on the registers in `reads` (the flags if
    `rf`; for a load, base, index and the bytes of the memory operand; the frame slots and symbols named) leave the
    same values in the registers in `writes` (the same flags if `wf`, the same frame slots written) -/
theorem touches_dep {d : DInstr} {t : Touch} {s1 s2 s1' s2' : State} (ht : touchesOf d = some t) (ag : Agree t s1 s2)
    (h1 : execD s1 d = .ok s1') (h2 : execD s2 d = .ok s2') : SameOut t s1' s2' := by
  obtain ⟨pc, mn, ops, vw⟩ := d
  unfold touchesOf at ht
  unfold execD at h1 h2
  cases mn <;> simp only at ht h1 h2
  all_goals first
    | exact dep_vec3 ht ag h1 h2
    | exact dep_vecImm ht ag h1 h2
    | exact dep_vecImm2 ht ag h1 h2
    | exact dep_vmovdqu32 ht ag h1 h2
    | exact dep_vmovReg ht ag h1 h2
    | exact dep_broadcastD ht ag h1 h2
    | exact dep_broadcastMem ht ag h1 h2
    | exact dep_psllo ht ag h1 h2
    | exact dep_kmovw ht ag h1 h2
    | exact dep_leaq ht ag h1 h2
    | exact dep_mov ht ag h1 h2
    | exact dep_alu ht ag h1 h2
    | exact dep_cmpq ht ag h1 h2
    | (cases h1)
    | (cases ops with
       | nil => exact dep_vec3 ht ag h1 h2
       | cons o rest => cases o <;> first | exact dep_vecImm ht ag h1 h2 | exact dep_vec3 ht ag h1 h2)
    | (split at ht
       · cases ht; cases h1; cases h2; exact fin_none rfl (fun h => by cases h) rfl
       · cases ht)

/-- **addresses**: the effective address of the memory operand depends on base and index only -/
theorem touches_addr {t : Touch} {s1 s2 : State} {b : Reg} {i : Option Reg} {sc : Nat} {dp : Int}
    (hm : t.mem = some (b, i, sc, dp)) (h : ∀ r, r ∈ addrRegs t → rv s1 r = rv s2 r) :
    effAddr s1 b i sc dp = effAddr s2 b i sc dp :=
  effAddr_agree s1 s2 b i sc dp (fun r hr => h r (by simp only [addrRegs, hm]; exact hr))

/-! ### control transfers -/

/-- a control transfer changes nothing, and where it goes depends on the flags only (`rf`), for JMP / RET on nothing -/
theorem touches_control {d : DInstr} {t : Touch} (ht : touchesOf d = some t) (hc : d.mn.isControl = true) :
    (∀ s s' nx, stepD s d = .ok (s', nx) → s' = s) ∧
    (∀ s1 s2 s1' s2' n1 n2, (t.rf = true → s1.flags = s2.flags) →
      stepD s1 d = .ok (s1', n1) → stepD s2 d = .ok (s2', n2) → n1 = n2) := by
  obtain ⟨pc, mn, ops, vw⟩ := d
  unfold touchesOf at ht
  cases mn
  all_goals first | (simp [Mn.isControl] at hc; done) | skip
  all_goals
    simp only at ht
    split at ht
    · cases ht
      refine ⟨?_, ?_⟩
      · intro s s' nx h
        simp only [stepD, Mn.isControl, if_true, bind_ok, pure_ok_iff] at h
        first
          | (cases h; rfl)
          | (obtain ⟨c, _, h⟩ := h; cases h; rfl)
      · intro s1 s2 s1' s2' n1 n2 hf h1 h2
        simp only [stepD, Mn.isControl, if_true, bind_ok, pure_ok_iff] at h1 h2
        first
          | (cases h1; cases h2; rfl)
          | (obtain ⟨c1, hc1, h1⟩ := h1
             obtain ⟨c2, hc2, h2⟩ := h2
             rw [hf rfl, hc2] at hc1
             cases hc1; cases h1; cases h2; rfl)
    · cases ht

/-- a non-control instruction falls through -/
theorem touches_seq {d : DInstr} {s s' : State} {nx : Next} (hc : d.mn.isControl = false) (h : stepD s d = .ok (s', nx)) :
    execD s d = .ok s' ∧ nx = .fall := by
  unfold stepD at h
  rw [hc] at h
  simp only [Bool.false_eq_true, if_false, map_ok_iff] at h
  obtain ⟨x, hx, he⟩ := h
  cases he
  exact ⟨hx, rfl⟩

end SMGo.Proofs.ISATouch
