/-
  The unconditional forms: `GmulOK` (statement (i)) is `gmulR_eq_mulGF` of Proofs/GCMClmul.lean, so the
  structural results of Proofs/GCMHash.lean and Proofs/GCMSeal.lean hold without hypothesis on the
  multiplier.  Also: the SM4 instance (the block function returns 16 bytes; the table-driven variant the
  driver runs is the specification).
-/
import SMGo.Proofs.GCMClmul
import SMGo.Proofs.GCMSeal
import SMGo.Proofs.SM4Fast
import SMGo.Proofs.SM4Inverse
namespace SMGo.Proofs.GCM
open SMGo
open SMGo.Spec.GCM
open SMGo.Model.GCM

/-- statement (i) holds -/
theorem gmulOK : GmulOK := fun _ _ hh hx => gmulR_eq_mulGF hh hx

/-- (iii) without hypothesis on the multiplier -/
theorem ghStep4_eq_four_steps {b : Bytes} (hb : b.length = 16) {y : Nat} (hy : y < 2 ^ 128) {d : Bytes}
    (hd : 64 ≤ d.length) : ghStep4 (hPowers b) y d = ghBy1 (hPowers b).h 4 y d :=
  ghStep4_eq gmulOK (powOK_hPowers hb) hy hd

theorem seal_eq_spec {E : Bytes → Bytes} (hE : ∀ b, (E b).length = 16) (t : Nat) (nonce pt aad : Bytes) :
    Model.GCM.seal E t nonce pt aad = sealGCM E t nonce pt aad := seal_eq gmulOK hE t nonce pt aad

theorem sealGlue_eq_spec {E : Bytes → Bytes} (hE : ∀ b, (E b).length = 16) (t : Nat) (nonce pt aad : Bytes) :
    Model.GCM.sealGlue E t nonce pt aad = sealGCM E t nonce pt aad := sealGlue_eq gmulOK hE t nonce pt aad

theorem open_eq_spec {E : Bytes → Bytes} (hE : ∀ b, (E b).length = 16) (t : Nat) (nonce ct aad : Bytes) :
    Model.GCM.open E t nonce ct aad = openGCM E t nonce ct aad := open_eq gmulOK hE t nonce ct aad

/-! ### the SM4 instance -/

theorem sm4_block_length (rk : List W32) (b : Bytes) : (Spec.SM4.crypt rk b).length = 16 :=
  Proofs.SM4.crypt_length rk b

theorem sm4_encrypt_length (key b : Bytes) : (Spec.SM4.encrypt key b).length = 16 :=
  Proofs.SM4.crypt_length _ b

theorem sm4_fast_block_length (rk : List W32) (b : Bytes) : (Spec.SM4.cryptFast rk b).length = 16 := by
  rw [Proofs.SM4Fast.cryptFast_eq]; exact sm4_block_length rk b

end SMGo.Proofs.GCM
