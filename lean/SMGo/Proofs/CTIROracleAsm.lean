/-
  The hypothesis `OracleRel` of the soundness theorem holds for the external world of the SM4 / GCM glue:
  `asmOracle specs sem` (SMGo/Model/CTIR.lean), for ANY model `sem` of the assembly routines — a routine
  returns, for each destination argument, an array of the length of that argument, and possibly an
  integer; nothing else about it is used.  (What the routines themselves execute is the subject of the
  certificates of C09; here only the Go code around them is analysed.)
-/
import SMGo.Proofs.CTIRSound
import SMGo.Proofs.CTIROracle
open SMGo.Model.CTIR
namespace SMGo.Model.CTIR

theorem lowEqV_refl' (l : Label) (v : Val) : lowEqV l v v := by
  cases l <;> simp [lowEqV]

theorem lowEqList_refl_of_length : ∀ (ls : List Label) (r : List Val), r.length = ls.length → lowEqList ls r r
  | [], [], _ => trivial
  | [], _ :: _, h => by simp at h
  | _ :: _, [], h => by simp at h
  | l :: ls, v :: r, h => by
    simp only [List.length_cons, Nat.add_right_cancel_iff] at h
    exact ⟨lowEqV_refl' l v, lowEqList_refl_of_length ls r h⟩

theorem asmOuts_length (sem : Nat → List Int) (args : List Val) : ∀ (outs : List Nat) (j : Nat),
    (asmOuts sem args j outs).length = outs.length
  | [], _ => rfl
  | _ :: as, j => by simp [asmOuts, asmOuts_length sem args as (j + 1)]

def resLen (sp : AsmSpec) : Nat := sp.outs.length + (if sp.ret then 1 else 0)

theorem specsOk_len : ∀ (specs : List AsmSpec) (exts : List (List Label)) (name : Nat), specsOk specs exts = true →
    ((specs[name]?).map resLen).getD 0 = (exts.getD name []).length
  | [], [], name, _ => by simp
  | [], _ :: _, _, h => by simp [specsOk] at h
  | _ :: _, [], _, h => by simp [specsOk] at h
  | sp :: sps, ls :: lss, 0, h => by
    simp only [specsOk, Bool.and_eq_true, beq_iff_eq] at h
    simp [resLen, h.1]
  | sp :: sps, ls :: lss, name + 1, h => by
    simp only [specsOk, Bool.and_eq_true] at h
    simpa [List.getD] using specsOk_len sps lss name h.2

theorem asmOracle_length (sem : Nat → List Val → Nat → List Int) (a : List Val)
    (specs : List AsmSpec) (exts : List (List Label)) (name : Nat) (h : specsOk specs exts = true) :
    (asmOracle specs sem name a).length = (exts.getD name []).length := by
  rw [← specsOk_len specs exts name h]
  unfold asmOracle
  cases specs[name]? with
  | none => rfl
  | some sp =>
    simp only [List.length_append, asmOuts_length, Option.map_some, Option.getD_some, resLen]
    cases sp.ret <;> simp

theorem argBytes_length (args : List Val) (i : Nat) : (argBytes args i).length = argLen args i := by
  unfold argBytes argLen
  cases args[i]? with
  | none => rfl
  | some v => cases v <;> rfl

theorem fillFrom_erase (d1 d2 : List Val) (l1 l2 : List Int) (h : d1.length = d2.length) :
    (Val.arr (fillFrom d1 l1)).erase = (Val.arr (fillFrom d2 l2)).erase := by
  simp only [erase_arr', fillFrom, map_erase_ints, h]

theorem asmOuts_erase (sem1 sem2 : Nat → List Int) (a1 a2 : List Val)
    (he : a1.map Val.erase = a2.map Val.erase) : ∀ (outs : List Nat) (j : Nat),
    (asmOuts sem1 a1 j outs).map Val.erase = (asmOuts sem2 a2 j outs).map Val.erase
  | [], _ => rfl
  | k :: as, j => by
    have hl : (argBytes a1 k).length = (argBytes a2 k).length := by
      rw [argBytes_length, argBytes_length, argLen_erase he k]
    simp only [asmOuts, List.map_cons, asmOuts_erase sem1 sem2 a1 a2 he as (j + 1)]
    rw [fillFrom_erase (argBytes a1 k) (argBytes a2 k) (sem1 j) (sem2 j) hl]

/-- any model of the assembly routines satisfies the hypothesis of the soundness theorem -/
theorem asmOracle_rel (S : Sigs) (specs : List AsmSpec) (hs : specsOk specs S.ext = true)
    (sem : Nat → List Val → Nat → List Int) :
    OracleRel S (asmOracle specs sem) (asmOracle specs sem) := by
  refine ⟨fun name a => ?_, fun name a1 a2 _ he => ?_⟩
  · exact lowEqList_refl_of_length _ _ (asmOracle_length sem a specs S.ext name hs)
  · unfold asmOracle
    cases specs[name]? with
    | none => rfl
    | some sp =>
      simp only [List.map_append]
      rw [asmOuts_erase (sem name a1) (sem name a2) a1 a2 he]
      cases sp.ret <;> simp [erase_int']

end SMGo.Model.CTIR
