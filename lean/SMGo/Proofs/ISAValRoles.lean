import SMGo.Proofs.ISAValTouchStore
namespace SMGo.Proofs.ISATouch
open SMGo.Model.ISAVal
open SMGo.Model.ISA (Reg Opd Instr Eff MemRef effOf Kind)

/-! ## The role table of C09 against the value semantics, instruction by instruction -/

theorem subList_mem {a b : List Reg} (h : subList a b = true) {r : Reg} (hr : r ∈ a) : r ∈ b := by
  unfold subList at h
  rw [List.all_eq_true] at h
  exact List.contains_iff_mem.mp (h r hr)

/-- frame condition in terms of the footprint `e` of the role table -/
structure FrameE (e : Eff) (s s' : State) : Prop where
  lenG : s'.gpr.length = s.gpr.length
  lenV : s'.vec.length = s.vec.length
  lenK : s'.kreg.length = s.kreg.length
  regs : ∀ r, r ∉ e.writes → rv s' r = rv s r
  flags : e.wf = false → s'.flags = s.flags
  mem : e.store = false → s'.mem = s.mem
  syms : s'.syms = s.syms
  frame : e.frameStores = [] → s'.frame = s.frame

/-- what two states must agree on, in terms of `e`: the registers read, the flags if `rf`, for a load the base and
    index registers and the bytes of memory from the effective address on; the argument frame and the symbol table
    (public in C09) -/
structure AgreeE (e : Eff) (s1 s2 : State) : Prop where
  regs : ∀ r, r ∈ e.reads → rv s1 r = rv s2 r
  flags : e.rf = true → s1.flags = s2.flags
  addr : e.load = true → ∀ m, e.mem = some m → rv s1 m.base = rv s2 m.base ∧ ∀ x, m.index = some x → rv s1 x = rv s2 x
  mem : e.load = true → ∀ m addr, e.mem = some m → effAddr s1 m.base m.index m.scale m.disp = .ok addr →
    ∀ a n, addr ≤ a → readMem s1.mem a n = readMem s2.mem a n
  frame : s1.frame = s2.frame
  syms : s1.syms = s2.syms

/-- where a step goes, in terms of the `kind` / `target` of the role table -/
def CtlE (e : Eff) (s s' : State) (nx : Next) : Prop :=
  match e.kind with
  | .seq => nx = .fall
  | .jmp => s' = s ∧ ∃ p, e.target = some p ∧ nx = .jump p
  | .jcc => s' = s ∧ ∃ p, e.target = some p ∧ (nx = .jump p ∨ nx = .fall)
  | .ret => s' = s ∧ nx = .ret

/-- **the role-table entry of instruction `i` is a sound footprint of what the value semantics does on `i`** -/
structure RoleSound (i : Instr) : Prop where
  sound : ∃ d e, decode i = .ok d ∧ effOf i = some e ∧
    -- (1) frame condition
    (∀ s s' nx, stepD s d = .ok (s', nx) → FrameE e s s') ∧
    -- (1') a store changes memory only inside one range that starts at the effective address of the memory operand
    (∀ s s' nx, stepD s d = .ok (s', nx) → e.store = true →
      s'.mem = s.mem ∨
      ∃ m addr w, e.mem = some m ∧ effAddr s m.base m.index m.scale m.disp = .ok addr ∧ SameOutside s.mem s'.mem addr w) ∧
    -- (2) dependency: written registers, flags and the next pc
    (∀ s1 s2 s1' s2' n1 n2, AgreeE e s1 s2 → stepD s1 d = .ok (s1', n1) → stepD s2 d = .ok (s2', n2) →
      (∀ r, r ∈ e.writes → rv s1' r = rv s2' r) ∧ (e.wf = true → s1'.flags = s2'.flags) ∧ n1 = n2) ∧
    -- (2') the address accessed depends on base and index only
    (∀ s1 s2 m, e.mem = some m → rv s1 m.base = rv s2 m.base → (∀ x, m.index = some x → rv s1 x = rv s2 x) →
      effAddr s1 m.base m.index m.scale m.disp = effAddr s2 m.base m.index m.scale m.disp) ∧
    -- (3) control: the kind of transfer and its target are those of the role table
    (∀ s s' nx, stepD s d = .ok (s', nx) → CtlE e s s' nx)


def isJcc (mn : Mn) : Bool :=
  match mn with
  | .JEQ | .JNE | .JLT | .JGE | .JGT | .JLE => true
  | _ => false

theorem control_cases {d : DInstr} {t : Touch} (hc : d.mn.isControl = true) (ht : touchesOf d = some t) :
    (d.mn = .JMP ∧ ∃ p, d.ops = [.target p] ∧ t = {}) ∨ (d.mn = .RET ∧ d.ops = [] ∧ t = {}) ∨
    (isJcc d.mn = true ∧ ∃ p, d.ops = [.target p] ∧ t = { rf := true }) := by
  obtain ⟨pc, mn, ops, vw⟩ := d
  unfold touchesOf at ht
  cases mn
  all_goals first | (simp [Mn.isControl] at hc; done) | skip
  all_goals
    simp only at ht
    split at ht
    · cases ht
      first
        | exact Or.inl ⟨rfl, _, rfl, rfl⟩
        | exact Or.inr (Or.inl ⟨rfl, rfl, rfl⟩)
        | exact Or.inr (Or.inr ⟨rfl, _, rfl, rfl⟩)
    · cases ht

theorem decode_ok {i : Instr} {d : DInstr} (h : decode i = .ok d) :
    Mn.ofString i.mn = some d.mn ∧ d.ops = i.ops := by
  unfold decode at h
  split at h
  · cases h; rename_i hm; exact ⟨hm, rfl⟩
  · cases h

theorem memEq_some {b : Reg} {i : Option Reg} {sc : Nat} {dp : Int} {em : Option MemRef}
    (h : memEq (some (b, i, sc, dp)) em = true) : em = some ⟨b, i, sc, dp⟩ := by
  cases em with
  | none => simp [memEq] at h
  | some r =>
    simp only [memEq, decide_eq_true_eq] at h
    obtain ⟨h1, h2, h3, h4⟩ := h
    cases r; simp_all

theorem memEq_none {em : Option MemRef} (h : memEq none em = true) : em = none := by
  cases em with
  | none => rfl
  | some r => simp [memEq] at h


/-- the facts packed in `within` -/
structure Within (i : Instr) (t : Touch) (e : Eff) : Prop where
  hR : subList t.reads e.reads = true
  hW : subList t.writes e.writes = true
  hW2 : ∀ r, r ∈ e.writes → r ∈ t.writes ∨ r ∈ e.reads
  hrf : t.rf = true → e.rf = true
  hwf : t.wf = true → e.wf = true
  hwf2 : e.wf = true → t.wf = true ∨ e.rf = true
  hmem : memEq t.mem e.mem = true
  hld : t.load = true → e.load = true
  hst : t.store = true → e.store = true
  hfs : e.frameStores = [] → t.fstore = []
  hk : match Mn.ofString i.mn with
      | some .JMP => e.kind = .jmp
      | some .RET => e.kind = .ret
      | some mn => if mn.isControl then e.kind = .jcc else e.kind = .seq
      | none => False
  htg : match i.ops with | [.target p] => e.target = some p | _ => True

theorem within_unpack {i : Instr} {t : Touch} {e : Eff} (h : within i t e = true) : Within i t e := by
  simp only [within, Bool.and_eq_true, and_assoc] at h
  obtain ⟨hR, hW, hW2, hrf, hwf, hwf2, hmem, hld, hst, _, _, _, _, hfse, _, hk, htg⟩ := h
  refine ⟨hR, hW, ?_, ?_, ?_, ?_, hmem, ?_, ?_, ?_, ?_, ?_⟩
  · intro r hr
    rw [List.all_eq_true] at hW2
    have := hW2 r hr
    simp only [Bool.or_eq_true, List.contains_iff_mem] at this
    exact this
  · intro h; cases hx : e.rf <;> simp_all
  · intro h; cases hx : e.wf <;> simp_all
  · intro h; cases hx : t.wf <;> cases hy : e.rf <;> simp_all
  · intro h; cases hx : e.load <;> simp_all
  · intro h; cases hx : e.store <;> simp_all
  · intro h
    rw [h] at hfse
    simpa using hfse
  · revert hk
    cases Mn.ofString i.mn with
    | none => simp
    | some mn => cases mn <;> simp [Mn.isControl]
  · have aux : ∀ ops : List Opd, (match ops with | [.target p] => e.target == some p | _ => true) = true →
        (match ops with | [.target p] => e.target = some p | _ => True) := by
      intro ops h'
      split <;> simp_all
    exact aux _ htg

theorem agree_of_agreeE {i : Instr} {t : Touch} {e : Eff} {s1 s2 : State} (w : Within i t e) (ag : AgreeE e s1 s2) :
    Agree t s1 s2 := by
  refine ⟨fun r hr => ag.regs r (subList_mem w.hR hr), fun h => ag.flags (w.hrf h), ?_, ?_,
    fun n _ => by rw [ag.syms], fun n _ => by rw [ag.frame]⟩
  · intro hl r hr
    unfold addrRegs at hr
    cases hm : t.mem with
    | none => rw [hm] at hr; cases hr
    | some m =>
      obtain ⟨b, ix, sc, dp⟩ := m
      rw [hm] at hr
      have he := memEq_some (by rw [← hm]; exact w.hmem)
      obtain ⟨h1, h2⟩ := ag.addr (w.hld hl) _ he
      simp only [List.mem_cons] at hr
      rcases hr with rfl | hr
      · exact h1
      · cases ix with
        | none => cases hr
        | some x =>
          simp only [optR, List.mem_cons, List.not_mem_nil, or_false] at hr
          subst hr
          exact h2 _ rfl
  · intro hl b ix sc dp addr hm hea a n ha _
    have he := memEq_some (by rw [← hm]; exact w.hmem)
    exact ag.mem (w.hld hl) _ addr he hea a n ha

theorem role_sound_of_ok {i : Instr} (h : roleOk i = true) : RoleSound i := by
  unfold roleOk at h
  cases hd : decode i with
  | error x => simp [hd] at h
  | ok d =>
  cases he : effOf i with
  | none => simp [hd, he] at h
  | some e =>
  cases ht : touchesOf d with
  | none => simp [hd, he, ht] at h
  | some t =>
  simp only [hd, he, ht] at h
  have w := within_unpack h
  obtain ⟨hmn, hops⟩ := decode_ok hd
  refine ⟨⟨d, e, hd, he, ?_⟩⟩
  have haddr : ∀ s1 s2 (m : MemRef), e.mem = some m → rv s1 m.base = rv s2 m.base → (∀ x, m.index = some x → rv s1 x = rv s2 x) →
      effAddr s1 m.base m.index m.scale m.disp = effAddr s2 m.base m.index m.scale m.disp := by
    intro s1 s2 m _ hb hi
    apply effAddr_agree
    intro r hr
    simp only [List.mem_cons] at hr
    rcases hr with rfl | hr
    · exact hb
    · cases hx : m.index with
      | none => rw [hx] at hr; cases hr
      | some x =>
        rw [hx] at hr
        simp only [optR, List.mem_cons, List.not_mem_nil, or_false] at hr
        subst hr
        exact hi _ hx
  cases hc : d.mn.isControl with
  | false =>
    -- an ordinary instruction
    have hkind : e.kind = .seq := by
      have hk := w.hk
      rw [hmn] at hk
      revert hk hc
      cases d.mn <;> simp [Mn.isControl]
    have hframe : ∀ s s', execD s d = .ok s' → FrameE e s s' := by
      intro s s' hx
      have f := touches_frame ht hx
      refine ⟨f.lenG, f.lenV, f.lenK, fun r hr => f.regs r (fun h' => hr (subList_mem w.hW h')), ?_, ?_, f.syms,
        fun h' => f.frame (w.hfs h')⟩
      · intro h'
        apply f.flags
        cases hx : t.wf with
        | false => rfl
        | true => rw [w.hwf hx] at h'; cases h'
      · intro h'
        apply f.mem
        cases hx : t.store with
        | false => rfl
        | true => rw [w.hst hx] at h'; cases h'
    refine ⟨?_, ?_, ?_, haddr, ?_⟩
    · intro s s' nx hs
      exact hframe s s' (touches_seq hc hs).1
    · intro s s' nx hs _
      have hx := (touches_seq hc hs).1
      cases hts : t.store with
      | false => exact Or.inl ((touches_frame ht hx).mem hts)
      | true =>
        obtain ⟨b, ix, sc, dp, addr, hm, hea, hout⟩ := touches_store ht hts hx
        have hem := memEq_some (by rw [← hm]; exact w.hmem)
        exact Or.inr ⟨_, addr, _, hem, hea, hout⟩
    · intro s1 s2 s1' s2' n1 n2 ag hs1 hs2
      obtain ⟨hx1, rfl⟩ := touches_seq hc hs1
      obtain ⟨hx2, rfl⟩ := touches_seq hc hs2
      have so := touches_dep ht (agree_of_agreeE w ag) hx1 hx2
      have f1 := touches_frame ht hx1
      have f2 := touches_frame ht hx2
      refine ⟨?_, ?_, rfl⟩
      · intro r hr
        by_cases hrt : r ∈ t.writes
        · exact so.regs r hrt
        · rcases w.hW2 r hr with h' | h'
          · exact absurd h' hrt
          · rw [f1.regs r hrt, f2.regs r hrt]; exact ag.regs r h'
      · intro hwf
        cases htw : t.wf with
        | true => exact so.flags htw
        | false =>
          rcases w.hwf2 hwf with h' | h'
          · rw [htw] at h'; cases h'
          · rw [f1.flags htw, f2.flags htw]; exact ag.flags h'
    · intro s s' nx hs
      unfold CtlE
      rw [hkind]
      exact (touches_seq hc hs).2
  | true =>
    -- a control transfer: nothing changes
    obtain ⟨hsame, hnext⟩ := touches_control ht hc
    have hshape := control_cases hc ht
    have htw : t.writes = [] ∧ t.wf = false ∧ t.store = false := by
      rcases hshape with ⟨_, _, _, rfl⟩ | ⟨_, _, rfl⟩ | ⟨_, _, _, rfl⟩ <;> exact ⟨rfl, rfl, rfl⟩
    have hfr : ∀ s, FrameE e s s := fun s =>
      ⟨rfl, rfl, rfl, fun _ _ => rfl, fun _ => rfl, fun _ => rfl, rfl, fun _ => rfl⟩
    refine ⟨?_, ?_, ?_, haddr, ?_⟩
    · intro s s' nx hs
      rw [hsame s s' nx hs]; exact hfr s
    · intro s s' nx hs _
      rw [hsame s s' nx hs]; exact Or.inl rfl
    · intro s1 s2 s1' s2' n1 n2 ag hs1 hs2
      rw [hsame _ _ _ hs1, hsame _ _ _ hs2]
      refine ⟨?_, ?_, hnext s1 s2 s1' s2' n1 n2 (fun h' => ag.flags (w.hrf h')) hs1 hs2⟩
      · intro r hr
        rcases w.hW2 r hr with h' | h'
        · rw [htw.1] at h'; cases h'
        · exact ag.regs r h'
      · intro hwf
        rcases w.hwf2 hwf with h' | h'
        · rw [htw.2.1] at h'; cases h'
        · exact ag.flags h'
    · intro s s' nx hs
      have hs' := hsame s s' nx hs
      subst hs'
      have hk := w.hk
      have htg := w.htg
      rw [hmn] at hk
      rw [← hops] at htg
      unfold CtlE
      rcases hshape with ⟨hm, p, ho, _⟩ | ⟨hm, ho, _⟩ | ⟨hm, p, ho, _⟩
      · rw [hm] at hk; simp only at hk
        rw [ho] at htg; simp only at htg
        rw [hk]
        refine ⟨rfl, p, htg, ?_⟩
        obtain ⟨pc, mn, ops, vw⟩ := d
        simp only at hm ho; subst hm ho
        simp only [stepD, Mn.isControl, if_true] at hs
        cases hs; rfl
      · rw [hm] at hk; simp only at hk
        rw [hk]
        refine ⟨rfl, ?_⟩
        obtain ⟨pc, mn, ops, vw⟩ := d
        simp only at hm ho; subst hm ho
        simp only [stepD, Mn.isControl, if_true] at hs
        cases hs; rfl
      · rw [ho] at htg; simp only at htg
        have hk' : e.kind = .jcc := by
          revert hk hm
          cases d.mn <;> simp [isJcc, Mn.isControl]
        rw [hk']
        refine ⟨rfl, p, htg, ?_⟩
        obtain ⟨pc, mn, ops, vw⟩ := d
        simp only at hm ho; subst ho
        cases mn <;> simp only [isJcc] at hm <;> try cases hm
        all_goals
          simp only [stepD, Mn.isControl, if_true, bind_ok, pure_ok_iff] at hs
          obtain ⟨c, _, hs⟩ := hs
          cases hs
          cases c <;> simp

/-- every instruction instance of a set of routines passes the comparison `roleOk` -/
def allOk (rs : List (String × List (List Instr))) : Bool :=
  rs.all (fun p => p.2.all (fun chunk => chunk.all roleOk))

/-- … hence the role-table entry of every instance is a sound footprint -/
theorem allOk_sound {rs : List (String × List (List Instr))} (h : allOk rs = true) :
    ∀ p, p ∈ rs → ∀ chunk, chunk ∈ p.2 → ∀ i, i ∈ chunk → RoleSound i := by
  intro p hp chunk hc i hi
  unfold allOk at h
  rw [List.all_eq_true] at h
  have h1 := h p hp
  rw [List.all_eq_true] at h1
  have h2 := h1 chunk hc
  rw [List.all_eq_true] at h2
  exact role_sound_of_ok (h2 i hi)

end SMGo.Proofs.ISATouch
