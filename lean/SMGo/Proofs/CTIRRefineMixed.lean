/-
  Refinement MODULO THE POINT OPERATIONS: the generated IR of `internal.ScalarMixedMult_Unsafe`
  (/repo/sm2/internal/sm2_curve.go; second generated program SMGo/Gen/CTIRProgFn.lean, function 3, body `fn_3`:
  interleaved 6-3-14 comb for [gScalar]G + signed 4-NAF for [scalar]P, used by verification on public data)
  computes the hand-written model `Model.Curve.scalarMixedMult` (SMGo/Model/Curve.lean).

  Main theorems: `ir_scalarMixedMult_eq_model` (run level, any globals with entries 2 / 3 = the encoded tables),
  `ir_scalarMixedMult_eq_model_globals` (the generated globals), `mixed_body` (body level, any program), and the
  pieces (a) `p_loop` (P, 3P, …, 15P) and the call of DecomposeNAF inside `mixed_body`, (b) `m_body` (one iteration of
  the main loop: `m_dbl`, `c_round` / `c_loop` / `m_comb`, `m_sel` / `m_acc` / `m_naf`), (c) `m_loop` (257 iterations
  i = 256 … 0), (d) `m_tail` (extractLowerBits and the remainder table), (e) `mixed_body`.  Explicit fuel
  `fuelMixed`, no termination hypothesis.

  CALLEES.
  * Point operations = HYPOTHESES (`Callees`, `Computes` of CTIRRefineComb) against an abstract
    `Ops : Model.Curve.GOps Γ` with encoding `encP`; function numbers of CTIRProgFn.prog:
    NewSM2Point 15, Double 4, Add 18, Set 23, Negate 24, NewFromXY 21 (the latter only on coordinates taken from rows
    0 / 1 of one of the two tables: `XYUsed`).
  * utils.DecomposeNAF (0), getBit (1), getBits (2): PROVED in CTIRRefineNaf (`naf_body_ok`, `naf_body_stuck` through
    `EvIn.call` / `Stuck.call`); here in addition `decomposeNAF_small`: the digits are small integers, so `naf - 1`
    and `-naf - 1` do not wrap around.
  * extractBit (20) and extractLowerBits (27): `fn_20 = CTIRProg.fn_2` and `fn_27 = CTIRProg.fn_4` hold by `rfl`,
    the body-level lemmas `bit_body_ok/stuck`, `low_body_ok/stuck` of CTIRRefineCurve are used as they are.
  * extractHigherBits (19): NOT the same term as `CTIRProg.fn_3` (it calls function 20, the other one calls 2; the
    lemmas `high_body_ok/stuck` of CTIRRefineCurve hard-code the callee number 2 in `hBodyS`), so they do not transfer:
    they are RE-PROVED here for `fn_19` (`high19_body_ok`, `high19_body_stuck`; same proofs, the loop invariant,
    the model recursion `hbFrom` and all arithmetic lemmas are reused).  No `Computes` hypothesis for it is needed.
  * The tables are the globals 2 and 3: hypotheses `G 2 = .arr (first.map encT)`, `G 3 = encT second`; both hold by
    `rfl` for the generated `globals` (`globals_first`, `globals_second`).

  DOMAIN: none.  `gScalar`, `scalar` are arbitrary byte strings, the tables have any shape.  Where the model panics
  (a scalar shorter than needed by DecomposeNAF / extractBit / extractLowerBits, fewer than 3 sub-tables, a missing
  row, a row shorter than `bits`, a digit whose odd multiple is not among the 8 precomputed points) the IR is stuck at
  the corresponding index expression.  NO model/IR disagreement was found: the model's `getD … []` defaults are
  always followed by a bounds-checked `Outcome.idx` that panics on the empty default, exactly where the IR is stuck.
  The model never returns an error (`scalarMixedMult_ne_err`; the Go function always returns a nil error).

  Sanity evaluation of the real program (`runT prog globals … 3 …`): for (gScalar, P, scalar) = (5, G, 7) and for two
  256-bit scalars the run returns `[point, 0]`; for a 3-byte `scalar` the run is stuck (the model panics in getBit).
-/
import SMGo.Proofs.CTIRRefineComb
import SMGo.Proofs.CTIRRefineNaf
import SMGo.Gen.CTIRProgFn
import SMGo.Model.Curve
open SMGo SMGo.Model.CTIR SMGo.Gen.CTIRProgFn SMGo.Proofs.CTIRRefineUtils SMGo.Proofs.CTIRRefineCurve
open SMGo.Proofs.CTIRRefineComb (Computes CalleeFails Fails encT limbsV nilPointV Table runV_of_Fails)

namespace SMGo.Proofs.CTIRRefineMixed

/-! ## The bit-extraction helpers of the second program

  `fn_20` (extractBit) and `fn_27` (extractLowerBits) are syntactically the functions `fn_2`, `fn_4` of the first
  program: the body-level lemmas of CTIRRefineCurve apply.  `fn_19` (extractHigherBits) calls function 20 where
  `fn_3` of the first program calls function 2: its body-level lemmas are re-proved here (same proof). -/

theorem fn_20_eq : fn_20 = SMGo.Gen.CTIRProg.fn_2 := rfl
theorem fn_27_eq : fn_27 = SMGo.Gen.CTIRProg.fn_4 := rfl

def hBodyS' : Stmt :=
  .seq (.call [7] 20 [(.var 0), (.op2 (.add .i64) (.op2 (.mul .i64) (.var 6) (.var 3)) (.var 1))])
    (.assign 5 [] (.op2 (.or .u8) (.var 5) (.op2 (.shl .u8) (.var 7) (.var 6))))
def hLoopS' : Stmt := .loop hCondE hBodyS' hPostS

theorem fn_19_body : fn_19.body =
    .seq (.assign 5 [] (.lit 0)) (.seq (.assign 6 [] (.lit 0)) (.seq hLoopS' (.seq (.ret [(.var 5)]) .panic))) := rfl

section High
variable {P : Prog} {G : Nat → Val} {X : Oracle}

theorem hbody_round' (hP : P[20]? = some fn_20)
    {env : Env} {k : Bytes} {idx window stepSize i bits bit : Nat}
    (h : HInv env k idx window stepSize i bits) (ha : i * stepSize + idx < 2 ^ 63) (hbits : bits < 256)
    (hb : Model.Curve.extractBit k (i * stepSize + idx) = .ok bit) :
    ∃ env1, EvIn P G X (fuelBit + 3) env hBodyS' env1 .norm ∧
      HInv env1 k idx window stepSize i ((bits ||| (bit <<< i)) % 256) := by
  obtain ⟨envc, hcall⟩ := bit_body_ok (P := P) (G := G) (X := X) k (i * stepSize + idx) bit hb
  let e1 := env.set 7 (.int (bit : Int))
  let e2 := e1.set 5 (.int (((bits ||| (bit <<< i)) % 256 : Nat) : Int))
  have hc : EvIn P G X (fuelBit + 1) env
      (.call [7] 20 [(.var 0), (.op2 (.add .i64) (.op2 (.mul .i64) (.var 6) (.var 3)) (.var 1))]) e1 .norm :=
    EvIn.call (hargs (G := G) h ha) hP rfl rfl hcall rfl
  have g5 : e1 5 = .int (bits : Int) := by simp [e1, Env.set, h.h5]
  have g6 : e1 6 = .int (i : Int) := by simp [e1, Env.set, h.h6]
  have g7 : e1 7 = .int (bit : Int) := by simp [e1]
  have hsh : bit * 2 ^ i % 256 < 256 := Nat.mod_lt _ (by decide)
  have s5 : evalV G e1 (.op2 (.or .u8) (.var 5) (.op2 (.shl .u8) (.var 7) (.var 6)))
      = some (.int (((bits ||| (bit <<< i)) % 256 : Nat) : Int)) := by
    simp only [evalV_op2, evalV_var, g5, g6, g7, shl_u8_nat, Option.map_some, or_u8_nat hbits hsh,
      or_shl_byte bit i hbits]
  refine ⟨e2, ?_, ?_⟩
  · exact (EvIn.seq hc (EvIn.assign s5)).mono (by simp only [fuelBit]; omega)
  · refine ⟨?_, ?_, ?_, ?_, ?_, ?_⟩
    · simp [e2, e1, Env.set, h.h0]
    · simp [e2, e1, Env.set, h.h1]
    · simp [e2, e1, Env.set, h.h2]
    · simp [e2, e1, Env.set, h.h3]
    · simp [e2]
    · simp [e2, e1, Env.set, h.h6]

theorem hloop_ok' (hP : P[20]? = some fn_20) (k : Bytes) (idx window stepSize : Nat)
    (hw : window < 2 ^ 63) :
    ∀ (n i : Nat) (env : Env) (bits r : Nat),
    HInv env k idx window stepSize i bits → i + n = window → bits < 256 →
    hbFrom k idx stepSize i n bits = .ok r →
    ∃ env', EvIn P G X (fuelRound * n + 1) env hLoopS' env' .norm ∧ env' 5 = .int (r : Int) := by
  intro n
  induction n with
  | zero =>
    intro i env bits r h hin _ hm
    rw [hbFrom_zero] at hm
    simp only [Outcome.ok.injEq] at hm
    subst hm
    exact ⟨env, EvIn.loop_exit (hcond_false h.h6 h.h2 (by omega)) rfl, h.h5⟩
  | succ n ih =>
    intro i env bits r h hin hbits hm
    cases hb : Model.Curve.extractBit k (i * stepSize + idx) with
    | err => exact absurd hb (extractBit_ne_err _ _)
    | panic => rw [hbFrom_succ_panic n bits hb] at hm; cases hm
    | ok bit =>
      rw [hbFrom_succ_ok n bits hb] at hm
      have hbd := (extractBit_ok_bound hb).1
      obtain ⟨env1, hbody, hinv1⟩ := hbody_round' (P := P) (G := G) (X := X) hP h (by omega) hbits hb
      obtain ⟨env2, hpost, hinv2⟩ := hpost_step (P := P) (G := G) (X := X) hinv1 (by omega)
      obtain ⟨env', hl, h5⟩ := ih (i + 1) env2 _ r hinv2 (by omega) (Nat.mod_lt _ (by decide)) hm
      refine ⟨env', ?_, h5⟩
      exact (EvIn.loop_round (hcond_true h.h6 h.h2 (by omega)) rfl hbody (Or.inl rfl) hpost hl).mono
        (by simp only [fuelRound, fuelBit]; omega)

theorem hloop_stuck' (hP : P[20]? = some fn_20) (k : Bytes) (idx window stepSize : Nat)
    (hw : window < 2 ^ 63) (hs : stepSize < 2 ^ 63) (hk : stepSize + 256 ≤ 2 ^ 63 ∨ k.length ≤ 2 ^ 60) :
    ∀ (n i : Nat) (env : Env) (bits : Nat),
    HInv env k idx window stepSize i bits → i + n = window → bits < 256 →
    (i * stepSize + idx < 2 ^ 63 ∨ i * stepSize + idx < 256 + stepSize) →
    hbFrom k idx stepSize i n bits = .panic → Stuck P G X env hLoopS' := by
  intro n
  induction n with
  | zero =>
    intro i env bits h _ _ _ hm
    rw [hbFrom_zero] at hm; cases hm
  | succ n ih =>
    intro i env bits h hin hbits ha hm
    have hc := hcond_true (G := G) h.h6 h.h2 (by omega : i < window)
    cases hb : Model.Curve.extractBit k (i * stepSize + idx) with
    | err => exact absurd hb (extractBit_ne_err _ _)
    | panic =>
      apply Stuck.loop_body hc rfl
      apply Stuck.seq_left
      by_cases hsm : i * stepSize + idx < 2 ^ 63
      · exact Stuck.call (hargs (G := G) h hsm) hP (bit_body_stuck k _ hsm hb)
      · have hkl : k.length ≤ 2 ^ 60 := by omega
        have hargs' := hargs_wrap (G := G) h
        have e : norm .i64 ((i * stepSize + idx : Nat) : Int)
            = ((i * stepSize + idx : Nat) : Int) - 18446744073709551616 := by
          simp only [norm]; omega
        rw [e] at hargs'
        exact Stuck.call hargs' hP (bit_body_stuck_wrap k _ (by omega) (by omega) hkl)
    | ok bit =>
      rw [hbFrom_succ_ok n bits hb] at hm
      have hbd := (extractBit_ok_bound hb).1
      obtain ⟨env1, hbody, hinv1⟩ := hbody_round' (P := P) (G := G) (X := X) hP h (by omega) hbits hb
      obtain ⟨env2, hpost, hinv2⟩ := hpost_step (P := P) (G := G) (X := X) hinv1 (by omega)
      have ha' : (i + 1) * stepSize + idx < 2 ^ 63 ∨ (i + 1) * stepSize + idx < 256 + stepSize := by
        rw [Nat.add_mul, Nat.one_mul]; omega
      exact Stuck.loop_round hc rfl hbody (Or.inl rfl) hpost
        (ih (i + 1) env2 _ hinv2 (by omega) (Nat.mod_lt _ (by decide)) ha' hm)

/-- extractHigherBits of the second program, body level (any program whose function 20 is extractBit) -/
theorem high19_body_ok (hP : P[20]? = some fn_20) (k : Bytes) (idx window stepSize : Nat)
    (hw : window < 2 ^ 63) (r : Nat)
    (h : Model.Curve.extractHigherBits k idx window stepSize = .ok r) :
    ∃ env', EvIn P G X (fuelHigh window) (Env.ofList [bytesV k, .int idx, .int window, .int stepSize])
      fn_19.body env' (.ret [.int r]) := by
  rw [extractHigherBits_eq] at h
  obtain ⟨env1, hloop, h5⟩ := hloop_ok' (P := P) (G := G) (X := X) hP k idx window stepSize hw window 0
    (hEnvPre k idx window stepSize) 0 r (hEnvPre_inv k idx window stepSize) (by omega) (by decide) h
  have sr : evalVs G env1 [(.var 5)] = some [.int (r : Int)] := by
    simp only [evalVs_cons, evalVs_nil, evalV_var, h5]
  refine ⟨env1, ?_⟩
  rw [fn_19_body]
  exact (EvIn.seq (EvIn.assign rfl) (EvIn.seq (EvIn.assign rfl)
    (EvIn.seq hloop (EvIn.seq_stop (EvIn.ret sr) (by simp))))).mono (by simp only [fuelHigh]; omega)

theorem high19_body_stuck (hP : P[20]? = some fn_20) (k : Bytes) (idx window stepSize : Nat)
    (hidx : idx < 2 ^ 63) (hw : window < 2 ^ 63) (hs : stepSize < 2 ^ 63)
    (hk : stepSize + 256 ≤ 2 ^ 63 ∨ k.length ≤ 2 ^ 60)
    (h : Model.Curve.extractHigherBits k idx window stepSize = .panic) :
    Stuck P G X (Env.ofList [bytesV k, .int idx, .int window, .int stepSize]) fn_19.body := by
  rw [extractHigherBits_eq] at h
  have hloop := hloop_stuck' (P := P) (G := G) (X := X) hP k idx window stepSize hw hs hk window 0
    (hEnvPre k idx window stepSize) 0 (hEnvPre_inv k idx window stepSize) (by omega) (by decide)
    (Or.inl (by omega)) h
  rw [fn_19_body]
  exact Stuck.seq_right (EvIn.assign rfl) (Stuck.seq_right (EvIn.assign rfl) (Stuck.seq_left hloop))

end High


/-! ## The model in recursive form -/

section Model
variable {Γ : Type} (Ops : Model.Curve.GOps Γ)

def preStepM (Pt p2 : Γ) (l : List Γ) : List Γ := l ++ [Ops.add (l.getLastD Pt) p2]

def preIterM (Pt p2 : Γ) : Nat → List Γ → List Γ
  | 0, l => l
  | n + 1, l => preIterM Pt p2 n (preStepM Ops Pt p2 l)

/-- P, 3P, …, 15P as the code computes them -/
def preOfM (Pt : Γ) : List Γ := preIterM Ops Pt (Ops.double Pt) 7 [Pt]

theorem foldl_preIterM (Pt p2 : Γ) (s n : Nat) (l : List Γ) :
    (List.range' s n).foldl (fun (l : List Γ) _ => l ++ [Ops.add (l.getLastD Pt) p2]) l = preIterM Ops Pt p2 n l := by
  induction n generalizing s l with
  | zero => rfl
  | succ n ih => rw [List.range'_succ, List.foldl_cons, ih]; rfl

theorem preIterM_length (Pt p2 : Γ) : ∀ (n : Nat) (l : List Γ), (preIterM Ops Pt p2 n l).length = l.length + n := by
  intro n
  induction n with
  | zero => intro l; rfl
  | succ n ih =>
    intro l
    rw [preIterM, ih, preStepM, List.length_append, List.length_singleton]
    omega

/-- one sub-table `j` of the comb at iteration `i` -/
def cStep (g : Bytes) (first : List Table) (i : Nat) (st : Γ × Bool) (j : Nat) : Outcome (Γ × Bool) :=
  Model.Curve.extractHigherBits g (i + j * 14 + 4) 6 42 >>= fun bits =>
    if bits > 0 then
      Outcome.idx ((first.getD j []).getD 0 []) (bits - 1) >>= fun x =>
        Outcome.idx ((first.getD j []).getD 1 []) (bits - 1) >>= fun y =>
          .ok (Ops.add st.1 (Ops.fromXY x y), false)
    else .ok st

def cFrom (g : Bytes) (first : List Table) (i j n : Nat) (st : Γ × Bool) : Outcome (Γ × Bool) :=
  (List.range' j n).foldlM (cStep Ops g first i) st

theorem cFrom_zero (g : Bytes) (first : List Table) (i j : Nat) (st : Γ × Bool) :
    cFrom Ops g first i j 0 st = .ok st := rfl

theorem cFrom_succ (g : Bytes) (first : List Table) (i j n : Nat) (st : Γ × Bool) :
    cFrom Ops g first i j (n + 1) st = cStep Ops g first i st j >>= fun st' => cFrom Ops g first i (j + 1) n st' := by
  simp only [cFrom, List.range'_succ, List.foldlM_cons]

/-- the signed-NAF part of iteration `i` -/
def nStep (pre : List Γ) (naf : List Int) (i : Nat) (st : Γ × Bool) : Outcome (Γ × Bool) :=
  Outcome.idx naf i >>= fun d =>
    if d = 0 then .ok st else
      (if d > 0 then Outcome.idx pre ((d.toNat - 1) / 2)
       else Outcome.idx pre (((-d).toNat - 1) / 2) >>= fun q => .ok (Ops.negate q)) >>= fun tmp =>
        .ok (if st.2 then tmp else Ops.add st.1 tmp, false)

theorem mixedStep_eq (g : Bytes) (first : List Table) (pre : List Γ) (naf : List Int) (ret : Γ) (skip : Bool) (i : Nat) :
    Model.Curve.mixedStep Ops g first pre naf (ret, skip) i =
      ((if i < 14 then cFrom Ops g first i 0 3 (if skip then ret else Ops.double ret, skip)
        else .ok (if skip then ret else Ops.double ret, skip)) >>= fun st => nStep Ops pre naf i st) := by
  have tail : ∀ x : Γ × Bool,
      (do
        let d ← Outcome.idx naf i
        if d = 0 then pure (x.fst, x.snd)
          else
            if d > 0 then do
              let tmp ← Outcome.idx pre ((d.toNat - 1) / 2)
              if x.snd = true then pure (tmp, false) else pure (Ops.add x.fst tmp, false)
            else do
              let tmp ← (Outcome.idx pre (((-d).toNat - 1) / 2)).bind fun q => Outcome.ok (Ops.negate q)
              if x.snd = true then pure (tmp, false) else pure (Ops.add x.fst tmp, false)) = nStep Ops pre naf i x := by
    intro x
    unfold nStep
    cases Outcome.idx naf i with
    | err => rfl
    | panic => rfl
    | ok d =>
      simp only [Outcome.bind_ok]
      by_cases h0 : d = 0
      · simp only [h0, if_true]; rfl
      · simp only [h0, if_false]
        by_cases hp : d > 0
        · simp only [hp, if_true]
          cases Outcome.idx pre ((d.toNat - 1) / 2) with
          | err => rfl
          | panic => rfl
          | ok tmp => cases x.snd <;> rfl
        · simp only [hp, if_false]
          cases Outcome.idx pre (((-d).toNat - 1) / 2) with
          | err => rfl
          | panic => rfl
          | ok tmp => cases x.snd <;> rfl
  unfold Model.Curve.mixedStep
  cases skip <;> by_cases hi : i < 14 <;> simp only [hi, if_true, if_false, tail] <;> first | rfl | (rw [List.range_eq_range']; rfl)

/-- the main loop: iterations `ii, ii+1, …` with `i = 256 - ii` -/
def mFrom (g : Bytes) (first : List Table) (pre : List Γ) (naf : List Int) (ii n : Nat) (st : Γ × Bool) :
    Outcome (Γ × Bool) :=
  (List.range' ii n).foldlM (fun st ii => Model.Curve.mixedStep Ops g first pre naf st (256 - ii)) st

theorem mFrom_zero (g : Bytes) (first : List Table) (pre : List Γ) (naf : List Int) (ii : Nat) (st : Γ × Bool) :
    mFrom Ops g first pre naf ii 0 st = .ok st := rfl

theorem mFrom_succ (g : Bytes) (first : List Table) (pre : List Γ) (naf : List Int) (ii n : Nat) (st : Γ × Bool) :
    mFrom Ops g first pre naf ii (n + 1) st =
      Model.Curve.mixedStep Ops g first pre naf st (256 - ii) >>= fun st' => mFrom Ops g first pre naf (ii + 1) n st' := by
  simp only [mFrom, List.range'_succ, List.foldlM_cons]

/-- the remainder table -/
def tailM (g : Bytes) (second : Table) (ret : Γ) : Outcome Γ :=
  Model.Curve.extractLowerBits g 4 >>= fun bits =>
    if bits > 0 then
      Outcome.idx (second.getD 0 []) (bits - 1) >>= fun x =>
        Outcome.idx (second.getD 1 []) (bits - 1) >>= fun y => .ok (Ops.add ret (Ops.fromXY x y))
    else .ok ret

theorem scalarMixedMult_eq (g : Bytes) (Pt : Γ) (scalar : Bytes) (first : List Table) (second : Table) :
    Model.Curve.scalarMixedMult Ops g Pt scalar first second =
      (Model.Utils.decomposeNAF (some (List.replicate 257 0)) (some scalar) 257 4 >>= fun naf =>
        mFrom Ops g first (preOfM Ops Pt) naf 0 257 (Ops.infinity, true) >>= fun st => tailM Ops g second st.1) := by
  unfold Model.Curve.scalarMixedMult preOfM mFrom tailM
  simp only [List.range_eq_range', foldl_preIterM]
  rfl

end Model

/-! ## The output of DecomposeNAF is small -/

/-- every digit is a small integer (no wrap-around in `naf - 1`, `-naf - 1`) -/
def Small (l : List Int) : Prop := ∀ x ∈ l, -65536 ≤ x ∧ x ≤ 65536

theorem Small.set {l : List Int} (h : Small l) (i : Nat) {v : Int} (hv : -65536 ≤ v ∧ v ≤ 65536) : Small (l.set i v) := by
  intro x hx
  rcases List.mem_or_eq_of_mem_set hx with hx | rfl
  · exact h x hx
  · exact hv

theorem small_replicate (n : Nat) : Small (List.replicate n 0) := by
  intro x hx
  rw [List.mem_replicate] at hx
  omega

theorem dFin_small (w d0 : Nat) (c c' : Bool) (hw : w ≤ 7) (hd : d0 < 65536) :
    -65536 ≤ (CTIRRefineNaf.dFin w (CTIRRefineNaf.dAdj d0 c) c').1 ∧ (CTIRRefineNaf.dFin w (CTIRRefineNaf.dAdj d0 c) c').1 ≤ 65536 := by
  have hp : 2 ^ (w + 1) ≤ 2 ^ 8 := Nat.pow_le_pow_right (by omega) (by omega)
  unfold CTIRRefineNaf.dFin CTIRRefineNaf.dAdj
  generalize 2 ^ (w + 1) = p at hp
  generalize 2 ^ w = q
  split <;> split <;> simp only <;> omega

theorem nafLoop_small (s : Bytes) (n w : Nat) (hw : w ≤ 7) :
    ∀ (fuel outIdx : Nat) (carry : Bool) (out : List Int) (r : List Int × Bool), Small out →
      Model.Utils.nafLoop s n w fuel outIdx carry out = .ok r → Small r.1 := by
  intro fuel
  induction fuel with
  | zero =>
    intro outIdx carry out r hs h
    rw [CTIRRefineNaf.nafLoop_zero] at h
    cases h
    exact hs
  | succ fuel ih =>
    intro outIdx carry out r hs h
    rw [CTIRRefineNaf.nafLoop_succ] at h
    split at h
    · cases hg : Model.Utils.getBit s (n - outIdx - 1 - 1) carry with
      | err => rw [hg] at h; cases h
      | panic => rw [hg] at h; cases h
      | ok p =>
        rw [hg, Outcome.bind_ok] at h
        split at h
        · cases hb : Model.Utils.getBits s (n - outIdx - 1 - 1) w with
          | err => rw [hb] at h; cases h
          | panic => rw [hb] at h; cases h
          | ok d0 =>
            rw [hb, Outcome.bind_ok] at h
            unfold Model.Utils.setIdx at h
            split at h
            · rw [Outcome.bind_ok] at h
              exact ih _ _ _ _ (hs.set _ (dFin_small w d0 carry p.2 hw (CTIRRefineNaf.getBits_lt _ _ _ _ hb))) h
            · cases h
        · exact ih _ _ _ _ hs h
    · cases h
      exact hs

theorem decomposeNAF_small (out : List Int) (s : Bytes) (n w : Int) (r : List Int) (hs : Small out)
    (h : Model.Utils.decomposeNAF (some out) (some s) n w = .ok r) : Small r := by
  rw [CTIRRefineNaf.naf_unfold] at h
  split at h
  · cases h
  · rename_i hw
    cases hl : Model.Utils.nafLoop s n.toNat w.toNat n.toNat 0 false out with
    | err => rw [hl] at h; cases h
    | panic => rw [hl] at h; cases h
    | ok p =>
      rw [hl, Outcome.bind_ok] at h
      have hp := nafLoop_small s n.toNat w.toNat (by omega) _ _ _ _ p hs hl
      split at h
      · split at h
        · cases h
        · unfold Model.Utils.setIdx at h
          split at h
          · cases h
            exact hp.set _ (by omega)
          · cases h
      · cases h
        exact hp


/-! ## The program text of `fn_3` in pieces -/

def pCondE : Expr := .op2 .lt (.var 8) (.lit 8)
def pBodyS : Stmt := .seq (.call [9] 15 [])
    (.seq (.call [3, 10] 18 [(.var 9), (.idx (.var 4) (.op2 (.sub .i64) (.var 8) (.lit 1))), (.var 7)])
      (.assign 4 [.e (.var 8)] (.var 10)))
def pPostS : Stmt := .assign 8 [] (.op2 (.add .i64) (.var 8) (.lit 1))
def pLoopS : Stmt := .loop pCondE pBodyS pPostS

def dblS : Stmt := .ite (.op1 .lnot (.var 12)) (.call [14, 3] 4 [(.var 14), (.var 14)]) .skip
def cCondE : Expr := .op2 .lt (.var 16) (.lit 3)
def cCallS : Stmt := .call [17] 19 [(.var 0), (.op2 (.add .i64) (.op2 (.add .i64) (.var 15) (.op2 (.mul .i64) (.var 16) (.lit 14))) (.lit 4)), (.lit 6), (.lit 42)]
def cXE : Expr := .idx (.idxc (.idx (.glob 2) (.var 16)) 0) (.op2 (.sub .u8) (.var 18) (.lit 1))
def cYE : Expr := .idx (.idxc (.idx (.glob 2) (.var 16)) 1) (.op2 (.sub .u8) (.var 18) (.lit 1))
def cAddS : Stmt := .seq (.assign 19 [] cXE) (.seq (.assign 20 [] cYE) (.seq (.assign 21 [] (.var 19))
    (.seq (.assign 22 [] (.var 20)) (.seq (.call [23] 21 [(.var 21), (.var 22)]) (.seq (.assign 24 [] (.var 23))
    (.seq (.call [14, 3] 18 [(.var 14), (.var 14), (.var 24)]) (.assign 12 [] (.lit 0))))))))
def cIteS : Stmt := .ite (.op2 .gt (.var 18) (.lit 0)) cAddS .skip
def cBodyS : Stmt := .seq cCallS (.seq (.assign 18 [] (.var 17)) cIteS)
def cPostS : Stmt := .assign 16 [] (.op2 (.add .i64) (.var 16) (.lit 1))
def cLoopS : Stmt := .loop cCondE cBodyS cPostS
def combS : Stmt := .ite (.op2 .lt (.var 15) (.lit 14)) (.seq (.assign 16 [] (.lit 0)) cLoopS) .skip
def nGetS : Stmt := .assign 25 [] (.idx (.var 11) (.var 15))
def nContS : Stmt := .ite (.op2 .eq (.var 25) (.lit 0)) .cont .skip
def nPosS : Stmt := .seq (.assign 28 [] (.op1 (.shrc 1) (.op2 (.sub .i64) (.var 25) (.lit 1))))
    (.call [27, 3] 23 [(.var 27), (.idx (.var 4) (.var 28))])
def nNegS : Stmt := .seq (.assign 29 [] (.op1 (.shrc 1) (.op2 (.sub .i64) (.op1 (.neg .i64) (.var 25)) (.lit 1))))
    (.call [27, 3] 24 [(.var 27), (.idx (.var 4) (.var 29))])
def nSelS : Stmt := .ite (.op2 .gt (.var 25) (.lit 0)) nPosS (.ite (.op2 .lt (.var 25) (.lit 0)) nNegS .skip)
def nAccS : Stmt := .ite (.var 12) (.seq (.call [14, 3] 23 [(.var 14), (.var 27)]) (.assign 12 [] (.lit 0)))
    (.call [14, 3] 18 [(.var 14), (.var 14), (.var 27)])
def nTailS : Stmt := .seq (.call [26] 15 []) (.seq (.assign 27 [] (.var 26)) (.seq nSelS nAccS))
def mBodyS : Stmt := .seq dblS (.seq combS (.seq nGetS (.seq nContS nTailS)))
def mPostS : Stmt := .assign 15 [] (.op2 (.sub .i64) (.var 15) (.lit 1))
def mCondE : Expr := .op2 .ge (.var 15) (.lit 0)
def mLoopS : Stmt := .loop mCondE mBodyS mPostS
def tXE : Expr := .idx (.idxc (.glob 3) 0) (.op2 (.sub .u8) (.var 31) (.lit 1))
def tYE : Expr := .idx (.idxc (.glob 3) 1) (.op2 (.sub .u8) (.var 31) (.lit 1))
def tAddS : Stmt := .seq (.assign 32 [] tXE) (.seq (.assign 33 [] tYE) (.seq (.assign 34 [] (.var 32))
    (.seq (.assign 35 [] (.var 33)) (.seq (.call [36] 21 [(.var 34), (.var 35)]) (.seq (.assign 37 [] (.var 36))
    (.call [14, 3] 18 [(.var 14), (.var 14), (.var 37)]))))))
def tIteS : Stmt := .ite (.op2 .gt (.var 31) (.lit 0)) tAddS .skip
/-- from `bits := extractLowerBits(gScalar, remainder)` on -/
def tailS : Stmt := .seq (.call [30] 27 [(.var 0), (.lit 4)]) (.seq (.assign 31 [] (.var 30)) (.seq tIteS
    (.seq (.ret [(.var 14), (.lit 0)]) .panic)))
/-- from `skip := true` on -/
def mainS : Stmt := .seq (.assign 12 [] (.lit 1)) (.seq (.call [13] 15 []) (.seq (.assign 14 [] (.var 13))
    (.seq (.assign 15 [] (.lit 256)) (.seq mLoopS tailS))))
def nafCallS : Stmt := .call [11] 0 [(.var 11), (.var 2), (.lit 257), (.lit 4)]

theorem fn_3_body : fn_3.body =
    .seq (.assign 4 [] (.mk (.lit 8) (.mk (.lit 3) (.mk (.lit 1) (.mk (.lit 4) (.lit 0))))))
    (.seq (.assign 4 [.c 0] (.var 1))
    (.seq (.call [5] 15 [])
    (.seq (.call [3, 6] 4 [(.var 5), (.var 1)])
    (.seq (.assign 7 [] (.var 6))
    (.seq (.assign 8 [] (.lit 1))
    (.seq pLoopS
    (.seq (.assign 11 [] (.mk (.lit 257) (.lit 0)))
    (.seq nafCallS mainS)))))))) := rfl


/-! ## Callee contracts, invariant, small facts -/

/-- the coordinates with which NewFromXY is called: entries of rows 0 and 1 of one of the tables -/
def XYUsed (first : List Table) (second : Table) (x y : List Nat) : Prop :=
  (∃ tb, tb ∈ first ∧ x ∈ tb.getD 0 [] ∧ y ∈ tb.getD 1 []) ∨ (x ∈ second.getD 0 [] ∧ y ∈ second.getD 1 [])

/-- CALLEE HYPOTHESES: the IR functions of the point operations (numbers of CTIRProgFn.prog) compute the
    model's operations on the encodings `encP`; functions 0, 1, 2, 19, 20, 27 are the generated DecomposeNAF,
    getBit, getBits, extractHigherBits, extractBit, extractLowerBits -/
structure Callees {Γ : Type} (P : Prog) (G : Nat → Val) (X : Oracle) (Ops : Model.Curve.GOps Γ) (encP : Γ → Val)
    (first : List Table) (second : Table) (Fnew Fdbl Fadd Fset Fneg Fxy : Nat) : Prop where
  naf : P[0]? = some fn_0
  getBit : P[1]? = some fn_1
  getBits : P[2]? = some fn_2
  high : P[19]? = some fn_19
  bit : P[20]? = some fn_20
  low : P[27]? = some fn_27
  /-- NewSM2Point() -/
  new : Computes P G X 15 Fnew [] [encP Ops.infinity]
  /-- q.Double(a): the new receiver and the Go result -/
  dbl : ∀ q a, Computes P G X 4 Fdbl [encP q, encP a] [encP (Ops.double a), encP (Ops.double a)]
  /-- q.Add(a, b) -/
  add : ∀ q a b, Computes P G X 18 Fadd [encP q, encP a, encP b] [encP (Ops.add a b), encP (Ops.add a b)]
  /-- q.Set(a) -/
  set : ∀ q a, Computes P G X 23 Fset [encP q, encP a] [encP a, encP a]
  /-- q.Negate(a) -/
  neg : ∀ q a, Computes P G X 24 Fneg [encP q, encP a] [encP (Ops.negate a), encP (Ops.negate a)]
  /-- NewFromXY(x, y) on the table entries -/
  xy : ∀ x y, XYUsed first second x y → Computes P G X 21 Fxy [limbsV x, limbsV y] [encP (Ops.fromXY x y)]

section IR
variable {Γ : Type} {P : Prog} {G : Nat → Val} {X : Oracle} {Ops : Model.Curve.GOps Γ} {encP : Γ → Val}
  {first : List Table} {second : Table} {Fnew Fdbl Fadd Fset Fneg Fxy : Nat}

/-- the state of the main loop: gScalar, pPrecomputes, the NAF digits, skip, ret, i -/
structure MInv (encP : Γ → Val) (env : Env) (g : Bytes) (pre : List Γ) (naf : List Int) (ret : Γ) (skip : Bool)
    (i : Int) : Prop where
  h0 : env 0 = bytesV g
  h4 : env 4 = .arr (pre.map encP)
  h11 : env 11 = CTIRRefineNaf.intsV naf
  h12 : env 12 = .int (if skip then 1 else 0)
  h14 : env 14 = encP ret
  h15 : env 15 = .int i

theorem MInv.set {env : Env} {g : Bytes} {pre : List Γ} {naf : List Int} {ret : Γ} {skip : Bool} {i : Int}
    (h : MInv encP env g pre naf ret skip i) (x : Nat) (v : Val)
    (hx : 0 ≠ x ∧ 4 ≠ x ∧ 11 ≠ x ∧ 12 ≠ x ∧ 14 ≠ x ∧ 15 ≠ x) : MInv encP (env.set x v) g pre naf ret skip i := by
  obtain ⟨n0, n4, n11, n12, n14, n15⟩ := hx
  exact ⟨by rw [Env.set_other _ _ n0]; exact h.h0, by rw [Env.set_other _ _ n4]; exact h.h4,
    by rw [Env.set_other _ _ n11]; exact h.h11, by rw [Env.set_other _ _ n12]; exact h.h12,
    by rw [Env.set_other _ _ n14]; exact h.h14, by rw [Env.set_other _ _ n15]; exact h.h15⟩

theorem MInv.set14 {env : Env} {g : Bytes} {pre : List Γ} {naf : List Int} {ret : Γ} {skip : Bool} {i : Int}
    (h : MInv encP env g pre naf ret skip i) (r' : Γ) : MInv encP (env.set 14 (encP r')) g pre naf r' skip i :=
  ⟨by rw [Env.set_other _ _ (by decide)]; exact h.h0, by rw [Env.set_other _ _ (by decide)]; exact h.h4,
    by rw [Env.set_other _ _ (by decide)]; exact h.h11, by rw [Env.set_other _ _ (by decide)]; exact h.h12,
    by simp, by rw [Env.set_other _ _ (by decide)]; exact h.h15⟩

theorem MInv.set12 {env : Env} {g : Bytes} {pre : List Γ} {naf : List Int} {ret : Γ} {skip : Bool} {i : Int}
    (h : MInv encP env g pre naf ret skip i) : MInv encP (env.set 12 (.int 0)) g pre naf ret false i :=
  ⟨by rw [Env.set_other _ _ (by decide)]; exact h.h0, by rw [Env.set_other _ _ (by decide)]; exact h.h4,
    by rw [Env.set_other _ _ (by decide)]; exact h.h11, by simp,
    by rw [Env.set_other _ _ (by decide)]; exact h.h14, by rw [Env.set_other _ _ (by decide)]; exact h.h15⟩

theorem MInv.set15 {env : Env} {g : Bytes} {pre : List Γ} {naf : List Int} {ret : Γ} {skip : Bool} {i : Int}
    (h : MInv encP env g pre naf ret skip i) (i' : Int) : MInv encP (env.set 15 (.int i')) g pre naf ret skip i' :=
  ⟨by rw [Env.set_other _ _ (by decide)]; exact h.h0, by rw [Env.set_other _ _ (by decide)]; exact h.h4,
    by rw [Env.set_other _ _ (by decide)]; exact h.h11, by rw [Env.set_other _ _ (by decide)]; exact h.h12,
    by rw [Env.set_other _ _ (by decide)]; exact h.h14, by simp⟩

/-- `q.Op(…)` into `ret` (variable 14; the Go result goes to the scratch variable 3) -/
theorem MInv.ret {env : Env} {g : Bytes} {pre : List Γ} {naf : List Int} {ret : Γ} {skip : Bool} {i : Int}
    (h : MInv encP env g pre naf ret skip i) (r' : Γ) :
    MInv encP ((env.set 14 (encP r')).set 3 (encP r')) g pre naf r' skip i :=
  (h.set14 r').set 3 _ (by decide)

/-! ### table look-ups -/

theorem lookup_row (env : Env) (tb : Table) (a : Expr) (ha : evalV G env a = some (encT tb)) (c : Nat)
    (ek : Expr) (k : Nat) (hk : evalV G env ek = some (.int (k : Int))) :
    evalV G env (.idx (.idxc a c) ek) = ((tb.getD c [])[k]?).map limbsV := by
  rw [evalV_idx, evalV_idxc, ha, hk]
  simp only [encT, List.getElem?_map]
  cases h : tb[c]? with
  | none => simp [List.getD_eq_getElem?_getD, h]
  | some r => simp [List.getD_eq_getElem?_getD, h, getIdx_ofNat, List.getElem?_map]

theorem lookup3 (env : Env) (first : List Table) (a : Expr) (ha : evalV G env a = some (.arr (first.map encT)))
    (ej : Expr) (j : Nat) (hj : evalV G env ej = some (.int (j : Int))) (c : Nat)
    (ek : Expr) (k : Nat) (hk : evalV G env ek = some (.int (k : Int))) :
    evalV G env (.idx (.idxc (.idx a ej) c) ek) = (((first.getD j []).getD c [])[k]?).map limbsV := by
  have h1 : evalV G env (.idx a ej) = (first[j]?).map encT := by
    rw [evalV_idx, ha, hj]
    simp only [getIdx_ofNat, List.getElem?_map]
  cases hf : first[j]? with
  | none =>
    rw [hf] at h1
    rw [evalV_idx, evalV_idxc, h1]
    simp [List.getD_eq_getElem?_getD, hf]
  | some tb =>
    rw [hf] at h1
    rw [lookup_row env tb _ h1 c ek k hk]
    simp [List.getD_eq_getElem?_getD, hf]

/-- `bits - 1` as a `uint8` -/
theorem pred_u8 {env : Env} {x : Nat} {b : Nat} (hx : env x = .int (b : Int)) (h0 : 0 < b) (h256 : b < 256) :
    evalV G env (.op2 (.sub .u8) (.var x) (.lit 1)) = some (.int ((b - 1 : Nat) : Int)) := by
  simp only [evalV_op2, evalV_var, evalV_lit, hx, evalOp2, Option.map_some, norm]
  congr 2
  omega

/-- `bits > 0` -/
theorem pos_val {env : Env} {x : Nat} {b : Nat} (hx : env x = .int (b : Int)) :
    evalV G env (.op2 .gt (.var x) (.lit 0)) = some (.int (if b > 0 then 1 else 0)) := by
  by_cases h : b > 0
  · simp [evalV_op2, evalV_var, hx, evalOp2, ofBool, h]
  · simp [evalV_op2, evalV_var, hx, evalOp2, ofBool, h]

theorem idx_ok_mem {α : Type} {l : List α} {k : Nat} {x : α} (h : Outcome.idx l k = .ok x) : l[k]? = some x := by
  unfold Outcome.idx at h
  cases hk : l[k]? with
  | none => rw [hk] at h; cases h
  | some a => rw [hk] at h; cases h; rfl

theorem idx_eq {α : Type} (l : List α) (k : Nat) :
    Outcome.idx l k = match l[k]? with | some a => .ok a | none => .panic := rfl


/-! ## One iteration of the main loop -/

/-- `if !skip { ret.Double(ret) }` -/
theorem m_dbl (C : Callees P G X Ops encP first second Fnew Fdbl Fadd Fset Fneg Fxy)
    {env : Env} {g : Bytes} {pre : List Γ} {naf : List Int} {ret : Γ} {skip : Bool} {i : Int}
    (h : MInv encP env g pre naf ret skip i) :
    ∃ env1, EvIn P G X (Fdbl + 2) env dblS env1 .norm ∧
      MInv encP env1 g pre naf (if skip then ret else Ops.double ret) skip i := by
  have hc := CTIRRefineComb.lnot_flag G h.h12
  cases skip with
  | true =>
    exact ⟨env, (EvIn.ite hc (CTIRRefineComb.asBool_flag true) (EvIn.skip env)).mono (by omega), h⟩
  | false =>
    have a : evalVs G env [(.var 14), (.var 14)] = some [encP ret, encP ret] := by
      simp only [evalVs_cons, evalVs_nil, evalV_var, h.h14]
    exact ⟨_, EvIn.ite hc (CTIRRefineComb.asBool_flag false) ((C.dbl ret ret).call a rfl), h.ret _⟩

/-- the arguments of the call of extractHigherBits in round `(i, j)` -/
theorem cargs {env : Env} {g : Bytes} {i j : Nat} (h0 : env 0 = bytesV g) (h15 : env 15 = .int (i : Int))
    (h16 : env 16 = .int (j : Int)) (hi : i < 14) (hj : j < 3) :
    evalVs G env [(.var 0), (.op2 (.add .i64) (.op2 (.add .i64) (.var 15) (.op2 (.mul .i64) (.var 16) (.lit 14))) (.lit 4)), (.lit 6), (.lit 42)]
      = some [bytesV g, .int ((i + j * 14 + 4 : Nat) : Int), .int ((6 : Nat) : Int), .int ((42 : Nat) : Int)] := by
  have e : norm .i64 (norm .i64 ((i : Int) + norm .i64 ((j : Int) * 14)) + 4) = ((i + j * 14 + 4 : Nat) : Int) := by
    have e1 : norm .i64 ((j : Int) * 14) = (j : Int) * 14 := norm_i64_small (by omega) (by omega)
    have e2 : norm .i64 ((i : Int) + (j : Int) * 14) = (i : Int) + (j : Int) * 14 := norm_i64_small (by omega) (by omega)
    have e3 : norm .i64 ((i : Int) + (j : Int) * 14 + 4) = (i : Int) + (j : Int) * 14 + 4 :=
      norm_i64_small (by omega) (by omega)
    rw [e1, e2, e3]
    omega
  simp only [evalVs_cons, evalVs_nil, evalV_op2, evalV_var, evalV_lit, h0, h15, h16, evalOp2, Option.map_some, e]
  rfl

/-- fuel for one sub-table round -/
def fuelCRound (Fadd Fxy : Nat) : Nat := fuelHigh 6 + Fxy + Fadd + 30

theorem getD_mem_of_idx {first : List Table} {j c k : Nat} {x : List Nat}
    (h : ((first.getD j []).getD c [])[k]? = some x) : first.getD j [] ∈ first ∧ x ∈ (first.getD j []).getD c [] := by
  refine ⟨?_, List.mem_of_getElem? h⟩
  by_cases hj : j < first.length
  · rw [List.getD_eq_getElem?_getD, List.getElem?_eq_getElem hj]
    exact List.getElem_mem hj
  · have e : first.getD j [] = [] := by
      rw [List.getD_eq_getElem?_getD, List.getElem?_eq_none (by omega)]; rfl
    rw [e] at h
    simp at h

/-- one sub-table round of the comb: the model's step succeeds ⇒ the body computes it; it panics ⇒ the body fails -/
theorem c_round (C : Callees P G X Ops encP first second Fnew Fdbl Fadd Fset Fneg Fxy)
    (hG2 : G 2 = .arr (first.map encT))
    {env : Env} {g : Bytes} {pre : List Γ} {naf : List Int} {ret : Γ} {skip : Bool} {i j : Nat}
    (h : MInv encP env g pre naf ret skip (i : Nat)) (h16 : env 16 = .int (j : Int)) (hi : i < 14) (hj : j < 3) :
    match cStep Ops g first i (ret, skip) j with
    | .ok st => ∃ env1, EvIn P G X (fuelCRound Fadd Fxy) env cBodyS env1 .norm ∧
        MInv encP env1 g pre naf st.1 st.2 (i : Nat) ∧ env1 16 = .int (j : Int)
    | .panic => Fails P G X env cBodyS
    | .err => True := by
  have hargs := cargs (G := G) h.h0 h.h15 h16 hi hj
  unfold cStep
  cases hb : Model.Curve.extractHigherBits g (i + j * 14 + 4) 6 42 with
  | err => trivial
  | panic =>
    exact Fails.seq_left (Fails.call hargs (Or.inr ⟨fn_19, C.high,
      high19_body_stuck C.bit g _ 6 42 (by omega) (by omega) (by omega) (Or.inl (by omega)) hb⟩))
  | ok bits =>
    rw [Outcome.bind_ok]
    have hb256 := CTIRRefineComb.extractHigherBits_lt hb
    obtain ⟨envh, hhigh⟩ := high19_body_ok (P := P) (G := G) (X := X) C.bit g (i + j * 14 + 4) 6 42 (by omega) bits hb
    let e1 := env.set 17 (.int (bits : Int))
    let e2 := e1.set 18 (.int (bits : Int))
    have c19 : EvIn P G X (fuelHigh 6 + 1) env cCallS e1 .norm := EvIn.call hargs C.high rfl rfl hhigh rfl
    have s18 : evalV G e1 (.var 17) = some (.int (bits : Int)) := by simp [e1]
    have h2 : MInv encP e2 g pre naf ret skip (i : Nat) := (h.set 17 _ (by decide)).set 18 _ (by decide)
    have g18 : e2 18 = .int (bits : Int) := by simp [e2]
    have g16 : e2 16 = .int (j : Int) := by simp [e2, e1, Env.set, h16]
    have hc := pos_val (G := G) g18
    by_cases hpos : bits > 0
    · rw [if_pos hpos] at hc ⊢
      have hk := pred_u8 (G := G) g18 hpos hb256
      have hx := lookup3 (G := G) e2 first (.glob 2) (by rw [evalV_glob, hG2]) (.var 16) j (by rw [evalV_var, g16]) 0 _ _ hk
      rw [idx_eq]
      cases hxv : ((first.getD j []).getD 0 [])[bits - 1]? with
      | none =>
        rw [hxv] at hx
        exact Fails.seq_right c19 (Fails.seq_right (EvIn.assign s18) (Fails.ite hc rfl
          (Fails.seq_left (Or.inr (Stuck.assign hx)))))
      | some x =>
        rw [hxv] at hx
        simp only [Outcome.bind_ok]
        let e3 := e2.set 19 (limbsV x)
        have hy3 : evalV G e3 cYE = (((first.getD j []).getD 1 [])[bits - 1]?).map limbsV :=
          lookup3 (G := G) e3 first (.glob 2) (by rw [evalV_glob, hG2]) (.var 16) j
            (by rw [evalV_var]; simp [e3, Env.set, g16]) 1 _ _
            (pred_u8 (G := G) (by simp [e3, Env.set, g18]) hpos hb256)
        rw [idx_eq]
        cases hyv : ((first.getD j []).getD 1 [])[bits - 1]? with
        | none =>
          rw [hyv] at hy3
          exact Fails.seq_right c19 (Fails.seq_right (EvIn.assign s18) (Fails.ite hc rfl
            (Fails.seq_right (EvIn.assign hx) (Fails.seq_left (Or.inr (Stuck.assign hy3))))))
        | some y =>
          rw [hyv] at hy3
          simp only [Outcome.bind_ok]
          let e4 := e3.set 20 (limbsV y)
          let e5 := e4.set 21 (limbsV x)
          let e6 := e5.set 22 (limbsV y)
          let e7 := e6.set 23 (encP (Ops.fromXY x y))
          let e8 := e7.set 24 (encP (Ops.fromXY x y))
          have s21 : evalV G e4 (.var 19) = some (limbsV x) := by simp [e4, e3, Env.set]
          have s22 : evalV G e5 (.var 20) = some (limbsV y) := by simp [e5, e4, Env.set]
          have a21 : evalVs G e6 [(.var 21), (.var 22)] = some [limbsV x, limbsV y] := by
            simp [evalVs_cons, e6, e5, Env.set]
          have hused : XYUsed first second x y :=
            Or.inl ⟨_, (getD_mem_of_idx hxv).1, (getD_mem_of_idx hxv).2, (getD_mem_of_idx hyv).2⟩
          have c21 : EvIn P G X (Fxy + 1) e6 (.call [23] 21 [(.var 21), (.var 22)]) e7 .norm :=
            (C.xy x y hused).call a21 rfl
          have s24 : evalV G e7 (.var 23) = some (encP (Ops.fromXY x y)) := by simp [e7]
          have h8 : MInv encP e8 g pre naf ret skip (i : Nat) :=
            (((((h2.set 19 _ (by decide)).set 20 _ (by decide)).set 21 _ (by decide)).set 22 _ (by decide)).set 23 _
              (by decide)).set 24 _ (by decide)
          have a18 : evalVs G e8 [(.var 14), (.var 14), (.var 24)] = some [encP ret, encP ret, encP (Ops.fromXY x y)] := by
            have g24 : e8 24 = encP (Ops.fromXY x y) := by simp [e8]
            simp only [evalVs_cons, evalVs_nil, evalV_var, h8.h14, g24]
          have c18 := (C.add ret ret (Ops.fromXY x y)).call (env := e8) (lhs := [14, 3]) a18 rfl
          have h9 := (h8.ret (Ops.add ret (Ops.fromXY x y))).set12
          refine ⟨_, ?_, h9, ?_⟩
          · exact (EvIn.seq c19 (EvIn.seq (EvIn.assign s18) (EvIn.ite hc rfl
              (EvIn.seq (EvIn.assign hx) (EvIn.seq (EvIn.assign hy3) (EvIn.seq (EvIn.assign s21)
              (EvIn.seq (EvIn.assign s22) (EvIn.seq c21 (EvIn.seq (EvIn.assign s24)
              (EvIn.seq c18 (EvIn.assign rfl))))))))))).mono (by simp only [fuelCRound]; omega)
          · simp [e8, e7, e6, e5, e4, e3, Env.set, g16]
    · rw [if_neg hpos] at hc ⊢
      refine ⟨e2, ?_, h2, g16⟩
      exact (EvIn.seq c19 (EvIn.seq (EvIn.assign s18) (EvIn.ite hc rfl (EvIn.skip _)))).mono
        (by simp only [fuelCRound]; omega)


theorem ccond_val {env : Env} {j : Nat} (h16 : env 16 = .int (j : Int)) :
    evalV G env cCondE = some (.int (if j < 3 then 1 else 0)) := by
  by_cases h : j < 3
  · have : (j : Int) < 3 := by omega
    simp [cCondE, evalV_op2, evalV_var, h16, evalOp2, ofBool, h, this]
  · have : ¬ (j : Int) < 3 := by omega
    simp [cCondE, evalV_op2, evalV_var, h16, evalOp2, ofBool, h, this]

/-- the loop over the three sub-tables computes the model's fold (induction on the number `n` of remaining rounds) -/
theorem c_loop (C : Callees P G X Ops encP first second Fnew Fdbl Fadd Fset Fneg Fxy)
    (hG2 : G 2 = .arr (first.map encT)) {g : Bytes} {pre : List Γ} {naf : List Int} {i : Nat} (hi : i < 14) :
    ∀ (n j : Nat) (env : Env) (ret : Γ) (skip : Bool),
    MInv encP env g pre naf ret skip (i : Nat) → env 16 = .int (j : Int) → j + n = 3 →
    match cFrom Ops g first i j n (ret, skip) with
    | .ok st => ∃ env', EvIn P G X ((fuelCRound Fadd Fxy + 2) * n + 1) env cLoopS env' .norm ∧
        MInv encP env' g pre naf st.1 st.2 (i : Nat)
    | .panic => Fails P G X env cLoopS
    | .err => True := by
  intro n
  induction n with
  | zero =>
    intro j env ret skip h h16 hjn
    have hc := ccond_val (G := G) h16
    rw [if_neg (by omega)] at hc
    exact ⟨env, EvIn.loop_exit hc rfl, h⟩
  | succ n ih =>
    intro j env ret skip h h16 hjn
    have hj : j < 3 := by omega
    have hc := ccond_val (G := G) h16
    rw [if_pos hj] at hc
    have hb := c_round C hG2 h h16 hi hj
    rw [cFrom_succ]
    cases hstep : cStep Ops g first i (ret, skip) j with
    | err => trivial
    | panic =>
      rw [hstep] at hb
      exact Fails.loop_body hc rfl hb
    | ok st =>
      rw [hstep] at hb
      obtain ⟨env1, hbody, h1, g16⟩ := hb
      have s16 : evalV G env1 (.op2 (.add .i64) (.var 16) (.lit 1)) = some (.int ((j + 1 : Nat) : Int)) := by
        simp only [evalV_op2, evalV_var, evalV_lit, g16, succ_i64_nat (by omega : j + 1 < 2 ^ 63), Option.map_some]
      have hpost : EvIn P G X 1 env1 cPostS (env1.set 16 (.int ((j + 1 : Nat) : Int))) .norm := EvIn.assign s16
      have ih' := ih (j + 1) (env1.set 16 (.int ((j + 1 : Nat) : Int))) st.1 st.2 (h1.set 16 _ (by decide)) (by simp)
        (by omega)
      rw [Outcome.bind_ok]
      cases hf : cFrom Ops g first i (j + 1) n st with
      | err => trivial
      | panic =>
        have e : cFrom Ops g first i (j + 1) n (st.1, st.2) = .panic := hf
        rw [e] at ih'
        exact Fails.loop_round hc rfl hbody (Or.inl rfl) hpost ih'
      | ok st' =>
        have e : cFrom Ops g first i (j + 1) n (st.1, st.2) = .ok st' := hf
        rw [e] at ih'
        obtain ⟨env', hl', h'⟩ := ih'
        refine ⟨env', ?_, h'⟩
        exact (EvIn.loop_round hc rfl hbody (Or.inl rfl) hpost hl').mono (by rw [Nat.mul_add]; omega)

/-- fuel for `if i < iterations { … }` -/
def fuelCombPart (Fadd Fxy : Nat) : Nat := (fuelCRound Fadd Fxy + 2) * 3 + 6

theorem ilt_val {env : Env} {i : Nat} (h15 : env 15 = .int (i : Int)) :
    evalV G env (.op2 .lt (.var 15) (.lit 14)) = some (.int (if i < 14 then 1 else 0)) := by
  by_cases h : i < 14
  · have : (i : Int) < 14 := by omega
    simp [evalV_op2, evalV_var, h15, evalOp2, ofBool, h, this]
  · have : ¬ (i : Int) < 14 := by omega
    simp [evalV_op2, evalV_var, h15, evalOp2, ofBool, h, this]

/-- `if i < iterations { for j … }` -/
theorem m_comb (C : Callees P G X Ops encP first second Fnew Fdbl Fadd Fset Fneg Fxy)
    (hG2 : G 2 = .arr (first.map encT))
    {env : Env} {g : Bytes} {pre : List Γ} {naf : List Int} {ret : Γ} {skip : Bool} {i : Nat}
    (h : MInv encP env g pre naf ret skip (i : Nat)) :
    match (if i < 14 then cFrom Ops g first i 0 3 (ret, skip) else .ok (ret, skip)) with
    | .ok st => ∃ env1, EvIn P G X (fuelCombPart Fadd Fxy) env combS env1 .norm ∧
        MInv encP env1 g pre naf st.1 st.2 (i : Nat)
    | .panic => Fails P G X env combS
    | .err => True := by
  have hc := ilt_val (G := G) h.h15
  by_cases hi : i < 14
  · rw [if_pos hi] at hc ⊢
    have hl := c_loop C hG2 hi 3 0 (env.set 16 (.int 0)) ret skip (h.set 16 _ (by decide)) (by simp) (by omega)
    cases hf : cFrom Ops g first i 0 3 (ret, skip) with
    | err => trivial
    | panic =>
      rw [hf] at hl
      exact Fails.ite hc rfl (Fails.seq_right (EvIn.assign rfl) hl)
    | ok st =>
      rw [hf] at hl
      obtain ⟨env', hl', h'⟩ := hl
      exact ⟨env', (EvIn.ite hc rfl (EvIn.seq (EvIn.assign rfl) hl')).mono (by simp only [fuelCombPart]; omega), h'⟩
  · rw [if_neg hi] at hc ⊢
    exact ⟨env, (EvIn.ite hc rfl (EvIn.skip _)).mono (by simp only [fuelCombPart]; omega), h⟩



/-! ### the signed-NAF part -/

/-- `if skip { ret.Set(tmpPoint); skip = false } else { ret.Add(ret, tmpPoint) }` -/
theorem m_acc (C : Callees P G X Ops encP first second Fnew Fdbl Fadd Fset Fneg Fxy)
    {env : Env} {g : Bytes} {pre : List Γ} {naf : List Int} {ret tmp : Γ} {skip : Bool} {i : Int}
    (h : MInv encP env g pre naf ret skip i) (h27 : env 27 = encP tmp) :
    ∃ env1, EvIn P G X (Fset + Fadd + 4) env nAccS env1 .norm ∧
      MInv encP env1 g pre naf (if skip then tmp else Ops.add ret tmp) false i := by
  have hc : evalV G env (.var 12) = some (.int (if skip then 1 else 0)) := by rw [evalV_var, h.h12]
  cases skip with
  | true =>
    have a : evalVs G env [(.var 14), (.var 27)] = some [encP ret, encP tmp] := by
      simp only [evalVs_cons, evalVs_nil, evalV_var, h.h14, h27]
    have c23 := (C.set ret tmp).call (env := env) (lhs := [14, 3]) a rfl
    exact ⟨_, (EvIn.ite (d := true) hc rfl (EvIn.seq c23 (EvIn.assign rfl))).mono (by omega), (h.ret tmp).set12⟩
  | false =>
    have a : evalVs G env [(.var 14), (.var 14), (.var 27)] = some [encP ret, encP ret, encP tmp] := by
      simp only [evalVs_cons, evalVs_nil, evalV_var, h.h14, h27]
    have c18 := (C.add ret ret tmp).call (env := env) (lhs := [14, 3]) a rfl
    exact ⟨_, (EvIn.ite (d := false) hc rfl c18).mono (by omega), h.ret _⟩

/-- `(naf - 1) >> 1` for a small positive digit -/
theorem posIdx_val {env : Env} {d : Int} (h25 : env 25 = .int d) (hd : 0 < d) (hs : d ≤ 65536) :
    evalV G env (.op1 (.shrc 1) (.op2 (.sub .i64) (.var 25) (.lit 1))) = some (.int (((d.toNat - 1) / 2 : Nat) : Int)) := by
  have e1 : norm .i64 (d - 1) = ((d.toNat - 1 : Nat) : Int) := by
    rw [norm_i64_small (by omega) (by omega)]; omega
  simp only [evalV_op1, evalV_op2, evalV_var, evalV_lit, h25, evalOp2, Option.map_some, e1, shrc_nat,
    Nat.shiftRight_eq_div_pow]

/-- `(-naf - 1) >> 1` for a small negative digit -/
theorem negIdx_val {env : Env} {d : Int} (h25 : env 25 = .int d) (hd : d < 0) (hs : -65536 ≤ d) :
    evalV G env (.op1 (.shrc 1) (.op2 (.sub .i64) (.op1 (.neg .i64) (.var 25)) (.lit 1)))
      = some (.int ((((-d).toNat - 1) / 2 : Nat) : Int)) := by
  have e0 : norm .i64 (-d) = -d := norm_i64_small (by omega) (by omega)
  have e1 : norm .i64 (-d - 1) = (((-d).toNat - 1 : Nat) : Int) := by
    rw [norm_i64_small (by omega) (by omega)]; omega
  simp only [evalV_op1, evalV_op2, evalV_var, evalV_lit, h25, evalOp1, evalOp2, Option.map_some, e0, e1]
  congr 2

theorem gt0_val {env : Env} {d : Int} (h25 : env 25 = .int d) :
    evalV G env (.op2 .gt (.var 25) (.lit 0)) = some (.int (if d > 0 then 1 else 0)) := by
  by_cases h : d > 0
  · simp [evalV_op2, evalV_var, h25, evalOp2, ofBool, h]
  · simp [evalV_op2, evalV_var, h25, evalOp2, ofBool, h]

theorem lt0_val {env : Env} {d : Int} (h25 : env 25 = .int d) :
    evalV G env (.op2 .lt (.var 25) (.lit 0)) = some (.int (if d < 0 then 1 else 0)) := by
  by_cases h : d < 0
  · simp [evalV_op2, evalV_var, h25, evalOp2, ofBool, h]
  · simp [evalV_op2, evalV_var, h25, evalOp2, ofBool, h]

theorem eq0_val {env : Env} {d : Int} (h25 : env 25 = .int d) :
    evalV G env (.op2 .eq (.var 25) (.lit 0)) = some (.int (if d = 0 then 1 else 0)) := by
  by_cases h : d = 0
  · simp [evalV_op2, evalV_var, h25, evalOp2, ofBool, h]
  · simp [evalV_op2, evalV_var, h25, evalOp2, ofBool, h]

/-- the arguments `tmpPoint, pPrecomputes[idx]` -/
theorem selargs {env : Env} {pre : List Γ} {x : Nat} {k : Nat} {v : Val} (h27 : env 27 = v)
    (h4 : env 4 = .arr (pre.map encP)) (hx : env x = .int (k : Int)) :
    evalVs G env [(.var 27), (.idx (.var 4) (.var x))] =
      match pre[k]? with
      | some q => some [v, encP q]
      | none => none := by
  simp only [evalVs_cons, evalVs_nil, evalV_idx, evalV_var, h27, h4, hx, getIdx_ofNat, List.getElem?_map]
  cases pre[k]? <;> rfl

/-- `if naf > 0 { tmpPoint.Set(pPrecomputes[(naf-1)>>1]) } else if naf < 0 { tmpPoint.Negate(pPrecomputes[(-naf-1)>>1]) }` -/
theorem m_sel (C : Callees P G X Ops encP first second Fnew Fdbl Fadd Fset Fneg Fxy)
    {env : Env} {g : Bytes} {pre : List Γ} {naf : List Int} {ret : Γ} {skip : Bool} {i : Int} {d : Int}
    (h : MInv encP env g pre naf ret skip i) (h25 : env 25 = .int d) (hd0 : d ≠ 0)
    (hds : -65536 ≤ d ∧ d ≤ 65536) (h27 : env 27 = encP Ops.infinity) :
    match (if d > 0 then Outcome.idx pre ((d.toNat - 1) / 2)
      else Outcome.idx pre (((-d).toNat - 1) / 2) >>= fun q => .ok (Ops.negate q)) with
    | .ok tmp => ∃ env1, EvIn P G X (Fset + Fneg + 6) env nSelS env1 .norm ∧ MInv encP env1 g pre naf ret skip i ∧
        env1 27 = encP tmp
    | .panic => Fails P G X env nSelS
    | .err => True := by
  have hc1 := gt0_val (G := G) h25
  by_cases hp : d > 0
  · rw [if_pos hp] at hc1 ⊢
    let e1 := env.set 28 (.int (((d.toNat - 1) / 2 : Nat) : Int))
    have s28 := posIdx_val (G := G) h25 hp hds.2
    have h1 : MInv encP e1 g pre naf ret skip i := h.set 28 _ (by decide)
    have ha := selargs (G := G) (encP := encP) (env := e1) (v := encP Ops.infinity) (x := 28) (k := (d.toNat - 1) / 2)
      (by simp [e1, Env.set, h27]) h1.h4 (by simp [e1])
    rw [idx_eq]
    cases hq : pre[(d.toNat - 1) / 2]? with
    | none =>
      rw [hq] at ha
      exact Fails.ite hc1 rfl (Fails.seq_right (EvIn.assign s28) (Fails.args ha))
    | some q =>
      rw [hq] at ha
      have c23 := (C.set Ops.infinity q).call (env := e1) (lhs := [27, 3]) ha rfl
      refine ⟨_, (EvIn.ite hc1 rfl (EvIn.seq (EvIn.assign s28) c23)).mono (by omega),
        (h1.set 27 _ (by decide)).set 3 _ (by decide), by simp [Env.set]⟩
  · rw [if_neg hp] at hc1 ⊢
    have hn : d < 0 := by omega
    have hc2 := lt0_val (G := G) h25
    rw [if_pos hn] at hc2
    let e1 := env.set 29 (.int ((((-d).toNat - 1) / 2 : Nat) : Int))
    have s29 := negIdx_val (G := G) h25 hn hds.1
    have h1 : MInv encP e1 g pre naf ret skip i := h.set 29 _ (by decide)
    have ha := selargs (G := G) (encP := encP) (env := e1) (v := encP Ops.infinity) (x := 29) (k := ((-d).toNat - 1) / 2)
      (by simp [e1, Env.set, h27]) h1.h4 (by simp [e1])
    rw [idx_eq]
    cases hq : pre[((-d).toNat - 1) / 2]? with
    | none =>
      rw [hq] at ha
      exact Fails.ite hc1 rfl (Fails.ite hc2 rfl (Fails.seq_right (EvIn.assign s29) (Fails.args ha)))
    | some q =>
      rw [hq] at ha
      have c24 := (C.neg Ops.infinity q).call (env := e1) (lhs := [27, 3]) ha rfl
      refine ⟨_, (EvIn.ite hc1 rfl (EvIn.ite hc2 rfl (EvIn.seq (EvIn.assign s29) c24))).mono (by omega),
        (h1.set 27 _ (by decide)).set 3 _ (by decide), by simp [Env.set]⟩



/-- fuel for the signed-NAF part of an iteration -/
def fuelNafPart (Fnew Fadd Fset Fneg : Nat) : Nat := Fnew + (Fset + Fneg + 6) + (Fset + Fadd + 4) + 20

/-- `naf := singed4Naf[i]; if naf == 0 { continue }; …`: ends normally or with `continue` -/
theorem m_naf (C : Callees P G X Ops encP first second Fnew Fdbl Fadd Fset Fneg Fxy)
    {env : Env} {g : Bytes} {pre : List Γ} {naf : List Int} (hs : Small naf) {ret : Γ} {skip : Bool} {i : Nat}
    (h : MInv encP env g pre naf ret skip (i : Nat)) :
    match nStep Ops pre naf i (ret, skip) with
    | .ok st => ∃ env1 cb, EvIn P G X (fuelNafPart Fnew Fadd Fset Fneg) env (.seq nGetS (.seq nContS nTailS)) env1 cb ∧
        (cb = .norm ∨ cb = .cont) ∧ MInv encP env1 g pre naf st.1 st.2 (i : Nat)
    | .panic => Fails P G X env (.seq nGetS (.seq nContS nTailS))
    | .err => True := by
  unfold nStep
  have s25 : evalV G env (.idx (.var 11) (.var 15)) = (naf[i]?).map Val.int := by
    simp only [evalV_idx, evalV_var, h.h11, h.h15, CTIRRefineNaf.intsV, getIdx_ofNat, List.getElem?_map]
  rw [idx_eq]
  cases hd : naf[i]? with
  | none =>
    rw [hd] at s25
    exact Fails.seq_left (Or.inr (Stuck.assign s25))
  | some d =>
    rw [hd] at s25
    simp only [Outcome.bind_ok]
    have hds := hs d (List.mem_of_getElem? hd)
    let e1 := env.set 25 (.int d)
    have h1 : MInv encP e1 g pre naf ret skip (i : Nat) := h.set 25 _ (by decide)
    have g25 : e1 25 = .int d := by simp [e1]
    have hc0 := eq0_val (G := G) g25
    by_cases h0 : d = 0
    · rw [if_pos h0] at hc0 ⊢
      exact ⟨e1, .cont, (EvIn.seq (EvIn.assign s25) (EvIn.seq_stop (EvIn.ite hc0 rfl (EvIn.cont _)) (by simp))).mono
        (by simp only [fuelNafPart]; omega), Or.inr rfl, h1⟩
    · rw [if_neg h0] at hc0 ⊢
      let e2 := e1.set 26 (encP Ops.infinity)
      let e3 := e2.set 27 (encP Ops.infinity)
      have c15 : EvIn P G X (Fnew + 1) e1 (.call [26] 15 []) e2 .norm := C.new.call rfl rfl
      have s27 : evalV G e2 (.var 26) = some (encP Ops.infinity) := by simp [e2]
      have h3 : MInv encP e3 g pre naf ret skip (i : Nat) := (h1.set 26 _ (by decide)).set 27 _ (by decide)
      have g25' : e3 25 = .int d := by simp [e3, e2, Env.set, g25]
      have g27 : e3 27 = encP Ops.infinity := by simp [e3]
      have hsel := m_sel C h3 g25' h0 hds g27
      cases ht : (if d > 0 then Outcome.idx pre ((d.toNat - 1) / 2)
          else Outcome.idx pre (((-d).toNat - 1) / 2) >>= fun q => .ok (Ops.negate q)) with
      | err => trivial
      | panic =>
        rw [ht] at hsel
        exact Fails.seq_right (EvIn.assign s25) (Fails.seq_right (EvIn.ite hc0 rfl (EvIn.skip _))
          (Fails.seq_right c15 (Fails.seq_right (EvIn.assign s27) (Fails.seq_left hsel))))
      | ok tmp =>
        rw [ht] at hsel
        obtain ⟨e4, hs4, h4, g27'⟩ := hsel
        obtain ⟨e5, ha, h5⟩ := m_acc C h4 g27'
        exact ⟨e5, .norm, (EvIn.seq (EvIn.assign s25) (EvIn.seq (EvIn.ite hc0 rfl (EvIn.skip _))
          (EvIn.seq c15 (EvIn.seq (EvIn.assign s27) (EvIn.seq hs4 ha))))).mono (by simp only [fuelNafPart]; omega),
          Or.inl rfl, h5⟩

/-- fuel for one iteration of the main loop -/
def fuelMRound (Fnew Fdbl Fadd Fset Fneg Fxy : Nat) : Nat :=
  Fdbl + fuelCombPart Fadd Fxy + fuelNafPart Fnew Fadd Fset Fneg + 8

/-- (b) ONE ITERATION of the main loop: the model's `mixedStep` succeeds ⇒ the body computes it (ending normally or
    with `continue`); it panics ⇒ the body fails -/
theorem m_body (C : Callees P G X Ops encP first second Fnew Fdbl Fadd Fset Fneg Fxy)
    (hG2 : G 2 = .arr (first.map encT))
    {env : Env} {g : Bytes} {pre : List Γ} {naf : List Int} (hs : Small naf) {ret : Γ} {skip : Bool} {i : Nat}
    (h : MInv encP env g pre naf ret skip (i : Nat)) :
    match Model.Curve.mixedStep Ops g first pre naf (ret, skip) i with
    | .ok st => ∃ env1 cb, EvIn P G X (fuelMRound Fnew Fdbl Fadd Fset Fneg Fxy) env mBodyS env1 cb ∧
        (cb = .norm ∨ cb = .cont) ∧ MInv encP env1 g pre naf st.1 st.2 (i : Nat)
    | .panic => Fails P G X env mBodyS
    | .err => True := by
  rw [mixedStep_eq]
  obtain ⟨e1, hd, h1⟩ := m_dbl C h
  have hcomb := m_comb C hG2 h1
  cases hc : (if i < 14 then cFrom Ops g first i 0 3 (if skip then ret else Ops.double ret, skip)
      else .ok (if skip then ret else Ops.double ret, skip)) with
  | err => trivial
  | panic =>
    rw [hc] at hcomb
    exact Fails.seq_right hd (Fails.seq_left hcomb)
  | ok st =>
    rw [hc] at hcomb
    obtain ⟨e2, hcb, h2⟩ := hcomb
    rw [Outcome.bind_ok]
    have hn := m_naf C hs h2
    cases hnn : nStep Ops pre naf i st with
    | err => trivial
    | panic =>
      have e : nStep Ops pre naf i (st.1, st.2) = .panic := hnn
      rw [e] at hn
      exact Fails.seq_right hd (Fails.seq_right hcb hn)
    | ok st' =>
      have e : nStep Ops pre naf i (st.1, st.2) = .ok st' := hnn
      rw [e] at hn
      obtain ⟨e3, cb, hev, hcb', h3⟩ := hn
      exact ⟨e3, cb, (EvIn.seq hd (EvIn.seq hcb hev)).mono (by simp only [fuelMRound]; omega), hcb', h3⟩

theorem mcond_val {env : Env} {v : Int} (h15 : env 15 = .int v) :
    evalV G env mCondE = some (.int (if 0 ≤ v then 1 else 0)) := by
  by_cases h : 0 ≤ v
  · simp [mCondE, evalV_op2, evalV_var, h15, evalOp2, ofBool, h]
  · simp [mCondE, evalV_op2, evalV_var, h15, evalOp2, ofBool, h]

/-- (c) THE MAIN LOOP: `n` iterations remain, `i = n - 1` -/
theorem m_loop (C : Callees P G X Ops encP first second Fnew Fdbl Fadd Fset Fneg Fxy)
    (hG2 : G 2 = .arr (first.map encT)) {g : Bytes} {pre : List Γ} {naf : List Int} (hs : Small naf) :
    ∀ (n : Nat) (env : Env) (ret : Γ) (skip : Bool),
    MInv encP env g pre naf ret skip ((n : Int) - 1) → n ≤ 257 →
    match mFrom Ops g first pre naf (257 - n) n (ret, skip) with
    | .ok st => ∃ env', EvIn P G X ((fuelMRound Fnew Fdbl Fadd Fset Fneg Fxy + 2) * n + 1) env mLoopS env' .norm ∧
        MInv encP env' g pre naf st.1 st.2 (-1)
    | .panic => Fails P G X env mLoopS
    | .err => True := by
  intro n
  induction n with
  | zero =>
    intro env ret skip h hn
    have hc := mcond_val (G := G) h.h15
    rw [if_neg (by omega)] at hc
    exact ⟨env, EvIn.loop_exit hc rfl, by simpa using h⟩
  | succ n ih =>
    intro env ret skip h hn
    have h' : MInv encP env g pre naf ret skip ((n : Nat) : Int) := by
      have e : ((n + 1 : Nat) : Int) - 1 = (n : Int) := by omega
      rw [e] at h; exact h
    have hc := mcond_val (G := G) h'.h15
    rw [if_pos (by omega)] at hc
    have hb := m_body C hG2 hs h'
    rw [mFrom_succ, show 256 - (257 - (n + 1)) = n by omega, show 257 - (n + 1) + 1 = 257 - n by omega]
    cases hstep : Model.Curve.mixedStep Ops g first pre naf (ret, skip) n with
    | err => trivial
    | panic =>
      rw [hstep] at hb
      exact Fails.loop_body hc rfl hb
    | ok st =>
      rw [hstep] at hb
      obtain ⟨env1, cb, hbody, hcb, h1⟩ := hb
      have s15 : evalV G env1 (.op2 (.sub .i64) (.var 15) (.lit 1)) = some (.int ((n : Int) - 1)) := by
        simp only [evalV_op2, evalV_var, evalV_lit, h1.h15, evalOp2, Option.map_some]
        rw [norm_i64_small (by omega) (by omega)]
      have hpost : EvIn P G X 1 env1 mPostS (env1.set 15 (.int ((n : Int) - 1))) .norm := EvIn.assign s15
      have ih' := ih (env1.set 15 (.int ((n : Int) - 1))) st.1 st.2 (h1.set15 _) (by omega)
      rw [Outcome.bind_ok]
      cases hf : mFrom Ops g first pre naf (257 - n) n st with
      | err => trivial
      | panic =>
        have e : mFrom Ops g first pre naf (257 - n) n (st.1, st.2) = .panic := hf
        rw [e] at ih'
        exact Fails.loop_round hc rfl hbody hcb hpost ih'
      | ok st' =>
        have e : mFrom Ops g first pre naf (257 - n) n (st.1, st.2) = .ok st' := hf
        rw [e] at ih'
        obtain ⟨env', hl', h''⟩ := ih'
        refine ⟨env', ?_, h''⟩
        exact (EvIn.loop_round hc rfl hbody hcb hpost hl').mono (by rw [Nat.mul_add]; omega)



/-! ## (d) The remainder table and the result -/

/-- fuel for the part after the main loop -/
def fuelTail (Fadd Fxy : Nat) : Nat := fuelLow + Fxy + Fadd + 30

theorem m_tail (C : Callees P G X Ops encP first second Fnew Fdbl Fadd Fset Fneg Fxy)
    (hG3 : G 3 = encT second)
    {env : Env} {g : Bytes} {pre : List Γ} {naf : List Int} {ret : Γ} {skip : Bool} {i : Int}
    (h : MInv encP env g pre naf ret skip i) :
    match tailM Ops g second ret with
    | .ok r => ∃ env', EvIn P G X (fuelTail Fadd Fxy) env tailS env' (.ret [encP r, .int 0])
    | .panic => Fails P G X env tailS
    | .err => True := by
  have hlow : P[27]? = some SMGo.Gen.CTIRProg.fn_4 := C.low
  have hargs : evalVs G env [(.var 0), (.lit 4)] = some [bytesV g, .int ((4 : Nat) : Int)] := by
    simp only [evalVs_cons, evalVs_nil, evalV_var, evalV_lit, h.h0]
    rfl
  unfold tailM
  cases hb : Model.Curve.extractLowerBits g 4 with
  | err => trivial
  | panic =>
    exact Fails.seq_left (Fails.call hargs (Or.inr ⟨_, hlow, low_body_stuck g 4 hb⟩))
  | ok bits =>
    rw [Outcome.bind_ok]
    have hb256 := CTIRRefineComb.extractLowerBits_lt hb
    obtain ⟨envl, hl⟩ := low_body_ok (P := P) (G := G) (X := X) g 4 bits hb
    let e1 := env.set 30 (.int (bits : Int))
    let e2 := e1.set 31 (.int (bits : Int))
    have c27 : EvIn P G X (fuelLow + 1) env (.call [30] 27 [(.var 0), (.lit 4)]) e1 .norm :=
      EvIn.call hargs hlow rfl rfl hl rfl
    have s31 : evalV G e1 (.var 30) = some (.int (bits : Int)) := by simp [e1]
    have h2 : MInv encP e2 g pre naf ret skip i := (h.set 30 _ (by decide)).set 31 _ (by decide)
    have g31 : e2 31 = .int (bits : Int) := by simp [e2]
    have hc := pos_val (G := G) g31
    by_cases hpos : bits > 0
    · rw [if_pos hpos] at hc ⊢
      have hx := lookup_row (G := G) e2 second (.glob 3) (by rw [evalV_glob, hG3]) 0 _ _ (pred_u8 (G := G) g31 hpos hb256)
      rw [idx_eq]
      cases hxv : (second.getD 0 [])[bits - 1]? with
      | none =>
        rw [hxv] at hx
        exact Fails.seq_right c27 (Fails.seq_right (EvIn.assign s31) (Fails.seq_left (Fails.ite hc rfl
          (Fails.seq_left (Or.inr (Stuck.assign hx))))))
      | some x =>
        rw [hxv] at hx
        simp only [Outcome.bind_ok]
        let e3 := e2.set 32 (limbsV x)
        have hy : evalV G e3 tYE = ((second.getD 1 [])[bits - 1]?).map limbsV :=
          lookup_row (G := G) e3 second (.glob 3) (by rw [evalV_glob, hG3]) 1 _ _
            (pred_u8 (G := G) (by simp [e3, Env.set, g31]) hpos hb256)
        rw [idx_eq]
        cases hyv : (second.getD 1 [])[bits - 1]? with
        | none =>
          rw [hyv] at hy
          exact Fails.seq_right c27 (Fails.seq_right (EvIn.assign s31) (Fails.seq_left (Fails.ite hc rfl
            (Fails.seq_right (EvIn.assign hx) (Fails.seq_left (Or.inr (Stuck.assign hy)))))))
        | some y =>
          rw [hyv] at hy
          simp only [Outcome.bind_ok]
          let e4 := e3.set 33 (limbsV y)
          let e5 := e4.set 34 (limbsV x)
          let e6 := e5.set 35 (limbsV y)
          let e7 := e6.set 36 (encP (Ops.fromXY x y))
          let e8 := e7.set 37 (encP (Ops.fromXY x y))
          have s34 : evalV G e4 (.var 32) = some (limbsV x) := by simp [e4, e3, Env.set]
          have s35 : evalV G e5 (.var 33) = some (limbsV y) := by simp [e5, e4, Env.set]
          have a21 : evalVs G e6 [(.var 34), (.var 35)] = some [limbsV x, limbsV y] := by
            simp [evalVs_cons, e6, e5, Env.set]
          have hused : XYUsed first second x y := Or.inr ⟨List.mem_of_getElem? hxv, List.mem_of_getElem? hyv⟩
          have c21 : EvIn P G X (Fxy + 1) e6 (.call [36] 21 [(.var 34), (.var 35)]) e7 .norm :=
            (C.xy x y hused).call a21 rfl
          have s37 : evalV G e7 (.var 36) = some (encP (Ops.fromXY x y)) := by simp [e7]
          have h8 : MInv encP e8 g pre naf ret skip i :=
            (((((h2.set 32 _ (by decide)).set 33 _ (by decide)).set 34 _ (by decide)).set 35 _ (by decide)).set 36 _
              (by decide)).set 37 _ (by decide)
          have a18 : evalVs G e8 [(.var 14), (.var 14), (.var 37)] = some [encP ret, encP ret, encP (Ops.fromXY x y)] := by
            have g37 : e8 37 = encP (Ops.fromXY x y) := by simp [e8]
            simp only [evalVs_cons, evalVs_nil, evalV_var, h8.h14, g37]
          have c18 := (C.add ret ret (Ops.fromXY x y)).call (env := e8) (lhs := [14, 3]) a18 rfl
          have h9 := h8.ret (Ops.add ret (Ops.fromXY x y))
          let e9 := (e8.set 14 (encP (Ops.add ret (Ops.fromXY x y)))).set 3 (encP (Ops.add ret (Ops.fromXY x y)))
          have sr : evalVs G e9 [(.var 14), (.lit 0)] = some [encP (Ops.add ret (Ops.fromXY x y)), .int 0] := by
            have g14 : e9 14 = encP (Ops.add ret (Ops.fromXY x y)) := h9.h14
            simp only [evalVs_cons, evalVs_nil, evalV_var, evalV_lit, g14]
          refine ⟨e9, ?_⟩
          exact (EvIn.seq c27 (EvIn.seq (EvIn.assign s31) (EvIn.seq (EvIn.ite hc rfl
            (EvIn.seq (EvIn.assign hx) (EvIn.seq (EvIn.assign hy) (EvIn.seq (EvIn.assign s34)
            (EvIn.seq (EvIn.assign s35) (EvIn.seq c21 (EvIn.seq (EvIn.assign s37) c18)))))))
            (EvIn.seq_stop (EvIn.ret sr) (by simp))))).mono (by simp only [fuelTail]; omega)
    · rw [if_neg hpos] at hc ⊢
      have sr : evalVs G e2 [(.var 14), (.lit 0)] = some [encP ret, .int 0] := by
        simp only [evalVs_cons, evalVs_nil, evalV_var, evalV_lit, h2.h14]
      refine ⟨e2, ?_⟩
      exact (EvIn.seq c27 (EvIn.seq (EvIn.assign s31) (EvIn.seq (EvIn.ite hc rfl (EvIn.skip _))
        (EvIn.seq_stop (EvIn.ret sr) (by simp))))).mono (by simp only [fuelTail]; omega)



/-! ## (a) The precomputation P, 3P, …, 15P and the call of DecomposeNAF -/

/-- `pPrecomputes` with the first entries filled in -/
def fill8 (encP : Γ → Val) (l : List Γ) : Val := .arr (l.map encP ++ List.replicate (8 - l.length) nilPointV)

theorem fill8_set (l : List Γ) (x : Γ) (hl : l.length < 8) :
    updPath (fill8 encP l) [l.length] (encP x) = some (fill8 encP (l ++ [x])) := by
  unfold fill8
  rw [CTIRRefineComb.SM.updPath_one _ _ _ (by simp; omega)]
  have e : 8 - l.length = (7 - l.length) + 1 := by omega
  have := CTIRRefineComb.SM.set_fill (l.map encP) (7 - l.length) nilPointV (encP x)
  rw [List.length_map] at this
  rw [e, this, List.map_append, List.length_append, List.length_singleton]
  have e2 : 8 - (l.length + 1) = 7 - l.length := by omega
  rw [e2]
  rfl

theorem fill8_last (Pt : Γ) (l : List Γ) (hl : 1 ≤ l.length) (hl2 : l.length ≤ 8) :
    getIdx (l.map encP ++ List.replicate (8 - l.length) nilPointV) ((l.length - 1 : Nat) : Int)
      = some (encP (l.getLastD Pt)) := by
  obtain ⟨x, hx⟩ : ∃ x, l[l.length - 1]? = some x := ⟨l[l.length - 1], List.getElem?_eq_getElem (by omega)⟩
  rw [getIdx_ofNat, List.getElem?_append_left (by simp; omega), List.getElem?_map, hx,
    List.getLastD_eq_getLast?, List.getLast?_eq_getElem?, hx]
  rfl

theorem pcond_val {env : Env} {i : Nat} (h8 : env 8 = .int (i : Int)) :
    evalV G env pCondE = some (.int (if i < 8 then 1 else 0)) := by
  by_cases h : i < 8
  · have : (i : Int) < 8 := by omega
    simp [pCondE, evalV_op2, evalV_var, h8, evalOp2, ofBool, h, this]
  · have : ¬ (i : Int) < 8 := by omega
    simp [pCondE, evalV_op2, evalV_var, h8, evalOp2, ofBool, h, this]

/-- the loop `for i := 1; i < 8; i++ { pPrecomputes[i] = NewSM2Point().Add(pPrecomputes[i-1], p2) }` -/
theorem p_loop (C : Callees P G X Ops encP first second Fnew Fdbl Fadd Fset Fneg Fxy) (Pt p2 : Γ) :
    ∀ (n : Nat) (l : List Γ) (env : Env), l.length + n = 8 → 1 ≤ l.length →
    env 7 = encP p2 → env 4 = fill8 encP l → env 8 = .int (l.length : Int) →
    ∃ env', EvIn P G X ((Fnew + Fadd + 8) * n + 1) env pLoopS env' .norm ∧
      env' 4 = .arr ((preIterM Ops Pt p2 n l).map encP) ∧ env' 0 = env 0 ∧ env' 2 = env 2 := by
  intro n
  induction n with
  | zero =>
    intro l env hn hl h7 h4 h8
    have hc := pcond_val (G := G) h8
    rw [if_neg (by omega)] at hc
    refine ⟨env, EvIn.loop_exit hc rfl, ?_, rfl, rfl⟩
    rw [h4, fill8, show 8 - l.length = 0 by omega]
    simp [preIterM]
  | succ n ih =>
    intro l env hn hl h7 h4 h8
    have hc := pcond_val (G := G) h8
    rw [if_pos (by omega)] at hc
    let v := encP (Ops.add (l.getLastD Pt) p2)
    let e1 := env.set 9 (encP Ops.infinity)
    let e2 := (e1.set 3 v).set 10 v
    let e3 := e2.set 4 (fill8 encP (preStepM Ops Pt p2 l))
    let e4 := e3.set 8 (.int ((l.length + 1 : Nat) : Int))
    have c15 : EvIn P G X (Fnew + 1) env (.call [9] 15 []) e1 .norm := C.new.call rfl rfl
    have a18 : evalVs G e1 [(.var 9), (.idx (.var 4) (.op2 (.sub .i64) (.var 8) (.lit 1))), (.var 7)]
        = some [encP Ops.infinity, encP (l.getLastD Pt), encP p2] := by
      have g9 : e1 9 = encP Ops.infinity := by simp [e1]
      have g4 : e1 4 = fill8 encP l := by simp [e1, Env.set, h4]
      have g8 : e1 8 = .int (l.length : Int) := by simp [e1, Env.set, h8]
      have g7 : e1 7 = encP p2 := by simp [e1, Env.set, h7]
      have es : norm .i64 ((l.length : Int) - 1) = ((l.length - 1 : Nat) : Int) := by
        rw [norm_i64_small (by omega) (by omega)]; omega
      simp only [evalVs_cons, evalVs_nil, evalV_idx, evalV_op2, evalV_var, evalV_lit, g9, g4, g8, g7, fill8, evalOp2,
        Option.map_some, es, fill8_last (encP := encP) Pt l hl (by omega)]
    have c18 : EvIn P G X (Fadd + 1) e1
        (.call [3, 10] 18 [(.var 9), (.idx (.var 4) (.op2 (.sub .i64) (.var 8) (.lit 1))), (.var 7)]) e2 .norm :=
      (C.add Ops.infinity (l.getLastD Pt) p2).call a18 rfl
    have s4 : EvIn P G X 1 e2 (.assign 4 [.e (.var 8)] (.var 10)) e3 .norm := by
      have g10 : evalV G e2 (.var 10) = some v := by simp [e2]
      have g8 : e2 8 = .int (l.length : Int) := by simp [e2, e1, Env.set, h8]
      have hn0 : ¬ ((l.length : Int) < 0) := by omega
      have hp : pathV G e2 [.e (.var 8)] = some [l.length] := by
        simp only [pathV_e, evalV_var, g8, pathV_nil, hn0, if_false, Int.toNat_natCast]
      have g4 : e2 4 = fill8 encP l := by simp [e2, e1, Env.set, h4]
      exact EvIn.assignPath g10 hp (by rw [g4]; exact fill8_set l _ (by omega))
    have s8 : evalV G e3 (.op2 (.add .i64) (.var 8) (.lit 1)) = some (.int ((l.length + 1 : Nat) : Int)) := by
      have g8 : e3 8 = .int (l.length : Int) := by simp [e3, e2, e1, Env.set, h8]
      simp only [evalV_op2, evalV_var, evalV_lit, g8, succ_i64_nat (by omega : l.length + 1 < 2 ^ 63), Option.map_some]
    have hpost : EvIn P G X 1 e3 pPostS e4 .norm := EvIn.assign s8
    have hbody : EvIn P G X (Fnew + Fadd + 5) env pBodyS e3 .norm :=
      (EvIn.seq c15 (EvIn.seq c18 s4)).mono (by omega)
    have hlen' : (preStepM Ops Pt p2 l).length = l.length + 1 := by simp [preStepM]
    obtain ⟨env', hl', r4, r0, r2⟩ := ih (preStepM Ops Pt p2 l) e4 (by omega) (by omega)
      (by simp [e4, e3, e2, e1, Env.set, h7]) (by simp [e4, e3, Env.set]) (by simp [e4, hlen'])
    refine ⟨env', ?_, r4, ?_, ?_⟩
    · exact (EvIn.loop_round hc rfl hbody (Or.inl rfl) hpost hl').mono (by rw [Nat.mul_add]; omega)
    · rw [r0]; simp [e4, e3, e2, e1, Env.set]
    · rw [r2]; simp [e4, e3, e2, e1, Env.set]



/-! ## (e) The function -/

/-- fuel that suffices for the body of ScalarMixedMult_Unsafe -/
def fuelMixed (Fnew Fdbl Fadd Fset Fneg Fxy : Nat) : Nat :=
  (Fnew + Fadd + 8) * 7 + CTIRRefineNaf.fuelNaf 257 + (fuelMRound Fnew Fdbl Fadd Fset Fneg Fxy + 2) * 257 +
    fuelTail Fadd Fxy + 2 * Fnew + Fdbl + 60

theorem mainS_eq : mainS = .seq (.assign 12 [] (.lit 1)) (.seq (.call [13] 15 []) (.seq (.assign 14 [] (.var 13))
    (.seq (.assign 15 [] (.lit 256)) (.seq mLoopS tailS)))) := rfl

/-- BODY LEVEL: the model returns `r` ⇒ the body of `fn_3` returns `[encP r, 0]`; the model panics ⇒ the body fails
    (it is stuck: every panic of the model is an index out of range) -/
theorem mixed_body (C : Callees P G X Ops encP first second Fnew Fdbl Fadd Fset Fneg Fxy)
    (hG2 : G 2 = .arr (first.map encT)) (hG3 : G 3 = encT second) (g : Bytes) (Pt : Γ) (scalar : Bytes) :
    match Model.Curve.scalarMixedMult Ops g Pt scalar first second with
    | .ok r => ∃ env', EvIn P G X (fuelMixed Fnew Fdbl Fadd Fset Fneg Fxy)
        (Env.ofList [bytesV g, encP Pt, bytesV scalar]) fn_3.body env' (.ret [encP r, .int 0])
    | .panic => Fails P G X (Env.ofList [bytesV g, encP Pt, bytesV scalar]) fn_3.body
    | .err => True := by
  let p2 := Ops.double Pt
  let env0 : Env := Env.ofList [bytesV g, encP Pt, bytesV scalar]
  let e1 := env0.set 4 (.arr (List.replicate 8 nilPointV))
  let e2 := e1.set 4 (fill8 encP [Pt])
  let e3 := e2.set 5 (encP Ops.infinity)
  let e4 := (e3.set 3 (encP p2)).set 6 (encP p2)
  let e5 := e4.set 7 (encP p2)
  let e6 := e5.set 8 (.int 1)
  have s1 : evalV G env0 (.mk (.lit 8) (.mk (.lit 3) (.mk (.lit 1) (.mk (.lit 4) (.lit 0)))))
      = some (.arr (List.replicate 8 nilPointV)) := rfl
  have s2 : EvIn P G X 1 e1 (.assign 4 [.c 0] (.var 1)) e2 .norm := by
    have g1 : evalV G e1 (.var 1) = some (encP Pt) := rfl
    have hp : pathV G e1 [.c 0] = some [0] := rfl
    have g4 : e1 4 = fill8 encP ([] : List Γ) := rfl
    exact EvIn.assignPath g1 hp (by rw [g4]; exact fill8_set [] Pt (by simp))
  have c15 : EvIn P G X (Fnew + 1) e2 (.call [5] 15 []) e3 .norm := C.new.call rfl rfl
  have a4 : evalVs G e3 [(.var 5), (.var 1)] = some [encP Ops.infinity, encP Pt] := rfl
  have c4 : EvIn P G X (Fdbl + 1) e3 (.call [3, 6] 4 [(.var 5), (.var 1)]) e4 .norm :=
    (C.dbl Ops.infinity Pt).call a4 rfl
  have s7 : evalV G e4 (.var 6) = some (encP p2) := rfl
  obtain ⟨e7, hpl, g4, g0, g2⟩ := p_loop C Pt p2 7 [Pt] e6 rfl (by simp) rfl rfl rfl
  have g4' : e7 4 = .arr ((preOfM Ops Pt).map encP) := g4
  have g0' : e7 0 = bytesV g := g0
  have g2' : e7 2 = bytesV scalar := g2
  -- the zero array `singed4Naf`, kept opaque (simp would unfold the 257 entries)
  obtain ⟨zeros, hz⟩ : ∃ z : List Int, z = List.replicate 257 0 := ⟨_, rfl⟩
  let e8 := e7.set 11 (CTIRRefineNaf.intsV zeros)
  have s11 : evalV G e7 (.mk (.lit 257) (.lit 0)) = some (CTIRRefineNaf.intsV zeros) := by
    rw [hz, CTIRRefineNaf.intsV, List.map_replicate]; rfl
  have anaf : evalVs G e8 [(.var 11), (.var 2), (.lit 257), (.lit 4)]
      = some [CTIRRefineNaf.intsV zeros, bytesV scalar, .int 257, .int 4] := by
    have k11 : e8 11 = CTIRRefineNaf.intsV zeros := by simp [e8]
    have k2 : e8 2 = bytesV scalar := by simp [e8, Env.set, g2']
    simp only [evalVs_cons, evalVs_nil, evalV_var, evalV_lit, k11, k2]
  have pre1 : ∀ {rest : Stmt},
      (∀ {env' : Env} {c : Ctl} {F : Nat}, EvIn P G X F e8 rest env' c →
        EvIn P G X (F + (Fnew + Fadd + 8) * 7 + Fnew + Fdbl + 20) env0
          (.seq (.assign 4 [] (.mk (.lit 8) (.mk (.lit 3) (.mk (.lit 1) (.mk (.lit 4) (.lit 0))))))
          (.seq (.assign 4 [.c 0] (.var 1)) (.seq (.call [5] 15 []) (.seq (.call [3, 6] 4 [(.var 5), (.var 1)])
          (.seq (.assign 7 [] (.var 6)) (.seq (.assign 8 [] (.lit 1)) (.seq pLoopS
          (.seq (.assign 11 [] (.mk (.lit 257) (.lit 0))) rest)))))))) env' c) ∧
      (Fails P G X e8 rest → Fails P G X env0
          (.seq (.assign 4 [] (.mk (.lit 8) (.mk (.lit 3) (.mk (.lit 1) (.mk (.lit 4) (.lit 0))))))
          (.seq (.assign 4 [.c 0] (.var 1)) (.seq (.call [5] 15 []) (.seq (.call [3, 6] 4 [(.var 5), (.var 1)])
          (.seq (.assign 7 [] (.var 6)) (.seq (.assign 8 [] (.lit 1)) (.seq pLoopS
          (.seq (.assign 11 [] (.mk (.lit 257) (.lit 0))) rest))))))))) := by
    intro rest
    constructor
    · intro env' c F hr
      exact (EvIn.seq (EvIn.assign s1) (EvIn.seq s2 (EvIn.seq c15 (EvIn.seq c4 (EvIn.seq (EvIn.assign s7)
        (EvIn.seq (EvIn.assign rfl) (EvIn.seq hpl (EvIn.seq (EvIn.assign s11) hr)))))))).mono (by omega)
    · intro hr
      exact Fails.seq_right (EvIn.assign s1) (Fails.seq_right s2 (Fails.seq_right c15 (Fails.seq_right c4
        (Fails.seq_right (EvIn.assign s7) (Fails.seq_right (EvIn.assign rfl) (Fails.seq_right hpl
        (Fails.seq_right (EvIn.assign s11) hr)))))))
  rw [scalarMixedMult_eq, fn_3_body, ← hz]
  cases hn : Model.Utils.decomposeNAF (some zeros) (some scalar) 257 4 with
  | err => trivial
  | panic =>
    have hst := CTIRRefineNaf.naf_body_stuck (P := P) (G := G) (X := X) C.getBit C.getBits zeros scalar
      257 4 (by decide) (by decide) (by decide) hn
    exact pre1.2 (Fails.seq_left (Fails.call anaf (Or.inr ⟨fn_0, C.naf, hst⟩)))
  | ok naf =>
    rw [Outcome.bind_ok]
    have hs : Small naf := decomposeNAF_small _ _ _ _ _ (by rw [hz]; exact small_replicate 257) hn
    obtain ⟨envn, hnb⟩ := CTIRRefineNaf.naf_body_ok (P := P) (G := G) (X := X) C.getBit C.getBits
      zeros scalar 257 4 (by decide) (by decide) naf hn
    let e9 := e8.set 11 (CTIRRefineNaf.intsV naf)
    let e10 := e9.set 12 (.int 1)
    let e11 := e10.set 13 (encP Ops.infinity)
    let e12 := e11.set 14 (encP Ops.infinity)
    let e13 := e12.set 15 (.int 256)
    have c0 : EvIn P G X (CTIRRefineNaf.fuelNaf 257 + 1) e8 nafCallS e9 .norm :=
      EvIn.call anaf C.naf rfl rfl hnb rfl
    have c15' : EvIn P G X (Fnew + 1) e10 (.call [13] 15 []) e11 .norm := C.new.call rfl rfl
    have s14 : evalV G e11 (.var 13) = some (encP Ops.infinity) := by simp [e11]
    have hI : MInv encP e13 g (preOfM Ops Pt) naf Ops.infinity true (((257 : Nat) : Int) - 1) := by
      refine ⟨?_, ?_, ?_, ?_, ?_, ?_⟩ <;>
        simp [e13, e12, e11, e10, e9, e8, Env.set, g0', g4']
    have hloop := m_loop C hG2 hs 257 e13 Ops.infinity true hI (Nat.le_refl _)
    rw [show 257 - 257 = 0 from rfl] at hloop
    have pre2 : ∀ {rest : Stmt},
        (∀ {env' : Env} {c : Ctl} {F : Nat}, EvIn P G X F e13 rest env' c →
          EvIn P G X (F + CTIRRefineNaf.fuelNaf 257 + Fnew + 12) e8
            (.seq nafCallS (.seq (.assign 12 [] (.lit 1)) (.seq (.call [13] 15 []) (.seq (.assign 14 [] (.var 13))
              (.seq (.assign 15 [] (.lit 256)) rest))))) env' c) ∧
        (Fails P G X e13 rest → Fails P G X e8
            (.seq nafCallS (.seq (.assign 12 [] (.lit 1)) (.seq (.call [13] 15 []) (.seq (.assign 14 [] (.var 13))
              (.seq (.assign 15 [] (.lit 256)) rest)))))) := by
      intro rest
      constructor
      · intro env' c F hr
        exact (EvIn.seq c0 (EvIn.seq (EvIn.assign rfl) (EvIn.seq c15' (EvIn.seq (EvIn.assign s14)
          (EvIn.seq (EvIn.assign rfl) hr))))).mono (by omega)
      · intro hr
        exact Fails.seq_right c0 (Fails.seq_right (EvIn.assign rfl) (Fails.seq_right c15'
          (Fails.seq_right (EvIn.assign s14) (Fails.seq_right (EvIn.assign rfl) hr))))
    rw [mainS_eq]
    cases hm : mFrom Ops g first (preOfM Ops Pt) naf 0 257 (Ops.infinity, true) with
    | err => trivial
    | panic =>
      rw [hm] at hloop
      exact pre1.2 (pre2.2 (Fails.seq_left hloop))
    | ok st =>
      rw [hm] at hloop
      obtain ⟨e14, hl, h14⟩ := hloop
      rw [Outcome.bind_ok]
      have ht := m_tail C hG3 h14
      cases htm : tailM Ops g second st.1 with
      | err => trivial
      | panic =>
        rw [htm] at ht
        exact pre1.2 (pre2.2 (Fails.seq_right hl ht))
      | ok r =>
        rw [htm] at ht
        obtain ⟨env', htl⟩ := ht
        exact ⟨env', (pre1.1 (pre2.1 (EvIn.seq hl htl))).mono (by simp only [fuelMixed]; omega)⟩



end IR

/-! ## The model never returns an error -/

section NeErr
variable {Γ : Type} (Ops : Model.Curve.GOps Γ)

theorem idx_ne_err {α : Type} (l : List α) (k : Nat) : Outcome.idx l k ≠ .err := by
  rw [idx_eq]
  cases l[k]? <;> simp

theorem cStep_ne_err (g : Bytes) (first : List Table) (i : Nat) (st : Γ × Bool) (j : Nat) :
    cStep Ops g first i st j ≠ .err := by
  unfold cStep
  cases hb : Model.Curve.extractHigherBits g (i + j * 14 + 4) 6 42 with
  | err => exact absurd hb (CTIRRefineComb.extractHigherBits_ne_err _ _ _ _)
  | panic => simp
  | ok bits =>
    rw [Outcome.bind_ok]
    split
    · cases hx : Outcome.idx ((first.getD j []).getD 0 []) (bits - 1) with
      | err => exact absurd hx (idx_ne_err _ _)
      | panic => simp
      | ok x =>
        rw [Outcome.bind_ok]
        cases hy : Outcome.idx ((first.getD j []).getD 1 []) (bits - 1) with
        | err => exact absurd hy (idx_ne_err _ _)
        | panic => simp
        | ok y => simp
    · simp

theorem cFrom_ne_err (g : Bytes) (first : List Table) (i : Nat) :
    ∀ (n j : Nat) (st : Γ × Bool), cFrom Ops g first i j n st ≠ .err := by
  intro n
  induction n with
  | zero => intro j st; simp [cFrom_zero]
  | succ n ih =>
    intro j st
    rw [cFrom_succ]
    cases hs : cStep Ops g first i st j with
    | err => exact absurd hs (cStep_ne_err Ops _ _ _ _ _)
    | panic => simp
    | ok st' => rw [Outcome.bind_ok]; exact ih _ _

theorem nStep_ne_err (pre : List Γ) (naf : List Int) (i : Nat) (st : Γ × Bool) : nStep Ops pre naf i st ≠ .err := by
  unfold nStep
  cases hd : Outcome.idx naf i with
  | err => exact absurd hd (idx_ne_err _ _)
  | panic => simp
  | ok d =>
    rw [Outcome.bind_ok]
    split
    · simp
    · split
      · cases hq : Outcome.idx pre ((d.toNat - 1) / 2) with
        | err => exact absurd hq (idx_ne_err _ _)
        | panic => simp
        | ok q => simp
      · cases hq : Outcome.idx pre (((-d).toNat - 1) / 2) with
        | err => exact absurd hq (idx_ne_err _ _)
        | panic => simp
        | ok q => simp

theorem mixedStep_ne_err (g : Bytes) (first : List Table) (pre : List Γ) (naf : List Int) (st : Γ × Bool) (i : Nat) :
    Model.Curve.mixedStep Ops g first pre naf st i ≠ .err := by
  obtain ⟨ret, skip⟩ := st
  rw [mixedStep_eq]
  cases hc : (if i < 14 then cFrom Ops g first i 0 3 (if skip then ret else Ops.double ret, skip)
      else .ok (if skip then ret else Ops.double ret, skip)) with
  | err =>
    split at hc
    · exact absurd hc (cFrom_ne_err Ops _ _ _ _ _ _)
    · cases hc
  | panic => simp
  | ok st' => rw [Outcome.bind_ok]; exact nStep_ne_err Ops _ _ _ _

theorem mFrom_ne_err (g : Bytes) (first : List Table) (pre : List Γ) (naf : List Int) :
    ∀ (n ii : Nat) (st : Γ × Bool), mFrom Ops g first pre naf ii n st ≠ .err := by
  intro n
  induction n with
  | zero => intro ii st; simp [mFrom_zero]
  | succ n ih =>
    intro ii st
    rw [mFrom_succ]
    cases hs : Model.Curve.mixedStep Ops g first pre naf st (256 - ii) with
    | err => exact absurd hs (mixedStep_ne_err Ops _ _ _ _ _ _)
    | panic => simp
    | ok st' => rw [Outcome.bind_ok]; exact ih _ _

theorem tailM_ne_err (g : Bytes) (second : Table) (ret : Γ) : tailM Ops g second ret ≠ .err := by
  unfold tailM
  cases hb : Model.Curve.extractLowerBits g 4 with
  | err => exact absurd hb (extractLowerBits_ne_err _ _)
  | panic => simp
  | ok bits =>
    rw [Outcome.bind_ok]
    split
    · cases hx : Outcome.idx (second.getD 0 []) (bits - 1) with
      | err => exact absurd hx (idx_ne_err _ _)
      | panic => simp
      | ok x =>
        rw [Outcome.bind_ok]
        cases hy : Outcome.idx (second.getD 1 []) (bits - 1) with
        | err => exact absurd hy (idx_ne_err _ _)
        | panic => simp
        | ok y => simp
    · simp

/-- the model of ScalarMixedMult_Unsafe never returns an error (the Go function always returns a nil error) -/
theorem scalarMixedMult_ne_err (g : Bytes) (Pt : Γ) (scalar : Bytes) (first : List Table) (second : Table) :
    Model.Curve.scalarMixedMult Ops g Pt scalar first second ≠ .err := by
  rw [scalarMixedMult_eq]
  cases hn : Model.Utils.decomposeNAF (some (List.replicate 257 0)) (some scalar) 257 4 with
  | err => exact absurd hn (CTIRRefineNaf.model_naf_ne_err _ _ _ _)
  | panic => simp
  | ok naf =>
    rw [Outcome.bind_ok]
    cases hm : mFrom Ops g first (preOfM Ops Pt) naf 0 257 (Ops.infinity, true) with
    | err => exact absurd hm (mFrom_ne_err Ops _ _ _ _ _ _ _)
    | panic => simp
    | ok st => rw [Outcome.bind_ok]; exact tailM_ne_err Ops _ _ _

end NeErr

/-! ## Run level, for the generated program -/

section Run
variable {Γ : Type} {G : Nat → Val} {X : Oracle} {Ops : Model.Curve.GOps Γ} {encP : Γ → Val}
  {Fnew Fdbl Fadd Fset Fneg Fxy : Nat}

theorem fn3_lookup : prog[f_internal_ScalarMixedMult_Unsafe]? = some fn_3 := rfl

/-- **internal.ScalarMixedMult_Unsafe: the run of the generated IR (second program, function 3) is the model,
    modulo the point operations.**

    For all byte strings `gScalar`, `scalar` (any lengths), every point `Pt` of an arbitrary carrier `Γ` (operations
    `Ops`, encoding `encP`), all tables `first` (`sm2Precomputed_6_3_14`, global 2) and `second`
    (`sm2Precomputed_6_3_14_Remainder`, global 3) of any shape:

    CALLEE HYPOTHESES (uninterpreted IR functions of `CTIRProgFn.prog`): NewSM2Point (15), Double (4), Add (18),
    Set (23), Negate (24) compute the model's operations on the encodings; NewFromXY (21) computes `Ops.fromXY` on the
    coordinates it is called with (`XYUsed`: entries of rows 0 / 1 of one of the tables).  DecomposeNAF, getBit,
    getBits (0, 1, 2: CTIRRefineNaf), extractBit, extractLowerBits (20, 27: syntactically the functions of the first
    program, CTIRRefineCurve) and extractHigherBits (19: re-proved here, it calls 20 instead of 2) are the
    generated functions: NOT hypotheses.

    DOMAIN HYPOTHESES: none.  (Short scalars, short or ragged tables: the model panics and the IR is stuck.)

    CONCLUSION: `.ok r` ⇒ every run with fuel ≥ `fuelMixed …` returns `[encP r, 0]` (the point and a nil error);
    `.panic` ⇒ the run ends in `panic` for all large fuels or is stuck with every fuel (`Fails` form of
    CTIRRefineComb; all panics of the model are index-out-of-range panics, for which the proof produces the second
    alternative); the model never returns an error. -/
theorem ir_scalarMixedMult_eq_model (gScalar : Bytes) (Pt : Γ) (scalar : Bytes) (first : List Table) (second : Table)
    (hG2 : G 2 = .arr (first.map encT)) (hG3 : G 3 = encT second)
    (hnew : Computes prog G X 15 Fnew [] [encP Ops.infinity])
    (hdbl : ∀ q a, Computes prog G X 4 Fdbl [encP q, encP a] [encP (Ops.double a), encP (Ops.double a)])
    (hadd : ∀ q a b, Computes prog G X 18 Fadd [encP q, encP a, encP b] [encP (Ops.add a b), encP (Ops.add a b)])
    (hset : ∀ q a, Computes prog G X 23 Fset [encP q, encP a] [encP a, encP a])
    (hneg : ∀ q a, Computes prog G X 24 Fneg [encP q, encP a] [encP (Ops.negate a), encP (Ops.negate a)])
    (hxy : ∀ x y, XYUsed first second x y →
      Computes prog G X 21 Fxy [limbsV x, limbsV y] [encP (Ops.fromXY x y)]) :
    match Model.Curve.scalarMixedMult Ops gScalar Pt scalar first second with
    | .ok r => ∀ f, fuelMixed Fnew Fdbl Fadd Fset Fneg Fxy ≤ f →
        runV prog G X f f_internal_ScalarMixedMult_Unsafe [bytesV gScalar, encP Pt, bytesV scalar] = .ret [encP r, .int 0]
    | .panic =>
        (∃ F, ∀ f, F ≤ f →
          runV prog G X f f_internal_ScalarMixedMult_Unsafe [bytesV gScalar, encP Pt, bytesV scalar] = .panic) ∨
        (∀ f, runV prog G X f f_internal_ScalarMixedMult_Unsafe [bytesV gScalar, encP Pt, bytesV scalar] = .stuck)
    | .err => False := by
  have C : Callees prog G X Ops encP first second Fnew Fdbl Fadd Fset Fneg Fxy :=
    ⟨rfl, rfl, rfl, rfl, rfl, rfl, hnew, hdbl, hadd, hset, hneg, hxy⟩
  have hb := mixed_body C hG2 hG3 gScalar Pt scalar
  cases h : Model.Curve.scalarMixedMult Ops gScalar Pt scalar first second with
  | err => exact absurd h (scalarMixedMult_ne_err Ops _ _ _ _ _)
  | ok r =>
    rw [h] at hb
    obtain ⟨env', hb⟩ := hb
    exact runV_of_EvIn fn3_lookup rfl rfl hb
  | panic =>
    rw [h] at hb
    exact runV_of_Fails fn3_lookup rfl rfl hb

end Run

/-! ## The same for the generated globals -/

section Globals
variable {Γ : Type} {X : Oracle} {Ops : Model.Curve.GOps Γ} {encP : Γ → Val} {Fnew Fdbl Fadd Fset Fneg Fxy : Nat}

theorem globals_first : globals 2 = .arr (SMGo.Gen.SM2Tables.sm2Precomputed_6_3_14.map encT) := rfl
theorem globals_second : globals 3 = encT SMGo.Gen.SM2Tables.sm2Precomputed_6_3_14_Remainder := rfl

/-- `ir_scalarMixedMult_eq_model` at the generated globals: the tables are the generated constants
    `SM2Tables.sm2Precomputed_6_3_14` and `…_Remainder` (no hypothesis on the globals is left) -/
theorem ir_scalarMixedMult_eq_model_globals (gScalar : Bytes) (Pt : Γ) (scalar : Bytes)
    (hnew : Computes prog globals X 15 Fnew [] [encP Ops.infinity])
    (hdbl : ∀ q a, Computes prog globals X 4 Fdbl [encP q, encP a] [encP (Ops.double a), encP (Ops.double a)])
    (hadd : ∀ q a b, Computes prog globals X 18 Fadd [encP q, encP a, encP b] [encP (Ops.add a b), encP (Ops.add a b)])
    (hset : ∀ q a, Computes prog globals X 23 Fset [encP q, encP a] [encP a, encP a])
    (hneg : ∀ q a, Computes prog globals X 24 Fneg [encP q, encP a] [encP (Ops.negate a), encP (Ops.negate a)])
    (hxy : ∀ x y, XYUsed SMGo.Gen.SM2Tables.sm2Precomputed_6_3_14 SMGo.Gen.SM2Tables.sm2Precomputed_6_3_14_Remainder x y →
      Computes prog globals X 21 Fxy [limbsV x, limbsV y] [encP (Ops.fromXY x y)]) :
    match Model.Curve.scalarMixedMult Ops gScalar Pt scalar SMGo.Gen.SM2Tables.sm2Precomputed_6_3_14
        SMGo.Gen.SM2Tables.sm2Precomputed_6_3_14_Remainder with
    | .ok r => ∀ f, fuelMixed Fnew Fdbl Fadd Fset Fneg Fxy ≤ f →
        runV prog globals X f f_internal_ScalarMixedMult_Unsafe [bytesV gScalar, encP Pt, bytesV scalar]
          = .ret [encP r, .int 0]
    | .panic =>
        (∃ F, ∀ f, F ≤ f →
          runV prog globals X f f_internal_ScalarMixedMult_Unsafe [bytesV gScalar, encP Pt, bytesV scalar] = .panic) ∨
        (∀ f, runV prog globals X f f_internal_ScalarMixedMult_Unsafe [bytesV gScalar, encP Pt, bytesV scalar] = .stuck)
    | .err => False :=
  ir_scalarMixedMult_eq_model gScalar Pt scalar _ _ globals_first globals_second hnew hdbl hadd hset hneg hxy

end Globals

end SMGo.Proofs.CTIRRefineMixed

#print axioms SMGo.Proofs.CTIRRefineMixed.ir_scalarMixedMult_eq_model
#print axioms SMGo.Proofs.CTIRRefineMixed.ir_scalarMixedMult_eq_model_globals
#print axioms SMGo.Proofs.CTIRRefineMixed.mixed_body
#print axioms SMGo.Proofs.CTIRRefineMixed.m_body
#print axioms SMGo.Proofs.CTIRRefineMixed.m_loop
#print axioms SMGo.Proofs.CTIRRefineMixed.p_loop
#print axioms SMGo.Proofs.CTIRRefineMixed.m_tail
#print axioms SMGo.Proofs.CTIRRefineMixed.high19_body_ok
#print axioms SMGo.Proofs.CTIRRefineMixed.high19_body_stuck
#print axioms SMGo.Proofs.CTIRRefineMixed.scalarMixedMult_ne_err
