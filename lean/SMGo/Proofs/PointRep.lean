/-
  C15: the representation relation between the projective points of the model (`Pt Nat`, reduced
  Montgomery residues) and the affine points of the specification, and the correctness of
  `Point.add`, `Point.double`, `Point.negate` for the concrete context `Model.SM2.pointCtx`.

  `Rep P Q`: the coordinates of P are reduced (< p) and their values (X : Y : Z) over F_p represent Q
  (`PointAdd.PRep`): Z = 0 ∧ X = 0 ∧ Y ≠ 0 ∧ Q = O, or Z ≠ 0 ∧ Q = (x, y) valid ∧ X = x·Z ∧ Y = y·Z.
-/
import SMGo.Proofs.PointSLPEval
import SMGo.Proofs.PointAdd

namespace SMGo.Proofs.PointRep
open SMGo SMGo.Model SMGo.Model.Field SMGo.Spec.SM2
open SMGo.Proofs.CurveGroup SMGo.Proofs.PointField SMGo.Proofs.PointSLPEval SMGo.Proofs.PointAdd
open SMGo.Model.Point (Pt)

/-- the projective point P of the model represents the affine point Q of the specification -/
def Rep (P : Pt Nat) (Q : Spec.SM2.Point) : Prop :=
  Canon P ∧ PRep (val P.x) (val P.y) (val P.z) Q

theorem Rep.canon {P : Pt Nat} {Q : Spec.SM2.Point} (h : Rep P Q) : Canon P := h.1

theorem Rep.valid {P : Pt Nat} {Q : Spec.SM2.Point} (h : Rep P Q) : Valid Q := h.2.valid

/-- P represents at most one point -/
theorem Rep.unique {P : Pt Nat} {Q Q' : Spec.SM2.Point} (h : Rep P Q) (h' : Rep P Q') : Q = Q' :=
  h.2.unique h'.2

/-- every represented point satisfies the projective curve equation Y²Z = X³ − 3XZ² + bZ³ -/
theorem Rep.curve {P : Pt Nat} {Q : Spec.SM2.Point} (h : Rep P Q) :
    val P.y ^ 2 * val P.z = val P.x ^ 3 - 3 * val P.x * val P.z ^ 2 + bK * val P.z ^ 3 := h.2.curve

/-- **Add**: all cases (generic, P = Q, P = −Q, O + Q, P + O, O + O, any representatives) -/
theorem add_rep {a c : Pt Nat} {P Q : Spec.SM2.Point} (ha : Rep a P) (hc : Rep c Q) :
    Rep (Point.add SM2.pointCtx a c) (Spec.SM2.add P Q) := by
  obtain ⟨e1, e2, e3⟩ := add_val a c
  refine ⟨add_canon a c ha.1 hc.1, ?_⟩
  rw [e1, e2, e3]
  exact add_prep ha.2 hc.2

/-- **Double** -/
theorem double_rep {a : Pt Nat} {P : Spec.SM2.Point} (ha : Rep a P) :
    Rep (Point.double SM2.pointCtx a) (Spec.SM2.add P P) := by
  obtain ⟨e1, e2, e3⟩ := double_val a
  refine ⟨double_canon a ha.1, ?_⟩
  rw [e1, e2, e3]
  exact dbl_prep ha.2

/-- `Double` and `Add` of a point to itself represent the same point -/
theorem double_rep_add {a : Pt Nat} {P : Spec.SM2.Point} (ha : Rep a P) :
    Rep (Point.add SM2.pointCtx a a) (Spec.SM2.add P P) := add_rep ha ha

/-- **Negate** -/
theorem negate_rep {a : Pt Nat} {P : Spec.SM2.Point} (ha : Rep a P) :
    Rep (Point.negate SM2.pointCtx a) (Spec.SM2.neg P) := by
  refine ⟨⟨ha.1.1, opp_lt _, ha.1.2.2⟩, ?_⟩
  show PRep (val a.x) (val (SM2.Fp.opp a.y)) (val a.z) _
  rw [val_opp]
  exact neg_prep ha.2

/-- the point at infinity of the code, (0 : 1 : 0) -/
theorem infinity_rep : Rep (Point.infinity SM2.pointCtx) none := by
  refine ⟨⟨zero_lt, setOne_lt, zero_lt⟩, ?_⟩
  show PRep (val SM2.Fp.zero) (val SM2.Fp.setOne) (val SM2.Fp.zero) none
  rw [val_zero, val_setOne]
  exact prep_inf one_ne_zero

/-- the canonical representative of a specification point: (x̃ : ỹ : 1̃) or (0 : 1̃ : 0) -/
def ofSpec : Spec.SM2.Point → Pt Nat
  | none => Point.infinity SM2.pointCtx
  | some (x, y) => { x := SM2.Fp.toMontgomery x, y := SM2.Fp.toMontgomery y, z := SM2.Fp.setOne }

theorem ofSpec_rep {Q : Spec.SM2.Point} (hQ : Valid Q) : Rep (ofSpec Q) Q := by
  rcases Q with _ | ⟨x, y⟩
  · exact infinity_rep
  · refine ⟨⟨toMontgomery_lt _, toMontgomery_lt _, setOne_lt⟩, ?_⟩
    show PRep (val (SM2.Fp.toMontgomery x)) (val (SM2.Fp.toMontgomery y)) (val SM2.Fp.setOne) _
    rw [val_toMontgomery, val_toMontgomery, val_setOne]
    exact prep_affine hQ

/-- the generator as `initPoints` builds it -/
theorem generator_rep : Rep SM2.generator Spec.SM2.G := ofSpec_rep G_valid

/-- the specification point a model point stands for (total function; meaningful on `Rep`) -/
noncomputable def specOf (P : Pt Nat) : Spec.SM2.Point :=
  if val P.z = 0 then none
  else some ((val P.x * (val P.z)⁻¹).val, (val P.y * (val P.z)⁻¹).val)

theorem Rep.specOf_eq {P : Pt Nat} {Q : Spec.SM2.Point} (h : Rep P Q) : specOf P = Q := by
  unfold specOf
  rcases h.2 with ⟨hz, _, _, rfl⟩ | ⟨hz, x, y, rfl, hv, hX, hY⟩
  · rw [if_pos hz]
  · rw [if_neg hz, hX, hY, mul_assoc, mul_inv_cancel₀ hz, mul_one, mul_assoc, mul_inv_cancel₀ hz,
      mul_one, ZMod.val_cast_of_lt hv.1, ZMod.val_cast_of_lt hv.2.1]

/-- the affine coordinates of a finite represented point, as field elements -/
theorem Rep.affine {P : Pt Nat} {x y : Nat} (h : Rep P (some (x, y))) :
    val P.z ≠ 0 ∧ x < p ∧ y < p ∧ val P.x * (val P.z)⁻¹ = (x : ZMod p) ∧
      val P.y * (val P.z)⁻¹ = (y : ZMod p) := by
  rcases h.2 with ⟨_, _, _, hn⟩ | ⟨hz, x', y', he, hv, hX, hY⟩
  · cases hn
  · injection he with he; injection he with e1 e2; subst e1; subst e2
    refine ⟨hz, hv.1, hv.2.1, ?_, ?_⟩
    · rw [hX, mul_assoc, mul_inv_cancel₀ hz, mul_one]
    · rw [hY, mul_assoc, mul_inv_cancel₀ hz, mul_one]

theorem Rep.inf_z {P : Pt Nat} (h : Rep P none) : val P.z = 0 := by
  rcases h.2 with ⟨hz, _⟩ | ⟨_, _, _, he, _⟩
  · exact hz
  · cases he

end SMGo.Proofs.PointRep
