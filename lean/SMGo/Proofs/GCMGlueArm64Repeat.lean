/-
  Repeating a call of the arm64 Go glue on the same buffers (inputs outside dst's spare capacity)
  gives the same answer: derived from the contracts of Seal and Open.  Core Lean only.
-/
import SMGo.Proofs.GCMGlueArm64Open
namespace SMGo.Proofs.GCMGlueA64
open SMGo SMGo.Model SMGo.Model.Mem SMGo.Model.GCMGlueA64 SMGo.Proofs.Slice
open SMGo.Spec.GCM
open SMGo.Proofs.GCMGlue (UnchangedOutside InRegion Nowhere fresh unchanged_refl unchanged_append
  unchanged_poke WF_of_unchanged Disjoint ExactOverlap Admissible disjoint_self)

/-- Seal twice on the same buffers (inputs outside dst's spare capacity) -/
theorem seal_repeat (g : GcmA64) (hk : KSpec g.k) (ht : g.tagSize ≤ 16)
    (h : Heap) (dst nonce pt aad : Slice)
    (wd : WF h dst) (wn : WF h nonce) (wp : WF h pt) (wa : WF h aad)
    (hn : nonce.len = g.nonceSize) (hp : pt.len ≤ maxPlain)
    (hdn : Disjoint dst nonce) (hdp : Disjoint dst pt) (hda : Disjoint dst aad)
    (h' : Heap) (ret : Slice) (h1 : sealA64 g h dst nonce pt aad = .ok (h', ret)) :
    ∃ h'' ret', sealA64 g h' dst nonce pt aad = .ok (h'', ret') ∧
      read h'' ret' = read h' ret ∧
      (Shares ret' dst ↔ Shares ret dst) ∧
      (pt.len + g.tagSize ≤ dst.cap - dst.len → ret' = ret) := by
  have hadm : Admissible dst nonce pt aad := ⟨hdn, hda, Or.inl hdp⟩
  obtain ⟨hA, retA, eA, _, rdA, shA, roomA, uA, keepA⟩ :=
    seal_core g hk ht h dst nonce pt aad wd wn wp wa hn hp hadm
  rw [h1] at eA
  injection eA with eA
  injection eA with eh er
  subst eh; subst er
  have wd' := WF_of_unchanged h h' _ uA dst wd
  have wn' := WF_of_unchanged h h' _ uA nonce wn
  have wp' := WF_of_unchanged h h' _ uA pt wp
  have wa' := WF_of_unchanged h h' _ uA aad wa
  obtain ⟨hB, retB, eB, _, rdB, shB, roomB, _, _⟩ :=
    seal_core g hk ht h' dst nonce pt aad wd' wn' wp' wa' hn hp hadm
  refine ⟨hB, retB, eB, ?_, ?_, ?_⟩
  · rw [rdB, rdA, keepA dst wd (disjoint_self dst), keepA nonce wn hdn, keepA pt wp hdp,
      keepA aad wa hda]
  · rw [shB, shA]
  · intro hr; rw [roomB hr, roomA hr]

/-- Open twice on the same buffers: the same plaintext behind dst, or `(nil, errOpen)` again -/
theorem open_repeat (g : GcmA64) (hk : KSpec g.k) (ht12 : gcmMinimumTagSize ≤ g.tagSize)
    (ht : g.tagSize ≤ 16)
    (h : Heap) (dst nonce ct aad : Slice)
    (wd : WF h dst) (wn : WF h nonce) (wc : WF h ct) (wa : WF h aad)
    (hn : nonce.len = g.nonceSize)
    (hdn : Disjoint dst nonce) (hdc : Disjoint dst ct) (hda : Disjoint dst aad)
    (h' : Heap) (r : Option Slice) (h1 : openA64 g h dst nonce ct aad = .ok (h', r)) :
    ∃ h'' r', openA64 g h' dst nonce ct aad = .ok (h'', r') ∧
      r'.map (read h'') = r.map (read h') := by
  have hadm : Admissible dst nonce ct aad := ⟨hdn, hda, Or.inl hdc⟩
  by_cases hlong : ct.len > maxPlain + g.tagSize
  · obtain ⟨hA, eA, uA⟩ := open_core_none g hk ht12 ht h dst nonce ct aad wn wc wa hn (Or.inl hlong)
    rw [h1] at eA
    injection eA with eA
    injection eA with eh er
    subst eh; subst er
    obtain ⟨hB, eB, _⟩ := open_core_none g hk ht12 ht h' dst nonce ct aad
      (WF_of_unchanged h h' _ uA _ wn) (WF_of_unchanged h h' _ uA _ wc) (WF_of_unchanged h h' _ uA _ wa)
      hn (Or.inl hlong)
    exact ⟨hB, none, eB, rfl⟩
  · cases hv : openGCM g.k.E g.tagSize (read h nonce) (read h ct) (read h aad) with
    | none =>
      obtain ⟨hA, eA, uA⟩ := open_core_none g hk ht12 ht h dst nonce ct aad wn wc wa hn (Or.inr hv)
      rw [h1] at eA
      injection eA with eA
      injection eA with eh er
      subst eh; subst er
      have wn' := WF_of_unchanged h h' _ uA _ wn
      have wc' := WF_of_unchanged h h' _ uA _ wc
      have wa' := WF_of_unchanged h h' _ uA _ wa
      have hv' : openGCM g.k.E g.tagSize (read h' nonce) (read h' ct) (read h' aad) = none := by
        rw [(keep uA wn).2, (keep uA wc).2, (keep uA wa).2, hv]
      obtain ⟨hB, eB, _⟩ := open_core_none g hk ht12 ht h' dst nonce ct aad wn' wc' wa' hn (Or.inr hv')
      exact ⟨hB, none, eB, rfl⟩
    | some p =>
      obtain ⟨hA, retA, eA, _, rdA, _, _, uA, keepA⟩ := open_core_some g hk ht12 ht h dst nonce ct aad
        wd wn wc wa hn (by omega) hadm p hv
      rw [h1] at eA
      injection eA with eA
      injection eA with eh er
      subst eh; subst er
      have wd' := WF_of_unchanged h h' _ uA _ wd
      have wn' := WF_of_unchanged h h' _ uA _ wn
      have wc' := WF_of_unchanged h h' _ uA _ wc
      have wa' := WF_of_unchanged h h' _ uA _ wa
      have hv' : openGCM g.k.E g.tagSize (read h' nonce) (read h' ct) (read h' aad) = some p := by
        rw [keepA nonce wn hdn, keepA ct wc hdc, keepA aad wa hda, hv]
      obtain ⟨hB, retB, eB, _, rdB, _⟩ := open_core_some g hk ht12 ht h' dst nonce ct aad
        wd' wn' wc' wa' hn (by omega) hadm p hv'
      refine ⟨hB, some retB, eB, ?_⟩
      simp only [Option.map]
      rw [rdB, rdA, keepA dst wd (disjoint_self dst)]

end SMGo.Proofs.GCMGlueA64
