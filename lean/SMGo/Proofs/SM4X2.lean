/-
  Lemmas for property C05, part 2: the two-block code `cryptoBlockX2` packs block 0 in the low and
  block 1 in the high 32 bits of four 64-bit variables; the two lanes evolve independently, each as
  `cryptoBlock` does.  Holds for any tables.
-/
import SMGo.Model.SM4Block
namespace SMGo.Proofs.SM4
open SMGo Model.SM4

/-- two 32-bit lanes in a 64-bit word: `uint64(hi)<<32 | uint64(lo)` -/
def join (hi lo : W32) : W64 := (hi.zeroExtend 64 <<< 32) ||| lo.zeroExtend 64

theorem lo32_join (hi lo : W32) : lo32 (join hi lo) = lo := by
  apply BitVec.eq_of_getLsbD_eq
  intro i hi'
  simp [lo32, join, hi']

theorem hi32_join (hi lo : W32) : hi32 (join hi lo) = hi := by
  apply BitVec.eq_of_getLsbD_eq
  intro i hi'
  simp [hi32, join, hi', show 32 + i < 64 by omega, show ¬ 32 + i < 32 by omega]

theorem lo32_xor (a b : W64) : lo32 (a ^^^ b) = lo32 a ^^^ lo32 b := by
  simp [lo32]

theorem hi32_xor (a b : W64) : hi32 (a ^^^ b) = hi32 a ^^^ hi32 b := by
  simp [hi32, BitVec.ushiftRight_xor_distrib]

theorem dup_eq_join (k : W32) : dup k = join k k := by
  simp only [dup, join]
  exact BitVec.or_comm _ _

theorem pack_eq_join (lo hi : W32) : (lo.zeroExtend 64 ||| (hi.zeroExtend 64 <<< 32)) = join hi lo :=
  BitVec.or_comm _ _

/-- `ssX2` applies `ss` to each lane -/
theorem ssX2_eq (tb : Tables) (t : W64) : ssX2 tb t = join (ss tb (hi32 t)) (ss tb (lo32 t)) := by
  have l24 : (t >>> 24).toNat % 256 = (lo32 t >>> 24).toNat % 256 := by
    simp only [lo32, BitVec.truncate_eq_setWidth, BitVec.toNat_ushiftRight, BitVec.toNat_setWidth,
      Nat.shiftRight_eq_div_pow]; omega
  have l16 : (t >>> 16).toNat % 256 = (lo32 t >>> 16).toNat % 256 := by
    simp only [lo32, BitVec.truncate_eq_setWidth, BitVec.toNat_ushiftRight, BitVec.toNat_setWidth,
      Nat.shiftRight_eq_div_pow]; omega
  have l8 : (t >>> 8).toNat % 256 = (lo32 t >>> 8).toNat % 256 := by
    simp only [lo32, BitVec.truncate_eq_setWidth, BitVec.toNat_ushiftRight, BitVec.toNat_setWidth,
      Nat.shiftRight_eq_div_pow]; omega
  have l0 : t.toNat % 256 = (lo32 t).toNat % 256 := by
    simp only [lo32, BitVec.truncate_eq_setWidth, BitVec.toNat_setWidth]; omega
  have h24 : (t >>> 56).toNat % 256 = (hi32 t >>> 24).toNat % 256 := by
    simp only [hi32, BitVec.truncate_eq_setWidth, BitVec.toNat_ushiftRight, BitVec.toNat_setWidth,
      Nat.shiftRight_eq_div_pow]; omega
  have h16 : (t >>> 48).toNat % 256 = (hi32 t >>> 16).toNat % 256 := by
    simp only [hi32, BitVec.truncate_eq_setWidth, BitVec.toNat_ushiftRight, BitVec.toNat_setWidth,
      Nat.shiftRight_eq_div_pow]; omega
  have h8 : (t >>> 40).toNat % 256 = (hi32 t >>> 8).toNat % 256 := by
    simp only [hi32, BitVec.truncate_eq_setWidth, BitVec.toNat_ushiftRight, BitVec.toNat_setWidth,
      Nat.shiftRight_eq_div_pow]; omega
  have h0 : (t >>> 32).toNat % 256 = (hi32 t).toNat % 256 := by
    simp only [hi32, BitVec.truncate_eq_setWidth, BitVec.toNat_ushiftRight, BitVec.toNat_setWidth,
      Nat.shiftRight_eq_div_pow]; omega
  simp only [ssX2, ss, join, l24, l16, l8, l0, h24, h16, h8, h0]

/-- projection of the four packed variables to one lane -/
def proj4 (p : W64 → W32) (z : W64 × W64 × W64 × W64) : W32 × W32 × W32 × W32 :=
  (p z.1, p z.2.1, p z.2.2.1, p z.2.2.2)

theorem group4X2_proj (tb : Tables) (p : W64 → W32) (hx : ∀ a b, p (a ^^^ b) = p a ^^^ p b)
    (hd : ∀ k, p (dup k) = k) (hs : ∀ t, p (ssX2 tb t) = ss tb (p t))
    (rk : List W32) (z : W64 × W64 × W64 × W64) (i : Nat) :
    proj4 p (group4X2 tb rk z i) = group4 tb rk (proj4 p z) i := by
  obtain ⟨z0, z1, z2, z3⟩ := z
  simp only [group4X2, group4, proj4, hx, hd, hs]

theorem foldl_group4X2_proj (tb : Tables) (p : W64 → W32) (hx : ∀ a b, p (a ^^^ b) = p a ^^^ p b)
    (hd : ∀ k, p (dup k) = k) (hs : ∀ t, p (ssX2 tb t) = ss tb (p t))
    (rk : List W32) (l : List Nat) (z : W64 × W64 × W64 × W64) :
    proj4 p (l.foldl (group4X2 tb rk) z) = l.foldl (group4 tb rk) (proj4 p z) := by
  induction l generalizing z with
  | nil => rfl
  | cons i l ih => simp only [List.foldl_cons, ih, group4X2_proj tb p hx hd hs]

theorem foldl_group4X2_lo (tb : Tables) (rk : List W32) (l : List Nat) (z : W64 × W64 × W64 × W64) :
    proj4 lo32 (l.foldl (group4X2 tb rk) z) = l.foldl (group4 tb rk) (proj4 lo32 z) :=
  foldl_group4X2_proj tb lo32 lo32_xor (fun k => by rw [dup_eq_join, lo32_join])
    (fun t => by rw [ssX2_eq, lo32_join]) rk l z

theorem foldl_group4X2_hi (tb : Tables) (rk : List W32) (l : List Nat) (z : W64 × W64 × W64 × W64) :
    proj4 hi32 (l.foldl (group4X2 tb rk) z) = l.foldl (group4 tb rk) (proj4 hi32 z) :=
  foldl_group4X2_proj tb hi32 hi32_xor (fun k => by rw [dup_eq_join, hi32_join])
    (fun t => by rw [ssX2_eq, hi32_join]) rk l z

/-! ### the words of the two halves of a 32-byte input -/

theorem wordsBE_cons4 (a b c d : UInt8) (r : Bytes) : wordsBE (a :: b :: c :: d :: r) = be32 a b c d :: wordsBE r := by
  rw [wordsBE]

theorem wordsBE_append (k : Nat) (a b : Bytes) (ha : a.length = 4 * k) : wordsBE (a ++ b) = wordsBE a ++ wordsBE b := by
  induction k generalizing a with
  | zero =>
    have : a = [] := List.length_eq_zero_iff.mp (by omega)
    subst this
    simp [wordsBE]
  | succ k ih =>
    rcases a with _ | ⟨a0, _ | ⟨a1, _ | ⟨a2, _ | ⟨a3, a⟩⟩⟩⟩ <;> simp only [List.length_cons, List.length_nil] at ha <;>
      try omega
    simp only [List.cons_append, wordsBE_cons4, ih a (by omega)]

theorem wordsBE_length (k : Nat) (a : Bytes) (ha : a.length = 4 * k) : (wordsBE a).length = k := by
  induction k generalizing a with
  | zero =>
    have : a = [] := List.length_eq_zero_iff.mp (by omega)
    subst this
    simp [wordsBE]
  | succ k ih =>
    rcases a with _ | ⟨a0, _ | ⟨a1, _ | ⟨a2, _ | ⟨a3, a⟩⟩⟩⟩ <;> simp only [List.length_cons, List.length_nil] at ha <;>
      try omega
    simp only [wordsBE_cons4, List.length_cons, ih a (by omega)]

theorem wordsBE_take16 (x : Bytes) (hx : x.length = 32) (i : Nat) (hi : i < 4) :
    (wordsBE x).getD i 0 = (wordsBE (x.take 16)).getD i 0 := by
  have hl : (x.take 16).length = 4 * 4 := by simp [hx]
  conv => lhs; rw [← List.take_append_drop 16 x, wordsBE_append 4 _ _ hl]
  have := wordsBE_length 4 _ hl
  simp only [List.getD_eq_getElem?_getD]
  rw [List.getElem?_append_left (by omega)]

theorem wordsBE_drop16 (x : Bytes) (hx : x.length = 32) (i : Nat) :
    (wordsBE x).getD (i + 4) 0 = (wordsBE (x.drop 16)).getD i 0 := by
  have hl : (x.take 16).length = 4 * 4 := by simp [hx]
  conv => lhs; rw [← List.take_append_drop 16 x, wordsBE_append 4 _ _ hl]
  have := wordsBE_length 4 _ hl
  simp only [List.getD_eq_getElem?_getD]
  rw [List.getElem?_append_right (by omega)]
  simp [this]

/-- `cryptoBlockX2` on 32 bytes is `cryptoBlock` on each half -/
theorem cryptoBlockX2_split (tb : Tables) (rk : List W32) (x : Bytes) (hx : x.length = 32) :
    cryptoBlockX2 tb rk x = cryptoBlock tb rk (x.take 16) ++ cryptoBlock tb rk (x.drop 16) := by
  simp only [cryptoBlockX2, cryptoBlock, pack_eq_join]
  have hlo := foldl_group4X2_lo tb rk (List.range 8)
    (join ((wordsBE x).getD (0 + 4) 0) ((wordsBE x).getD 0 0), join ((wordsBE x).getD (1 + 4) 0) ((wordsBE x).getD 1 0),
     join ((wordsBE x).getD (2 + 4) 0) ((wordsBE x).getD 2 0), join ((wordsBE x).getD (3 + 4) 0) ((wordsBE x).getD 3 0))
  have hhi := foldl_group4X2_hi tb rk (List.range 8)
    (join ((wordsBE x).getD (0 + 4) 0) ((wordsBE x).getD 0 0), join ((wordsBE x).getD (1 + 4) 0) ((wordsBE x).getD 1 0),
     join ((wordsBE x).getD (2 + 4) 0) ((wordsBE x).getD 2 0), join ((wordsBE x).getD (3 + 4) 0) ((wordsBE x).getD 3 0))
  simp only [proj4, lo32_join, hi32_join] at hlo hhi
  rw [← wordsBE_take16 x hx 0 (by decide), ← wordsBE_take16 x hx 1 (by decide), ← wordsBE_take16 x hx 2 (by decide),
    ← wordsBE_take16 x hx 3 (by decide), ← wordsBE_drop16 x hx 0, ← wordsBE_drop16 x hx 1, ← wordsBE_drop16 x hx 2,
    ← wordsBE_drop16 x hx 3, ← hlo, ← hhi]
  simp only [List.append_assoc]

end SMGo.Proofs.SM4
