import SMGo.Proofs.ISAValLadTail
set_option linter.unusedSimpArgs false
namespace SMGo.Proofs.ISAVal
open SMGo.Model.ISAVal SMGo.Model.GCM SMGo.Proofs.GCM SMGo.Proofs.ISATouch
open SMGo.Model.ISA (Reg Opd Instr)

theorem kern_len (vl : Nat) : (kernCode vl).length = 541 := by
  simp only [kernCode, List.length_append, len_r32, transposeCode, rev4Code, List.length_cons, List.length_nil]

theorem kern_nc (vl : Nat) : (kernCode vl).all (fun i => !i.mn.isControl) = true := by
  simp only [kernCode, transposeCode, rev4Code, rounds32Code, rnCode, srCode, List.all_append, List.all_cons, List.all_nil, ins, Mn.isControl,
    Bool.not_false, Bool.and_self]

/-- key stream held by state register `9 − r` of a class with `n` lanes per register -/
def ksReg (rk jb : List Nat) (c n r : Nat) : List Nat := (List.range n).flatMap (fun l => encB rk (ctrBlk jb (c + n * r + l + 1)))

theorem ksReg_length (rk jb : List Nat) (c n r : Nat) : (ksReg rk jb c n r).length = 16 * n := by
  unfold ksReg
  induction n generalizing r with
  | zero => rfl
  | succ m ih =>
    have : ∀ (g : Nat → List Nat) (k : Nat), (∀ i, (g i).length = 16) → ((List.range k).flatMap g).length = 16 * k := by
      intro g k hg
      induction k with
      | zero => rfl
      | succ j ihj => rw [List.range_succ, List.flatMap_append, List.length_append, ihj]; simp [hg]; omega
    exact this _ _ (fun i => encB_length _ _)

theorem ksReg_bytes (rk jb : List Nat) (c n r : Nat) : ∀ x ∈ ksReg rk jb c n r, x < 2 ^ 8 := by
  intro x hx
  unfold ksReg at hx
  rw [List.mem_flatMap] at hx
  obtain ⟨i, _, hi⟩ := hx
  exact encB_bytes _ _ x hi

theorem ksN_regs (rk jb : List Nat) (c n : Nat) :
    ksN rk jb c (n + (n + (n + n))) = ksReg rk jb c n 0 ++ (ksReg rk jb c n 1 ++ (ksReg rk jb c n 2 ++ ksReg rk jb c n 3)) := by
  unfold ksN ksReg
  rw [flatMap_range_add, flatMap_range_add, flatMap_range_add]
  congr 1
  congr 1
  · apply flatMap_range_congr; intro i _; congr 2; omega
  congr 1
  · apply flatMap_range_congr; intro i _; congr 2; omega
  · apply flatMap_range_congr; intro i _; congr 2; omega

end SMGo.Proofs.ISAVal
namespace SMGo.Proofs.ISAVal
open SMGo.Model.ISAVal SMGo.Model.GCM SMGo.Proofs.GCM SMGo.Proofs.ISATouch
open SMGo.Model.ISA (Reg Opd Instr)

def x16ACode : List DInstr := fill16Code ++ (kernCode 64 ++ xs16Code)
def aKeepG : List Nat := [0, 6, 9, 10, 13]
def aKeepV : List Nat := [10, 11, 12, 15, 16, 17, 18, 19, 21, 22, 23, 24, 25, 26, 29, 30, 31]

theorem fill16_writes : writesNone fill16Code (List.range 16) aKeepV (List.range 8) = true := by decide +kernel
theorem xs16_writesM : writesNoneM xs16Code (List.range 16) (14 :: aKeepV) (List.range 8) = true := by decide +kernel

/-- output bytes of state register `9 − r` of a class with `n` lanes per register -/
def oReg (rk jb src : List Nat) (c n r : Nat) : List Nat :=
  xorN ((src.drop (16 * c + 16 * n * r)).take (16 * n)) (ksReg rk jb c n r)

set_option maxHeartbeats 1000000 in
/-- `loopX16` from `fillCounterX16` to the stores: 256 bytes of counter-mode output -/
theorem x16A_spec (s : State) (pc : PCtx s) (rk jb src : List Nat) (hrk : rk.length = 32) (hrkb : ∀ x ∈ rk, x < 2 ^ 32)
    (hjb : jb.length = 16) (hjbb : ∀ x ∈ jb, x < 2 ^ 8) (hsb : ∀ x ∈ src, x < 2 ^ 8)
    (Mf : List Nat → List Region) (dbase dlen sp : Nat) (bf : Buf Mf dbase dlen)
    (hrd : ∀ b i, b.length = dlen → i < 32 → readMem (Mf b) (73014444032 + 4 * i) 4 = .ok (lanes 8 4 (rk.getD i 0)))
    (b0 : List Nat) (hb0 : b0.length = dlen) (hm : s.mem = Mf b0) (c : Nat) (hsrc : SrcFrom (Mf b0) sp src (16 * c))
    (hctr : ∀ l, l < 4 → quadAt (vreg s 14) l = ctrW (Wblk jb 0) c) (h15 : greg s 15 = 73014444032)
    (h10 : greg s 10 = sp + 16 * c) (h13 : greg s 13 = dbase + 16 * c) (hso : 16 * c + 256 ≤ src.length) (hdo : 16 * c + 256 ≤ dlen)
    (hsp : sp + src.length < 2 ^ 63) (hdb : dbase + dlen < 2 ^ 63) :
    ∃ s', execList x16ACode s = .ok s' ∧
      s'.mem = Mf (spliceAt b0 (16 * c) (oReg rk jb src c 4 0 ++ (oReg rk jb src c 4 1 ++ (oReg rk jb src c 4 2 ++ oReg rk jb src c 4 3)))) ∧
      (∀ r, r < 4 → vreg s' (9 - r) = unlanes 8 (oReg rk jb src c 4 r)) ∧
      (∀ l, l < 4 → quadAt (vreg s' 14) l = ctrW (Wblk jb 0) (c + 16)) ∧ greg s' 15 = 73014444032 ∧
      KeepsM aKeepG aKeepV (List.range 8) s s' := by
  obtain ⟨s1, hr1, q, q14⟩ := fill16_spec s pc.lenV pc.v16 pc.v17 (Wblk jb 0) (Wblk_qlt jb 0) c hctr
  have k1 := keeps_of_exec _ fill16_writes hr1
  obtain ⟨s2, hr2, out2, g15, k2⟩ := kern_spec 64 (by decide) s1 (k1.lenG.trans pc.lenG) (k1.lenV.trans pc.lenV)
    ((k1.v 10 (by decide)).trans pc.v10) ((k1.v 11 (by decide)).trans pc.v11) ((k1.v 12 (by decide)).trans pc.v12)
    (fun r l => ctrW (Wblk jb 0) (c + 4 * r + l + 1)) q rk hrk hrkb 73014444032 (by rw [k1.g 15 (by decide)]; exact h15) (by decide)
    (fun i hi => by rw [k1.mem, hm]; exact hrd b0 i hb0 hi)
  have hks : ∀ r, r < 4 → vreg s2 (9 - r) < 2 ^ (8 * 64) ∧ lanes 8 64 (vreg s2 (9 - r)) = ksReg rk jb c 4 r ∧ (ksReg rk jb c 4 r).length = 64 ∧
      ∀ x ∈ ksReg rk jb c 4 r, x < 2 ^ 8 := by
    intro r hr
    refine ⟨(out2 r hr).1, ?_, ksReg_length rk jb c 4 r, ksReg_bytes rk jb c 4 r⟩
    rw [(out2 r hr).2]
    unfold ksReg
    apply flatMap_range_congr
    intro l _
    exact encQ_ctr rk jb hrkb hjb hjbb _
  have hm2 : s2.mem = Mf b0 := by rw [k2.mem, k1.mem]; exact hm
  obtain ⟨s3, hr3, m3, regs3⟩ := xs16_spec s2 (k2.lenG.trans (k1.lenG.trans pc.lenG)) (k2.lenV.trans (k1.lenV.trans pc.lenV)) Mf dbase dlen bf src sp
    hsb b0 hb0 hm2 (16 * c) (16 * c) hsrc (by rw [k2.g 10 (by decide), k1.g 10 (by decide)]; exact h10)
    (by rw [k2.g 13 (by decide), k1.g 13 (by decide)]; exact h13) hso hdo hsp hdb (ksReg rk jb c 4) hks
  have k3 := keepsM_of_exec _ xs16_writesM hr3
  refine ⟨s3, execList_append_ok hr1 (execList_append_ok hr2 hr3), m3, ?_, ?_, ?_, ?_⟩
  · intro r hr
    have hr' : r = 0 ∨ r = 1 ∨ r = 2 ∨ r = 3 := by omega
    rcases hr' with rfl | rfl | rfl | rfl <;> exact regs3 _ (by decide)
  · intro l hl
    rw [k3.v 14 (by decide), k2.v 14 (by decide)]; exact q14 l hl
  · rw [k3.g 15 (by decide)]; exact g15
  · exact ((k1.toM.mono (by decide) (fun _ h => h) (fun _ h => h)).trans (k2.toM.mono (by decide) (by decide) (fun _ h => h))).trans
      (k3.mono (by decide) (by decide) (fun _ h => h))

/-- the 256 output bytes of the class -/
theorem x16_out (rk jb src : List Nat) (c : Nat) (hso : 16 * c + 256 ≤ src.length) :
    oReg rk jb src c 4 0 ++ (oReg rk jb src c 4 1 ++ (oReg rk jb src c 4 2 ++ oReg rk jb src c 4 3))
      = xorN ((src.drop (16 * c)).take 256) (ksN rk jb c 16) := by
  have hk := ksN_regs rk jb c 4
  have hc := chunks4 src (16 * c) hso
  have hl : ∀ a, a + 64 ≤ 256 → ((src.drop (16 * c + a)).take 64).length = (ksReg rk jb c 4 0).length := by
    intro a ha; rw [ksReg_length, List.length_take, List.length_drop]; omega
  show _ = xorN _ (ksN rk jb c (4 + (4 + (4 + 4))))
  rw [hk, hc, xorN_append _ _ _ _ (by rw [hl 0 (by omega)]),
    xorN_append _ _ _ _ (by rw [hl 64 (by omega), ksReg_length, ksReg_length]),
    xorN_append _ _ _ _ (by rw [hl 128 (by omega), ksReg_length, ksReg_length])]
  rfl

end SMGo.Proofs.ISAVal
