import SMGo.Proofs.ISAValOpenCmp0
set_option linter.unusedSimpArgs false
namespace SMGo.Proofs.ISAVal
open SMGo.Model.ISAVal SMGo.Model.GCM SMGo.Proofs.GCM SMGo.Proofs.ISATouch
open SMGo.Model.ISA (Reg Opd Instr)

/-- the OR of all bytes -/
def orBytes (l : List Nat) : Nat := l.foldl (· ||| ·) 0

theorem foldl_or_init (l : List Nat) (a : Nat) : l.foldl (· ||| ·) a = a ||| l.foldl (· ||| ·) 0 := by
  induction l generalizing a with
  | nil => simp
  | cons x xs ih => rw [List.foldl_cons, List.foldl_cons, ih (a ||| x), ih (0 ||| x), Nat.zero_or, Nat.or_assoc]

theorem orBytes_cons (x : Nat) (l : List Nat) : orBytes (x :: l) = x ||| orBytes l := by
  unfold orBytes; rw [List.foldl_cons, foldl_or_init, Nat.zero_or]

theorem orBytes_append (a b : List Nat) : orBytes (a ++ b) = orBytes a ||| orBytes b := by
  induction a with
  | nil => simp [orBytes]
  | cons x xs ih => rw [List.cons_append, orBytes_cons, orBytes_cons, ih, Nat.or_assoc]

theorem orBytes_lt (l : List Nat) (h : ∀ x ∈ l, x < 2 ^ 8) : orBytes l < 2 ^ 8 := by
  induction l with
  | nil => decide
  | cons x xs ih =>
    rw [orBytes_cons]
    exact Nat.or_lt_two_pow (h x (List.mem_cons_self ..)) (ih (fun y hy => h y (List.mem_cons_of_mem _ hy)))

theorem orBytes_eq_zero (l : List Nat) : orBytes l = 0 ↔ ∀ x ∈ l, x = 0 := by
  induction l with
  | nil => simp [orBytes]
  | cons x xs ih =>
    rw [orBytes_cons, Nat.or_eq_zero_iff, ih]
    simp

/-- OR of the eight bytes of a 64-bit number -/
def foldOr8 (g : Nat) : Nat := orBytes (lanes 8 8 g)

theorem lane_or (w i a b : Nat) : lane w i (a ||| b) = lane w i a ||| lane w i b := by
  unfold lane
  rw [Nat.shiftRight_or_distrib]
  apply Nat.eq_of_testBit_eq
  intro j
  simp only [Nat.testBit_mod_two_pow, Nat.testBit_or]
  by_cases hj : j < w <;> simp [hj]

theorem orBytes_zipOr (a b : List Nat) (h : a.length = b.length) :
    orBytes (List.zipWith (· ||| ·) a b) = orBytes a ||| orBytes b := by
  induction a generalizing b with
  | nil =>
    cases b with
    | nil => simp [orBytes]
    | cons y ys => simp at h
  | cons x xs ih =>
    cases b with
    | nil => simp at h
    | cons y ys =>
      simp only [List.zipWith_cons_cons, orBytes_cons]
      rw [ih ys (by simpa using h)]
      apply Nat.eq_of_testBit_eq; intro j; simp only [Nat.testBit_or]; cases x.testBit j <;> cases y.testBit j <;> simp

theorem foldOr8_or (a b : Nat) : foldOr8 (a ||| b) = foldOr8 a ||| foldOr8 b := by
  unfold foldOr8
  have : lanes 8 8 (a ||| b) = List.zipWith (· ||| ·) (lanes 8 8 a) (lanes 8 8 b) := by
    apply List.ext_getElem
    · simp [lanes_length]
    · intro i h1 h2
      simp only [List.getElem_zipWith, getElem_lanes, lane_or]
  rw [this, orBytes_zipOr _ _ (by simp [lanes_length])]

theorem foldOr8_unlanes (l : List Nat) (hl : l.length = 8) (hb : ∀ x ∈ l, x < 2 ^ 8) : foldOr8 (unlanes 8 l) = orBytes l := by
  unfold foldOr8; rw [lanes_unlanes 8 8 l hb hl]

theorem foldOr8_zero : foldOr8 0 = 0 := by decide +kernel

end SMGo.Proofs.ISAVal
