/-
  GHASH of the model against GHASH of SP 800-38D.  Everything here is stated under the hypothesis
  `GmulOK` = statement (i): "the reflected Karatsuba + two-step-reduction pipeline `gmulR` is
  `Spec.GCM.mulGF` on bit-reflected operands" (proved in Proofs/GCMClmul.lean), so that the structural
  part is independent of how (i) is established:
    * the algebra of `gmulR` inherited from `mulGF` (bound, xor-linearity, associativity),
    * (iii) the 4-way aggregated step equals four one-block steps,
    * `ghBy4`, `ghBlocks`, `ghUpdate`, `hashClass`, and the hashing inside `cryptoBlocksAsm`
      all compute the specification's GHASH fold over the zero-padded data.
-/
import SMGo.Proofs.GCMField
import SMGo.Proofs.GCMBytes
import SMGo.Proofs.GCMCtr
namespace SMGo.Proofs.GCM
open SMGo
open SMGo.Spec.GCM
open SMGo.Model.GCM

/-- statement (i): the code's multiplier is Algorithm 1 on bit-reflected operands -/
def GmulOK : Prop :=
  ∀ h x : Nat, h < 2 ^ 128 → x < 2 ^ 128 → gmulR h x = rev128 (mulGF (rev128 x) (rev128 h))

/-! ### the specification's GHASH as a fold that can be resumed -/

/-- GHASH continued from the value `Y` -/
def ghFold (H Y : Nat) (x : Bytes) : Nat :=
  (blocksOf x).foldl (fun y blk => mulGF (y ^^^ blockToNat blk) H) Y

theorem ghash_eq_ghFold (H : Nat) (x : Bytes) : ghash H x = ghFold H 0 x := rfl

theorem blocksOf_nil : blocksOf [] = [] := rfl

theorem blocks16_cons_append (fuel : Nat) (a b : Bytes) (ha : a.length = 16) :
    blocks16 (fuel + 1) (a ++ b) = a :: blocks16 fuel b := by
  rw [blocks16]
  have hne : (a ++ b).isEmpty = false := by
    cases a with
    | nil => simp at ha
    | cons x a => rfl
  rw [hne]
  simp only [Bool.false_eq_true, if_false]
  rw [← ha, List.take_left, List.drop_left]

theorem blocksOf_cons_append (a b : Bytes) (ha : a.length = 16) : blocksOf (a ++ b) = a :: blocksOf b := by
  unfold blocksOf
  have : (a ++ b).length / 16 + 1 = (b.length / 16 + 1) + 1 := by
    rw [List.length_append, ha]; omega
  rw [this, blocks16_cons_append _ a b ha]

theorem ghFold_nil (H Y : Nat) : ghFold H Y [] = Y := rfl

theorem ghFold_cons_append (H Y : Nat) (a b : Bytes) (ha : a.length = 16) :
    ghFold H Y (a ++ b) = ghFold H (mulGF (Y ^^^ blockToNat a) H) b := by
  unfold ghFold
  rw [blocksOf_cons_append a b ha, List.foldl_cons]

theorem ghFold_block (H Y : Nat) (a : Bytes) (ha : a.length = 16) :
    ghFold H Y a = mulGF (Y ^^^ blockToNat a) H := by
  have := ghFold_cons_append H Y a [] ha
  rw [List.append_nil] at this
  rw [this, ghFold_nil]

/-- GHASH over a concatenation whose first part is made of whole blocks -/
theorem ghFold_append (H : Nat) : ∀ (n : Nat) (Y : Nat) (a b : Bytes), a.length = 16 * n →
    ghFold H Y (a ++ b) = ghFold H (ghFold H Y a) b := by
  intro n
  induction n with
  | zero =>
    intro Y a b ha
    have : a = [] := List.length_eq_zero_iff.mp (by omega)
    rw [this, List.nil_append, ghFold_nil]
  | succ n ih =>
    intro Y a b ha
    have h16 : (a.take 16).length = 16 := by rw [List.length_take]; omega
    have hd : (a.drop 16).length = 16 * n := by rw [List.length_drop]; omega
    rw [← List.take_append_drop 16 a, List.append_assoc, ghFold_cons_append _ _ _ _ h16,
      ih _ _ _ hd, ghFold_cons_append _ _ _ _ h16]

/-! ### the algebra of `gmulR` inherited from `mulGF` -/

theorem rev128_xor (a b : Nat) : rev128 (a ^^^ b) = rev128 a ^^^ rev128 b := revBits_xor 128 a b
theorem rev128_rev128 {x : Nat} (h : x < 2 ^ 128) : rev128 (rev128 x) = x := revBits_revBits h
theorem rev128_lt (x : Nat) : rev128 x < 2 ^ 128 := revBits_lt 128 x

section
variable (hG : GmulOK)
include hG

theorem gmulR_lt' {h x : Nat} (hh : h < 2 ^ 128) (hx : x < 2 ^ 128) : gmulR h x < 2 ^ 128 := by
  rw [hG h x hh hx]; exact rev128_lt _

theorem gmulR_xor' {h a b : Nat} (hh : h < 2 ^ 128) (ha : a < 2 ^ 128) (hb : b < 2 ^ 128) :
    gmulR h (a ^^^ b) = gmulR h a ^^^ gmulR h b := by
  rw [hG h _ hh (Nat.xor_lt_two_pow ha hb), hG h a hh ha, hG h b hh hb, rev128_xor, mulGF_xor_left,
    rev128_xor]

theorem gmulR_assoc' {h k x : Nat} (hh : h < 2 ^ 128) (hk : k < 2 ^ 128) (hx : x < 2 ^ 128) :
    gmulR h (gmulR k x) = gmulR (gmulR h k) x := by
  have hkx := gmulR_lt' hG hk hx
  have hhk := gmulR_lt' hG hh hk
  rw [hG h _ hh hkx, hG _ x hhk hx, hG k x hk hx, hG h k hh hk]
  have r := rev128_lt
  rw [rev128_rev128 (mulGF_lt (r k)), rev128_rev128 (mulGF_lt (r h)), mulGF_assoc (r x) (r k) (r h)]

/-! ### one-block step against the specification -/

/-- `y` is the code's (reflected) representation of the GHASH value `Y` -/
def Rep (y Y : Nat) : Prop := y < 2 ^ 128 ∧ rev128 y = Y

omit hG in
theorem Rep_zero : Rep 0 0 := ⟨by decide, revBits_zero 128⟩

theorem ghStep1_rep {H h y Y : Nat} (hH : H < 2 ^ 128) (hh : h = rev128 H) (hy : Rep y Y) {blk : Bytes}
    (hb : blk.length = 16) : Rep (ghStep1 h y blk) (mulGF (Y ^^^ blockToNat blk) H) := by
  obtain ⟨hy1, hy2⟩ := hy
  have hhl : h < 2 ^ 128 := by rw [hh]; exact rev128_lt _
  have hx : y ^^^ loadR blk < 2 ^ 128 := Nat.xor_lt_two_pow hy1 (loadR_lt hb)
  unfold ghStep1
  refine ⟨gmulR_lt' hG hhl hx, ?_⟩
  rw [hG h _ hhl hx, hh, rev128_rev128 hH, rev128_xor, hy2, loadR_eq hb,
    rev128_rev128 (blockToNat_lt hb), rev128_rev128 (mulGF_lt hH)]

theorem ghStep1_rep' {H h y Y : Nat} (hH : H < 2 ^ 128) (hh : h = rev128 H) (hy : Rep y Y) {blk : Bytes}
    (hb : blk.length = 16) : Rep (ghStep1 h y blk) (ghFold H Y blk) := by
  rw [ghFold_block H Y blk hb]; exact ghStep1_rep hG hH hh hy hb

omit hG in
theorem ghBy1_add (h : Nat) : ∀ (a b y : Nat) (d : Bytes),
    ghBy1 h (a + b) y d = ghBy1 h b (ghBy1 h a y d) (d.drop (16 * a)) := by
  intro a
  induction a with
  | zero => intro b y d; simp [ghBy1]
  | succ a ih =>
    intro b y d
    rw [Nat.add_right_comm, ghBy1, ih, ghBy1, List.drop_drop]
    congr 2; omega

theorem ghBy1_rep {H h : Nat} (hH : H < 2 ^ 128) (hh : h = rev128 H) :
    ∀ (n : Nat) {y Y : Nat} (d : Bytes), Rep y Y → 16 * n ≤ d.length →
      Rep (ghBy1 h n y d) (ghFold H Y (d.take (16 * n))) := by
  intro n
  induction n with
  | zero => intro y Y d hy _; simpa [ghBy1, ghFold_nil] using hy
  | succ n ih =>
    intro y Y d hy hd
    have h16 : (d.take 16).length = 16 := by rw [List.length_take]; omega
    rw [ghBy1]
    have hs := ghStep1_rep hG hH hh hy h16
    have := ih (d.drop 16) hs (by rw [List.length_drop]; omega)
    have hsplit : d.take (16 * (n + 1)) = d.take 16 ++ (d.drop 16).take (16 * n) := by
      rw [show 16 * (n + 1) = 16 + 16 * n by omega, List.take_add]
    rw [hsplit, ghFold_cons_append _ _ _ _ h16]
    exact this

/-! ### (iii) the 4-way aggregated step -/

/-- the precomputed powers are the powers -/
def PowOK (hp : HPow) : Prop :=
  hp.h < 2 ^ 128 ∧ hp.h2 = gmulR hp.h hp.h ∧ hp.h3 = gmulR hp.h hp.h2 ∧ hp.h4 = gmulR hp.h hp.h3

omit hG in
theorem powOK_hPowers {b : Bytes} (hb : b.length = 16) : PowOK (hPowers b) :=
  ⟨loadR_lt hb, rfl, rfl, rfl⟩

omit hG in
theorem take16_drop_length {d : Bytes} {i : Nat} (h : 16 * i + 16 ≤ d.length) :
    ((d.drop (16 * i)).take 16).length = 16 := by
  rw [List.length_take, List.length_drop]; omega

/-- the algebraic core of (iii): Horner form = aggregated form -/
theorem step4_algebra {h a x2 x3 x4 : Nat} (hh : h < 2 ^ 128) (ha : a < 2 ^ 128) (l2 : x2 < 2 ^ 128)
    (l3 : x3 < 2 ^ 128) (l4 : x4 < 2 ^ 128) :
    gmulR (gmulR h (gmulR h (gmulR h h))) a ^^^ gmulR (gmulR h (gmulR h h)) x2 ^^^ gmulR (gmulR h h) x3
        ^^^ gmulR h x4
      = gmulR h (gmulR h (gmulR h (gmulR h a ^^^ x2) ^^^ x3) ^^^ x4) := by
  have lt := @gmulR_lt' hG
  have b1 := lt hh ha
  have b2 := lt hh b1
  have b3 := lt hh b2
  have c1 := lt hh l2
  have c2 := lt hh c1
  have e1 := lt hh l3
  have h2 := lt hh hh
  have h3 := lt hh h2
  rw [gmulR_xor' hG hh b1 l2,
    gmulR_xor' hG hh (Nat.xor_lt_two_pow b2 c1) l3, gmulR_xor' hG hh b2 c1,
    gmulR_xor' hG hh (Nat.xor_lt_two_pow (Nat.xor_lt_two_pow b3 c2) e1) l4,
    gmulR_xor' hG hh (Nat.xor_lt_two_pow b3 c2) e1, gmulR_xor' hG hh b3 c2]
  -- powers
  rw [gmulR_assoc' hG hh hh l3]
  rw [gmulR_assoc' hG hh hh l2, gmulR_assoc' hG hh h2 l2]
  rw [gmulR_assoc' hG hh hh ha, gmulR_assoc' hG hh h2 ha, gmulR_assoc' hG hh h3 ha]

/-- (iii): (Y⊕X₁)·H⁴ ⊕ X₂·H³ ⊕ X₃·H² ⊕ X₄·H is four sequential GHASH steps -/
theorem ghStep4_eq {hp : HPow} (hP : PowOK hp) {y : Nat} (hy : y < 2 ^ 128) {d : Bytes} (hd : 64 ≤ d.length) :
    ghStep4 hp y d = ghBy1 hp.h 4 y d := by
  obtain ⟨hh, e2, e3, e4⟩ := hP
  have l1 : loadR (d.take 16) < 2 ^ 128 := loadR_lt (by rw [List.length_take]; omega)
  have l2 : loadR ((d.drop 16).take 16) < 2 ^ 128 := loadR_lt (take16_drop_length (i := 1) (by omega))
  have l3 : loadR ((d.drop 32).take 16) < 2 ^ 128 := loadR_lt (take16_drop_length (i := 2) (by omega))
  have l4 : loadR ((d.drop 48).take 16) < 2 ^ 128 := loadR_lt (take16_drop_length (i := 3) (by omega))
  simp only [ghBy1, ghStep1, ghStep4, List.drop_drop]
  rw [e4, e3, e2]
  exact step4_algebra hG hh (Nat.xor_lt_two_pow hy l1) l2 l3 l4

/-! ### the block loops -/

omit hG in
theorem ghBy1_take (h : Nat) : ∀ (n m y : Nat) (d : Bytes), 16 * n ≤ m →
    ghBy1 h n y (d.take m) = ghBy1 h n y d := by
  intro n
  induction n with
  | zero => intro m y d _; rfl
  | succ n ih =>
    intro m y d hm
    rw [ghBy1, ghBy1, List.take_take, List.drop_take, ih _ _ _ (by omega)]
    congr 2
    rw [Nat.min_eq_left (by omega)]

theorem ghBy1_lt {hp : HPow} (hP : PowOK hp) : ∀ (n : Nat) {y : Nat} (d : Bytes), y < 2 ^ 128 → 16 * n ≤ d.length →
    ghBy1 hp.h n y d < 2 ^ 128 := by
  intro n
  induction n with
  | zero => intro y d hy _; exact hy
  | succ n ih =>
    intro y d hy hd
    rw [ghBy1]
    apply ih
    · exact gmulR_lt' hG hP.1 (Nat.xor_lt_two_pow hy (loadR_lt (by rw [List.length_take]; omega)))
    · rw [List.length_drop]; omega

/-- `n` aggregated steps are `4n` one-block steps -/
theorem ghBy4_eq {hp : HPow} (hP : PowOK hp) : ∀ (n : Nat) {y : Nat} (d : Bytes), y < 2 ^ 128 → 64 * n ≤ d.length →
    ghBy4 hp n y d = ghBy1 hp.h (4 * n) y d := by
  intro n
  induction n with
  | zero => intro y d _ _; rfl
  | succ n ih =>
    intro y d hy hd
    have h64 : 64 ≤ (d.take 64).length := by rw [List.length_take]; omega
    rw [ghBy4, ghStep4_eq hG hP hy h64, ghBy1_take _ _ _ _ _ (by omega)]
    rw [ih (d.drop 64) (ghBy1_lt hG hP 4 d hy (by omega)) (by rw [List.length_drop]; omega)]
    rw [show 4 * (n + 1) = 4 + 4 * n by omega, ghBy1_add]

/-- the loop of `CalculateSPre`/`CalculateSMid`/`calculateJ0Branch2`/`gHashBlocks` on `nb` whole blocks -/
theorem ghBlocks_eq {hp : HPow} (hP : PowOK hp) {y : Nat} (hy : y < 2 ^ 128) (d : Bytes) (nb : Nat)
    (hd : 16 * nb ≤ d.length) : ghBlocks hp y d nb = ghBy1 hp.h nb y d := by
  unfold ghBlocks
  split
  · rfl
  · rw [ghBy4_eq hG hP (nb / 4) d hy (by omega)]
    conv => rhs; rw [show nb = 4 * (nb / 4) + nb % 4 by omega, ghBy1_add]
    rw [show 16 * (4 * (nb / 4)) = 64 * (nb / 4) by omega]

/-- the hash of the `n` ciphertext blocks of one length class -/
theorem hashClass_eq {hp : HPow} (hP : PowOK hp) {y : Nat} (hy : y < 2 ^ 128) (n : Nat) (out : Bytes)
    (hd : 16 * n ≤ out.length) : hashClass hp n y out = ghBy1 hp.h n y out := by
  unfold hashClass
  split
  · rw [ghBy4_eq hG hP (n / 4) out hy (by omega)]
    congr 1; omega
  · rfl

omit hG in
theorem pad16_eq_of_dvd {d : Bytes} (h : d.length % 16 = 0) : pad16 d = d := by
  simp [pad16, h]

omit hG in
theorem pad16_eq_padBlock {d : Bytes} (h0 : 0 < d.length) (h : d.length < 16) : pad16 d = padBlock d := by
  unfold pad16 padBlock
  rw [Nat.mod_eq_of_lt h, Nat.mod_eq_of_lt (by omega)]

omit hG in
theorem padBlock_length {d : Bytes} (h : d.length ≤ 16) : (padBlock d).length = 16 := by
  unfold padBlock
  rw [List.length_append, List.length_replicate]; omega

omit hG in
/-- padding only touches the part after the last whole block -/
theorem pad16_split (d : Bytes) (n : Nat) (hn : 16 * n ≤ d.length) :
    pad16 d = d.take (16 * n) ++ pad16 (d.drop (16 * n)) := by
  unfold pad16
  rw [List.length_drop, ← List.append_assoc, List.take_append_drop]
  congr 3
  omega

omit hG in
theorem pad16_append_of_dvd (a b : Bytes) (n : Nat) (ha : a.length = 16 * n) : pad16 (a ++ b) = a ++ pad16 b := by
  unfold pad16
  rw [List.length_append, List.append_assoc]
  congr 4
  omega

/-- GHASH update over a byte string: the specification's fold over the zero-padded string -/
theorem ghUpdate_rep {H : Nat} {hp : HPow} (hH : H < 2 ^ 128) (hh : hp.h = rev128 H) (hP : PowOK hp)
    {y Y : Nat} (hy : Rep y Y) (d : Bytes) : Rep (ghUpdate hp y d) (ghFold H Y (pad16 d)) := by
  unfold ghUpdate
  dsimp only
  have hnb : 16 * (d.length / 16) ≤ d.length := by omega
  have h1 : (if d.length < 16 then y else ghBlocks hp y d (d.length / 16)) = ghBy1 hp.h (d.length / 16) y d := by
    split
    · rename_i hlt
      rw [show d.length / 16 = 0 by omega]; rfl
    · exact ghBlocks_eq hG hP hy.1 d _ hnb
  rw [h1]
  have hr := ghBy1_rep hG hH hh (d.length / 16) d hy hnb
  rw [pad16_split d (d.length / 16) hnb, ghFold_append H (d.length / 16) Y _ _ (by rw [List.length_take]; omega)]
  have hdl : (d.drop (16 * (d.length / 16))).length = d.length % 16 := by rw [List.length_drop]; omega
  split
  · rename_i h0
    rw [pad16_eq_of_dvd (by rw [hdl, h0]), List.length_eq_zero_iff.mp (by rw [hdl, h0] : (d.drop (16 * (d.length / 16))).length = 0), ghFold_nil]
    exact hr
  · rename_i h0
    rw [pad16_eq_padBlock (by omega) (by omega)]
    exact ghStep1_rep' hG hH hh hr (padBlock_length (by omega))

/-! ### the hashing inside `cryptoBlocksAsm` -/

theorem cryptoBlocksAux_snd_true {E : Bytes → Bytes} (hE : ∀ b, (E b).length = 16) {H : Nat} {hp : HPow}
    (hH : H < 2 ^ 128) (hh : hp.h = rev128 H) (hP : PowOK hp) :
    ∀ (fuel j : Nat) {y Y : Nat} (src : Bytes), Rep y Y → src.length < 16 * fuel →
      Rep (cryptoBlocksAux E hp true fuel j y src).2
          (ghFold H Y (pad16 (cryptoBlocksAux E hp true fuel j y src).1)) := by
  intro fuel
  induction fuel with
  | zero => intro j y Y src _ h; omega
  | succ fuel ih =>
    intro j y Y src hy hfuel
    rw [cryptoBlocksAux_succ]
    obtain ⟨h1, h2, _⟩ := class_facts src.length
    generalize classOf src.length = n at *
    by_cases hn0 : n = 0
    · have hlt := h2 hn0
      rw [if_neg (by simpa using hn0)]
      by_cases hl0 : src.length = 0
      · rw [if_pos hl0]
        simpa [pad16, ghFold_nil] using hy
      · rw [if_neg hl0]
        dsimp only
        rw [tail_eq]
        have hol : (xorBytes src (E (natToBlock (laneAdd j 1)))).length = src.length := by
          rw [xorBytes_length, hE]; omega
        simp only [if_true]
        rw [pad16_eq_padBlock (by omega) (by omega)]
        exact ghStep1_rep' hG hH hh hy (padBlock_length (by omega))
    · have hle := h1 hn0
      rw [if_pos hn0]
      dsimp only
      have hol := classStep_fst_length hE hp true n j y src hle
      have hcs2 : (classStep E hp true n j y src).2
          = ghBy1 hp.h n y (classStep E hp true n j y src).1 := by
        show hashClass hp n y (classStep E hp true n j y src).1 = _
        exact hashClass_eq hG hP hy.1 n _ (by omega)
      have hr := ghBy1_rep hG hH hh n (classStep E hp true n j y src).1 hy (by omega)
      rw [← hcs2, ← hol, List.take_length] at hr
      have := ih (laneAdd j n) (src.drop (16 * n)) hr (by rw [List.length_drop]; omega)
      rw [pad16_append_of_dvd _ _ n hol, ghFold_append H n Y _ _ hol]
      exact this

end
end SMGo.Proofs.GCM
