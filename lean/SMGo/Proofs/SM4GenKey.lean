/-
  Lemmas for Props/C05Gen.lean, part 3: `expandKey` (loop unrolled by the translator: 32 × (k_j ^= T'(…); enc[i] = k_j;
  dec[31-i] = k_j)), `newCipherGeneric`, `newCipher`, `NewCipher` of the code REGENERATED from /repo/sm4/sm4.go are the
  hand-written model's `expandKey` / `newCipher`, for all inputs.  Method as in SM4GenBlock.lean; the 64 element
  stores into the two 32-entry arrays are evaluated on explicit lists.
-/
import SMGo.Proofs.SM4Gen
namespace SMGo.Proofs.SM4Gen
open SMGo SMGo.Model.GoSM4

/-- initial state of the model's key schedule -/
def initK (mk : Bytes) : W32 × W32 × W32 × W32 :=
  ((wordsBE mk).getD 0 0 ^^^ Model.SM4.tbl tb.fk 0, (wordsBE mk).getD 1 0 ^^^ Model.SM4.tbl tb.fk 1,
   (wordsBE mk).getD 2 0 ^^^ Model.SM4.tbl tb.fk 2, (wordsBE mk).getD 3 0 ^^^ Model.SM4.tbl tb.fk 3)

theorem model_expandKey_unroll (mk : Bytes) :
    Model.SM4.expandKey tb mk
      = ((Model.SM4.expandStep tb (Model.SM4.expandStep tb (Model.SM4.expandStep tb (Model.SM4.expandStep tb
          (Model.SM4.expandStep tb (Model.SM4.expandStep tb (Model.SM4.expandStep tb (Model.SM4.expandStep tb
            (initK mk, []) 0) 1) 2) 3) 4) 5) 6) 7).2,
         (Model.SM4.expandStep tb (Model.SM4.expandStep tb (Model.SM4.expandStep tb (Model.SM4.expandStep tb
          (Model.SM4.expandStep tb (Model.SM4.expandStep tb (Model.SM4.expandStep tb (Model.SM4.expandStep tb
            (initK mk, []) 0) 1) 2) 3) 4) 5) 6) 7).2.reverse) := by
  unfold Model.SM4.expandKey
  rw [show List.range 8 = [0, 1, 2, 3, 4, 5, 6, 7] from rfl]
  simp only [List.foldl_cons, List.foldl_nil]
  rfl

theorem expandStep_gen (k0 k1 k2 k3 : W32) (acc : List W32) (g : Nat) :
    Model.SM4.expandStep tb ((k0, k1, k2, k3), acc) g =
      (let k0 := k0 ^^^ Gen.SM4Code.transTPrime (k1 ^^^ k2 ^^^ k3 ^^^ BitVec.ofNat 32 (Gen.SM4Const.ck.getD (4 * g) 0))
       let k1 := k1 ^^^ Gen.SM4Code.transTPrime (k2 ^^^ k3 ^^^ k0 ^^^ BitVec.ofNat 32 (Gen.SM4Const.ck.getD (4 * g + 1) 0))
       let k2 := k2 ^^^ Gen.SM4Code.transTPrime (k3 ^^^ k0 ^^^ k1 ^^^ BitVec.ofNat 32 (Gen.SM4Const.ck.getD (4 * g + 2) 0))
       let k3 := k3 ^^^ Gen.SM4Code.transTPrime (k0 ^^^ k1 ^^^ k2 ^^^ BitVec.ofNat 32 (Gen.SM4Const.ck.getD (4 * g + 3) 0))
       ((k0, k1, k2, k3), acc ++ [k0, k1, k2, k3])) := by
  simp only [Model.SM4.expandStep, gen_transTPrime_eq_model, Model.SM4.tbl, Model.SM4.genTables]

theorem fk_tbl0 : Model.SM4.tbl tb.fk 0 = BitVec.ofNat 32 Gen.SM4Const.fk0 := rfl
theorem fk_tbl1 : Model.SM4.tbl tb.fk 1 = BitVec.ofNat 32 Gen.SM4Const.fk1 := rfl
theorem fk_tbl2 : Model.SM4.tbl tb.fk 2 = BitVec.ofNat 32 Gen.SM4Const.fk2 := rfl
theorem fk_tbl3 : Model.SM4.tbl tb.fk 3 = BitVec.ofNat 32 Gen.SM4Const.fk3 := rfl

theorem initK_cons (x0 x1 x2 x3 x4 x5 x6 x7 x8 x9 x10 x11 x12 x13 x14 x15 : UInt8) (xr : Bytes) :
    initK (x0 :: x1 :: x2 :: x3 :: x4 :: x5 :: x6 :: x7 :: x8 :: x9 :: x10 :: x11 :: x12 :: x13 :: x14 :: x15 :: xr)
      = (beUint32 [x0, x1, x2, x3] ^^^ BitVec.ofNat 32 Gen.SM4Const.fk0,
         beUint32 [x4, x5, x6, x7] ^^^ BitVec.ofNat 32 Gen.SM4Const.fk1,
         beUint32 [x8, x9, x10, x11] ^^^ BitVec.ofNat 32 Gen.SM4Const.fk2,
         beUint32 [x12, x13, x14, x15] ^^^ BitVec.ofNat 32 Gen.SM4Const.fk3) := by
  simp only [initK, SM4.wordsBE_cons4, List.getD_cons_zero, List.getD_cons_succ]
  simp only [beUint32_4]
  simp only [fk_tbl0, fk_tbl1, fk_tbl2, fk_tbl3]

theorem gen_expandKey_eq_model (mk : Bytes) (enc dec : List W32) (hmk : 16 ≤ mk.length) (henc : enc.length = 32)
    (hdec : dec.length = 32) :
    Gen.SM4Code.expandKey mk enc dec = Model.SM4.expandKey tb mk := by
  obtain ⟨x0, x1, x2, x3, x4, x5, x6, x7, x8, x9, x10, x11, x12, x13, x14, x15, xr, rfl⟩ := explicit16 mk hmk
  obtain ⟨e0, e1, e2, e3, e4, e5, e6, e7, e8, e9, e10, e11, e12, e13, e14, e15, e16, e17, e18, e19, e20, e21, e22, e23,
    e24, e25, e26, e27, e28, e29, e30, e31, rfl⟩ := explicit32_eq enc henc
  obtain ⟨d0, d1, d2, d3, d4, d5, d6, d7, d8, d9, d10, d11, d12, d13, d14, d15, d16, d17, d18, d19, d20, d21, d22, d23,
    d24, d25, d26, d27, d28, d29, d30, d31, rfl⟩ := explicit32_eq dec hdec
  rw [model_expandKey_unroll, initK_cons]
  unfold Gen.SM4Code.expandKey
  extract_lets -merge
    k0_i k1_i k2_i k3_i mks_0 mks_1 k0_0 k1_0 k2_0 k3_0 k0_1 enc_1 dec_1 k1_1 enc_2 dec_2 k2_1 enc_3 dec_3
    k3_1 enc_4 dec_4 k0_2 enc_5 dec_5 k1_2 enc_6 dec_6 k2_2 enc_7 dec_7 k3_2 enc_8 dec_8 k0_3 enc_9 dec_9 k1_3
    enc_10 dec_10 k2_3 enc_11 dec_11 k3_3 enc_12 dec_12 k0_4 enc_13 dec_13 k1_4 enc_14 dec_14 k2_4 enc_15
    dec_15 k3_4 enc_16 dec_16 k0_5 enc_17 dec_17 k1_5 enc_18 dec_18 k2_5 enc_19 dec_19 k3_5 enc_20 dec_20 k0_6
    enc_21 dec_21 k1_6 enc_22 dec_22 k2_6 enc_23 dec_23 k3_6 enc_24 dec_24 k0_7 enc_25 dec_25 k1_7 enc_26
    dec_26 k2_7 enc_27 dec_27 k3_7 enc_28 dec_28 k0_8 enc_29 dec_29 k1_8 enc_30 dec_30 k2_8 enc_31 dec_31 k3_8
    enc_32 dec_32
  have s1 : Model.SM4.expandStep tb ((k0_0, k1_0, k2_0, k3_0), []) 0
      = ((k0_1, k1_1, k2_1, k3_1), [k0_1, k1_1, k2_1, k3_1]) := by
    rw [expandStep_gen]; rfl
  have s2 : Model.SM4.expandStep tb ((k0_1, k1_1, k2_1, k3_1), [k0_1, k1_1, k2_1, k3_1]) 1
      = ((k0_2, k1_2, k2_2, k3_2), [k0_1, k1_1, k2_1, k3_1, k0_2, k1_2, k2_2, k3_2]) := by
    rw [expandStep_gen]; rfl
  have s3 : Model.SM4.expandStep tb ((k0_2, k1_2, k2_2, k3_2), [k0_1, k1_1, k2_1, k3_1, k0_2, k1_2, k2_2, k3_2]) 2
      = ((k0_3, k1_3, k2_3, k3_3), [k0_1, k1_1, k2_1, k3_1, k0_2, k1_2, k2_2, k3_2, k0_3, k1_3, k2_3, k3_3]) := by
    rw [expandStep_gen]; rfl
  have s4 : Model.SM4.expandStep tb ((k0_3, k1_3, k2_3, k3_3), [k0_1, k1_1, k2_1, k3_1, k0_2, k1_2, k2_2, k3_2, k0_3, k1_3, k2_3, k3_3]) 3
      = ((k0_4, k1_4, k2_4, k3_4), [k0_1, k1_1, k2_1, k3_1, k0_2, k1_2, k2_2, k3_2, k0_3, k1_3, k2_3, k3_3, k0_4, k1_4, k2_4, k3_4]) := by
    rw [expandStep_gen]; rfl
  have s5 : Model.SM4.expandStep tb ((k0_4, k1_4, k2_4, k3_4), [k0_1, k1_1, k2_1, k3_1, k0_2, k1_2, k2_2, k3_2, k0_3, k1_3, k2_3, k3_3, k0_4, k1_4, k2_4, k3_4]) 4
      = ((k0_5, k1_5, k2_5, k3_5), [k0_1, k1_1, k2_1, k3_1, k0_2, k1_2, k2_2, k3_2, k0_3, k1_3, k2_3, k3_3, k0_4, k1_4, k2_4, k3_4, k0_5, k1_5, k2_5, k3_5]) := by
    rw [expandStep_gen]; rfl
  have s6 : Model.SM4.expandStep tb ((k0_5, k1_5, k2_5, k3_5), [k0_1, k1_1, k2_1, k3_1, k0_2, k1_2, k2_2, k3_2, k0_3, k1_3, k2_3, k3_3, k0_4, k1_4, k2_4, k3_4, k0_5, k1_5, k2_5, k3_5]) 5
      = ((k0_6, k1_6, k2_6, k3_6), [k0_1, k1_1, k2_1, k3_1, k0_2, k1_2, k2_2, k3_2, k0_3, k1_3, k2_3, k3_3, k0_4, k1_4, k2_4, k3_4, k0_5, k1_5, k2_5, k3_5, k0_6, k1_6, k2_6, k3_6]) := by
    rw [expandStep_gen]; rfl
  have s7 : Model.SM4.expandStep tb ((k0_6, k1_6, k2_6, k3_6), [k0_1, k1_1, k2_1, k3_1, k0_2, k1_2, k2_2, k3_2, k0_3, k1_3, k2_3, k3_3, k0_4, k1_4, k2_4, k3_4, k0_5, k1_5, k2_5, k3_5, k0_6, k1_6, k2_6, k3_6]) 6
      = ((k0_7, k1_7, k2_7, k3_7), [k0_1, k1_1, k2_1, k3_1, k0_2, k1_2, k2_2, k3_2, k0_3, k1_3, k2_3, k3_3, k0_4, k1_4, k2_4, k3_4, k0_5, k1_5, k2_5, k3_5, k0_6, k1_6, k2_6, k3_6, k0_7, k1_7, k2_7, k3_7]) := by
    rw [expandStep_gen]; rfl
  have s8 : Model.SM4.expandStep tb ((k0_7, k1_7, k2_7, k3_7), [k0_1, k1_1, k2_1, k3_1, k0_2, k1_2, k2_2, k3_2, k0_3, k1_3, k2_3, k3_3, k0_4, k1_4, k2_4, k3_4, k0_5, k1_5, k2_5, k3_5, k0_6, k1_6, k2_6, k3_6, k0_7, k1_7, k2_7, k3_7]) 7
      = ((k0_8, k1_8, k2_8, k3_8), [k0_1, k1_1, k2_1, k3_1, k0_2, k1_2, k2_2, k3_2, k0_3, k1_3, k2_3, k3_3, k0_4, k1_4, k2_4, k3_4, k0_5, k1_5, k2_5, k3_5, k0_6, k1_6, k2_6, k3_6, k0_7, k1_7, k2_7, k3_7, k0_8, k1_8, k2_8, k3_8]) := by
    rw [expandStep_gen]; rfl
  rw [show (beUint32 [x0, x1, x2, x3] ^^^ BitVec.ofNat 32 Gen.SM4Const.fk0,
         beUint32 [x4, x5, x6, x7] ^^^ BitVec.ofNat 32 Gen.SM4Const.fk1,
         beUint32 [x8, x9, x10, x11] ^^^ BitVec.ofNat 32 Gen.SM4Const.fk2,
         beUint32 [x12, x13, x14, x15] ^^^ BitVec.ofNat 32 Gen.SM4Const.fk3) = (k0_0, k1_0, k2_0, k3_0) from rfl,
    s1, s2, s3, s4, s5, s6, s7, s8]
  simp only [
    enc_32, enc_31, enc_30, enc_29, enc_28, enc_27, enc_26, enc_25, enc_24, enc_23, enc_22, enc_21, enc_20,
    enc_19, enc_18, enc_17, enc_16, enc_15, enc_14, enc_13, enc_12, enc_11, enc_10, enc_9, enc_8, enc_7,
    enc_6, enc_5, enc_4, enc_3, enc_2, enc_1,
    dec_32, dec_31, dec_30, dec_29, dec_28, dec_27, dec_26, dec_25, dec_24, dec_23, dec_22, dec_21, dec_20,
    dec_19, dec_18, dec_17, dec_16, dec_15, dec_14, dec_13, dec_12, dec_11, dec_10, dec_9, dec_8, dec_7,
    dec_6, dec_5, dec_4, dec_3, dec_2, dec_1,
    List.set_cons_zero, List.set_cons_succ, List.reverse_cons, List.reverse_nil, List.nil_append, List.cons_append]

/-! ### constructors -/

theorem gen_newCipherGeneric_eq (key : Bytes) (hk : 16 ≤ key.length) :
    Gen.SM4Code.newCipherGeneric key
      = .ok { enc := (Model.SM4.expandKey tb key).1, dec := (Model.SM4.expandKey tb key).2 } := by
  unfold Gen.SM4Code.newCipherGeneric
  simp only [gen_expandKey_eq_model key _ _ hk (List.length_replicate ..) (List.length_replicate ..)]

theorem gen_NewCipher_err (key : Bytes) (hk : key.length ≠ 16) : Gen.SM4Code.NewCipher key = .err := by
  unfold Gen.SM4Code.NewCipher
  simp only [show Gen.SM4Const.BlockSize = 16 from rfl]
  rw [if_pos hk]

theorem gen_NewCipher_ok (key : Bytes) (hk : key.length = 16) :
    Gen.SM4Code.NewCipher key
      = .ok { enc := (Model.SM4.expandKey tb key).1, dec := (Model.SM4.expandKey tb key).2 } := by
  unfold Gen.SM4Code.NewCipher Gen.SM4Code.newCipher
  simp only [show Gen.SM4Const.BlockSize = 16 from rfl]
  rw [if_neg (by simp [hk]), gen_newCipherGeneric_eq key (by omega)]

end SMGo.Proofs.SM4Gen
