/-
  `Open` of the arm64 Go glue on the slice heap: up to the comparison of the tags
  (`open_common`: H, J0, mask, GHASH over additional data and ciphertext, `ConstantTimeCompare`),
  the decryption after a match (`openTail_spec`), and the two verdicts tied to
  `Spec.GCM.openGCM` (`open_core_some`, `open_core_none`).  Core Lean only.
-/
import SMGo.Proofs.GCMGlueArm64Seal
import SMGo.Proofs.GCMSeal
namespace SMGo.Proofs.GCMGlueA64
open SMGo SMGo.Model SMGo.Model.Mem SMGo.Model.GCMGlueA64 SMGo.Proofs.Slice
open SMGo.Spec.GCM
open SMGo.Proofs.GCMGlue (UnchangedOutside InRegion Nowhere fresh unchanged_refl unchanged_append
  unchanged_poke WF_of_unchanged Disjoint ExactOverlap Admissible)
open SMGo.Proofs.GCM (ghFold blockToNat_lt blockToNat_natToBlock natToBlock_blockToNat
  natToBlock_length xorBytes_length)

theorem ctCompare_ne_one (x y : Bytes) : constantTimeCompare x y ≠ 1 ↔ x ≠ y := by
  unfold constantTimeCompare
  by_cases h : GCM.ctEqual x y = true
  · have := (GCM.ctEqual_iff x y).mp h
    rw [if_pos h]
    exact ⟨fun hc => absurd rfl hc, fun hc => absurd this hc⟩
  · have : x ≠ y := fun e => h ((GCM.ctEqual_iff x y).mpr e)
    rw [if_neg h]
    exact ⟨fun _ => this, fun _ => by decide⟩

/-- the second half of Open: after the tags compared equal -/
def openTail (g : GcmA64) (h : Heap) (dst ct' J0 : Slice) : Outcome (Heap × Option Slice) :=
  ensureCapacityA64 h dst ct'.len >>= fun r =>
  cryptoBlocks g.k r.1 r.2.2 ct' J0 >>= fun h => .ok (h, some r.2.1)

/-- Open up to the comparison of the tags -/
theorem open_common (g : GcmA64) (hk : KSpec g.k) (ht12 : gcmMinimumTagSize ≤ g.tagSize)
    (ht : g.tagSize ≤ 16)
    (h : Heap) (dst nonce ct aad : Slice)
    (wn : WF h nonce) (wc : WF h ct) (wa : WF h aad)
    (hn : nonce.len = g.nonceSize) (h1 : g.tagSize ≤ ct.len) (h2 : ct.len ≤ maxPlain + g.tagSize) :
    ∃ h6 J0, UnchangedOutside h h6 Nowhere ∧ WF h6 J0 ∧ J0.len = 16 ∧
      read h6 J0 = natToBlock (j0 (blockToNat (g.k.E (List.replicate 16 0))) (read h nonce)) ∧
      (∀ hb s, hb.length ≤ h.length → WF hb s → s.arr ≠ J0.arr) ∧
      openA64 g h dst nonce ct aad =
        if tagOf g.k.E (blockToNat (g.k.E (List.replicate 16 0)))
            (j0 (blockToNat (g.k.E (List.replicate 16 0))) (read h nonce)) (read h aad)
            ((read h ct).take (ct.len - g.tagSize)) g.tagSize ≠ (read h ct).drop (ct.len - g.tagSize)
        then .ok (h6, none)
        else openTail g h6 dst (takeS ct (ct.len - g.tagSize)) J0 := by
  have hcc := wc.1
  -- the three local arrays
  obtain ⟨e01, wH1, rH1, l1⟩ := alloc_spec h 16
  generalize hh1 : h ++ [List.replicate 16 (0 : UInt8)] = h1 at e01 wH1 rH1 l1
  obtain ⟨e12, wJ2, rJ2, l2⟩ := alloc_spec h1 16
  generalize hh2 : h1 ++ [List.replicate 16 (0 : UInt8)] = h2 at e12 wJ2 rJ2 l2
  obtain ⟨e23, wT3, rT3, l3⟩ := alloc_spec h2 16
  generalize hh3 : h2 ++ [List.replicate 16 (0 : UInt8)] = h3 at e23 wT3 rT3 l3
  have e13 : UnchangedOutside h1 h3 Nowhere := UO_trans e12 e23 (fun _ _ _ f => f)
  have e03 : UnchangedOutside h h3 Nowhere := UO_trans e01 e13 (fun _ _ _ f => f)
  obtain ⟨wH3, rH3⟩ := keep e13 wH1
  obtain ⟨wJ3, rJ3⟩ := keep e23 wJ2
  rw [rH1] at rH3; rw [rJ2] at rJ3
  obtain ⟨wn3, rn3⟩ := keep e03 wn
  obtain ⟨h4, e4, u4, rH4, rJ4, rT4⟩ := prelude_spec g.k hk h3 nonce (fresh h 16) (fresh h1 16)
    (fresh h2 16) wn3 wH3 wJ3 wT3 rfl rfl rfl rH3 rJ3
    (fresh_ne _ _ (by omega)) (fresh_ne _ _ (by omega)) (fresh_ne _ _ (by omega))
    (old_ne_new wn 16 (Nat.le_refl _)) (old_ne_new wn 16 (by omega))
  rw [rn3] at rJ4 rT4
  have e04 : UnchangedOutside h h4 Nowhere := by
    refine UO_trans e03 u4 ?_
    intro a i ha hr
    rcases hr with hr | hr | hr
    · exact new_region (Nat.le_refl _) 16 _ a i ha hr
    · exact new_region (by omega) 16 _ a i ha hr
    · exact new_region (by omega) 16 _ a i ha hr
  have wH4 := WF_of_unchanged h3 h4 _ u4 _ wH3
  have wT4 := WF_of_unchanged h3 h4 _ u4 _ wT3
  have wJ4 := WF_of_unchanged h3 h4 _ u4 _ wJ3
  have l4 : h3.length ≤ h4.length := u4.1
  -- expectedTag
  obtain ⟨e45, we5, re5, l5⟩ := alloc_spec h4 16
  generalize hh5 : h4 ++ [List.replicate 16 (0 : UInt8)] = h5 at e45 we5 re5 l5
  have e05 : UnchangedOutside h h5 Nowhere := UO_trans e04 e45 (fun _ _ _ f => f)
  obtain ⟨wH5, rH5⟩ := keep e45 wH4
  obtain ⟨wT5, rT5⟩ := keep e45 wT4
  obtain ⟨wJ5, rJ5⟩ := keep e45 wJ4
  obtain ⟨wa5, ra5⟩ := keep e05 wa
  obtain ⟨wc5, rc5⟩ := keep e05 wc
  have wc' : WF h (takeS ct (ct.len - g.tagSize)) := WF_takeS h ct _ wc (by omega)
  have wtg : WF h (dropS ct (ct.len - g.tagSize)) := WF_dropS h ct _ wc (by omega)
  obtain ⟨wc'5, rc'5⟩ := keep e05 wc'
  obtain ⟨h6, e6, u6, r6⟩ := tagPhase_spec g.k hk h5 (fresh h 16) (fresh h4 16) (fresh h2 16) aad
    (takeS ct (ct.len - g.tagSize)) wH5 we5 wT5 wa5 wc'5 rfl rfl rfl re5
    (fresh_ne _ _ (by omega)) (fresh_ne _ _ (by omega)) (old_ne_new wa 16 (by omega))
    (old_ne_new wc' 16 (by omega))
  rw [rH5, rH4, rT5, rT4, ra5, rc'5, read_takeS h ct _ (by omega)] at r6
  have e06 : UnchangedOutside h h6 Nowhere := UO_trans e05 u6 (new_region (by omega) 16 _)
  have wJ6 := WF_of_unchanged h5 h6 _ u6 _ wJ5
  have we6 := WF_of_unchanged h5 h6 _ u6 _ we5
  have rJ6 : read h6 (fresh h1 16) = natToBlock (j0 (blockToNat (g.k.E (List.replicate 16 0)))
      (read h nonce)) := by
    rw [read_avoid u6 wJ5 (avoids_of_arr_ne (fresh_ne _ _ (by omega)) _ _), rJ5, rJ4]
  have rtg6 : read h6 (dropS ct (ct.len - g.tagSize)) = (read h ct).drop (ct.len - g.tagSize) := by
    rw [(keep e06 wtg).2, read_dropS]
  have ret6 : read h6 (takeS (fresh h4 16) g.tagSize)
      = tagOf g.k.E (blockToNat (g.k.E (List.replicate 16 0)))
          (j0 (blockToNat (g.k.E (List.replicate 16 0))) (read h nonce)) (read h aad)
          ((read h ct).take (ct.len - g.tagSize)) g.tagSize := by
    rw [read_takeS h6 _ _ (by show g.tagSize ≤ 16; exact ht), r6, GCM.tagOf_eq hk.E_len]
  refine ⟨h6, fresh h1 16, e06, wJ6, rfl, rJ6, fun hb s hle ws => old_ne_new ws 16 (by omega), ?_⟩
  unfold openA64 openWith
  rw [if_neg (by simpa using hn), if_neg (by omega), if_neg (by omega), if_neg (by omega),
    sliceFrom_ok ct _ (by omega) hcc, Outcome.bind_ok, sliceTo_ok ct _ (by omega), Outcome.bind_ok]
  simp only [localArray_eq]
  rw [hh1, hh2, hh3, prelude_bind, e4, Outcome.bind_ok]
  rw [hh5, tagPhase_bind, e6, Outcome.bind_ok, sliceTo_ok _ g.tagSize (by show g.tagSize ≤ 16; exact ht),
    Outcome.bind_ok, ret6, rtg6]
  by_cases hne : tagOf g.k.E (blockToNat (g.k.E (List.replicate 16 0)))
      (j0 (blockToNat (g.k.E (List.replicate 16 0))) (read h nonce)) (read h aad)
      ((read h ct).take (ct.len - g.tagSize)) g.tagSize ≠ (read h ct).drop (ct.len - g.tagSize)
  · rw [if_pos ((ctCompare_ne_one _ _).mpr hne), if_pos hne]
  · rw [if_neg (fun hc => hne ((ctCompare_ne_one _ _).mp hc)), if_neg hne]
    rfl

/-- Open after the tags compared equal: `ensureCapacity`, then `cryptoBlocks` -/
theorem openTail_spec (g : GcmA64) (hk : KSpec g.k) (h h6 : Heap) (dst ct J0 : Slice) (n j : Nat)
    (e06 : UnchangedOutside h h6 Nowhere)
    (wd : WF h dst) (wc : WF h ct) (hnl : n ≤ ct.len) (hmax : n ≤ maxPlain)
    (wJ : WF h6 J0) (lJ : J0.len = 16) (rJ : read h6 J0 = natToBlock j) (hj : j < 2 ^ 128)
    (hJnew : ∀ hb s, hb.length ≤ h.length → WF hb s → s.arr ≠ J0.arr)
    (hadm : Disjoint dst ct ∨ ExactOverlap dst ct) :
    ∃ h' ret, openTail g h6 dst (takeS ct n) J0 = .ok (h', some ret) ∧
      WF h' ret ∧
      read h' ret = read h dst ++ gctr g.k.E (inc32 j) ((read h ct).take n) ∧
      (Shares ret dst ↔ dst.arr ≠ none ∧ n ≤ dst.cap - dst.len) ∧
      (n ≤ dst.cap - dst.len → ret = takeS dst (dst.len + n)) ∧
      UnchangedOutside h h' (InRegion ret dst.len n) ∧
      (∀ s, WF h s → Disjoint dst s → read h' s = read h s) := by
  have hcc := wc.1
  have wc' : WF h (takeS ct n) := WF_takeS h ct n wc (by omega)
  obtain ⟨wd6, rd6⟩ := keep e06 wd
  obtain ⟨wc6, rc6⟩ := keep e06 wc'
  have hadm' : Disjoint dst (takeS ct n) ∨ ExactOverlap dst (takeS ct n) := by
    rcases hadm with (hd | hd | hd) | hd
    · exact Or.inl (Or.inl hd)
    · left; right; left
      show ct.off + n ≤ _
      omega
    · left; right; right; exact hd
    · exact Or.inr hd
  obtain ⟨h7, ret, out, ee, eo⟩ := ensureCapacityA64_out h6 dst n wd6
  have e07 : UnchangedOutside h h7 Nowhere := UO_trans e06 eo.ext (fun _ _ _ f => f)
  obtain ⟨wJ7, rJ7⟩ := keep eo.ext wJ
  obtain ⟨wc7, rc7⟩ := keep eo.ext wc6
  have hrl := eo.ret_len
  have hrc := eo.wf.1
  have wo7 : WF h7 out := by rw [eo.out_eq]; exact WF_dropS h7 ret _ eo.wf (by omega)
  have hol : out.len = n := by rw [eo.out_eq]; show ret.len - dst.len = _; omega
  have hoa : out.arr = ret.arr := by rw [eo.out_eq]; rfl
  have hoo : out.off = ret.off + dst.len := by rw [eo.out_eq]; rfl
  have hJr : J0.arr ≠ ret.arr := by
    refine eo.other _ wJ ?_ (Ne.symm (hJnew h dst (Nat.le_refl _) wd))
    intro hc
    obtain ⟨a, ha, _, _⟩ := arr_of_cap_pos h6 J0 wJ (by have := wJ.1; omega)
    rw [ha] at hc; cases hc
  have cx : CBCtx h7 out (takeS ct n) J0 :=
    { wo := wo7, wi := wc7, wp := wJ7, pl := lJ, le := by show n ≤ out.len; omega,
      compat := by
        rw [hoa, hoo]
        exact eo.compat (takeS ct n) wc6 hadm' (Nat.le_refl n)
      po := by rw [hoa]; exact hJr }
  obtain ⟨h8, e8, u8, r8⟩ := cryptoBlocks_spec hk cx (show n ≤ maxPlain from hmax)
  have hon : takeS out (takeS ct n).len = out := by
    show takeS out n = out
    rw [← hol]; exact takeS_len out
  rw [hon, rJ7, rJ, blockToNat_natToBlock hj, rc7, rc6, read_takeS h ct n hnl] at r8
  have u8' : UnchangedOutside h7 h8 (InRegion out 0 n) := u8
  have wr8 := WF_of_unchanged h7 h8 _ u8 _ eo.wf
  refine ⟨h8, ret, ?_, wr8, ?_, eo.shares, fun hr => (eo.room hr).1, ?_, ?_⟩
  · unfold openTail
    show (ensureCapacityA64 h6 dst n >>= _) = _
    rw [ee, Outcome.bind_ok]
    show (cryptoBlocks g.k h7 out (takeS ct n) J0 >>= _) = _
    rw [e8, Outcome.bind_ok]
  · have hs1 := read_split h8 ret dst.len (by omega)
    rw [← eo.out_eq] at hs1
    have rA : read h8 (takeS ret dst.len) = read h dst := by
      have wA7 := WF_takeS h7 ret dst.len eo.wf (by omega)
      rw [read_of_UO u8' _ wA7, eo.pre, rd6]
      intro a i _ h1 h2 ⟨_, y, _⟩
      have h2' : i < ret.off + dst.len := h2
      rw [hoo] at y; omega
    rw [hs1, rA, r8]
  · refine UO_trans (UO_mono e07 (fun _ _ _ f => f.elim)) u8' ?_
    intro a i _ ⟨x, y, z⟩
    rw [hoa] at x; rw [hoo] at y z
    exact ⟨x, by omega, by omega⟩
  · intro s ws hd
    have ws7 := (keep e07 ws).1
    rw [read_of_UO u8' _ ws7, (keep e07 ws).2]
    intro a i ha h1 h2 ⟨x, y, z⟩
    refine eo.free s (keep e06 ws).1 hd a i ha h1 h2 ⟨by rw [← hoa]; exact x, ?_, ?_⟩
    · rw [hoo] at y; omega
    · rw [hoo] at z; omega

/-! ### Open -/

/-- **Open, tags agree** -/
theorem open_core_some (g : GcmA64) (hk : KSpec g.k) (ht12 : gcmMinimumTagSize ≤ g.tagSize)
    (ht : g.tagSize ≤ 16)
    (h : Heap) (dst nonce ct aad : Slice)
    (wd : WF h dst) (wn : WF h nonce) (wc : WF h ct) (wa : WF h aad)
    (hn : nonce.len = g.nonceSize) (h2 : ct.len ≤ maxPlain + g.tagSize)
    (hadm : Admissible dst nonce ct aad)
    (p : Bytes) (hv : openGCM g.k.E g.tagSize (read h nonce) (read h ct) (read h aad) = some p) :
    ∃ h' ret, openA64 g h dst nonce ct aad = .ok (h', some ret) ∧
      WF h' ret ∧
      read h' ret = read h dst ++ p ∧
      (Shares ret dst ↔ dst.arr ≠ none ∧ ct.len - g.tagSize ≤ dst.cap - dst.len) ∧
      (ct.len - g.tagSize ≤ dst.cap - dst.len → ret = takeS dst (dst.len + (ct.len - g.tagSize))) ∧
      UnchangedOutside h h' (InRegion ret dst.len (ct.len - g.tagSize)) ∧
      (∀ s, WF h s → Disjoint dst s → read h' s = read h s) := by
  have hcl := length_read h ct wc
  obtain ⟨h1, hteq, hp⟩ := (GCM.openGCM_eq_some_iff _ _ _ _ _ _).mp hv
  rw [hcl] at h1 hteq hp
  obtain ⟨h6, J0, e06, wJ, lJ, rJ, hJnew, eq⟩ := open_common g hk ht12 ht h dst nonce ct aad wn wc wa hn h1 h2
  rw [if_neg (fun hc => hc hteq)] at eq
  have hElt : blockToNat (g.k.E (List.replicate 16 0)) < 2 ^ 128 := blockToNat_lt (hk.E_len _)
  obtain ⟨h', ret, e, r⟩ := openTail_spec g hk h h6 dst ct J0 (ct.len - g.tagSize) _ e06 wd wc (by omega)
    (by omega) wJ lJ rJ (j0_lt _ hElt _) hJnew hadm.2.2
  refine ⟨h', ret, by rw [eq]; exact e, ?_⟩
  rw [hp]
  exact r

/-- **Open fails**: ciphertext shorter than the tag, too long, or the tags differ -/
theorem open_core_none (g : GcmA64) (hk : KSpec g.k) (ht12 : gcmMinimumTagSize ≤ g.tagSize)
    (ht : g.tagSize ≤ 16)
    (h : Heap) (dst nonce ct aad : Slice)
    (wn : WF h nonce) (wc : WF h ct) (wa : WF h aad)
    (hn : nonce.len = g.nonceSize)
    (hv : ct.len > maxPlain + g.tagSize ∨
      openGCM g.k.E g.tagSize (read h nonce) (read h ct) (read h aad) = none) :
    ∃ h', openA64 g h dst nonce ct aad = .ok (h', none) ∧ UnchangedOutside h h' Nowhere := by
  have hcl := length_read h ct wc
  by_cases hshort : ct.len < g.tagSize ∨ ct.len > maxPlain + g.tagSize
  · refine ⟨h, ?_, unchanged_refl h _⟩
    unfold openA64 openWith
    rw [if_neg (by simpa using hn), if_neg (by omega)]
    rcases hshort with hs | hs
    · rw [if_pos hs]
    · by_cases h1 : ct.len < g.tagSize
      · rw [if_pos h1]
      · rw [if_neg h1, if_pos hs]
  · have hv' : openGCM g.k.E g.tagSize (read h nonce) (read h ct) (read h aad) = none := by
      rcases hv with hv | hv
      · omega
      · exact hv
    rcases (GCM.openGCM_eq_none_iff _ _ _ _ _).mp hv' with hs | hne
    · rw [hcl] at hs; omega
    · rw [hcl] at hne
      obtain ⟨h6, J0, e06, _, _, _, _, eq⟩ := open_common g hk ht12 ht h dst nonce ct aad wn wc wa hn
        (by omega) (by omega)
      rw [if_pos hne] at eq
      exact ⟨h6, eq, e06⟩

end SMGo.Proofs.GCMGlueA64
