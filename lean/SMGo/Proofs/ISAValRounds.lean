import SMGo.Proofs.ISAValRound
namespace SMGo.Proofs.ISAVal
open SMGo.Model.ISAVal SMGo.Model.ISA

/-- the register holding word `j` of the sliding window before round `i` -/
def sreg (i j : Nat) : Nat := 6 + (i + j) % 4

theorem sreg_perm (i : Nat) :
    (sreg i 0 = 6 ∧ sreg i 1 = 7 ∧ sreg i 2 = 8 ∧ sreg i 3 = 9) ∨ (sreg i 0 = 7 ∧ sreg i 1 = 8 ∧ sreg i 2 = 9 ∧ sreg i 3 = 6) ∨
    (sreg i 0 = 8 ∧ sreg i 1 = 9 ∧ sreg i 2 = 6 ∧ sreg i 3 = 7) ∨ (sreg i 0 = 9 ∧ sreg i 1 = 6 ∧ sreg i 2 = 7 ∧ sreg i 3 = 8) := by
  unfold sreg; omega

theorem sreg_succ (i j : Nat) : sreg (i + 1) j = sreg i (j + 1) := by unfold sreg; omega
theorem sreg_succ3 (i : Nat) : sreg (i + 1) 3 = sreg i 0 := by unfold sreg; omega

/-- the sliding window (x_i, x_{i+1}, x_{i+2}, x_{i+3}) ↦ next -/
def stepN (X : Nat × Nat × Nat × Nat) (k : Nat) : Nat × Nat × Nat × Nat :=
  (X.2.1, X.2.2.1, X.2.2.2, roundF X.1 X.2.1 X.2.2.1 X.2.2.2 k)

/-- the state between two rounds of `cryptoBlockAsm` -/
structure Ready (mem : List Region) (syms frame : List (String × Nat)) (rkBase dstp shuf : Nat)
    (i : Nat) (X : Nat × Nat × Nat × Nat) (s : State) : Prop where
  lenG : s.gpr.length = 16
  lenV : s.vec.length = 32
  hmem : s.mem = mem
  hsyms : s.syms = syms
  hframe : s.frame = frame
  g0 : greg s 0 = rkBase + 4 * i
  g3 : greg s 3 = dstp
  v10 : vreg s 10 = PREv
  v11 : vreg s 11 = POSTv
  v12 : vreg s 12 = shuf
  x0 : lane 32 0 (vreg s (sreg i 0)) = X.1
  x1 : lane 32 0 (vreg s (sreg i 1)) = X.2.1
  x2 : lane 32 0 (vreg s (sreg i 2)) = X.2.2.1
  x3 : lane 32 0 (vreg s (sreg i 3)) = X.2.2.2

def roundI (i : Nat) : List DInstr := roundCode 16 (sreg i 0) (sreg i 1) (sreg i 2) (sreg i 3)

theorem ready_step (mem : List Region) (syms frame : List (String × Nat)) (rkBase dstp shuf i : Nat)
    (X : Nat × Nat × Nat × Nat) (s : State) (bs : List Nat)
    (hb : rkBase + 4 * i + 4 < 2 ^ 64) (hrk : readMem mem (rkBase + 4 * i) 4 = .ok bs) (hbs : unlanes 8 bs < 2 ^ 32)
    (h : Ready mem syms frame rkBase dstp shuf i X s) :
    ∃ s', execList (roundI i) s = .ok s' ∧ Ready mem syms frame rkBase dstp shuf (i + 1) (stepN X (unlanes 8 bs)) s' := by
  obtain ⟨s', hrun, hp⟩ := round_spec (sreg i 0) (sreg i 1) (sreg i 2) (sreg i 3) (sreg_perm i) s h.lenG h.lenV bs
    (by rw [h.g0]; omega) (by rw [h.hmem, h.g0]; exact hrk) hbs h.v10 h.v11
  refine ⟨s', hrun, ?_⟩
  constructor
  · exact hp.lenG
  · exact hp.lenV
  · rw [hp.mem, h.hmem]
  · rw [hp.syms, h.hsyms]
  · rw [hp.frame, h.hframe]
  · rw [hp.g0, h.g0, Nat.mod_eq_of_lt (by omega)]; omega
  · rw [hp.g3, h.g3]
  · rw [hp.v10, h.v10]
  · rw [hp.v11, h.v11]
  · rw [hp.v12, h.v12]
  · rw [sreg_succ, hp.vB]; exact h.x1
  · rw [sreg_succ, hp.vC]; exact h.x2
  · rw [sreg_succ, hp.vD]; exact h.x3
  · rw [sreg_succ3, hp.vA, h.x0, h.x1, h.x2, h.x3]; rfl

/-- rounds 0 .. n-1 -/
def roundsCode : Nat → List DInstr
  | 0 => []
  | n + 1 => roundsCode n ++ roundI n

/-- the window after `n` rounds with the round keys `kw 0 .. kw (n-1)` -/
def iterN (kw : Nat → Nat) (X : Nat × Nat × Nat × Nat) : Nat → Nat × Nat × Nat × Nat
  | 0 => X
  | n + 1 => stepN (iterN kw X n) (kw n)

theorem ready_rounds (mem : List Region) (syms frame : List (String × Nat)) (rkBase dstp shuf : Nat)
    (kb : Nat → List Nat) (hbase : rkBase + 4 * 32 < 2 ^ 64)
    (hrk : ∀ i, i < 32 → readMem mem (rkBase + 4 * i) 4 = .ok (kb i))
    (hkb : ∀ i, i < 32 → unlanes 8 (kb i) < 2 ^ 32)
    (X : Nat × Nat × Nat × Nat) (s : State) (h : Ready mem syms frame rkBase dstp shuf 0 X s) (n : Nat) (hn : n ≤ 32) :
    ∃ s', execList (roundsCode n) s = .ok s' ∧
      Ready mem syms frame rkBase dstp shuf n (iterN (fun i => unlanes 8 (kb i)) X n) s' := by
  induction n with
  | zero => exact ⟨s, rfl, h⟩
  | succ n ih =>
    obtain ⟨s1, hrun1, hr1⟩ := ih (by omega)
    obtain ⟨s2, hrun2, hr2⟩ := ready_step mem syms frame rkBase dstp shuf n _ s1 (kb n) (by omega) (hrk n (by omega))
      (hkb n (by omega)) hr1
    exact ⟨s2, execList_append_ok hrun1 hrun2, hr2⟩

end SMGo.Proofs.ISAVal
