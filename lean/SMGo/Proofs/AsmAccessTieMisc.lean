/-
  C11 (memory safety, PARTIAL): bounded tie, part Misc.  Each theorem runs the address interpreter on the
  resolved GENERATED listing for every case of the group and compares with the hand-written model
  (`decide +kernel`: kernel evaluation, no native code).  Ranges: see `SMGo.Proofs.AsmAccessCases`.
-/
import SMGo.Proofs.AsmAccessCases

namespace SMGo.Proofs.AsmAccessTie
open SMGo.Proofs.AsmAccessCases
set_option maxRecDepth 100000

theorem gHash_all : (List.range 41).all gHashCheck = true := by decide +kernel
theorem copy_all : (List.range 101).all copyCheck = true := by decide +kernel
theorem ctCompare_all : (List.range 41).all ctCompareCheck = true := by decide +kernel
theorem fixed_all : fixedCases.all fixedCheck = true := by decide +kernel

end SMGo.Proofs.AsmAccessTie
