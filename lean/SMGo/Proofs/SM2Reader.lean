/-
  Lemmas for property C19 (and C12), reader core: the model of `io.ReadFull` over a scripted reader
  (`Model.SM2.readFull`) against the specification's cutting of the stream into 32-byte candidates
  (`Spec.SM2.candidates`).  Core Lean only; no facts about the curve are used.

  Vocabulary: `dataBefore sc` = all bytes the script delivers before its first failing Read (or its
  end); `chunks x` = the complete 32-byte pieces of `x`, `tail32 x` = the incomplete rest.
-/
import SMGo.Model.SM2Proto
import SMGo.Spec.SM2Proto
namespace SMGo.Proofs.SM2Reader
open SMGo SMGo.Model.SM2
open SMGo.Spec.SM2 (candidates chunk32 Item)

/-! ### cutting a byte string into 32-byte pieces -/

/-- the complete 32-byte pieces of `x`, in order -/
def chunks (x : Bytes) : List Bytes :=
  if _h : x.length < 32 then [] else x.take 32 :: chunks (x.drop 32)
termination_by x.length
decreasing_by simp [List.length_drop]; omega

/-- what remains after the complete pieces (fewer than 32 bytes) -/
def tail32 (x : Bytes) : Bytes :=
  if _h : x.length < 32 then x else tail32 (x.drop 32)
termination_by x.length
decreasing_by simp [List.length_drop]; omega

theorem chunks_of_lt {x : Bytes} (h : x.length < 32) : chunks x = [] := by
  rw [chunks]; simp [h]

theorem chunks_of_ge {x : Bytes} (h : 32 ≤ x.length) : chunks x = x.take 32 :: chunks (x.drop 32) := by
  rw [chunks]; simp [Nat.not_lt.mpr h]

theorem tail32_of_lt {x : Bytes} (h : x.length < 32) : tail32 x = x := by
  rw [tail32]; simp [h]

theorem tail32_of_ge {x : Bytes} (h : 32 ≤ x.length) : tail32 x = tail32 (x.drop 32) := by
  rw [tail32]; simp [Nat.not_lt.mpr h]

@[simp] theorem chunks_nil : chunks [] = [] := chunks_of_lt (by simp)
@[simp] theorem tail32_nil : tail32 [] = [] := tail32_of_lt (by simp)

/-- strong induction on the length, in the shape of the two definitions -/
theorem bytes_induction {P : Bytes → Prop} (short : ∀ x : Bytes, x.length < 32 → P x)
    (step : ∀ x : Bytes, 32 ≤ x.length → P (x.drop 32) → P x) : ∀ x, P x := by
  intro x
  generalize hn : x.length = n
  induction n using Nat.strongRecOn generalizing x with
  | _ n ih =>
    by_cases h : x.length < 32
    · exact short x h
    · exact step x (by omega) (ih (x.drop 32).length (by simp [List.length_drop]; omega) _ rfl)

theorem tail32_length_lt (x : Bytes) : (tail32 x).length < 32 := by
  induction x using bytes_induction with
  | short x h => rw [tail32_of_lt h]; exact h
  | step x h ih => rw [tail32_of_ge h]; exact ih

theorem chunks_length_eq (x : Bytes) : ∀ c ∈ chunks x, c.length = 32 := by
  induction x using bytes_induction with
  | short x h => rw [chunks_of_lt h]; simp
  | step x h ih =>
    rw [chunks_of_ge h]
    intro c hc
    rcases List.mem_cons.mp hc with rfl | hc
    · simp [List.length_take]; omega
    · exact ih c hc

/-- nothing is lost, nothing is reordered: the pieces followed by the rest are the input -/
theorem chunks_flatten (x : Bytes) : (chunks x).flatten ++ tail32 x = x := by
  induction x using bytes_induction with
  | short x h => rw [chunks_of_lt h, tail32_of_lt h]; simp
  | step x h ih =>
    rw [chunks_of_ge h, tail32_of_ge h, List.flatten_cons, List.append_assoc, ih, List.take_append_drop]

theorem chunks_count (x : Bytes) : (chunks x).length = x.length / 32 := by
  induction x using bytes_induction with
  | short x h => rw [chunks_of_lt h]; simp; omega
  | step x h ih =>
    rw [chunks_of_ge h, List.length_cons, ih, List.length_drop]; omega

theorem tail32_length (x : Bytes) : (tail32 x).length = x.length % 32 := by
  induction x using bytes_induction with
  | short x h => rw [tail32_of_lt h]; omega
  | step x h ih => rw [tail32_of_ge h, ih, List.length_drop]; omega

/-- appending more bytes: the pieces already complete stay, the rest is continued -/
theorem chunks_append (x y : Bytes) : chunks (x ++ y) = chunks x ++ chunks (tail32 x ++ y) := by
  induction x using bytes_induction with
  | short x h => rw [chunks_of_lt h, tail32_of_lt h]; simp
  | step x h ih =>
    have h' : 32 ≤ (x ++ y).length := by simp; omega
    rw [chunks_of_ge h', chunks_of_ge h, tail32_of_ge h, List.cons_append, ← ih]
    have e1 : (x ++ y).take 32 = x.take 32 := by
      rw [List.take_append_of_le_length h]
    have e2 : (x ++ y).drop 32 = x.drop 32 ++ y := by
      rw [List.drop_append_of_le_length h]
    rw [e1, e2]

theorem tail32_append (x y : Bytes) : tail32 (x ++ y) = tail32 (tail32 x ++ y) := by
  induction x using bytes_induction with
  | short x h => rw [tail32_of_lt h]
  | step x h ih =>
    have h' : 32 ≤ (x ++ y).length := by simp; omega
    rw [tail32_of_ge h', tail32_of_ge h, List.drop_append_of_le_length h, ih]

/-- the specification's `chunk32` (fuel-driven) computes `chunks` and `tail32` -/
theorem chunk32_eq : ∀ (f : Nat) (x : Bytes) (out : List Bytes), x.length / 32 < f →
    chunk32 f x out = (out ++ chunks x, tail32 x) := by
  intro f
  induction f with
  | zero => intro x out h; omega
  | succ f ih =>
    intro x out h
    by_cases hx : 32 ≤ x.length
    · have hx' : x.length ≥ 32 := hx
      simp only [chunk32, hx', if_true]
      rw [ih _ _ (by simp [List.length_drop]; omega), chunks_of_ge hx, tail32_of_ge hx]
      simp
    · have hx' : ¬ x.length ≥ 32 := hx
      simp only [chunk32, hx', if_false]
      rw [chunks_of_lt (by omega), tail32_of_lt (by omega)]
      simp

/-! ### the candidates of a script -/

/-- the bytes delivered before the first failing Read or the end of the script -/
def dataBefore : Script → Bytes
  | [] => []
  | .fail :: _ => []
  | .zero :: r => dataBefore r
  | .data b :: r => b ++ dataBefore r

theorem candidates_data (b : Bytes) (r : Script) (acc : Bytes) :
    candidates (.data b :: r) acc = chunks (acc ++ b) ++ candidates r (tail32 (acc ++ b)) := by
  simp only [candidates]
  rw [chunk32_eq _ _ _ (Nat.lt_succ_self _)]
  simp

/-- the candidates are the complete 32-byte pieces of the delivered byte stream: they do not depend on
    how the reader splits the stream into Reads, nor on empty Reads, nor on anything after the first
    failure -/
theorem candidates_eq_chunks (sc : Script) : ∀ acc : Bytes, acc.length < 32 →
    candidates sc acc = chunks (acc ++ dataBefore sc) := by
  induction sc with
  | nil => intro acc h; simp [candidates, dataBefore, chunks_of_lt h]
  | cons it r ih =>
    intro acc h
    cases it with
    | fail => simp [candidates, dataBefore, chunks_of_lt h]
    | zero => simpa [candidates, dataBefore] using ih acc h
    | data b =>
      rw [candidates_data, ih _ (tail32_length_lt _), dataBefore, ← List.append_assoc, chunks_append (acc ++ b)]

theorem candidates_nil_eq_chunks (sc : Script) : candidates sc [] = chunks (dataBefore sc) := by
  simpa using candidates_eq_chunks sc [] (by simp)

/-- short reads: two scripts delivering the same bytes before their first failure give the same candidates -/
theorem candidates_congr (sc₁ sc₂ : Script) (h : dataBefore sc₁ = dataBefore sc₂) :
    candidates sc₁ [] = candidates sc₂ [] := by
  rw [candidates_nil_eq_chunks, candidates_nil_eq_chunks, h]

/-- … in particular the same as one Read delivering everything at once -/
theorem candidates_concat (sc : Script) : candidates sc [] = candidates [.data (dataBefore sc)] [] :=
  candidates_congr _ _ (by simp [dataBefore])

/-- splitting one data item in two, or inserting an empty Read, changes nothing -/
theorem dataBefore_split (b₁ b₂ : Bytes) (r : Script) :
    dataBefore (.data (b₁ ++ b₂) :: r) = dataBefore (.data b₁ :: .zero :: .data b₂ :: r) := by
  simp [dataBefore]

theorem dataBefore_append_data (pre : Script) (hpre : ∀ it ∈ pre, it ≠ .fail) (r : Script) :
    dataBefore (pre ++ r) = dataBefore pre ++ dataBefore r := by
  induction pre with
  | nil => simp [dataBefore]
  | cons it p ih =>
    have ih' := ih (fun it h => hpre it (List.mem_cons_of_mem _ h))
    cases it with
    | fail => exact absurd rfl (hpre .fail (List.mem_cons_self ..))
    | zero => simpa [dataBefore] using ih'
    | data b => simp [dataBefore, ih']

theorem candidates_all_32 (sc : Script) : ∀ K ∈ candidates sc [], K.length = 32 := by
  rw [candidates_nil_eq_chunks]; exact chunks_length_eq _

theorem dataBefore_length_le_avail (sc : Script) : (dataBefore sc).length ≤ avail sc := by
  induction sc with
  | nil => simp [dataBefore, avail]
  | cons it r ih =>
    cases it with
    | fail => simp [dataBefore, avail]
    | zero => simpa [dataBefore, avail] using ih
    | data b => simp [dataBefore, avail]; omega

/-- there are at most `avail sc / 32` candidates -/
theorem candidates_length_le (sc : Script) : (candidates sc []).length ≤ avail sc / 32 := by
  rw [candidates_nil_eq_chunks, chunks_count]
  exact Nat.div_le_div_right (dataBefore_length_le_avail sc)

/-! ### `io.ReadFull` -/

/-- `readFull` with `acc` already read and `want = 32 - acc.length` still missing:
    success = the stream holds at least 32 bytes before its first failure; the buffer is the first 32
    of them, the remaining script delivers the bytes after them, and 32 bytes of `avail` are consumed;
    failure = fewer than 32 bytes come before the first failure / the end (they are dropped). -/
theorem readFull_core (sc : Script) : ∀ (want : Nat) (acc : Bytes), 0 < want → want + acc.length = 32 →
    (∀ K sc', readFull sc want acc = (some K, sc') →
      32 ≤ (acc ++ dataBefore sc).length ∧ K = (acc ++ dataBefore sc).take 32 ∧
      dataBefore sc' = (acc ++ dataBefore sc).drop 32 ∧ avail sc + acc.length = avail sc' + 32) ∧
    (∀ sc', readFull sc want acc = (none, sc') → (acc ++ dataBefore sc).length < 32) := by
  induction sc with
  | nil => intro want acc hw hl; simp [readFull, dataBefore]; omega
  | cons it rest ih =>
    intro want acc hw hl
    cases it with
    | fail => simp [readFull, dataBefore]; omega
    | zero => simpa [readFull, dataBefore, avail] using ih want acc hw hl
    | data b =>
      simp only [readFull]
      split
      · rename_i hb
        have hacc : acc.length ≤ 32 := by omega
        have hwant : 32 - acc.length = want := by omega
        have e1 : (acc ++ (b ++ dataBefore rest)).take 32 = acc ++ b.take want := by
          rw [List.take_append, List.take_of_length_le hacc, hwant, List.take_append_of_le_length hb]
        have e2 : (acc ++ (b ++ dataBefore rest)).drop 32 = b.drop want ++ dataBefore rest := by
          rw [List.drop_append, List.drop_of_length_le hacc, hwant, List.drop_append_of_le_length hb]
          simp
        refine ⟨?_, by simp⟩
        intro K sc' h
        simp only [Prod.mk.injEq, Option.some.injEq] at h
        obtain ⟨hK, hsc⟩ := h
        subst hK
        refine ⟨by simp [dataBefore]; omega, by rw [dataBefore, e1], ?_, ?_⟩
        · rw [dataBefore, e2, ← hsc]
          split
          · rename_i hbw; simp [List.drop_of_length_le (Nat.le_of_eq hbw)]
          · simp [dataBefore]
        · rw [← hsc]
          split
          · simp [avail]; omega
          · simp [avail, List.length_drop]; omega
      · rename_i hb
        have := ih (want - b.length) (acc ++ b) (by omega) (by simp; omega)
        simpa [dataBefore, avail, List.append_assoc, Nat.add_assoc, Nat.add_comm, Nat.add_left_comm] using this

/-- `readFull_spec`: one 32-byte draw against the candidate list -/
theorem readFull_spec (sc : Script) :
    (∀ K sc', readFull sc 32 [] = (some K, sc') →
      candidates sc [] = K :: candidates sc' [] ∧ K.length = 32 ∧ avail sc - avail sc' = 32 ∧
      avail sc' ≤ avail sc ∧ K = (dataBefore sc).take 32) ∧
    (∀ sc', readFull sc 32 [] = (none, sc') → candidates sc [] = [] ∧ (dataBefore sc).length < 32) := by
  have core := readFull_core sc 32 [] (by omega) (by simp)
  constructor
  · intro K sc' h
    obtain ⟨hlen, hK, hrest, hav⟩ := core.1 K sc' h
    simp only [List.nil_append, List.length_nil, Nat.add_zero] at hlen hK hrest hav
    refine ⟨?_, ?_, by omega, by omega, hK⟩
    · rw [candidates_nil_eq_chunks, candidates_nil_eq_chunks, chunks_of_ge hlen, hrest, hK]
    · rw [hK, List.length_take]; omega
  · intro sc' h
    have hlen := core.2 sc' h
    simp only [List.nil_append] at hlen
    exact ⟨by rw [candidates_nil_eq_chunks, chunks_of_lt hlen], hlen⟩

/-- `readFull` returns either a buffer or nothing; stated as a case distinction for the loops -/
theorem readFull_cases (sc : Script) :
    (∃ K sc', readFull sc 32 [] = (some K, sc') ∧ candidates sc [] = K :: candidates sc' [] ∧
        K.length = 32 ∧ avail sc = avail sc' + 32) ∨
    (∃ sc', readFull sc 32 [] = (none, sc') ∧ candidates sc [] = []) := by
  rcases h : readFull sc 32 [] with ⟨_ | K, sc'⟩
  · exact Or.inr ⟨sc', rfl, ((readFull_spec sc).2 sc' h).1⟩
  · obtain ⟨h1, h2, h3, h4, _⟩ := (readFull_spec sc).1 K sc' h
    exact Or.inl ⟨K, sc', rfl, h1, h2, by omega⟩

/-- a failing or exhausted reader: whatever was read before is dropped -/
theorem readFull_fail_first (r : Script) : (readFull (.fail :: r) 32 []).1 = none := rfl
theorem readFull_eof : (readFull [] 32 []).1 = none := rfl

/-- a failure in the middle of a draw: the bytes already read are not used -/
theorem readFull_fail_middle (b : Bytes) (hb : b.length < 32) (r : Script) :
    (readFull (.data b :: .fail :: r) 32 []).1 = none := by
  have : ¬ b.length ≥ 32 := by omega
  simp [readFull, this]

/-- a short read without error is completed by further reads -/
theorem readFull_short_reads (b₁ b₂ : Bytes) (h : (b₁ ++ b₂).length = 32) (h1 : b₁.length < 32) (r : Script) :
    readFull (.data b₁ :: .zero :: .data b₂ :: r) 32 [] = (some (b₁ ++ b₂), r) := by
  have hn : ¬ b₁.length ≥ 32 := by omega
  have h2 : b₂.length = 32 - b₁.length := by simp at h; omega
  simp [readFull, hn, h2]
  exact List.take_of_length_le (by omega)

end SMGo.Proofs.SM2Reader
