import SMGo.Proofs.ISAValFusedSr
import SMGo.Proofs.ISAValGhashB4
import SMGo.Proofs.ISAValWideMem
namespace SMGo.Proofs.ISAVal
open SMGo.Model.ISAVal SMGo.Proofs.ISATouch
open SMGo.Model.ISA (Reg Opd Instr)

/-- the vector registers a `subRound` on `A` leaves alone -/
def srKeepV (A : Nat) : List Nat := (List.range 32).filter (fun n => !([0, 1, 2, 3, 4, 5, 13, A].contains n))

theorem sr_writes (vl kr A B C D : Nat) :
    writesNone (srCode vl kr A B C D) (List.range 16) (srKeepV A) (List.range 8) = true := by
  simp [writesNone, srCode, leaves, touchesOf, tVec3, tVecImm, tVecImm2, tBroadcastD, ins, R, G, srKeepV]

/-- dword lane `j` of the four state registers carries the window `X j` -/
structure ReadyF (vl A B C D : Nat) (X : Nat → Nat × Nat × Nat × Nat) (s : State) : Prop where
  lenG : s.gpr.length = 16
  lenV : s.vec.length = 32
  v10 : vreg s 10 = PREvl 64
  v11 : vreg s 11 = POSTvl 64
  xA : ∀ j, j < vl / 4 → lane 32 j (vreg s A) = (X j).1
  xB : ∀ j, j < vl / 4 → lane 32 j (vreg s B) = (X j).2.1
  xC : ∀ j, j < vl / 4 → lane 32 j (vreg s C) = (X j).2.2.1
  xD : ∀ j, j < vl / 4 → lane 32 j (vreg s D) = (X j).2.2.2

theorem srInst_facts {A B C D : Nat} (h : srInst A B C D) :
    B ∈ srKeepV A ∧ C ∈ srKeepV A ∧ D ∈ srKeepV A ∧ 10 ∈ srKeepV A ∧ 11 ∈ srKeepV A ∧ srInst B C D A := by
  rcases h with ⟨rfl, rfl, rfl, rfl⟩ | ⟨rfl, rfl, rfl, rfl⟩ | ⟨rfl, rfl, rfl, rfl⟩ | ⟨rfl, rfl, rfl, rfl⟩ |
    ⟨rfl, rfl, rfl, rfl⟩ | ⟨rfl, rfl, rfl, rfl⟩ | ⟨rfl, rfl, rfl, rfl⟩ | ⟨rfl, rfl, rfl, rfl⟩ |
    ⟨rfl, rfl, rfl, rfl⟩ | ⟨rfl, rfl, rfl, rfl⟩ | ⟨rfl, rfl, rfl, rfl⟩ | ⟨rfl, rfl, rfl, rfl⟩ <;>
  refine ⟨by decide, by decide, by decide, by decide, by decide, ?_⟩ <;> simp [srInst]

/-- one `subRound`: the window advances by one round, the roles of the registers rotate -/
theorem sr_step (vl kr A B C D : Nat) (hvl : validVl vl = true) (hinst : srInst A B C D) (s : State)
    (X : Nat → Nat × Nat × Nat × Nat) (kv : Nat) (r : ReadyF vl A B C D X s) (hkr : kr < 16) (hk : greg s kr % 2 ^ 32 = kv) :
    ∃ s', execList (srCode vl kr A B C D) s = .ok s' ∧ ReadyF vl B C D A (fun j => stepN (X j) kv) s' ∧
      Keeps (List.range 16) (srKeepV A) (List.range 8) s s' := by
  obtain ⟨s', hrun, hA⟩ := sr_spec vl kr A B C D hvl hinst s r.lenG r.lenV hkr r.v10 r.v11
  have kp := keeps_of_exec _ (sr_writes vl kr A B C D) hrun
  obtain ⟨fB, fC, fD, f10, f11, _⟩ := srInst_facts hinst
  refine ⟨s', hrun, ?_, kp⟩
  refine ⟨kp.lenG.trans r.lenG, kp.lenV.trans r.lenV, (kp.v 10 f10).trans r.v10, (kp.v 11 f11).trans r.v11, ?_, ?_, ?_, ?_⟩
  · intro j hj; rw [kp.v B fB]; exact r.xB j hj
  · intro j hj; rw [kp.v C fC]; exact r.xC j hj
  · intro j hj; rw [kp.v D fD]; exact r.xD j hj
  · intro j hj
    rw [hA j hj, r.xA j hj, r.xB j hj, r.xC j hj, r.xD j hj, hk]
    rfl


theorem a_movl_load_gpr (s : State) (b d : Nat) (disp : Int) (bs : List Nat) (hb : b < s.gpr.length) (hd : d < s.gpr.length)
    (hload : readMem s.mem ((greg s b + 0 + imm64 disp) % 2 ^ 64) 4 = .ok bs) :
    execD s (ins .MOVL [M b disp, G d] 0) = .ok (setGreg s d (unlanes 8 bs % 2 ^ 32)) := by
  obtain ⟨g, v, k, fl, mem, syms, frame⟩ := s
  have hgb := getElem?_getD g b hb
  have hgd := getElem?_getD g d hd
  have hd' : d < g.length := hd
  simp only [greg, Nat.add_zero] at hload
  simp only [execD, ins, M, G, exMov, aluWidth, effAddr, getG, hgb, hgd, ok_bind, pure_eq_ok, Nat.add_zero, loadLE, hload,
    Except.map, setG, mergeG, setGreg, if_pos hd']
  rw [if_neg (by decide), if_pos trivial]

/-- the general registers of the fused round macros: round-key pointer and the four key registers -/
def gprInst (rk r1 r2 r3 r4 : Nat) : Prop :=
  (rk = 15 ∧ r1 = 1 ∧ r2 = 2 ∧ r3 = 13 ∧ r4 = 11) ∨ (rk = 15 ∧ r1 = 1 ∧ r2 = 2 ∧ r3 = 11 ∧ r4 = 12)

def rnKeepG (rk r1 r2 r3 r4 : Nat) : List Nat := (List.range 16).filter (fun n => !([rk, r1, r2, r3, r4].contains n))
def rnKeepV (A B C D : Nat) : List Nat := (List.range 32).filter (fun n => !([0, 1, 2, 3, 4, 5, 13, A, B, C, D].contains n))

theorem rn_writes (vl rk r1 r2 r3 r4 A B C D : Nat) :
    writesNone (rnCode vl rk r1 r2 r3 r4 A B C D) (rnKeepG rk r1 r2 r3 r4) (rnKeepV A B C D) (List.range 8) = true := by
  simp [writesNone, rnCode, srCode, leaves, touchesOf, tVec3, tVecImm, tVecImm2, tBroadcastD, tMov, tAlu, aluWidth, memT,
    ins, R, G, M, rnKeepG, rnKeepV]

theorem ea4 (base : Nat) (k : Nat) (h : base + k < 2 ^ 64) (hk : k < 2 ^ 63) : (base + 0 + imm64 (k : Int)) % 2 ^ 64 = base + k := by
  rw [imm64_natCast k (by omega), Nat.add_zero, Nat.mod_eq_of_lt h]

/-- **one `roundNew`**: four round keys from memory, four rounds on every dword lane -/
theorem rn_step (vl rk r1 r2 r3 r4 A B C D : Nat) (hvl : validVl vl = true) (hinst : srInst A B C D)
    (hg : gprInst rk r1 r2 r3 r4) (s : State) (X : Nat → Nat × Nat × Nat × Nat) (r : ReadyF vl A B C D X s)
    (base : Nat) (hbase : greg s rk = base) (hb : base + 16 < 2 ^ 64) (kb : Nat → List Nat)
    (hread : ∀ i, i < 4 → readMem s.mem (base + 4 * i) 4 = .ok (kb i)) :
    ∃ s', execList (rnCode vl rk r1 r2 r3 r4 A B C D) s = .ok s' ∧
      ReadyF vl A B C D (fun j => stepN (stepN (stepN (stepN (X j) (unlanes 8 (kb 0) % 2 ^ 32)) (unlanes 8 (kb 1) % 2 ^ 32))
        (unlanes 8 (kb 2) % 2 ^ 32)) (unlanes 8 (kb 3) % 2 ^ 32)) s' ∧
      greg s' rk = base + 16 ∧
      Keeps (rnKeepG rk r1 r2 r3 r4) (rnKeepV A B C D) (List.range 8) s s' := by
  have hG := r.lenG
  -- the four loads
  have e0 : (greg s rk + 0 + imm64 0) % 2 ^ 64 = base + 4 * 0 := by rw [hbase]; exact ea4 base 0 (by omega) (by decide)
  have e1 : ∀ t : State, greg t rk = base → (greg t rk + 0 + imm64 4) % 2 ^ 64 = base + 4 * 1 := by
    intro t ht; rw [ht]; exact ea4 base 4 (by omega) (by decide)
  have e2 : ∀ t : State, greg t rk = base → (greg t rk + 0 + imm64 8) % 2 ^ 64 = base + 4 * 2 := by
    intro t ht; rw [ht]; exact ea4 base 8 (by omega) (by decide)
  have e3 : ∀ t : State, greg t rk = base → (greg t rk + 0 + imm64 12) % 2 ^ 64 = base + 4 * 3 := by
    intro t ht; rw [ht]; exact ea4 base 12 (by omega) (by decide)
  have hrk : rk < 16 ∧ r1 < 16 ∧ r2 < 16 ∧ r3 < 16 ∧ r4 < 16 ∧ rk ≠ r1 ∧ rk ≠ r2 ∧ rk ≠ r3 ∧ rk ≠ r4 ∧ r1 ≠ r2 ∧ r1 ≠ r3 ∧ r1 ≠ r4
      ∧ r2 ≠ r3 ∧ r2 ≠ r4 ∧ r3 ≠ r4 := by
    rcases hg with ⟨rfl, rfl, rfl, rfl, rfl⟩ | ⟨rfl, rfl, rfl, rfl, rfl⟩ <;> decide
  obtain ⟨lk, l1, l2, l3, l4, n1, n2, n3, n4, n12, n13, n14, n23, n24, n34⟩ := hrk
  let K0 := unlanes 8 (kb 0) % 2 ^ 32
  let K1 := unlanes 8 (kb 1) % 2 ^ 32
  let K2 := unlanes 8 (kb 2) % 2 ^ 32
  let K3 := unlanes 8 (kb 3) % 2 ^ 32
  let s1 := setGreg s r1 K0
  let s2 := setGreg s1 r2 K1
  let s3 := setGreg s2 r3 K2
  let s4 := setGreg s3 r4 K3
  have g1 : greg s1 rk = base := by rw [greg_setGreg_ne s r1 K0 rk n1]; exact hbase
  have g2 : greg s2 rk = base := by rw [greg_setGreg_ne s1 r2 K1 rk n2]; exact g1
  have g3 : greg s3 rk = base := by rw [greg_setGreg_ne s2 r3 K2 rk n3]; exact g2
  have g4 : greg s4 rk = base := by rw [greg_setGreg_ne s3 r4 K3 rk n4]; exact g3
  have x1 : execD s (ins .MOVL [M rk 0, G r1] 0) = .ok s1 :=
    a_movl_load_gpr s rk r1 0 (kb 0) (by omega) (by omega) (by rw [e0]; exact hread 0 (by decide))
  have x2 : execD s1 (ins .MOVL [M rk 4, G r2] 0) = .ok s2 :=
    a_movl_load_gpr s1 rk r2 4 (kb 1) (by simp [s1]; omega) (by simp [s1]; omega) (by rw [e1 s1 g1]; exact hread 1 (by decide))
  have x3 : execD s2 (ins .MOVL [M rk 8, G r3] 0) = .ok s3 :=
    a_movl_load_gpr s2 rk r3 8 (kb 2) (by simp [s1, s2]; omega) (by simp [s1, s2]; omega) (by rw [e2 s2 g2]; exact hread 2 (by decide))
  have x4 : execD s3 (ins .MOVL [M rk 12, G r4] 0) = .ok s4 :=
    a_movl_load_gpr s3 rk r4 12 (kb 3) (by simp [s1, s2, s3]; omega) (by simp [s1, s2, s3]; omega) (by rw [e3 s3 g3]; exact hread 3 (by decide))
  -- the key registers in s4
  have k1 : greg s4 r1 % 2 ^ 32 = K0 := by
    rw [greg_setGreg_ne s3 r4 K3 r1 n14, greg_setGreg_ne s2 r3 K2 r1 n13, greg_setGreg_ne s1 r2 K1 r1 n12,
      greg_setGreg_eq s r1 K0 (by omega)]
    exact Nat.mod_mod _ _
  have k2 : greg s4 r2 % 2 ^ 32 = K1 := by
    rw [greg_setGreg_ne s3 r4 K3 r2 n24, greg_setGreg_ne s2 r3 K2 r2 n23, greg_setGreg_eq s1 r2 K1 (by simp [s1]; omega)]
    exact Nat.mod_mod _ _
  have k3 : greg s4 r3 % 2 ^ 32 = K2 := by
    rw [greg_setGreg_ne s3 r4 K3 r3 n34, greg_setGreg_eq s2 r3 K2 (by simp [s1, s2]; omega)]
    exact Nat.mod_mod _ _
  have k4 : greg s4 r4 % 2 ^ 32 = K3 := by
    rw [greg_setGreg_eq s3 r4 K3 (by simp [s1, s2, s3]; omega)]
    exact Nat.mod_mod _ _
  have r4' : ReadyF vl A B C D X s4 :=
    ⟨by simp [s1, s2, s3, s4]; exact hG, r.lenV, r.v10, r.v11, r.xA, r.xB, r.xC, r.xD⟩
  -- four sub-rounds
  obtain ⟨_, _, _, _, _, iB⟩ := srInst_facts hinst
  obtain ⟨_, _, _, _, _, iC⟩ := srInst_facts iB
  obtain ⟨_, _, _, _, _, iD⟩ := srInst_facts iC
  obtain ⟨t1, hr1, rd1, kp1⟩ := sr_step vl r1 A B C D hvl hinst s4 X K0 r4' l1 k1
  obtain ⟨t2, hr2, rd2, kp2⟩ := sr_step vl r2 B C D A hvl iB t1 _ K1 rd1 l2
    (by rw [kp1.g r2 (List.mem_range.mpr l2)]; exact k2)
  obtain ⟨t3, hr3, rd3, kp3⟩ := sr_step vl r3 C D A B hvl iC t2 _ K2 rd2 l3
    (by rw [kp2.g r3 (List.mem_range.mpr l3), kp1.g r3 (List.mem_range.mpr l3)]; exact k3)
  obtain ⟨t4, hr4, rd4, kp4⟩ := sr_step vl r4 D A B C hvl iD t3 _ K3 rd3 l4
    (by rw [kp3.g r4 (List.mem_range.mpr l4), kp2.g r4 (List.mem_range.mpr l4), kp1.g r4 (List.mem_range.mpr l4)]; exact k4)
  -- ADDQ $16, rk
  have gt4 : greg t4 rk = base := by
    rw [kp4.g rk (List.mem_range.mpr lk), kp3.g rk (List.mem_range.mpr lk), kp2.g rk (List.mem_range.mpr lk),
      kp1.g rk (List.mem_range.mpr lk)]; exact g4
  have x5 := a_addq_imm t4 16 rk (by rw [rd4.lenG]; exact lk)
  rw [gt4, addF_fst, imm64_16, Nat.mod_eq_of_lt (by omega : base + 16 < 2 ^ 64)] at x5
  have hrun : execList (rnCode vl rk r1 r2 r3 r4 A B C D) s = .ok (setFlags (setGreg t4 rk (base + 16)) (addF 8 base 16).2) := by
    unfold rnCode
    simp only [List.cons_append, List.nil_append, List.append_assoc]
    apply exec_step x1
    apply exec_step x2
    apply exec_step x3
    apply exec_step x4
    apply execList_append_ok hr1
    apply execList_append_ok hr2
    apply execList_append_ok hr3
    apply execList_append_ok hr4
    apply exec_step x5
    exact execList_nil _
  refine ⟨_, hrun, ?_, ?_, keeps_of_exec _ (rn_writes vl rk r1 r2 r3 r4 A B C D) hrun⟩
  · exact ⟨by simp; exact rd4.lenG, rd4.lenV, rd4.v10, rd4.v11, rd4.xA, rd4.xB, rd4.xC, rd4.xD⟩
  · show greg (setGreg t4 rk (base + 16)) rk = base + 16
    exact greg_setGreg_eq t4 rk _ (by rw [rd4.lenG]; exact lk)

end SMGo.Proofs.ISAVal
